module verif/gen-conc

go 1.23
