// gen-conc: protocol-shape extractor for the concurrency properties C18/C19 (tie T2).
//
// It parses the Go sources of the current tree (go/ast only, no type checking) and checks that
// the synchronisation code still has the shape that the Lean models Conc.Lazy / Conc.Dcl /
// Conc.Reg describe.  Every extracted shape becomes a constant of lean/PbVerif/Gen/ConcFacts.lean;
// Model/ConcCode.lean selects the protocol variant of the models from these constants, so a
// changed shape changes the generated file and the theorems no longer apply (the proof breaks).
// The manifest lists, per anchor, "ok" or what is wrong, and a hash of the anchored source.
package main

import (
	"bytes"
	"crypto/sha1"
	"encoding/hex"
	"encoding/json"
	"flag"
	"fmt"
	"go/ast"
	"go/parser"
	"go/printer"
	"go/token"
	"os"
	"path/filepath"
	"runtime"
	"sort"
	"strings"
)

type entry struct {
	Status string `json:"status"`
	Hash   string `json:"hash"`
}

var (
	fset     = token.NewFileSet()
	manifest = map[string]*entry{}
	repo     string
)

type fact struct {
	name, typ, val, doc string
}

var facts []fact

func addBool(name string, v bool, doc string) {
	facts = append(facts, fact{name, "Bool", fmt.Sprint(v), doc})
}
func addNat(name string, v int, doc string) {
	facts = append(facts, fact{name, "Nat", fmt.Sprint(v), doc})
}

func str(n ast.Node) string {
	if n == nil {
		return ""
	}
	var b bytes.Buffer
	printer.Fprint(&b, fset, n)
	return b.String()
}

func hashOf(nodes ...ast.Node) string {
	h := sha1.New()
	for _, n := range nodes {
		if n != nil && !isNilNode(n) {
			h.Write([]byte(str(n)))
			h.Write([]byte{0})
		}
	}
	return hex.EncodeToString(h.Sum(nil))[:16]
}

func isNilNode(n ast.Node) bool {
	switch x := n.(type) {
	case *ast.FuncDecl:
		return x == nil
	case *ast.File:
		return x == nil
	}
	return false
}

func report(name string, problems []string, nodes ...ast.Node) bool {
	st := "ok"
	if len(problems) > 0 {
		st = strings.Join(problems, "; ")
	}
	manifest[name] = &entry{Status: st, Hash: hashOf(nodes...)}
	return len(problems) == 0
}

func parse(rel string) *ast.File {
	p := rel
	if !filepath.IsAbs(rel) {
		p = filepath.Join(repo, rel)
	}
	f, err := parser.ParseFile(fset, p, nil, parser.ParseComments)
	if err != nil {
		return nil
	}
	stripHooks(f)
	return f
}

// stripHooks removes the calls of the verification event hooks (`verifhook.X(…)`, `defer verifhook.X(…)`,
// see /verif/fixes/hook-conc.diff) so that the shapes are matched on the code proper.
func stripHooks(f *ast.File) {
	isHook := func(s ast.Stmt) bool {
		switch v := s.(type) {
		case *ast.ExprStmt:
			if c, ok := v.X.(*ast.CallExpr); ok {
				return strings.HasPrefix(str(c.Fun), "verifhook.")
			}
		case *ast.DeferStmt:
			return strings.HasPrefix(str(v.Call.Fun), "verifhook.")
		}
		return false
	}
	ast.Inspect(f, func(x ast.Node) bool {
		if b, ok := x.(*ast.BlockStmt); ok {
			out := b.List[:0:0]
			for _, s := range b.List {
				if !isHook(s) {
					out = append(out, s)
				}
			}
			b.List = out
		}
		return true
	})
}

// findFunc finds a function (recv == "") or a method on recv / *recv.
func findFunc(f *ast.File, recv, name string) *ast.FuncDecl {
	if f == nil {
		return nil
	}
	for _, d := range f.Decls {
		fd, ok := d.(*ast.FuncDecl)
		if !ok || fd.Name.Name != name {
			continue
		}
		if recvName(fd) == recv {
			return fd
		}
	}
	return nil
}

func recvName(fd *ast.FuncDecl) string {
	if fd.Recv == nil || len(fd.Recv.List) == 0 {
		return ""
	}
	t := fd.Recv.List[0].Type
	if s, ok := t.(*ast.StarExpr); ok {
		t = s.X
	}
	if ix, ok := t.(*ast.IndexExpr); ok {
		t = ix.X
	}
	if id, ok := t.(*ast.Ident); ok {
		return id.Name
	}
	return "?"
}

// callName returns "pkg.Func" / "x.y.Method" of a call expression, "" otherwise.
func callName(e ast.Expr) string {
	c, ok := e.(*ast.CallExpr)
	if !ok {
		return ""
	}
	return str(c.Fun)
}

func stmtCall(s ast.Stmt) *ast.CallExpr {
	if es, ok := s.(*ast.ExprStmt); ok {
		if c, ok := es.X.(*ast.CallExpr); ok {
			return c
		}
	}
	return nil
}

func isNilExpr(e ast.Expr) bool {
	s := strings.ReplaceAll(str(e), " ", "")
	return s == "nil" || s == "unsafe.Pointer(nil)"
}

// calls collects every call expression below n whose printed callee has the given suffix.
func calls(n ast.Node, suffix string) []*ast.CallExpr {
	var out []*ast.CallExpr
	if n == nil {
		return out
	}
	ast.Inspect(n, func(x ast.Node) bool {
		if c, ok := x.(*ast.CallExpr); ok && strings.HasSuffix(str(c.Fun), suffix) {
			out = append(out, c)
		}
		return true
	})
	return out
}

func body(fd *ast.FuncDecl) []ast.Stmt {
	if fd == nil || fd.Body == nil {
		return nil
	}
	return fd.Body.List
}

// ---------------------------------------------------------------------------- C18

func checkSetIfNil() {
	f := parse("internal/impl/pointer_unsafe_opaque.go")
	fd := findFunc(f, "pointer", "AtomicSetPointerIfNil")
	var probs []string
	isCAS := false
	if fd == nil {
		probs = append(probs, "pointer.AtomicSetPointerIfNil not found")
	} else {
		b := body(fd)
		if len(b) >= 1 {
			if ifs, ok := b[0].(*ast.IfStmt); ok && ifs.Init == nil {
				cond := ifs.Cond
				if u, ok := cond.(*ast.UnaryExpr); ok && u.Op == token.NOT { // `if !CAS { return load }; return v`
					cond = u.X
				}
				if c, ok := cond.(*ast.CallExpr); ok && str(c.Fun) == "atomic.CompareAndSwapPointer" && len(c.Args) == 3 && isNilExpr(c.Args[1]) {
					isCAS = true
				}
			}
		}
		if !isCAS {
			probs = append(probs, "first statement is not `if atomic.CompareAndSwapPointer(p, nil, v)`")
		}
		if n := len(calls(fd, "StorePointer")) + len(calls(fd, "SwapPointer")) - len(calls(fd, "CompareAndSwapPointer")); n > 0 {
			probs = append(probs, "contains an unconditional pointer store")
			isCAS = false
		}
		ast.Inspect(fd, func(x ast.Node) bool {
			if as, ok := x.(*ast.AssignStmt); ok {
				for _, l := range as.Lhs {
					if _, ok := l.(*ast.StarExpr); ok {
						probs = append(probs, "contains a plain store through a pointer")
						isCAS = false
					}
				}
			}
			return true
		})
		if isCAS && len(calls(fd, "atomic.LoadPointer")) != 1 {
			probs = append(probs, "losing path does not return the atomically loaded value")
		}
	}
	report("AtomicSetPointerIfNil", probs, fd)
	addBool("setIfNilIsCAS", isCAS, "pointer_unsafe_opaque.go: AtomicSetPointerIfNil is `if atomic.CompareAndSwapPointer(p, nil, v) { return v }; return load(p)` and stores nowhere else")
	// the getter side: AtomicCheckPointerIsNil / AtomicLoadPointer are atomic loads
	g := parse("internal/impl/api_export_opaque.go")
	var p2 []string
	chk := findFunc(g, "Export", "AtomicCheckPointerIsNil")
	ld := findFunc(g, "Export", "AtomicLoadPointer")
	ag := findFunc(g, "pointer", "atomicGetPointer")
	okLoads := chk != nil && ld != nil && ag != nil &&
		len(calls(chk, "atomicGetPointer")) == 1 && len(calls(ag, "atomic.LoadPointer")) == 1 && len(calls(ld, "atomic.LoadPointer")) == 1
	if !okLoads {
		p2 = append(p2, "AtomicCheckPointerIsNil/AtomicLoadPointer are not single atomic.LoadPointer reads")
	}
	pr := findFunc(g, "Export", "Present")
	okPresent := pr != nil && len(calls(pr, "atomic.LoadUint32")) == 1
	if !okPresent {
		p2 = append(p2, "Export.Present does not read the presence word with atomic.LoadUint32")
	}
	report("getter.atomics", p2, chk, ld, ag, pr)
	addBool("getterLoadsAreAtomic", okLoads && okPresent, "api_export_opaque.go: Present, AtomicCheckPointerIsNil and AtomicLoadPointer are single atomic loads")
}

func checkLazyUnmarshal() {
	f := parse("internal/impl/lazy.go")
	fd := findFunc(f, "MessageInfo", "lazyUnmarshal")
	var probs []string
	fresh, publishes, afterAll := false, false, false
	if fd == nil {
		probs = append(probs, "MessageInfo.lazyUnmarshal not found")
	} else {
		b := body(fd)
		// fresh object: fp := pointerOfValue(reflect.New(f.ft))
		fpName := ""
		for _, s := range b {
			if as, ok := s.(*ast.AssignStmt); ok && as.Tok == token.DEFINE && len(as.Lhs) == 1 && len(as.Rhs) == 1 {
				if len(calls(as.Rhs[0], "reflect.New")) == 1 && callName(as.Rhs[0]) == "pointerOfValue" {
					fpName = str(as.Lhs[0])
				}
			}
		}
		if fpName == "" {
			probs = append(probs, "no fresh object `fp := pointerOfValue(reflect.New(f.ft))`")
		} else {
			fresh = true
			for _, c := range calls(fd, "unmarshalField") {
				if len(c.Args) < 2 || str(c.Args[1]) != fpName {
					fresh = false
					probs = append(probs, "unmarshalField decodes into "+str(c.Args[1])+", not into the fresh object")
				}
			}
			if len(calls(fd, "unmarshalField")) == 0 {
				fresh = false
				probs = append(probs, "no unmarshalField call")
			}
		}
		// publication: only through AtomicSetPointerIfNil(fp.Elem()) …
		cas := calls(fd, "AtomicSetPointerIfNil")
		if len(cas) == 0 {
			probs = append(probs, "does not publish through AtomicSetPointerIfNil")
		} else {
			publishes = fpName != ""
			for _, c := range cas {
				if len(c.Args) != 1 || str(c.Args[0]) != fpName+".Elem()" {
					publishes = false
					probs = append(probs, "AtomicSetPointerIfNil does not publish the fresh object")
				}
			}
		}
		// … exactly once, as the LAST action: a top-level expression statement of the function body (not inside
		// a loop, branch or closure), with every unmarshalField call (all index entries) in the statements before it
		// (only verification hook calls may follow; they are stripped before matching).
		if len(cas) == 1 && len(b) > 0 {
			lastStmt := b[len(b)-1]
			if c := stmtCall(lastStmt); c != nil && c == cas[0] && strings.ReplaceAll(str(c.Fun), " ", "") == "p.Apply(f.offset).AtomicSetPointerIfNil" {
				afterAll = true
				for _, uc := range calls(fd, "unmarshalField") {
					if uc.Pos() >= lastStmt.Pos() {
						afterAll = false
					}
				}
				nUnm := 0
				for _, st := range b[:len(b)-1] {
					nUnm += len(calls(st, "unmarshalField"))
				}
				if nUnm != len(calls(fd, "unmarshalField")) || nUnm == 0 {
					afterAll = false
				}
				// the multi-entry loop merges every entry before the publication
				loopOK := false
				ast.Inspect(&ast.BlockStmt{List: b[:len(b)-1]}, func(x ast.Node) bool {
					if rs, ok := x.(*ast.RangeStmt); ok && str(rs.X) == "multipleEntries" && len(calls(rs.Body, "unmarshalField")) == 1 {
						loopOK = true
					}
					return true
				})
				if !loopOK {
					afterAll = false
					probs = append(probs, "no `for _, entry := range multipleEntries { mi.unmarshalField(…) }` before the publishing CAS")
				}
			}
		}
		if !afterAll {
			where := "missing"
			if len(cas) > 1 {
				where = fmt.Sprintf("%d publishing CAS calls", len(cas))
			} else if len(cas) == 1 {
				where = "the publishing CAS is not the last top-level statement (it is inside a loop/branch, or statements follow it): line " + fmt.Sprint(fset.Position(cas[0].Pos()).Line)
			}
			probs = append(probs, "the object is not published as the last action, after all index entries are merged: "+where)
		}
		for _, bad := range []string{".AtomicSetPointer", ".atomicSetPointer", "StorePointer", ".AtomicSetNilPointer"} {
			if len(calls(fd, bad)) > 0 {
				publishes = false
				probs = append(probs, "contains a plain store "+bad)
			}
		}
		ast.Inspect(fd, func(x ast.Node) bool {
			if as, ok := x.(*ast.AssignStmt); ok {
				for _, l := range as.Lhs {
					if _, ok := l.(*ast.StarExpr); ok {
						publishes = false
						probs = append(probs, "contains a plain store through a pointer: "+firstLine(str(as)))
					}
				}
			}
			return true
		})
	}
	report("lazyUnmarshal", probs, fd)
	addBool("lazyUnmarshalDecodesIntoFresh", fresh, "lazy.go: lazyUnmarshal decodes into a freshly allocated object (reflect.New), never into the message")
	addBool("lazyUnmarshalPublishesViaSetIfNil", publishes, "lazy.go: lazyUnmarshal publishes only through AtomicSetPointerIfNil(fp.Elem()); no other store")
	addBool("lazyUnmarshalPublishesAfterAllEntries", publishes && afterAll, "lazy.go: the one publishing CAS is the last top-level statement of lazyUnmarshal, after the loop that merges every index entry (multipleEntries) into the fresh object — never inside a loop or branch")
}

func firstLine(s string) string {
	if i := strings.IndexByte(s, '\n'); i >= 0 {
		s = s[:i]
	}
	if len(s) > 90 {
		s = s[:90]
	}
	return s
}

// checkGetterGenerator: the order of the emitted calls in cmd/protoc-gen-go/internal_gengo/opaque.go.
func checkGetterGenerator() {
	f := parse("cmd/protoc-gen-go/internal_gengo/opaque.go")
	var probs []string
	ok := false
	var fn *ast.FuncDecl
	if f != nil {
		for _, d := range f.Decls {
			if fd, isFn := d.(*ast.FuncDecl); isFn && len(calls(fd, "g.P")) > 0 {
				s := str(fd)
				if strings.Contains(s, `".AtomicCheckPointerIsNil(&"`) && strings.Contains(s, `".AtomicLoadPointer("`) {
					fn = fd
					break
				}
			}
		}
	}
	if fn == nil {
		probs = append(probs, "getter generator (function emitting AtomicCheckPointerIsNil and AtomicLoadPointer) not found")
	} else {
		// positions of the emitting g.P calls, in source order
		pos := map[string]token.Pos{}
		ast.Inspect(fn, func(x ast.Node) bool {
			c, isCall := x.(*ast.CallExpr)
			if !isCall || str(c.Fun) != "g.P" {
				return true
			}
			s := str(c)
			for _, key := range []string{`".Present(&("`, `".AtomicCheckPointerIsNil(&"`, `".UnmarshalField("`, `".AtomicLoadPointer("`, `"return ", star, "rv"`} {
				if strings.Contains(s, key) {
					if _, seen := pos[key]; !seen {
						pos[key] = c.Pos()
					}
				}
			}
			return true
		})
		order := []string{`".Present(&("`, `".AtomicCheckPointerIsNil(&"`, `".UnmarshalField("`, `".AtomicLoadPointer("`, `"return ", star, "rv"`}
		ok = true
		for i, k := range order {
			if _, seen := pos[k]; !seen {
				ok = false
				probs = append(probs, "generator no longer emits "+k)
			} else if i > 0 && pos[order[i-1]] >= pos[k] {
				ok = false
				probs = append(probs, "generator emits "+k+" before "+order[i-1])
			}
		}
		// the load is emitted under `if isLazy(field)`: the only return of a lazy message getter
		if ok {
			found := false
			ast.Inspect(fn, func(x ast.Node) bool {
				if ifs, isIf := x.(*ast.IfStmt); isIf && str(ifs.Cond) == "isLazy(field)" {
					s := str(ifs.Body)
					if strings.Contains(s, `".AtomicLoadPointer("`) && strings.Contains(s, `"return ", star, "rv"`) {
						found = true
					}
				}
				return true
			})
			if !found {
				ok = false
				probs = append(probs, "AtomicLoadPointer + return rv are not emitted together under isLazy(field)")
			}
		}
	}
	report("gengo.getter", probs, fn)
	addBool("generatorEmitsProtocolOrder", ok, "internal_gengo/opaque.go emits Present, AtomicCheckPointerIsNil, UnmarshalField, AtomicLoadPointer, return rv in this order")
}

// checkGeneratedGetters: every generated function that calls protoimpl.X.UnmarshalField has the shape
//
//	if protoimpl.X.Present(..) { if protoimpl.X.AtomicCheckPointerIsNil(&x.F) { protoimpl.X.UnmarshalField(x, n) }
//	  var rv T; protoimpl.X.AtomicLoadPointer(protoimpl.Pointer(&x.F), protoimpl.Pointer(&rv)); return rv }
func checkGeneratedGetters() {
	// every generated file of the tree that contains a lazy getter
	var files []string
	filepath.Walk(repo, func(p string, info os.FileInfo, err error) error {
		if err != nil {
			return nil
		}
		if info.IsDir() && (info.Name() == ".git" || info.Name() == "node_modules") {
			return filepath.SkipDir
		}
		if !info.IsDir() && strings.HasSuffix(p, ".pb.go") {
			if data, err := os.ReadFile(p); err == nil && bytes.Contains(data, []byte("protoimpl.X.UnmarshalField(")) {
				rel, _ := filepath.Rel(repo, p)
				files = append(files, rel)
			}
		}
		return nil
	})
	sort.Strings(files)
	total, good := 0, 0
	var probs []string
	var nodes []ast.Node
	for _, rel := range files {
		f := parse(rel)
		if f == nil {
			probs = append(probs, rel+" does not parse")
			continue
		}
		for _, d := range f.Decls {
			fd, ok := d.(*ast.FuncDecl)
			if !ok || len(calls(fd, "protoimpl.X.UnmarshalField")) == 0 {
				continue
			}
			total++
			nodes = append(nodes, fd)
			if why := getterShape(fd); why == "" {
				good++
			} else {
				probs = append(probs, filepath.Base(rel)+":"+recvName(fd)+"."+fd.Name.Name+": "+why)
			}
		}
	}
	if total == 0 {
		probs = append(probs, "no generated lazy getter found")
	}
	report("generated.getters", probs, nodes...)
	addNat("generatedLazyGetters", total, "generated functions (all *.pb.go of the tree) calling protoimpl.X.UnmarshalField")
	addNat("generatedLazyGettersConforming", good, "… of which have the shape Present → AtomicCheckPointerIsNil → UnmarshalField → AtomicLoadPointer → return the loaded value")
}

func getterShape(fd *ast.FuncDecl) string {
	// find the block that contains the UnmarshalField `if`
	var blk *ast.BlockStmt
	var idx int
	ast.Inspect(fd, func(x ast.Node) bool {
		b, ok := x.(*ast.BlockStmt)
		if !ok {
			return true
		}
		for i, s := range b.List {
			if ifs, ok := s.(*ast.IfStmt); ok && callName(ifs.Cond) == "protoimpl.X.AtomicCheckPointerIsNil" {
				blk, idx = b, i
			}
		}
		return true
	})
	if blk == nil {
		return "UnmarshalField is not guarded by AtomicCheckPointerIsNil"
	}
	ifs := blk.List[idx].(*ast.IfStmt)
	cell := str(ifs.Cond.(*ast.CallExpr).Args[0]) // &x.xxx_hidden_F
	if len(ifs.Body.List) != 1 || ifs.Else != nil {
		return "the nil-check guards more than the UnmarshalField call"
	}
	if c := stmtCall(ifs.Body.List[0]); c == nil || str(c.Fun) != "protoimpl.X.UnmarshalField" {
		return "the nil-check does not guard UnmarshalField"
	}
	rest := blk.List[idx+1:]
	if len(rest) != 3 {
		return fmt.Sprintf("%d statements after UnmarshalField, want `var rv; AtomicLoadPointer; return rv`", len(rest))
	}
	ds, ok := rest[0].(*ast.DeclStmt)
	if !ok {
		return "no `var rv` after UnmarshalField"
	}
	rv := ""
	if gd, ok := ds.Decl.(*ast.GenDecl); ok && len(gd.Specs) == 1 {
		if vs, ok := gd.Specs[0].(*ast.ValueSpec); ok && len(vs.Names) == 1 && len(vs.Values) == 0 {
			rv = vs.Names[0].Name
		}
	}
	c := stmtCall(rest[1])
	if c == nil || str(c.Fun) != "protoimpl.X.AtomicLoadPointer" || len(c.Args) != 2 {
		return "no AtomicLoadPointer after UnmarshalField"
	}
	if str(c.Args[0]) != "protoimpl.Pointer("+cell+")" {
		return "AtomicLoadPointer loads " + str(c.Args[0]) + ", the nil-check read " + cell
	}
	if str(c.Args[1]) != "protoimpl.Pointer(&"+rv+")" {
		return "AtomicLoadPointer does not load into the result variable"
	}
	r, ok := rest[2].(*ast.ReturnStmt)
	if !ok || len(r.Results) != 1 || (str(r.Results[0]) != rv && str(r.Results[0]) != "*"+rv) {
		return "the getter does not return the re-loaded pointer"
	}
	// the enclosing `if` must be the presence check
	found := false
	ast.Inspect(fd, func(x ast.Node) bool {
		if p, ok := x.(*ast.IfStmt); ok && p.Body == blk && callName(p.Cond) == "protoimpl.X.Present" {
			found = true
		}
		return true
	})
	if !found {
		return "the protocol is not guarded by protoimpl.X.Present"
	}
	return ""
}

// checkReflectPath: in internal/impl every `mi.lazyUnmarshal(..)` statement of message_opaque.go is directly
// followed by a re-load `x = ….AtomicGetPointer()`, and is guarded by an IsNil() test of an atomically loaded pointer.
func checkReflectPath() {
	f := parse("internal/impl/message_opaque.go")
	total, good := 0, 0
	var probs []string
	var nodes []ast.Node
	if f == nil {
		probs = append(probs, "message_opaque.go does not parse")
	} else {
		ast.Inspect(f, func(x ast.Node) bool {
			b, ok := x.(*ast.BlockStmt)
			if !ok {
				return true
			}
			for i, s := range b.List {
				c := stmtCall(s)
				if c == nil || !strings.HasSuffix(str(c.Fun), ".lazyUnmarshal") {
					continue
				}
				total++
				nodes = append(nodes, b)
				if i+1 < len(b.List) {
					if as, ok := b.List[i+1].(*ast.AssignStmt); ok && len(as.Rhs) == 1 && strings.HasSuffix(callName(as.Rhs[0]), ".AtomicGetPointer") {
						good++
						continue
					}
				}
				probs = append(probs, fset.Position(s.Pos()).String()+": lazyUnmarshal is not followed by an AtomicGetPointer re-load")
			}
			return true
		})
		if total == 0 {
			probs = append(probs, "no lazyUnmarshal call in message_opaque.go")
		}
	}
	report("reflect.get", probs, nodes...)
	addNat("reflectLazySites", total, "message_opaque.go: statements `mi.lazyUnmarshal(p, n)` in reflection accessors")
	addNat("reflectLazySitesReloading", good, "… directly followed by `x = fp.AtomicGetPointer()`")
}

// ---------------------------------------------------------------------------- C19: double-checked initialisation

// fastPath checks `if atomic.LoadUint32(&recv.flag) == 0 { recv.slow() }` as the first statement.
func fastPath(fd *ast.FuncDecl, flag, slow string) string {
	b := body(fd)
	if len(b) == 0 {
		return "not found"
	}
	ifs, ok := b[0].(*ast.IfStmt)
	if !ok {
		return "first statement is not the fast-path check"
	}
	be, ok := ifs.Cond.(*ast.BinaryExpr)
	if !ok || be.Op != token.EQL || str(be.Y) != "0" || callName(be.X) != "atomic.LoadUint32" || !strings.HasSuffix(str(be.X.(*ast.CallExpr).Args[0]), "."+flag) {
		return "fast path is not `atomic.LoadUint32(&x." + flag + ") == 0`"
	}
	if len(ifs.Body.List) != 1 || stmtCall(ifs.Body.List[0]) == nil || !strings.HasSuffix(str(stmtCall(ifs.Body.List[0]).Fun), "."+slow) {
		return "fast-path miss does not call " + slow
	}
	return ""
}

func checkMessageInfoInit() {
	f := parse("internal/impl/message.go")
	ini := findFunc(f, "MessageInfo", "init")
	once := findFunc(f, "MessageInfo", "initOnce")
	var probs []string
	fast := fastPath(ini, "initDone", "initOnce") == ""
	if !fast {
		probs = append(probs, "init: "+fastPath(ini, "initDone", "initOnce"))
	}
	locks, recheck, storeLast := false, false, false
	b := body(once)
	if len(b) < 4 {
		probs = append(probs, "initOnce: not found or too short")
	} else {
		c0 := stmtCall(b[0])
		d1, isDefer := b[1].(*ast.DeferStmt)
		locks = c0 != nil && str(c0.Fun) == "mi.initMu.Lock" && isDefer && str(d1.Call.Fun) == "mi.initMu.Unlock"
		if !locks {
			probs = append(probs, "initOnce: does not start with mi.initMu.Lock(); defer mi.initMu.Unlock()")
		}
		if ifs, ok := b[2].(*ast.IfStmt); ok && strings.ReplaceAll(str(ifs.Cond), " ", "") == "mi.initDone==1" && len(ifs.Body.List) == 1 {
			if r, ok := ifs.Body.List[0].(*ast.ReturnStmt); ok && len(r.Results) == 0 {
				recheck = true
			}
		}
		if !recheck {
			probs = append(probs, "initOnce: third statement is not the re-check `if mi.initDone == 1 { return }`")
		}
		lastC := stmtCall(b[len(b)-1])
		storeLast = lastC != nil && str(lastC.Fun) == "atomic.StoreUint32" && len(lastC.Args) == 2 && str(lastC.Args[0]) == "&mi.initDone" && str(lastC.Args[1]) == "1"
		if !storeLast {
			probs = append(probs, "initOnce: last statement is not atomic.StoreUint32(&mi.initDone, 1)")
		}
		if n := countInitDoneWrites(once); n != 1 {
			storeLast = false
			probs = append(probs, fmt.Sprintf("initOnce: %d writes of initDone, want exactly the final store", n))
		}
		// the body (makeStructInfo, makeReflectFuncs, makeCoderMethods) lies between the re-check and the store
		for _, want := range []string{"mi.makeStructInfo", "mi.makeReflectFuncs", "mi.makeCoderMethods"} {
			if len(calls(&ast.BlockStmt{List: b[3 : len(b)-1]}, want)) == 0 {
				storeLast = false
				probs = append(probs, "initOnce: "+want+" is not between the re-check and the final store")
			}
		}
	}
	// the opaque path: opaqueInitHook stores the flag in a defer (runs after the body)
	g := parse("internal/impl/message_opaque.go")
	hook := findFunc(g, "", "opaqueInitHook")
	deferred := false
	if hook == nil {
		probs = append(probs, "opaqueInitHook not found")
	} else {
		nDefer := 0
		for _, s := range body(hook) {
			if d, ok := s.(*ast.DeferStmt); ok && str(d.Call.Fun) == "atomic.StoreUint32" && len(d.Call.Args) == 2 && str(d.Call.Args[0]) == "&mi.initDone" {
				nDefer++
			}
		}
		deferred = nDefer == 1 && countInitDoneWrites(hook) == 1
		if !deferred {
			probs = append(probs, "opaqueInitHook: initDone is not stored by exactly one top-level `defer atomic.StoreUint32(&mi.initDone, 1)`")
		}
	}
	// no other function of the package writes initDone
	others := 0
	matches, _ := filepath.Glob(filepath.Join(repo, "internal/impl/*.go"))
	for _, p := range matches {
		if strings.HasSuffix(p, "_test.go") {
			continue
		}
		pf := parse(p)
		if pf == nil {
			continue
		}
		for _, d := range pf.Decls {
			if fd, ok := d.(*ast.FuncDecl); ok && fd != nil {
				if (fd.Name.Name == "initOnce" && recvName(fd) == "MessageInfo") || fd.Name.Name == "opaqueInitHook" {
					continue
				}
				others += countInitDoneWrites(fd)
			}
		}
	}
	if others > 0 {
		probs = append(probs, fmt.Sprintf("%d further writes of initDone outside initOnce/opaqueInitHook", others))
	}
	report("MessageInfo.init", probs, ini, once, hook)
	addBool("msgInfoFastPathAtomicLoad", fast, "message.go: init is `if atomic.LoadUint32(&mi.initDone) == 0 { mi.initOnce() }`")
	addBool("msgInfoLocks", locks, "message.go: initOnce starts with mi.initMu.Lock(); defer mi.initMu.Unlock()")
	addBool("msgInfoRecheckFlag", recheck, "message.go: re-check under the lock is `if mi.initDone == 1 { return }`")
	addBool("msgInfoStoreAfterBody", storeLast && deferred && others == 0, "message.go/message_opaque.go: initDone is stored only after the body (last statement of initOnce; deferred in opaqueInitHook)")
}

func countInitDoneWrites(n ast.Node) int {
	cnt := 0
	if n == nil {
		return 0
	}
	ast.Inspect(n, func(x ast.Node) bool {
		switch v := x.(type) {
		case *ast.CallExpr:
			fn := str(v.Fun)
			if (strings.HasPrefix(fn, "atomic.Store") || strings.HasPrefix(fn, "atomic.Swap") || strings.HasPrefix(fn, "atomic.CompareAndSwap") || strings.HasPrefix(fn, "atomic.Add")) &&
				len(v.Args) > 0 && strings.HasSuffix(str(v.Args[0]), ".initDone") {
				cnt++
			}
		case *ast.AssignStmt:
			for _, l := range v.Lhs {
				if strings.HasSuffix(str(l), ".initDone") {
					cnt++
				}
			}
		case *ast.IncDecStmt:
			if strings.HasSuffix(str(v.X), ".initDone") {
				cnt++
			}
		}
		return true
	})
	return cnt
}

func checkFileLazyInit() {
	f := parse("internal/filedesc/desc.go")
	li := findFunc(f, "File", "lazyInit")
	once := findFunc(f, "File", "lazyInitOnce")
	var probs []string
	fast := fastPath(li, "once", "lazyInitOnce") == ""
	if !fast {
		probs = append(probs, "lazyInit: "+fastPath(li, "once", "lazyInitOnce"))
	}
	locks, recheck, storeAfter, storeOnHit := false, false, false, false
	b := body(once)
	// strip verif hook calls
	var core []ast.Stmt
	for _, s := range b {
		if c := stmtCall(s); c != nil && strings.HasPrefix(str(c.Fun), "verifhook.") {
			continue
		}
		core = append(core, s)
	}
	if len(core) != 4 {
		probs = append(probs, fmt.Sprintf("lazyInitOnce: %d statements, want Lock; if L2 == nil {lazyRawInit}; Store; Unlock", len(core)))
	} else {
		c0, c2, c3 := stmtCall(core[0]), stmtCall(core[2]), stmtCall(core[3])
		locks = c0 != nil && str(c0.Fun) == "fd.mu.Lock" && c3 != nil && str(c3.Fun) == "fd.mu.Unlock"
		if !locks {
			probs = append(probs, "lazyInitOnce: not bracketed by fd.mu.Lock() … fd.mu.Unlock()")
		}
		if ifs, ok := core[1].(*ast.IfStmt); ok && strings.ReplaceAll(str(ifs.Cond), " ", "") == "fd.L2==nil" && ifs.Else == nil {
			var inner []ast.Stmt
			for _, s := range ifs.Body.List {
				if c := stmtCall(s); c != nil && strings.HasPrefix(str(c.Fun), "verifhook.") {
					continue
				}
				inner = append(inner, s)
			}
			if len(inner) == 1 && stmtCall(inner[0]) != nil && str(stmtCall(inner[0]).Fun) == "fd.lazyRawInit" {
				recheck = true
			}
		}
		if !recheck {
			probs = append(probs, "lazyInitOnce: second statement is not `if fd.L2 == nil { fd.lazyRawInit() }`")
		}
		storeAfter = c2 != nil && str(c2.Fun) == "atomic.StoreUint32" && len(c2.Args) == 2 && str(c2.Args[0]) == "&fd.once" && str(c2.Args[1]) == "1"
		if !storeAfter {
			probs = append(probs, "lazyInitOnce: third statement is not atomic.StoreUint32(&fd.once, 1)")
		}
		storeOnHit = storeAfter // the store is outside the `if`
	}
	// the body's first write makes L2 non-nil: lazyRawInit starts with fd.unmarshalFull, which assigns fd.L2 = new(FileL2)
	g := parse("internal/filedesc/desc_lazy.go")
	raw := findFunc(g, "File", "lazyRawInit")
	uf := findFunc(g, "File", "unmarshalFull")
	setsL2 := false
	if rb := body(raw); len(rb) > 0 && stmtCall(rb[0]) != nil && str(stmtCall(rb[0]).Fun) == "fd.unmarshalFull" && uf != nil {
		ast.Inspect(uf, func(x ast.Node) bool {
			if as, ok := x.(*ast.AssignStmt); ok && len(as.Lhs) == 1 && str(as.Lhs[0]) == "fd.L2" && strings.ReplaceAll(str(as.Rhs[0]), " ", "") == "new(FileL2)" {
				setsL2 = true
			}
			return true
		})
	}
	if !setsL2 {
		probs = append(probs, "lazyRawInit/unmarshalFull: the body does not begin by setting fd.L2 = new(FileL2)")
	}
	// fd.once is written nowhere else in the package
	others := 0
	matches, _ := filepath.Glob(filepath.Join(repo, "internal/filedesc/*.go"))
	for _, p := range matches {
		if strings.HasSuffix(p, "_test.go") {
			continue
		}
		pf := parse(p)
		if pf == nil {
			continue
		}
		for _, d := range pf.Decls {
			fd, ok := d.(*ast.FuncDecl)
			if !ok || (fd.Name.Name == "lazyInitOnce" && recvName(fd) == "File") {
				continue
			}
			for _, c := range calls(fd, "atomic.StoreUint32") {
				if len(c.Args) > 0 && strings.HasSuffix(str(c.Args[0]), ".once") {
					others++
				}
			}
		}
	}
	if others > 0 {
		probs = append(probs, fmt.Sprintf("%d further stores of File.once", others))
	}
	report("File.lazyInit", probs, li, once, raw)
	addBool("fileFastPathAtomicLoad", fast, "desc.go: lazyInit is `if atomic.LoadUint32(&fd.once) == 0 { fd.lazyInitOnce() }; return fd.L2`")
	addBool("fileLocks", locks, "desc.go: lazyInitOnce is bracketed by fd.mu.Lock() / fd.mu.Unlock()")
	addBool("fileRecheckL2Nil", recheck, "desc.go: the re-check under the lock is `if fd.L2 == nil { fd.lazyRawInit() }`")
	addBool("fileStoreAfterBody", storeAfter && others == 0, "desc.go: atomic.StoreUint32(&fd.once, 1) follows the body, before Unlock; no other store")
	addBool("fileStoreOnHit", storeOnHit, "desc.go: the store is executed also when the re-check finds L2 set")
	addBool("fileBodySetsL2First", setsL2, "desc_lazy.go: lazyRawInit begins with unmarshalFull, which sets fd.L2 = new(FileL2) (the body performs at least one write, and it makes L2 non-nil)")
}

// checkSyncOnce: the toolchain's sync.Once is the same double-checked pattern.
func checkSyncOnce() {
	p := filepath.Join(runtime.GOROOT(), "src", "sync", "once.go")
	f := parse(p)
	do := findFunc(f, "Once", "Do")
	slow := findFunc(f, "Once", "doSlow")
	var probs []string
	ok := false
	if do == nil || slow == nil {
		probs = append(probs, "sync.Once.Do/doSlow not found in "+p)
	} else {
		db, sb := body(do), body(slow)
		fast := false
		if len(db) == 1 {
			if ifs, isIf := db[0].(*ast.IfStmt); isIf && strings.ReplaceAll(str(ifs.Cond), " ", "") == "o.done.Load()==0" && len(calls(ifs.Body, "o.doSlow")) == 1 {
				fast = true
			}
		}
		shape := false
		if len(sb) == 3 {
			c0 := stmtCall(sb[0])
			d1, isDefer := sb[1].(*ast.DeferStmt)
			ifs, isIf := sb[2].(*ast.IfStmt)
			if c0 != nil && str(c0.Fun) == "o.m.Lock" && isDefer && str(d1.Call.Fun) == "o.m.Unlock" && isIf &&
				strings.ReplaceAll(str(ifs.Cond), " ", "") == "o.done.Load()==0" && len(ifs.Body.List) == 2 {
				d, isD := ifs.Body.List[0].(*ast.DeferStmt)
				c := stmtCall(ifs.Body.List[1])
				if isD && str(d.Call.Fun) == "o.done.Store" && c != nil && str(c.Fun) == "f" {
					shape = true
				}
			}
		}
		ok = fast && shape
		if !ok {
			probs = append(probs, "sync.Once is not `if done.Load()==0 {doSlow}` / `Lock; defer Unlock; if done.Load()==0 { defer done.Store(1); f() }`")
		}
	}
	report("sync.Once", probs, do, slow)
	addBool("syncOnceIsDoubleChecked", ok, "$GOROOT/src/sync/once.go: Do/doSlow are load; lock; defer unlock; re-check; defer store; f()")
}

// checkOnceTables: in desc_list.go / desc_list_gen.go every struct with a `once sync.Once` field initialises its
// "protected by once" fields only inside lazyInit's once.Do closure and reads them only through p.lazyInit().
func checkOnceTables() {
	total, good := 0, 0
	var probs []string
	var nodes []ast.Node
	for _, rel := range []string{"internal/filedesc/desc_list.go", "internal/filedesc/desc_list_gen.go"} {
		f := parse(rel)
		if f == nil {
			probs = append(probs, rel+" does not parse")
			continue
		}
		// struct types with a once field and their protected fields
		prot := map[string][]string{}
		for _, d := range f.Decls {
			gd, ok := d.(*ast.GenDecl)
			if !ok || gd.Tok != token.TYPE {
				continue
			}
			for _, sp := range gd.Specs {
				ts := sp.(*ast.TypeSpec)
				st, ok := ts.Type.(*ast.StructType)
				if !ok {
					continue
				}
				hasOnce := false
				var fields []string
				for _, fl := range st.Fields.List {
					if str(fl.Type) == "sync.Once" {
						hasOnce = true
						continue
					}
					if fl.Comment != nil && strings.Contains(fl.Comment.Text(), "protected by once") {
						for _, n := range fl.Names {
							fields = append(fields, n.Name)
						}
					}
				}
				if hasOnce {
					prot[ts.Name.Name] = fields
				}
			}
		}
		names := make([]string, 0, len(prot))
		for n := range prot {
			names = append(names, n)
		}
		sort.Strings(names)
		for _, tn := range names {
			total++
			li := findFunc(f, tn, "lazyInit")
			why := ""
			if li != nil {
				nodes = append(nodes, li)
				b := body(li)
				if len(b) != 2 || stmtCall(b[0]) == nil || str(stmtCall(b[0]).Fun) != "p.once.Do" {
					why = "lazyInit is not `p.once.Do(func(){…}); return p`"
				} else if r, ok := b[1].(*ast.ReturnStmt); !ok || len(r.Results) != 1 || str(r.Results[0]) != "p" {
					why = "lazyInit does not return p after once.Do"
				}
			}
			// every method of the type touches protected fields only inside a once.Do closure, after a
			// `p.once.Do(…)` statement of the same method, or through p.lazyInit()
			sawDo := false
			for _, d := range f.Decls {
				fd, ok := d.(*ast.FuncDecl)
				if !ok || recvName(fd) != tn || fd.Body == nil {
					continue
				}
				recv := ""
				if len(fd.Recv.List[0].Names) > 0 {
					recv = fd.Recv.List[0].Names[0].Name
				}
				doEnd := token.NoPos
				var doCall *ast.CallExpr
				for _, st := range fd.Body.List {
					if c := stmtCall(st); c != nil && str(c.Fun) == recv+".once.Do" {
						doEnd, doCall = c.End(), c
						sawDo = true
						nodes = append(nodes, fd)
						break
					}
				}
				ast.Inspect(fd.Body, func(x ast.Node) bool {
					se, ok := x.(*ast.SelectorExpr)
					if !ok {
						return true
					}
					for _, pf := range prot[tn] {
						if se.Sel.Name != pf {
							continue
						}
						id, ok := se.X.(*ast.Ident)
						if !ok || id.Name != recv || recv == "" {
							continue
						}
						inDo := doCall != nil && se.Pos() >= doCall.Pos() && se.End() <= doCall.End()
						afterDo := doEnd != token.NoPos && se.Pos() > doEnd
						if !inDo && !afterDo {
							why = fd.Name.Name + " touches " + recv + "." + pf + " outside once.Do and without lazyInit()"
						}
					}
					return true
				})
			}
			if why == "" && !sawDo {
				why = "no method calls once.Do"
			}
			if why == "" {
				good++
			} else {
				probs = append(probs, tn+": "+why)
			}
		}
	}
	if total == 0 {
		probs = append(probs, "no sync.Once table found")
	}
	report("desc_list.once", probs, nodes...)
	addNat("onceTables", total, "desc_list.go + desc_list_gen.go: struct types with a `once sync.Once` field")
	addNat("onceTablesGuarded", good, "… whose protected fields are written only inside lazyInit's once.Do and read only through p.lazyInit()")
}

// ---------------------------------------------------------------------------- C19: registry lock discipline

var protectedFields = []string{"descsByName", "filesByPath", "numFiles", "typesByName", "extensionsByMessage", "numEnums", "numMessages", "numExtensions"}

func touches(n ast.Node) (first token.Pos, writes bool) {
	first = token.NoPos
	ast.Inspect(n, func(x ast.Node) bool {
		switch v := x.(type) {
		case *ast.SelectorExpr:
			if id, ok := v.X.(*ast.Ident); ok && id.Name == "r" {
				for _, pf := range protectedFields {
					if v.Sel.Name == pf && (first == token.NoPos || v.Pos() < first) {
						first = v.Pos()
					}
				}
			}
		case *ast.AssignStmt:
			for _, l := range v.Lhs {
				s := str(l)
				for _, pf := range protectedFields {
					if strings.HasPrefix(s, "r."+pf) {
						writes = true
					}
				}
			}
		case *ast.IncDecStmt:
			for _, pf := range protectedFields {
				if strings.HasPrefix(str(v.X), "r."+pf) {
					writes = true
				}
			}
		}
		return true
	})
	return
}

// guard finds `if r == GlobalX { globalMutex.(R)Lock(); defer globalMutex.(R)Unlock() }` at the top level of fd.
func guard(fd *ast.FuncDecl, global string) (pos token.Pos, exclusive bool, ok bool) {
	for _, s := range body(fd) {
		ifs, isIf := s.(*ast.IfStmt)
		if !isIf || strings.ReplaceAll(str(ifs.Cond), " ", "") != "r=="+global || len(ifs.Body.List) != 2 {
			continue
		}
		c := stmtCall(ifs.Body.List[0])
		d, isDefer := ifs.Body.List[1].(*ast.DeferStmt)
		if c == nil || !isDefer {
			continue
		}
		switch {
		case str(c.Fun) == "globalMutex.Lock" && str(d.Call.Fun) == "globalMutex.Unlock":
			return ifs.End(), true, true
		case str(c.Fun) == "globalMutex.RLock" && str(d.Call.Fun) == "globalMutex.RUnlock":
			return ifs.End(), false, true
		}
	}
	return token.NoPos, false, false
}

func checkRegistry() {
	f := parse("reflect/protoregistry/registry.go")
	var probs []string
	var nodes []ast.Node
	accessors, locked, writers, readers := 0, 0, 0, 0
	writersExclusive := true
	if f == nil {
		probs = append(probs, "registry.go does not parse")
	} else {
		type helper struct {
			fd     *ast.FuncDecl
			writes bool
		}
		helpers := map[string]helper{}
		type guarded struct {
			fd        *ast.FuncDecl
			lockEnd   token.Pos
			exclusive bool
		}
		var gs []guarded
		for _, d := range f.Decls {
			fd, ok := d.(*ast.FuncDecl)
			if !ok || fd.Body == nil {
				continue
			}
			rn := recvName(fd)
			if rn != "Files" && rn != "Types" {
				continue
			}
			first, wr := touches(fd.Body)
			// calls of helpers count as touches (resolved below)
			gpos, excl, has := guard(fd, "Global"+rn)
			if has {
				gs = append(gs, guarded{fd, gpos, excl})
			}
			if first == token.NoPos {
				continue
			}
			accessors++
			nodes = append(nodes, fd)
			name := rn + "." + fd.Name.Name
			if !has {
				if !ast.IsExported(fd.Name.Name) {
					helpers[fd.Name.Name] = helper{fd, wr}
					accessors--
					continue
				}
				probs = append(probs, name+" touches the registry maps without taking globalMutex for the global registry")
				continue
			}
			if first < gpos {
				probs = append(probs, name+" touches the registry maps before taking globalMutex")
				continue
			}
			if wr {
				writers++
				if !excl {
					writersExclusive = false
					probs = append(probs, name+" writes the registry maps under RLock")
					continue
				}
			} else {
				readers++
			}
			locked++
		}
		// unexported helpers: every call site must be in a guarded method, after the guard; a writing helper needs Lock
		hnames := make([]string, 0, len(helpers))
		for n := range helpers {
			hnames = append(hnames, n)
		}
		sort.Strings(hnames)
		for _, hn := range hnames {
			h := helpers[hn]
			accessors++
			okAll, sites := true, 0
			for _, d := range f.Decls {
				fd, ok := d.(*ast.FuncDecl)
				if !ok || fd.Body == nil || fd == h.fd {
					continue
				}
				for _, c := range calls(fd.Body, "r."+hn) {
					sites++
					var g *guarded
					for i := range gs {
						if gs[i].fd == fd {
							g = &gs[i]
						}
					}
					if g == nil || c.Pos() < g.lockEnd || (h.writes && !g.exclusive) {
						okAll = false
						probs = append(probs, "helper "+hn+" is called from "+fd.Name.Name+" without the required lock")
					}
				}
			}
			if sites == 0 {
				okAll = false
				probs = append(probs, "helper "+hn+" touches the registry maps and has no guarded caller")
			}
			if okAll {
				locked++
			}
		}
	}
	report("registry.lock", probs, nodes...)
	addNat("registryAccessors", accessors, "registry.go: methods of Files/Types that touch descsByName/filesByPath/typesByName/extensionsByMessage/num*")
	addNat("registryAccessorsLocked", locked, "… that take globalMutex (Lock for writers, RLock for readers) before the first touch when r is the global registry (helpers: at every call site)")
	addNat("registryWriters", writers, "registry.go: accessors that write the maps (take Lock)")
	addNat("registryReaders", readers, "registry.go: accessors that only read (take RLock)")
	addBool("registryWritersExclusive", writersExclusive, "registry.go: no writer runs under RLock")
}

// checkLegacyCaches: sync.Map caches of internal/impl/legacy_*.go are publish-once: Load; compute; LoadOrStore; return the stored value.
func checkLegacyCaches() {
	total, good := 0, 0
	var probs []string
	var nodes []ast.Node
	for _, rel := range []string{"internal/impl/legacy_message.go", "internal/impl/legacy_enum.go", "internal/impl/legacy_file.go"} {
		f := parse(rel)
		if f == nil {
			probs = append(probs, rel+" does not parse")
			continue
		}
		for _, d := range f.Decls {
			fd, ok := d.(*ast.FuncDecl)
			if !ok || fd.Body == nil || len(calls(fd, "Cache.LoadOrStore")) == 0 {
				continue
			}
			total++
			nodes = append(nodes, fd)
			b := body(fd)
			why := ""
			if len(b) < 2 {
				why = "too short"
			} else {
				ifs, isIf := b[len(b)-2].(*ast.IfStmt)
				ret, isRet := b[len(b)-1].(*ast.ReturnStmt)
				if !isIf || !isRet || ifs.Init == nil || len(calls(ifs.Init, "Cache.LoadOrStore")) != 1 {
					why = "does not end with `if v, ok := cache.LoadOrStore(k, x); ok { return v.(T) }; return x`"
				} else {
					c := calls(ifs.Init, "Cache.LoadOrStore")[0]
					if len(c.Args) != 2 || len(ret.Results) != 1 || str(c.Args[1]) != str(ret.Results[0]) {
						why = "returns something else than the value offered to LoadOrStore"
					}
					if r, ok := ifs.Body.List[0].(*ast.ReturnStmt); !ok || len(r.Results) != 1 {
						why = "the LoadOrStore hit does not return the stored value"
					}
				}
				cache := ""
				if why == "" {
					cache = strings.TrimSuffix(str(calls(fd, "Cache.LoadOrStore")[0].Fun), ".LoadOrStore")
					if len(calls(fd, cache+".Store")) > 0 {
						why = "also stores into " + cache + " unconditionally"
					}
					if len(calls(fd, cache+".Load")) != 1 {
						why = "no fast-path " + cache + ".Load"
					}
				}
			}
			if why == "" {
				good++
			} else {
				probs = append(probs, fd.Name.Name+": "+why)
			}
		}
	}
	if total == 0 {
		probs = append(probs, "no LoadOrStore cache found")
	}
	report("legacy.caches", probs, nodes...)
	addNat("legacyCaches", total, "internal/impl/legacy_{message,enum,file}.go: functions publishing into a sync.Map cache")
	addNat("legacyCachesLoadOrStore", good, "… with the shape Load; compute; `if v, ok := cache.LoadOrStore(k, x); ok { return v }; return x`")
}

// checkAberrantCaches: internal/impl/legacy_message.go derives descriptors of tag-only ("aberrant") legacy
// messages re-entrantly under aberrantMessageDescLock, entering each new descriptor into the LOCKED map
// aberrantMessageDescCache before it is filled in (cycles).  The lock-free sync.Map legacyMessageDescCache is
// read without the lock, so it may only receive complete descriptors: no store to it inside the re-entrant
// function or anything it calls; at most by the outermost caller after the derivation returned.
func checkAberrantCaches() {
	f := parse("internal/impl/legacy_message.go")
	var probs []string
	var nodes []ast.Node
	noEarly, mapLocked, outermost := false, false, false
	if f == nil {
		probs = append(probs, "legacy_message.go does not parse")
	} else {
		funcs := map[string]*ast.FuncDecl{}
		for _, d := range f.Decls {
			if fd, ok := d.(*ast.FuncDecl); ok && fd.Recv == nil && fd.Body != nil {
				funcs[fd.Name.Name] = fd
			}
		}
		re := funcs["aberrantLoadMessageDescReentrant"]
		outer := funcs["aberrantLoadMessageDesc"]
		if re == nil || outer == nil {
			probs = append(probs, "aberrantLoadMessageDesc / aberrantLoadMessageDescReentrant not found")
		} else {
			// the re-entrant closure: everything reachable from the re-entrant function through functions of
			// this file, except the locked entry points themselves (LegacyLoadMessageDesc handles complete,
			// generated descriptors)
			closure := map[string]bool{}
			var visit func(name string)
			visit = func(name string) {
				if closure[name] {
					return
				}
				closure[name] = true
				ast.Inspect(funcs[name], func(x ast.Node) bool {
					if c, ok := x.(*ast.CallExpr); ok {
						if id, ok := c.Fun.(*ast.Ident); ok && funcs[id.Name] != nil && strings.HasPrefix(id.Name, "aberrant") && id.Name != "aberrantLoadMessageDesc" {
							visit(id.Name)
						}
					}
					return true
				})
			}
			visit("aberrantLoadMessageDescReentrant")
			names := make([]string, 0, len(closure))
			for n := range closure {
				names = append(names, n)
			}
			sort.Strings(names)
			noEarly = true
			for _, n := range names {
				nodes = append(nodes, funcs[n])
				ast.Inspect(funcs[n], func(x ast.Node) bool {
					if id, ok := x.(*ast.Ident); ok && id.Name == "legacyMessageDescCache" {
						noEarly = false
						probs = append(probs, fmt.Sprintf("%s (re-entrant derivation) touches the lock-free cache legacyMessageDescCache at line %d: a nested descriptor becomes reachable without the lock before its cycle partner is complete", n, fset.Position(id.Pos()).Line))
					}
					return true
				})
			}
			// the outermost caller: Lock; defer Unlock first; it may publish after the re-entrant call returned
			ob := body(outer)
			nodes = append(nodes, outer)
			locked := len(ob) >= 2 && stmtCall(ob[0]) != nil && str(stmtCall(ob[0]).Fun) == "aberrantMessageDescLock.Lock"
			if locked {
				d, ok := ob[1].(*ast.DeferStmt)
				locked = ok && str(d.Call.Fun) == "aberrantMessageDescLock.Unlock"
			}
			if !locked {
				probs = append(probs, "aberrantLoadMessageDesc does not start with aberrantMessageDescLock.Lock(); defer aberrantMessageDescLock.Unlock()")
			}
			for _, c := range calls(outer, "legacyMessageDescCache.Store") {
				_ = c
				outermost = true
			}
			for _, c := range calls(outer, "legacyMessageDescCache.LoadOrStore") {
				_ = c
				outermost = true
			}
			if outermost {
				// must come after the re-entrant call, not deferred before it
				reCalls := calls(outer, "aberrantLoadMessageDescReentrant")
				for _, st := range ob {
					if d, ok := st.(*ast.DeferStmt); ok && strings.HasPrefix(str(d.Call.Fun), "legacyMessageDescCache.") {
						_ = d // a defer in the outermost caller runs after the derivation: fine
					}
				}
				for _, c := range append(calls(outer, "legacyMessageDescCache.Store"), calls(outer, "legacyMessageDescCache.LoadOrStore")...) {
					if len(reCalls) != 1 || c.Pos() < reCalls[0].End() {
						inDefer := false
						for _, st := range ob {
							if d, ok := st.(*ast.DeferStmt); ok && d.Call == c {
								inDefer = true
							}
						}
						if !inDefer {
							noEarly = false
							probs = append(probs, "aberrantLoadMessageDesc stores into legacyMessageDescCache before the derivation has returned")
						}
					}
				}
			}
			// the locked map is written only inside the closure or the outermost caller, and the re-entrant
			// function is called only from there
			mapLocked = locked
			for name, fd := range funcs {
				if closure[name] || name == "aberrantLoadMessageDesc" {
					continue
				}
				ast.Inspect(fd, func(x ast.Node) bool {
					switch v := x.(type) {
					case *ast.AssignStmt:
						for _, l := range v.Lhs {
							if strings.HasPrefix(str(l), "aberrantMessageDescCache") {
								mapLocked = false
								probs = append(probs, name+" writes aberrantMessageDescCache without holding aberrantMessageDescLock")
							}
						}
					case *ast.CallExpr:
						if id, ok := v.Fun.(*ast.Ident); ok && closure[id.Name] && id.Name == "aberrantLoadMessageDescReentrant" {
							mapLocked = false
							probs = append(probs, name+" calls the re-entrant derivation without holding aberrantMessageDescLock")
						}
					}
					return true
				})
			}
			// every other store into the lock-free cache stores a descriptor taken from a complete file descriptor
			for name, fd := range funcs {
				if closure[name] || name == "aberrantLoadMessageDesc" {
					continue
				}
				for _, c := range append(calls(fd, "legacyMessageDescCache.Store"), calls(fd, "legacyMessageDescCache.LoadOrStore")...) {
					if name != "legacyLoadMessageDesc" {
						noEarly = false
						probs = append(probs, fmt.Sprintf("%s stores into legacyMessageDescCache (line %d); only legacyLoadMessageDesc (complete generated descriptors) and the outermost aberrant caller may", name, fset.Position(c.Pos()).Line))
					}
				}
			}
		}
	}
	report("legacy.aberrant", probs, nodes...)
	addBool("aberrantNoLockFreePublishWhileDeriving", noEarly, "legacy_message.go: neither aberrantLoadMessageDescReentrant nor anything it calls touches the lock-free legacyMessageDescCache; descriptors under derivation are reachable only through the locked map")
	addBool("aberrantLockedMapOnlyUnderLock", mapLocked, "legacy_message.go: aberrantMessageDescCache is written and the re-entrant derivation is entered only under aberrantMessageDescLock (aberrantLoadMessageDesc: Lock; defer Unlock)")
	addBool("aberrantOutermostPublishes", outermost, "legacy_message.go: the outermost caller stores the finished descriptor into the lock-free cache after the derivation returned (currently it does not; aberrant types always take the lock)")
}

// checkExtensionInfo: (*impl.ExtensionInfo) is initialised lazily in two stages (DescInit, FullInit) by
// lazyInitSlow under xi.mu; the stage word xi.init is read lock-free with atomic.LoadUint32 by TypeDescriptor
// and lazyInit.  After construction every write of xi.init must therefore be an atomic store that follows the
// initialisation it announces: the only write on the lazy path is `defer atomic.StoreUint32(&xi.init, FullInit)`
// in lazyInitSlow, and nothing reachable from lazyInitSlow may call a helper that plain-stores xi.init
// (InitExtensionInfo is for package initialisation, before the value is shared).
func checkExtensionInfo() {
	var probs []string
	var nodes []ast.Node
	funcs := map[string]*ast.FuncDecl{} // by name (methods and functions of package impl; names are unique enough here)
	matches, _ := filepath.Glob(filepath.Join(repo, "internal/impl/*.go"))
	sort.Strings(matches)
	for _, p := range matches {
		if strings.HasSuffix(p, "_test.go") {
			continue
		}
		pf := parse(p)
		if pf == nil {
			continue
		}
		base := filepath.Base(p)
		for _, d := range pf.Decls {
			if fd, ok := d.(*ast.FuncDecl); ok && fd.Body != nil {
				if base == "extension.go" || base == "legacy_extension.go" || funcs[fd.Name.Name] == nil {
					if base == "extension.go" || base == "legacy_extension.go" {
						funcs[fd.Name.Name] = fd
					} else if _, dup := funcs[fd.Name.Name]; !dup {
						funcs[fd.Name.Name] = fd
					}
				}
			}
		}
	}
	isXiInit := func(e ast.Expr) bool {
		se, ok := e.(*ast.SelectorExpr)
		if !ok || se.Sel.Name != "init" {
			return false
		}
		id, ok := se.X.(*ast.Ident)
		return ok && id.Name == "xi"
	}
	plainStores := func(fd *ast.FuncDecl) (lines []int) {
		ast.Inspect(fd, func(x ast.Node) bool {
			switch v := x.(type) {
			case *ast.AssignStmt:
				for _, l := range v.Lhs {
					if isXiInit(l) {
						lines = append(lines, fset.Position(v.Pos()).Line)
					}
				}
			case *ast.IncDecStmt:
				if isXiInit(v.X) {
					lines = append(lines, fset.Position(v.Pos()).Line)
				}
			}
			return true
		})
		return
	}
	atomicStores := func(fd *ast.FuncDecl) (out []*ast.CallExpr) {
		for _, c := range calls(fd, "atomic.StoreUint32") {
			if len(c.Args) == 2 && str(c.Args[0]) == "&xi.init" {
				out = append(out, c)
			}
		}
		return
	}
	td, li, slow := funcs["TypeDescriptor"], funcs["lazyInit"], funcs["lazyInitSlow"]
	fast, slowShape, lazyAtomic := false, false, false
	fastOK := func(fd *ast.FuncDecl, level, ret string) bool {
		b := body(fd)
		if fd == nil || recvName(fd) != "ExtensionInfo" || len(b) != 2 {
			return false
		}
		ifs, ok := b[0].(*ast.IfStmt)
		if !ok || strings.ReplaceAll(str(ifs.Cond), " ", "") != "atomic.LoadUint32(&xi.init)<"+level || len(ifs.Body.List) != 1 {
			return false
		}
		c := stmtCall(ifs.Body.List[0])
		r, isRet := b[1].(*ast.ReturnStmt)
		return c != nil && str(c.Fun) == "xi.lazyInitSlow" && isRet && len(r.Results) == 1 && str(r.Results[0]) == ret
	}
	fast = fastOK(td, "extensionInfoDescInit", "&xi.desc") && fastOK(li, "extensionInfoFullInit", "xi.conv")
	if !fast {
		probs = append(probs, "TypeDescriptor/lazyInit are not `if atomic.LoadUint32(&xi.init) < level { xi.lazyInitSlow() }; return …`")
	}
	if slow == nil {
		probs = append(probs, "lazyInitSlow not found")
	} else {
		nodes = append(nodes, td, li, slow)
		b := body(slow)
		ok := len(b) >= 4
		if ok {
			c0 := stmtCall(b[0])
			d1, isDefer := b[1].(*ast.DeferStmt)
			ok = c0 != nil && str(c0.Fun) == "xi.mu.Lock" && isDefer && str(d1.Call.Fun) == "xi.mu.Unlock"
		}
		if ok {
			ifs, isIf := b[2].(*ast.IfStmt)
			ok = isIf && strings.ReplaceAll(str(ifs.Cond), " ", "") == "xi.init==extensionInfoFullInit" && len(ifs.Body.List) == 1
		}
		if ok {
			d3, isDefer := b[3].(*ast.DeferStmt)
			ok = isDefer && str(d3.Call.Fun) == "atomic.StoreUint32" && len(d3.Call.Args) == 2 && str(d3.Call.Args[0]) == "&xi.init" && str(d3.Call.Args[1]) == "extensionInfoFullInit"
		}
		if ok && (len(atomicStores(slow)) != 1 || len(plainStores(slow)) != 0) {
			ok = false
		}
		slowShape = ok
		if !ok {
			probs = append(probs, "lazyInitSlow is not `xi.mu.Lock(); defer xi.mu.Unlock(); if xi.init == extensionInfoFullInit { return }; defer atomic.StoreUint32(&xi.init, extensionInfoFullInit); …` with that single write of xi.init")
		}
		// nothing reachable from lazyInitSlow writes xi.init (plainly or atomically) except that deferred store
		seen := map[string]bool{}
		var path []string
		lazyAtomic = true
		var visit func(name string)
		visit = func(name string) {
			if seen[name] || funcs[name] == nil {
				return
			}
			seen[name] = true
			path = append(path, name)
			fd := funcs[name]
			if name != "lazyInitSlow" {
				nodes = append(nodes, fd)
				if ls := plainStores(fd); len(ls) > 0 {
					lazyAtomic = false
					probs = append(probs, fmt.Sprintf("%s (reached from lazyInitSlow via %s) stores xi.init with a plain, non-atomic write at line %d while the value is already shared: it races with the lock-free atomic loads of TypeDescriptor/lazyInit and announces a stage before lazyInitSlow has finished", name, strings.Join(path, " → "), ls[0]))
				}
				if len(atomicStores(fd)) > 0 {
					lazyAtomic = false
					probs = append(probs, name+" (reached from lazyInitSlow) stores xi.init before lazyInitSlow has finished")
				}
			}
			ast.Inspect(fd, func(x ast.Node) bool {
				if c, ok := x.(*ast.CallExpr); ok {
					switch f := c.Fun.(type) {
					case *ast.Ident:
						if f.Name == "InitExtensionInfo" || strings.HasPrefix(f.Name, "init") {
							visit(f.Name)
						}
					case *ast.SelectorExpr:
						if id, ok := f.X.(*ast.Ident); ok && id.Name == "xi" {
							visit(f.Sel.Name)
						}
					}
				}
				return true
			})
			path = path[:len(path)-1]
		}
		visit("lazyInitSlow")
	}
	// all plain stores of xi.init in the package: only in InitExtensionInfo (package initialisation)
	for name, fd := range funcs {
		if name == "InitExtensionInfo" {
			continue
		}
		if ls := plainStores(fd); len(ls) > 0 {
			lazyAtomic = false
			probs = append(probs, fmt.Sprintf("%s stores xi.init with a plain write (line %d)", name, ls[0]))
		}
	}
	report("ExtensionInfo.lazyInit", probs, nodes...)
	addBool("extInfoFastPathsAtomic", fast, "extension.go: TypeDescriptor and lazyInit read xi.init with atomic.LoadUint32 and fall into lazyInitSlow below their stage")
	addBool("extInfoSlowPathShape", slowShape, "extension.go: lazyInitSlow is Lock; defer Unlock; re-check FullInit; defer atomic.StoreUint32(&xi.init, FullInit); body — its only write of xi.init")
	addBool("extInfoFlagOnlyAtomicOnLazyPath", lazyAtomic, "extension.go, legacy_extension.go: nothing reachable from lazyInitSlow (initFromLegacy, initToLegacy, helpers) writes xi.init; plain stores exist only in InitExtensionInfo, which is not called from the lazy path")
}

func main() {
	out := flag.String("o", "", "output Lean file")
	man := flag.String("manifest", "", "output manifest JSON")
	flag.StringVar(&repo, "repo", "/repo", "repository root")
	flag.Parse()

	checkSetIfNil()
	checkLazyUnmarshal()
	checkGetterGenerator()
	checkGeneratedGetters()
	checkReflectPath()
	checkMessageInfoInit()
	checkFileLazyInit()
	checkSyncOnce()
	checkOnceTables()
	checkRegistry()
	checkLegacyCaches()
	checkAberrantCaches()
	checkExtensionInfo()

	var b strings.Builder
	b.WriteString("/- GENERATED by /verif/bin/gen-conc (go/gen-conc) from the Go sources of the current tree. Do not edit.\n")
	b.WriteString("   Shape facts of the synchronisation code; Model/ConcCode.lean selects the protocol variants of Model.Conc from them. -/\n")
	b.WriteString("namespace Gen.ConcFacts\n\n")
	for _, f := range facts {
		fmt.Fprintf(&b, "/-- %s -/\ndef %s : %s := %s\n\n", f.doc, f.name, f.typ, f.val)
	}
	b.WriteString("end Gen.ConcFacts\n")
	if *out != "" {
		old, _ := os.ReadFile(*out)
		if string(old) != b.String() {
			if err := os.WriteFile(*out, []byte(b.String()), 0o644); err != nil {
				fmt.Fprintln(os.Stderr, err)
				os.Exit(1)
			}
		}
	} else {
		fmt.Print(b.String())
	}
	if *man != "" {
		data, _ := json.MarshalIndent(manifest, "", " ")
		if err := os.WriteFile(*man, data, 0o644); err != nil {
			fmt.Fprintln(os.Stderr, err)
			os.Exit(1)
		}
	}
	bad := 0
	keys := make([]string, 0, len(manifest))
	for k := range manifest {
		keys = append(keys, k)
	}
	sort.Strings(keys)
	for _, k := range keys {
		if manifest[k].Status != "ok" {
			bad++
			fmt.Fprintf(os.Stderr, "gen-conc: %s: %s\n", k, manifest[k].Status)
		}
	}
	fmt.Fprintf(os.Stderr, "gen-conc: %d anchors, %d not ok, %d facts\n", len(manifest), bad, len(facts))
}
