module verif/gen-wkttime

go 1.23
