// gen-wkttime: extract the hand-written helper functions of durationpb / timestamppb
// (New, AsDuration/AsTime, IsValid, CheckValid, check and their constants) from the current
// working tree of protobuf-go and render them as Lean 4 definitions over BitVec 64/32
// (lean/PbVerif/Gen/WktTime.lean).  Standard library only (go/parser, go/ast, go/constant).
//
// The subset is deliberately tiny — loop-free statements over int64/int32/int/uint/bool, the
// receiver's two getters, conversions, `time.Second`, `math.MinInt64`, `time.Unix(a, b).UTC()`,
// `&T{Seconds: …, Nanos: …}`, `protoimpl.X.NewError("<known text>", …)` — and anything outside of it
// is reported as a non-"ok" manifest status (the tie is then broken and bin/check says so).
//
// The same translation is applied to the *templates* in cmd/protoc-gen-go/internal_gengo/
// well_known_types.go (the g.P(...) lines are re-assembled into Go source) and the two results
// must be identical, so that an edit to only one of template / checked-in file is reported.
//
// usage: gen-wkttime -repo /repo -o <lean file> -manifest <json>
package main

import (
	"bytes"
	"crypto/sha256"
	"encoding/json"
	"flag"
	"fmt"
	"go/ast"
	"go/constant"
	"go/parser"
	"go/printer"
	"go/token"
	"math/big"
	"os"
	"path/filepath"
	"sort"
	"strconv"
	"strings"
)

// ---------------------------------------------------------------- types

type gtype string // Go type name as written: int64, int32, int, uint, bool, time.Duration, time.Time, error, *Msg, untyped

func bits(t gtype) (w int, signed bool, ok bool) {
	switch t {
	case "int64", "int", "time.Duration":
		return 64, true, true
	case "int32":
		return 32, true, true
	case "uint", "uint64":
		return 64, false, true
	case "uint32":
		return 32, false, true
	}
	return 0, false, false
}

func leanType(t gtype) string {
	if w, _, ok := bits(t); ok {
		return fmt.Sprintf("BitVec %d", w)
	}
	switch t {
	case "bool":
		return "Bool"
	case "time.Time":
		return "GoTime.Time"
	case "error":
		return "Nat"
	case "*Msg":
		return "(BitVec 64 × BitVec 32)"
	}
	panic(fail("unsupported type %s", t))
}

type val struct {
	lean string
	t    gtype
	c    constant.Value // non-nil for constants (typed or untyped)
}

type failure struct{ msg string }

func fail(f string, a ...any) failure { return failure{fmt.Sprintf(f, a...)} }

// ---------------------------------------------------------------- translator

type msgSpec struct {
	name     string            // Duration | Timestamp
	prefix   string            // duration | timestamp
	errTexts map[string]int    // NewError format string -> error class
	funcs    []string          // functions to translate, callees first
}

var specs = []msgSpec{
	{name: "Duration", prefix: "duration", funcs: []string{"check", "IsValid", "CheckValid", "New", "AsDuration"},
		errTexts: map[string]int{
			"invalid nil Duration":                                           1,
			"duration (%v) exceeds -10000 years":                             2,
			"duration (%v) exceeds +10000 years":                             3,
			"duration (%v) has out-of-range nanos":                           4,
			"duration (%v) has seconds and nanos with different signs":       5,
		}},
	{name: "Timestamp", prefix: "timestamp", funcs: []string{"check", "IsValid", "CheckValid", "New", "AsTime"},
		errTexts: map[string]int{
			"invalid nil Timestamp":                  1,
			"timestamp (%v) before 0001-01-01":       2,
			"timestamp (%v) after 9999-12-31":        3,
			"timestamp (%v) has out-of-range nanos":  4,
		}},
}

type tr struct {
	spec   *msgSpec
	consts map[string]constant.Value // package-level and local constants
	vars   map[string]gtype
	recv   string // receiver name ("" for plain functions)
	result gtype
	fset   *token.FileSet
}

func (t *tr) src(n ast.Node) string {
	var b bytes.Buffer
	printer.Fprint(&b, t.fset, n)
	return b.String()
}

func upperFirst(s string) string { return strings.ToUpper(s[:1]) + s[1:] }

func (t *tr) leanName(fn string) string { return t.spec.prefix + upperFirst(fn) }

func typeName(e ast.Expr) gtype {
	switch x := e.(type) {
	case *ast.Ident:
		return gtype(x.Name)
	case *ast.SelectorExpr:
		if p, ok := x.X.(*ast.Ident); ok {
			return gtype(p.Name + "." + x.Sel.Name)
		}
	case *ast.StarExpr:
		if _, ok := x.X.(*ast.Ident); ok {
			return "*Msg"
		}
	}
	return ""
}

// literal renders constant c at integer type ty (two's complement), checking the range as the Go compiler does.
func literal(c constant.Value, ty gtype) string {
	w, signed, ok := bits(ty)
	if !ok {
		panic(fail("constant used at non-integer type %s", ty))
	}
	ci := constant.ToInt(c)
	if ci.Kind() != constant.Int {
		panic(fail("constant %s is not an integer", c))
	}
	bi, _ := new(big.Int).SetString(ci.ExactString(), 10)
	lo, hi := new(big.Int), new(big.Int)
	if signed {
		lo.Neg(new(big.Int).Lsh(big.NewInt(1), uint(w-1)))
		hi.Sub(new(big.Int).Lsh(big.NewInt(1), uint(w-1)), big.NewInt(1))
	} else {
		hi.Sub(new(big.Int).Lsh(big.NewInt(1), uint(w)), big.NewInt(1))
	}
	if bi.Cmp(lo) < 0 || bi.Cmp(hi) > 0 {
		panic(fail("constant %s overflows %s", bi, ty))
	}
	if bi.Sign() < 0 {
		tc := new(big.Int).Add(bi, new(big.Int).Lsh(big.NewInt(1), uint(w)))
		return fmt.Sprintf("%s#%d /- %s -/", tc, w, bi)
	}
	return fmt.Sprintf("%s#%d", bi, w)
}

// coerce renders v at type ty (only constants change representation).
func coerce(v val, ty gtype) string {
	if v.c != nil && (v.t == "untyped" || v.t == ty) {
		if ty == "bool" {
			return strconv.FormatBool(constant.BoolVal(v.c))
		}
		return literal(v.c, ty)
	}
	if v.t != ty {
		panic(fail("type mismatch: have %s, need %s (%s)", v.t, ty, v.lean))
	}
	return v.lean
}

var stdConsts = map[string]constant.Value{
	"math.MinInt64":    constant.MakeInt64(-1 << 63),
	"math.MaxInt64":    constant.MakeInt64(1<<63 - 1),
	"math.MinInt32":    constant.MakeInt64(-1 << 31),
	"math.MaxInt32":    constant.MakeInt64(1<<31 - 1),
}

// typed constants of package time (value, type)
var timeConsts = map[string]int64{"time.Nanosecond": 1, "time.Microsecond": 1e3, "time.Millisecond": 1e6, "time.Second": 1e9, "time.Minute": 60e9, "time.Hour": 3600e9}

func (t *tr) isRecv(e ast.Expr) bool {
	id, ok := e.(*ast.Ident)
	return ok && t.recv != "" && id.Name == t.recv
}

func isNil(e ast.Expr) bool {
	id, ok := e.(*ast.Ident)
	return ok && id.Name == "nil"
}

func (t *tr) expr(e ast.Expr) val {
	switch x := e.(type) {
	case *ast.ParenExpr:
		return t.expr(x.X)
	case *ast.BasicLit:
		if x.Kind == token.INT || x.Kind == token.FLOAT {
			return val{t: "untyped", c: constant.MakeFromLiteral(x.Value, x.Kind, 0)}
		}
	case *ast.Ident:
		if ty, ok := t.vars[x.Name]; ok {
			return val{lean: x.Name, t: ty}
		}
		if c, ok := t.consts[x.Name]; ok {
			return val{t: "untyped", c: c}
		}
		if x.Name == "true" || x.Name == "false" {
			return val{t: "untyped", c: constant.MakeBool(x.Name == "true")}
		}
	case *ast.SelectorExpr:
		name := t.src(x)
		if c, ok := stdConsts[name]; ok {
			return val{t: "untyped", c: c}
		}
		if c, ok := timeConsts[name]; ok {
			return val{t: "time.Duration", c: constant.MakeInt64(c)}
		}
	case *ast.UnaryExpr:
		if x.Op == token.AND {
			break
		}
		a := t.expr(x.X)
		if a.c != nil {
			if x.Op == token.SUB || x.Op == token.ADD || x.Op == token.NOT {
				return val{t: a.t, c: constant.UnaryOp(x.Op, a.c, 0)}
			}
			break
		}
		switch x.Op {
		case token.SUB:
			if _, _, ok := bits(a.t); ok {
				return val{lean: "(-" + a.lean + ")", t: a.t}
			}
		case token.ADD:
			if _, _, ok := bits(a.t); ok {
				return a
			}
		case token.NOT:
			if a.t == "bool" {
				return val{lean: "(!" + a.lean + ")", t: "bool"}
			}
		}
	case *ast.BinaryExpr:
		return t.binary(x)
	case *ast.CallExpr:
		return t.call(x)
	}
	if u, ok := e.(*ast.UnaryExpr); ok && u.Op == token.AND {
		if cl, ok := u.X.(*ast.CompositeLit); ok {
			if id, ok := cl.Type.(*ast.Ident); ok && id.Name == t.spec.name {
				secs, nanos := "0#64", "0#32"
				for _, el := range cl.Elts {
					kv, ok := el.(*ast.KeyValueExpr)
					if !ok {
						panic(fail("unkeyed composite literal %s", t.src(cl)))
					}
					switch t.src(kv.Key) {
					case "Seconds":
						secs = coerce(t.expr(kv.Value), "int64")
					case "Nanos":
						nanos = coerce(t.expr(kv.Value), "int32")
					default:
						panic(fail("unexpected field %s in %s", t.src(kv.Key), t.src(cl)))
					}
				}
				return val{lean: "(" + secs + ", " + nanos + ")", t: "*Msg"}
			}
		}
	}
	panic(fail("unsupported expression %s", t.src(e)))
}

func (t *tr) binary(x *ast.BinaryExpr) val {
	// x == nil / x != nil on the receiver
	if (x.Op == token.EQL || x.Op == token.NEQ) && (t.isRecv(x.X) && isNil(x.Y) || t.isRecv(x.Y) && isNil(x.X)) {
		if x.Op == token.EQL {
			return val{lean: t.recv + "_nil", t: "bool"}
		}
		return val{lean: "(!" + t.recv + "_nil)", t: "bool"}
	}
	a, b := t.expr(x.X), t.expr(x.Y)
	if a.c != nil && b.c != nil && (a.t == "untyped" || b.t == "untyped" || a.t == b.t) {
		rt := a.t
		if rt == "untyped" {
			rt = b.t
		}
		switch x.Op {
		case token.ADD, token.SUB, token.MUL:
			return val{t: rt, c: constant.BinaryOp(a.c, x.Op, b.c)}
		case token.QUO:
			if constant.ToInt(a.c).Kind() == constant.Int && constant.ToInt(b.c).Kind() == constant.Int && rt != "untyped" {
				return val{t: rt, c: constant.BinaryOp(constant.ToInt(a.c), token.QUO_ASSIGN, constant.ToInt(b.c))}
			}
		case token.EQL, token.NEQ, token.LSS, token.LEQ, token.GTR, token.GEQ:
			return val{t: "untyped", c: constant.MakeBool(constant.Compare(a.c, x.Op, b.c))}
		}
		panic(fail("unsupported constant expression %s", t.src(x)))
	}
	// operand type: the non-constant side decides
	ty := a.t
	if a.c != nil && a.t == "untyped" {
		ty = b.t
	}
	if x.Op == token.LAND || x.Op == token.LOR {
		op := map[token.Token]string{token.LAND: "&&", token.LOR: "||"}[x.Op]
		return val{lean: "(" + coerce(a, "bool") + " " + op + " " + coerce(b, "bool") + ")", t: "bool"}
	}
	la, lb := coerce(a, ty), coerce(b, ty)
	w, signed, isInt := bits(ty)
	_ = w
	if !isInt {
		if ty == "bool" && (x.Op == token.EQL || x.Op == token.NEQ) {
			op := map[token.Token]string{token.EQL: "==", token.NEQ: "!="}[x.Op]
			return val{lean: "(" + la + " " + op + " " + lb + ")", t: "bool"}
		}
		panic(fail("unsupported operand type %s in %s", ty, t.src(x)))
	}
	lt, le, div, rem := "BitVec.ult", "BitVec.ule", "BitVec.udiv", "BitVec.umod"
	if signed {
		lt, le, div, rem = "BitVec.slt", "BitVec.sle", "BitVec.sdiv", "BitVec.srem"
	}
	switch x.Op {
	case token.ADD, token.SUB, token.MUL:
		return val{lean: "(" + la + " " + x.Op.String() + " " + lb + ")", t: ty}
	case token.QUO, token.REM:
		if b.c == nil || constant.Sign(constant.ToInt(b.c)) == 0 {
			panic(fail("division by a non-constant or zero divisor (may panic): %s", t.src(x)))
		}
		f := div
		if x.Op == token.REM {
			f = rem
		}
		return val{lean: "(" + f + " " + la + " " + lb + ")", t: ty}
	case token.EQL:
		return val{lean: "(" + la + " == " + lb + ")", t: "bool"}
	case token.NEQ:
		return val{lean: "(" + la + " != " + lb + ")", t: "bool"}
	case token.LSS:
		return val{lean: "(" + lt + " " + la + " " + lb + ")", t: "bool"}
	case token.LEQ:
		return val{lean: "(" + le + " " + la + " " + lb + ")", t: "bool"}
	case token.GTR:
		return val{lean: "(" + lt + " " + lb + " " + la + ")", t: "bool"}
	case token.GEQ:
		return val{lean: "(" + le + " " + lb + " " + la + ")", t: "bool"}
	}
	panic(fail("unsupported operator in %s", t.src(x)))
}

func (t *tr) convert(to gtype, a val, src string) val {
	if a.c != nil {
		if a.t != "untyped" {
			if _, _, ok := bits(a.t); !ok {
				panic(fail("unsupported conversion %s", src))
			}
		}
		literal(a.c, to) // range check
		return val{t: to, c: constant.ToInt(a.c)}
	}
	wf, sf, ok1 := bits(a.t)
	wt, _, ok2 := bits(to)
	if !ok1 || !ok2 {
		panic(fail("unsupported conversion %s", src))
	}
	switch {
	case wf == wt:
		return val{lean: a.lean, t: to}
	case wf < wt && sf:
		return val{lean: fmt.Sprintf("(%s.signExtend %d)", a.lean, wt), t: to}
	default: // zero-extension or truncation
		return val{lean: fmt.Sprintf("(%s.setWidth %d)", a.lean, wt), t: to}
	}
}

func (t *tr) call(x *ast.CallExpr) val {
	fun := t.src(x.Fun)
	switch fun {
	case "int64", "int32", "int", "uint", "uint64", "uint32", "time.Duration":
		if len(x.Args) == 1 {
			return t.convert(gtype(fun), t.expr(x.Args[0]), t.src(x))
		}
	case "time.Unix":
		if len(x.Args) == 2 {
			a, b := coerce(t.expr(x.Args[0]), "int64"), coerce(t.expr(x.Args[1]), "int64")
			return val{lean: "(GoTime.unix " + a + " " + b + ")", t: "time.Time"}
		}
	case "protoimpl.X.NewError":
		if len(x.Args) >= 1 {
			if lit, ok := x.Args[0].(*ast.BasicLit); ok && lit.Kind == token.STRING {
				s, _ := strconv.Unquote(lit.Value)
				cls, ok := t.spec.errTexts[s]
				if !ok {
					panic(fail("error text %q is not one of the known CheckValid messages", s))
				}
				for _, a := range x.Args[1:] {
					if !t.isRecv(a) {
						panic(fail("unexpected NewError argument %s", t.src(a)))
					}
				}
				return val{lean: fmt.Sprintf("%d /- %s -/", cls, strings.ReplaceAll(strings.ReplaceAll(s, "-/", "- /"), "/-", "/ -")), t: "error"}
			}
		}
	}
	if sel, ok := x.Fun.(*ast.SelectorExpr); ok && len(x.Args) == 0 {
		if t.isRecv(sel.X) {
			switch sel.Sel.Name {
			case "GetSeconds":
				return val{lean: t.recv + "_Seconds", t: "int64"}
			case "GetNanos":
				return val{lean: t.recv + "_Nanos", t: "int32"}
			case "check":
				return val{lean: fmt.Sprintf("(%s %s_nil %s_Seconds %s_Nanos)", t.leanName("check"), t.recv, t.recv, t.recv), t: "uint"}
			}
		} else {
			a := t.expr(sel.X)
			switch {
			case a.t == "time.Duration" && a.c == nil && sel.Sel.Name == "Nanoseconds":
				return val{lean: "(GoTime.durationNanoseconds " + a.lean + ")", t: "int64"}
			case a.t == "time.Time" && sel.Sel.Name == "Unix":
				return val{lean: a.lean + ".unix", t: "int64"}
			case a.t == "time.Time" && sel.Sel.Name == "Nanosecond":
				return val{lean: a.lean + ".nsec", t: "int"}
			case a.t == "time.Time" && sel.Sel.Name == "UTC":
				return val{lean: "(GoTime.Time.utc " + a.lean + ")", t: "time.Time"}
			}
		}
	}
	panic(fail("unsupported call %s", t.src(x)))
}

func ind(n int) string { return strings.Repeat("  ", n) }

// stmts renders a statement list; k renders what follows the list (nil = falling off the end of the function).
func (t *tr) stmts(list []ast.Stmt, depth int, k func(depth int) string) string {
	if len(list) == 0 {
		if k == nil {
			panic(fail("control reaches the end of the function without a return"))
		}
		return k(depth)
	}
	rest := func(d int) string { return t.stmts(list[1:], d, k) }
	switch s := list[0].(type) {
	case *ast.ReturnStmt:
		if len(s.Results) != 1 {
			panic(fail("unsupported return %s", t.src(s)))
		}
		if t.result == "error" && isNil(s.Results[0]) {
			return ind(depth) + "0 /- nil -/\n"
		}
		return ind(depth) + "(" + coerce(t.expr(s.Results[0]), t.result) + ")\n"
	case *ast.DeclStmt:
		gd, ok := s.Decl.(*ast.GenDecl)
		if !ok || gd.Tok != token.CONST {
			break
		}
		t.constDecl(gd)
		return rest(depth)
	case *ast.AssignStmt:
		if len(s.Lhs) != 1 || len(s.Rhs) != 1 {
			break
		}
		id, ok := s.Lhs[0].(*ast.Ident)
		if !ok {
			break
		}
		r := t.expr(s.Rhs[0])
		var rhs string
		switch s.Tok {
		case token.DEFINE:
			if r.c != nil {
				if r.t == "untyped" { // default type of the constant
					switch r.c.Kind() {
					case constant.Bool:
						r.t = "bool"
					case constant.Int:
						r.t = "int"
					default:
						panic(fail("unsupported untyped constant in := (%s)", t.src(s)))
					}
				}
				rhs = coerce(r, r.t)
			} else {
				rhs = r.lean
			}
			t.vars[id.Name] = r.t
		case token.ASSIGN:
			ty, ok := t.vars[id.Name]
			if !ok {
				panic(fail("assignment to unknown variable %s", id.Name))
			}
			rhs = coerce(r, ty)
		case token.ADD_ASSIGN, token.SUB_ASSIGN, token.MUL_ASSIGN:
			ty, ok := t.vars[id.Name]
			if !ok {
				panic(fail("assignment to unknown variable %s", id.Name))
			}
			if _, _, isInt := bits(ty); !isInt {
				panic(fail("unsupported %s", t.src(s)))
			}
			op := map[token.Token]string{token.ADD_ASSIGN: "+", token.SUB_ASSIGN: "-", token.MUL_ASSIGN: "*"}[s.Tok]
			rhs = "(" + id.Name + " " + op + " " + coerce(r, ty) + ")"
		default:
			panic(fail("unsupported assignment %s", t.src(s)))
		}
		return ind(depth) + "let " + id.Name + " := " + rhs + "\n" + rest(depth)
	case *ast.IfStmt:
		if s.Init != nil {
			break
		}
		c := coerce(t.expr(s.Cond), "bool")
		out := ind(depth) + "if " + c + " then\n" + t.stmts(s.Body.List, depth+1, rest)
		out += ind(depth) + "else\n"
		switch e := s.Else.(type) {
		case nil:
			out += rest(depth + 1)
		case *ast.BlockStmt:
			out += t.stmts(e.List, depth+1, rest)
		case *ast.IfStmt:
			out += t.stmts([]ast.Stmt{e}, depth+1, rest)
		}
		return out
	case *ast.SwitchStmt:
		if s.Init != nil {
			break
		}
		var tag *val
		out := ""
		d := depth
		if s.Tag != nil {
			v := t.expr(s.Tag)
			if v.c != nil {
				panic(fail("constant switch tag %s", t.src(s.Tag)))
			}
			out += ind(d) + "let switchTag := " + v.lean + "\n"
			tag = &val{lean: "switchTag", t: v.t}
		}
		var deflt []ast.Stmt
		hasDefault := false
		type arm struct {
			cond string
			body []ast.Stmt
		}
		var arms []arm
		for _, cc := range s.Body.List {
			cl := cc.(*ast.CaseClause)
			for _, b := range cl.Body {
				if br, ok := b.(*ast.BranchStmt); ok {
					panic(fail("unsupported %s in switch", br.Tok))
				}
			}
			if cl.List == nil {
				deflt, hasDefault = cl.Body, true
				continue
			}
			var conds []string
			for _, ce := range cl.List {
				v := t.expr(ce)
				if tag != nil {
					conds = append(conds, "("+tag.lean+" == "+coerce(v, tag.t)+")")
				} else {
					conds = append(conds, coerce(v, "bool"))
				}
			}
			c := conds[0]
			if len(conds) > 1 {
				c = "(" + strings.Join(conds, " || ") + ")"
			}
			arms = append(arms, arm{c, cl.Body})
		}
		for _, a := range arms {
			out += ind(d) + "if " + a.cond + " then\n" + t.stmts(a.body, d+1, rest) + ind(d) + "else\n"
			d++
		}
		if hasDefault {
			out += t.stmts(deflt, d, rest)
		} else {
			out += rest(d)
		}
		return out
	}
	panic(fail("unsupported statement %s", t.src(list[0])))
}

func (t *tr) constDecl(gd *ast.GenDecl) {
	var last []ast.Expr
	for i, sp := range gd.Specs {
		vs := sp.(*ast.ValueSpec)
		vals := vs.Values
		if len(vals) == 0 {
			vals = last
		} else {
			last = vals
		}
		for j, nm := range vs.Names {
			if j >= len(vals) {
				panic(fail("constant %s without value", nm.Name))
			}
			saved, had := t.consts["iota"]
			t.consts["iota"] = constant.MakeInt64(int64(i))
			v := t.expr(vals[j])
			if had {
				t.consts["iota"] = saved
			} else {
				delete(t.consts, "iota")
			}
			if v.c == nil {
				panic(fail("non-constant initialiser of %s", nm.Name))
			}
			if nm.Name != "_" {
				t.consts[nm.Name] = v.c
			}
		}
	}
}

// function translates one FuncDecl to a Lean definition.
func (t *tr) function(fd *ast.FuncDecl) string {
	t.vars = map[string]gtype{}
	t.recv = ""
	var params []string
	if fd.Recv != nil {
		f := fd.Recv.List[0]
		if st, ok := f.Type.(*ast.StarExpr); !ok || t.src(st.X) != t.spec.name || len(f.Names) != 1 {
			panic(fail("unexpected receiver %s", t.src(f.Type)))
		}
		t.recv = f.Names[0].Name
		usesNil := false
		ast.Inspect(fd.Body, func(n ast.Node) bool {
			switch y := n.(type) {
			case *ast.Ident:
				if y.Name == "nil" {
					usesNil = true
				}
			case *ast.SelectorExpr:
				if t.isRecv(y.X) && y.Sel.Name == "check" {
					usesNil = true
				}
			}
			return true
		})
		if usesNil {
			params = append(params, "("+t.recv+"_nil : Bool)")
		}
		params = append(params, "("+t.recv+"_Seconds : BitVec 64)", "("+t.recv+"_Nanos : BitVec 32)")
	}
	for _, f := range fd.Type.Params.List {
		ty := typeName(f.Type)
		for _, nm := range f.Names {
			t.vars[nm.Name] = ty
			params = append(params, "("+nm.Name+" : "+leanType(ty)+")")
		}
	}
	if fd.Type.Results == nil || len(fd.Type.Results.List) != 1 || len(fd.Type.Results.List[0].Names) != 0 {
		panic(fail("unsupported result list"))
	}
	t.result = typeName(fd.Type.Results.List[0].Type)
	saved := map[string]constant.Value{}
	for k, v := range t.consts {
		saved[k] = v
	}
	body := t.stmts(fd.Body.List, 1, nil)
	t.consts = saved
	return fmt.Sprintf("def %s %s : %s :=\n%s", t.leanName(fd.Name.Name), strings.Join(params, " "), leanType(t.result), body)
}

// ---------------------------------------------------------------- per-file extraction

type entry struct {
	Status string `json:"status"`
	Hash   string `json:"hash,omitempty"`
	Value  string `json:"value,omitempty"`
}

type extracted struct {
	defs   map[string]string // go func name -> lean def
	src    map[string]string // go func name -> printed Go source
	consts map[string]string // const name -> value (package level and function-local, "func.name")
	errs   map[string]string // go func name -> failure
}

func try(f func()) (err string) {
	defer func() {
		if e := recover(); e != nil {
			if fl, ok := e.(failure); ok {
				err = fl.msg
				return
			}
			err = fmt.Sprint("internal: ", e)
		}
	}()
	f()
	return ""
}

func extract(fset *token.FileSet, file *ast.File, spec *msgSpec) *extracted {
	ex := &extracted{defs: map[string]string{}, src: map[string]string{}, consts: map[string]string{}, errs: map[string]string{}}
	t := &tr{spec: spec, consts: map[string]constant.Value{}, fset: fset}
	funcs := map[string]*ast.FuncDecl{}
	for _, d := range file.Decls {
		switch x := d.(type) {
		case *ast.GenDecl:
			if x.Tok != token.CONST {
				continue
			}
			// only the iota block of error codes matters; other const blocks (enum values …) are skipped when unsupported
			names := map[string]bool{}
			for _, sp := range x.Specs {
				for _, nm := range sp.(*ast.ValueSpec).Names {
					names[nm.Name] = true
				}
			}
			if !names["invalidNil"] {
				continue
			}
			if e := try(func() { t.constDecl(x) }); e != "" {
				ex.errs["const"] = e
			}
			for n := range names {
				if c, ok := t.consts[n]; ok {
					ex.consts[n] = c.ExactString()
				}
			}
		case *ast.FuncDecl:
			if x.Recv == nil {
				funcs[x.Name.Name] = x
			} else if st, ok := x.Recv.List[0].Type.(*ast.StarExpr); ok && t.src(st.X) == spec.name {
				funcs[x.Name.Name] = x
			}
		}
	}
	for _, name := range spec.funcs {
		fd, ok := funcs[name]
		if !ok {
			ex.errs[name] = "function not found"
			continue
		}
		ex.src[name] = t.src(fd)
		// function-local constants, for the manifest and the Lean constants
		ast.Inspect(fd.Body, func(n ast.Node) bool {
			if gd, ok := n.(*ast.GenDecl); ok && gd.Tok == token.CONST {
				t2 := &tr{spec: spec, consts: map[string]constant.Value{}, fset: fset}
				for k, v := range t.consts {
					t2.consts[k] = v
				}
				if try(func() { t2.constDecl(gd) }) == "" {
					for _, sp := range gd.Specs {
						for _, nm := range sp.(*ast.ValueSpec).Names {
							if c, ok := t2.consts[nm.Name]; ok {
								ex.consts[nm.Name] = constant.ToInt(c).ExactString()
							}
						}
					}
				}
			}
			return true
		})
		var def string
		if e := try(func() { def = t.function(fd) }); e != "" {
			ex.errs[name] = e
			continue
		}
		ex.defs[name] = def
	}
	return ex
}

// getters checks the shape of GetSeconds/GetNanos and the field types (only in the .pb.go file).
func getters(fset *token.FileSet, file *ast.File, spec *msgSpec) string {
	want := map[string]string{
		"GetSeconds": "func (x *" + spec.name + ") GetSeconds() int64 {\n\tif x != nil {\n\t\treturn x.Seconds\n\t}\n\treturn 0\n}",
		"GetNanos":   "func (x *" + spec.name + ") GetNanos() int32 {\n\tif x != nil {\n\t\treturn x.Nanos\n\t}\n\treturn 0\n}",
	}
	found := 0
	for _, d := range file.Decls {
		switch x := d.(type) {
		case *ast.FuncDecl:
			if w, ok := want[x.Name.Name]; ok && x.Recv != nil {
				x.Doc = nil
				var b bytes.Buffer
				printer.Fprint(&b, fset, x)
				if b.String() != w {
					return "getter " + x.Name.Name + " has an unexpected shape: " + b.String()
				}
				found++
			}
		case *ast.GenDecl:
			if x.Tok != token.TYPE {
				continue
			}
			for _, sp := range x.Specs {
				ts := sp.(*ast.TypeSpec)
				st, ok := ts.Type.(*ast.StructType)
				if !ok || ts.Name.Name != spec.name {
					continue
				}
				for _, f := range st.Fields.List {
					for _, nm := range f.Names {
						var b bytes.Buffer
						printer.Fprint(&b, fset, f.Type)
						if nm.Name == "Seconds" && b.String() == "int64" || nm.Name == "Nanos" && b.String() == "int32" {
							found++
						}
					}
				}
			}
		}
	}
	if found != 4 {
		return fmt.Sprintf("expected GetSeconds, GetNanos, Seconds int64, Nanos int32; found %d of 4", found)
	}
	return ""
}

// templateSource re-assembles the Go source that the generator template prints for the message.
func templateSource(fset *token.FileSet, file *ast.File, spec *msgSpec) (string, string) {
	var clause *ast.CaseClause
	ast.Inspect(file, func(n ast.Node) bool {
		if cc, ok := n.(*ast.CaseClause); ok {
			for _, e := range cc.List {
				var b bytes.Buffer
				printer.Fprint(&b, fset, e)
				if b.String() == "genid."+spec.name+"_message_fullname" && clause == nil {
					// the first switch with this case is in genMessageKnownFunctions / genPackageKnownComment; take the one whose body prints "func "
					txt := bytes.Buffer{}
					printer.Fprint(&txt, fset, cc)
					if strings.Contains(txt.String(), "func New(") {
						clause = cc
					}
				}
			}
		}
		return true
	})
	if clause == nil {
		return "", "template case genid." + spec.name + "_message_fullname not found"
	}
	var sb strings.Builder
	sb.WriteString("package p\n")
	bad := ""
	for _, st := range clause.Body {
		es, ok := st.(*ast.ExprStmt)
		if !ok {
			continue
		}
		call, ok := es.X.(*ast.CallExpr)
		if !ok {
			continue
		}
		var fb bytes.Buffer
		printer.Fprint(&fb, fset, call.Fun)
		if fb.String() != "g.P" {
			continue
		}
		for _, a := range call.Args {
			switch x := a.(type) {
			case *ast.BasicLit:
				if x.Kind == token.STRING {
					s, _ := strconv.Unquote(x.Value)
					sb.WriteString(s)
					continue
				}
			case *ast.CallExpr: // timePackage.Ident("Now")
				if sel, ok := x.Fun.(*ast.SelectorExpr); ok && sel.Sel.Name == "Ident" && len(x.Args) == 1 {
					if p, ok := sel.X.(*ast.Ident); ok && strings.HasSuffix(p.Name, "Package") {
						if lit, ok := x.Args[0].(*ast.BasicLit); ok {
							s, _ := strconv.Unquote(lit.Value)
							sb.WriteString(strings.TrimSuffix(p.Name, "Package") + "." + s)
							continue
						}
					}
				}
			}
			var ab bytes.Buffer
			printer.Fprint(&ab, fset, a)
			bad = "unsupported g.P argument " + ab.String()
		}
		sb.WriteString("\n")
	}
	return sb.String(), bad
}

// ---------------------------------------------------------------- main

func main() {
	repo := flag.String("repo", "/repo", "protobuf-go working tree")
	out := flag.String("o", "", "output Lean file")
	manifest := flag.String("manifest", "", "output manifest json")
	flag.Parse()

	man := map[string]entry{}
	var lean strings.Builder
	lean.WriteString("-- GENERATED by /verif/go/gen-wkttime from types/known/durationpb/duration.pb.go and types/known/timestamppb/timestamp.pb.go\n")
	lean.WriteString("-- (cross-checked against the templates in cmd/protoc-gen-go/internal_gengo/well_known_types.go) — do not edit; regenerated on every check run\n")
	lean.WriteString("import PbVerif.Model.WktTimeStd\nset_option linter.unusedVariables false\nnamespace Gen.WktTime\n\n")
	lean.WriteString("/- Conventions: int64/int/time.Duration ↦ BitVec 64, int32 ↦ BitVec 32 (two's complement; `/` ↦ sdiv, `<` ↦ slt);\n")
	lean.WriteString("   receiver `x *T` ↦ `x_nil` (x == nil), `x_Seconds` = x.GetSeconds(), `x_Nanos` = x.GetNanos();\n")
	lean.WriteString("   `&T{Seconds: s, Nanos: n}` ↦ `(s, n)`; `error` ↦ Nat class (0 = nil, k = k-th CheckValid message);\n")
	lean.WriteString("   `time.Time` ↦ GoTime.Time (Unix(), Nanosecond()). -/\n\n")
	ok := true
	tplPath := filepath.Join(*repo, "cmd/protoc-gen-go/internal_gengo/well_known_types.go")
	fset := token.NewFileSet()
	tplFile, tplErr := parser.ParseFile(fset, tplPath, nil, 0)

	for i := range specs {
		spec := &specs[i]
		rel := "types/known/" + spec.prefix + "pb/" + spec.prefix + ".pb.go"
		file, err := parser.ParseFile(fset, filepath.Join(*repo, rel), nil, 0)
		if err != nil {
			man[spec.prefix+".parse"] = entry{Status: "cannot parse " + rel + ": " + err.Error()}
			ok = false
			continue
		}
		if g := getters(fset, file, spec); g != "" {
			man[spec.prefix+".getters"] = entry{Status: g}
			ok = false
		} else {
			man[spec.prefix+".getters"] = entry{Status: "ok", Value: "if x != nil { return x.F }; return 0"}
		}
		ex := extract(fset, file, spec)

		// the template
		var tex *extracted
		tplStatus := ""
		if tplErr != nil {
			tplStatus = "cannot parse template: " + tplErr.Error()
		} else {
			src, bad := templateSource(fset, tplFile, spec)
			if bad != "" {
				tplStatus = bad
			} else {
				tf, err := parser.ParseFile(fset, spec.prefix+"_template.go", src, 0)
				if err != nil {
					tplStatus = "template output does not parse: " + err.Error()
				} else {
					tex = extract(fset, tf, spec)
				}
			}
		}

		names := []string{}
		for n := range ex.consts {
			names = append(names, n)
		}
		sort.Strings(names)
		for _, n := range names {
			man[spec.prefix+".const."+n] = entry{Status: "ok", Value: ex.consts[n]}
			fmt.Fprintf(&lean, "def %s : Int := %s\n\n", spec.prefix+upperFirst(n), ex.consts[n])
		}
		if e, bad := ex.errs["const"]; bad {
			man[spec.prefix+".const"] = entry{Status: e}
			ok = false
		}
		for _, fn := range spec.funcs {
			key := spec.prefix + "." + fn
			if e, bad := ex.errs[fn]; bad {
				man[key] = entry{Status: "not translatable: " + e}
				ok = false
				continue
			}
			h := sha256.Sum256([]byte(ex.src[fn]))
			man[key] = entry{Status: "ok", Hash: fmt.Sprintf("%x", h[:8])}
			lean.WriteString("/-\n" + strings.ReplaceAll(strings.ReplaceAll(ex.src[fn], "-/", "- /"), "/-", "/ -") + "\n-/\n")
			lean.WriteString(ex.defs[fn] + "\n")
			// template agreement
			tkey := spec.prefix + ".template." + fn
			switch {
			case tplStatus != "":
				man[tkey] = entry{Status: tplStatus}
				ok = false
			case tex.errs[fn] != "":
				man[tkey] = entry{Status: "template not translatable: " + tex.errs[fn]}
				ok = false
			case tex.defs[fn] != ex.defs[fn]:
				man[tkey] = entry{Status: "generator template and checked-in " + rel + " differ in " + fn}
				ok = false
			default:
				man[tkey] = entry{Status: "ok", Hash: fmt.Sprintf("%x", h[:8])}
			}
		}
		if tex != nil {
			for _, n := range names {
				if tex.consts[n] != ex.consts[n] {
					man[spec.prefix+".template.const."+n] = entry{Status: fmt.Sprintf("template has %s, checked-in file has %s", tex.consts[n], ex.consts[n])}
					ok = false
				}
			}
		}
	}
	lean.WriteString("end Gen.WktTime\n")

	if ok && *out != "" {
		old, _ := os.ReadFile(*out)
		if string(old) != lean.String() {
			if err := os.WriteFile(*out, []byte(lean.String()), 0o644); err != nil {
				fmt.Fprintln(os.Stderr, err)
				os.Exit(2)
			}
		}
	}
	if !ok {
		fmt.Fprintln(os.Stderr, "gen-wkttime: extraction incomplete; "+*out+" left unchanged")
	}
	if *manifest != "" {
		mj, _ := json.MarshalIndent(man, "", " ")
		if err := os.WriteFile(*manifest, mj, 0o644); err != nil {
			fmt.Fprintln(os.Stderr, err)
			os.Exit(2)
		}
	} else if *out == "" {
		fmt.Print(lean.String())
	}
}
