// encoders.go: the ENCODER side.  internal/impl, internal/encoding/messageset, encoding/protodelim and
// proto append varints, tags and length prefixes only through encoding/protowire (AppendVarint,
// SizeVarint, AppendTag, SizeTag, AppendBytes, SizeBytes, EncodeTag — translated and proved under C01/C02;
// `f.wiretag` / `f.tagsize` are protowire.EncodeTag / protowire.SizeVarint(wiretag) computed once per field).
// This scanner asserts that fact structurally: any fragment that looks like a re-implementation of
// varint size or varint append outside protowire is listed; the list must be empty
// (`Gen.ImplFast.inlinedVarintEncoders = []`, theorem C06.noInlinedVarintEncoders, and manifest entry
// `noInlinedVarintEncoders`).
//
// Indicators (syntactic, no type information):
//
//	bits        call of bits.Len / Len32 / Len64 / LeadingZeros*          (closed-form size: (9*bits.Len64(v)+64)/64)
//	formula     x/64 or x>>6 whose dividend multiplies by 9              (the same closed form without math/bits)
//	contbit     x | 0x80, 0x80 | x, x |= 0x80                            (continuation bit of an emitted byte)
//	shr7        x >> 7k (k = 1…9) with a literal count, x >>= 7          (the shift ladder of an append loop)
//	sizeladder  comparison with the constant 1<<14, 1<<21, …, 1<<63      (`case v < 1<<14: return 2`)
//	funcname    a function named like sizeVarint / appendVarint / putVarint / encodeVarint / varintSize
package main

import (
	"fmt"
	"go/ast"
	"go/parser"
	"go/token"
	"os"
	"path/filepath"
	"regexp"
	"sort"
	"strconv"
	"strings"
)

var encoderDirs = []string{"internal/impl", "internal/encoding/messageset", "encoding/protodelim", "proto"}

var protowireEncoders = map[string]bool{"AppendVarint": true, "SizeVarint": true, "AppendTag": true, "SizeTag": true,
	"AppendBytes": true, "SizeBytes": true, "AppendString": true, "EncodeTag": true, "AppendFixed32": true, "AppendFixed64": true,
	"SizeFixed32": true, "SizeFixed64": true, "AppendGroup": true, "SizeGroup": true, "EncodeZigZag": true, "EncodeBool": true}

var encFuncName = regexp.MustCompile(`(?i)^((size|sizeof|append|put|encode|write|marshal|len)_?u?varint(32|64)?|u?varint_?(size|len|length))$`)

type encScan struct {
	hits  []string       // "dir/file:line kind"
	calls map[string]int // dir -> number of protowire encoder calls
	files int
}

func litVal(e ast.Expr) (uint64, bool) {
	for {
		p, ok := e.(*ast.ParenExpr)
		if !ok {
			break
		}
		e = p.X
	}
	switch x := e.(type) {
	case *ast.BasicLit:
		if x.Kind == token.INT {
			v, err := strconv.ParseUint(strings.ReplaceAll(x.Value, "_", ""), 0, 64)
			return v, err == nil
		}
	case *ast.BinaryExpr:
		if x.Op == token.SHL {
			a, ok1 := litVal(x.X)
			b, ok2 := litVal(x.Y)
			if ok1 && ok2 && b < 64 {
				return a << b, true
			}
		}
	case *ast.CallExpr: // uint64(1 << 14)
		if len(x.Args) == 1 {
			if id, ok := x.Fun.(*ast.Ident); ok && keep[id.Name] {
				return litVal(x.Args[0])
			}
		}
	}
	return 0, false
}

func isVarintBoundary(v uint64) bool { // 1<<14, 1<<21, …, 1<<63
	for k := uint(2); k <= 9; k++ {
		if v == 1<<(7*k) {
			return true
		}
	}
	return false
}

func scanEncoders(repo string) (*encScan, error) {
	res := &encScan{calls: map[string]int{}}
	for _, d := range encoderDirs {
		ents, err := os.ReadDir(filepath.Join(repo, d))
		if err != nil {
			return nil, err
		}
		for _, e := range ents {
			name := e.Name()
			if e.IsDir() || !strings.HasSuffix(name, ".go") || strings.HasSuffix(name, "_test.go") {
				continue
			}
			fset := token.NewFileSet()
			f, err := parser.ParseFile(fset, filepath.Join(repo, d, name), nil, 0)
			if err != nil {
				return nil, fmt.Errorf("%s/%s: %v", d, name, err)
			}
			res.files++
			hit := func(n ast.Node, kind string) {
				res.hits = append(res.hits, fmt.Sprintf("%s/%s:%d %s", d, name, fset.Position(n.Pos()).Line, kind))
			}
			ast.Inspect(f, func(n ast.Node) bool {
				switch x := n.(type) {
				case *ast.FuncDecl:
					if encFuncName.MatchString(x.Name.Name) {
						hit(x, "funcname:"+x.Name.Name)
					}
				case *ast.CallExpr:
					if sel, ok := x.Fun.(*ast.SelectorExpr); ok {
						if id, ok := sel.X.(*ast.Ident); ok {
							if id.Name == "bits" && (strings.HasPrefix(sel.Sel.Name, "Len") || strings.HasPrefix(sel.Sel.Name, "LeadingZeros")) {
								hit(x, "bits:"+sel.Sel.Name)
							}
							if id.Name == "protowire" && protowireEncoders[sel.Sel.Name] {
								res.calls[d]++
							}
						}
					}
				case *ast.AssignStmt:
					if len(x.Rhs) == 1 {
						if v, ok := litVal(x.Rhs[0]); ok {
							if x.Tok == token.OR_ASSIGN && v == 0x80 {
								hit(x, "contbit")
							}
							if x.Tok == token.SHR_ASSIGN && v == 7 {
								hit(x, "shr7")
							}
						}
					}
				case *ast.BinaryExpr:
					lv, lok := litVal(x.X)
					rv, rok := litVal(x.Y)
					switch x.Op {
					case token.OR:
						if (lok && lv == 0x80) || (rok && rv == 0x80) {
							hit(x, "contbit")
						}
					case token.SHR:
						if rok && rv >= 7 && rv <= 63 && rv%7 == 0 {
							hit(x, "shr7")
						}
						if rok && rv == 6 && contains(x.X, mulBy9) {
							hit(x, "formula")
						}
					case token.QUO:
						if rok && rv == 64 && contains(x.X, mulBy9) {
							hit(x, "formula")
						}
					case token.LSS, token.LEQ, token.GTR, token.GEQ:
						if (lok && isVarintBoundary(lv)) || (rok && isVarintBoundary(rv)) {
							hit(x, "sizeladder")
						}
					}
				}
				return true
			})
		}
	}
	sort.Strings(res.hits)
	return res, nil
}

func mulBy9(n ast.Node) bool {
	be, ok := n.(*ast.BinaryExpr)
	if !ok || be.Op != token.MUL {
		return false
	}
	a, ok1 := litVal(be.X)
	b, ok2 := litVal(be.Y)
	return (ok1 && a == 9) || (ok2 && b == 9)
}

// leanFacts renders the scanner's facts as Lean definitions (appended to Gen/ImplFast.lean)
func leanFacts(enc *encScan) string {
	var sb strings.Builder
	sb.WriteString("\n/-- varint-encoder-like fragments (size formula, continuation bit, shift ladder, size ladder, suggestive\nfunction name) found OUTSIDE encoding/protowire in ")
	sb.WriteString(strings.Join(encoderDirs, ", "))
	sb.WriteString(" — gen-implfast/encoders.go -/\ndef inlinedVarintEncoders : List String := [")
	for i, h := range enc.hits {
		if i > 0 {
			sb.WriteString(", ")
		}
		sb.WriteString(strconv.Quote(h))
	}
	sb.WriteString("]\n")
	return sb.String()
}
