// gen-implfast: T1 tie for the varint fast paths that internal/impl inlines instead of calling
// protowire.ConsumeVarint.
//
//  1. scan: every non-test file of internal/impl is parsed and searched STRUCTURALLY for
//     if / else-if / else chains whose last branch calls protowire.ConsumeVarint and whose earlier
//     conditions index a slice with a literal (b[0], b[1]).  Each occurrence ("site") is classified
//     loosely (varint: assigns `n = 1`; tag: re-slices `b = b[1:]` without a length check on b[0];
//     size: the same with `len(b) >= 1 &&`), normalised (local identifiers renamed in order of first
//     appearance, integer literals by value, redundant parentheses dropped, the terminating statement
//     of an error exit abstracted to TERM) and compared with the canonical shape of its kind.  For the
//     tag kind the statements that follow (the split into field number and wire type) are compared
//     with the two canonical split shapes, and the site must be the first statement of a
//     `for len(b) > 0` body (its b[0] is unguarded).  Any occurrence that differs from its canonical
//     shape, any chain of unknown kind and any `x & 0x7f` outside a recognised site makes a non-"ok"
//     manifest entry naming file:line — the tie is broken.
//  2. emit: for each kind the TEXT of the first occurrence (whether or not it matched) becomes the
//     body of a synthetic function (implFastVarint, implFastTag, implFastSize, implTagSplit,
//     implTagSplitUnchecked) in a temporary package that imports the protowire of the scanned tree;
//     only the error exit (`return out, errDecode`, `panic(…)`) is replaced by a failure return.
//  3. translate: the go2lean copy (./go2lean) renders them to lean/PbVerif/Gen/ImplFast.lean; the
//     theorems of Lemmas/ImplFast.lean + Props/C06ImplFast.lean are about exactly these definitions.
//
// usage: gen-implfast -repo /repo -g2l <go2lean-copy binary> -o <lean file> -manifest <json>
// Standard library only.
package main

import (
	"bytes"
	"crypto/sha256"
	"encoding/json"
	"flag"
	"fmt"
	"go/ast"
	"go/parser"
	"go/printer"
	"go/token"
	"os"
	"os/exec"
	"path/filepath"
	"sort"
	"strconv"
	"strings"
)

// ---------------------------------------------------------------- canonical shapes

const canonVarint = `
var v uint64
var n int
if len(b) >= 1 && b[0] < 0x80 {
	v = uint64(b[0])
	n = 1
} else if len(b) >= 2 && b[1] < 128 {
	v = uint64(b[0]&0x7f) + uint64(b[1])<<7
	n = 2
} else {
	v, n = protowire.ConsumeVarint(b)
}`

const canonTag = `
var tag uint64
if b[0] < 0x80 {
	tag = uint64(b[0])
	b = b[1:]
} else if len(b) >= 2 && b[1] < 128 {
	tag = uint64(b[0]&0x7f) + uint64(b[1])<<7
	b = b[2:]
} else {
	var n int
	tag, n = protowire.ConsumeVarint(b)
	if n < 0 {
		panic("TERM")
	}
	b = b[n:]
}`

const canonSize = `
var tag uint64
if len(b) >= 1 && b[0] < 0x80 {
	tag = uint64(b[0])
	b = b[1:]
} else if len(b) >= 2 && b[1] < 128 {
	tag = uint64(b[0]&0x7f) + uint64(b[1])<<7
	b = b[2:]
} else {
	var n int
	tag, n = protowire.ConsumeVarint(b)
	if n < 0 {
		panic("TERM")
	}
	b = b[n:]
}`

const canonSplitChecked = `
var num protowire.Number
if n := tag >> 3; n < uint64(protowire.MinValidNumber) || n > uint64(protowire.MaxValidNumber) {
	panic("TERM")
} else {
	num = protowire.Number(n)
}
wtyp := protowire.Type(tag & 7)`

const canonSplitUnchecked = `
num := protowire.Number(tag >> 3)
wtyp := protowire.Type(tag & 7)`

const canonGuard = `len(b) > 0`

// ---------------------------------------------------------------- normalisation

// identifiers that are never renamed (predeclared / package names)
var keep = map[string]bool{"len": true, "uint64": true, "uint32": true, "int": true, "int32": true, "int64": true,
	"byte": true, "protowire": true, "panic": true, "nil": true, "true": true, "false": true}

type renamer struct {
	m map[string]string
}

func newRenamer(seed map[string]string) *renamer {
	r := &renamer{m: map[string]string{}}
	for k, v := range seed {
		r.m[k] = v
	}
	return r
}

func (r *renamer) name(s string) string {
	if keep[s] {
		return s
	}
	if v, ok := r.m[s]; ok {
		return v
	}
	v := fmt.Sprintf("$%d", len(r.m)+1)
	r.m[s] = v
	return v
}

func isTerm(b *ast.BlockStmt) bool {
	return b != nil && isTermList(b.List)
}

// isTermList: a statement list that is exactly one error exit (`return …` or `panic(…)`)
func isTermList(l []ast.Stmt) bool {
	if len(l) != 1 {
		return false
	}
	switch s := l[0].(type) {
	case *ast.ReturnStmt:
		return true
	case *ast.ExprStmt:
		if c, ok := s.X.(*ast.CallExpr); ok {
			if id, ok := c.Fun.(*ast.Ident); ok && id.Name == "panic" {
				return true
			}
		}
	}
	return false
}

func rawText(fset *token.FileSet, n ast.Node) string {
	var buf bytes.Buffer
	printer.Fprint(&buf, fset, n)
	return "RAW<" + buf.String() + ">"
}

// canon prints a node as an s-expression with renamed local identifiers.
func canon(fset *token.FileSet, n ast.Node, r *renamer) string {
	c := func(x ast.Node) string { return canon(fset, x, r) }
	switch n := n.(type) {
	case nil:
		return "_"
	case *ast.Ident:
		return r.name(n.Name)
	case *ast.BasicLit:
		if n.Kind == token.INT {
			if v, err := strconv.ParseUint(strings.ReplaceAll(n.Value, "_", ""), 0, 64); err == nil {
				return strconv.FormatUint(v, 10)
			}
		}
		return n.Kind.String() + ":" + n.Value
	case *ast.ParenExpr:
		return c(n.X)
	case *ast.BinaryExpr:
		return "(" + n.Op.String() + " " + c(n.X) + " " + c(n.Y) + ")"
	case *ast.UnaryExpr:
		return "(u" + n.Op.String() + " " + c(n.X) + ")"
	case *ast.SelectorExpr:
		return "(sel " + c(n.X) + " " + n.Sel.Name + ")"
	case *ast.IndexExpr:
		return "(idx " + c(n.X) + " " + c(n.Index) + ")"
	case *ast.SliceExpr:
		lo, hi, mx := "_", "_", "_"
		if n.Low != nil {
			lo = c(n.Low)
		}
		if n.High != nil {
			hi = c(n.High)
		}
		if n.Max != nil {
			mx = c(n.Max)
		}
		return "(slice " + c(n.X) + " " + lo + " " + hi + " " + mx + ")"
	case *ast.CallExpr:
		s := "(call " + c(n.Fun)
		for _, a := range n.Args {
			s += " " + c(a)
		}
		if n.Ellipsis.IsValid() {
			s += " ..."
		}
		return s + ")"
	case *ast.AssignStmt:
		s := "(" + n.Tok.String()
		for _, l := range n.Lhs {
			s += " " + c(l)
		}
		s += " <-"
		for _, x := range n.Rhs {
			s += " " + c(x)
		}
		return s + ")"
	case *ast.DeclStmt:
		gd, ok := n.Decl.(*ast.GenDecl)
		if !ok || gd.Tok != token.VAR {
			return rawText(fset, n)
		}
		s := "(var"
		for _, sp := range gd.Specs {
			vs := sp.(*ast.ValueSpec)
			s += " ["
			for _, id := range vs.Names {
				s += c(id) + " "
			}
			s += ": "
			if vs.Type != nil {
				s += c(vs.Type)
			} else {
				s += "_"
			}
			for _, v := range vs.Values {
				s += " = " + c(v)
			}
			s += "]"
		}
		return s + ")"
	case *ast.BlockStmt:
		if isTerm(n) {
			return "{TERM}"
		}
		s := "{"
		for _, st := range n.List {
			s += " " + c(st)
		}
		return s + " }"
	case *ast.IfStmt:
		s := "(if"
		if n.Init != nil {
			s += " init:" + c(n.Init)
		}
		s += " " + c(n.Cond) + " " + c(n.Body)
		if n.Else != nil {
			s += " else " + c(n.Else)
		}
		return s + ")"
	case *ast.SwitchStmt:
		s := "(switch"
		if n.Init != nil {
			s += " init:" + c(n.Init)
		}
		if n.Tag != nil {
			s += " tag:" + c(n.Tag)
		}
		for _, cl := range n.Body.List {
			s += " " + c(cl)
		}
		return s + ")"
	case *ast.CaseClause:
		s := "(case"
		if n.List == nil {
			s += " default"
		}
		for _, e := range n.List {
			s += " " + c(e)
		}
		s += " =>"
		if isTermList(n.Body) {
			return s + " TERM)"
		}
		for _, st := range n.Body {
			s += " " + c(st)
		}
		return s + ")"
	case *ast.ExprStmt:
		return "(expr " + c(n.X) + ")"
	case *ast.ReturnStmt:
		s := "(return"
		for _, x := range n.Results {
			s += " " + c(x)
		}
		return s + ")"
	case *ast.IncDecStmt:
		return "(" + n.Tok.String() + " " + c(n.X) + ")"
	}
	return rawText(fset, n)
}

func canonList(fset *token.FileSet, l []ast.Stmt, r *renamer) string {
	var parts []string
	for _, s := range l {
		parts = append(parts, canon(fset, s, r))
	}
	return strings.Join(parts, " ; ")
}

func parseStmts(src string) (*token.FileSet, []ast.Stmt) {
	fset := token.NewFileSet()
	f, err := parser.ParseFile(fset, "canon.go", "package p\nfunc _() {\n"+src+"\n}\n", 0)
	if err != nil {
		panic(err)
	}
	return fset, f.Decls[0].(*ast.FuncDecl).Body.List
}

// ---------------------------------------------------------------- chains

type chain struct {
	conds  []ast.Expr
	bodies []*ast.BlockStmt
	els    *ast.BlockStmt
}

func flatten(s *ast.IfStmt) chain {
	var c chain
	for {
		c.conds = append(c.conds, s.Cond)
		c.bodies = append(c.bodies, s.Body)
		switch e := s.Else.(type) {
		case *ast.IfStmt:
			if e.Init != nil || s.Init != nil {
				return c // chains with init statements are not fast paths; els stays nil
			}
			s = e
			continue
		case *ast.BlockStmt:
			if s.Init == nil {
				c.els = e
			}
		}
		return c
	}
}

func isConsumeVarint(n ast.Node) bool {
	c, ok := n.(*ast.CallExpr)
	if !ok {
		return false
	}
	sel, ok := c.Fun.(*ast.SelectorExpr)
	if !ok || sel.Sel.Name != "ConsumeVarint" {
		return false
	}
	id, ok := sel.X.(*ast.Ident)
	return ok && id.Name == "protowire"
}

func contains(n ast.Node, pred func(ast.Node) bool) bool {
	found := false
	if n == nil {
		return false
	}
	ast.Inspect(n, func(x ast.Node) bool {
		if x != nil && pred(x) {
			found = true
		}
		return !found
	})
	return found
}

func litIndex(n ast.Node) bool {
	ix, ok := n.(*ast.IndexExpr)
	if !ok {
		return false
	}
	l, ok := ix.Index.(*ast.BasicLit)
	return ok && l.Kind == token.INT
}

func isMask7f(n ast.Node) bool {
	be, ok := n.(*ast.BinaryExpr)
	if !ok || be.Op != token.AND {
		return false
	}
	is := func(e ast.Expr) bool {
		l, ok := e.(*ast.BasicLit)
		if !ok || l.Kind != token.INT {
			return false
		}
		v, err := strconv.ParseUint(l.Value, 0, 64)
		return err == nil && v == 0x7f
	}
	return is(be.X) || is(be.Y)
}

// ---------------------------------------------------------------- sites

type site struct {
	file      string // base name
	fset      *token.FileSet
	src       []byte
	pos       string // file:line of the `if`
	kind      string // varint | tag | size | unknown
	stmts     []ast.Stmt // leading var decls + the chain
	ifs       *ast.IfStmt
	after     []ast.Stmt // statements following the chain in the same list
	owner     ast.Node   // node that owns the enclosing statement list (ForStmt, FuncDecl, …)
	startIdx  int        // index of stmts[0] in the enclosing list
	sliceVar  string
	valVar    string // v / tag
	lenVar    string // n
	problem   string // "" = matches its canonical shape
	splitKind string // checked | unchecked | unknown | "" (not a tag site)
	splitLen  int
	splitProb string
}

func (s *site) line() int { return s.fset.Position(s.ifs.Pos()).Line }

func assignedIdents(n ast.Node) map[string]bool {
	m := map[string]bool{}
	ast.Inspect(n, func(x ast.Node) bool {
		if a, ok := x.(*ast.AssignStmt); ok && a.Tok == token.ASSIGN {
			for _, l := range a.Lhs {
				if id, ok := l.(*ast.Ident); ok {
					m[id.Name] = true
				}
			}
		}
		return true
	})
	return m
}

func classify(c chain) (kind, sliceVar string) {
	ast.Inspect(c.conds[0], func(x ast.Node) bool {
		if ix, ok := x.(*ast.IndexExpr); ok && sliceVar == "" {
			if id, ok := ix.X.(*ast.Ident); ok {
				sliceVar = id.Name
			}
		}
		return true
	})
	kind = "unknown"
	for _, st := range c.bodies[0].List {
		a, ok := st.(*ast.AssignStmt)
		if !ok || len(a.Lhs) != 1 || len(a.Rhs) != 1 {
			continue
		}
		if l, ok := a.Rhs[0].(*ast.BasicLit); ok && l.Kind == token.INT {
			return "varint", sliceVar
		}
		if _, ok := a.Rhs[0].(*ast.SliceExpr); ok {
			hasLen := contains(c.conds[0], func(n ast.Node) bool {
				ce, ok := n.(*ast.CallExpr)
				if !ok {
					return false
				}
				id, ok := ce.Fun.(*ast.Ident)
				return ok && id.Name == "len"
			})
			if hasLen {
				return "size", sliceVar
			}
			return "tag", sliceVar
		}
	}
	return kind, sliceVar
}

// tupleVars finds `x, n = protowire.ConsumeVarint(..)` in the else branch
func tupleVars(els *ast.BlockStmt) (string, string) {
	var a, b string
	ast.Inspect(els, func(x ast.Node) bool {
		as, ok := x.(*ast.AssignStmt)
		if ok && len(as.Lhs) == 2 && len(as.Rhs) == 1 && isConsumeVarint(as.Rhs[0]) {
			if i0, ok := as.Lhs[0].(*ast.Ident); ok {
				if i1, ok := as.Lhs[1].(*ast.Ident); ok && a == "" {
					a, b = i0.Name, i1.Name
				}
			}
		}
		return true
	})
	return a, b
}

func canonOf(src, valVar string) string {
	fset, l := parseStmts(src)
	return canonList(fset, l, newRenamer(map[string]string{valVar: "$T"}))
}

var (
	cVarint         = canonOf(canonVarint, "v")
	cTag            = canonOf(canonTag, "tag")
	cSize           = canonOf(canonSize, "tag")
	cSplitChecked   = canonOf(canonSplitChecked, "tag")
	cSplitUnchecked = canonOf(canonSplitUnchecked, "tag")
)

func firstDiff(a, b string) string {
	i := 0
	for i < len(a) && i < len(b) && a[i] == b[i] {
		i++
	}
	lo := i - 30
	if lo < 0 {
		lo = 0
	}
	cut := func(s string) string {
		hi := i + 40
		if hi > len(s) {
			hi = len(s)
		}
		if lo > len(s) {
			return ""
		}
		return s[lo:hi]
	}
	return fmt.Sprintf("found …%s… expected …%s…", cut(a), cut(b))
}

func (s *site) check() {
	seed := map[string]string{s.valVar: "$T"}
	got := canonList(s.fset, s.stmts, newRenamer(seed))
	var want string
	switch s.kind {
	case "varint":
		want = cVarint
	case "tag":
		want = cTag
	case "size":
		want = cSize
	default:
		s.problem = "chain ending in protowire.ConsumeVarint of unknown kind"
		return
	}
	if got != want {
		s.problem = "differs from the canonical " + s.kind + " shape: " + firstDiff(got, want)
		return
	}
	if s.kind == "tag" {
		// the unguarded b[0] needs `for len(b) > 0 {` directly around it
		f, ok := s.owner.(*ast.ForStmt)
		gf, gl := parseStmts("_ = " + canonGuard)
		wantGuard := canon(gf, gl[0].(*ast.AssignStmt).Rhs[0], newRenamer(map[string]string{"b": "$B"}))
		if !ok || f.Init != nil || f.Post != nil || f.Cond == nil ||
			canon(s.fset, f.Cond, newRenamer(map[string]string{s.sliceVar: "$B"})) != wantGuard || s.startIdx != 0 {
			s.problem = "tag fast path indexes " + s.sliceVar + "[0] unguarded but is not the first statement of a `for len(" + s.sliceVar + ") > 0` body"
			return
		}
	}
}

func (s *site) checkSplit() {
	if s.kind != "tag" {
		return
	}
	s.splitKind = "unknown"
	if len(s.after) == 0 {
		s.splitProb = "no statements follow the tag fast path"
		return
	}
	seed := map[string]string{s.valVar: "$T"}
	switch s.after[0].(type) {
	case *ast.DeclStmt:
		s.splitKind, s.splitLen = "checked", 3
	case *ast.AssignStmt:
		s.splitKind, s.splitLen = "unchecked", 2
	default:
		s.splitProb = "the statement after the tag fast path is not a field-number split"
		return
	}
	if len(s.after) < s.splitLen {
		s.splitProb = "truncated split"
		s.splitLen = len(s.after)
		return
	}
	got := canonList(s.fset, s.after[:s.splitLen], newRenamer(seed))
	want := cSplitChecked
	if s.splitKind == "unchecked" {
		want = cSplitUnchecked
	}
	if got != want {
		s.splitProb = "differs from the canonical " + s.splitKind + " split shape: " + firstDiff(got, want)
	}
}

type scanResult struct {
	sites      []*site
	strays     []string // x & 0x7f outside a site
	plainCalls []string // protowire.ConsumeVarint outside a site
	ladders    []string // varint-skip ladder switches outside a recognised skip site
	files      int
}

func scan(dir string) (*scanResult, error) {
	ents, err := os.ReadDir(dir)
	if err != nil {
		return nil, err
	}
	res := &scanResult{}
	for _, e := range ents {
		name := e.Name()
		if e.IsDir() || !strings.HasSuffix(name, ".go") || strings.HasSuffix(name, "_test.go") {
			continue
		}
		path := filepath.Join(dir, name)
		src, err := os.ReadFile(path)
		if err != nil {
			return nil, err
		}
		fset := token.NewFileSet()
		f, err := parser.ParseFile(fset, path, src, 0)
		if err != nil {
			return nil, fmt.Errorf("%s: %v", name, err)
		}
		res.files++
		var stack []ast.Node
		type rng struct{ lo, hi token.Pos }
		var covered []rng
		ast.Inspect(f, func(n ast.Node) bool {
			if n == nil {
				stack = stack[:len(stack)-1]
				return true
			}
			stack = append(stack, n)
			ifs, ok := n.(*ast.IfStmt)
			if !ok || len(stack) < 2 {
				return true
			}
			parent := stack[len(stack)-2]
			if p, ok := parent.(*ast.IfStmt); ok && p.Else == n {
				return true // not a chain head
			}
			if sk := skipSite(ifs); sk != nil { // impl.Validate's varint-skip ladder (skip.go)
				sk.file, sk.fset, sk.src = name, fset, src
				sk.pos = fmt.Sprintf("%s:%d", name, sk.line())
				sk.checkSkip()
				covered = append(covered, rng{ifs.Pos(), ifs.End()})
				res.sites = append(res.sites, sk)
				return true
			}
			c := flatten(ifs)
			if c.els == nil || !contains(c.els, isConsumeVarint) {
				return true
			}
			indexed := false
			for _, cd := range c.conds {
				if contains(cd, litIndex) {
					indexed = true
				}
			}
			if !indexed {
				return true
			}
			var list []ast.Stmt
			switch p := parent.(type) {
			case *ast.BlockStmt:
				list = p.List
			case *ast.CaseClause:
				list = p.Body
			case *ast.CommClause:
				list = p.Body
			}
			idx := -1
			for i, st := range list {
				if st == ast.Stmt(ifs) {
					idx = i
				}
			}
			s := &site{file: name, fset: fset, src: src, ifs: ifs}
			s.pos = fmt.Sprintf("%s:%d", name, s.line())
			s.kind, s.sliceVar = classify(c)
			s.valVar, s.lenVar = tupleVars(c.els)
			if idx < 0 {
				s.stmts = []ast.Stmt{ifs}
			} else {
				asg := assignedIdents(ifs)
				start := idx
				for start > 0 {
					ds, ok := list[start-1].(*ast.DeclStmt)
					if !ok {
						break
					}
					gd, ok := ds.Decl.(*ast.GenDecl)
					if !ok || gd.Tok != token.VAR || len(gd.Specs) != 1 {
						break
					}
					vs := gd.Specs[0].(*ast.ValueSpec)
					if len(vs.Values) != 0 || len(vs.Names) != 1 || !asg[vs.Names[0].Name] {
						break
					}
					start--
				}
				s.stmts = list[start : idx+1]
				s.after = list[idx+1:]
				s.startIdx = start
				if _, ok := parent.(*ast.BlockStmt); ok && len(stack) >= 3 {
					s.owner = stack[len(stack)-3]
				}
			}
			s.check()
			s.checkSplit()
			hi := ifs.End()
			if s.splitLen > 0 {
				hi = s.after[s.splitLen-1].End()
			}
			covered = append(covered, rng{s.stmts[0].Pos(), hi})
			res.sites = append(res.sites, s)
			return true
		})
		in := func(p token.Pos) bool {
			for _, r := range covered {
				if r.lo <= p && p < r.hi {
					return true
				}
			}
			return false
		}
		ast.Inspect(f, func(n ast.Node) bool {
			if n == nil {
				return true
			}
			if isMask7f(n) && !in(n.Pos()) {
				res.strays = append(res.strays, fmt.Sprintf("%s:%d", name, fset.Position(n.Pos()).Line))
			}
			if isConsumeVarint(n) && !in(n.Pos()) {
				res.plainCalls = append(res.plainCalls, fmt.Sprintf("%s:%d", name, fset.Position(n.Pos()).Line))
			}
			if sw, ok := n.(*ast.SwitchStmt); ok && isLadderSwitch(sw) && !in(n.Pos()) {
				res.ladders = append(res.ladders, fmt.Sprintf("%s:%d", name, fset.Position(n.Pos()).Line))
			}
			return true
		})
	}
	sort.SliceStable(res.sites, func(i, j int) bool {
		a, b := res.sites[i], res.sites[j]
		if a.file != b.file {
			return a.file < b.file
		}
		return a.line() < b.line()
	})
	return res, nil
}

// ---------------------------------------------------------------- emission

type edit struct {
	lo, hi int
	text   string
}

// text of the statements l as found in src, with every TERM block's statement replaced by repl
func textOf(fset *token.FileSet, src []byte, l []ast.Stmt, repl string) string {
	lo := fset.Position(l[0].Pos()).Offset
	hi := fset.Position(l[len(l)-1].End()).Offset
	var edits []edit
	for _, st := range l {
		ast.Inspect(st, func(n ast.Node) bool {
			if b, ok := n.(*ast.BlockStmt); ok && isTerm(b) {
				edits = append(edits, edit{fset.Position(b.List[0].Pos()).Offset, fset.Position(b.List[0].End()).Offset, repl})
				return false
			}
			if cc, ok := n.(*ast.CaseClause); ok && isTermList(cc.Body) {
				edits = append(edits, edit{fset.Position(cc.Body[0].Pos()).Offset, fset.Position(cc.Body[0].End()).Offset, repl})
				return false
			}
			return true
		})
	}
	sort.Slice(edits, func(i, j int) bool { return edits[i].lo < edits[j].lo })
	var out bytes.Buffer
	cur := lo
	for _, e := range edits {
		out.Write(src[cur:e.lo])
		out.WriteString(e.text)
		cur = e.hi
	}
	out.Write(src[cur:hi])
	return out.String()
}

type synth struct {
	name string
	from string // file:line of the occurrence whose text is used
	code string
	err  string
}

func lhsName(st ast.Stmt) string {
	switch s := st.(type) {
	case *ast.AssignStmt:
		if len(s.Lhs) == 1 {
			if id, ok := s.Lhs[0].(*ast.Ident); ok {
				return id.Name
			}
		}
	case *ast.DeclStmt:
		if gd, ok := s.Decl.(*ast.GenDecl); ok && len(gd.Specs) == 1 {
			if vs, ok := gd.Specs[0].(*ast.ValueSpec); ok && len(vs.Names) == 1 {
				return vs.Names[0].Name
			}
		}
	}
	return ""
}

func build(res *scanResult) []synth {
	var out []synth
	first := map[string]*site{}
	firstSplit := map[string]*site{}
	for _, s := range res.sites {
		if first[s.kind] == nil {
			first[s.kind] = s
		}
		if s.splitKind != "" && firstSplit[s.splitKind] == nil {
			firstSplit[s.splitKind] = s
		}
	}
	if s := first["varint"]; s != nil {
		sy := synth{name: "implFastVarint", from: s.pos}
		if s.sliceVar == "" || s.valVar == "" || s.lenVar == "" {
			sy.err = "cannot identify slice/value/length variables"
		} else {
			sy.code = fmt.Sprintf("// text of %s\nfunc implFastVarint(%s []byte) (uint64, int) {\n\t%s\n\treturn %s, %s\n}\n",
				s.pos, s.sliceVar, textOf(s.fset, s.src, s.stmts, ""), s.valVar, s.lenVar)
		}
		out = append(out, sy)
	}
	for _, k := range [][2]string{{"tag", "implFastTag"}, {"size", "implFastSize"}} {
		s := first[k[0]]
		if s == nil {
			continue
		}
		sy := synth{name: k[1], from: s.pos}
		if s.sliceVar == "" || s.valVar == "" {
			sy.err = "cannot identify slice/value variables"
		} else {
			sy.code = fmt.Sprintf("// text of %s; the error exit is replaced by `return 0, nil, false`\nfunc %s(%s []byte) (uint64, []byte, bool) {\n\t%s\n\treturn %s, %s, true\n}\n",
				s.pos, k[1], s.sliceVar, textOf(s.fset, s.src, s.stmts, "return 0, nil, false"), s.valVar, s.sliceVar)
		}
		out = append(out, sy)
	}
	if s := first["skipvarint"]; s != nil {
		sy := synth{name: "implValidateSkipVarint", from: s.pos}
		if s.sliceVar == "" {
			sy.err = "cannot identify the slice variable"
		} else {
			sy.code = fmt.Sprintf("// text of %s; the error exit is replaced by `return nil, false`\nfunc implValidateSkipVarint(%s []byte) ([]byte, bool) {\n\t%s\n\treturn %s, true\n}\n",
				s.pos, s.sliceVar, textOf(s.fset, s.src, s.stmts, "return nil, false"), s.sliceVar)
		}
		out = append(out, sy)
	}
	if s := firstSplit["checked"]; s != nil {
		sy := synth{name: "implTagSplit", from: s.pos}
		l := s.after[:s.splitLen]
		num, wt := lhsName(l[0]), lhsName(l[len(l)-1])
		if num == "" || wt == "" || s.valVar == "" || s.splitLen != 3 {
			sy.err = "cannot identify num/wtyp variables"
		} else {
			sy.code = fmt.Sprintf("// text following %s; the error exit is replaced by `return 0, 0, false`\nfunc implTagSplit(%s uint64) (protowire.Number, protowire.Type, bool) {\n\t%s\n\treturn %s, %s, true\n}\n",
				s.pos, s.valVar, textOf(s.fset, s.src, l, "return 0, 0, false"), num, wt)
		}
		out = append(out, sy)
	}
	if s := firstSplit["unchecked"]; s != nil {
		sy := synth{name: "implTagSplitUnchecked", from: s.pos}
		l := s.after[:s.splitLen]
		num, wt := lhsName(l[0]), lhsName(l[len(l)-1])
		if num == "" || wt == "" || s.valVar == "" || s.splitLen != 2 {
			sy.err = "cannot identify num/wtyp variables"
		} else {
			sy.code = fmt.Sprintf("// text following %s\nfunc implTagSplitUnchecked(%s uint64) (protowire.Number, protowire.Type) {\n\t%s\n\treturn %s, %s\n}\n",
				s.pos, s.valVar, textOf(s.fset, s.src, l, ""), num, wt)
		}
		out = append(out, sy)
	}
	return out
}

// ---------------------------------------------------------------- main

type entry map[string]string

const maxSiteEntries = 3 // individual site:… entries per shape

func main() {
	repo := flag.String("repo", "/repo", "protobuf-go working tree")
	g2l := flag.String("g2l", "", "binary of the go2lean copy (go/gen-implfast/go2lean)")
	out := flag.String("o", "", "output Lean file")
	manifest := flag.String("manifest", "", "output manifest json")
	keepTmp := flag.Bool("keep", false, "keep the temporary package (prints its path)")
	flag.Parse()

	man := map[string]entry{}
	fail := func(msg string) {
		man["scan"] = entry{"status": "error: " + msg}
		writeManifest(*manifest, man)
		fmt.Fprintln(os.Stderr, "gen-implfast:", msg)
		os.Exit(0) // the manifest carries the verdict
	}
	absRepo, _ := filepath.Abs(*repo)
	res, err := scan(filepath.Join(absRepo, "internal", "impl"))
	if err != nil {
		fail(err.Error())
	}
	man["scan"] = entry{"status": "ok", "files": strconv.Itoa(res.files), "dir": "internal/impl"}

	// census per shape
	type agg struct {
		sites []string
		bad   []string
	}
	shapes := map[string]*agg{"varint": {}, "tag": {}, "size": {}, "tagsplit": {}, "tagsplit-unchecked": {}, "skipvarint": {}}
	for _, s := range res.sites {
		a := shapes[s.kind]
		if a == nil {
			man["site:"+s.pos] = entry{"status": "mismatch: " + s.problem}
			continue
		}
		a.sites = append(a.sites, s.pos)
		if s.problem != "" {
			a.bad = append(a.bad, s.pos)
			if len(a.bad) > maxSiteEntries { // the shape entry lists every position; do not flood the report
				goto split
			}
			man["site:"+s.pos] = entry{"status": "mismatch: " + s.kind + " fast path at internal/impl/" + s.pos + " " + s.problem}
		}
	split:
		if s.kind == "tag" {
			key := map[string]string{"checked": "tagsplit", "unchecked": "tagsplit-unchecked"}[s.splitKind]
			if key != "" {
				shapes[key].sites = append(shapes[key].sites, s.pos)
			}
			if s.splitProb != "" {
				if key != "" {
					shapes[key].bad = append(shapes[key].bad, s.pos)
				}
				man["split:"+s.pos] = entry{"status": "mismatch: tag split after internal/impl/" + s.pos + " " + s.splitProb}
			}
		}
	}
	canonText := map[string]string{"varint": cVarint, "tag": cTag, "size": cSize, "tagsplit": cSplitChecked, "tagsplit-unchecked": cSplitUnchecked, "skipvarint": cSkip}
	for k, a := range shapes {
		h := sha256.Sum256([]byte(canonText[k]))
		e := entry{"count": strconv.Itoa(len(a.sites)), "sites": strings.Join(a.sites, " "), "hash": fmt.Sprintf("%x", h[:8]),
			"matching": strconv.Itoa(len(a.sites) - len(a.bad))}
		switch {
		case len(a.sites) == 0:
			e["status"] = "missing: no occurrence of the " + k + " shape found in internal/impl"
		case len(a.bad) > 0:
			e["status"] = "mismatch: " + strconv.Itoa(len(a.bad)) + " occurrence(s) differ from the canonical shape: " + strings.Join(a.bad, " ")
		default:
			e["status"] = "ok"
		}
		man["shape:"+k] = e
	}
	for _, p := range res.strays {
		man["stray:"+p] = entry{"status": "mismatch: `& 0x7f` at internal/impl/" + p + " is outside every recognised varint fast path"}
	}
	for _, p := range res.ladders {
		man["strayladder:"+p] = entry{"status": "mismatch: `switch { case b[k] < 0x80: b = b[k+1:] … }` at internal/impl/" + p + " is a varint-skip ladder outside the recognised `if len(b) >= 10 { switch } else { switch }` site"}
	}
	man["plaincalls"] = entry{"status": "ok", "count": strconv.Itoa(len(res.plainCalls)), "sites": strings.Join(res.plainCalls, " "),
		"value": strings.Join(res.plainCalls, " ")}

	// encoder side: no re-implementation of varint size/append outside protowire (encoders.go)
	enc, err := scanEncoders(absRepo)
	if err != nil {
		fail(err.Error())
	}
	{
		var calls []string
		total := 0
		for _, d := range encoderDirs {
			calls = append(calls, fmt.Sprintf("%s=%d", d, enc.calls[d]))
			total += enc.calls[d]
		}
		e := entry{"files": strconv.Itoa(enc.files), "dirs": strings.Join(encoderDirs, " "), "count": strconv.Itoa(len(enc.hits)),
			"protowire_encoder_calls": strings.Join(calls, " "), "value": "inlined=" + strconv.Itoa(len(enc.hits)) + " protowire_calls=" + strconv.Itoa(total)}
		if len(enc.hits) == 0 {
			e["status"] = "ok"
		} else {
			e["status"] = "mismatch: " + strconv.Itoa(len(enc.hits)) + " varint-encoder-like fragment(s) outside encoding/protowire (not translated, not proved equal to protowire.SizeVarint/AppendVarint): " + strings.Join(enc.hits, "; ")
		}
		man["noInlinedVarintEncoders"] = e
	}
	facts := leanFacts(enc)

	// synthetic package
	syn := build(res)
	tmp, err := os.MkdirTemp("", "implfast")
	if err != nil {
		fail(err.Error())
	}
	if *keepTmp {
		fmt.Fprintln(os.Stderr, "gen-implfast: temporary module in", tmp)
	} else {
		defer os.RemoveAll(tmp)
	}
	os.MkdirAll(filepath.Join(tmp, "implfast"), 0755)
	gomod := "module implfasttmp\n\ngo 1.21\n\nrequire google.golang.org/protobuf v0.0.0\n\nreplace google.golang.org/protobuf => " + absRepo + "\n"
	os.WriteFile(filepath.Join(tmp, "go.mod"), []byte(gomod), 0644)
	var code bytes.Buffer
	code.WriteString("// synthetic package written by gen-implfast: bodies are the text found in internal/impl\npackage implfast\n\nimport \"google.golang.org/protobuf/encoding/protowire\"\n\nvar _ = protowire.ConsumeVarint\n\n")
	var names []string
	for _, s := range syn {
		if s.err != "" {
			man["translate:"+s.name] = entry{"status": "unsupported: " + s.err, "pos": s.from}
			continue
		}
		code.WriteString(s.code + "\n")
		names = append(names, s.name)
	}
	os.WriteFile(filepath.Join(tmp, "implfast", "implfast.go"), code.Bytes(), 0644)
	if *g2l == "" {
		fail("no -g2l binary")
	}
	tman := filepath.Join(tmp, "g2l.json")
	args := []string{"-dir", tmp, "-pkg", "implfasttmp/implfast", "-ns", "Gen.ImplFast",
		"-imports", "PbVerif.Gen.Prelude,PbVerif.Gen.Wire", "-ext", "protowire.ConsumeVarint=Gen.Wire.consumeVarint:partial",
		"-header", "/verif/go/gen-implfast (text of internal/impl fast paths)", "-manifest", tman}
	tout := filepath.Join(tmp, "ImplFast.lean")
	args = append(args, "-o", tout)
	args = append(args, names...)
	g2lAbs, _ := filepath.Abs(*g2l)
	cmd := exec.Command(g2lAbs, args...)
	cmd.Dir = tmp
	var cout bytes.Buffer
	cmd.Stdout, cmd.Stderr = &cout, &cout
	if err := cmd.Run(); err != nil {
		o := err.Error() + ": " + cout.String()
		if len(o) > 600 {
			o = o[len(o)-600:]
		}
		for _, s := range syn {
			if s.err == "" {
				man["translate:"+s.name] = entry{"status": "unsupported: the text found at internal/impl/" + s.from + " does not type-check or translate: " + o, "pos": s.from}
			}
		}
		// leave a Lean file that cannot satisfy the theorems
		writeOut(*out, "-- GENERATED by /verif/go/gen-implfast: translation FAILED, see manifest\nimport PbVerif.Gen.Prelude\nimport PbVerif.Gen.Wire\nnamespace Gen.ImplFast\n"+facts+"\nend Gen.ImplFast\n")
		writeManifest(*manifest, man)
		fmt.Fprintln(os.Stderr, "gen-implfast: go2lean failed:", o)
		return
	}
	lean, err := os.ReadFile(tout)
	if err != nil {
		fail("go2lean wrote no output: " + err.Error())
	}
	const endMark = "\nend Gen.ImplFast\n"
	ls := string(lean)
	if i := strings.LastIndex(ls, endMark); i >= 0 {
		ls = ls[:i] + "\n-- facts of the scanner (not translated code)\n" + facts + ls[i:]
	} else {
		fail("unexpected go2lean output (no namespace end)")
	}
	writeOut(*out, ls)
	var tm map[string]map[string]string
	if b, err := os.ReadFile(tman); err == nil {
		json.Unmarshal(b, &tm)
	}
	for _, s := range syn {
		if s.err != "" {
			continue
		}
		e := entry{"pos": s.from}
		if t, ok := tm[s.name]; ok {
			for _, k := range []string{"status", "hash", "lean", "partial"} {
				if t[k] != "" {
					e[k] = t[k]
				}
			}
		} else {
			e["status"] = "missing"
		}
		man["translate:"+s.name] = e
	}
	for _, want := range []string{"implFastVarint", "implFastTag", "implFastSize", "implTagSplit", "implTagSplitUnchecked", "implValidateSkipVarint"} {
		if _, ok := man["translate:"+want]; !ok {
			man["translate:"+want] = entry{"status": "missing: no occurrence to translate"}
		}
	}
	writeManifest(*manifest, man)
}

// writeOut writes the Lean file only when its content changed (keeps lake's build cache valid)
func writeOut(path, content string) {
	if path == "" {
		os.Stdout.WriteString(content)
		return
	}
	if old, err := os.ReadFile(path); err == nil && string(old) == content {
		return
	}
	if err := os.WriteFile(path, []byte(content), 0644); err != nil {
		fmt.Fprintln(os.Stderr, err)
		os.Exit(2)
	}
}

func writeManifest(path string, man map[string]entry) {
	b, _ := json.MarshalIndent(man, "", " ")
	if path == "" {
		os.Stdout.Write(append(b, '\n'))
		return
	}
	if err := os.WriteFile(path, b, 0644); err != nil {
		fmt.Fprintln(os.Stderr, err)
		os.Exit(2)
	}
}
