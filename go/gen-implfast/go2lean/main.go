// go2lean (COPY for gen-implfast): translate loop-free integer/byte functions of a Go package to Lean 4 (BitVec).
//
// This is a verbatim copy of /verif/go/go2lean/main.go with three additions, each marked "IMPLFAST":
//   1. calls of functions of another package (`protowire.ConsumeVarint(b)`) are mapped to an already
//      translated Lean definition through the -ext flag (`protowire.ConsumeVarint=Gen.Wire.consumeVarint:partial`);
//   2. `X && Y` / `X || Y` whose right operand indexes or slices is translated with Go's short-circuit
//      evaluation (the index of Y is only evaluated — and can only panic — when X does not decide the
//      result); the stock translator hoists every index in front of the whole condition, which
//      over-approximates panics (`len(b) >= 2 && b[1] < 128` would "panic" on a one-byte slice);
//   3. the header line names this generator.
package main

import (
	"fmt"
	"go/ast"
	"go/constant"
	"go/token"
	"go/types"
	"math/big"
	"crypto/sha256"
	"encoding/json"
	"flag"
	"os"
	"sort"
	"strings"

	"golang.org/x/tools/go/packages"
)

type tr struct {
	info    *types.Info
	partial bool // function may panic on index/slice -> Option
	fn      *types.Func
	ns      string
	partialFns map[string]bool
}

// IMPLFAST(1): external callees "pkg.Func" -> Lean name / partiality
type extFn struct {
	lean    string
	partial bool
}

var extFns = map[string]extFn{}

func extCallee(e ast.Expr) (extFn, bool) {
	if sel, ok := e.(*ast.SelectorExpr); ok {
		if id, ok := sel.X.(*ast.Ident); ok {
			f, ok := extFns[id.Name+"."+sel.Sel.Name]
			return f, ok
		}
	}
	return extFn{}, false
}

func width(t types.Type) (int, bool, bool) { // width, signed, isInt
	b, ok := t.Underlying().(*types.Basic)
	if !ok {
		return 0, false, false
	}
	switch b.Kind() {
	case types.Int8:
		return 8, true, true
	case types.Uint8:
		return 8, false, true
	case types.Int16:
		return 16, true, true
	case types.Uint16:
		return 16, false, true
	case types.Int32:
		return 32, true, true
	case types.Uint32:
		return 32, false, true
	case types.Int64, types.Int:
		return 64, true, true
	case types.Uint64, types.Uint, types.Uintptr:
		return 64, false, true
	case types.UntypedInt:
		return 64, true, true
	}
	return 0, false, false
}

func leanType(t types.Type) string {
	if w, _, ok := width(t); ok {
		return fmt.Sprintf("BitVec %d", w)
	}
	switch u := t.Underlying().(type) {
	case *types.Basic:
		if u.Kind() == types.Bool || u.Kind() == types.UntypedBool {
			return "Bool"
		}
		if u.Kind() == types.String {
			return "List (BitVec 8)"
		}
	case *types.Slice:
		if w, _, ok := width(u.Elem()); ok && w == 8 {
			return "List (BitVec 8)"
		}
	case *types.Tuple:
		var parts []string
		for i := 0; i < u.Len(); i++ {
			parts = append(parts, leanType(u.At(i).Type()))
		}
		return "(" + strings.Join(parts, " × ") + ")"
	}
	panic("unsupported type " + t.String())
}

func lit(v constant.Value, w int) string {
	i, ok := new(big.Int).SetString(v.ExactString(), 10)
	if !ok {
		panic("const " + v.String())
	}
	m := new(big.Int).Lsh(big.NewInt(1), uint(w))
	i.Mod(i, m)
	return fmt.Sprintf("%s#%d", i.String(), w)
}

type unsupported string

func (t *tr) expr(e ast.Expr) string {
	tv := t.info.Types[e]
	if tv.Value != nil {
		if w, _, ok := width(tv.Type); ok {
			return lit(tv.Value, w)
		}
		if tv.Value.Kind() == constant.Bool {
			return fmt.Sprint(constant.BoolVal(tv.Value))
		}
	}
	switch e := e.(type) {
	case *ast.ParenExpr:
		return "(" + t.expr(e.X) + ")"
	case *ast.Ident:
		if e.Name == "nil" {
			return "[]"
		}
		return e.Name
	case *ast.BinaryExpr:
		x, y := t.expr(e.X), t.expr(e.Y)
		xt := t.info.Types[e.X].Type
		_, signed, isInt := width(xt)
		switch e.Op {
		case token.ADD:
			return fmt.Sprintf("(%s + %s)", x, y)
		case token.SUB:
			return fmt.Sprintf("(%s - %s)", x, y)
		case token.MUL:
			return fmt.Sprintf("(%s * %s)", x, y)
		case token.QUO:
			if signed {
				return fmt.Sprintf("(BitVec.sdiv %s %s)", x, y)
			}
			return fmt.Sprintf("(%s / %s)", x, y)
		case token.REM:
			if signed {
				return fmt.Sprintf("(BitVec.srem %s %s)", x, y)
			}
			return fmt.Sprintf("(%s %% %s)", x, y)
		case token.AND:
			return fmt.Sprintf("(%s &&& %s)", x, y)
		case token.OR:
			return fmt.Sprintf("(%s ||| %s)", x, y)
		case token.XOR:
			return fmt.Sprintf("(%s ^^^ %s)", x, y)
		case token.AND_NOT:
			return fmt.Sprintf("(%s &&& ~~~%s)", x, y)
		case token.SHL:
			return fmt.Sprintf("(%s <<< %s)", x, t.shiftCount(e.Y))
		case token.SHR:
			if signed {
				return fmt.Sprintf("(BitVec.sshiftRight %s %s)", x, t.shiftCount(e.Y))
			}
			return fmt.Sprintf("(%s >>> %s)", x, t.shiftCount(e.Y))
		case token.LAND:
			return fmt.Sprintf("(%s && %s)", x, y)
		case token.LOR:
			return fmt.Sprintf("(%s || %s)", x, y)
		case token.EQL:
			return fmt.Sprintf("(%s == %s)", x, y)
		case token.NEQ:
			return fmt.Sprintf("(%s != %s)", x, y)
		case token.LSS, token.LEQ, token.GTR, token.GEQ:
			// len(x) compared with a non-negative constant or another len: a Go length is a
			// natural number below 2^63, so compare as Nat (no wrap-around can occur).
			if a, ok := t.natView(e.X); ok {
				if b, ok := t.natView(e.Y); ok {
					op := map[token.Token]string{token.LSS: "<", token.LEQ: "≤", token.GTR: ">", token.GEQ: "≥"}[e.Op]
					return fmt.Sprintf("(decide (%s %s %s))", a, op, b)
				}
			}
			if !isInt {
				panic(unsupported("compare non-int"))
			}
			fn := map[token.Token][2]string{token.LSS: {"BitVec.ult", "BitVec.slt"}, token.LEQ: {"BitVec.ule", "BitVec.sle"}}
			switch e.Op {
			case token.GTR:
				x, y = y, x
				e2 := fn[token.LSS]
				if signed {
					return fmt.Sprintf("(%s %s %s)", e2[1], x, y)
				}
				return fmt.Sprintf("(%s %s %s)", e2[0], x, y)
			case token.GEQ:
				x, y = y, x
				e2 := fn[token.LEQ]
				if signed {
					return fmt.Sprintf("(%s %s %s)", e2[1], x, y)
				}
				return fmt.Sprintf("(%s %s %s)", e2[0], x, y)
			}
			e2 := fn[e.Op]
			if signed {
				return fmt.Sprintf("(%s %s %s)", e2[1], x, y)
			}
			return fmt.Sprintf("(%s %s %s)", e2[0], x, y)
		}
	case *ast.UnaryExpr:
		switch e.Op {
		case token.NOT:
			return "(!" + t.expr(e.X) + ")"
		case token.SUB:
			return "(-" + t.expr(e.X) + ")"
		case token.XOR:
			return "(~~~" + t.expr(e.X) + ")"
		}
	case *ast.CallExpr:
		// conversion?
		if tv := t.info.Types[e.Fun]; tv.IsType() {
			return t.convert(e.Args[0], tv.Type)
		}
		switch f := e.Fun.(type) {
		case *ast.Ident:
			switch f.Name {
			case "len":
				return fmt.Sprintf("(BitVec.ofNat 64 %s.length)", t.expr(e.Args[0]))
			case "append":
				base := t.expr(e.Args[0])
				if e.Ellipsis.IsValid() {
					return fmt.Sprintf("(%s ++ %s)", base, t.expr(e.Args[1]))
				}
				var elems []string
				for _, a := range e.Args[1:] {
					elems = append(elems, t.expr(a))
				}
				return fmt.Sprintf("(%s ++ [%s])", base, strings.Join(elems, ", "))
			}
			var args []string
			for _, a := range e.Args {
				args = append(args, t.expr(a))
			}
			return fmt.Sprintf("(%s %s)", lower(f.Name), strings.Join(args, " "))
		case *ast.SelectorExpr:
			if id, ok := f.X.(*ast.Ident); ok && id.Name == "bits" && f.Sel.Name == "LeadingZeros64" {
				return fmt.Sprintf("(BitVec.clz %s)", t.expr(e.Args[0]))
			}
			if xf, ok := extCallee(f); ok { // IMPLFAST(1)
				var args []string
				for _, a := range e.Args {
					args = append(args, t.expr(a))
				}
				return fmt.Sprintf("(%s %s)", xf.lean, strings.Join(args, " "))
			}
		}
	case *ast.IndexExpr, *ast.SliceExpr:
		panic("index/slice must be hoisted")
	}
	panic(unsupported(fmt.Sprintf("expr %T", e)))
}

func (t *tr) natView(e ast.Expr) (string, bool) {
	if tv := t.info.Types[e]; tv.Value != nil {
		if tv.Value.Kind() == constant.Int && constant.Sign(tv.Value) >= 0 {
			return tv.Value.ExactString(), true
		}
		return "", false
	}
	if p, ok := e.(*ast.ParenExpr); ok {
		return t.natView(p.X)
	}
	if c, ok := e.(*ast.CallExpr); ok {
		if id, ok := c.Fun.(*ast.Ident); ok && id.Name == "len" && len(c.Args) == 1 {
			if _, isIdent := c.Args[0].(*ast.Ident); isIdent {
				return t.expr(c.Args[0]) + ".length", true
			}
		}
	}
	return "", false
}

func lower(s string) string { return strings.ToLower(s[:1]) + s[1:] }

func (t *tr) shiftCount(e ast.Expr) string {
	if tv := t.info.Types[e]; tv.Value != nil {
		return tv.Value.ExactString()
	}
	return t.expr(e) + ".toNat"
}

func (t *tr) convert(arg ast.Expr, to types.Type) string {
	from := t.info.Types[arg].Type
	x := t.expr(arg)
	fw, fs, fok := width(from)
	tw, _, tok := width(to)
	if fok && tok {
		switch {
		case fw == tw:
			return x
		case tw < fw:
			return fmt.Sprintf("(%s.setWidth %d)", x, tw)
		case fs:
			return fmt.Sprintf("(%s.signExtend %d)", x, tw)
		default:
			return fmt.Sprintf("(%s.setWidth %d)", x, tw)
		}
	}
	if leanType(from) == leanType(to) {
		return x
	}
	panic(unsupported("conversion " + from.String() + " -> " + to.String()))
}

// hoist index expressions: returns list of (name, listExpr, indexExpr) bindings and rewrites
func (t *tr) hoist(e ast.Expr, binds *[]string, counter *int) ast.Expr {
	switch e := e.(type) {
	case *ast.IndexExpr:
		x := t.hoist(e.X, binds, counter)
		*counter++
		name := fmt.Sprintf("ix%d", *counter)
		var idx string
		if tv := t.info.Types[e.Index]; tv.Value != nil {
			idx = tv.Value.ExactString()
		} else {
			idx = t.expr(e.Index) + ".toNat"
		}
		*binds = append(*binds, fmt.Sprintf("(%s[%s]?).bind fun %s =>", t.expr(x), idx, name))
		id := ast.NewIdent(name)
		t.info.Types[id] = types.TypeAndValue{Type: t.info.Types[e].Type}
		return id
	case *ast.SliceExpr:
		if e.Slice3 {
			panic(unsupported("3-index slice"))
		}
		x := t.hoist(e.X, binds, counter)
		*counter++
		name := fmt.Sprintf("sl%d", *counter)
		lo, hi := "none", "none"
		if e.Low != nil {
			lo = "(some " + t.expr(t.hoist(e.Low, binds, counter)) + ")"
		}
		if e.High != nil {
			hi = "(some " + t.expr(t.hoist(e.High, binds, counter)) + ")"
		}
		*binds = append(*binds, fmt.Sprintf("(Go.slice %s %s %s).bind fun %s =>", t.expr(x), lo, hi, name))
		id := ast.NewIdent(name)
		t.info.Types[id] = types.TypeAndValue{Type: t.info.Types[e].Type}
		return id
	case *ast.BinaryExpr:
		if e.Op == token.LAND || e.Op == token.LOR { // IMPLFAST(2): short-circuit evaluation
			x := t.hoist(e.X, binds, counter)
			var ybinds []string
			y := t.hoist(e.Y, &ybinds, counter)
			if len(ybinds) > 0 {
				*counter++
				name := fmt.Sprintf("sc%d", *counter)
				inner := strings.Join(ybinds, " ") + " some " + t.expr(y)
				if e.Op == token.LAND {
					*binds = append(*binds, fmt.Sprintf("(if %s then %s else some false).bind fun %s =>", t.expr(x), inner, name))
				} else {
					*binds = append(*binds, fmt.Sprintf("(if %s then some true else %s).bind fun %s =>", t.expr(x), inner, name))
				}
				id := ast.NewIdent(name)
				t.info.Types[id] = types.TypeAndValue{Type: types.Typ[types.Bool]}
				return id
			}
			c := *e
			c.X, c.Y = x, y
			t.info.Types[&c] = t.info.Types[e]
			return &c
		}
		c := *e
		c.X = t.hoist(e.X, binds, counter)
		c.Y = t.hoist(e.Y, binds, counter)
		t.info.Types[&c] = t.info.Types[e]
		return &c
	case *ast.ParenExpr:
		c := *e
		c.X = t.hoist(e.X, binds, counter)
		t.info.Types[&c] = t.info.Types[e]
		return &c
	case *ast.CallExpr:
		c := *e
		c.Args = nil
		for _, a := range e.Args {
			c.Args = append(c.Args, t.hoist(a, binds, counter))
		}
		t.info.Types[&c] = t.info.Types[e]
		return &c
	case *ast.UnaryExpr:
		c := *e
		c.X = t.hoist(e.X, binds, counter)
		t.info.Types[&c] = t.info.Types[e]
		return &c
	}
	return e
}

var ixCounter int

func (t *tr) hexpr(e ast.Expr) (prefix string, s string) {
	var binds []string
	e2 := t.hoist(e, &binds, &ixCounter)
	if len(binds) > 0 {
		t.partial = true
	}
	return strings.Join(binds, "\n") + ternary(len(binds) > 0, "\n", ""), t.expr(e2)
}

func ternary(c bool, a, b string) string {
	if c {
		return a
	}
	return b
}

func (t *tr) ret(vals []string) string {
	v := strings.Join(vals, ", ")
	if len(vals) > 1 {
		v = "(" + v + ")"
	}
	return "RET(" + v + ")"
}

// stmts translates a statement list followed by continuation rest (already-translated string producer)
func (t *tr) stmts(list []ast.Stmt, results []*types.Var) string {
	if len(list) == 0 {
		// fallthrough off the end: return named results
		var vals []string
		for _, r := range results {
			vals = append(vals, r.Name())
		}
		return t.ret(vals)
	}
	s, rest := list[0], list[1:]
	switch s := s.(type) {
	case *ast.ReturnStmt:
		if len(s.Results) == 0 {
			return t.stmts(nil, results)
		}
		var pre string
		var vals []string
		if len(s.Results) == 1 && results != nil && len(results) > 1 {
			// return f(...) with tuple result
			p, v := t.hexpr(s.Results[0])
			return p + "RETRAW(" + v + ")"
		}
		for _, r := range s.Results {
			p, v := t.hexpr(r)
			pre += p
			vals = append(vals, v)
		}
		return pre + t.ret(vals)
	case *ast.DeclStmt:
		gd := s.Decl.(*ast.GenDecl)
		out := ""
		for _, sp := range gd.Specs {
			vs := sp.(*ast.ValueSpec)
			for i, n := range vs.Names {
				ty := t.info.Defs[n].Type()
				if len(vs.Values) > i {
					p, v := t.hexpr(vs.Values[i])
					out += p + fmt.Sprintf("let %s : %s := %s\n", n.Name, leanType(ty), v)
				} else {
					w, _, ok := width(ty)
					if !ok {
						panic(unsupported("var decl type"))
					}
					out += fmt.Sprintf("let %s : BitVec %d := 0#%d\n", n.Name, w, w)
				}
			}
		}
		return out + t.stmts(rest, results)
	case *ast.AssignStmt:
		if len(s.Lhs) == 1 && len(s.Rhs) == 1 {
			name := s.Lhs[0].(*ast.Ident).Name
			var rhs ast.Expr = s.Rhs[0]
			p, v := t.hexpr(rhs)
			if call, ok := rhs.(*ast.CallExpr); ok {
				if id, ok := call.Fun.(*ast.Ident); ok && t.partialFns[id.Name] {
					t.partial = true
					return p + fmt.Sprintf("(%s).bind fun %s =>\n", v, name) + t.stmts(rest, results)
				}
				if xf, ok := extCallee(call.Fun); ok && xf.partial { // IMPLFAST(1)
					t.partial = true
					return p + fmt.Sprintf("(%s).bind fun %s =>\n", v, name) + t.stmts(rest, results)
				}
			}
			switch s.Tok {
			case token.ASSIGN, token.DEFINE:
			case token.ADD_ASSIGN:
				v = fmt.Sprintf("(%s + %s)", name, v)
			case token.SUB_ASSIGN:
				v = fmt.Sprintf("(%s - %s)", name, v)
			case token.OR_ASSIGN:
				v = fmt.Sprintf("(%s ||| %s)", name, v)
			default:
				panic(unsupported("assign op " + s.Tok.String()))
			}
			return p + fmt.Sprintf("let %s := %s\n", name, v) + t.stmts(rest, results)
		}
		if len(s.Rhs) == 1 {
			var names []string
			for _, l := range s.Lhs {
				names = append(names, l.(*ast.Ident).Name)
			}
			p, v := t.hexpr(s.Rhs[0])
			call := s.Rhs[0].(*ast.CallExpr)
			pat := "(" + strings.Join(names, ", ") + ")"
			if xf, ok := extCallee(call.Fun); ok { // IMPLFAST(1)
				if xf.partial {
					t.partial = true
					return p + fmt.Sprintf("(%s).bind fun %s =>\n", v, pat) + t.stmts(rest, results)
				}
				return p + fmt.Sprintf("let %s := %s\n", pat, v) + t.stmts(rest, results)
			}
			callee := call.Fun.(*ast.Ident).Name
			if t.partialFns[callee] {
				t.partial = true
				return p + fmt.Sprintf("(%s).bind fun %s =>\n", v, pat) + t.stmts(rest, results)
			}
			return p + fmt.Sprintf("let %s := %s\n", pat, v) + t.stmts(rest, results)
		}
		panic(unsupported("assign form"))
	case *ast.IfStmt:
		pre := ""
		if s.Init != nil {
			// treat init as preceding statement scoped over if/else and (harmlessly) the rest
			return t.stmts(append([]ast.Stmt{s.Init, &ast.IfStmt{Cond: s.Cond, Body: s.Body, Else: s.Else}}, rest...), results)
		}
		p, c := t.hexpr(s.Cond)
		pre += p
		thenS := t.stmts(append(append([]ast.Stmt{}, s.Body.List...), rest...), results)
		var elseList []ast.Stmt
		switch e := s.Else.(type) {
		case nil:
		case *ast.BlockStmt:
			elseList = e.List
		case *ast.IfStmt:
			elseList = []ast.Stmt{e}
		}
		elseS := t.stmts(append(append([]ast.Stmt{}, elseList...), rest...), results)
		return pre + fmt.Sprintf("if %s then\n%s\nelse\n%s", c, indent(thenS), indent(elseS))
	case *ast.SwitchStmt:
		if s.Init != nil {
			panic(unsupported("switch init"))
		}
		// desugar into if-chain
		var chain ast.Stmt
		var deflt []ast.Stmt
		var cases []*ast.CaseClause
		for _, c := range s.Body.List {
			cc := c.(*ast.CaseClause)
			if cc.List == nil {
				deflt = cc.Body
			} else {
				cases = append(cases, cc)
			}
		}
		var build func(i int) ast.Stmt
		build = func(i int) ast.Stmt {
			if i == len(cases) {
				return &ast.BlockStmt{List: deflt}
			}
			cc := cases[i]
			var cond ast.Expr
			for _, e := range cc.List {
				var c ast.Expr = e
				if s.Tag != nil {
					be := &ast.BinaryExpr{X: s.Tag, Op: token.EQL, Y: e}
					t.info.Types[be] = types.TypeAndValue{Type: types.Typ[types.Bool]}
					c = be
				}
				if cond == nil {
					cond = c
				} else {
					be := &ast.BinaryExpr{X: cond, Op: token.LOR, Y: c}
					t.info.Types[be] = types.TypeAndValue{Type: types.Typ[types.Bool]}
					cond = be
				}
			}
			next := build(i + 1)
			var els ast.Stmt = next
			return &ast.IfStmt{Cond: cond, Body: &ast.BlockStmt{List: cc.Body}, Else: els}
		}
		chain = build(0)
		if b, ok := chain.(*ast.BlockStmt); ok {
			return t.stmts(append(append([]ast.Stmt{}, b.List...), rest...), results)
		}
		return t.stmts(append([]ast.Stmt{chain}, rest...), results)
	}
	panic(unsupported(fmt.Sprintf("stmt %T", s)))
}

func indent(s string) string {
	return "  " + strings.ReplaceAll(s, "\n", "\n  ")
}

func main() {
	pkgPath := flag.String("pkg", "", "Go package path (loaded from -dir)")
	dir := flag.String("dir", repoDir(), "module directory (default $VERIF_REPO or /repo)")
	ns := flag.String("ns", "Gen", "Lean namespace")
	out := flag.String("o", "", "output .lean file")
	manifest := flag.String("manifest", "", "output manifest json (function -> source hash, status)")
	consts := flag.String("consts", "", "comma-separated package-level integer constants to emit as Int defs")
	imports := flag.String("imports", "PbVerif.Gen.Prelude", "comma-separated Lean imports")
	ext := flag.String("ext", "", "IMPLFAST(1): comma-separated pkg.Func=Lean.name[:partial] mappings for calls into other packages")
	header := flag.String("header", "/verif/go/go2lean", "IMPLFAST(3): generator named in the header line")
	flag.Parse()
	for _, m := range strings.Split(*ext, ",") {
		if kv := strings.SplitN(m, "=", 2); len(kv) == 2 {
			x := extFn{lean: strings.TrimSuffix(kv[1], ":partial"), partial: strings.HasSuffix(kv[1], ":partial")}
			extFns[kv[0]] = x
		}
	}
	want := flag.Args()
	cfg := &packages.Config{Mode: packages.NeedName | packages.NeedSyntax | packages.NeedTypes | packages.NeedTypesInfo | packages.NeedFiles, Dir: *dir}
	pkgs, err := packages.Load(cfg, *pkgPath)
	if err != nil || len(pkgs) != 1 || len(pkgs[0].Errors) > 0 {
		fmt.Fprintln(os.Stderr, "load:", err)
		if len(pkgs) > 0 {
			fmt.Fprintln(os.Stderr, pkgs[0].Errors)
		}
		os.Exit(2)
	}
	p := pkgs[0]
	decls := map[string]*ast.FuncDecl{}
	for _, f := range p.Syntax {
		for _, d := range f.Decls {
			if fd, ok := d.(*ast.FuncDecl); ok {
				name := fd.Name.Name
				if fd.Recv != nil && len(fd.Recv.List) == 1 {
					rt := fd.Recv.List[0].Type
					if st, ok := rt.(*ast.StarExpr); ok {
						rt = st.X
					}
					if id, ok := rt.(*ast.Ident); ok {
						name = id.Name + "." + name
					}
				}
				decls[name] = fd
			}
		}
	}
	var sb strings.Builder
	man := map[string]map[string]string{}
	fmt.Fprintln(&sb, "-- GENERATED by", *header, "from", *pkgPath, "— do not edit; regenerated on every check run")
	for _, im := range strings.Split(*imports, ",") {
		if im != "" {
			fmt.Fprintln(&sb, "import", im)
		}
	}
	fmt.Fprintln(&sb, "set_option linter.unusedVariables false")
	fmt.Fprintln(&sb, "namespace", *ns)
	if *consts != "" {
		for _, c := range strings.Split(*consts, ",") {
			obj := p.Types.Scope().Lookup(c)
			cn, ok := obj.(*types.Const)
			if !ok {
				fmt.Fprintf(&sb, "-- MISSING const %s\n", c)
				man["const:"+c] = map[string]string{"status": "missing"}
				continue
			}
			fmt.Fprintf(&sb, "\ndef %s : Int := %s\n", lower(c), cn.Val().ExactString())
			man["const:"+c] = map[string]string{"status": "ok", "value": cn.Val().ExactString()}
		}
	}
	partialFns := map[string]bool{}
	for _, name := range want {
		fd := decls[name]
		if fd == nil {
			fmt.Fprintf(&sb, "\n-- MISSING %s\n", name)
			man[name] = map[string]string{"status": "missing"}
			continue
		}
		src, _ := os.ReadFile(p.Fset.Position(fd.Pos()).Filename)
		h := sha256.Sum256(src[p.Fset.Position(fd.Pos()).Offset:p.Fset.Position(fd.End()).Offset])
		entry := map[string]string{"hash": fmt.Sprintf("%x", h[:8]), "pos": p.Fset.Position(fd.Pos()).String()}
		man[name] = entry
		func() {
			defer func() {
				if e := recover(); e != nil {
					if u, ok := e.(unsupported); ok {
						fmt.Fprintf(&sb, "\n-- UNSUPPORTED %s: %s\n", name, string(u))
						entry["status"] = "unsupported: " + string(u)
						return
					}
					fmt.Fprintf(&sb, "\n-- UNSUPPORTED %s: %v\n", name, e)
					entry["status"] = fmt.Sprintf("unsupported: %v", e)
				}
			}()
			t := &tr{info: p.TypesInfo, partialFns: partialFns}
			sig := p.TypesInfo.Defs[fd.Name].Type().(*types.Signature)
			var params []string
			if sig.Recv() != nil {
				params = append(params, fmt.Sprintf("(%s : %s)", sig.Recv().Name(), leanType(sig.Recv().Type())))
			}
			for i := 0; i < sig.Params().Len(); i++ {
				v := sig.Params().At(i)
				params = append(params, fmt.Sprintf("(%s : %s)", v.Name(), leanType(v.Type())))
			}
			var results []*types.Var
			named := false
			for i := 0; i < sig.Results().Len(); i++ {
				results = append(results, sig.Results().At(i))
				if sig.Results().At(i).Name() != "" {
					named = true
				}
			}
			body := ""
			if named {
				for _, r := range results {
					w, _, ok := width(r.Type())
					if ok {
						body += fmt.Sprintf("let %s : BitVec %d := 0#%d\n", r.Name(), w, w)
					} else {
						body += fmt.Sprintf("let %s : %s := default\n", r.Name(), leanType(r.Type()))
					}
				}
			}
			var resVars []*types.Var
			if named {
				resVars = results
			} else if sig.Results().Len() > 1 {
				resVars = make([]*types.Var, sig.Results().Len())
			}
			body += t.stmts(fd.Body.List, resVars)
			rt := leanType(sig.Results())
			if sig.Results().Len() == 1 {
				rt = leanType(sig.Results().At(0).Type())
			}
			if t.partial {
				partialFns[fd.Name.Name] = true
				body = strings.ReplaceAll(body, "RETRAW(", "(")
				body = strings.ReplaceAll(body, "RET(", "some (")
				rt = "Option " + rt
				entry["partial"] = "true"
			} else {
				body = strings.ReplaceAll(body, "RETRAW(", "(")
				body = strings.ReplaceAll(body, "RET(", "(")
			}
			lname := lower(strings.ReplaceAll(name, ".", "_"))
			fmt.Fprintf(&sb, "\ndef %s %s : %s :=\n%s\n", lname, strings.Join(params, " "), rt, indent(body))
			entry["status"] = "ok"
			entry["lean"] = *ns + "." + lname
		}()
	}
	fmt.Fprintln(&sb, "\nend", *ns)
	writeIfChanged(*out, sb.String())
	if *manifest != "" {
		keys := make([]string, 0, len(man))
		for k := range man {
			keys = append(keys, k)
		}
		sort.Strings(keys)
		mj, _ := json.MarshalIndent(man, "", " ")
		os.WriteFile(*manifest, mj, 0644)
	}
}

func repoDir() string {
	if d := os.Getenv("VERIF_REPO"); d != "" {
		return d
	}
	return "/repo"
}

func writeIfChanged(path, content string) {
	if path == "" {
		fmt.Print(content)
		return
	}
	old, err := os.ReadFile(path)
	if err == nil && string(old) == content {
		return
	}
	if err := os.WriteFile(path, []byte(content), 0644); err != nil {
		fmt.Fprintln(os.Stderr, err)
		os.Exit(2)
	}
}
