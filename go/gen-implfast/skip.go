// skip.go: the varint-skip ladder of impl.Validate (validate.go, `case protowire.VarintType:`), which
// skips a varint VALUE without calling protowire.ConsumeVarint:
//
//	if len(b) >= 10 { switch { case b[0] < 0x80: b = b[1:] … case b[9] < 0x80 && b[9] < 2: b = b[10:]; default: fail } }
//	else            { switch { case len(b) > 0 && b[0] < 0x80: b = b[1:] … case len(b) > 9 && b[9] < 2: b = b[10:]; default: fail } }
//
// Found structurally: an `if … { switch } else { switch }` whose two bodies are tagless switches that are
// "ladders" (≥ 3 clauses `case …b[k]…: b = b[j:]`).  The whole if statement is compared with the canonical
// shape; a ladder switch anywhere else is reported as stray.
package main

import (
	"go/ast"
)

const canonSkip = `
if len(b) >= 10 {
	switch {
	case b[0] < 0x80:
		b = b[1:]
	case b[1] < 0x80:
		b = b[2:]
	case b[2] < 0x80:
		b = b[3:]
	case b[3] < 0x80:
		b = b[4:]
	case b[4] < 0x80:
		b = b[5:]
	case b[5] < 0x80:
		b = b[6:]
	case b[6] < 0x80:
		b = b[7:]
	case b[7] < 0x80:
		b = b[8:]
	case b[8] < 0x80:
		b = b[9:]
	case b[9] < 0x80 && b[9] < 2:
		b = b[10:]
	default:
		panic("TERM")
	}
} else {
	switch {
	case len(b) > 0 && b[0] < 0x80:
		b = b[1:]
	case len(b) > 1 && b[1] < 0x80:
		b = b[2:]
	case len(b) > 2 && b[2] < 0x80:
		b = b[3:]
	case len(b) > 3 && b[3] < 0x80:
		b = b[4:]
	case len(b) > 4 && b[4] < 0x80:
		b = b[5:]
	case len(b) > 5 && b[5] < 0x80:
		b = b[6:]
	case len(b) > 6 && b[6] < 0x80:
		b = b[7:]
	case len(b) > 7 && b[7] < 0x80:
		b = b[8:]
	case len(b) > 8 && b[8] < 0x80:
		b = b[9:]
	case len(b) > 9 && b[9] < 2:
		b = b[10:]
	default:
		panic("TERM")
	}
}`

var cSkip = canonOf(canonSkip, "")

// isLadderSwitch: tagless switch with at least three clauses of the form `case …x[lit]…: x = x[…:]`
func isLadderSwitch(sw *ast.SwitchStmt) bool {
	if sw.Tag != nil || sw.Body == nil {
		return false
	}
	n := 0
	for _, cl := range sw.Body.List {
		cc, ok := cl.(*ast.CaseClause)
		if !ok || len(cc.List) == 0 || len(cc.Body) != 1 {
			continue
		}
		as, ok := cc.Body[0].(*ast.AssignStmt)
		if !ok || len(as.Rhs) != 1 {
			continue
		}
		if _, ok := as.Rhs[0].(*ast.SliceExpr); !ok {
			continue
		}
		idx := false
		for _, e := range cc.List {
			if contains(e, litIndex) {
				idx = true
			}
		}
		if idx {
			n++
		}
	}
	return n >= 3
}

func onlyLadder(b *ast.BlockStmt) *ast.SwitchStmt {
	if b == nil || len(b.List) != 1 {
		return nil
	}
	sw, ok := b.List[0].(*ast.SwitchStmt)
	if !ok || !isLadderSwitch(sw) {
		return nil
	}
	return sw
}

// skipSite recognises `if C { ladder } else { ladder }` (loosely: either branch being a ladder suffices,
// so that an edited site is still found and reported rather than dropped)
func skipSite(ifs *ast.IfStmt) *site {
	els, _ := ifs.Else.(*ast.BlockStmt)
	a, b := onlyLadder(ifs.Body), onlyLadder(els)
	if a == nil && b == nil {
		return nil
	}
	s := &site{kind: "skipvarint", ifs: ifs, stmts: []ast.Stmt{ifs}}
	sw := a
	if sw == nil {
		sw = b
	}
	ast.Inspect(sw, func(x ast.Node) bool {
		if ix, ok := x.(*ast.IndexExpr); ok && s.sliceVar == "" {
			if id, ok := ix.X.(*ast.Ident); ok {
				s.sliceVar = id.Name
			}
		}
		return true
	})
	return s
}

func (s *site) checkSkip() {
	got := canonList(s.fset, s.stmts, newRenamer(map[string]string{"": "$T"}))
	if got != cSkip {
		s.problem = "differs from the canonical varint-skip ladder: " + firstDiff(got, cSkip)
	}
}
