package main

import (
	"fmt"
	"os"
	"strconv"

	"google.golang.org/protobuf/encoding/protowire"
	testpb "google.golang.org/protobuf/internal/testprotos/test"
	"google.golang.org/protobuf/proto"
)

// nested builds levels of: ext18{ corecursive(2){ ext18{ ... {a:1} } } }
func nested(levels int) []byte {
	inner := []byte{0x08, 0x01}
	// sizes[i] = length of content at level i (0 = innermost NestedMessage content)
	sizes := make([]int, 2*levels+1)
	sizes[0] = len(inner)
	for i := 1; i <= 2*levels; i++ {
		sizes[i] = 1 + 1 + protowire.SizeVarint(uint64(sizes[i-1])) + sizes[i-1] - 1
		// tag for 18 is 2 bytes (0x92 0x01), tag for 2 is 1 byte
		if i%2 == 1 { // wrapping a NestedMessage content into TestAllExtensions content: field 18 (2-byte tag)
			sizes[i] = 2 + protowire.SizeVarint(uint64(sizes[i-1])) + sizes[i-1]
		} else { // wrapping TestAllExtensions content into NestedMessage content: field 2
			sizes[i] = 1 + protowire.SizeVarint(uint64(sizes[i-1])) + sizes[i-1]
		}
	}
	b := make([]byte, 0, sizes[2*levels-1]+16)
	for i := 2*levels - 1; i >= 1; i-- {
		if i%2 == 1 {
			b = protowire.AppendTag(b, 18, protowire.BytesType)
		} else {
			b = protowire.AppendTag(b, 2, protowire.BytesType)
		}
		b = protowire.AppendVarint(b, uint64(sizes[i-1]))
	}
	return append(b, inner...)
}

func main() {
	levels, _ := strconv.Atoi(os.Args[1])
	limit, _ := strconv.Atoi(os.Args[2])
	b := nested(levels)
	fmt.Println("bytes:", len(b))
	m := &testpb.TestAllExtensions{}
	err := proto.UnmarshalOptions{RecursionLimit: limit}.Unmarshal(b, m)
	fmt.Println("levels", levels, "limit", limit, "err:", err)
}
