package main

import (
	"fmt"

	testpb "google.golang.org/protobuf/internal/testprotos/test"
	edpb "google.golang.org/protobuf/internal/testprotos/testeditions"
	"google.golang.org/protobuf/proto"
	"google.golang.org/protobuf/types/dynamicpb"
)

func main() {
	b := []byte{0x12, 0x00}
	m := &edpb.TestOneofWithRequired{}
	fmt.Println("editions generated Unmarshal:", proto.Unmarshal(b, m), " CheckInitialized:", proto.CheckInitialized(m))
	_, err := proto.Marshal(m)
	fmt.Println("  Marshal:", err)
	d := dynamicpb.NewMessage(m.ProtoReflect().Descriptor())
	fmt.Println("editions dynamicpb Unmarshal:", proto.Unmarshal(b, d))
	// proto2 analogue in test.proto: TestRequiredForeign? oneof with required: TestAllTypes has oneof_nested_message? use TestRequiredForeign.OneofMessage
	m2 := &testpb.TestRequiredForeign{}
	fd := m2.ProtoReflect().Descriptor().Fields().ByName("oneof_message")
	fmt.Println("proto2 oneof_message field:", fd)
	if fd != nil {
		b2 := []byte{byte(fd.Number()<<3 | 2), 0x00}
		fmt.Println("proto2 generated Unmarshal:", proto.Unmarshal(b2, m2), "CheckInitialized:", proto.CheckInitialized(m2))
		d2 := dynamicpb.NewMessage(m2.ProtoReflect().Descriptor())
		fmt.Println("proto2 dynamicpb Unmarshal:", proto.Unmarshal(b2, d2))
	}
}
