package main

import (
	"fmt"

	test3pb "google.golang.org/protobuf/internal/testprotos/test3"
	"google.golang.org/protobuf/proto"
	"google.golang.org/protobuf/types/descriptorpb"
	"google.golang.org/protobuf/types/dynamicpb"
)

func main() {
	m := &descriptorpb.MessageOptions{}
	proto.SetExtension(m, test3pb.E_OptionalStringExt, "a\xff")
	_, err := proto.Marshal(m)
	fmt.Println("optional string ext:", err)
	m2 := &descriptorpb.MessageOptions{}
	proto.SetExtension(m2, test3pb.E_RepeatedStringExt, []string{"a\xff"})
	b, err := proto.Marshal(m2)
	fmt.Printf("repeated string ext: err=%v bytes=%x\n", err, b)
	fmt.Println("unmarshal generated:", proto.Unmarshal(b, &descriptorpb.MessageOptions{}))
	m3 := &descriptorpb.MessageOptions{}
	proto.SetExtension(m3, test3pb.E_RepeatedStringExt, []string{"ok"})
	bb, _ := proto.Marshal(m3)
	bb[len(bb)-1] = 0xff
	fmt.Printf("decode bad bytes %x into generated: %v ; dynamic: %v\n", bb, proto.Unmarshal(bb, &descriptorpb.MessageOptions{}), proto.Unmarshal(bb, dynamicpb.NewMessage(m2.ProtoReflect().Descriptor())))
}
