package main

import (
	"fmt"

	"google.golang.org/protobuf/encoding/prototext"
	"google.golang.org/protobuf/proto"
	"google.golang.org/protobuf/reflect/protodesc"
	"google.golang.org/protobuf/reflect/protoreflect"
	"google.golang.org/protobuf/reflect/protoregistry"
	"google.golang.org/protobuf/types/descriptorpb"
	"google.golang.org/protobuf/types/dynamicpb"
)

func main() {
	fdp := &descriptorpb.FileDescriptorProto{}
	err := prototext.Unmarshal([]byte(`
name: "verif_ext.proto" package: "verif.ext" syntax: "editions" edition: EDITION_2023
message_type { name: "M" field { name: "s" number: 1 type: TYPE_STRING label: LABEL_OPTIONAL } extension_range { start: 100 end: 200 } }
extension { name: "xs" number: 100 type: TYPE_STRING label: LABEL_OPTIONAL extendee: ".verif.ext.M" }
extension { name: "xr" number: 101 type: TYPE_STRING label: LABEL_REPEATED extendee: ".verif.ext.M" }
`), fdp)
	if err != nil {
		panic(err)
	}
	fd, err := protodesc.NewFile(fdp, protoregistry.GlobalFiles)
	if err != nil {
		panic(err)
	}
	md := fd.Messages().Get(0)
	xs := dynamicpb.NewExtensionType(fd.Extensions().Get(0))
	xr := dynamicpb.NewExtensionType(fd.Extensions().Get(1))
	types := &protoregistry.Types{}
	types.RegisterExtension(xs)
	types.RegisterExtension(xr)
	bad := "bad\xff"
	m := dynamicpb.NewMessage(md)
	m.Set(md.Fields().Get(0), protoreflect.ValueOfString(bad))
	_, err = proto.Marshal(m)
	fmt.Println("regular field (VERIFY by default) Marshal:", err)
	m = dynamicpb.NewMessage(md)
	m.Set(xs.TypeDescriptor(), protoreflect.ValueOfString(bad))
	b, err := proto.Marshal(m)
	fmt.Println("extension field Marshal:", err, "bytes", b)
	m2 := dynamicpb.NewMessage(md)
	fmt.Println("extension field Unmarshal:", proto.UnmarshalOptions{Resolver: types}.Unmarshal(b, m2), m2.Has(xs.TypeDescriptor()))
	m = dynamicpb.NewMessage(md)
	m.Mutable(xr.TypeDescriptor()).List().Append(protoreflect.ValueOfString(bad))
	_, err = proto.Marshal(m)
	fmt.Println("repeated extension Marshal:", err)
}
