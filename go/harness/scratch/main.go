package main

import (
	"encoding/hex"
	"fmt"
	"os"

	pbeditions "google.golang.org/protobuf/internal/testprotos/textpbeditions"
	"google.golang.org/protobuf/encoding/prototext"
	"google.golang.org/protobuf/proto"
	"google.golang.org/protobuf/types/dynamicpb"
)

func main() {
	for _, h := range os.Args[1:] {
		b, _ := hex.DecodeString(h)
		m := &pbeditions.Scalars{}
		e1 := proto.UnmarshalOptions{NoLazyDecoding: true}.Unmarshal(b, m)
		m2 := &pbeditions.Scalars{}
		e2 := proto.Unmarshal(b, m2)
		d := dynamicpb.NewMessage(m.ProtoReflect().Descriptor())
		e3 := proto.Unmarshal(b, d)
		fmt.Println(h, "\n eager:", e1, prototext.MarshalOptions{}.Format(m), "\n lazy:", e2, prototext.MarshalOptions{}.Format(m2), "\n dyn:", e3, prototext.MarshalOptions{}.Format(d))
	}
}
