package main

// A neutral content tree: the logical content of a message, independent of any Go representation.
// Scalars are kept as raw 64-bit patterns (so that a float32 signaling NaN survives, which a
// protoreflect.Value cannot hold: finding 12), strings/bytes as bytes, submessages as subtrees.
// Fields are keyed by number, so one tree can be built into every flavor of a schema family
// (open / hybrid / opaque / dynamicpb, or the twelve legacy generations).

import (
	"fmt"
	"math"
	"sort"
	"strings"

	vh "google.golang.org/protobuf/internal/zz_verif_vh"
	"google.golang.org/protobuf/reflect/protoreflect"
)

type TVal struct {
	Num   uint64 // canonical number (see canonNum): ints sign-extended, float32 bits in the low 32 bits
	Bytes []byte // string / bytes kinds
	IsB   bool   // string / bytes kind (Bytes may be empty)
	Msg   *Tree  // message / group kinds
}

type TEntry struct{ K, V TVal }

type TField struct {
	Num  protoreflect.FieldNumber
	Ext  bool
	One  *TVal    // singular
	List []TVal   // repeated (IsList)
	Map  []TEntry // map (sorted by canonical key)
	kind string   // "s" | "l" | "m"
}

type Tree struct {
	Fields  []*TField // ascending field number
	Unknown []byte
}

// treeOf snapshots a protoreflect message into a tree.
func treeOf(m protoreflect.Message) *Tree {
	t := &Tree{Unknown: append([]byte(nil), m.GetUnknown()...)}
	m.Range(func(fd protoreflect.FieldDescriptor, v protoreflect.Value) bool {
		f := &TField{Num: fd.Number(), Ext: fd.IsExtension()}
		switch {
		case fd.IsMap():
			f.kind = "m"
			v.Map().Range(func(k protoreflect.MapKey, mv protoreflect.Value) bool {
				f.Map = append(f.Map, TEntry{tvalOf(fd.MapKey(), k.Value()), tvalOf(fd.MapValue(), mv)})
				return true
			})
			sortEntries(fd.MapKey(), f.Map)
		case fd.IsList():
			f.kind = "l"
			l := v.List()
			for i := 0; i < l.Len(); i++ {
				f.List = append(f.List, tvalOf(fd, l.Get(i)))
			}
		default:
			f.kind = "s"
			tv := tvalOf(fd, v)
			f.One = &tv
		}
		t.Fields = append(t.Fields, f)
		return true
	})
	sort.Slice(t.Fields, func(i, j int) bool { return t.Fields[i].Num < t.Fields[j].Num })
	return t
}

func sortEntries(kd protoreflect.FieldDescriptor, es []TEntry) {
	sort.Slice(es, func(i, j int) bool {
		if kd.Kind() == protoreflect.StringKind {
			return string(es[i].K.Bytes) < string(es[j].K.Bytes)
		}
		return es[i].K.Num < es[j].K.Num
	})
}

func tvalOf(fd protoreflect.FieldDescriptor, v protoreflect.Value) TVal {
	switch fd.Kind() {
	case protoreflect.MessageKind, protoreflect.GroupKind:
		return TVal{Msg: treeOf(v.Message())}
	case protoreflect.StringKind:
		return TVal{Bytes: []byte(v.String()), IsB: true}
	case protoreflect.BytesKind:
		return TVal{Bytes: append([]byte{}, v.Bytes()...), IsB: true}
	}
	return TVal{Num: canonNum(fd, v)}
}

// pbValue converts a scalar tree value into a protoreflect.Value (float32 signaling NaNs are
// quieted on the way: ValueOfFloat32 stores a float64).
func pbValue(fd protoreflect.FieldDescriptor, tv TVal) protoreflect.Value {
	switch fd.Kind() {
	case protoreflect.BoolKind:
		return protoreflect.ValueOfBool(tv.Num != 0)
	case protoreflect.EnumKind:
		return protoreflect.ValueOfEnum(protoreflect.EnumNumber(int32(tv.Num)))
	case protoreflect.Int32Kind, protoreflect.Sint32Kind, protoreflect.Sfixed32Kind:
		return protoreflect.ValueOfInt32(int32(tv.Num))
	case protoreflect.Int64Kind, protoreflect.Sint64Kind, protoreflect.Sfixed64Kind:
		return protoreflect.ValueOfInt64(int64(tv.Num))
	case protoreflect.Uint32Kind, protoreflect.Fixed32Kind:
		return protoreflect.ValueOfUint32(uint32(tv.Num))
	case protoreflect.Uint64Kind, protoreflect.Fixed64Kind:
		return protoreflect.ValueOfUint64(tv.Num)
	case protoreflect.FloatKind:
		return protoreflect.ValueOfFloat32(math.Float32frombits(uint32(tv.Num)))
	case protoreflect.DoubleKind:
		return protoreflect.ValueOfFloat64(math.Float64frombits(tv.Num))
	case protoreflect.StringKind:
		return protoreflect.ValueOfString(string(tv.Bytes))
	case protoreflect.BytesKind:
		return protoreflect.ValueOfBytes(append([]byte{}, tv.Bytes...))
	}
	panic("pbValue: kind " + fd.Kind().String())
}

// fieldByNumber finds field or known extension `num` of m's type.
type extFinder func(md protoreflect.MessageDescriptor, num protoreflect.FieldNumber) protoreflect.ExtensionType

// buildReflect builds the tree into m through the protoreflect API only (Set / Mutable / Append).
// Fields are assigned in the given order permutation (nil = ascending).
func buildReflect(m protoreflect.Message, t *Tree, xf extFinder) {
	md := m.Descriptor()
	for _, f := range t.Fields {
		var fd protoreflect.FieldDescriptor
		if f.Ext {
			xt := xf(md, f.Num)
			if xt == nil {
				panic(fmt.Sprintf("buildReflect: no extension %d of %s", f.Num, md.FullName()))
			}
			fd = xt.TypeDescriptor()
		} else {
			fd = md.Fields().ByNumber(f.Num)
			if fd == nil {
				panic(fmt.Sprintf("buildReflect: no field %d in %s", f.Num, md.FullName()))
			}
		}
		switch f.kind {
		case "m":
			mp := m.Mutable(fd).Map()
			for _, e := range f.Map {
				k := pbValue(fd.MapKey(), e.K).MapKey()
				if fd.MapValue().Message() != nil {
					v := mp.NewValue()
					buildReflect(v.Message(), e.V.Msg, xf)
					mp.Set(k, v)
				} else {
					mp.Set(k, pbValue(fd.MapValue(), e.V))
				}
			}
		case "l":
			l := m.Mutable(fd).List()
			for _, e := range f.List {
				if fd.Message() != nil {
					v := l.NewElement()
					buildReflect(v.Message(), e.Msg, xf)
					l.Append(v)
				} else {
					l.Append(pbValue(fd, e))
				}
			}
		default:
			if fd.Message() != nil {
				buildReflect(m.Mutable(fd).Message(), f.One.Msg, xf)
			} else {
				m.Set(fd, pbValue(fd, *f.One))
			}
		}
	}
	if len(t.Unknown) > 0 {
		m.SetUnknown(append(protoreflect.RawFields(nil), t.Unknown...))
	}
}

// snapTree renders the tree in the canonical token form of the Lean model (same as Flat.Snap).
func snapTree(t *Tree) string {
	var sb strings.Builder
	snapTreeTo(&sb, t)
	return sb.String()
}

func snapTVal(sb *strings.Builder, tv TVal) {
	switch {
	case tv.Msg != nil:
		snapTreeTo(sb, tv.Msg)
	case tv.IsB:
		sb.WriteString("b " + vh.Hex(tv.Bytes))
	default:
		fmt.Fprintf(sb, "n %d", tv.Num)
	}
}

func snapTreeTo(sb *strings.Builder, t *Tree) {
	sb.WriteString("( ")
	for _, f := range t.Fields {
		switch f.kind {
		case "m":
			fmt.Fprintf(sb, "%d r %d ", f.Num, len(f.Map))
			for _, e := range f.Map {
				sb.WriteString("( 1 s ")
				snapTVal(sb, e.K)
				sb.WriteString(" 2 s ")
				snapTVal(sb, e.V)
				sb.WriteString(" u - ) ")
			}
		case "l":
			fmt.Fprintf(sb, "%d r %d ", f.Num, len(f.List))
			for _, e := range f.List {
				snapTVal(sb, e)
				sb.WriteString(" ")
			}
		default:
			fmt.Fprintf(sb, "%d s ", f.Num)
			snapTVal(sb, *f.One)
			sb.WriteString(" ")
		}
	}
	sb.WriteString("u " + vh.Hex(t.Unknown) + " )")
}

// isSNaN32: a float32 bit pattern that is a signaling NaN.
func isSNaN32(b uint32) bool {
	return b&0x7f800000 == 0x7f800000 && b&0x007fffff != 0 && b&0x00400000 == 0
}

// mapFloat32 applies f to every float32 value of the tree (descriptor-directed); returns the count changed.
func mapFloat32(md protoreflect.MessageDescriptor, t *Tree, xf extFinder, f func(uint32) uint32) int {
	n := 0
	one := func(fd protoreflect.FieldDescriptor, tv *TVal) {
		switch {
		case fd.Kind() == protoreflect.FloatKind:
			nb := f(uint32(tv.Num))
			if nb != uint32(tv.Num) {
				n++
			}
			tv.Num = uint64(nb)
		case tv.Msg != nil:
			n += mapFloat32(fd.Message(), tv.Msg, xf, f)
		}
	}
	for _, tf := range t.Fields {
		var fd protoreflect.FieldDescriptor
		if tf.Ext {
			fd = xf(md, tf.Num).TypeDescriptor()
		} else {
			fd = md.Fields().ByNumber(tf.Num)
		}
		switch tf.kind {
		case "m":
			for i := range tf.Map {
				one(fd.MapValue(), &tf.Map[i].V)
			}
		case "l":
			for i := range tf.List {
				one(fd, &tf.List[i])
			}
		default:
			one(fd, tf.One)
		}
	}
	return n
}

func cloneTree(t *Tree) *Tree {
	c := &Tree{Unknown: append([]byte(nil), t.Unknown...)}
	cv := func(v TVal) TVal {
		o := TVal{Num: v.Num, IsB: v.IsB}
		if v.IsB {
			o.Bytes = append([]byte{}, v.Bytes...)
		}
		if v.Msg != nil {
			o.Msg = cloneTree(v.Msg)
		}
		return o
	}
	for _, f := range t.Fields {
		nf := &TField{Num: f.Num, Ext: f.Ext, kind: f.kind}
		if f.One != nil {
			v := cv(*f.One)
			nf.One = &v
		}
		for _, e := range f.List {
			nf.List = append(nf.List, cv(e))
		}
		for _, e := range f.Map {
			nf.Map = append(nf.Map, TEntry{cv(e.K), cv(e.V)})
		}
		c.Fields = append(c.Fields, nf)
	}
	return c
}

// normTree returns a copy of t as it survives a JSON / text round trip: unknown fields dropped
// (neither format carries them) and NaN payloads canonicalised ("NaN" / "nan" carry no payload).
func normTree(md protoreflect.MessageDescriptor, t *Tree, xf extFinder) *Tree {
	c := cloneTree(t)
	normInPlace(md, c, xf)
	return c
}

func normInPlace(md protoreflect.MessageDescriptor, t *Tree, xf extFinder) {
	t.Unknown = nil
	one := func(fd protoreflect.FieldDescriptor, tv *TVal) {
		switch fd.Kind() {
		case protoreflect.FloatKind:
			if b := uint32(tv.Num); b&0x7f800000 == 0x7f800000 && b&0x007fffff != 0 {
				tv.Num = 0x7fc00000
			}
		case protoreflect.DoubleKind:
			if b := tv.Num; b&0x7ff0000000000000 == 0x7ff0000000000000 && b&0x000fffffffffffff != 0 {
				tv.Num = 0x7ff8000000000001
			}
		case protoreflect.MessageKind, protoreflect.GroupKind:
			normInPlace(fd.Message(), tv.Msg, xf)
		}
	}
	for _, tf := range t.Fields {
		var fd protoreflect.FieldDescriptor
		if tf.Ext {
			fd = xf(md, tf.Num).TypeDescriptor()
		} else {
			fd = md.Fields().ByNumber(tf.Num)
		}
		switch tf.kind {
		case "m":
			for i := range tf.Map {
				one(fd.MapValue(), &tf.Map[i].V)
			}
		case "l":
			for i := range tf.List {
				one(fd, &tf.List[i])
			}
		default:
			one(fd, tf.One)
		}
	}
}

// hasTopLevel reports whether some populated top-level field satisfies p.
func hasTopLevel(md protoreflect.MessageDescriptor, t *Tree, p func(tf *TField, fd protoreflect.FieldDescriptor) bool) bool {
	for _, tf := range t.Fields {
		var fd protoreflect.FieldDescriptor
		if !tf.Ext {
			fd = md.Fields().ByNumber(tf.Num)
		}
		if p(tf, fd) {
			return true
		}
	}
	return false
}
