package main

// C29: all API flavors of one schema are interchangeable.
//
// Schema families that exist in open / hybrid / opaque form (full names N, hybrid.N, opaque.N).  Random
// content is generated ONCE in a neutral form (fill on dynamicpb of the open descriptor -> content tree)
// and then built in every flavor through every construction path it has:
//     open:   struct (Go reflect on the exported fields), protoreflect, dynamicpb
//     hybrid: struct, setters, builder, protoreflect, dynamicpb
//     opaque: setters, builder, protoreflect, dynamicpb
// All voices are compared pairwise through a reference and against ONE Lean model (pbmodel_msg):
// deterministic bytes; every voice decodes another voice's bytes / JSON / text to the same content;
// JSON equal as parsed JSON; proto.Equal within a descriptor; oneof views; generated getters vs reflection.

import (
	"bytes"
	"fmt"
	"reflect"
	"regexp"
	"sort"
	"strings"

	"google.golang.org/protobuf/encoding/protojson"
	"google.golang.org/protobuf/encoding/prototext"
	"google.golang.org/protobuf/internal/encoding/messageset"
	"google.golang.org/protobuf/internal/flags"
	vh "google.golang.org/protobuf/internal/zz_verif_vh"
	"google.golang.org/protobuf/proto"
	"google.golang.org/protobuf/reflect/protoreflect"
	"google.golang.org/protobuf/reflect/protoregistry"
	"google.golang.org/protobuf/types/dynamicpb"
)

type flavor struct {
	api  string // open | hybrid | opaque
	mt   protoreflect.MessageType
	dt   protoreflect.MessageType // dynamicpb of the same descriptor
	gi   *goInfo
	flat *Flat
}

type family struct {
	name    string // full name of the open message
	flavors []*flavor
}

type fvoice struct {
	name    string // e.g. "opaque/builder"
	fl      *flavor
	path    string // struct | setters | builder | reflect | dynamic
	reflect bool   // content travelled through protoreflect.Value (float32 signaling NaNs are quieted: finding 12)
}

func (v *fvoice) build(t *Tree) proto.Message {
	xf := v.fl.extFinder()
	switch v.path {
	case "reflect":
		m := v.fl.mt.New()
		buildReflect(m, t, xf)
		return m.Interface()
	case "dynamic":
		m := v.fl.dt.New()
		buildReflect(m, t, xf)
		return m.Interface()
	}
	return buildNative(v.fl.gi, t, v.path, xf)
}

func (v *fvoice) newEmpty() proto.Message {
	if v.path == "dynamic" {
		return v.fl.dt.New().Interface()
	}
	return v.fl.mt.New().Interface()
}

func (fl *flavor) extFinder() extFinder {
	return func(md protoreflect.MessageDescriptor, num protoreflect.FieldNumber) protoreflect.ExtensionType {
		xt, _ := protoregistry.GlobalTypes.FindExtensionByNumber(md.FullName(), num)
		return xt
	}
}

var flavorPrefix = map[string]string{"open": "", "hybrid": "hybrid.", "opaque": "opaque."}

// families enumerates every registered message N for which hybrid.N or opaque.N is registered too.
func families(c *vh.Ctx) []*family {
	var out []*family
	seen := map[string]bool{}
	protoregistry.GlobalTypes.RangeMessages(func(mt protoreflect.MessageType) bool {
		n := string(mt.Descriptor().FullName())
		base := strings.TrimPrefix(strings.TrimPrefix(n, "hybrid."), "opaque.")
		if base == n || seen[base] {
			return true
		}
		if strings.HasPrefix(base, "goproto.proto.messageset.") {
			// MessageSet wire format needs the protolegacy build tag and is not part of the Lean message
			// model (C47 covers it): these families are left out
			seen[base] = true
			messageSetSkipped++
			return true
		}
		seen[base] = true
		if _, err := protoregistry.GlobalTypes.FindMessageByName(protoreflect.FullName(base)); err != nil {
			return true
		}
		if fl := Flatten(mt.Descriptor(), protoregistry.GlobalTypes); usesMessageSet(fl) && !flags.ProtoLegacy {
			messageSetSkipped++
			return true
		}
		fam := &family{name: base}
		for _, api := range []string{"open", "hybrid", "opaque"} {
			fmt_, err := protoregistry.GlobalTypes.FindMessageByName(protoreflect.FullName(flavorPrefix[api] + base))
			if err != nil {
				continue
			}
			gi := goInfoOf(reflect.TypeOf(fmt_.Zero().Interface()))
			fam.flavors = append(fam.flavors, &flavor{api: api, mt: fmt_, dt: dynamicpb.NewMessageType(fmt_.Descriptor()), gi: gi,
				flat: Flatten(fmt_.Descriptor(), protoregistry.GlobalTypes)})
		}
		out = append(out, fam)
		return true
	})
	sort.Slice(out, func(i, j int) bool { return out[i].name < out[j].name })
	return out
}

// usesMessageSet: some reachable message uses the MessageSet wire format (needs the protolegacy tag).
func usesMessageSet(fl *Flat) bool {
	for _, md := range fl.Descs {
		if messageset.IsMessageSet(md) {
			return true
		}
	}
	return false
}

// hasWKT: some reachable message is a google.protobuf.* type (special JSON mapping).
func (fam *family) hasWKT() bool {
	for _, md := range fam.flavors[0].flat.Descs {
		if strings.HasPrefix(string(md.FullName()), "google.protobuf.") {
			return true
		}
	}
	return false
}

func (fam *family) voices() []*fvoice {
	var vs []*fvoice
	for _, fl := range fam.flavors {
		for _, mode := range fl.gi.modes() {
			vs = append(vs, &fvoice{name: fl.api + "/" + mode, fl: fl, path: mode})
		}
		vs = append(vs, &fvoice{name: fl.api + "/protoreflect", fl: fl, path: "reflect", reflect: true})
		vs = append(vs, &fvoice{name: fl.api + "/dynamicpb", fl: fl, path: "dynamic", reflect: true})
	}
	return vs
}

var extKey = regexp.MustCompile(`\[(?:hybrid\.|opaque\.)?([A-Za-z_][A-Za-z_0-9]*(?:\.[A-Za-z_][A-Za-z_0-9]*)+)\]`)

// stripFlavor removes the flavor prefix of package names in JSON / text output (extension keys `[pkg.name]`).
func stripFlavor(s string) string { return extKey.ReplaceAllString(s, "[$1]") }

// retargetFlavor rewrites extension keys for the flavor that is going to parse the document.
func retargetFlavor(b []byte, from, to *flavor) []byte {
	return []byte(extKey.ReplaceAllString(string(b), "["+flavorPrefix[to.api]+"$1]"))
}

const sigSNaN = "float32-snan-quieted-by-reflection"

var snanReported, snanMapReported bool
var messageSetSkipped int

func runFlavors(c *vh.Ctx) {
	c.R.Rule = "one evaluation per (family root message, random content, voice); voices = every construction path of every flavor (open: struct/protoreflect/dynamicpb; hybrid: struct/setters/builder/protoreflect/dynamicpb; opaque: setters/builder/protoreflect/dynamicpb). Streams: random contents (boundary scalars, -0, NaN, empty and long strings, unknown fields, extensions, maps, oneofs, lazy fields), a signaling-NaN stream, a presence stream (explicitly set zero values / empty bytes). Non-trivial = non-empty deterministic encoding; distinct by (family, voice, bytes)."
	fams := families(c)
	var names []string
	for _, f := range fams {
		names = append(names, fmt.Sprintf("%s(%d flavors)", f.name, len(f.flavors)))
	}
	c.R.Notes = append(c.R.Notes, fmt.Sprintf("%d families (%d MessageSet families left out: C47): %s", len(fams), messageSetSkipped, strings.Join(names, " ")))
	for _, in := range c.ReplayInputs() {
		replayFlavors(c, fams, in)
	}
	for _, fam := range fams {
		if c.Failed() {
			return
		}
		runFamily(c, fam)
	}
}

func runFamily(c *vh.Ctx, fam *family) {
	in0 := map[string]any{"family": fam.name}
	defer c.Recover("family setup", in0, "")
	open := fam.flavors[0]
	// the flattened schema must be the same for every flavor (names differ, numbers/kinds/presence do not)
	for _, fl := range fam.flavors[1:] {
		if !sameLines(open.flat.Lines, fl.flat.Lines) {
			c.Check(false, "flattened schema of the "+fl.api+" flavor differs from the open one: "+firstDiff(open.flat.Lines, fl.flat.Lines), in0, "")
		}
	}
	open.flat.Send(c)
	var exts []protoreflect.ExtensionType
	for _, xs := range open.flat.Exts {
		exts = append(exts, xs...)
	}
	vs := fam.voices()
	// corpus first (finding 12): one singular float32 field holding the signaling NaN 0x7fa00000, and one
	// map<_, float> value holding it
	{
		fds := open.mt.Descriptor().Fields()
		var single, mapf protoreflect.FieldDescriptor
		for i := 0; i < fds.Len(); i++ {
			fd := fds.Get(i)
			if single == nil && fd.Kind() == protoreflect.FloatKind && !fd.IsList() && fd.ContainingOneof() == nil {
				single = fd
			}
			if mapf == nil && fd.IsMap() && fd.MapValue().Kind() == protoreflect.FloatKind && fd.MapKey().Kind() != protoreflect.StringKind {
				mapf = fd
			}
		}
		if single != nil {
			flavorCase(c, fam, vs, &Tree{Fields: []*TField{{Num: single.Number(), kind: "s", One: &TVal{Num: 0x7fa00000}}}}, "snan-corpus")
		}
		if mapf != nil {
			flavorCase(c, fam, vs, &Tree{Fields: []*TField{{Num: mapf.Number(), kind: "m", Map: []TEntry{{K: TVal{Num: 1}, V: TVal{Num: 0x7fa00000}}}}}}, "snan-corpus")
		}
	}
	// deterministic coverage of every field in every voice: every explicit-presence field present with its
	// zero value; every field populated with non-zero values (one member per oneof)
	for _, which := range []string{"all-zero-present", "all-populated", "all-populated-other-oneof-members"} {
		src := open.dt.New()
		populateAll(c, src, which, 0)
		flavorCase(c, fam, vs, treeOf(src), which)
	}
	per := c.N(4, 60)
	big := open.mt.Descriptor().Fields().Len() > 40
	if big {
		per = c.N(12, 300)
	}
	for it := 0; it < per && !c.Failed(); it++ {
		stream := "random"
		src := open.dt.New()
		o := Opts{MaxDepth: 2, NegZero: true, FieldProb: 2 + c.Rand.Intn(5)}
		if it%4 == 3 {
			stream = "presence"
		}
		fill(c, src, 0, o, exts)
		if stream == "presence" {
			presenceStream(c, src)
		}
		t := treeOf(src)
		if it%4 == 1 {
			stream = "snan"
			injectSNaN(c, open.mt.Descriptor(), t, open.extFinder())
		}
		flavorCase(c, fam, vs, t, stream)
	}
}

// populateAll fills every field of m deterministically (depth-limited).
//
//	all-zero-present: every singular field with explicit presence is present with the zero value / empty
//	                  bytes / empty submessage (first member of each oneof)
//	all-populated:    every field non-zero; lists and maps with two elements; first member of each oneof
//	all-populated-other-oneof-members: same, last member of each oneof
func populateAll(c *vh.Ctx, m protoreflect.Message, which string, depth int) {
	fds := m.Descriptor().Fields()
	zero := which == "all-zero-present"
	for i := 0; i < fds.Len(); i++ {
		fd := fds.Get(i)
		if od := fd.ContainingOneof(); od != nil && !od.IsSynthetic() {
			pick := od.Fields().Get(0)
			if which == "all-populated-other-oneof-members" {
				pick = od.Fields().Get(od.Fields().Len() - 1)
			}
			if pick.Number() != fd.Number() {
				continue
			}
		}
		val := func(fd protoreflect.FieldDescriptor, k int) protoreflect.Value {
			switch fd.Kind() {
			case protoreflect.BoolKind:
				return protoreflect.ValueOfBool(!zero)
			case protoreflect.StringKind:
				if zero {
					return protoreflect.ValueOfString("")
				}
				return protoreflect.ValueOfString(fmt.Sprintf("s%d", k))
			case protoreflect.BytesKind:
				if zero {
					return protoreflect.ValueOfBytes([]byte{})
				}
				return protoreflect.ValueOfBytes([]byte{byte(k), 0xff})
			case protoreflect.EnumKind:
				if zero {
					return protoreflect.ValueOfEnum(0)
				}
				vs := fd.Enum().Values()
				return protoreflect.ValueOfEnum(vs.Get(vs.Len() - 1).Number())
			}
			if zero {
				return pbValue(fd, TVal{Num: 0})
			}
			if fd.Kind() == protoreflect.FloatKind {
				return pbValue(fd, TVal{Num: uint64(0x3fc00000 + k)})
			}
			if fd.Kind() == protoreflect.DoubleKind {
				return pbValue(fd, TVal{Num: uint64(0x3ff8000000000000 + uint64(k))})
			}
			return pbValue(fd, TVal{Num: uint64(int64(-3 + 2*k*int(fd.Number()%7+1)))})
		}
		switch {
		case fd.IsMap():
			if zero {
				continue
			}
			mp := m.Mutable(fd).Map()
			for k := 1; k <= 2; k++ {
				key := val(fd.MapKey(), k).MapKey()
				if fd.MapValue().Message() != nil {
					v := mp.NewValue()
					if depth < 1 {
						populateAll(c, v.Message(), which, depth+1)
					}
					mp.Set(key, v)
				} else {
					mp.Set(key, val(fd.MapValue(), k))
				}
			}
		case fd.IsList():
			if zero {
				continue
			}
			l := m.Mutable(fd).List()
			for k := 1; k <= 2; k++ {
				if fd.Message() != nil {
					e := l.NewElement()
					if depth < 1 {
						populateAll(c, e.Message(), which, depth+1)
					}
					l.Append(e)
				} else {
					l.Append(val(fd, k))
				}
			}
		case fd.Message() != nil:
			sub := m.Mutable(fd).Message()
			if depth < 1 {
				populateAll(c, sub, which, depth+1)
			}
		default:
			if zero && !fd.HasPresence() {
				continue
			}
			m.Set(fd, val(fd, 1))
		}
	}
}

// presenceStream sets zero values explicitly on fields with explicit presence (and empty bytes/strings):
// the place where presence bits, pointers and zero values can be confused.
func presenceStream(c *vh.Ctx, m protoreflect.Message) {
	fds := m.Descriptor().Fields()
	for i := 0; i < fds.Len(); i++ {
		fd := fds.Get(i)
		if fd.IsList() || fd.IsMap() || !fd.HasPresence() || c.Rand.Intn(3) != 0 {
			continue
		}
		if od := fd.ContainingOneof(); od != nil && !od.IsSynthetic() && m.WhichOneof(od) != nil && c.Rand.Intn(2) == 0 {
			continue
		}
		switch {
		case fd.Message() != nil:
			m.Mutable(fd) // present, empty
		case fd.Kind() == protoreflect.StringKind:
			m.Set(fd, protoreflect.ValueOfString(""))
		case fd.Kind() == protoreflect.BytesKind:
			m.Set(fd, protoreflect.ValueOfBytes([]byte{}))
		case fd.Kind() == protoreflect.EnumKind:
			m.Set(fd, protoreflect.ValueOfEnum(0))
		default:
			m.Set(fd, pbValue(fd, TVal{Num: 0}))
		}
	}
}

// injectSNaN turns float32 values (non-extension fields) into signaling NaNs.
func injectSNaN(c *vh.Ctx, md protoreflect.MessageDescriptor, t *Tree, xf extFinder) int {
	pats := []uint32{0x7fa00000, 0x7f800001, 0xffa00000, 0x7fbfffff, 0xff800001}
	n := 0
	var walk func(md protoreflect.MessageDescriptor, t *Tree)
	one := func(fd protoreflect.FieldDescriptor, tv *TVal, ext bool) {
		switch {
		case fd.Kind() == protoreflect.FloatKind && !ext:
			if c.Rand.Intn(2) == 0 {
				tv.Num = uint64(pats[c.Rand.Intn(len(pats))])
				n++
			}
		case tv.Msg != nil:
			walk(fd.Message(), tv.Msg)
		}
	}
	walk = func(md protoreflect.MessageDescriptor, t *Tree) {
		for _, tf := range t.Fields {
			var fd protoreflect.FieldDescriptor
			if tf.Ext {
				fd = xf(md, tf.Num).TypeDescriptor()
			} else {
				fd = md.Fields().ByNumber(tf.Num)
			}
			switch tf.kind {
			case "m":
				for i := range tf.Map {
					one(fd.MapValue(), &tf.Map[i].V, false)
				}
			case "l":
				for i := range tf.List {
					one(fd, &tf.List[i], tf.Ext)
				}
			default:
				one(fd, tf.One, tf.Ext)
			}
		}
	}
	walk(md, t)
	return n
}

func countSNaN(md protoreflect.MessageDescriptor, t *Tree, xf extFinder) int {
	n := 0
	mapFloat32(md, cloneTree(t), xf, func(b uint32) uint32 {
		if isSNaN32(b) {
			n++
		}
		return b
	})
	return n
}

// quietMapValues quiets the float32 signaling NaNs that sit in map values (at any depth).
func quietMapValues(md protoreflect.MessageDescriptor, t *Tree, xf extFinder) *Tree {
	q := cloneTree(t)
	var walk func(md protoreflect.MessageDescriptor, t *Tree)
	walk = func(md protoreflect.MessageDescriptor, t *Tree) {
		for _, tf := range t.Fields {
			var fd protoreflect.FieldDescriptor
			if tf.Ext {
				fd = xf(md, tf.Num).TypeDescriptor()
			} else {
				fd = md.Fields().ByNumber(tf.Num)
			}
			switch tf.kind {
			case "m":
				for i := range tf.Map {
					v := &tf.Map[i].V
					if fd.MapValue().Kind() == protoreflect.FloatKind && isSNaN32(uint32(v.Num)) {
						v.Num |= 0x00400000
					}
					if v.Msg != nil {
						walk(fd.MapValue().Message(), v.Msg)
					}
				}
			case "l":
				for i := range tf.List {
					if tf.List[i].Msg != nil {
						walk(fd.Message(), tf.List[i].Msg)
					}
				}
			default:
				if tf.One.Msg != nil {
					walk(fd.Message(), tf.One.Msg)
				}
			}
		}
	}
	walk(md, q)
	return q
}

func quietTree(md protoreflect.MessageDescriptor, t *Tree, xf extFinder) *Tree {
	q := cloneTree(t)
	mapFloat32(md, q, xf, func(b uint32) uint32 {
		if isSNaN32(b) {
			return b | 0x00400000
		}
		return b
	})
	return q
}

type fout struct {
	v    *fvoice
	m    proto.Message
	det  []byte
	js   []byte
	txt  []byte
	jsOK bool
}

func flavorCase(c *vh.Ctx, fam *family, vs []*fvoice, t *Tree, stream string) {
	open := fam.flavors[0]
	snap := snapTree(t)
	in := map[string]any{"family": fam.name, "content": snap, "stream": stream}
	nSNaN := countSNaN(open.mt.Descriptor(), t, open.extFinder())
	qt := t
	if nSNaN > 0 {
		qt = quietTree(open.mt.Descriptor(), t, open.extFinder())
	}
	qsnap := snapTree(qt)
	// generated code encodes map values and extension fields through protoreflect.Value as well: there the
	// natively built flavors quiet a signaling NaN too (same root cause as finding 12)
	want, wantQ, wantN := "", "", ""
	if c.HasModel() {
		want = c.Ask("encdet 0 %s", snap)
		wantQ, wantN = want, want
		if nSNaN > 0 {
			wantQ = c.Ask("encdet 0 %s", qsnap)
			wantN = c.Ask("encdet 0 %s", snapTree(quietMapValues(open.mt.Descriptor(), t, open.extFinder())))
		}
		c.Compare("dec: the model decodes its own deterministic bytes to the content", in, "ok "+snap, c.Ask("dec 0 10000 0 %s", want))
	}
	lossy := snapTree(normTree(open.mt.Descriptor(), t, open.extFinder()))
	var outs []*fout
	for _, v := range vs {
		v := v
		func() {
			in2 := map[string]any{"family": fam.name, "content": snap, "stream": stream, "voice": v.name}
			defer c.Recover("building / marshalling the content in "+v.name, in2, "")
			m := v.build(t)
			o := &fout{v: v, m: m}
			var err error
			o.det, err = detPartial.Marshal(m)
			if !c.Check(err == nil, "Marshal fails in "+v.name+": "+fmt.Sprint(err), in2, "") {
				return
			}
			c.Hist("voice:" + v.name)
			c.Hist("stream:" + stream)
			c.Case(fam.name+"|"+v.name+"|"+string(o.det), len(o.det) > 0)
			// bytes against the model
			exp := want
			if v.reflect {
				exp = wantQ
			} else if wantN != want && vh.Hex(o.det) == wantN {
				exp = wantN
				c.Hist("known:" + sigSNaN + "(map value, generated code)")
				if !snanMapReported {
					snanMapReported = true
					in3 := map[string]any{"family": fam.name, "content": snap, "stream": stream, "voice": v.name, "bytes": vh.Hex(o.det), "bytes_with_exact_bits": want}
					c.Fail(vh.Failure{Kind: "property", What: "deterministic bytes of " + v.name + " do not carry the float32 signaling NaN held in a map value: the generated map coder encodes values through protoreflect.Value", Input: in3, Sig: sigSNaN})
				}
			}
			if exp != "" && vh.Hex(o.det) != exp {
				in2["bytes"], in2["model_bytes"] = vh.Hex(o.det), exp
				c.Fail(vh.Failure{Kind: "correspondence", What: "encdet: deterministic bytes of " + v.name + " differ from the model", Input: in2, Impl: vh.Hex(o.det), Model: exp})
			}
			if v.reflect && nSNaN > 0 && want != "" && vh.Hex(o.det) == wantQ && wantQ != want {
				// finding 12: the reflection path quiets float32 signaling NaNs (ValueOfFloat32 stores a float64)
				c.Hist("known:" + sigSNaN)
				if !snanReported {
					snanReported = true
					in2["bytes"], in2["native_bytes"], in2["float32_snan_values"] = vh.Hex(o.det), want, nSNaN
					c.Fail(vh.Failure{Kind: "property", What: "deterministic bytes of " + v.name + " differ from the natively built flavors: float32 signaling NaN quieted on the reflection path", Input: in2, Sig: sigSNaN})
				}
			}
			// reflection snapshot (float32 values read through protoreflect are quieted: compare with the quieted content)
			if got := v.fl.flat.Snap(m.ProtoReflect()); got != qsnap {
				c.Check(false, "reflection snapshot of "+v.name+" differs from the content: "+snapDiff(qsnap, got), in2, "")
			}
			o.js, err = protojson.MarshalOptions{AllowPartial: true}.Marshal(m)
			o.jsOK = err == nil
			o.txt, err = prototext.MarshalOptions{AllowPartial: true}.Marshal(m)
			c.Check(err == nil, "prototext.Marshal fails in "+v.name, in2, "")
			getterCheck(c, v, m, in2)
			outs = append(outs, o)
		}()
	}
	if len(outs) < 2 {
		return
	}
	r0 := outs[0]
	// JSON: what the reference output decodes to in dynamicpb of the open descriptor.  For schemas without
	// well-known types that must be the content; well-known types have their own lossy JSON mapping (a
	// NullValue number, a Value holding NaN, … : C20/C23), there every decoder must reach the same result.
	jsonWant, jsonWantOK := lossy, true
	if r0.jsOK {
		m := open.dt.New().Interface()
		err := protojson.UnmarshalOptions{AllowPartial: true}.Unmarshal(retargetFlavor(r0.js, r0.v.fl, open), m)
		jsonWantOK = err == nil
		if err == nil {
			jsonWant = lossySnap(open, m)
		}
		if !fam.hasWKT() {
			c.Check(err == nil && jsonWant == lossy, "JSON output of "+r0.v.name+" decoded by open/dynamicpb is not the content (modulo unknown fields, NaN payloads): "+fmt.Sprint(err), in, "")
		} else {
			c.Hist("json:well-known-types-compared-across-decoders-only")
		}
	}
	for i, o := range outs {
		in2 := map[string]any{"family": fam.name, "content": snap, "stream": stream, "voice": o.v.name, "reference": r0.v.name}
		// pairwise (through the reference): bytes, JSON, oneof view
		if o.v.reflect == r0.v.reflect || nSNaN == 0 {
			c.Check(bytes.Equal(o.det, r0.det), "deterministic bytes of "+o.v.name+" differ from "+r0.v.name, in2, "")
		}
		_ = wantN
		c.Check(o.jsOK == r0.jsOK, "protojson.Marshal verdict of "+o.v.name+" differs from "+r0.v.name, in2, "")
		if o.jsOK && r0.jsOK {
			c.Check(stripFlavor(canonJSON(o.js)) == stripFlavor(canonJSON(r0.js)), "protojson output of "+o.v.name+" differs from "+r0.v.name, in2, "")
		}
		c.Check(oneofView(o.m) == oneofView(r0.m), "WhichOneof view of "+o.v.name+" ("+oneofView(o.m)+") differs from "+r0.v.name+" ("+oneofView(r0.m)+")", in2, "")
		// every voice decodes the output of the next voice (cyclically): bytes, JSON, text
		p := outs[(i+1)%len(outs)]
		func() {
			in3 := map[string]any{"family": fam.name, "content": snap, "stream": stream, "decoder": o.v.name, "producer": p.v.name}
			defer c.Recover("decoding another voice's output", in3, "")
			for _, lazy := range []bool{true, false} {
				m2 := o.v.newEmpty()
				err := proto.UnmarshalOptions{AllowPartial: true, NoLazyDecoding: !lazy}.Unmarshal(p.det, m2)
				ok := err == nil && o.v.fl.flat.Snap(m2.ProtoReflect()) == qsnap
				c.Check(ok, fmt.Sprintf("binary output of %s decoded by %s (lazy=%v) is not the content", p.v.name, o.v.name, lazy), in3, "")
				if ok && !lazy {
					// and re-marshals to the producer's bytes, except that a reflection-path decoder quiets signaling NaNs
					b2, err := detPartial.Marshal(m2)
					if !(err == nil && bytes.Equal(b2, p.det)) {
						if o.v.path == "dynamic" && nSNaN > 0 && wantQ != "" && vh.Hex(b2) == wantQ {
							c.Hist("known:" + sigSNaN)
						} else {
							c.Check(false, "re-marshalling the decoded output of "+p.v.name+" in "+o.v.name+" gives other bytes", in3, "")
						}
					}
				}
			}
			if p.jsOK {
				m3 := o.v.newEmpty()
				err := protojson.UnmarshalOptions{AllowPartial: true}.Unmarshal(retargetFlavor(p.js, p.v.fl, o.v.fl), m3)
				if jsonWantOK {
					c.Check(err == nil && lossySnap(o.v.fl, m3) == jsonWant, "JSON output of "+p.v.name+" decoded by "+o.v.name+" differs from what open/dynamicpb decodes from the reference JSON: "+fmt.Sprint(err), in3, "")
				} else {
					c.Check(err != nil, "JSON output of "+p.v.name+" is accepted by "+o.v.name+" but the reference JSON is rejected by open/dynamicpb", in3, "")
				}
			}
			m4 := o.v.newEmpty()
			err := prototext.UnmarshalOptions{AllowPartial: true}.Unmarshal(retargetFlavor(p.txt, p.v.fl, o.v.fl), m4)
			c.Check(err == nil && lossySnap(o.v.fl, m4) == lossy, "text output of "+p.v.name+" decoded by "+o.v.name+" is not the content (modulo unknown fields, NaN payloads): "+fmt.Sprint(err), in3, "")
		}()
		// voices over the same descriptor are Equal
		if i > 0 && outs[i-1].v.fl == o.v.fl {
			q := outs[i-1]
			c.Check(proto.Equal(o.m, q.m) && proto.Equal(q.m, o.m), "proto.Equal("+o.v.name+", "+q.v.name+") is false for the same content", in2, "")
		}
	}
	if len(c.R.Samples) < 10 && len(r0.det) > 8 && len(r0.det) < 60 {
		c.Sample(map[string]any{"family": fam.name, "stream": stream, "bytes": vh.Hex(r0.det), "voices": len(outs)})
	}
}

func lossySnap(fl *flavor, m proto.Message) string {
	return snapTree(normTree(m.ProtoReflect().Descriptor(), treeOf(m.ProtoReflect()), fl.extFinder()))
}

// oneofView lists, per oneof (synthetic ones included), the number of the populated member.
func oneofView(m proto.Message) string {
	r := m.ProtoReflect()
	ods := r.Descriptor().Oneofs()
	var sb strings.Builder
	for i := 0; i < ods.Len(); i++ {
		w := r.WhichOneof(ods.Get(i))
		if w == nil {
			fmt.Fprintf(&sb, "%d:- ", i)
		} else {
			fmt.Fprintf(&sb, "%d:%d ", i, w.Number())
		}
	}
	return sb.String()
}

// getterCheck: the generated GetXxx / HasXxx / WhichXxx methods return what protoreflect returns.
func getterCheck(c *vh.Ctx, v *fvoice, m proto.Message, in map[string]any) {
	if v.path == "dynamic" {
		return
	}
	gi := v.fl.gi
	r := m.ProtoReflect()
	mv := reflect.ValueOf(m)
	fds := r.Descriptor().Fields()
	for i := 0; i < fds.Len(); i++ {
		fd := fds.Get(i)
		var get reflect.Value
		name := ""
		for _, n := range gi.accessorNames(fd) {
			if g := mv.MethodByName("Get" + n); g.IsValid() {
				get, name = g, n
				break
			}
		}
		if !c.Check(get.IsValid(), "no getter found for field "+string(fd.Name()), in, "") {
			continue
		}
		gv := get.Call(nil)[0]
		pv := r.Get(fd)
		ok := true
		switch {
		case fd.IsMap():
			ok = gv.Len() == pv.Map().Len()
			if ok {
				pv.Map().Range(func(k protoreflect.MapKey, x protoreflect.Value) bool {
					e := gv.MapIndex(goScalar(gv.Type().Key(), tvalOf(fd.MapKey(), k.Value())))
					if !e.IsValid() {
						ok = false
						return false
					}
					if fd.MapValue().Message() != nil {
						ok = ok && proto.Equal(e.Interface().(proto.Message), x.Message().Interface())
					} else {
						ok = ok && renderGoScalar(fd.MapValue(), e) == renderPBScalar(fd.MapValue(), x)
					}
					return ok
				})
			}
		case fd.IsList():
			l := pv.List()
			ok = gv.Len() == l.Len()
			for j := 0; ok && j < l.Len(); j++ {
				if fd.Message() != nil {
					ok = proto.Equal(gv.Index(j).Interface().(proto.Message), l.Get(j).Message().Interface())
				} else {
					ok = renderGoScalar(fd, gv.Index(j)) == renderPBScalar(fd, l.Get(j))
				}
			}
		case fd.Message() != nil:
			has := r.Has(fd)
			ok = gv.IsNil() == !has
			if ok && has {
				ok = proto.Equal(gv.Interface().(proto.Message), pv.Message().Interface())
			}
		default:
			ok = renderGoScalar(fd, gv) == renderPBScalar(fd, pv)
		}
		c.Check(ok, fmt.Sprintf("generated getter Get%s disagrees with protoreflect Get(%s)", name, fd.Name()), in, "")
		if hm := mv.MethodByName("Has" + name); hm.IsValid() && hm.Type().NumIn() == 0 {
			c.Check(hm.Call(nil)[0].Bool() == r.Has(fd), fmt.Sprintf("generated Has%s disagrees with protoreflect Has(%s)", name, fd.Name()), in, "")
		}
	}
	ods := r.Descriptor().Oneofs()
	for i := 0; i < ods.Len(); i++ {
		od := ods.Get(i)
		if od.IsSynthetic() {
			continue
		}
		gn, ok := gi.oneofGo[string(od.Name())]
		if !ok {
			continue
		}
		if wm := mv.MethodByName("Which" + gn); wm.IsValid() {
			rv := wm.Call(nil)[0]
			var got uint64
			if rv.CanInt() {
				got = uint64(rv.Int())
			} else {
				got = rv.Uint()
			}
			want := uint64(0)
			if w := r.WhichOneof(od); w != nil {
				want = uint64(w.Number())
			}
			c.Check(got == want, fmt.Sprintf("generated Which%s = %d, protoreflect WhichOneof = %d", gn, got, want), in, "")
		}
		if hm := mv.MethodByName("Has" + gn); hm.IsValid() && hm.Type().NumIn() == 0 {
			c.Check(hm.Call(nil)[0].Bool() == (r.WhichOneof(od) != nil), fmt.Sprintf("generated Has%s (oneof) disagrees with WhichOneof", gn), in, "")
		}
	}
}

// replayFlavors re-runs a recorded failing input: {"family":…, "content": MSG tokens, …}.
func replayFlavors(c *vh.Ctx, fams []*family, raw []byte) {
	// contents are replayed through the model's token form: decode it with the open flavor
	in := struct {
		Family  string `json:"family"`
		Content string `json:"content"`
		Stream  string `json:"stream"`
	}{}
	if err := jsonUnmarshal(raw, &in); err != nil || in.Family == "" || in.Content == "" {
		return
	}
	for _, fam := range fams {
		if fam.name != in.Family {
			continue
		}
		t, err := parseSnapFor(fam.flavors[0].mt.Descriptor(), fam.flavors[0].extFinder(), in.Content)
		if err != nil {
			c.R.Notes = append(c.R.Notes, "replay: cannot parse content: "+err.Error())
			return
		}
		fam.flavors[0].flat.Send(c)
		flavorCase(c, fam, fam.voices(), t, "replay")
	}
}
