package main

import (
	"fmt"

	vh "google.golang.org/protobuf/internal/zz_verif_vh"
	"google.golang.org/protobuf/reflect/protoreflect"
	"google.golang.org/protobuf/reflect/protoregistry"
)

func main() { vh.Main("flavors", run) }

func run(c *vh.Ctx) {
	n := 0
	protoregistry.GlobalTypes.RangeMessages(func(mt protoreflect.MessageType) bool { n++; return true })
	fmt.Println("types", n)
}
