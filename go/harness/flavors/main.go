// flavors harness: C29 (API flavors interchangeable), C31 (typed nil = empty, read-only),
// C46 (legacy / struct-tag-only messages behave like generated ones).
package main

import (
	vh "google.golang.org/protobuf/internal/zz_verif_vh"
	"google.golang.org/protobuf/proto"
	"google.golang.org/protobuf/runtime/protoiface"
)

func main() { vh.Main("flavors", run) }

func run(c *vh.Ctx) {
	switch c.Prop {
	case "C29":
		runFlavors(c)
	case "C31":
		runNil(c)
	case "C46":
		runLegacy(c)
	default:
		panic("flavors harness: unknown property " + c.Prop)
	}
}

func protoifaceMarshalInput(m proto.Message) protoiface.MarshalInput {
	return protoiface.MarshalInput{Message: m.ProtoReflect()}
}
