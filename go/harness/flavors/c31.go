package main

// C31: typed nil messages behave as empty read-only messages.
//
// Exhaustive over every message type registered in protoregistry.GlobalTypes of a binary that
// links every package of the module that contains generated (or legacy-generated) code
// (imports.go): for each type the typed nil and a fresh empty message are run through every
// read-only entry point under recover(); results are canonical strings and must be identical,
// except IsValid (false / true) and Equal(nil, empty) = false.  The Lean model (NilMsg.lean,
// verb `nilobs` of pbmodel_flavors) is asked for the same observers over the flattened schema.

import (
	"fmt"
	"math"
	"reflect"
	"sort"
	"strings"

	"google.golang.org/protobuf/encoding/protojson"
	"google.golang.org/protobuf/encoding/prototext"
	vh "google.golang.org/protobuf/internal/zz_verif_vh"
	"google.golang.org/protobuf/proto"
	"google.golang.org/protobuf/reflect/protoreflect"
	"google.golang.org/protobuf/reflect/protoregistry"
	"google.golang.org/protobuf/runtime/protoimpl"
)

// guard runs f and renders a panic as a result string.
func guard(f func() string) (s string) {
	defer func() {
		if e := recover(); e != nil {
			msg := fmt.Sprint(e)
			if len(msg) > 160 {
				msg = msg[:160]
			}
			s = "PANIC: " + msg
		}
	}()
	return f()
}

func errStr(err error) string {
	if err == nil {
		return "ok"
	}
	s := err.Error()
	// protobuf errors carry a deliberately unstable prefix ("proto: " with a NBSP or a space)
	s = strings.ReplaceAll(s, " ", " ")
	return "err(" + s + ")"
}

func bytesRes(b []byte, err error) string {
	nilness := "nil"
	if b != nil {
		nilness = "nonnil"
	}
	return vh.Hex(b) + "/" + nilness + "/" + errStr(err)
}

// bytesResNoNil is bytesRes without the nil-ness of the buffer (emptyBytesForMessage makes
// Marshal return a nil buffer for an invalid and an empty non-nil buffer for a valid message:
// that is the IsValid distinction of the property, observed separately).
func bytesResNoNil(b []byte, err error) string { return vh.Hex(b) + "/" + errStr(err) }

// renderValue canonicalises a protoreflect.Value obtained from a read-only Get.
func renderValue(fd protoreflect.FieldDescriptor, v protoreflect.Value) string {
	switch {
	case fd.IsList():
		l := v.List()
		return fmt.Sprintf("list(len=%d,valid=%v)", l.Len(), l.IsValid())
	case fd.IsMap():
		m := v.Map()
		n := 0
		m.Range(func(protoreflect.MapKey, protoreflect.Value) bool { n++; return true })
		return fmt.Sprintf("map(len=%d,range=%d,valid=%v)", m.Len(), n, m.IsValid())
	case fd.Message() != nil:
		m := v.Message()
		return fmt.Sprintf("msg(%s,valid=%v)", m.Descriptor().FullName(), m.IsValid())
	}
	switch fd.Kind() {
	case protoreflect.StringKind:
		return "s:" + vh.Hex([]byte(v.String()))
	case protoreflect.BytesKind:
		return "b:" + vh.Hex(v.Bytes())
	case protoreflect.FloatKind:
		return fmt.Sprintf("f32:%08x", math.Float32bits(float32(v.Float())))
	case protoreflect.DoubleKind:
		return fmt.Sprintf("f64:%016x", math.Float64bits(v.Float()))
	default:
		return fmt.Sprintf("n:%d", canonNum(fd, v))
	}
}

// renderGo canonicalises the result of a generated getter.
func renderGo(v reflect.Value) string {
	switch v.Kind() {
	case reflect.Ptr, reflect.Interface:
		if v.IsNil() {
			return v.Type().String() + ":nil"
		}
		return v.Type().String() + ":nonnil"
	case reflect.Slice:
		return fmt.Sprintf("%s:len=%d", v.Type(), v.Len())
	case reflect.Map:
		return fmt.Sprintf("%s:len=%d", v.Type(), v.Len())
	case reflect.Float32:
		return fmt.Sprintf("f32:%08x", math.Float32bits(float32(v.Float())))
	case reflect.Float64:
		return fmt.Sprintf("f64:%016x", math.Float64bits(v.Float()))
	case reflect.String:
		return "s:" + vh.Hex([]byte(v.String()))
	case reflect.Bool:
		return fmt.Sprint(v.Bool())
	case reflect.Int, reflect.Int32, reflect.Int64:
		return fmt.Sprint(v.Int())
	case reflect.Uint, reflect.Uint32, reflect.Uint64:
		return fmt.Sprint(v.Uint())
	}
	return v.Type().String() + ":?"
}

// entry is one read-only entry point: a canonical result for message m.
type entryPoint struct {
	name string
	f    func(m proto.Message) string
}

var jsonVariants = []struct {
	n string
	o protojson.MarshalOptions
}{
	{"default", protojson.MarshalOptions{AllowPartial: true}},
	{"strict", protojson.MarshalOptions{}},
	{"unpopulated", protojson.MarshalOptions{AllowPartial: true, EmitUnpopulated: true}},
	{"defaultvalues", protojson.MarshalOptions{AllowPartial: true, EmitDefaultValues: true}},
	{"multiline-protonames-enumnumbers", protojson.MarshalOptions{AllowPartial: true, Multiline: true, UseProtoNames: true, UseEnumNumbers: true}},
}

var textVariants = []struct {
	n string
	o prototext.MarshalOptions
}{
	{"default", prototext.MarshalOptions{AllowPartial: true}},
	{"strict", prototext.MarshalOptions{}},
	{"multiline-emitunknown", prototext.MarshalOptions{AllowPartial: true, Multiline: true, EmitUnknown: true}},
	{"ascii", prototext.MarshalOptions{AllowPartial: true, EmitASCII: true}},
}

var binVariants = []struct {
	n string
	o proto.MarshalOptions
}{
	{"default", proto.MarshalOptions{}},
	{"partial", proto.MarshalOptions{AllowPartial: true}},
	{"deterministic", proto.MarshalOptions{Deterministic: true}},
	{"partial-deterministic", proto.MarshalOptions{AllowPartial: true, Deterministic: true}},
	{"usecachedsize", proto.MarshalOptions{AllowPartial: true, UseCachedSize: true}},
}

func entryPoints(exts []protoreflect.ExtensionType) []entryPoint {
	var eps []entryPoint
	add := func(n string, f func(m proto.Message) string) { eps = append(eps, entryPoint{n, f}) }

	add("proto.Marshal", func(m proto.Message) string { return bytesResNoNil(proto.Marshal(m)) })
	for _, v := range binVariants {
		v := v
		add("MarshalOptions{"+v.n+"}.Marshal", func(m proto.Message) string { return bytesResNoNil(v.o.Marshal(m)) })
		add("MarshalOptions{"+v.n+"}.MarshalAppend(prefix)", func(m proto.Message) string {
			return bytesRes(v.o.MarshalAppend([]byte{0xde, 0xad}, m))
		})
		add("MarshalOptions{"+v.n+"}.MarshalAppend(nil)", func(m proto.Message) string {
			return bytesRes(v.o.MarshalAppend(nil, m))
		})
		add("MarshalOptions{"+v.n+"}.MarshalState", func(m proto.Message) string {
			out, err := v.o.MarshalState(protoifaceMarshalInput(m))
			return bytesRes(out.Buf, err)
		})
		add("MarshalOptions{"+v.n+"}.Size", func(m proto.Message) string { return fmt.Sprint(v.o.Size(m)) })
	}
	add("proto.Size", func(m proto.Message) string { return fmt.Sprint(proto.Size(m)) })
	add("proto.CheckInitialized", func(m proto.Message) string { return errStr(proto.CheckInitialized(m)) })
	add("proto.Clone:content", func(m proto.Message) string {
		c := proto.Clone(m)
		if c == nil {
			return "untyped-nil"
		}
		b, err := proto.MarshalOptions{AllowPartial: true, Deterministic: true}.Marshal(c)
		return fmt.Sprintf("%T %s %s", c, c.ProtoReflect().Descriptor().FullName(), bytesResNoNil(b, err))
	})
	add("proto.CloneOf:content", func(m proto.Message) string {
		c := proto.CloneOf(m)
		if c == nil {
			return "untyped-nil"
		}
		return fmt.Sprintf("%T %d", c, proto.Size(c))
	})
	add("proto.Merge(fresh,m)", func(m proto.Message) string {
		dst := m.ProtoReflect().New().Interface()
		proto.Merge(dst, m)
		b, err := proto.MarshalOptions{AllowPartial: true, Deterministic: true}.Marshal(dst)
		n := 0
		dst.ProtoReflect().Range(func(protoreflect.FieldDescriptor, protoreflect.Value) bool { n++; return true })
		return fmt.Sprintf("%s populated=%d", bytesResNoNil(b, err), n)
	})
	add("proto.Equal(m,m)", func(m proto.Message) string { return fmt.Sprint(proto.Equal(m, m)) })
	add("proto.Equal(m,untyped-nil)", func(m proto.Message) string {
		return fmt.Sprint(proto.Equal(m, nil), proto.Equal(nil, m))
	})
	add("proto.Equal(m,Clone(m))", func(m proto.Message) string { return fmt.Sprint(proto.Equal(m, proto.Clone(m))) })
	add("proto.MessageName", func(m proto.Message) string { return string(proto.MessageName(m)) })
	for _, v := range jsonVariants {
		v := v
		add("protojson.MarshalOptions{"+v.n+"}.Marshal", func(m proto.Message) string {
			b, err := v.o.Marshal(m)
			return string(b) + "/" + errStr(err)
		})
		add("protojson.MarshalOptions{"+v.n+"}.Format", func(m proto.Message) string { return v.o.Format(m) })
		add("protojson.MarshalOptions{"+v.n+"}.MarshalAppend", func(m proto.Message) string {
			b, err := v.o.MarshalAppend([]byte("x"), m)
			return string(b) + "/" + errStr(err)
		})
	}
	add("protojson.Marshal", func(m proto.Message) string {
		b, err := protojson.Marshal(m)
		return string(b) + "/" + errStr(err)
	})
	add("protojson.Format", func(m proto.Message) string { return protojson.Format(m) })
	for _, v := range textVariants {
		v := v
		add("prototext.MarshalOptions{"+v.n+"}.Marshal", func(m proto.Message) string {
			b, err := v.o.Marshal(m)
			return string(b) + "/" + errStr(err)
		})
		add("prototext.MarshalOptions{"+v.n+"}.Format", func(m proto.Message) string { return v.o.Format(m) })
		add("prototext.MarshalOptions{"+v.n+"}.MarshalAppend", func(m proto.Message) string {
			b, err := v.o.MarshalAppend([]byte("x"), m)
			return string(b) + "/" + errStr(err)
		})
	}
	add("prototext.Marshal", func(m proto.Message) string {
		b, err := prototext.Marshal(m)
		return string(b) + "/" + errStr(err)
	})
	add("prototext.Format", func(m proto.Message) string { return prototext.Format(m) })
	add("protoimpl.X.MessageStringOf", func(m proto.Message) string { return protoimpl.X.MessageStringOf(m) })
	add("fmt.Stringer", func(m proto.Message) string {
		if s, ok := protoimpl.X.ProtoMessageV1Of(m).(fmt.Stringer); ok {
			return s.String()
		}
		return "no-stringer"
	})

	// reflection
	add("reflect.Descriptor", func(m proto.Message) string { return string(m.ProtoReflect().Descriptor().FullName()) })
	add("reflect.Type", func(m proto.Message) string {
		t := m.ProtoReflect().Type()
		return fmt.Sprintf("%T %s", t, t.Descriptor().FullName())
	})
	add("reflect.Type.Zero/New", func(m proto.Message) string {
		t := m.ProtoReflect().Type()
		return fmt.Sprintf("zero.valid=%v new.valid=%v %T", t.Zero().IsValid(), t.New().IsValid(), t.New().Interface())
	})
	add("reflect.New", func(m proto.Message) string {
		n := m.ProtoReflect().New()
		return fmt.Sprintf("%T valid=%v size=%d", n.Interface(), n.IsValid(), proto.Size(n.Interface()))
	})
	add("reflect.Interface", func(m proto.Message) string { return fmt.Sprintf("%T", m.ProtoReflect().Interface()) })
	add("reflect.GetUnknown", func(m proto.Message) string {
		u := m.ProtoReflect().GetUnknown()
		return fmt.Sprintf("%s", vh.Hex(u))
	})
	add("reflect.Range", func(m proto.Message) string {
		n := 0
		m.ProtoReflect().Range(func(protoreflect.FieldDescriptor, protoreflect.Value) bool { n++; return true })
		return fmt.Sprint(n)
	})
	add("reflect.ProtoMethods", func(m proto.Message) string {
		pm := m.ProtoReflect().ProtoMethods()
		if pm == nil {
			return "nil"
		}
		return fmt.Sprintf("flags=%d", pm.Flags)
	})
	return eps
}

// fieldEntryPoints are evaluated once per field / oneof / extension.
func perFieldResults(m proto.Message, exts []protoreflect.ExtensionType) []string {
	var out []string
	r := m.ProtoReflect()
	md := r.Descriptor()
	fds := md.Fields()
	for i := 0; i < fds.Len(); i++ {
		fd := fds.Get(i)
		out = append(out, guard(func() string { return fmt.Sprintf("Has(%d)=%v", fd.Number(), r.Has(fd)) }))
		out = append(out, guard(func() string { return fmt.Sprintf("Get(%d)=%s", fd.Number(), renderValue(fd, r.Get(fd))) }))
	}
	ods := md.Oneofs()
	for i := 0; i < ods.Len(); i++ {
		od := ods.Get(i)
		out = append(out, guard(func() string {
			w := r.WhichOneof(od)
			if w == nil {
				return fmt.Sprintf("WhichOneof(%s)=nil", od.Name())
			}
			return fmt.Sprintf("WhichOneof(%s)=%d", od.Name(), w.Number())
		}))
	}
	for _, xt := range exts {
		xd := xt.TypeDescriptor()
		out = append(out, guard(func() string { return fmt.Sprintf("HasExt(%d)=%v", xd.Number(), r.Has(xd)) }))
		out = append(out, guard(func() string { return fmt.Sprintf("GetExt(%d)=%s", xd.Number(), renderValue(xd, r.Get(xd))) }))
		out = append(out, guard(func() string { return fmt.Sprintf("proto.HasExtension(%d)=%v", xd.Number(), proto.HasExtension(m, xt)) }))
		out = append(out, guard(func() string {
			v := proto.GetExtension(m, xt)
			return fmt.Sprintf("proto.GetExtension(%d)=%s", xd.Number(), renderValue(xd, xt.ValueOf(v)))
		}))
	}
	out = append(out, guard(func() string {
		n := 0
		proto.RangeExtensions(m, func(protoreflect.ExtensionType, any) bool { n++; return true })
		return fmt.Sprintf("proto.RangeExtensions=%d", n)
	}))
	return out
}

// getterResults calls every generated no-argument accessor (Get*/Has*/Which*) of the Go type.
func getterResults(m proto.Message) []string {
	var out []string
	g := protoimpl.X.ProtoMessageV1Of(m) // the underlying Go value (legacy wrappers are unwrapped)
	if g == nil {
		return nil
	}
	v := reflect.ValueOf(g)
	t := v.Type()
	for i := 0; i < t.NumMethod(); i++ {
		mt := t.Method(i)
		if !(strings.HasPrefix(mt.Name, "Get") || strings.HasPrefix(mt.Name, "Has") || strings.HasPrefix(mt.Name, "Which")) {
			continue
		}
		if mt.Type.NumIn() != 1 || mt.Type.NumOut() != 1 {
			continue
		}
		out = append(out, guard(func() string {
			res := v.Method(i).Call(nil)
			return mt.Name + "()=" + renderGo(res[0])
		}))
	}
	return out
}

var formatReported bool

// rendersValidity: the debugging renderers, which print "<nil>" for an invalid message.
func rendersValidity(ep string) bool {
	return strings.HasSuffix(ep, ".Format") || ep == "protoimpl.X.MessageStringOf" || ep == "fmt.Stringer"
}

func runNil(c *vh.Ctx) {
	c.R.Rule = "EXHAUSTIVE over protoregistry.GlobalTypes of a binary linking every package of the module with generated or legacy-generated code (imports.go): per message type, typed nil vs fresh empty message through every read-only entry point (binary marshal x option sets, Size, Clone, Equal, CheckInitialized, Merge-from, protojson/prototext Marshal/Format/MarshalAppend x option sets, String, reflection Has/Get per field, WhichOneof per oneof, extensions, Range, GetUnknown, Type/New/Descriptor, every generated Get*/Has*/Which* method). One evaluation = one (type, entry point[, field]) pair; non-trivial = the call returned without panicking on both sides; distinct by (type, entry point, field)."
	var mts []protoreflect.MessageType
	protoregistry.GlobalTypes.RangeMessages(func(mt protoreflect.MessageType) bool {
		mts = append(mts, mt)
		return true
	})
	sort.Slice(mts, func(i, j int) bool { return mts[i].Descriptor().FullName() < mts[j].Descriptor().FullName() })
	nEntry := 0
	goTypes := map[reflect.Type]bool{}
	for _, mt := range mts {
		name := string(mt.Descriptor().FullName())
		in := map[string]any{"type": name}
		var exts []protoreflect.ExtensionType
		protoregistry.GlobalTypes.RangeExtensionsByMessage(mt.Descriptor().FullName(), func(xt protoreflect.ExtensionType) bool {
			exts = append(exts, xt)
			return true
		})
		sort.Slice(exts, func(i, j int) bool { return exts[i].TypeDescriptor().Number() < exts[j].TypeDescriptor().Number() })

		var nilM, emp proto.Message
		ok := func() (ok bool) {
			defer c.Recover("constructing typed nil / empty message", in, "")
			nilM = mt.Zero().Interface()
			emp = mt.New().Interface()
			return true
		}()
		if !ok {
			continue
		}
		goTypes[reflect.TypeOf(emp)] = true
		c.Hist("impl:" + implClass(emp))

		// the two observers that must distinguish
		c.Check(guard(func() string { return fmt.Sprint(nilM.ProtoReflect().IsValid()) }) == "false", "typed nil: IsValid is not false", in, "")
		c.Check(guard(func() string { return fmt.Sprint(emp.ProtoReflect().IsValid()) }) == "true", "empty message: IsValid is not true", in, "")
		c.Check(guard(func() string { return fmt.Sprint(proto.Equal(nilM, emp), proto.Equal(emp, nilM)) }) == "false false", "Equal(nil, empty) is not false", in, "")
		c.Check(guard(func() string { return fmt.Sprint(proto.Equal(nilM, nilM), proto.Equal(nilM, mt.Zero().Interface())) }) == "true true", "Equal(nil, nil) is not true", in, "")
		c.Check(guard(func() string { return fmt.Sprint(proto.Clone(nilM).ProtoReflect().IsValid()) }) == "false", "Clone(typed nil) is valid", in, "")
		c.Check(guard(func() string { return fmt.Sprint(proto.Clone(emp).ProtoReflect().IsValid()) }) == "true", "Clone(empty) is not valid", in, "")
		c.Check(guard(func() string { b, _ := proto.Marshal(nilM); return fmt.Sprint(b == nil) }) == "true", "Marshal(typed nil) buffer is not nil (emptyBytesForMessage)", in, "")
		c.Check(guard(func() string {
			b, err := proto.MarshalOptions{AllowPartial: true}.Marshal(emp)
			return fmt.Sprint(b != nil, len(b), err)
		}) == "true 0 <nil>", "Marshal(empty, AllowPartial) is not a non-nil empty buffer", in, "")
		// the typed nil obtained through the Go type instead of the MessageType
		c.Check(guard(func() string {
			g := protoimpl.X.ProtoMessageV1Of(emp)
			z := reflect.Zero(reflect.TypeOf(g)).Interface()
			zm := protoimpl.X.ProtoMessageV2Of(z)
			return fmt.Sprint(zm.ProtoReflect().IsValid(), proto.Equal(zm, nilM), zm.ProtoReflect().Descriptor() == mt.Descriptor())
		}) == "false true true", "reflect.Zero(Go type) is not the typed nil of the message type", in, "")

		compare := func(ep string, a, b string) {
			in2 := map[string]any{"type": name, "entry": ep}
			nontrivial := !strings.HasPrefix(a, "PANIC") && !strings.HasPrefix(b, "PANIC")
			c.Case(name+"|"+ep, nontrivial)
			if a == "PANIC: not implemented" && b == a {
				// the String methods of the legacy test types call stubs of internal/protolegacy
				// (`panic("not implemented")`) on nil and non-nil receivers alike: not library code
				c.Hist("n/a:protolegacy-stub-panics")
				return
			}
			if strings.HasPrefix(a, "PANIC") {
				c.Fail(vh.Failure{Kind: "panic", What: ep + " on typed nil: " + a, Input: in2})
				return
			}
			if rendersValidity(ep) && a == "<nil>" && b != "<nil>" && !strings.HasPrefix(b, "PANIC") {
				// Format / String print the literal "<nil>" for an invalid message (documented debugging
				// behaviour): a third observer of IsValid next to IsValid and Equal.  Reported once.
				c.Hist("known:format-renders-invalid-as-nil-literal")
				if !formatReported {
					formatReported = true
					in2["nil_result"], in2["empty_result"] = a, b
					c.Fail(vh.Failure{Kind: "property", What: ep + ": typed nil is rendered as \"<nil>\", the empty message as " + fmt.Sprintf("%.80q", b), Input: in2, Sig: "format-renders-invalid-as-nil-literal"})
				}
				return
			}
			if a != b {
				c.Fail(vh.Failure{Kind: "property", What: fmt.Sprintf("%s: typed nil gives %.200q, empty message gives %.200q", ep, a, b), Input: in2})
			}
		}
		eps := entryPoints(exts)
		for _, ep := range eps {
			ep := ep
			a := guard(func() string { return ep.f(nilM) })
			b := guard(func() string { return ep.f(emp) })
			compare(ep.name, a, b)
		}
		ra, rb := perFieldResults(nilM, exts), perFieldResults(emp, exts)
		if c.Check(len(ra) == len(rb), "per-field entry point lists differ in length", in, "") {
			for i := range ra {
				key := ra[i]
				if k := strings.IndexByte(key, '='); k > 0 {
					key = key[:k]
				}
				compare("reflect."+key, ra[i], rb[i])
			}
		}
		ga, gb := getterResults(nilM), getterResults(emp)
		if c.Check(len(ga) == len(gb), "getter lists differ in length", in, "") {
			for i := range ga {
				key := ga[i]
				if k := strings.IndexByte(key, '='); k > 0 {
					key = key[:k]
				}
				compare("getter."+key, ga[i], gb[i])
			}
		}
		n := len(eps) + len(ra) + len(ga)
		nEntry += n
		if len(c.R.Samples) < 6 && (len(exts) > 0 || mt.Descriptor().Oneofs().Len() > 0) {
			c.Sample(map[string]any{"type": name, "go": fmt.Sprintf("%T", emp), "entry_points": n, "fields": mt.Descriptor().Fields().Len(), "getters": len(ga), "extensions": len(exts)})
		}
		nilModel(c, mt, nilM, emp)
		if c.Failed() {
			break
		}
	}
	if !c.Failed() {
		c.R.Exhaustive = true
	}
	c.R.Notes = append(c.R.Notes, fmt.Sprintf("message types enumerated: %d (distinct Go types %d); (type, entry point) pairs evaluated: %d; named entry points per type: %d + 2 per field + 1 per oneof + 4 per extension + every Get*/Has*/Which* method",
		len(mts), len(goTypes), nEntry, len(entryPoints(nil))))
}

func implClass(m proto.Message) string {
	t := reflect.TypeOf(m)
	s := t.String()
	switch {
	case strings.Contains(s, "impl.") || strings.Contains(s, "legacy"):
		return "legacy-wrapper"
	case strings.Contains(s, "dynamicpb"):
		return "dynamicpb"
	}
	if t.Kind() == reflect.Ptr && t.Elem().Kind() == reflect.Struct {
		if f, ok := t.Elem().FieldByName("state"); ok {
			switch f.Tag.Get("protogen") {
			case "opaque.v1":
				return "generated-opaque"
			case "hybrid.v1":
				return "generated-hybrid"
			case "open.v1":
				return "generated-open"
			}
			return "generated"
		}
	}
	return "other"
}

// nilModel compares the Lean observers on `none` / `some empty` with the implementation.
func nilModel(c *vh.Ctx, mt protoreflect.MessageType, nilM, emp proto.Message) {
	if !c.HasModel() {
		return
	}
	md := mt.Descriptor()
	if md.Fields().Len() > 400 {
		c.Hist("model:skipped-large")
		return
	}
	// only the root descriptor matters for the observers of an absent / empty message
	f := &Flat{Root: md, Index: map[protoreflect.FullName]int{}}
	lines := []string{"schema 1"}
	for i := 0; i < md.Fields().Len(); i++ {
		lines = append(lines, f.fieldLine(0, md.Fields().Get(i), false))
	}
	for _, l := range lines {
		if ans := c.Ask("%s", l); ans != "ok" {
			c.Compare("schema line", l, "ok", ans)
			return
		}
	}
	obs := func(m proto.Message) string {
		b, err := proto.Marshal(m)
		mres := vh.Hex(b)
		if err != nil {
			mres = "err-required"
		}
		ini := "ok"
		if proto.CheckInitialized(m) != nil {
			ini = "missing"
		}
		n := 0
		m.ProtoReflect().Range(func(protoreflect.FieldDescriptor, protoreflect.Value) bool { n++; return true })
		has := 0
		for i := 0; i < md.Fields().Len(); i++ {
			if m.ProtoReflect().Has(md.Fields().Get(i)) {
				has++
			}
		}
		cl := proto.Clone(m)
		return fmt.Sprintf("valid=%d marshal=%s size=%d init=%s range=%d has=%d unknown=%s clonevalid=%d eqself=%d eqempty=%d",
			b2i(m.ProtoReflect().IsValid()), mres, proto.Size(m), ini, n, has, vh.Hex(m.ProtoReflect().GetUnknown()),
			b2i(cl.ProtoReflect().IsValid()), b2i(proto.Equal(m, m)), b2i(proto.Equal(m, emp)))
	}
	in := map[string]any{"type": string(md.FullName())}
	c.Compare("nilobs none: model observers of the typed nil", in, guard(func() string { return obs(nilM) }), c.Ask("nilobs 0 none"))
	c.Compare("nilobs empty: model observers of the empty message", in, guard(func() string { return obs(emp) }), c.Ask("nilobs 0 empty"))
}
