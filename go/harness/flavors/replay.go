package main

// Parsing of the canonical token form `( NUM s VAL | NUM r COUNT VAL* … u HEX )` back into a content
// tree (descriptor-directed), for replay files.

import (
	"encoding/json"
	"fmt"
	"strconv"
	"strings"

	vh "google.golang.org/protobuf/internal/zz_verif_vh"
	"google.golang.org/protobuf/reflect/protoreflect"
)

func jsonUnmarshal(raw []byte, v any) error { return json.Unmarshal(raw, v) }

type snapParser struct {
	toks []string
	pos  int
	xf   extFinder
}

func (p *snapParser) next() (string, error) {
	if p.pos >= len(p.toks) {
		return "", fmt.Errorf("unexpected end")
	}
	p.pos++
	return p.toks[p.pos-1], nil
}

func (p *snapParser) val(fd protoreflect.FieldDescriptor) (TVal, error) {
	if fd.Message() != nil && !fd.IsMap() {
		t, err := p.msg(fd.Message())
		return TVal{Msg: t}, err
	}
	k, err := p.next()
	if err != nil {
		return TVal{}, err
	}
	x, err := p.next()
	if err != nil {
		return TVal{}, err
	}
	switch k {
	case "n":
		n, err := strconv.ParseUint(x, 10, 64)
		return TVal{Num: n}, err
	case "b":
		return TVal{Bytes: append([]byte{}, vh.UnHex(x)...), IsB: true}, nil
	}
	return TVal{}, fmt.Errorf("bad value token %q", k)
}

func (p *snapParser) msg(md protoreflect.MessageDescriptor) (*Tree, error) {
	if s, err := p.next(); err != nil || s != "(" {
		return nil, fmt.Errorf("expected (")
	}
	t := &Tree{}
	for {
		s, err := p.next()
		if err != nil {
			return nil, err
		}
		if s == "u" {
			h, err := p.next()
			if err != nil {
				return nil, err
			}
			t.Unknown = vh.UnHex(h)
			if s, err := p.next(); err != nil || s != ")" {
				return nil, fmt.Errorf("expected )")
			}
			return t, nil
		}
		n, err := strconv.Atoi(s)
		if err != nil {
			return nil, fmt.Errorf("bad field number %q", s)
		}
		num := protoreflect.FieldNumber(n)
		fd := protoreflect.FieldDescriptor(md.Fields().ByNumber(num))
		f := &TField{Num: num}
		if fd == nil {
			xt := p.xf(md, num)
			if xt == nil {
				return nil, fmt.Errorf("unknown field %d of %s", n, md.FullName())
			}
			fd = xt.TypeDescriptor()
			f.Ext = true
		}
		card, err := p.next()
		if err != nil {
			return nil, err
		}
		switch card {
		case "s":
			v, err := p.val(fd)
			if err != nil {
				return nil, err
			}
			f.kind, f.One = "s", &v
		case "r":
			cs, err := p.next()
			if err != nil {
				return nil, err
			}
			cnt, err := strconv.Atoi(cs)
			if err != nil {
				return nil, err
			}
			if fd.IsMap() {
				f.kind = "m"
				for i := 0; i < cnt; i++ {
					// ( 1 s K 2 s V u - )
					for _, want := range []string{"(", "1", "s"} {
						if s, err := p.next(); err != nil || s != want {
							return nil, fmt.Errorf("bad map entry")
						}
					}
					k, err := p.val(fd.MapKey())
					if err != nil {
						return nil, err
					}
					for _, want := range []string{"2", "s"} {
						if s, err := p.next(); err != nil || s != want {
							return nil, fmt.Errorf("bad map entry")
						}
					}
					v, err := p.val(fd.MapValue())
					if err != nil {
						return nil, err
					}
					for _, want := range []string{"u", "-", ")"} {
						if s, err := p.next(); err != nil || s != want {
							return nil, fmt.Errorf("bad map entry end")
						}
					}
					f.Map = append(f.Map, TEntry{k, v})
				}
			} else {
				f.kind = "l"
				for i := 0; i < cnt; i++ {
					v, err := p.val(fd)
					if err != nil {
						return nil, err
					}
					f.List = append(f.List, v)
				}
			}
		default:
			return nil, fmt.Errorf("bad cardinality token %q", card)
		}
		t.Fields = append(t.Fields, f)
	}
}

// parseSnapFor parses the token form against descriptor md.
func parseSnapFor(md protoreflect.MessageDescriptor, xf extFinder, s string) (*Tree, error) {
	p := &snapParser{toks: strings.Fields(s), xf: xf}
	t, err := p.msg(md)
	if err == nil && p.pos != len(p.toks) {
		err = fmt.Errorf("trailing tokens")
	}
	return t, err
}
