package main

// C46: legacy and struct-tag-only messages behave like generated ones.
//
//  (a) struct-tag grammar: tag.Marshal / tag.Unmarshal against the Lean model (Model/StructTag.lean)
//      on every field and extension of every linked message type, with the right and with wrong Go
//      types, plus a stream of random token soups;
//  (b) the twelve historical generations under internal/testprotos/legacy (legacy_gen.go): the same
//      random content is built through reflection into every generation's wrapped legacy message,
//      into dynamicpb of the derived descriptor and into a struct-tag-only twin of `Message`
//      (descriptor derived by aberrantLoadMessageDesc from the tags alone); deterministic bytes,
//      reflection snapshots, JSON and text are compared across all of them and with the Lean
//      message model; every voice decodes another voice's bytes / JSON / text; protoadapt round trip;
//  (c) the twin's derived descriptor is compared field by field with the raw descriptor.

import (
	"bytes"
	"encoding/json"
	"fmt"
	"reflect"
	"regexp"
	"sort"
	"strings"

	"google.golang.org/protobuf/encoding/protojson"
	"google.golang.org/protobuf/encoding/prototext"
	"google.golang.org/protobuf/internal/encoding/defval"
	"google.golang.org/protobuf/internal/encoding/tag"
	"google.golang.org/protobuf/internal/filedesc"
	vh "google.golang.org/protobuf/internal/zz_verif_vh"
	"google.golang.org/protobuf/proto"
	"google.golang.org/protobuf/protoadapt"
	"google.golang.org/protobuf/reflect/protoreflect"
	"google.golang.org/protobuf/reflect/protoregistry"
	"google.golang.org/protobuf/runtime/protoimpl"
	"google.golang.org/protobuf/types/dynamicpb"
)

// oneofWrappersOf returns the oneof wrapper types of a legacy message through whichever method its
// generation has (XXX_OneofFuncs until 2018, XXX_OneofWrappers from 2019).
func oneofWrappersOf(m any) []any {
	v := reflect.ValueOf(m)
	for _, name := range []string{"XXX_OneofWrappers", "XXX_OneofFuncs"} {
		if fn := v.MethodByName(name); fn.IsValid() {
			for _, r := range fn.Call(nil) {
				if ws, ok := r.Interface().([]any); ok {
					return ws
				}
			}
		}
	}
	return nil
}

func runLegacy(c *vh.Ctx) {
	c.R.Rule = "(a) one evaluation per (field or extension of a linked message type, Go type given to tag.Unmarshal) and per random token soup: tag.Marshal/tag.Unmarshal vs the Lean model; non-trivial = the tag has at least 4 tokens. (b) one evaluation per (legacy message type, random content, voice) where voice ranges over the six generations of the schema x {wrapped legacy message, dynamicpb of the derived descriptor, struct-tag-only twin (Message only)}; non-trivial = non-empty deterministic encoding; distinct by (type, voice, bytes)."
	tagCorrespondence(c)
	tagSoups(c)
	tagOrder(c)
	if c.Failed() {
		return
	}
	legacyGenerations(c)
}

// ---------------------------------------------------------------- (a) struct tags

var goTypes = map[string]reflect.Type{
	"bool": reflect.TypeOf(false), "int32": reflect.TypeOf(int32(0)), "int64": reflect.TypeOf(int64(0)),
	"uint32": reflect.TypeOf(uint32(0)), "uint64": reflect.TypeOf(uint64(0)), "float32": reflect.TypeOf(float32(0)),
	"float64": reflect.TypeOf(float64(0)), "string": reflect.TypeOf(""), "bytes": reflect.TypeOf([]byte(nil)),
	"other": reflect.TypeOf((*struct{})(nil)),
}
var goKindNames = []string{"bool", "int32", "int64", "uint32", "uint64", "float32", "float64", "string", "bytes", "other"}

func goKindFor(k protoreflect.Kind) string {
	switch k {
	case protoreflect.BoolKind:
		return "bool"
	case protoreflect.EnumKind, protoreflect.Int32Kind, protoreflect.Sint32Kind, protoreflect.Sfixed32Kind:
		return "int32"
	case protoreflect.Int64Kind, protoreflect.Sint64Kind, protoreflect.Sfixed64Kind:
		return "int64"
	case protoreflect.Uint32Kind, protoreflect.Fixed32Kind:
		return "uint32"
	case protoreflect.Uint64Kind, protoreflect.Fixed64Kind:
		return "uint64"
	case protoreflect.FloatKind:
		return "float32"
	case protoreflect.DoubleKind:
		return "float64"
	case protoreflect.StringKind:
		return "string"
	case protoreflect.BytesKind:
		return "bytes"
	}
	return "other"
}

func labelName(c protoreflect.Cardinality) string {
	switch c {
	case protoreflect.Optional:
		return "opt"
	case protoreflect.Required:
		return "req"
	case protoreflect.Repeated:
		return "rep"
	}
	return "unset"
}

func kindNameOrUnset(k protoreflect.Kind) string {
	if k == 0 {
		return "unset"
	}
	return k.String()
}

type noEnumValues struct {
	protoreflect.EnumValueDescriptors
}

func (noEnumValues) ByNumber(protoreflect.EnumNumber) protoreflect.EnumValueDescriptor { return nil }
func (noEnumValues) ByName(protoreflect.Name) protoreflect.EnumValueDescriptor         { return nil }

// unmarshalView renders what tag.Unmarshal produced in the format of the model's `tagu` answer.
// The default is checked against defval.Unmarshal of the text the model says was handed over.
func unmarshalView(c *vh.Ctx, tagStr, gk string, evs protoreflect.EnumValueDescriptors, modelAns string, in any) string {
	fd := tag.Unmarshal(tagStr, goTypes[gk], evs)
	if f, ok := fd.(*filedesc.Field); ok && f.L1.Kind == protoreflect.GroupKind && f.L1.Message == nil {
		// tag.Unmarshal leaves Message unset (its caller fills it in); the lazily computed names of a
		// group field consult it
		f.L1.Message = filedesc.PlaceholderMessage("verif.Placeholder")
	}
	jsonExplicit := "none"
	if fd.HasJSONName() {
		jsonExplicit = vh.Hex([]byte(fd.JSONName()))
	}
	// fields of the answer that are not observable through the descriptor API are taken from the model's
	// answer after checking their observable consequence
	mf := map[string]string{}
	for _, kv := range strings.Fields(modelAns) {
		if i := strings.IndexByte(kv, '='); i > 0 {
			mf[kv[:i]] = kv[i+1:]
		}
	}
	// packed (the local variable): observable only through IsPacked; def: through HasDefault/Default
	defField := mf["def"]
	if modelAns == "" {
		// no model answer to lean on (implementation-only use): report what the descriptor shows
		defField = "none"
		if fd.HasDefault() {
			defField = "has-default"
		}
	} else if defField != "" && defField != "none" {
		text := string(vh.UnHex(defField))
		v, ev, err := defval.Unmarshal(text, fd.Kind(), evs, defval.GoTag)
		wantHas := err == nil && v.IsValid()
		_ = ev
		c.Check(fd.HasDefault() == wantHas, fmt.Sprintf("tag.Unmarshal: HasDefault=%v but defval.Unmarshal(%q) ok=%v", fd.HasDefault(), text, wantHas), in, "")
		if wantHas && fd.HasDefault() {
			c.Check(fd.Default().Equal(v) || (fd.Kind() == protoreflect.BytesKind && bytes.Equal(fd.Default().Bytes(), v.Bytes())), "tag.Unmarshal: Default differs from defval.Unmarshal of the text after def=", in, "")
		}
	} else {
		c.Check(!fd.HasDefault(), "tag.Unmarshal: HasDefault without a def= token", in, "")
	}
	syntax3 := fd.Syntax() == protoreflect.Proto3
	return fmt.Sprintf("name=%s number=%d label=%s kind=%s json=%s packed=%s proto3=%d def=%s jsonname=%s ispacked=%d",
		vh.Hex([]byte(fd.FullName())), int32(fd.Number()), labelName(fd.Cardinality()), kindNameOrUnset(fd.Kind()),
		jsonExplicit, mf["packed"], b2i(syntax3), defField, vh.Hex([]byte(fd.JSONName())), b2i(fd.IsPacked()))
}

func isASCII(s string) bool {
	for i := 0; i < len(s); i++ {
		if s[i] >= 0x80 {
			return false
		}
	}
	return true
}

func tagCorrespondence(c *vh.Ctx) {
	var fds []protoreflect.FieldDescriptor
	protoregistry.GlobalTypes.RangeMessages(func(mt protoreflect.MessageType) bool {
		var walk func(md protoreflect.MessageDescriptor)
		walk = func(md protoreflect.MessageDescriptor) {
			for i := 0; i < md.Fields().Len(); i++ {
				fds = append(fds, md.Fields().Get(i))
			}
		}
		walk(mt.Descriptor())
		// map entry messages are not registered types: visit them through their map field
		for i := 0; i < mt.Descriptor().Fields().Len(); i++ {
			if fd := mt.Descriptor().Fields().Get(i); fd.IsMap() {
				walk(fd.Message())
			}
		}
		return true
	})
	protoregistry.GlobalTypes.RangeExtensions(func(xt protoreflect.ExtensionType) bool {
		fds = append(fds, xt.TypeDescriptor())
		return true
	})
	sort.Slice(fds, func(i, j int) bool { return fds[i].FullName() < fds[j].FullName() })
	stride := 1
	if !c.Thorough() && len(fds) > 9000 {
		stride = 1 // all fields in both tiers: the call is cheap
	}
	for i := 0; i < len(fds) && !c.Failed(); i += stride {
		fd := fds[i]
		name := string(fd.Name())
		if !isASCII(name) || !isASCII(fd.JSONName()) {
			c.Hist("tag:skipped-non-ascii")
			continue
		}
		enumName := ""
		var evs protoreflect.EnumValueDescriptors = noEnumValues{}
		if fd.Kind() == protoreflect.EnumKind {
			evs = fd.Enum().Values()
			if c.Rand.Intn(8) != 0 { // sometimes without the enum name, as tag.Marshal allows
				enumName = string(fd.Enum().FullName())
			}
		}
		msgName := ""
		if fd.Kind() == protoreflect.GroupKind {
			msgName = string(fd.Message().Name())
		}
		in := map[string]any{"field": string(fd.FullName()), "enumName": enumName}
		func() {
			defer c.Recover("tag.Marshal/Unmarshal", in, "")
			got := tag.Marshal(fd, enumName)
			in["tag"] = got
			defText, hasDef := "", fd.HasDefault()
			if hasDef {
				defText, _ = defval.Marshal(fd.Default(), fd.DefaultEnumValue(), fd.Kind(), defval.GoTag)
			}
			if c.HasModel() {
				ans := c.Ask("tagm %s %d %s %d %s %s %s %d %d %s %d %d %s", fd.Kind().String(), fd.Number(), labelName(fd.Cardinality()),
					b2i(fd.IsPacked()), vh.Hex([]byte(name)), vh.Hex([]byte(msgName)), vh.Hex([]byte(fd.JSONName())), b2i(fd.IsExtension()),
					b2i(fd.Syntax() == protoreflect.Proto3), vh.Hex([]byte(enumName)), b2i(fd.ContainingOneof() != nil), b2i(hasDef), vh.Hex([]byte(defText)))
				c.Compare("tagm: model marshalTag vs tag.Marshal", in, vh.Hex([]byte(got)), ans)
			}
			// parse it back with the Go type generated for the kind, and with a random other Go type
			gks := []string{goKindFor(fd.Kind()), goKindNames[c.Rand.Intn(len(goKindNames))]}
			for gi, gk := range gks {
				in2 := map[string]any{"tag": got, "gokind": gk, "field": string(fd.FullName())}
				ans := ""
				if c.HasModel() {
					ans = c.Ask("tagu %s %s", gk, vh.Hex([]byte(got)))
				}
				view := unmarshalView(c, got, gk, evs, ans, in2)
				if c.HasModel() {
					c.Compare("tagu: model unmarshalTag vs tag.Unmarshal", in2, view, ans)
				}
				c.Hist("tag:gokind-" + []string{"right", "random"}[gi])
				c.Case("tag|"+got+"|"+gk, strings.Count(got, ",") >= 3)
			}
			// direct property: the round trip of the attributes, under the hypotheses of C46.unmarshal_marshal
			rt := tag.Unmarshal(got, goTypes[goKindFor(fd.Kind())], evs)
			if f, ok := rt.(*filedesc.Field); ok && f.L1.Kind == protoreflect.GroupKind && f.L1.Message == nil {
				f.L1.Message = fd.Message()
			}
			wf := !fd.IsExtension() && !strings.ContainsAny(name+fd.JSONName()+enumName+msgName, ",") &&
				(fd.Kind() != protoreflect.EnumKind || enumName != "") &&
				(fd.Kind() != protoreflect.GroupKind || name == strings.ToLower(msgName)) &&
				fd.IsPacked() == (fd.Cardinality() == protoreflect.Repeated && packableKind(fd.Kind()) && (fd.IsPacked() || fd.Syntax() == protoreflect.Proto3))
			tn := name
			if fd.Kind() == protoreflect.GroupKind {
				tn = msgName
			}
			emits := fd.JSONName() != "" && fd.JSONName() != tn
			if !(emits && fd.JSONName() != jsonCamel(tn)) && fd.JSONName() != jsonCamel(name) {
				wf = false
			}
			if wf {
				c.Hist("tag:roundtrip-wf")
				ok := string(rt.Name()) == name && rt.Number() == fd.Number() && rt.Cardinality() == fd.Cardinality() && rt.Kind() == fd.Kind() &&
					rt.JSONName() == fd.JSONName() && rt.IsPacked() == fd.IsPacked() && (rt.Syntax() == protoreflect.Proto3) == (fd.Syntax() == protoreflect.Proto3) &&
					rt.HasDefault() == fd.HasDefault()
				if ok && fd.HasDefault() && fd.Kind() != protoreflect.EnumKind {
					ok = rt.Default().Equal(fd.Default()) || (fd.Kind() == protoreflect.BytesKind && bytes.Equal(rt.Default().Bytes(), fd.Default().Bytes()))
				}
				c.Check(ok, "tag.Unmarshal(tag.Marshal(fd)) does not carry the attributes of fd", in, "")
			} else {
				c.Hist("tag:roundtrip-outside-hypotheses")
			}
		}()
	}
	c.R.Notes = append(c.R.Notes, fmt.Sprintf("struct tags: %d fields and extensions of all linked message types", len(fds)))
}

func packableKind(k protoreflect.Kind) bool {
	switch k {
	case protoreflect.StringKind, protoreflect.BytesKind, protoreflect.MessageKind, protoreflect.GroupKind:
		return false
	}
	return true
}

// jsonCamel is strs.JSONCamelCase re-implemented (the harness-side reference for the hypothesis only).
func jsonCamel(s string) string {
	var b []byte
	was := false
	for i := 0; i < len(s); i++ {
		ch := s[i]
		if ch != '_' {
			if was && 'a' <= ch && ch <= 'z' {
				ch -= 'a' - 'A'
			}
			b = append(b, ch)
		}
		was = ch == '_'
	}
	return string(b)
}

var soupTokens = []string{"varint", "zigzag32", "zigzag64", "fixed32", "fixed64", "bytes", "group", "opt", "req", "rep", "packed", "proto3", "oneof",
	"name=foo", "name=foo_bar", "name=Foo.bar_baz", "name=", "name=OptionalGroup", "json=fooBar", "json=foo_bar", "json=", "json=barBaz", "json=optionalgroup", "enum=pkg.E", "enum=",
	"def=7", "def=", "def=a,b,opt", "def=hello, \"world!\"\n", "def=true", "def=-inf", "0", "1", "007", "536870911", "2147483647", "2147483648", "4294967295", "4294967296", "99999999999999999999", "",
	"Opt", "opt ", " rep", "weak", "embedded", "customtype=x", "name", "json", "def", "varint=1", "12a", "-1", "+1", "1_0", "proto2", "lazy", "name=a=b", "packed=true"}

func tagSoups(c *vh.Ctx) {
	n := c.N(4000, 150000)
	type job struct{ tag, gk string }
	var replay []job
	for _, raw := range c.ReplayInputs() {
		var ri struct {
			Tag    string `json:"tag"`
			GoKind string `json:"gokind"`
		}
		if jsonUnmarshal(raw, &ri) == nil && ri.Tag != "" && goTypes[ri.GoKind] != nil {
			replay = append(replay, job{ri.Tag, ri.GoKind})
		}
	}
	for i := -len(replay); i < n && !c.Failed(); i++ {
		k := 1 + c.Rand.Intn(8)
		var s, gk string
		if i < 0 {
			s, gk, k = replay[i+len(replay)].tag, replay[i+len(replay)].gk, 8
		} else {
			var ts []string
			for j := 0; j < k; j++ {
				ts = append(ts, soupTokens[c.Rand.Intn(len(soupTokens))])
			}
			s = strings.Join(ts, ",")
			if c.Rand.Intn(10) == 0 {
				s += ","
			}
			gk = goKindNames[c.Rand.Intn(len(goKindNames))]
		}
		in := map[string]any{"tag": s, "gokind": gk}
		func() {
			defer c.Recover("tag.Unmarshal(soup)", in, "")
			ans := ""
			if c.HasModel() {
				ans = c.Ask("tagu %s %s", gk, vh.Hex([]byte(s)))
			}
			view := unmarshalView(c, s, gk, noEnumValues{}, ans, in)
			if c.HasModel() {
				c.Compare("tagu(soup): model unmarshalTag vs tag.Unmarshal", in, view, ans)
			}
			c.Hist("tag:soup")
			c.Case("soup|"+s+"|"+gk, k >= 4)
		}()
	}
}

// tagOrder: metamorphic property evaluated on the implementation alone.  The tokens kind / number / label /
// packed / proto3 / name= / enum= are independent of each other (only json= reads the name parsed before it
// and def= must be last), so tag.Unmarshal must give the same descriptor for every order of them.
func tagOrder(c *vh.Ctx) {
	kinds := []string{"varint", "zigzag32", "zigzag64", "fixed32", "fixed64", "bytes", "group"}
	labels := []string{"opt", "req", "rep"}
	n := c.N(3000, 100000)
	for i := 0; i < n && !c.Failed(); i++ {
		toks := []string{kinds[c.Rand.Intn(len(kinds))], fmt.Sprint(1 + c.Rand.Intn(5000)), labels[c.Rand.Intn(len(labels))], "name=some_field"}
		if c.Rand.Intn(2) == 0 {
			toks = append(toks, "packed")
		}
		if c.Rand.Intn(2) == 0 {
			toks = append(toks, "proto3")
		}
		if c.Rand.Intn(4) == 0 {
			toks = append(toks, "oneof")
		}
		gk := goKindNames[c.Rand.Intn(len(goKindNames))]
		perm := append([]string{}, toks...)
		c.Rand.Shuffle(len(perm), func(a, b int) { perm[a], perm[b] = perm[b], perm[a] })
		suffix := ""
		if c.Rand.Intn(3) == 0 {
			suffix = ",def=1"
		}
		a, b := strings.Join(toks, ",")+suffix, strings.Join(perm, ",")+suffix
		in := map[string]any{"tag": a, "permuted": b, "gokind": gk}
		func() {
			defer c.Recover("tag.Unmarshal(permuted)", in, "")
			va := unmarshalView(c, a, gk, noEnumValues{}, "", in)
			vb := unmarshalView(c, b, gk, noEnumValues{}, "", in)
			c.Check(va == vb, "tag.Unmarshal depends on the order of independent tokens: "+va+" vs "+vb, in, "")
			c.Hist("tag:order")
			c.Case("order|"+b+"|"+gk, true)
		}()
	}
}

// ---------------------------------------------------------------- (b) the twelve generations

var pkgToken = regexp.MustCompile(`proto([23])_\d{8}`)

func normPkg(s string) string { return pkgToken.ReplaceAllString(s, "proto${1}_X") }

type voice struct {
	name string
	gen  *legacyGen
	kind string // legacy | dynamic | twin
	mk   func() protoreflect.Message
	flat *Flat
}

// twinWitness replays (corpus first) the witness of a defect repaired in /repo 30a2116 (proto3 fields derived
// from tags without the `proto3` token kept proto2 features): optional_sfixed32 (108) = -1 and nothing else.
// The twin must marshal to e506ffffffff like the same struct seen through its raw descriptor, and its fields
// must have the presence discipline the raw descriptor says.  A recurrence is an unclassified failure
// (VIOLATION); the twin is then left out of the random comparisons, which would only repeat the report.
func twinWitness(c *vh.Ctx, v *voice, raw protoreflect.MessageDescriptor) (defective bool) {
	in := map[string]any{"type": "Message", "voice": v.name, "content": "( 108 s n 18446744073709551615 u - )"}
	defer c.Recover("twin witness", in, "")
	m := v.mk()
	fd := m.Descriptor().Fields().ByNumber(108)
	rfd := raw.Fields().ByNumber(108)
	if fd == nil || rfd == nil {
		return false
	}
	m.Set(fd, protoreflect.ValueOfInt32(-1))
	got, err := detPartial.Marshal(m.Interface())
	asLegacy := protoimpl.X.ProtoMessageV2Of(v.gen.TwinToV1(protoimpl.X.ProtoMessageV1Of(m.Interface())))
	want, err2 := detPartial.Marshal(asLegacy)
	in["bytes"], in["bytes_through_raw_descriptor"] = vh.Hex(got), vh.Hex(want)
	var what []string
	if err != nil || err2 != nil || !bytes.Equal(got, want) {
		what = append(what, fmt.Sprintf("struct-tag-only message marshals to %s, the same struct through its raw descriptor to %s", vh.Hex(got), vh.Hex(want)))
	}
	n := 0
	for i := 0; i < raw.Fields().Len(); i++ {
		rf := raw.Fields().Get(i)
		if tf := m.Descriptor().Fields().ByNumber(rf.Number()); tf != nil && tf.HasPresence() != rf.HasPresence() {
			n++
		}
	}
	if n > 0 {
		what = append(what, fmt.Sprintf("%d fields of the derived descriptor have HasPresence() != raw descriptor (Syntax() = %v, optional_sfixed32.HasPresence() = %v)", n, fd.Syntax(), fd.HasPresence()))
	}
	if len(what) == 0 {
		return false
	}
	c.Check(false, "struct-tag-only message: "+strings.Join(what, "; "), in, "")
	return true
}

// storesUnknown: dynamicpb always; a legacy struct only if it has an XXX_unrecognized field.
func (v *voice) storesUnknown() bool {
	if v.kind == "dynamic" {
		return true
	}
	g := protoimpl.X.ProtoMessageV1Of(v.mk().Interface())
	t := reflect.TypeOf(g)
	if t.Kind() == reflect.Ptr && t.Elem().Kind() == reflect.Struct {
		_, ok := t.Elem().FieldByName("XXX_unrecognized")
		return ok
	}
	return false
}

func treeHasUnknown(t *Tree) bool {
	if len(t.Unknown) > 0 {
		return true
	}
	sub := func(v TVal) bool { return v.Msg != nil && treeHasUnknown(v.Msg) }
	for _, f := range t.Fields {
		if f.One != nil && sub(*f.One) {
			return true
		}
		for _, e := range f.List {
			if sub(e) {
				return true
			}
		}
		for _, e := range f.Map {
			if sub(e.V) {
				return true
			}
		}
	}
	return false
}

func extFinderGlobal(md protoreflect.MessageDescriptor, num protoreflect.FieldNumber) protoreflect.ExtensionType {
	return nil
}

// canonJSON re-encodes JSON through encoding/json (protojson output spacing is deliberately unstable).
func canonJSON(b []byte) string {
	var v any
	d := json.NewDecoder(bytes.NewReader(b))
	d.UseNumber()
	if err := d.Decode(&v); err != nil {
		return "invalid-json: " + err.Error()
	}
	out, _ := json.Marshal(v)
	return string(out)
}

var detPartial = proto.MarshalOptions{AllowPartial: true, Deterministic: true}

func legacyGenerations(c *vh.Ctx) {
	for _, syntax := range []string{"proto2", "proto3"} {
		var gens []*legacyGen
		for i := range legacyGens {
			if legacyGens[i].Syntax == syntax {
				gens = append(gens, &legacyGens[i])
			}
		}
		// message names of the schema: those registered by the first generation
		var names []string
		protoregistry.GlobalTypes.RangeMessages(func(mt protoreflect.MessageType) bool {
			if n := string(mt.Descriptor().FullName()); strings.HasPrefix(n, gens[0].Pkg+".") {
				names = append(names, strings.TrimPrefix(n, gens[0].Pkg+"."))
			}
			return true
		})
		sort.Strings(names)
		c.R.Notes = append(c.R.Notes, fmt.Sprintf("%s: %d generations %v, message types per generation: %v", syntax, len(gens), genDirs(gens), names))
		for _, n := range names {
			legacyType(c, gens, n)
			if c.Failed() {
				return
			}
		}
	}
}

func genDirs(gs []*legacyGen) []string {
	var out []string
	for _, g := range gs {
		out = append(out, g.Dir)
	}
	return out
}

func legacyType(c *vh.Ctx, gens []*legacyGen, name string) {
	var voices []*voice
	in0 := map[string]any{"type": name}
	defer c.Recover("legacy type setup", in0, "")
	for _, g := range gens {
		g := g
		mt, err := protoregistry.GlobalTypes.FindMessageByName(protoreflect.FullName(g.Pkg + "." + name))
		if !c.Check(err == nil, "generation "+g.Dir+" does not register "+name, in0, "") {
			continue
		}
		fl := Flatten(mt.Descriptor(), protoregistry.GlobalTypes)
		voices = append(voices, &voice{name: g.Dir + "/legacy", gen: g, kind: "legacy", mk: mt.New, flat: fl})
		dt := dynamicpb.NewMessageType(mt.Descriptor())
		voices = append(voices, &voice{name: g.Dir + "/dynamicpb", gen: g, kind: "dynamic", mk: dt.New, flat: fl})
		if name == "Message" {
			mk := func() protoreflect.Message { return protoimpl.X.ProtoMessageV2Of(g.NewTwin()).ProtoReflect() }
			tw := mk()
			tv := &voice{name: g.Dir + "/struct-tag-twin", gen: g, kind: "twin", mk: mk, flat: Flatten(tw.Descriptor(), protoregistry.GlobalTypes)}
			if twinWitness(c, tv, mt.Descriptor()) {
				// the witness failed on this twin (reported with the witness): its descriptor is inconsistent,
				// comparing random contents through it would only repeat the report
				c.Hist("twin:excluded-after-witness-failure")
				continue
			}
			voices = append(voices, tv)
			twinDescriptor(c, g, mt.Descriptor(), tw.Descriptor())
		}
	}
	if len(voices) == 0 {
		return
	}
	// corpus first: the empty message of every voice marshals to nothing
	for _, v := range voices {
		func() {
			in := map[string]any{"type": name, "voice": v.name, "content": "( u - )"}
			defer c.Recover("empty message", in, "")
			b, err := detPartial.Marshal(v.mk().Interface())
			c.Check(err == nil && len(b) == 0, fmt.Sprintf("the empty message of %s marshals to %d bytes: %s", v.name, len(b), vh.Hex(b)), in, "")
		}()
	}
	// the schema as the model sees it must be the same for every voice
	ref := voices[0]
	for _, v := range voices[1:] {
		a, b := ref.flat.Lines, v.flat.Lines
		if v.kind == "twin" {
			// the twin has another full name (no extensions are registered for it) and reaches its
			// submessages in another order: compare the root's own field lines, without the sub index
			a, b = rootLines(ref.flat), rootLines(v.flat)
		}
		if !sameLines(a, b) {
			c.Check(false, "flattened schema of "+v.name+" differs from "+ref.name+": "+firstDiff(a, b), in0, "")
		}
	}
	ref.flat.Send(c)
	xfFor := func(v *voice) extFinder {
		return func(md protoreflect.MessageDescriptor, num protoreflect.FieldNumber) protoreflect.ExtensionType {
			// extensions are registered against the generation's real message name; the twin has the same ranges
			full := md.FullName()
			if v.kind == "twin" && md == v.flat.Root {
				full = protoreflect.FullName(v.gen.Pkg + ".Message")
			}
			xt, _ := protoregistry.GlobalTypes.FindExtensionByNumber(full, num)
			return xt
		}
	}
	per := c.N(12, 400)
	if name != "Message" {
		per = c.N(6, 150)
	}
	// the neutral content is generated in dynamicpb (of a random generation's derived descriptor), never
	// in one of the implementations under comparison
	var dynVoices []*voice
	for _, v := range voices {
		if v.kind == "dynamic" {
			dynVoices = append(dynVoices, v)
		}
	}
	// replayed contents first
	var replayTrees []*Tree
	for _, raw := range c.ReplayInputs() {
		var ri struct {
			Type    string `json:"type"`
			Content string `json:"content"`
		}
		if jsonUnmarshal(raw, &ri) == nil && ri.Type == name && ri.Content != "" {
			if t, err := parseSnapFor(dynVoices[0].flat.Root, xfFor(dynVoices[0]), ri.Content); err == nil {
				replayTrees = append(replayTrees, t)
			}
		}
	}
	for it := -len(replayTrees); it < per && !c.Failed(); it++ {
		var src *voice
		var t *Tree
		if it < 0 {
			src, t = dynVoices[0], replayTrees[it+len(replayTrees)]
		} else {
			// random content
			src = dynVoices[c.Rand.Intn(len(dynVoices))]
			var exts []protoreflect.ExtensionType
			for _, xs := range src.flat.Exts {
				exts = append(exts, xs...)
			}
			if it%2 == 1 {
				exts = nil // the struct-tag twin has its own full name: the generations' extensions do not apply to it
			}
			m0 := src.mk()
			fill(c, m0, 0, Opts{MaxDepth: 2, NegZero: true, FieldProb: 3 + c.Rand.Intn(6)}, exts)
			t = treeOf(m0)
		}
		snap := snapTree(t)
		anyUnknown := treeHasUnknown(t)
		topExt := hasTopLevel(src.flat.Root, t, func(tf *TField, _ protoreflect.FieldDescriptor) bool { return tf.Ext })
		topGroup := hasTopLevel(src.flat.Root, t, func(tf *TField, fd protoreflect.FieldDescriptor) bool {
			return fd != nil && fd.Kind() == protoreflect.GroupKind
		})
		// what survives JSON and text: no unknown fields, no NaN payloads
		lossy := snapTree(normTree(src.flat.Root, t, xfFor(src)))
		lossyOf := func(v *voice, m protoreflect.Message) string {
			return snapTree(normTree(m.Descriptor(), treeOf(m), xfFor(v)))
		}
		in := map[string]any{"type": name, "content": snap, "generated_in": src.name}
		wantBytes := ""
		if c.HasModel() {
			wantBytes = c.Ask("encdet 0 %s", snap)
		}
		type out struct {
			v     *voice
			m     protoreflect.Message
			det   []byte
			js    []byte
			txt   []byte
			jsErr error
		}
		var outs []*out
		for _, v := range voices {
			v := v
			if v.kind == "twin" && topExt {
				c.Hist("twin:skipped-content-with-extensions")
				continue
			}
			if anyUnknown && !v.storesUnknown() {
				// proto3 messages generated before 2018-04-30 have no XXX_unrecognized field: the Go type
				// cannot hold this content
				c.Hist("skipped:go-type-without-unknown-field-storage")
				continue
			}
			func() {
				in2 := map[string]any{"type": name, "content": snap, "voice": v.name}
				defer c.Recover("building / marshalling the content in "+v.name, in2, "")
				m := v.mk()
				buildReflect(m, t, xfFor(v))
				o := &out{v: v, m: m}
				var err error
				o.det, err = detPartial.Marshal(m.Interface())
				if !c.Check(err == nil, "Marshal fails in "+v.name+": "+fmt.Sprint(err), in2, "") {
					return
				}
				if got := v.flat.Snap(m); got != snap {
					c.Check(false, "reflection snapshot of "+v.name+" differs from the content it was built from: "+snapDiff(snap, got), in2, "")
				}
				if wantBytes != "" {
					c.Compare("encdet: model deterministic bytes vs "+v.kind+" voice", in2, vh.Hex(o.det), wantBytes)
				}
				o.js, o.jsErr = protojson.MarshalOptions{AllowPartial: true}.Marshal(m.Interface())
				o.txt, err = prototext.MarshalOptions{AllowPartial: true}.Marshal(m.Interface())
				c.Check(err == nil, "prototext.Marshal fails in "+v.name, in2, "")
				outs = append(outs, o)
				c.Hist("voice:" + v.kind)
				c.Case(name+"|"+v.name+"|"+string(o.det), len(o.det) > 0)
			}()
		}
		if len(outs) < 2 {
			continue
		}
		r0 := outs[0]
		if c.HasModel() {
			c.Compare("dec: model decoding of the legacy bytes", in, "ok "+snap, c.Ask("dec 0 10000 0 %s", vh.Hex(r0.det)))
		}
		for i, o := range outs {
			in2 := map[string]any{"type": name, "content": snap, "voice": o.v.name, "reference": r0.v.name}
			if !bytes.Equal(o.det, r0.det) {
				in2["bytes"], in2["reference_bytes"] = vh.Hex(o.det), vh.Hex(r0.det)
				c.Check(false, "deterministic bytes of "+o.v.name+" differ from "+r0.v.name, in2, "")
			}
			c.Check((o.jsErr == nil) == (r0.jsErr == nil), "protojson.Marshal verdict differs", in2, "")
			if o.jsErr == nil && r0.jsErr == nil {
				c.Check(normPkg(canonJSON(o.js)) == normPkg(canonJSON(r0.js)), "protojson output of "+o.v.name+" differs from "+r0.v.name, in2, "")
			}
			// every voice decodes the output of the next voice (cyclically): bytes, JSON, text
			p := outs[(i+1)%len(outs)]
			func() {
				in3 := map[string]any{"type": name, "content": snap, "decoder": o.v.name, "producer": p.v.name}
				defer c.Recover("decoding another voice's output", in3, "")
				m2 := o.v.mk()
				err := proto.UnmarshalOptions{AllowPartial: true}.Unmarshal(p.det, m2.Interface())
				c.Check(err == nil && o.v.flat.Snap(m2) == snap, "binary output of "+p.v.name+" decoded by "+o.v.name+" is not the content", in3, "")
				res := protoregistry.GlobalTypes
				if p.jsErr == nil {
					m3 := o.v.mk()
					js := bytes.ReplaceAll(p.js, []byte(p.v.gen.Pkg+"."), []byte(o.v.gen.Pkg+"."))
					err = protojson.UnmarshalOptions{AllowPartial: true, Resolver: res}.Unmarshal(js, m3.Interface())
					c.Check(err == nil && lossyOf(o.v, m3) == lossy, "JSON output of "+p.v.name+" decoded by "+o.v.name+" is not the content (modulo unknown fields and NaN payloads): "+fmt.Sprint(err), in3, "")
				}
				if topGroup && (o.v.kind == "twin") != (p.v.kind == "twin") {
					// harness artefact: the twin's group *fields* are derived from tags while their message types
					// keep their raw descriptors (another file), so the twin prints them under the field name
					// (`namedgroup`) and the others under the message name (`NamedGroup`)
					c.Hist("twin:text-skipped-group-field-name")
					return
				}
				m4 := o.v.mk()
				txt := bytes.ReplaceAll(p.txt, []byte(p.v.gen.Pkg+"."), []byte(o.v.gen.Pkg+"."))
				err = prototext.UnmarshalOptions{AllowPartial: true, Resolver: res}.Unmarshal(txt, m4.Interface())
				c.Check(err == nil && lossyOf(o.v, m4) == lossy, "text output of "+p.v.name+" decoded by "+o.v.name+" is not the content (modulo unknown fields and NaN payloads): "+fmt.Sprint(err), in3, "")
			}()
			// same descriptor, different implementation: proto.Equal must hold
			if o.v.kind == "dynamic" && i > 0 && outs[i-1].v.kind == "legacy" && outs[i-1].v.gen == o.v.gen {
				c.Check(proto.Equal(o.m.Interface(), outs[i-1].m.Interface()) && proto.Equal(outs[i-1].m.Interface(), o.m.Interface()),
					"proto.Equal(legacy, dynamicpb of its descriptor) is false for the same content", in2, "")
			}
			// protoadapt round trip
			if o.v.kind != "dynamic" {
				func() {
					defer c.Recover("protoadapt", in2, "")
					v1 := protoadapt.MessageV1Of(o.m.Interface())
					v2 := protoadapt.MessageV2Of(v1)
					b2, err := detPartial.Marshal(v2)
					c.Check(err == nil && bytes.Equal(b2, o.det) && proto.Equal(v2, o.m.Interface()), "protoadapt.MessageV2Of(MessageV1Of(m)) is not m", in2, "")
					if o.v.kind == "legacy" {
						c.Check(reflect.TypeOf(v1) == reflect.TypeOf(legacyZeroFor(o.v.gen, name)) || name != "Message", "protoadapt.MessageV1Of does not return the legacy struct pointer", in2, "")
					}
					if o.v.kind == "twin" {
						// the twin's memory seen as the generated legacy message of the same generation
						asLegacy := protoimpl.X.ProtoMessageV2Of(o.v.gen.TwinToV1(v1))
						b3, err := detPartial.Marshal(asLegacy)
						c.Check(err == nil && bytes.Equal(b3, o.det), "the twin's struct seen through the raw descriptor marshals differently", in2, "")
					}
				}()
			}
		}
		if len(c.R.Samples) < 10 && len(r0.det) > 8 && len(r0.det) < 60 {
			c.Sample(map[string]any{"type": name, "bytes": vh.Hex(r0.det), "voices": len(outs)})
		}
	}
}

// rootLines: the `field` lines of the root message (non-extension), with the sub-message index blanked.
func rootLines(f *Flat) []string {
	var out []string
	for _, l := range f.Lines {
		w := strings.Fields(l)
		if len(w) == 11 && w[0] == "field" && w[1] == "0" && w[9] == "0" {
			w[7] = "_"
			out = append(out, strings.Join(w, " "))
		}
	}
	return out
}

// snapDiff shows the first differing tokens of two snapshots.
func snapDiff(want, got string) string {
	a, b := strings.Fields(want), strings.Fields(got)
	i := 0
	for i < len(a) && i < len(b) && a[i] == b[i] {
		i++
	}
	lo := i - 6
	if lo < 0 {
		lo = 0
	}
	hi := func(x []string) int {
		if i+6 < len(x) {
			return i + 6
		}
		return len(x)
	}
	return fmt.Sprintf("at token %d want …%s… got …%s…", i, strings.Join(a[lo:hi(a)], " "), strings.Join(b[lo:hi(b)], " "))
}

func legacyZeroFor(g *legacyGen, name string) any {
	if name == "Message" {
		return g.Zero
	}
	return nil
}

func sameLines(a, b []string) bool {
	if len(a) != len(b) {
		return false
	}
	for i := range a {
		if a[i] != b[i] {
			return false
		}
	}
	return true
}

func firstDiff(a, b []string) string {
	for i := 0; i < len(a) && i < len(b); i++ {
		if a[i] != b[i] {
			return fmt.Sprintf("line %d: %q vs %q", i, a[i], b[i])
		}
	}
	return fmt.Sprintf("lengths %d vs %d", len(a), len(b))
}

// ---------------------------------------------------------------- (c) derived descriptor of the twin

func twinDescriptor(c *vh.Ctx, g *legacyGen, raw, twin protoreflect.MessageDescriptor) {
	in := map[string]any{"generation": g.Dir}
	defer c.Recover("twin descriptor", in, "")
	c.Check(raw.Fields().Len() == twin.Fields().Len(), fmt.Sprintf("struct-tag-derived descriptor has %d fields, raw descriptor %d", twin.Fields().Len(), raw.Fields().Len()), in, "")
	c.Check(raw.Oneofs().Len() == twin.Oneofs().Len(), "number of oneofs differs", in, "")
	c.Check((raw.Syntax() == protoreflect.Proto3) == (twin.Syntax() == protoreflect.Proto3), "syntax differs", in, "")
	c.Check(raw.ExtensionRanges().Len() == twin.ExtensionRanges().Len(), "extension ranges differ", in, "")
	for i := 0; i < raw.ExtensionRanges().Len() && i < twin.ExtensionRanges().Len(); i++ {
		c.Check(raw.ExtensionRanges().Get(i) == twin.ExtensionRanges().Get(i), "extension range differs", in, "")
	}
	for i := 0; i < raw.Fields().Len(); i++ {
		rf := raw.Fields().Get(i)
		tf := twin.Fields().ByNumber(rf.Number())
		in2 := map[string]any{"generation": g.Dir, "field": string(rf.Name())}
		if !c.Check(tf != nil, "field missing in the struct-tag-derived descriptor", in2, "") {
			continue
		}
		c.Case("twinfield|"+g.Dir+"|"+string(rf.Name()), true)
		cmp := func(what string, a, b any) {
			c.Check(a == b, fmt.Sprintf("derived descriptor: %s of field %s is %v, raw descriptor says %v", what, rf.Name(), b, a), in2, "")
		}
		cmp("Name", rf.Name(), tf.Name())
		cmp("Kind", rf.Kind(), tf.Kind())
		cmp("Cardinality", rf.Cardinality(), tf.Cardinality())
		cmp("IsPacked", rf.IsPacked(), tf.IsPacked())
		cmp("HasPresence", rf.HasPresence(), tf.HasPresence())
		cmp("IsList", rf.IsList(), tf.IsList())
		cmp("IsMap", rf.IsMap(), tf.IsMap())
		cmp("JSONName", rf.JSONName(), tf.JSONName())
		if rf.Kind() != protoreflect.GroupKind { // see twin:text-skipped-group-field-name
			cmp("TextName", rf.TextName(), tf.TextName())
		}
		cmp("oneof", oneofName(rf), oneofName(tf))
		if rf.Message() != nil && tf.Message() != nil && !rf.IsMap() {
			cmp("Message", rf.Message().FullName(), tf.Message().FullName())
		}
		if rf.IsMap() && tf.IsMap() {
			cmp("MapKey.Kind", rf.MapKey().Kind(), tf.MapKey().Kind())
			cmp("MapValue.Kind", rf.MapValue().Kind(), tf.MapValue().Kind())
			if rf.MapValue().Message() != nil && tf.MapValue().Message() != nil {
				cmp("MapValue.Message", rf.MapValue().Message().FullName(), tf.MapValue().Message().FullName())
			}
		}
		if rf.Enum() != nil && tf.Enum() != nil {
			cmp("Enum", rf.Enum().FullName(), tf.Enum().FullName())
		}
		cmp("HasDefault", rf.HasDefault(), tf.HasDefault())
		if rf.HasDefault() && tf.HasDefault() && rf.Kind() != protoreflect.EnumKind {
			if rf.Kind() == protoreflect.BytesKind {
				cmp("Default", string(rf.Default().Bytes()), string(tf.Default().Bytes()))
			} else {
				c.Check(rf.Default().Equal(tf.Default()), "derived descriptor: Default differs", in2, "")
			}
		}
		if rf.HasDefault() && tf.HasDefault() && rf.Kind() == protoreflect.EnumKind {
			cmp("Default(enum number)", rf.Default().Enum(), tf.Default().Enum())
		}
	}
}

func oneofName(fd protoreflect.FieldDescriptor) string {
	if od := fd.ContainingOneof(); od != nil {
		return fmt.Sprintf("%s#%d", od.Name(), od.Index())
	}
	return ""
}
