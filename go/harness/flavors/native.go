package main

// Reflection-driven construction of a content tree through a flavor's *native* Go API:
//
//   struct   direct assignment of the exported struct fields (open and hybrid API), oneof members
//            through their wrapper structs
//   setters  the generated SetXxx methods (hybrid and opaque API)
//   builder  the generated Xxx_builder struct and its Build method (hybrid and opaque API)
//
// Go names are read from the struct tags of the message struct (`protobuf:"varint,81,opt,name=…"`
// carries the field number; opaque structs name their fields xxx_hidden_<GoName>) and from the oneof
// wrapper structs registered in MessageInfo.OneofWrappers, so no name derivation is re-implemented.
// Scalars are written with their exact bit patterns (a float32 signaling NaN stays signaling).

import (
	"fmt"
	"math"
	"reflect"
	"strconv"
	"strings"
	"sync"

	"google.golang.org/protobuf/internal/impl"
	"google.golang.org/protobuf/internal/strs"
	"google.golang.org/protobuf/proto"
	"google.golang.org/protobuf/reflect/protoreflect"
)

type goInfo struct {
	t       reflect.Type // *T
	mt      protoreflect.MessageType
	api     string                                    // open | hybrid | opaque | other
	name    map[protoreflect.FieldNumber]string       // Go name of every field
	sfield  map[protoreflect.FieldNumber]int          // struct field index (non-oneof fields; open/hybrid: exported)
	ofield  map[protoreflect.FieldNumber]int          // struct field index of the oneof interface holding this member
	owrap   map[protoreflect.FieldNumber]reflect.Type // *wrapper type of a oneof member
	oneofGo map[string]string                         // proto oneof name -> Go name (from the struct field)
	builder reflect.Type
}

var (
	goInfoMu    sync.Mutex
	goInfoCache = map[reflect.Type]*goInfo{}
)

func tagNumber(tag string) (protoreflect.FieldNumber, bool) {
	parts := strings.Split(tag, ",")
	if len(parts) < 2 {
		return 0, false
	}
	n, err := strconv.Atoi(parts[1])
	return protoreflect.FieldNumber(n), err == nil
}

// goInfoOf analyses the Go type of a generated message.
func goInfoOf(t reflect.Type) *goInfo {
	goInfoMu.Lock()
	defer goInfoMu.Unlock()
	if gi, ok := goInfoCache[t]; ok {
		return gi
	}
	gi := &goInfo{t: t, api: "other", name: map[protoreflect.FieldNumber]string{}, sfield: map[protoreflect.FieldNumber]int{},
		ofield: map[protoreflect.FieldNumber]int{}, owrap: map[protoreflect.FieldNumber]reflect.Type{}, oneofGo: map[string]string{}}
	goInfoCache[t] = gi
	if t.Kind() != reflect.Ptr || t.Elem().Kind() != reflect.Struct {
		return gi
	}
	pm, ok := reflect.Zero(t).Interface().(proto.Message)
	if !ok {
		return gi
	}
	gi.mt = pm.ProtoReflect().Type()
	st := t.Elem()
	if f, ok := st.FieldByName("state"); ok {
		switch f.Tag.Get("protogen") {
		case "open.v1":
			gi.api = "open"
		case "hybrid.v1":
			gi.api = "hybrid"
		case "opaque.v1":
			gi.api = "opaque"
		}
	}
	var oneofIfaces []int
	for i := 0; i < st.NumField(); i++ {
		f := st.Field(i)
		if tag := f.Tag.Get("protobuf"); tag != "" {
			if n, ok := tagNumber(tag); ok {
				gi.name[n] = strings.TrimPrefix(f.Name, "xxx_hidden_")
				gi.sfield[n] = i
			}
		}
		if on := f.Tag.Get("protobuf_oneof"); on != "" {
			oneofIfaces = append(oneofIfaces, i)
			gi.oneofGo[on] = strings.TrimPrefix(f.Name, "xxx_hidden_")
		}
	}
	if mi, ok := gi.mt.(*impl.MessageInfo); ok {
		for _, w := range mi.OneofWrappers {
			wt := reflect.TypeOf(w) // *wrapper
			f0 := wt.Elem().Field(0)
			n, ok := tagNumber(f0.Tag.Get("protobuf"))
			if !ok {
				continue
			}
			gi.name[n] = f0.Name
			gi.owrap[n] = wt
			for _, i := range oneofIfaces {
				if wt.Implements(st.Field(i).Type) {
					gi.ofield[n] = i
				}
			}
		}
	}
	gi.builder = builderTypes[t]
	return gi
}

// accessorNames: the opaque API names its accessors and builder fields after the camel-cased proto name
// (`GetString`), the open API after the struct field (`GetString_` when `String` is taken); the hybrid
// API has both.  Candidates in the order opaque name, struct name.
func (gi *goInfo) accessorNames(fd protoreflect.FieldDescriptor) []string {
	camel := strs.GoCamelCase(string(fd.Name()))
	out := []string{camel}
	if n, ok := gi.name[fd.Number()]; ok && n != camel {
		if gi.api == "open" {
			out = []string{n, camel}
		} else {
			out = append(out, n)
		}
	}
	return out
}

// modes lists the native construction modes the API level of a Go type offers.
func (gi *goInfo) modes() []string {
	switch gi.api {
	case "open":
		return []string{"struct"}
	case "hybrid":
		if gi.builder != nil {
			return []string{"struct", "setters", "builder"}
		}
		return []string{"struct", "setters"}
	case "opaque":
		if gi.builder != nil {
			return []string{"setters", "builder"}
		}
		return []string{"setters"}
	}
	return nil
}

func (gi *goInfo) supports(mode string) bool {
	for _, m := range gi.modes() {
		if m == mode {
			return true
		}
	}
	return false
}

// goScalar makes a Go value of type t (a scalar type, or a pointer to one) holding tv.
func goScalar(t reflect.Type, tv TVal) reflect.Value {
	if t.Kind() == reflect.Ptr {
		p := reflect.New(t.Elem())
		p.Elem().Set(goScalar(t.Elem(), tv))
		return p
	}
	v := reflect.New(t).Elem()
	switch t.Kind() {
	case reflect.Bool:
		v.SetBool(tv.Num != 0)
	case reflect.Int32:
		v.SetInt(int64(int32(tv.Num)))
	case reflect.Int64:
		v.SetInt(int64(tv.Num))
	case reflect.Uint32:
		v.SetUint(uint64(uint32(tv.Num)))
	case reflect.Uint64:
		v.SetUint(tv.Num)
	case reflect.Float32:
		// reflect.Value.SetFloat takes a float64 and would quiet a signaling NaN
		// (and so does Convert); write the bits
		*(*uint32)(v.Addr().UnsafePointer()) = uint32(tv.Num)
	case reflect.Float64:
		v.SetFloat(math.Float64frombits(tv.Num))
	case reflect.String:
		v.SetString(string(tv.Bytes))
	case reflect.Slice:
		b := make([]byte, len(tv.Bytes))
		copy(b, tv.Bytes)
		v.SetBytes(b)
	default:
		panic("goScalar: unexpected Go type " + t.String())
	}
	return v
}

// goValue makes the Go value of type t for one (non-list, non-map) value of field fd.
func goValue(t reflect.Type, fd protoreflect.FieldDescriptor, tv TVal, mode string, xf extFinder) reflect.Value {
	if fd.Message() != nil {
		sub := buildNative(goInfoOf(t), tv.Msg, mode, xf)
		return reflect.ValueOf(sub)
	}
	return goScalar(t, tv)
}

// goFieldValue makes the value for a whole field (singular, list or map) given the target type t.
func goFieldValue(t reflect.Type, fd protoreflect.FieldDescriptor, f *TField, mode string, xf extFinder) reflect.Value {
	switch f.kind {
	case "m":
		mv := reflect.MakeMapWithSize(t, len(f.Map))
		for _, e := range f.Map {
			mv.SetMapIndex(goScalar(t.Key(), e.K), goValue(t.Elem(), fd.MapValue(), e.V, mode, xf))
		}
		return mv
	case "l":
		sv := reflect.MakeSlice(t, len(f.List), len(f.List))
		for i, e := range f.List {
			sv.Index(i).Set(goValue(t.Elem(), fd, e, mode, xf))
		}
		return sv
	}
	return goValue(t, fd, *f.One, mode, xf)
}

// buildNative builds tree t as a message of Go type gi.t through the given native mode (falling back
// to the type's first native mode where the requested one does not exist for a nested type).
func buildNative(gi *goInfo, t *Tree, mode string, xf extFinder) proto.Message {
	if !gi.supports(mode) {
		ms := gi.modes()
		if len(ms) == 0 {
			// not a generated type with a native API (e.g. a well-known type used as a field): reflection
			m := gi.mt.New()
			buildReflect(m, t, xf)
			return m.Interface()
		}
		mode = ms[0]
	}
	md := gi.mt.Descriptor()
	var msg reflect.Value // *T
	var bld reflect.Value // builder struct (addressable)
	if mode == "builder" {
		bld = reflect.New(gi.builder).Elem()
	} else {
		msg = reflect.New(gi.t.Elem())
	}
	var exts []*TField
	for _, f := range t.Fields {
		if f.Ext {
			exts = append(exts, f)
			continue
		}
		fd := md.Fields().ByNumber(f.Num)
		if fd == nil {
			panic(fmt.Sprintf("buildNative: no field %d in %s", f.Num, md.FullName()))
		}
		name, ok := gi.name[f.Num]
		if !ok {
			panic(fmt.Sprintf("buildNative: no Go name for field %d of %s", f.Num, md.FullName()))
		}
		switch mode {
		case "struct":
			if wt, isOneof := gi.owrap[f.Num]; isOneof {
				w := reflect.New(wt.Elem())
				w.Elem().Field(0).Set(goFieldValue(wt.Elem().Field(0).Type, fd, f, mode, xf))
				msg.Elem().Field(gi.ofield[f.Num]).Set(w)
			} else {
				sf := msg.Elem().Field(gi.sfield[f.Num])
				sf.Set(goFieldValue(sf.Type(), fd, f, mode, xf))
			}
		case "setters":
			var meth reflect.Value
			for _, n := range gi.accessorNames(fd) {
				if meth = msg.MethodByName("Set" + n); meth.IsValid() {
					break
				}
			}
			if !meth.IsValid() {
				panic(fmt.Sprintf("buildNative: %s has no setter for %s", gi.t, name))
			}
			meth.Call([]reflect.Value{goFieldValue(meth.Type().In(0), fd, f, mode, xf)})
		case "builder":
			var bf reflect.Value
			for _, n := range gi.accessorNames(fd) {
				if bf = bld.FieldByName(n); bf.IsValid() {
					break
				}
			}
			if !bf.IsValid() {
				panic(fmt.Sprintf("buildNative: %s has no field for %s", gi.builder, name))
			}
			bf.Set(goFieldValue(bf.Type(), fd, f, mode, xf))
		}
	}
	var pm proto.Message
	if mode == "builder" {
		pm = bld.MethodByName("Build").Call(nil)[0].Interface().(proto.Message)
	} else {
		pm = msg.Interface().(proto.Message)
	}
	// extension fields: the native API is proto.SetExtension (values travel as protoreflect.Value)
	for _, f := range exts {
		xt := xf(md, f.Num)
		if xt == nil {
			panic(fmt.Sprintf("buildNative: no extension %d of %s", f.Num, md.FullName()))
		}
		xd := xt.TypeDescriptor()
		tmp := &Tree{Fields: []*TField{f}}
		// build the value through reflection on a scratch message, then hand the Go value over
		scratch := gi.mt.New()
		buildReflect(scratch, tmp, xf)
		proto.SetExtension(pm, xt, xt.InterfaceOf(scratch.Get(xd)))
	}
	if len(t.Unknown) > 0 {
		pm.ProtoReflect().SetUnknown(append(protoreflect.RawFields(nil), t.Unknown...))
	}
	return pm
}

// ---------------------------------------------------------------- getters

// renderGoField canonicalises the result of a generated getter for field fd the same way as renderPBField.
func renderGoScalar(fd protoreflect.FieldDescriptor, v reflect.Value) string {
	switch v.Kind() {
	case reflect.Bool:
		if v.Bool() {
			return "1"
		}
		return "0"
	case reflect.Int32, reflect.Int64:
		return fmt.Sprint(uint64(v.Int()))
	case reflect.Uint32, reflect.Uint64:
		return fmt.Sprint(v.Uint())
	case reflect.Float32:
		// via float64: the comparison partner is protoreflect.Value, which holds a float64
		return fmt.Sprint(uint64(math.Float32bits(float32(v.Float()))))
	case reflect.Float64:
		return fmt.Sprint(math.Float64bits(v.Float()))
	case reflect.String:
		return "s" + fmt.Sprintf("%x", v.String())
	case reflect.Slice:
		return "s" + fmt.Sprintf("%x", v.Bytes())
	}
	return "?" + v.Type().String()
}

func renderPBScalar(fd protoreflect.FieldDescriptor, v protoreflect.Value) string {
	switch fd.Kind() {
	case protoreflect.StringKind:
		return "s" + fmt.Sprintf("%x", v.String())
	case protoreflect.BytesKind:
		return "s" + fmt.Sprintf("%x", v.Bytes())
	}
	return fmt.Sprint(canonNum(fd, v))
}
