package main

import (
	"bufio"
	"encoding/json"
	"fmt"
	"os"
	"sort"

	"google.golang.org/protobuf/encoding/protowire"
	"google.golang.org/protobuf/proto"
	"google.golang.org/protobuf/reflect/protoreflect"
	"google.golang.org/protobuf/reflect/protoregistry"
	"google.golang.org/protobuf/types/dynamicpb"

	vh "google.golang.org/protobuf/internal/zz_verif_vh"

	mspb "google.golang.org/protobuf/internal/testprotos/messageset/messagesetpb"
	mshy "google.golang.org/protobuf/internal/testprotos/messageset/messagesetpb/messagesetpb_hybrid"
	msop "google.golang.org/protobuf/internal/testprotos/messageset/messagesetpb/messagesetpb_opaque"
	_ "google.golang.org/protobuf/internal/testprotos/messageset/msetextpb"
	_ "google.golang.org/protobuf/internal/testprotos/messageset/msetextpb/msetextpb_hybrid"
	_ "google.golang.org/protobuf/internal/testprotos/messageset/msetextpb/msetextpb_opaque"
	"google.golang.org/protobuf/internal/testprotos/textpb2"
)

// ---------- the MessageSet types of the repository ----------

type setType struct {
	Name      string
	mt        protoreflect.MessageType
	md        protoreflect.MessageDescriptor
	ids       []int32 // registered extension numbers, ascending
	known     map[int32]protoreflect.ExtensionType
	container protoreflect.MessageType // message with field 1 of this type, or nil
}

func mkType(name string, m, cont proto.Message) *setType {
	t := &setType{Name: name, mt: m.ProtoReflect().Type(), md: m.ProtoReflect().Descriptor(), known: map[int32]protoreflect.ExtensionType{}}
	if cont != nil {
		t.container = cont.ProtoReflect().Type()
	}
	protoregistry.GlobalTypes.RangeExtensionsByMessage(t.md.FullName(), func(xt protoreflect.ExtensionType) bool {
		n := int32(xt.TypeDescriptor().Number())
		t.known[n] = xt
		t.ids = append(t.ids, n)
		return true
	})
	sort.Slice(t.ids, func(i, j int) bool { return t.ids[i] < t.ids[j] })
	return t
}

var setTypes = []*setType{
	mkType("messagesetpb", &mspb.MessageSet{}, &mspb.MessageSetContainer{}),
	mkType("textpb2", &textpb2.MessageSet{}, nil),
	mkType("opaque", &msop.MessageSet{}, &msop.MessageSetContainer{}),
	mkType("hybrid", &mshy.MessageSet{}, &mshy.MessageSetContainer{}),
}

func typeByName(n string) *setType {
	for _, t := range setTypes {
		if t.Name == n {
			return t
		}
	}
	return nil
}

// ---------- cases ----------

type CItem struct {
	ID      int32  `json:"id"`
	Payload string `json:"payload"` // hex of a valid encoding of the extension's message type
}

// Case is one input of the stream; it is what a replay file holds and what the peer process receives.
type Case struct {
	Kind    string  `json:"kind"` // "bytes": Hex is an encoded MessageSet | "content": a value built through the API
	Type    string  `json:"type"`
	Hex     string  `json:"hex,omitempty"`
	Items   []CItem `json:"items,omitempty"`
	Unknown string  `json:"unknown,omitempty"`
	Note    string  `json:"note,omitempty"`
}

// Digest is everything one process observes on one case.
type Digest struct {
	D    map[string]string `json:"d"`
	Viol []string          `json:"viol"` // direct property failures, "<config>:<code>"
}

var (
	partial    = proto.MarshalOptions{AllowPartial: true}
	partialDet = proto.MarshalOptions{AllowPartial: true, Deterministic: true}
)

func guard(d *Digest, where string, f func()) {
	defer func() {
		if e := recover(); e != nil {
			d.Viol = append(d.Viol, fmt.Sprintf("%s:panic %v", where, e))
			d.D[where] = "panic"
		}
	}()
	f()
}

// observe marshals m in both modes, checks Size = length and the round trip of both encodings into
// fresh messages of the same kind, and returns the deterministic encoding.
func observe(d *Digest, cfg string, m proto.Message, fresh func() proto.Message) {
	// default (non-deterministic) options first: a lazily kept extension is passed through here
	sz := proto.Size(m)
	def, err := partial.Marshal(m)
	if err != nil {
		d.D[cfg] = "ok marshal-err"
		d.D[cfg+".size"] = fmt.Sprint(sz)
		if _, err2 := partialDet.Marshal(m); err2 == nil {
			d.Viol = append(d.Viol, cfg+":marshal-default-err-only")
		}
		return
	}
	d.D[cfg+".def"] = vh.Hex(def)
	if sz != len(def) {
		d.Viol = append(d.Viol, fmt.Sprintf("%s:size-default size=%d len=%d", cfg, sz, len(def)))
	}
	for _, nl := range []bool{false, true} {
		m2 := fresh()
		if err := (proto.UnmarshalOptions{AllowPartial: true, NoLazyDecoding: nl}).Unmarshal(def, m2); err != nil || !proto.Equal(m, m2) {
			d.Viol = append(d.Viol, fmt.Sprintf("%s:roundtrip-default nolazy=%v err=%v", cfg, nl, err))
		}
	}
	det, err := partialDet.Marshal(m)
	if err != nil {
		d.D[cfg] = "ok marshal-err"
		d.Viol = append(d.Viol, cfg+":marshal-det-err-only")
		return
	}
	if szd := partialDet.Size(m); szd != len(det) {
		d.Viol = append(d.Viol, fmt.Sprintf("%s:size-det size=%d len=%d", cfg, szd, len(det)))
	}
	// once more after proto.Equal has expanded whatever was kept lazily
	if def2, err := partial.Marshal(m); err != nil || proto.Size(m) != len(def2) {
		d.Viol = append(d.Viol, fmt.Sprintf("%s:size-default-after size=%d len=%d err=%v", cfg, proto.Size(m), len(def2), err))
	}
	m3 := fresh()
	if err := (proto.UnmarshalOptions{AllowPartial: true}).Unmarshal(det, m3); err != nil || !proto.Equal(m, m3) {
		d.Viol = append(d.Viol, fmt.Sprintf("%s:roundtrip-det err=%v", cfg, err))
	} else if det3, _ := partialDet.Marshal(m3); string(det3) != string(det) {
		d.Viol = append(d.Viol, cfg+":det-not-idempotent")
	}
	d.D[cfg] = "ok " + vh.Hex(det)
	d.D[cfg+".size"] = fmt.Sprint(sz)
	d.D[cfg+".init"] = fmt.Sprint(proto.CheckInitialized(m) == nil)
}

func wrapContainer(b []byte) []byte {
	out := protowire.AppendTag(nil, 1, protowire.BytesType)
	return protowire.AppendBytes(out, b)
}

func digestBytes(T *setType, b []byte) *Digest {
	d := &Digest{D: map[string]string{}}
	type cfgT struct {
		name  string
		fresh func() proto.Message
		nl    bool
	}
	gen := func() proto.Message { return T.mt.New().Interface() }
	dyn := func() proto.Message { return dynamicpb.NewMessage(T.md) }
	cfgs := []cfgT{{"gen", gen, false}, {"genNL", gen, true}, {"dyn", dyn, false}}
	msgs := map[string]proto.Message{}
	for _, cf := range cfgs {
		cf := cf
		guard(d, cf.name, func() {
			m := cf.fresh()
			err := (proto.UnmarshalOptions{AllowPartial: true, NoLazyDecoding: cf.nl}).Unmarshal(b, m)
			ms := cf.fresh()
			errS := (proto.UnmarshalOptions{NoLazyDecoding: cf.nl}).Unmarshal(b, ms)
			if err != nil {
				d.D[cf.name] = "err"
				if errS == nil {
					d.Viol = append(d.Viol, cf.name+":strict-accepts-what-partial-rejects")
				}
				return
			}
			// DiscardUnknown is documented to drop unknown fields; both paths keep unresolved items
			// (as coded); only recorded so that the two builds are compared on it
			mdu := cf.fresh()
			if e := (proto.UnmarshalOptions{AllowPartial: true, DiscardUnknown: true, NoLazyDecoding: cf.nl}).Unmarshal(b, mdu); e == nil {
				du, _ := partialDet.Marshal(mdu)
				d.D[cf.name+".discard"] = vh.Hex(du)
			} else {
				d.D[cf.name+".discard"] = "err"
			}
			observe(d, cf.name, m, cf.fresh)
			// required fields: the strict verdict is the partial verdict plus CheckInitialized
			if (errS == nil) != (proto.CheckInitialized(m) == nil) {
				d.Viol = append(d.Viol, fmt.Sprintf("%s:strict-verdict strict=%v init=%v", cf.name, errS == nil, proto.CheckInitialized(m) == nil))
			}
			d.D[cf.name+".strict"] = fmt.Sprint(errS == nil)
			msgs[cf.name] = m
		})
	}
	guard(d, "eq", func() {
		if len(msgs) == 3 {
			if !proto.Equal(msgs["gen"], msgs["dyn"]) || !proto.Equal(msgs["dyn"], msgs["gen"]) {
				d.Viol = append(d.Viol, "eq:gen-dyn")
			}
			if !proto.Equal(msgs["gen"], msgs["genNL"]) {
				d.Viol = append(d.Viol, "eq:lazy-nolazy")
			}
		} else if len(msgs) != 0 {
			d.Viol = append(d.Viol, fmt.Sprintf("eq:verdicts-differ gen=%s genNL=%s dyn=%s", short(d.D["gen"]), short(d.D["genNL"]), short(d.D["dyn"])))
		}
	})
	if T.container != nil {
		guard(d, "cont", func() {
			cm := T.container.New()
			err := (proto.UnmarshalOptions{AllowPartial: true}).Unmarshal(wrapContainer(b), cm.Interface())
			if err != nil {
				d.D["cont"] = "err"
				return
			}
			fd := cm.Descriptor().Fields().ByNumber(1)
			inner := cm.Get(fd).Message().Interface()
			det, err := partialDet.Marshal(inner)
			if err != nil {
				d.D["cont"] = "ok marshal-err"
				return
			}
			d.D["cont"] = "ok " + vh.Hex(det)
			all, err := partialDet.Marshal(cm.Interface())
			if err != nil || string(all) != string(wrapContainer(det)) || partialDet.Size(cm.Interface()) != len(all) {
				d.Viol = append(d.Viol, "cont:nested-encoding")
			}
		})
	}
	return d
}

func short(s string) string {
	if len(s) > 3 {
		return s[:3]
	}
	return s
}

// buildContent populates m through the reflection API.
func buildContent(T *setType, m protoreflect.Message, items []CItem, unknown []byte) error {
	for _, it := range items {
		xt := T.known[it.ID]
		if xt == nil {
			return fmt.Errorf("no extension %d", it.ID)
		}
		sub := xt.New().Message()
		if err := (proto.UnmarshalOptions{AllowPartial: true}).Unmarshal(vh.UnHex(it.Payload), sub.Interface()); err != nil {
			return err
		}
		m.Set(xt.TypeDescriptor(), protoreflect.ValueOfMessage(sub))
	}
	if len(unknown) > 0 {
		m.SetUnknown(unknown)
	}
	return nil
}

func digestContent(T *setType, items []CItem, unknown []byte) *Digest {
	d := &Digest{D: map[string]string{}}
	gen := func() proto.Message { return T.mt.New().Interface() }
	dyn := func() proto.Message { return dynamicpb.NewMessage(T.md) }
	msgs := map[string]proto.Message{}
	for _, cf := range []struct {
		name  string
		fresh func() proto.Message
	}{{"gen", gen}, {"dyn", dyn}} {
		cf := cf
		guard(d, cf.name, func() {
			m := cf.fresh()
			if err := buildContent(T, m.ProtoReflect(), items, unknown); err != nil {
				d.D[cf.name] = "build-err"
				return
			}
			observe(d, cf.name, m, cf.fresh)
			msgs[cf.name] = m
			// the clone is the same content
			cl := proto.Clone(m)
			if cd, err := partialDet.Marshal(cl); err == nil && "ok "+vh.Hex(cd) != d.D[cf.name] {
				d.Viol = append(d.Viol, cf.name+":clone-differs")
			}
		})
	}
	guard(d, "eq", func() {
		if len(msgs) == 2 && !proto.Equal(msgs["gen"], msgs["dyn"]) {
			d.Viol = append(d.Viol, "eq:gen-dyn")
		}
	})
	// cross decoding: the encoding produced by one implementation read by the other
	guard(d, "cross", func() {
		if len(msgs) != 2 {
			return
		}
		for _, pr := range [][2]string{{"gen", "dyn"}, {"dyn", "gen"}} {
			def, err := partial.Marshal(msgs[pr[0]])
			if err != nil {
				continue
			}
			var m2 proto.Message
			if pr[1] == "gen" {
				m2 = gen()
			} else {
				m2 = dyn()
			}
			if err := (proto.UnmarshalOptions{AllowPartial: true}).Unmarshal(def, m2); err != nil || !proto.Equal(msgs[pr[0]], m2) {
				d.Viol = append(d.Viol, fmt.Sprintf("cross:%s->%s err=%v", pr[0], pr[1], err))
			}
		}
	})
	return d
}

func digestCase(cs *Case) *Digest {
	T := typeByName(cs.Type)
	if T == nil {
		return &Digest{D: map[string]string{}, Viol: []string{"harness:unknown type " + cs.Type}}
	}
	switch cs.Kind {
	case "bytes":
		return digestBytes(T, vh.UnHex(cs.Hex))
	case "content":
		return digestContent(T, cs.Items, vh.UnHex(cs.Unknown))
	}
	return &Digest{D: map[string]string{}, Viol: []string{"harness:unknown case kind " + cs.Kind}}
}

// childLoop: the peer process (built with other tags) digests the cases it is sent, one JSON line each.
func childLoop() {
	in := bufio.NewReaderSize(os.Stdin, 1<<20)
	out := bufio.NewWriterSize(os.Stdout, 1<<20)
	defer out.Flush()
	for {
		line, err := in.ReadBytes('\n')
		if len(line) > 1 {
			var cs Case
			var dg *Digest
			if e := json.Unmarshal(line, &cs); e != nil {
				dg = &Digest{D: map[string]string{}, Viol: []string{"harness:bad case line"}}
			} else {
				dg = digestCase(&cs)
			}
			dg.D["reflectBuild"] = fmt.Sprint(reflectBuild)
			data, _ := json.Marshal(dg)
			out.Write(data)
			out.WriteByte('\n')
			out.Flush()
		}
		if err != nil {
			return
		}
	}
}
