//go:build !protoreflect

package main

// reflectBuild reports whether proto.Marshal/Unmarshal/Size of generated messages use the
// reflection implementation (proto/messageset.go) instead of the table-driven fast path
// (internal/impl/codec_messageset.go).
const reflectBuild = false
