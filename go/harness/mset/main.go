// mset harness: C47 — MessageSet encoding round-trips and matches the item format.
//
// Layers (all on the same seeded stream of cases):
//
//	L1  internal/encoding/messageset functions called directly (SizeField, AppendFieldStart/End,
//	    ConsumeFieldValue and Unmarshal with wantLen false/true, SizeUnknown, AppendUnknown) against
//	    the Lean model (Model/MSet.lean), results and error codes exact;
//	L2  proto.Unmarshal / Marshal / Size of the generated MessageSet types (fast path in this build,
//	    reflection path in the peer build) and of dynamicpb (always the reflection path) against the
//	    model's decodeSet / encodeSet / sizeSet (payloads of known extensions canonicalised through
//	    the extension's own message type);
//	L3  the property itself on the implementation: Size = length, Unmarshal(Marshal(m)) Equal m for
//	    default and deterministic marshalling, lazy extension decoding on/off, generated = dynamicpb;
//	L4  a peer process built with -tags protolegacy,protoreflect digests the same cases.
package main

import (
	"bufio"
	"bytes"
	"encoding/json"
	"fmt"
	"io"
	"math"
	"os"
	"os/exec"
	"sort"
	"strconv"
	"strings"

	"google.golang.org/protobuf/encoding/protowire"
	"google.golang.org/protobuf/internal/encoding/messageset"
	"google.golang.org/protobuf/internal/flags"
	vh "google.golang.org/protobuf/internal/zz_verif_vh"
	"google.golang.org/protobuf/proto"
	"google.golang.org/protobuf/reflect/protoreflect"
)

type C = vh.Ctx

func main() {
	if os.Getenv("VERIF_CHILD") == "digest" {
		childLoop()
		return
	}
	vh.Main("mset", run)
}

func run(c *C) {
	switch c.Prop {
	case "C47":
		runC47(c)
	default:
		panic("mset harness: unknown property " + c.Prop)
	}
}

// signatures of the two defects this check found and that were repaired in /repo (2afca19, ff1f95d; `fixed:`
// lines in known-findings.txt). The classifiers are kept so that a regression is labelled — and, with no
// `known:` line left, reported as a VIOLATION.
const (
	sigLazyDup   = "mset-lazy-duplicate-item-remarshal"
	sigNonMinLen = "mset-unknown-item-nonminimal-length-fast-vs-reflection"
)

// ---------- peer process ----------

type peer struct {
	cmd *exec.Cmd
	in  io.WriteCloser
	out *bufio.Reader
}

func startPeer(c *C) *peer {
	path := os.Getenv("VERIF_PEER_BIN")
	if path == "" {
		return nil
	}
	cmd := exec.Command(path)
	cmd.Env = append(os.Environ(), "VERIF_CHILD=digest")
	cmd.Stderr = os.Stderr
	in, _ := cmd.StdinPipe()
	out, _ := cmd.StdoutPipe()
	if err := cmd.Start(); err != nil {
		c.Check(false, "peer process does not start: "+err.Error(), nil, "")
		return nil
	}
	return &peer{cmd: cmd, in: in, out: bufio.NewReaderSize(out, 1<<20)}
}

func (p *peer) ask(cs *Case) (*Digest, error) {
	data, _ := json.Marshal(cs)
	if _, err := p.in.Write(append(data, '\n')); err != nil {
		return nil, err
	}
	line, err := p.out.ReadBytes('\n')
	if err != nil {
		return nil, err
	}
	var d Digest
	if err := json.Unmarshal(line, &d); err != nil {
		return nil, err
	}
	return &d, nil
}

func (p *peer) close() {
	p.in.Close()
	p.cmd.Wait()
}

// ---------- model access ----------

type mitem struct {
	ID int64
	P  []byte
}

func fmtItems(l []mitem) string {
	if len(l) == 0 {
		return "-"
	}
	s := make([]string, len(l))
	for i, it := range l {
		s[i] = fmt.Sprintf("%d:%s", it.ID, vh.Hex(it.P))
	}
	return strings.Join(s, ",")
}

func parseItems(s string) []mitem {
	if s == "-" || s == "" {
		return nil
	}
	var out []mitem
	for _, x := range strings.Split(s, ",") {
		kv := strings.SplitN(x, ":", 2)
		id, _ := strconv.ParseInt(kv[0], 10, 64)
		out = append(out, mitem{id, vh.UnHex(kv[1])})
	}
	return out
}

func fmtIDs(ids []int32) string {
	if len(ids) == 0 {
		return "-"
	}
	s := make([]string, len(ids))
	for i, id := range ids {
		s[i] = fmt.Sprint(id)
	}
	return strings.Join(s, ",")
}

func b01(b bool) int {
	if b {
		return 1
	}
	return 0
}

// errCode maps an error of the messageset package to the model's error vocabulary.
func errCode(err error) string {
	for code := -1; code >= -6; code-- {
		if err == protowire.ParseError(code) {
			if code == -6 {
				return "-6"
			}
			return fmt.Sprint(code)
		}
	}
	switch {
	case strings.Contains(err.Error(), "invalid type_id in message set"):
		return "typeid"
	case strings.Contains(err.Error(), "invalid data in message set unknown fields"):
		return "unknowndata"
	}
	return "other:" + err.Error()
}

// ---------- L1: the messageset package against the model ----------

func implConsume(b []byte, wantLen bool) (s string) {
	defer func() {
		if e := recover(); e != nil {
			s = fmt.Sprintf("panic %v", e)
		}
	}()
	t, m, n, err := messageset.ConsumeFieldValue(b, wantLen)
	if err != nil {
		return "err " + errCode(err)
	}
	return fmt.Sprintf("ok %d %s %d", t, vh.Hex(m), n)
}

func implItems(b []byte, wantLen bool) (s string, items []mitem) {
	defer func() {
		if e := recover(); e != nil {
			s = fmt.Sprintf("panic %v", e)
		}
	}()
	err := messageset.Unmarshal(b, wantLen, func(id protowire.Number, v []byte) error {
		items = append(items, mitem{int64(id), append([]byte(nil), v...)})
		return nil
	})
	if err != nil {
		return "err " + errCode(err), nil
	}
	return "ok " + fmtItems(items), items
}

func checkConsume(c *C, b []byte) {
	for _, w := range []bool{false, true} {
		impl := implConsume(b, w)
		in := map[string]any{"fn": "ConsumeFieldValue", "wantLen": w, "hex": vh.Hex(b)}
		c.Check(!strings.HasPrefix(impl, "panic"), "ConsumeFieldValue panics: "+impl, in, "")
		if c.HasModel() {
			c.Compare("messageset.ConsumeFieldValue", in, impl, c.Ask("consume %d %s", b01(w), vh.Hex(b)))
		}
		c.Hist("consume:" + strings.SplitN(impl, " ", 2)[0])
	}
}

func checkItems(c *C, b []byte) {
	for _, w := range []bool{false, true} {
		impl, _ := implItems(b, w)
		in := map[string]any{"fn": "Unmarshal", "wantLen": w, "hex": vh.Hex(b)}
		c.Check(!strings.HasPrefix(impl, "panic"), "messageset.Unmarshal panics: "+impl, in, "")
		if c.HasModel() {
			c.Compare("messageset.Unmarshal", in, impl, c.Ask("items %d %s", b01(w), vh.Hex(b)))
		}
	}
}

func checkUnknown(c *C, u []byte, prefix []byte) {
	in := map[string]any{"fn": "AppendUnknown", "hex": vh.Hex(u)}
	defer c.Recover("AppendUnknown/SizeUnknown", in, "")
	out, err := messageset.AppendUnknown(append([]byte(nil), prefix...), u)
	sz := messageset.SizeUnknown(u)
	impl := ""
	if err != nil {
		impl = "err " + errCode(err)
		c.Check(sz == 0, "SizeUnknown != 0 on data AppendUnknown rejects", in, "")
	} else {
		c.Check(bytes.HasPrefix(out, prefix), "AppendUnknown(b, u) does not extend b", in, "")
		out = out[len(prefix):]
		impl = "ok " + vh.Hex(out)
		c.Check(sz == len(out), fmt.Sprintf("SizeUnknown = %d, AppendUnknown wrote %d bytes", sz, len(out)), in, "")
		// the items written decode back to the records (AppendUnknown law)
		back, items := implItems(out, false)
		var re []byte
		for _, it := range items {
			re = protowire.AppendTag(re, protowire.Number(it.ID), protowire.BytesType)
			re = protowire.AppendBytes(re, it.P)
		}
		c.Check(strings.HasPrefix(back, "ok") && bytes.Equal(normRecords(u), re), "items written by AppendUnknown do not decode back to the unknown records", in, "")
	}
	if c.HasModel() {
		c.Compare("messageset.AppendUnknown", in, impl, c.Ask("appendunknown %s", vh.Hex(u)))
		c.Compare("messageset.SizeUnknown", in, fmt.Sprint(sz), c.Ask("sizeunknown %s", vh.Hex(u)))
	}
	c.Hist("unknown:" + strings.SplitN(impl, " ", 2)[0])
	c.Case("unk "+vh.Hex(u), err == nil && len(u) > 0)
}

// nonMinimalLenRecord: u is a sequence of length-delimited records with minimal tags, at least one of which
// has a non-minimal length prefix.
func nonMinimalLenRecord(u []byte) bool {
	found := false
	for len(u) > 0 {
		num, typ, n := protowire.ConsumeTag(u)
		if n < 0 || typ != protowire.BytesType || n != protowire.SizeTag(num) {
			return false
		}
		v, m := protowire.ConsumeBytes(u[n:])
		if m < 0 {
			return false
		}
		if m != protowire.SizeBytes(len(v)) {
			found = true
		}
		u = u[n+m:]
	}
	return found
}

// normRecords re-encodes tags and length prefixes of a sequence of length-delimited records minimally.
func normRecords(u []byte) []byte {
	var out []byte
	for len(u) > 0 {
		num, typ, n := protowire.ConsumeTag(u)
		if n < 0 || typ != protowire.BytesType {
			return append(out, u...)
		}
		v, m := protowire.ConsumeBytes(u[n:])
		if m < 0 {
			return append(out, u...)
		}
		out = protowire.AppendTag(out, num, protowire.BytesType)
		out = protowire.AppendBytes(out, v)
		u = u[n+m:]
	}
	return out
}

var boundaryIDs = []uint64{1, 2, 3, 4, 15, 16, 127, 128, 1000, 1001, 1002, 2047, 2048, 5000, 16383, 16384, 1<<21 - 1, 1 << 21, 1<<28 - 1, 1 << 28, 1<<29 - 1, 1 << 29, 1<<29 + 1, 1<<31 - 1}

func runL1Fixed(c *C) {
	ids := append([]uint64(nil), boundaryIDs...)
	for i := 0; i < c.N(300, 20000); i++ {
		ids = append(ids, uint64(1+c.Rand.Int63n(math.MaxInt32)))
	}
	for _, id := range ids {
		num := protowire.Number(id)
		in := map[string]any{"fn": "item", "id": id}
		sf := messageset.SizeField(num)
		start := messageset.AppendFieldStart(nil, num)
		end := messageset.AppendFieldEnd(nil)
		p := randPayload(c, 6)
		item := append(append(append(append([]byte(nil), start...), protowire.AppendTag(nil, 3, protowire.BytesType)...), protowire.AppendBytes(nil, p)...), end...)
		c.Check(sf+protowire.SizeTag(3)+protowire.SizeBytes(len(p)) == len(item), fmt.Sprintf("SizeField(%d)=%d does not account for the item written by AppendFieldStart/End", id, sf), in, "")
		if c.HasModel() {
			c.Compare("messageset.SizeField", in, fmt.Sprint(sf), c.Ask("sizefield %d", id))
			c.Compare("messageset.AppendFieldStart", in, vh.Hex(start), c.Ask("start %d", id))
			c.Compare("messageset.AppendFieldEnd", in, vh.Hex(end), c.Ask("end"))
			c.Compare("item format", in, vh.Hex(item), c.Ask("item %d %s", id, vh.Hex(p)))
		}
		// the format, written out independently: 0b 10 <id> 1a <len> <p> 0c
		want := append([]byte{0x0b, 0x10}, protowire.AppendVarint(nil, id)...)
		want = append(want, 0x1a)
		want = append(append(protowire.AppendVarint(want, uint64(len(p))), p...), 0x0c)
		c.Check(bytes.Equal(item, want), "item is not start-group(1) type_id(2) message(3) end-group(1)", in, "")
		// and it decodes back, whatever follows
		rest := randPayload(c, 3)
		body := append(append([]byte(nil), item[1:]...), rest...)
		c.Check(implConsume(body, false) == fmt.Sprintf("ok %d %s %d", id, vh.Hex(p), len(item)-1), "ConsumeFieldValue does not invert the item encoding", in, "")
		c.Check(implConsume(body, true) == fmt.Sprintf("ok %d %s %d", id, vh.Hex(protowire.AppendBytes(nil, p)), len(item)-1), "ConsumeFieldValue(wantLen) does not invert the item encoding", in, "")
		c.Case(fmt.Sprint("item ", id, " ", vh.Hex(p)), true)
		c.Hist("L1:item")
	}
}

// ---------- generators ----------

func randPayload(c *C, max int) []byte {
	n := c.Rand.Intn(max + 1)
	b := make([]byte, n)
	c.Rand.Read(b)
	return b
}

// nonMinVarint encodes v with `extra` redundant continuation bytes (at most 10 bytes in all).
func nonMinVarint(v uint64, extra int) []byte {
	b := protowire.AppendVarint(nil, v)
	for extra > 0 && len(b) < 10 {
		b[len(b)-1] |= 0x80
		b = append(b, 0)
		extra--
	}
	return b
}

var int32Boundaries = []int64{0, 1, -1, 2, 127, 128, 255, 16383, 16384, math.MaxInt32, math.MinInt32}

// genMsgBytes returns a valid canonical (ascending field numbers, minimal varints) encoding of a message
// of type md, built by hand.
func genMsgBytes(c *C, md protoreflect.MessageDescriptor, depth int) []byte {
	var out []byte
	fds := md.Fields()
	idx := make([]int, fds.Len())
	for i := range idx {
		idx[i] = i
	}
	sort.Slice(idx, func(i, j int) bool { return fds.Get(idx[i]).Number() < fds.Get(idx[j]).Number() })
	for _, i := range idx {
		fd := fds.Get(i)
		if fd.IsList() || fd.IsMap() || fd.ContainingOneof() != nil {
			continue
		}
		p := 2
		if fd.Cardinality() == protoreflect.Required {
			p = 4
		}
		if c.Rand.Intn(p) == 0 {
			continue
		}
		switch fd.Kind() {
		case protoreflect.Int32Kind, protoreflect.Int64Kind:
			v := int32Boundaries[c.Rand.Intn(len(int32Boundaries))]
			if c.Rand.Intn(2) == 0 {
				v = int64(int32(c.Rand.Uint32()))
			}
			out = protowire.AppendTag(out, fd.Number(), protowire.VarintType)
			out = protowire.AppendVarint(out, uint64(v))
		case protoreflect.StringKind, protoreflect.BytesKind:
			s := []byte(strings.Repeat("x", []int{0, 1, 2, 5, 127, 128, 300}[c.Rand.Intn(7)]))
			out = protowire.AppendTag(out, fd.Number(), protowire.BytesType)
			out = protowire.AppendBytes(out, s)
		case protoreflect.MessageKind:
			if depth >= 2 {
				continue
			}
			out = protowire.AppendTag(out, fd.Number(), protowire.BytesType)
			out = protowire.AppendBytes(out, genMsgBytes(c, fd.Message(), depth+1))
		}
	}
	if c.Rand.Intn(6) == 0 && fds.ByNumber(99) == nil {
		out = protowire.AppendTag(out, 99, protowire.VarintType) // an unknown field of the payload message
		out = protowire.AppendVarint(out, uint64(c.Rand.Intn(300)))
	}
	return out
}

type gen struct {
	c *C
	T *setType
}

var unknownIDPool = []uint64{1, 2, 3, 4, 5, 127, 128, 999, 1003, 5000, 16383, 16384, 1 << 21, 1 << 28, 1<<29 - 1, 1<<29 + 1, 1<<31 - 1}
var invalidIDPool = []uint64{0, 1 << 31, 1<<32 + 1000, 1 << 63, math.MaxUint64}

func (g *gen) pickID() uint64 {
	r := g.c.Rand.Intn(20)
	switch {
	case r < 11 && len(g.T.ids) > 0:
		return uint64(g.T.ids[g.c.Rand.Intn(len(g.T.ids))])
	case r < 18:
		return unknownIDPool[g.c.Rand.Intn(len(unknownIDPool))]
	case r < 19:
		return uint64(1 + g.c.Rand.Int63n(math.MaxInt32))
	default:
		return invalidIDPool[g.c.Rand.Intn(len(invalidIDPool))]
	}
}

// payloadFor: mostly a valid payload of the extension's message type.
func (g *gen) payloadFor(id uint64) []byte {
	c := g.c
	var xt protoreflect.ExtensionType
	if id <= math.MaxInt32 {
		xt = g.T.known[int32(id)]
	}
	if xt == nil {
		if c.Rand.Intn(2) == 0 || len(g.T.ids) == 0 {
			return randPayload(c, 8)
		}
		xt = g.T.known[g.T.ids[c.Rand.Intn(len(g.T.ids))]]
	}
	p := genMsgBytes(c, xt.TypeDescriptor().Message(), 0)
	switch c.Rand.Intn(16) {
	case 0:
		c.Hist("payload:truncated")
		return append(p, 0x08) // a tag without value
	case 1:
		c.Hist("payload:wrong-wire-type")
		return append(p, 0x0d, 1, 2, 3, 4) // field 1 as fixed32: an unknown field of the payload
	case 2:
		c.Hist("payload:empty")
		return nil
	}
	c.Hist("payload:valid")
	return p
}

func tokTypeID(c *C, v uint64) []byte {
	b := protowire.AppendTag(nil, 2, protowire.VarintType)
	if c.Rand.Intn(12) == 0 {
		c.Hist("tok:typeid-nonminimal")
		return append(b, nonMinVarint(v, 1+c.Rand.Intn(3))...)
	}
	return protowire.AppendVarint(b, v)
}

func tokMsg(c *C, p []byte) []byte {
	b := protowire.AppendTag(nil, 3, protowire.BytesType)
	if c.Rand.Intn(10) == 0 {
		c.Hist("tok:message-len-nonminimal")
		return append(append(b, nonMinVarint(uint64(len(p)), 1+c.Rand.Intn(2))...), p...)
	}
	return protowire.AppendBytes(b, p)
}

// tokOther: a complete field that is neither type_id/varint nor message/bytes nor end-group(1).
func (g *gen) tokOther(depth int) []byte {
	c := g.c
	nums := []protowire.Number{1, 2, 3, 4, 5, 15, 16, 1000, 5000, 1 << 29, 1<<31 - 1}
	num := nums[c.Rand.Intn(len(nums))]
	for {
		switch c.Rand.Intn(6) {
		case 0:
			if num == 2 {
				continue
			}
			return protowire.AppendVarint(protowire.AppendTag(nil, num, protowire.VarintType), c.Rand.Uint64()>>uint(c.Rand.Intn(64)))
		case 1:
			return protowire.AppendFixed32(protowire.AppendTag(nil, num, protowire.Fixed32Type), c.Rand.Uint32())
		case 2:
			return protowire.AppendFixed64(protowire.AppendTag(nil, num, protowire.Fixed64Type), c.Rand.Uint64())
		case 3:
			if num == 3 {
				continue
			}
			return protowire.AppendBytes(protowire.AppendTag(nil, num, protowire.BytesType), randPayload(c, 5))
		default:
			if depth > 3 {
				continue
			}
			// a nested group (also number 1: an item-like group inside the item)
			b := protowire.AppendTag(nil, num, protowire.StartGroupType)
			for k := c.Rand.Intn(3); k > 0; k-- {
				switch c.Rand.Intn(3) {
				case 0:
					b = append(b, tokTypeID(c, g.pickID())...)
				case 1:
					b = append(b, tokMsg(c, randPayload(c, 4))...)
				default:
					b = append(b, g.tokOther(depth+1)...)
				}
			}
			c.Hist("tok:nested-group")
			return protowire.AppendTag(b, num, protowire.EndGroupType)
		}
	}
}

func splitAt(c *C, p []byte, k int) [][]byte {
	var out [][]byte
	for ; k > 1 && len(p) > 0; k-- {
		i := c.Rand.Intn(len(p) + 1)
		out = append(out, p[:i])
		p = p[i:]
	}
	return append(out, p)
}

// genItem returns one item (start tag … end tag) of a random shape.
func (g *gen) genItem() []byte {
	c := g.c
	id := g.pickID()
	p := g.payloadFor(id)
	var toks [][]byte
	shape := c.Rand.Intn(14)
	switch shape {
	case 0, 1, 2:
		c.Hist("item:canonical")
		toks = [][]byte{tokTypeID(c, id), tokMsg(c, p)}
	case 3, 4:
		c.Hist("item:message-first")
		toks = [][]byte{tokMsg(c, p), tokTypeID(c, id)}
	case 5, 6:
		c.Hist("item:duplicate-message")
		for _, f := range splitAt(c, p, 2+c.Rand.Intn(2)) {
			toks = append(toks, tokMsg(c, f))
		}
		i := c.Rand.Intn(len(toks) + 1)
		toks = append(toks[:i:i], append([][]byte{tokTypeID(c, id)}, toks[i:]...)...)
	case 7:
		c.Hist("item:duplicate-type-id")
		id2 := g.pickID()
		toks = [][]byte{tokTypeID(c, id2), tokMsg(c, p), tokTypeID(c, id)}
		if c.Rand.Intn(2) == 0 {
			toks = [][]byte{tokTypeID(c, id2), tokTypeID(c, id), tokMsg(c, p)}
		}
	case 8:
		c.Hist("item:no-type-id")
		toks = [][]byte{tokMsg(c, p)}
	case 9:
		c.Hist("item:no-message")
		toks = [][]byte{tokTypeID(c, id)}
		if c.Rand.Intn(4) == 0 {
			toks = nil
		}
	case 10:
		c.Hist("item:extra-fields")
		toks = [][]byte{tokTypeID(c, id), tokMsg(c, p)}
		if c.Rand.Intn(2) == 0 {
			toks[0], toks[1] = toks[1], toks[0]
		}
		for k := 1 + c.Rand.Intn(3); k > 0; k-- {
			i := c.Rand.Intn(len(toks) + 1)
			toks = append(toks[:i:i], append([][]byte{g.tokOther(0)}, toks[i:]...)...)
		}
	case 11:
		c.Hist("item:non-message-wire-type")
		var alt []byte
		switch c.Rand.Intn(4) {
		case 0:
			alt = protowire.AppendVarint(protowire.AppendTag(nil, 3, protowire.VarintType), 7)
		case 1:
			alt = protowire.AppendFixed64(protowire.AppendTag(nil, 3, protowire.Fixed64Type), 7)
		case 2:
			alt = protowire.AppendBytes(protowire.AppendTag(nil, 2, protowire.BytesType), p)
		default:
			alt = protowire.AppendFixed32(protowire.AppendTag(nil, 2, protowire.Fixed32Type), uint32(id))
		}
		toks = [][]byte{tokTypeID(c, id), alt}
		if c.Rand.Intn(2) == 0 {
			toks = append(toks, tokMsg(c, p))
		}
	default:
		c.Hist("item:token-soup")
		for k := c.Rand.Intn(6); k > 0; k-- {
			switch c.Rand.Intn(4) {
			case 0:
				toks = append(toks, tokTypeID(c, g.pickID()))
			case 1:
				toks = append(toks, tokMsg(c, g.payloadFor(id)))
			case 2:
				toks = append(toks, tokMsg(c, randPayload(c, 3)))
			default:
				toks = append(toks, g.tokOther(0))
			}
		}
	}
	var b []byte
	if c.Rand.Intn(25) == 0 {
		c.Hist("item:start-tag-nonminimal")
		b = nonMinVarint(protowire.EncodeTag(1, protowire.StartGroupType), 1)
	} else {
		b = protowire.AppendTag(nil, 1, protowire.StartGroupType)
	}
	for _, t := range toks {
		b = append(b, t...)
	}
	switch r := c.Rand.Intn(40); {
	case r == 0:
		c.Hist("item:end-mismatched")
		b = protowire.AppendTag(b, protowire.Number(2+c.Rand.Intn(3)), protowire.EndGroupType)
	case r == 1 && id >= 1 && id <= math.MaxInt32:
		c.Hist("item:end-with-type-id")
		b = protowire.AppendTag(b, protowire.Number(id), protowire.EndGroupType)
	case r == 2:
		c.Hist("item:end-missing")
	case r == 3:
		c.Hist("item:end-tag-nonminimal")
		b = append(b, nonMinVarint(protowire.EncodeTag(1, protowire.EndGroupType), 1+c.Rand.Intn(2))...)
	default:
		b = protowire.AppendTag(b, 1, protowire.EndGroupType)
	}
	return b
}

// genTopField: a field of the MessageSet that is not an item.
func (g *gen) genTopField() []byte {
	c := g.c
	nums := []protowire.Number{1, 2, 3, 4, 1000, 5000, 1<<29 + 5}
	num := nums[c.Rand.Intn(len(nums))]
	switch c.Rand.Intn(8) {
	case 0, 1:
		c.Hist("top:varint")
		return protowire.AppendVarint(protowire.AppendTag(nil, num, protowire.VarintType), c.Rand.Uint64()>>uint(c.Rand.Intn(64)))
	case 2:
		c.Hist("top:fixed32")
		return protowire.AppendFixed32(protowire.AppendTag(nil, num, protowire.Fixed32Type), c.Rand.Uint32())
	case 3:
		c.Hist("top:fixed64")
		return protowire.AppendFixed64(protowire.AppendTag(nil, num, protowire.Fixed64Type), c.Rand.Uint64())
	case 4, 5:
		c.Hist("top:bytes")
		return protowire.AppendBytes(protowire.AppendTag(nil, num, protowire.BytesType), g.payloadFor(uint64(num)))
	case 6:
		if num == 1 {
			num = 7
		}
		c.Hist("top:group")
		b := protowire.AppendTag(nil, num, protowire.StartGroupType)
		b = append(b, tokTypeID(c, 1000)...)
		b = append(b, tokMsg(c, randPayload(c, 3))...)
		return protowire.AppendTag(b, num, protowire.EndGroupType)
	default:
		if c.Rand.Intn(2) == 0 {
			c.Hist("top:stray-end-group")
			return protowire.AppendTag(nil, num, protowire.EndGroupType)
		}
		c.Hist("top:reserved-wire-type")
		return protowire.AppendTag(nil, num, protowire.Type(6+c.Rand.Intn(2)))
	}
}

func (g *gen) genSet() []byte {
	c := g.c
	var b []byte
	for k := []int{0, 1, 1, 1, 2, 2, 3, 4, 6}[c.Rand.Intn(9)]; k > 0; k-- {
		switch r := c.Rand.Intn(20); {
		case r < 15:
			b = append(b, g.genItem()...)
		case r < 19:
			b = append(b, g.genTopField()...)
		default:
			c.Hist("top:garbage")
			b = append(b, randPayload(c, 4)...)
		}
	}
	switch r := c.Rand.Intn(20); {
	case r < 2 && len(b) > 0:
		c.Hist("mut:truncate")
		b = b[:c.Rand.Intn(len(b))]
	case r == 2 && len(b) > 0:
		c.Hist("mut:flip")
		b = append([]byte(nil), b...)
		b[c.Rand.Intn(len(b))] ^= byte(1 << uint(c.Rand.Intn(8)))
	default:
		c.Hist("mut:none")
	}
	return b
}

// genContent: a value to be built through the API.
func (g *gen) genContent() *Case {
	c := g.c
	cs := &Case{Kind: "content", Type: g.T.Name}
	ids := append([]int32(nil), g.T.ids...)
	c.Rand.Shuffle(len(ids), func(i, j int) { ids[i], ids[j] = ids[j], ids[i] })
	for _, id := range ids {
		if c.Rand.Intn(2) == 0 {
			continue
		}
		p := genMsgBytes(c, g.T.known[id].TypeDescriptor().Message(), 0)
		if c.Rand.Intn(5) == 0 {
			p = nil
		}
		cs.Items = append(cs.Items, CItem{ID: id, Payload: vh.Hex(p)})
	}
	var u []byte
	for k := []int{0, 0, 0, 1, 1, 2, 3}[c.Rand.Intn(7)]; k > 0; k-- {
		id := unknownIDPool[c.Rand.Intn(len(unknownIDPool))]
		if c.Rand.Intn(4) == 0 {
			id = uint64(1 + c.Rand.Int63n(math.MaxInt32))
		}
		if g.T.known[int32(id)] != nil {
			continue
		}
		u = protowire.AppendTag(u, protowire.Number(id), protowire.BytesType)
		p := g.payloadFor(id)
		if c.Rand.Intn(15) == 0 {
			c.Hist("content:unknown-len-nonminimal")
			u = append(append(u, nonMinVarint(uint64(len(p)), 1)...), p...)
		} else {
			u = protowire.AppendBytes(u, p)
		}
	}
	switch c.Rand.Intn(30) {
	case 0:
		c.Hist("content:unknown-varint-record")
		u = protowire.AppendVarint(protowire.AppendTag(u, 5000, protowire.VarintType), 5)
	case 1:
		c.Hist("content:unknown-fixed-record")
		u = protowire.AppendFixed32(protowire.AppendTag(u, 5000, protowire.Fixed32Type), 5)
	case 2:
		c.Hist("content:unknown-truncated")
		u = append(u, 0xc2)
	}
	cs.Unknown = vh.Hex(u)
	return cs
}

// ---------- L2: expectation computed from the model ----------

type expectation struct {
	verdict   string // "err" | "ok <dethex>" | "ok marshal-err"
	size      int
	callbacks []mitem // calls fn(typeID, value) of messageset.Unmarshal(b, true, fn)
	cb0       []mitem // … of messageset.Unmarshal(b, false, fn) (payloads without length prefix)
	items     []mitem // decoded content (payloads concatenated per type id), model order
	unknown   []byte
	lazyDef   string // predicted default encoding of the lazily decoded generated message ("" = no prediction)
	dupKnown  bool   // some known type id occurs in two or more items
}

// validPayload unmarshals p into the message type of extension xt.
func validPayload(xt protoreflect.ExtensionType, p []byte) (canon []byte, ok, init bool) {
	m := xt.New().Message().Interface()
	if err := (proto.UnmarshalOptions{AllowPartial: true}).Unmarshal(p, m); err != nil {
		return nil, false, false
	}
	canon, err := partialDet.Marshal(m)
	return canon, err == nil, proto.CheckInitialized(m) == nil
}

// expect: what proto.Unmarshal + Marshal have to produce on b according to the model; fast = the
// table-driven path, otherwise the reflection path. Both call messageset.Unmarshal(b, true, fn).
func expect(c *C, T *setType, fast bool, b []byte) *expectation {
	e := &expectation{}
	w := b01(fast)
	const wantLen = true
	ans := c.Ask("items 1 %s", vh.Hex(b))
	if !strings.HasPrefix(ans, "ok ") {
		e.verdict = "err"
		return e
	}
	e.callbacks = parseItems(ans[3:])
	if a0 := c.Ask("items 0 %s", vh.Hex(b)); strings.HasPrefix(a0, "ok ") {
		e.cb0 = parseItems(a0[3:])
	}
	count := map[int64]int{}
	lazyOK := map[int64]bool{}
	lazyBuf := map[int64][]byte{}
	for _, cb := range e.callbacks {
		xt := T.known[int32(cb.ID)]
		if xt == nil {
			continue
		}
		p := cb.P
		if wantLen {
			v, n := protowire.ConsumeBytes(cb.P)
			if n < 0 {
				e.verdict = "err"
				return e
			}
			p = v
		}
		_, ok, init := validPayload(xt, p)
		if !ok {
			e.verdict = "err"
			return e
		}
		if count[cb.ID] == 0 {
			lazyOK[cb.ID] = true
		}
		count[cb.ID]++
		if count[cb.ID] > 1 {
			e.dupKnown = true
		}
		lazyOK[cb.ID] = lazyOK[cb.ID] && init
		lazyBuf[cb.ID] = append(append(lazyBuf[cb.ID], protowire.AppendTag(nil, protowire.Number(cb.ID), protowire.BytesType)...), cb.P...)
	}
	ans = c.Ask("decode %d %s %s", w, fmtIDs(T.ids), vh.Hex(b))
	f := strings.Fields(ans)
	if len(f) != 3 || f[0] != "ok" {
		e.verdict = "err"
		return e
	}
	e.items = parseItems(f[1])
	e.unknown = vh.UnHex(f[2])
	canon := make([]mitem, len(e.items))
	for i, it := range e.items {
		cp, ok, _ := validPayload(T.known[int32(it.ID)], it.P)
		if !ok {
			e.verdict = "err" // cannot happen: every fragment parsed
			return e
		}
		canon[i] = mitem{it.ID, cp}
	}
	enc := c.Ask("encode 1 %s %s", fmtItems(canon), vh.Hex(e.unknown))
	if strings.HasPrefix(enc, "ok ") {
		e.verdict = enc
	} else {
		e.verdict = "ok marshal-err"
	}
	e.size, _ = strconv.Atoi(c.Ask("size %s %s", fmtItems(canon), vh.Hex(e.unknown)))
	if fast && flags.LazyUnmarshalExtensions {
		// fast path, lazy extensions: an extension all of whose occurrences validated as initialized is
		// kept as raw records and passed through by the default Marshal
		sorted := append([]mitem(nil), canon...)
		sort.Slice(sorted, func(i, j int) bool { return sorted[i].ID < sorted[j].ID })
		var out []byte
		for _, it := range sorted {
			if lazyOK[it.ID] {
				li := c.Ask("lazyitem %d %s", it.ID, vh.Hex(lazyBuf[it.ID]))
				if !strings.HasPrefix(li, "ok ") {
					return e // the model says the pass-through panics: no prediction, the comparison of "gen" reports
				}
				out = append(out, vh.UnHex(li[3:])...)
			} else {
				out = append(out, vh.UnHex(c.Ask("item %d %s", it.ID, vh.Hex(it.P)))...)
			}
		}
		au := c.Ask("appendunknown %s", vh.Hex(e.unknown))
		if strings.HasPrefix(au, "ok ") {
			e.lazyDef = vh.Hex(append(out, vh.UnHex(au[3:])...))
		}
	}
	return e
}

// nonMinimalUnknown: some item with an unresolved type id carries a single message field whose length
// prefix is not minimal (computed from the model's two callback sequences).
func nonMinimalUnknown(T *setType, e0, e1 *expectation) bool {
	if len(e1.cb0) != len(e1.callbacks) {
		return false
	}
	for i := range e1.cb0 {
		a, b := e1.cb0[i], e1.callbacks[i]
		if T.known[int32(a.ID)] == nil && !bytes.Equal(protowire.AppendBytes(nil, a.P), b.P) {
			return true
		}
	}
	return false
}

// normItems re-encodes the length prefixes of an encoding made of canonical items
// (0b 10 <id> 1a <len> <payload> 0c)* minimally; anything else is returned unchanged.
func normItems(b []byte) []byte {
	var out []byte
	in := b
	for len(in) > 0 {
		if len(in) < 2 || in[0] != 0x0b || in[1] != 0x10 {
			return b
		}
		id, n := protowire.ConsumeVarint(in[2:])
		if n < 0 || len(in) < 2+n+1 || in[2+n] != 0x1a {
			return b
		}
		v, m := protowire.ConsumeBytes(in[3+n:])
		if m < 0 || len(in) < 3+n+m+1 || in[3+n+m] != 0x0c {
			return b
		}
		out = append(out, 0x0b, 0x10)
		out = protowire.AppendVarint(out, id)
		out = append(out, 0x1a)
		out = protowire.AppendBytes(out, v)
		out = append(out, 0x0c)
		in = in[3+n+m+1:]
	}
	return out
}

func normDigest(s string) string {
	if strings.HasPrefix(s, "ok ") && s != "ok marshal-err" {
		return "ok " + vh.Hex(normItems(vh.UnHex(s[3:])))
	}
	if s != "err" && s != "" && s != "ok marshal-err" {
		return vh.Hex(normItems(vh.UnHex(s)))
	}
	return s
}

// sigFor classifies a failure as one of the two known findings. a, b: the two digests that differ
// (for the non-minimal-length finding they must agree once length prefixes are normalised).
func sigFor(code string, T *setType, e0, e1 *expectation, a, b string) string {
	if e0 == nil || e1 == nil {
		return ""
	}
	switch {
	case strings.HasPrefix(code, "gen:roundtrip-default") && e1.dupKnown && !reflectBuild:
		return sigLazyDup
	case (code == "eq:gen-dyn" || code == "fast-vs-reflection") && nonMinimalUnknown(T, e0, e1) &&
		a != "" && normDigest(a) == normDigest(b):
		return sigNonMinLen
	}
	return ""
}

// fail records a property failure; a failure that carries a known-finding signature is written out once
// per signature (further occurrences are only counted), so that it cannot crowd out anything else.
var sigSeen = map[string]bool{}

func fail(c *C, what string, in any, sig string) {
	if sig != "" {
		c.Hist("known-finding:" + sig)
		if sigSeen[sig] {
			return
		}
		sigSeen[sig] = true
	}
	c.Check(false, what, in, sig)
}

func caseInput(cs *Case) map[string]any {
	m := map[string]any{"kind": cs.Kind, "type": cs.Type}
	if cs.Kind == "bytes" {
		m["hex"] = cs.Hex
	} else {
		m["items"] = cs.Items
		m["unknown"] = cs.Unknown
	}
	return m
}

func runBytesCase(c *C, p *peer, cs *Case) {
	T := typeByName(cs.Type)
	b := vh.UnHex(cs.Hex)
	in := caseInput(cs)
	checkItems(c, b)
	mine := digestCase(cs)
	var e0, e1 *expectation
	if c.HasModel() {
		e0 = expect(c, T, false, b)
		e1 = expect(c, T, true, b)
		eg := e1
		if reflectBuild {
			eg = e0
		}
		for _, cfg := range []string{"gen", "genNL"} {
			c.Compare("proto.Unmarshal+deterministic Marshal, generated type ("+cfg+")", in, mine.D[cfg], eg.verdict)
			if !strings.HasPrefix(eg.verdict, "ok ") || eg.verdict == "ok marshal-err" || mine.D[cfg] != eg.verdict {
				continue
			}
			// proto.Size (default options): of the eagerly decoded message the canonical size; of the lazily
			// decoded one (fast path) the size of the passed-through form
			switch {
			case cfg == "genNL" || reflectBuild:
				c.Compare("proto.Size, generated type ("+cfg+")", in, mine.D[cfg+".size"], fmt.Sprint(eg.size))
			case eg.lazyDef != "":
				c.Compare("proto.Size, generated type (lazily decoded)", in, mine.D[cfg+".size"], fmt.Sprint(len(vh.UnHex(eg.lazyDef))))
			}
		}
		c.Compare("proto.Unmarshal+deterministic Marshal, dynamicpb", in, mine.D["dyn"], e0.verdict)
		if !reflectBuild && e1.lazyDef != "" && strings.HasPrefix(mine.D["gen"], "ok ") {
			c.Compare("default Marshal of the lazily decoded generated message", in, mine.D["gen.def"], e1.lazyDef)
			c.Compare("default Marshal of the eagerly decoded generated message", in, "ok "+mine.D["genNL.def"], e1.verdict)
		}
	}
	for _, v := range mine.Viol {
		fail(c, "property fails on the implementation: "+v, in, sigFor(v, T, e0, e1, mine.D["gen"], mine.D["dyn"]))
	}
	if cont, ok := mine.D["cont"]; ok {
		c.Check(cont == mine.D["genNL"], "MessageSet nested in MessageSetContainer decodes differently from the top-level MessageSet", in, "")
	}
	if p != nil {
		theirs, err := p.ask(cs)
		if !c.Check(err == nil, fmt.Sprintf("peer process failed: %v", err), in, "") {
			return
		}
		c.Check(theirs.D["reflectBuild"] != fmt.Sprint(reflectBuild), "peer process is not the other build", nil, "")
		for _, v := range theirs.Viol {
			fail(c, "property fails on the implementation (reflection build): "+v, in, "")
		}
		if c.HasModel() {
			for _, cfg := range []string{"gen", "genNL", "dyn"} {
				c.Compare("reflection build: proto.Unmarshal+deterministic Marshal ("+cfg+")", in, theirs.D[cfg], e0.verdict)
			}
		}
		for _, k := range []string{"gen", "genNL", "dyn", "gen.discard", "dyn.discard", "cont", "gen.size", "gen.init", "gen.strict", "dyn.strict"} {
			if mine.D[k] == theirs.D[k] {
				continue
			}
			sg := ""
			switch k {
			case "gen", "genNL", "gen.discard", "cont":
				sg = sigFor("fast-vs-reflection", T, e0, e1, mine.D[k], theirs.D[k])
			case "gen.size":
				if mine.D["gen.def"] != mine.D["genNL.def"] {
					continue // the lazily kept encoding is passed through; its size is checked against its length
				}
				if mine.D["gen"] != theirs.D["gen"] {
					continue // the encodings differ (reported above), so do their sizes
				}
			}
			fail(c, "fast path (this build) and reflection path (peer build) disagree on "+k,
				map[string]any{"kind": cs.Kind, "type": cs.Type, "hex": cs.Hex, "fast": trunc(mine.D[k]), "reflection": trunc(theirs.D[k])}, sg)
		}
	}
	ok := strings.HasPrefix(mine.D["gen"], "ok ")
	c.Hist("bytes:" + short(mine.D["gen"]))
	nontrivial := ok && e0 != nil && len(e0.callbacks) > 0
	if e0 == nil {
		nontrivial = ok && len(mine.D["gen"]) > 4
	}
	if nontrivial {
		c.Hist(fmt.Sprintf("bytes:callbacks=%d", min(len(e0Callbacks(e0)), 4)))
	}
	c.Case("b "+cs.Type+" "+cs.Hex, nontrivial)
	if nontrivial && len(c.R.Samples) < 6 {
		c.Sample(map[string]any{"type": cs.Type, "hex": cs.Hex, "decoded": trunc(mine.D["gen"])})
	}
}

func e0Callbacks(e *expectation) []mitem {
	if e == nil {
		return nil
	}
	return e.callbacks
}

func trunc(s string) string {
	if len(s) > 400 {
		return s[:400] + "…"
	}
	return s
}

func runContentCase(c *C, p *peer, cs *Case) {
	T := typeByName(cs.Type)
	in := caseInput(cs)
	u := vh.UnHex(cs.Unknown)
	mine := digestCase(cs)
	// an unknown record whose length prefix is not minimal (as the fast path stores it for such an item) is
	// normalised when the reflection path decodes its re-encoding: same defect as sigNonMinLen
	csig := func(code string) string {
		if nonMinimalLenRecord(u) && (strings.Contains(code, ":roundtrip-") || strings.HasPrefix(code, "cross:")) &&
			(reflectBuild || strings.HasPrefix(code, "dyn:") || strings.HasPrefix(code, "cross:")) {
			return sigNonMinLen
		}
		return ""
	}
	for _, v := range mine.Viol {
		fail(c, "property fails on the implementation: "+v, in, csig(v))
	}
	if c.HasModel() {
		items := make([]mitem, len(cs.Items))
		for i, it := range cs.Items {
			cp, ok, _ := validPayload(T.known[it.ID], vh.UnHex(it.Payload))
			c.Check(ok && bytes.Equal(cp, vh.UnHex(it.Payload)), "generator: payload is not canonical", in, "")
			items[i] = mitem{int64(it.ID), cp}
		}
		want := c.Ask("encode 1 %s %s", fmtItems(items), vh.Hex(u))
		if !strings.HasPrefix(want, "ok ") {
			want = "ok marshal-err"
		}
		size := c.Ask("size %s %s", fmtItems(items), vh.Hex(u))
		for _, cfg := range []string{"gen", "dyn"} {
			c.Compare("deterministic Marshal of a value built through the API ("+cfg+")", in, mine.D[cfg], want)
			c.Compare("proto.Size of a value built through the API ("+cfg+")", in, mine.D[cfg+".size"], size)
		}
		if !reflectBuild && want != "ok marshal-err" {
			// the fast path sorts the extensions whether or not Deterministic is set (as coded)
			c.Compare("default Marshal of the generated message (fast path: sorted keys)", in, "ok "+mine.D["gen.def"], want)
		}
		if def := mine.D["dyn.def"]; def != "" && want != "ok marshal-err" {
			// any order: decoding it gives the same content
			ans := c.Ask("decode 0 %s %s", fmtIDs(T.ids), def)
			f := strings.Fields(ans)
			okd := len(f) == 3 && f[0] == "ok"
			if okd {
				got := parseItems(f[1])
				sort.Slice(got, func(i, j int) bool { return got[i].ID < got[j].ID })
				srt := append([]mitem(nil), items...)
				sort.Slice(srt, func(i, j int) bool { return srt[i].ID < srt[j].ID })
				okd = fmtItems(got) == fmtItems(srt) && f[2] == vh.Hex(u)
			}
			c.Check(okd, "model decode of the default (any order) encoding is not the content", in, "")
		}
	}
	if p != nil {
		theirs, err := p.ask(cs)
		if !c.Check(err == nil, fmt.Sprintf("peer process failed: %v", err), in, "") {
			return
		}
		for _, v := range theirs.Viol {
			sg := ""
			if nonMinimalLenRecord(u) && (strings.Contains(v, ":roundtrip-") || strings.HasPrefix(v, "cross:")) {
				sg = sigNonMinLen
			}
			fail(c, "property fails on the implementation (reflection build): "+v, in, sg)
		}
		for _, k := range []string{"gen", "dyn", "gen.size", "dyn.size", "gen.init"} {
			c.Check(mine.D[k] == theirs.D[k], "fast path (this build) and reflection path (peer build) disagree on "+k,
				map[string]any{"kind": cs.Kind, "type": cs.Type, "items": cs.Items, "unknown": cs.Unknown, "fast": trunc(mine.D[k]), "reflection": trunc(theirs.D[k])}, "")
		}
	}
	c.Hist(fmt.Sprintf("content:items=%d", len(cs.Items)))
	if strings.HasPrefix(mine.D["gen"], "ok marshal-err") {
		c.Hist("content:marshal-err")
	} else {
		c.Hist("content:" + short(mine.D["gen"]))
	}
	c.Case("c "+cs.Type+" "+fmt.Sprint(cs.Items)+cs.Unknown, len(cs.Items) > 0 || len(u) > 0)
	if len(cs.Items) > 1 && len(c.R.Samples) < 9 {
		c.Sample(map[string]any{"type": cs.Type, "items": cs.Items, "unknown": cs.Unknown, "encoded": trunc(mine.D["gen"])})
	}
}

func min(a, b int) int {
	if a < b {
		return a
	}
	return b
}

// ---------- exhaustive small space ----------

// alphaTok is one field of the small alphabet, with what it means.
type alphaTok struct {
	enc     []byte
	id      uint64 // type_id token: the id
	isMsg   bool   // message token: raw = length prefix ++ payload as written
	raw     []byte
	payload []byte
}

var alpha = []alphaTok{
	{enc: []byte{0x10, 0xe8, 0x07}, id: 1000}, // type_id 1000 (known: Ext1)
	{enc: []byte{0x10, 0xe9, 0x07}, id: 1001}, // type_id 1001 (known: Ext2)
	{enc: []byte{0x10, 0x88, 0x27}, id: 5000}, // type_id 5000 (unknown)
	{enc: []byte{0x1a, 0x02, 0x08, 0x01}, isMsg: true, raw: []byte{0x02, 0x08, 0x01}, payload: []byte{0x08, 0x01}}, // message {1: 1}
	{enc: []byte{0x1a, 0x02, 0x10, 0x02}, isMsg: true, raw: []byte{0x02, 0x10, 0x02}, payload: []byte{0x10, 0x02}}, // message {2: 2}
	{enc: []byte{0x1a, 0x00}, isMsg: true, raw: []byte{0x00}, payload: nil},                                         // message, empty
	{enc: []byte{0x1a, 0x81, 0x00, 0x0a}, isMsg: true, raw: []byte{0x81, 0x00, 0x0a}, payload: []byte{0x0a}},       // non-minimal length prefix
	{enc: []byte{0x28, 0x05}}, // another field (5, varint)
}

// smallBodies enumerates every item body over the alphabet up to the given length (as index sequences).
func smallBodies(maxLen int) [][]int {
	out := [][]int{{}}
	level := [][]int{{}}
	for l := 0; l < maxLen; l++ {
		var next [][]int
		for _, pre := range level {
			for a := range alpha {
				next = append(next, append(append([]int(nil), pre...), a))
			}
		}
		out = append(out, next...)
		level = next
	}
	return out
}

func bodyBytes(seq []int) []byte {
	var b []byte
	for _, a := range seq {
		b = append(b, alpha[a].enc...)
	}
	return b
}

// refConsume: what ConsumeFieldValue has to return on a body of alphabet fields followed by the end
// marker, written from the format's rules (last type id; message fields concatenated; others skipped).
func refConsume(seq []int, wantLen bool) string {
	var id uint64
	var payload, raw []byte
	nmsg := 0
	n := 1
	for _, a := range seq {
		t := alpha[a]
		n += len(t.enc)
		switch {
		case t.isMsg:
			nmsg++
			payload = append(payload, t.payload...)
			raw = t.raw
		case t.id != 0:
			id = t.id
		}
	}
	m := payload
	if wantLen {
		switch nmsg {
		case 0:
			m = []byte{0}
		case 1:
			m = raw
		default:
			m = protowire.AppendBytes(nil, payload)
		}
	}
	return fmt.Sprintf("ok %d %s %d", id, vh.Hex(m), n)
}

// ---------- the run ----------

func runC47(c *C) {
	c.R.Rule = "cases: (1) item bodies and MessageSet encodings assembled by hand — every token sequence up to length 3 (4 in the thorough tier) over {type_id known/known/unknown, message x2, empty message, non-minimal length, other field}, alone and in pairs, plus PRNG shapes (canonical, message first, duplicate message fields, duplicate type ids, no type id, no message, extra fields, non-message wire types, nested groups, token soup; mismatched/missing/non-minimal end tags; non-item top-level fields; truncation, bit flips) over the four MessageSet types of the repository (messagesetpb open/hybrid/opaque with msetextpb extensions incl. 1<<29, textpb2.MessageSet), type ids at every varint-size boundary up to 2^31-1 and out of range; (2) values built through the API (random subsets of the registered extensions, hand-encoded payloads, unknown records incl. malformed ones); (3) unknown-field byte strings for AppendUnknown/SizeUnknown. Each case: messageset package vs model (exact results and error codes, wantLen false/true); proto.Unmarshal into the generated type (lazy and NoLazyDecoding) and dynamicpb vs model (verdict, deterministic re-marshal bytes, Size, default bytes of the lazily kept form); Size = length, Unmarshal(Marshal(m)) Equal m for default and deterministic marshal, generated = dynamicpb, top-level = nested in MessageSetContainer; the peer process (-tags protolegacy,protoreflect) digests the same cases. A case is non-trivial when it decodes without error and delivers at least one item (bytes), or holds at least one item/unknown record (content); distinct by (type, input)."
	if !c.Check(flags.ProtoLegacy, "harness built without -tags protolegacy: MessageSet support is disabled", nil, "") {
		return
	}
	p := startPeer(c)
	if p == nil {
		c.Check(false, "no peer binary (-tags protolegacy,protoreflect build) supplied: the two-build comparison cannot run", nil, "")
	} else {
		defer p.close()
	}
	// replayed inputs first
	for _, raw := range c.ReplayInputs() {
		var cs Case
		if json.Unmarshal(raw, &cs) == nil && typeByName(cs.Type) != nil {
			switch cs.Kind {
			case "bytes":
				runBytesCase(c, p, &cs)
			case "content":
				runContentCase(c, p, &cs)
			}
			continue
		}
		var l1 struct {
			Fn  string `json:"fn"`
			Hex string `json:"hex"`
		}
		if json.Unmarshal(raw, &l1) == nil && l1.Hex != "" {
			switch l1.Fn {
			case "ConsumeFieldValue":
				checkConsume(c, vh.UnHex(l1.Hex))
			case "Unmarshal":
				checkItems(c, vh.UnHex(l1.Hex))
			case "AppendUnknown":
				checkUnknown(c, vh.UnHex(l1.Hex), nil)
			}
		}
	}
	// the inputs of the two repaired defects, as fixed corpus entries
	for _, cs := range []*Case{
		{Kind: "bytes", Type: "messagesetpb", Hex: "0b10e8071a0208010c0b10e8071a0210070c"}, // two items of extension 1000
		{Kind: "bytes", Type: "messagesetpb", Hex: "0b1088271a820008010c"},                 // unknown item, length prefix 82 00
	} {
		runBytesCase(c, p, cs)
	}
	runL1Fixed(c)

	// exhaustive small space of item bodies
	maxLen := c.N(3, 4)
	bodies := smallBodies(maxLen)
	for _, seq := range bodies {
		if c.Failed() {
			return
		}
		body := bodyBytes(seq)
		full := append(append([]byte(nil), body...), 0x0c)
		for _, w := range []bool{false, true} {
			c.Check(implConsume(append(append([]byte(nil), full...), 0x0b), w) == refConsume(seq, w),
				"ConsumeFieldValue: not (last type id, concatenated message fields, length) on a body of well-formed fields",
				map[string]any{"fn": "ConsumeFieldValue", "wantLen": w, "hex": vh.Hex(full)}, "")
		}
		checkConsume(c, full)
		checkConsume(c, body) // no end marker
		c.Hist("L1:small-body")
		runBytesCase(c, p, &Case{Kind: "bytes", Type: "messagesetpb", Hex: vh.Hex(append([]byte{0x0b}, full...))})
	}
	// pairs of items: all pairs of bodies up to length 2 in the thorough tier, all pairs up to length 1 plus a
	// sample in the quick tier
	pairs := smallBodies(2)
	for i, sa := range pairs {
		for j, sb := range pairs {
			if c.Failed() {
				return
			}
			if !c.Thorough() && (i > 8 || j > 8) && c.Rand.Intn(8) != 0 {
				continue
			}
			a, b := bodyBytes(sa), bodyBytes(sb)
			x := append(append(append([]byte{0x0b}, a...), 0x0c, 0x0b), append(append([]byte(nil), b...), 0x0c)...)
			runBytesCase(c, p, &Case{Kind: "bytes", Type: "messagesetpb", Hex: vh.Hex(x)})
			c.Hist("L2:item-pair")
		}
	}
	c.Hist("exhaustive:bodies<=" + fmt.Sprint(maxLen))

	// group nesting at the recursion limit inside an item (skipped fields go through protowire.ConsumeFieldValue)
	for _, depth := range []int{100, 9999, 10000, 10001} {
		var b []byte
		b = append(b, 0x0b, 0x10, 0xe8, 0x07)
		for i := 0; i < depth; i++ {
			b = append(b, 0x23) // start group 4
		}
		for i := 0; i < depth; i++ {
			b = append(b, 0x24)
		}
		b = append(b, 0x1a, 0x02, 0x08, 0x01, 0x0c)
		checkItems(c, b)
		c.Hist("L1:deep-groups")
	}

	// PRNG stream: encodings
	n := c.N(2500, 120000)
	for i := 0; i < n; i++ {
		if c.Failed() {
			return
		}
		g := &gen{c, setTypes[c.Rand.Intn(len(setTypes))]}
		b := g.genSet()
		cs := &Case{Kind: "bytes", Type: g.T.Name, Hex: vh.Hex(b)}
		runBytesCase(c, p, cs)
		// the first item's body through ConsumeFieldValue directly
		if len(b) > 1 && b[0] == 0x0b {
			checkConsume(c, b[1:])
		}
	}
	// PRNG stream: contents
	n = c.N(1200, 60000)
	for i := 0; i < n; i++ {
		if c.Failed() {
			return
		}
		g := &gen{c, setTypes[c.Rand.Intn(len(setTypes))]}
		runContentCase(c, p, g.genContent())
	}
	// PRNG stream: unknown-field sections
	n = c.N(1500, 60000)
	for i := 0; i < n; i++ {
		if c.Failed() {
			return
		}
		g := &gen{c, setTypes[0]}
		var u []byte
		for k := c.Rand.Intn(4); k > 0; k-- {
			id := g.pickID()
			if id == 0 || id > math.MaxInt32 {
				id = 77
			}
			switch r := c.Rand.Intn(12); {
			case r < 8:
				u = protowire.AppendBytes(protowire.AppendTag(u, protowire.Number(id), protowire.BytesType), randPayload(c, 6))
			case r == 8:
				u = append(u, nonMinVarint(protowire.EncodeTag(protowire.Number(id), protowire.BytesType), 1)...)
				pl := randPayload(c, 4)
				u = append(append(u, nonMinVarint(uint64(len(pl)), 1)...), pl...)
			case r == 9:
				u = protowire.AppendVarint(protowire.AppendTag(u, protowire.Number(id), protowire.VarintType), uint64(c.Rand.Intn(1000)))
			case r == 10:
				u = protowire.AppendTag(u, protowire.Number(id), protowire.StartGroupType)
				u = protowire.AppendTag(u, protowire.Number(id), protowire.EndGroupType)
			default:
				u = append(u, randPayload(c, 3)...)
			}
		}
		if c.Rand.Intn(10) == 0 && len(u) > 0 {
			u = u[:c.Rand.Intn(len(u))]
		}
		checkUnknown(c, u, randPayload(c, 2))
	}
}
