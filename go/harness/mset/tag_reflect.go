//go:build protoreflect

package main

const reflectBuild = true
