package main

import (
	"fmt"
	"math"
	"strings"

	"google.golang.org/protobuf/internal/filedesc"
	"google.golang.org/protobuf/reflect/protoreflect"
)

// ---------- stream C: filedesc list types constructed directly ----------

type directElm struct {
	Name string `json:"name"`
	JSON string `json:"json,omitempty"` // "" = derived from the name (JSONCamelCase)
	Num  int32  `json:"num"`
}

func int32End(stop int32) int32 { return stop - 1 } // Go int32 wrap-around, like fieldRange.End()

// checkDirectFieldRanges drives filedesc.FieldRanges{List: list} (lazyInit sort + binary search +
// CheckValid) against the model and against membership.
func checkDirectFieldRanges(c *C, list [][2]int32, extra []int32, isMessageSet bool) {
	in := replayIn{Kind: "franges", List: list, Probes: extra, MS: isMessageSet}
	defer c.Recover("filedesc.FieldRanges direct", in, "")
	p := &filedesc.FieldRanges{}
	for _, r := range list {
		p.List = append(p.List, [2]protoreflect.FieldNumber{protoreflect.FieldNumber(r[0]), protoreflect.FieldNumber(r[1])})
	}
	probes := boundaryProbes(list, extra)
	// classification, computed here independently of the code under test
	distinct, wellFormed, numsOK := true, true, true
	starts := map[int32]bool{}
	for i, r := range list {
		if starts[r[0]] {
			distinct = false
		}
		starts[r[0]] = true
		if !(int64(r[0]) < int64(r[1])) {
			wellFormed = false
		}
		for _, v := range []int32{r[0], int32End(r[1])} {
			if !(v >= 1 && (v <= 1<<29-1 || isMessageSet)) {
				numsOK = false
			}
		}
		for j := 0; j < i; j++ {
			q := list[j]
			if !(int64(r[1]) <= int64(q[0]) || int64(q[1]) <= int64(r[0])) {
				wellFormed = false
			}
		}
	}
	c.Case(fmt.Sprintf("direct|franges|%v|%v", list, isMessageSet), len(list) > 0)
	c.Hist(fmt.Sprintf("direct-franges:wellformed=%v,distinct-starts=%v", wellFormed, distinct))
	if len(list) > 12 {
		c.Hist("direct-franges:len>12")
	}
	got := make([]bool, len(probes))
	for i, n := range probes {
		got[i] = p.Has(protoreflect.FieldNumber(n))
		member, memberWrap := false, false
		for _, r := range list {
			if r[0] <= n && int64(n) < int64(r[1]) {
				member = true
			}
			if r[0] <= n && n <= int32End(r[1]) {
				memberWrap = true
			}
		}
		if wellFormed {
			c.Check(got[i] == member, fmt.Sprintf("FieldRanges.Has(%d) = %v on non-overlapping ranges, listed membership = %v", n, got[i], member), in, "")
		} else {
			// arbitrary lists: Has may miss, but must never invent (ranges_has_sound)
			c.Check(!got[i] || memberWrap, fmt.Sprintf("FieldRanges.Has(%d) = true but no listed range contains it", n), in, "")
		}
	}
	valid := p.CheckValid(isMessageSet) == nil
	// CheckValid accepts exactly the well-formed lists (start < end on the stored pair, disjoint) with
	// valid end points — including lists with a stored end of MinInt32, which must be rejected.
	c.Check(valid == (wellFormed && numsOK), fmt.Sprintf("FieldRanges.CheckValid nil=%v, expected %v (non-empty, disjoint, valid numbers)", valid, wellFormed && numsOK), in, "")
	for _, r := range list {
		if r[1] == math.MinInt32 {
			c.Hist("direct-franges:stored-end-minint32")
		}
	}
	if c.HasModel() {
		ms := 0
		if isMessageSet {
			ms = 1
		}
		v := "0"
		if valid {
			v = "1"
		}
		c.Compare("FieldRanges.CheckValid: model != implementation", in, v, c.Ask("fcheck %d %s", ms, rangeToks(list)))
		if distinct || len(list) == 0 {
			// with pairwise distinct starts the sorted copy is unique (sortByStart_unique)
			c.Compare("FieldRanges.Has (direct list): model != implementation", in, bitsOf(got), c.Ask("fhas %d %s %s", len(probes), probeToks(probes), rangeToks(list)))
		} else {
			c.Hist("direct-franges:has-not-compared(duplicate starts, sort.Slice order unspecified)")
		}
	}
}

func checkDirectEnumRanges(c *C, list [][2]int32, extra []int32) {
	in := replayIn{Kind: "eranges", List: list, Probes: extra}
	defer c.Recover("filedesc.EnumRanges direct", in, "")
	p := &filedesc.EnumRanges{}
	for _, r := range list {
		p.List = append(p.List, [2]protoreflect.EnumNumber{protoreflect.EnumNumber(r[0]), protoreflect.EnumNumber(r[1])})
	}
	probes := boundaryProbes(list, extra)
	distinct, wellFormed := true, true
	starts := map[int32]bool{}
	for i, r := range list {
		if starts[r[0]] {
			distinct = false
		}
		starts[r[0]] = true
		if !(r[0] <= r[1]) {
			wellFormed = false
		}
		for j := 0; j < i; j++ {
			q := list[j]
			if !(r[1] < q[0] || q[1] < r[0]) {
				wellFormed = false
			}
		}
	}
	c.Case(fmt.Sprintf("direct|eranges|%v", list), len(list) > 0)
	c.Hist(fmt.Sprintf("direct-eranges:wellformed=%v,distinct-starts=%v", wellFormed, distinct))
	got := make([]bool, len(probes))
	for i, n := range probes {
		got[i] = p.Has(protoreflect.EnumNumber(n))
		member := false
		for _, r := range list {
			if r[0] <= n && n <= r[1] {
				member = true
			}
		}
		if wellFormed {
			c.Check(got[i] == member, fmt.Sprintf("EnumRanges.Has(%d) = %v on non-overlapping ranges, listed membership = %v", n, got[i], member), in, "")
		} else {
			c.Check(!got[i] || member, fmt.Sprintf("EnumRanges.Has(%d) = true but no listed range contains it", n), in, "")
		}
	}
	valid := p.CheckValid() == nil
	c.Check(valid == wellFormed, fmt.Sprintf("EnumRanges.CheckValid nil=%v, expected %v", valid, wellFormed), in, "")
	if c.HasModel() {
		v := "0"
		if valid {
			v = "1"
		}
		c.Compare("EnumRanges.CheckValid: model != implementation", in, v, c.Ask("echeck %s", rangeToks(list)))
		if distinct || len(list) == 0 {
			c.Compare("EnumRanges.Has (direct list): model != implementation", in, bitsOf(got), c.Ask("ehas %d %s %s", len(probes), probeToks(probes), rangeToks(list)))
		} else {
			c.Hist("direct-eranges:has-not-compared(duplicate starts, sort.Slice order unspecified)")
		}
	}
}

func checkDirectNames(c *C, list []string) {
	in := replayIn{Kind: "names", Strs: list}
	defer c.Recover("filedesc.Names direct", in, "")
	p := &filedesc.Names{}
	for _, s := range list {
		p.List = append(p.List, protoreflect.Name(s))
	}
	probes := append([]string{"a", "zz", "b"}, list...)
	c.Case("direct|names|"+strings.Join(list, ","), len(list) > 0)
	var bits strings.Builder
	dupfree := true
	seen := map[string]bool{}
	for _, s := range list {
		if seen[s] {
			dupfree = false
		}
		seen[s] = true
	}
	for _, q := range probes {
		has := p.Has(protoreflect.Name(q))
		c.Check(has == seen[q], fmt.Sprintf("Names.Has(%q) = %v", q, has), in, "")
		if has {
			bits.WriteByte('1')
		} else {
			bits.WriteByte('0')
		}
	}
	valid := p.CheckValid() == nil
	c.Check(valid == dupfree, fmt.Sprintf("Names.CheckValid nil=%v, duplicate-free=%v", valid, dupfree), in, "")
	if c.HasModel() {
		v := "0"
		if valid {
			v = "1"
		}
		c.Compare("Names.Has/CheckValid: model != implementation", in, bits.String()+" "+v,
			c.Ask("names %d %s %s", len(probes), strings.Join(probes, " "), strings.Join(list, " ")))
	}
}

func checkDirectFieldNumbers(c *C, nums []int32) {
	in := replayIn{Kind: "fnums", Probes: nums}
	defer c.Recover("filedesc.FieldNumbers direct", in, "")
	p := &filedesc.FieldNumbers{}
	for _, n := range nums {
		p.List = append(p.List, protoreflect.FieldNumber(n))
	}
	probes := append([]int32{0, 1, -1, 7}, nums...)
	c.Case(fmt.Sprintf("direct|fnums|%v", nums), len(nums) > 0)
	got := make([]bool, len(probes))
	for i, q := range probes {
		got[i] = p.Has(protoreflect.FieldNumber(q))
		exp := false
		for _, n := range nums {
			if n == q {
				exp = true
			}
		}
		c.Check(got[i] == exp, fmt.Sprintf("FieldNumbers.Has(%d) = %v", q, got[i]), in, "")
	}
	if c.HasModel() {
		c.Compare("FieldNumbers.Has: model != implementation", in, bitsOf(got), c.Ask("fnums %d %s %s", len(probes), probeToks(probes), probeToks(nums)))
	}
}

// checkDirectList builds one of the generated list types (or OneofFields) from elements that may
// share names / numbers / JSON names, and checks every keyed table.
func checkDirectList(c *C, typ string, elems []directElm) {
	in := replayIn{Kind: "list", Type: typ, Elems: elems}
	defer c.Recover("filedesc."+typ+" direct", in, "")
	w := &walker{c: c, origin: "direct:" + typ, mkInput: func(at string, detail any) replayIn { return in }}
	n := len(elems)
	base := func(i int) filedesc.Base {
		return filedesc.Base{L0: filedesc.BaseL0{FullName: protoreflect.FullName("m." + elems[i].Name), Index: i}}
	}
	names := make([]string, n)
	for i, e := range elems {
		names[i] = e.Name
	}
	at := fmt.Sprintf("direct %s %v", typ, elems)
	byNameOnly := func(get func(int) protoreflect.Descriptor, by func(protoreflect.Name) protoreflect.Descriptor) {
		w.lookups(at, "ByName", n, get, func(i int) []string { return []string{names[i]} },
			func(k string) protoreflect.Descriptor { return by(protoreflect.Name(k)) }, nameProbes(names), false)
	}
	mkFields := func() []filedesc.Field {
		fs := make([]filedesc.Field, n)
		for i, e := range elems {
			fs[i].Base = base(i)
			fs[i].L1.Number = protoreflect.FieldNumber(e.Num)
			if e.JSON != "" {
				fs[i].L1.StringName.InitJSON(e.JSON)
			}
		}
		return fs
	}
	switch typ {
	case "Fields":
		p := &filedesc.Fields{List: mkFields()}
		for i := 0; i < n; i++ {
			w.check(p.Get(i).Index() == i, "Get(i).Index() != i", at, i, "")
		}
		w.fieldLookups(at, p, false)
	case "OneofFields":
		fs := mkFields()
		p := &filedesc.OneofFields{}
		for i := range fs {
			p.List = append(p.List, &fs[i])
		}
		w.fieldLookups(at, p, true)
	case "EnumValues":
		p := &filedesc.EnumValues{List: make([]filedesc.EnumValue, n)}
		nums := make([]int64, n)
		for i, e := range elems {
			p.List[i].Base = base(i)
			p.List[i].L1.Number = protoreflect.EnumNumber(e.Num)
			nums[i] = int64(e.Num)
		}
		get := func(i int) protoreflect.Descriptor { return p.Get(i) }
		byNameOnly(get, func(k protoreflect.Name) protoreflect.Descriptor {
			if d := p.ByName(k); d != nil {
				return d
			}
			return nil
		})
		w.lookups(at, "ByNumber", n, get, func(i int) []string { return []string{numStr(nums[i])} },
			func(k string) protoreflect.Descriptor {
				v, ok := parseNum(k)
				if !ok {
					return nil
				}
				if d := p.ByNumber(protoreflect.EnumNumber(v)); d != nil {
					return d
				}
				return nil
			}, numberProbes(nums), false)
	case "Enums":
		p := &filedesc.Enums{List: make([]filedesc.Enum, n)}
		for i := range elems {
			p.List[i].Base = base(i)
		}
		byNameOnly(func(i int) protoreflect.Descriptor { return p.Get(i) }, func(k protoreflect.Name) protoreflect.Descriptor {
			if d := p.ByName(k); d != nil {
				return d
			}
			return nil
		})
	case "Messages":
		p := &filedesc.Messages{List: make([]filedesc.Message, n)}
		for i := range elems {
			p.List[i].Base = base(i)
		}
		byNameOnly(func(i int) protoreflect.Descriptor { return p.Get(i) }, func(k protoreflect.Name) protoreflect.Descriptor {
			if d := p.ByName(k); d != nil {
				return d
			}
			return nil
		})
	case "Oneofs":
		p := &filedesc.Oneofs{List: make([]filedesc.Oneof, n)}
		for i := range elems {
			p.List[i].Base = base(i)
		}
		byNameOnly(func(i int) protoreflect.Descriptor { return p.Get(i) }, func(k protoreflect.Name) protoreflect.Descriptor {
			if d := p.ByName(k); d != nil {
				return d
			}
			return nil
		})
	case "Extensions":
		p := &filedesc.Extensions{List: make([]filedesc.Extension, n)}
		for i := range elems {
			p.List[i].Base = base(i)
		}
		byNameOnly(func(i int) protoreflect.Descriptor { return p.Get(i) }, func(k protoreflect.Name) protoreflect.Descriptor {
			if d := p.ByName(k); d != nil {
				return d
			}
			return nil
		})
	case "Services":
		p := &filedesc.Services{List: make([]filedesc.Service, n)}
		for i := range elems {
			p.List[i].Base = base(i)
		}
		byNameOnly(func(i int) protoreflect.Descriptor { return p.Get(i) }, func(k protoreflect.Name) protoreflect.Descriptor {
			if d := p.ByName(k); d != nil {
				return d
			}
			return nil
		})
	case "Methods":
		p := &filedesc.Methods{List: make([]filedesc.Method, n)}
		for i := range elems {
			p.List[i].Base = base(i)
		}
		byNameOnly(func(i int) protoreflect.Descriptor { return p.Get(i) }, func(k protoreflect.Name) protoreflect.Descriptor {
			if d := p.ByName(k); d != nil {
				return d
			}
			return nil
		})
	default:
		c.R.Notes = append(c.R.Notes, "direct list: unknown type "+typ)
	}
}

var directTypes = []string{"Fields", "OneofFields", "EnumValues", "Enums", "Messages", "Oneofs", "Extensions", "Services", "Methods"}

func randElems(c *C) []directElm {
	namePool := []string{"a", "b", "foo_bar", "fooBar", "Foo", "foo", "c_d"}
	jsonPool := []string{"", "", "fooBar", "a", "X"}
	numPool := []int32{1, 2, 3, 1<<29 - 1, 2, 1}
	n := c.Rand.Intn(7)
	out := make([]directElm, n)
	for i := range out {
		out[i] = directElm{Name: namePool[c.Rand.Intn(len(namePool))], JSON: jsonPool[c.Rand.Intn(len(jsonPool))], Num: numPool[c.Rand.Intn(len(numPool))]}
	}
	return out
}

// randDisjointRanges: k disjoint ranges (end exclusive if excl) in listed (shuffled) order, with adjacent
// and single-number ranges and the extreme values.
func randDisjointRanges(c *C, excl bool, lo, hi int64, k int) [][2]int32 {
	// choose 2k cut points
	var out [][2]int32
	cur := lo
	if c.Rand.Intn(3) > 0 {
		cur = lo + int64(c.Rand.Intn(50))
	}
	for i := 0; i < k && cur <= hi; i++ {
		var width int64
		switch c.Rand.Intn(4) {
		case 0:
			width = 0 // single number
		case 1:
			width = int64(c.Rand.Intn(5))
		case 2:
			width = int64(c.Rand.Intn(1000))
		default:
			width = int64(c.Rand.Intn(1 << 24))
		}
		last := cur + width // inclusive last member
		if last > hi || (i == k-1 && c.Rand.Intn(3) == 0) {
			last = hi
		}
		stop := last
		if excl {
			stop = last + 1
		}
		if stop > math.MaxInt32 {
			break
		}
		out = append(out, [2]int32{int32(cur), int32(stop)})
		gap := int64(0) // adjacent
		switch c.Rand.Intn(3) {
		case 1:
			gap = int64(c.Rand.Intn(4))
		case 2:
			gap = int64(c.Rand.Intn(1 << 20))
		}
		cur = last + 1 + gap
	}
	c.Rand.Shuffle(len(out), func(i, j int) { out[i], out[j] = out[j], out[i] })
	return out
}

func randArbitraryRanges(c *C) [][2]int32 {
	pool := []int32{1, 2, 3, 4, 5, 6, 7, 8, 9, 10, 15, 20, 100, 0, -1, -5, math.MinInt32, math.MaxInt32, 1<<29 - 1, 1 << 29}
	n := c.Rand.Intn(16)
	out := make([][2]int32, n)
	for i := range out {
		a, b := pool[c.Rand.Intn(len(pool))], pool[c.Rand.Intn(len(pool))]
		if c.Rand.Intn(4) > 0 && a > b {
			a, b = b, a
		}
		out[i] = [2]int32{a, b}
	}
	return out
}

func streamDirect(c *C) {
	// fixed boundary cases
	fixedF := [][][2]int32{
		{},
		{{1, 2}},
		{{10, 20}, {1, 2}, {2, 10}},                                     // unsorted, adjacent
		{{1<<29 - 1, 1 << 29}},                                          // max valid number, single
		{{1, 1 << 29}},                                                  // everything
		{{1000, math.MaxInt32}, {4, 1000}},                              // message-set style
		{{1, 10}, {2, 3}, {4, 5}},                                       // overlapping: completeness fails (refuted theorem's witness shape)
		{{5, 5}}, {{5, 4}}, {{0, 3}}, {{-3, 2}}, {{5, math.MinInt32}}, // empty / inverted / invalid numbers / wrapping end
		{{3, 4}, {3, 4}}, {{3, 9}, {3, 4}},                              // duplicate starts
	}
	for _, l := range fixedF {
		for _, ms := range []bool{false, true} {
			checkDirectFieldRanges(c, l, nil, ms)
		}
	}
	fixedE := [][][2]int32{
		{}, {{0, 0}}, {{5, 5}, {-7, -7}, {6, 9}}, {{math.MinInt32, math.MaxInt32}}, {{math.MinInt32, -1}, {1, math.MaxInt32}},
		{{1, 10}, {2, 3}, {4, 5}}, {{5, 4}}, {{3, 4}, {3, 4}}, {{1, 5}, {5, 9}},
	}
	for _, l := range fixedE {
		checkDirectEnumRanges(c, l, nil)
	}
	for _, typ := range directTypes {
		checkDirectList(c, typ, nil)
		checkDirectList(c, typ, []directElm{{Name: "foo_bar", Num: 1}, {Name: "fooBar", Num: 2}})
		checkDirectList(c, typ, []directElm{{Name: "a", Num: 1}, {Name: "a", Num: 1}, {Name: "b", Num: 1, JSON: "a"}})
	}
	checkDirectNames(c, nil)
	checkDirectNames(c, []string{"a", "b", "a"})
	checkDirectFieldNumbers(c, nil)
	checkDirectFieldNumbers(c, []int32{3, 1, 3})

	n := c.N(6000, 120000)
	for i := 0; i < n && !c.Failed(); i++ {
		switch c.Rand.Intn(8) {
		case 0, 1:
			ms := c.Rand.Intn(3) == 0
			hi := int64(1<<29 - 1)
			if ms {
				hi = math.MaxInt32 - 1
			}
			k := c.Rand.Intn(6)
			if c.Rand.Intn(5) == 0 {
				k = 10 + c.Rand.Intn(20) // beyond the insertion-sort threshold of sort.Slice
			}
			checkDirectFieldRanges(c, randDisjointRanges(c, true, 1, hi, k), []int32{c.Rand.Int31()}, ms)
		case 2:
			checkDirectFieldRanges(c, randArbitraryRanges(c), nil, c.Rand.Intn(2) == 0)
		case 3:
			k := c.Rand.Intn(6)
			if c.Rand.Intn(5) == 0 {
				k = 10 + c.Rand.Intn(20)
			}
			lo := int64(math.MinInt32)
			if c.Rand.Intn(2) == 0 {
				lo = -int64(c.Rand.Intn(1000))
			}
			checkDirectEnumRanges(c, randDisjointRanges(c, false, lo, math.MaxInt32, k), []int32{-c.Rand.Int31()})
		case 4:
			checkDirectEnumRanges(c, randArbitraryRanges(c), nil)
		case 5, 6:
			checkDirectList(c, directTypes[c.Rand.Intn(len(directTypes))], randElems(c))
		default:
			pool := []string{"a", "b", "c", "foo", "Foo"}
			var l []string
			var nums []int32
			for j, m := 0, c.Rand.Intn(6); j < m; j++ {
				l = append(l, pool[c.Rand.Intn(len(pool))])
				nums = append(nums, int32(c.Rand.Intn(6)))
			}
			checkDirectNames(c, l)
			checkDirectFieldNumbers(c, nums)
		}
	}
}
