// descviews harness: C36 (descriptor views are internally consistent).
//
// Streams
//
//	A  EXHAUSTIVE over every descriptor of every linked file (protoregistry.GlobalFiles), once as
//	   linked (built by filedesc.Builder / lazy unmarshal) and once rebuilt through
//	   protodesc.NewFile(protodesc.ToFileDescriptorProto(fd)).
//	B  random small schemas (proto2 / proto3 / editions) through protodesc.NewFile.
//	C  internal/filedesc list types constructed directly (unsorted / adjacent / overlapping ranges,
//	   duplicate keys in every generated list type and in OneofFields) against the Lean model.
//
// The property predicate is evaluated directly on the implementation (c.Check); the Lean model
// (pbmodel_descviews) answers the same questions for the same lists (c.Compare).
package main

import (
	"encoding/json"
	"fmt"

	"google.golang.org/protobuf/internal/zz_verif_vh"
)

type C = vh.Ctx

func main() { vh.Main("descviews", run) }

func run(c *C) {
	switch c.Prop {
	case "C36":
		runC36(c)
	default:
		panic("descviews harness: unknown property " + c.Prop)
	}
}

func runC36(c *C) {
	c.R.Rule = "A case is one list view (children list of one parent, one keyed lookup table, one range list with its probe numbers, one RequiredNumbers/ReservedNames list, one oneof membership table) of one descriptor. " +
		"Stream A enumerates ALL descriptors of ALL linked files (exhaustive; each file as linked and rebuilt through protodesc.NewFile); stream B random schemas; stream C directly constructed filedesc lists. " +
		"Non-trivial = the list is non-empty; distinct by (origin, parent full name, view, keys/ranges). Range probes: every number within +-2 of every boundary plus fixed far values."

	// 0. replay inputs first
	for _, raw := range c.ReplayInputs() {
		replayInput(c, raw)
	}

	// 1. regression witness of DESIGN finding 11 — every run
	witnessFinding11(c)

	// 2. stream A
	streamLinked(c)
	if c.Failed() {
		return
	}
	// 3. stream C (cheap, model-heavy)
	streamDirect(c)
	if c.Failed() {
		return
	}
	// 4. stream B
	streamRandom(c)
}

// ---------- replay ----------

type replayIn struct {
	Kind   string      `json:"kind"`             // file | franges | eranges | list | names | fnums
	Origin string      `json:"origin,omitempty"` // linked:<path> | rebuilt:<path> | random | witness
	FDP    string      `json:"fdp,omitempty"`    // hex of the FileDescriptorProto
	At     string      `json:"at,omitempty"`
	Detail any         `json:"detail,omitempty"`
	List   [][2]int32  `json:"list,omitempty"`
	Probes []int32     `json:"probes,omitempty"`
	MS     bool        `json:"ms,omitempty"`
	Type   string      `json:"type,omitempty"`
	Elems  []directElm `json:"elems,omitempty"`
	Strs   []string    `json:"strs,omitempty"`
}

func replayInput(c *C, raw json.RawMessage) {
	var in replayIn
	if err := json.Unmarshal(raw, &in); err != nil {
		c.R.Notes = append(c.R.Notes, "replay: cannot parse input: "+err.Error())
		return
	}
	c.Hist("replay:" + in.Kind)
	switch in.Kind {
	case "file":
		replayFile(c, in)
	case "franges":
		checkDirectFieldRanges(c, in.List, in.Probes, in.MS)
	case "eranges":
		checkDirectEnumRanges(c, in.List, in.Probes)
	case "list":
		checkDirectList(c, in.Type, in.Elems)
	case "names":
		checkDirectNames(c, in.Strs)
	case "fnums":
		checkDirectFieldNumbers(c, in.Probes)
	default:
		c.R.Notes = append(c.R.Notes, fmt.Sprintf("replay: unknown input kind %q", in.Kind))
	}
}
