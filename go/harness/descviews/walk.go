package main

import (
	"encoding/hex"
	"fmt"
	"math"
	"sort"
	"strconv"
	"strings"

	"google.golang.org/protobuf/proto"
	"google.golang.org/protobuf/reflect/protodesc"
	"google.golang.org/protobuf/reflect/protoreflect"
	"google.golang.org/protobuf/reflect/protoregistry"
	"google.golang.org/protobuf/types/descriptorpb"
)


// walker checks every view of every descriptor of one file.
type walker struct {
	c      *C
	origin string
	file   protoreflect.FileDescriptor
	fdp    string // hex of the FileDescriptorProto (computed on first failure)
	ndesc  int

	mkInput func(at string, detail any) replayIn // overrides the replay input (directly constructed lists)
}

func (w *walker) input(at string, detail any) replayIn {
	if w.mkInput != nil {
		return w.mkInput(at, detail)
	}
	if w.fdp == "" && w.file != nil {
		func() {
			defer func() { recover() }()
			b, err := proto.MarshalOptions{Deterministic: true}.Marshal(protodesc.ToFileDescriptorProto(w.file))
			if err == nil {
				w.fdp = hex.EncodeToString(b)
			}
		}()
	}
	return replayIn{Kind: "file", Origin: w.origin, FDP: w.fdp, At: at, Detail: detail}
}

func (w *walker) check(ok bool, what, at string, detail any, sig string) bool {
	if ok {
		return true
	}
	return w.c.Check(false, what, w.input(at, detail), sig)
}

func (w *walker) compare(what, at string, detail any, impl, model string) {
	if !w.c.HasModel() || impl == model {
		return
	}
	w.c.Compare(what, w.input(at, detail), impl, model)
}

func (w *walker) count(kind string) {
	w.ndesc++
	w.c.Hist("desc:" + kind)
}

// checkFile walks one file; returns the number of descriptors visited.
func checkFile(c *C, fd protoreflect.FileDescriptor, origin string) int {
	w := &walker{c: c, origin: origin, file: fd}
	defer c.Recover("descriptor walk of "+origin, w.input("", nil), "")
	w.count("file")
	at := "file:" + fd.Path()
	w.check(fd.ParentFile() == fd, "File.ParentFile() != file", at, nil, "")
	w.check(fd.Parent() == nil, "File.Parent() != nil", at, nil, "")
	w.check(fd.Index() == 0, "File.Index() != 0", at, nil, "")
	w.check(fd.FullName() == fd.Package(), "File.FullName() != Package()", at, nil, "")
	w.check(fd.Name() == fd.Package().Name(), "File.Name() != Package().Name()", at, nil, "")
	w.messages(fd, fd.Messages(), 1)
	w.enums(fd, fd.Enums(), 1)
	w.extensions(fd, fd.Extensions(), 1)
	w.services(fd, fd.Services(), 1)
	return w.ndesc
}

// ---------- generic pieces ----------

// scopeOf is the naming scope of the children of parent: the parent's full name, except for enum
// values, which are siblings of their enum (documented protobuf scoping).
func scopeOf(parent protoreflect.Descriptor) protoreflect.FullName {
	if _, ok := parent.(protoreflect.EnumDescriptor); ok {
		return parent.FullName().Parent()
	}
	return parent.FullName()
}

func joinFull(scope protoreflect.FullName, name protoreflect.Name) protoreflect.FullName {
	if scope == "" {
		return protoreflect.FullName(name)
	}
	return scope + "." + protoreflect.FullName(name)
}

func dash(s string) string {
	if s == "" {
		return "-"
	}
	return s
}

func keyTok(s string) string { return "x" + hex.EncodeToString([]byte(s)) }

// chainTokens renders the path file -> parent for the model ("m"/"e" + name).
func chainTokens(parent protoreflect.Descriptor) []string {
	var rev []string
	for x, n := parent, 0; x != nil && n < 70; x, n = x.Parent(), n+1 {
		if _, ok := x.(protoreflect.FileDescriptor); ok {
			break
		}
		flag := "m"
		if _, ok := x.(protoreflect.EnumDescriptor); ok {
			flag = "e"
		}
		rev = append(rev, flag+string(x.Name()))
	}
	for i, j := 0, len(rev)-1; i < j; i, j = i+1, j-1 {
		rev[i], rev[j] = rev[j], rev[i]
	}
	return rev
}

func modelSafeName(s string) bool {
	return s != "" && !strings.ContainsAny(s, " |\t\r\n") && s != "-"
}

// children checks a declaration list under parent: Get(i).Index()==i, Parent/ParentFile, FullName
// = scope.Name, bounded parent chain ending in the file; and compares with the model's construction.
func (w *walker) children(parent protoreflect.Descriptor, view string, depth int, n int, get func(int) protoreflect.Descriptor) {
	at := view + " of " + string(parent.FullName())
	w.c.Case(w.origin+"|"+at+"|children", n > 0)
	scope := scopeOf(parent)
	var items []string
	names := make([]string, 0, n)
	modelOK := true
	for i := 0; i < n; i++ {
		d := get(i)
		if !w.check(d != nil, "Get(i) == nil inside Len()", at, i, "") {
			return
		}
		w.check(d.Index() == i, fmt.Sprintf("Get(%d).Index() = %d", i, d.Index()), at, i, "")
		w.check(d.Parent() == parent, "Get(i).Parent() is not the list's owner", at, i, "")
		w.check(d.ParentFile() == w.file, "Get(i).ParentFile() is not the file", at, i, "")
		nm := d.Name()
		w.check(!strings.Contains(string(nm), "."), "Name() contains a dot", at, string(nm), "")
		w.check(d.FullName() == joinFull(scope, nm),
			fmt.Sprintf("FullName %q != scope %q joined with Name %q", d.FullName(), scope, nm), at, i, "")
		w.check(d.FullName().Name() == nm, "FullName().Name() != Name()", at, i, "")
		w.check(d.FullName().Parent() == scope, "FullName().Parent() != naming scope", at, i, "")
		// parent chain: exactly depth steps to the file, then nil
		steps, var_last := 0, protoreflect.Descriptor(nil)
		for x := protoreflect.Descriptor(d); x != nil; x = x.Parent() {
			var_last = x
			steps++
			if steps > 64 {
				break
			}
		}
		w.check(steps == depth+1, fmt.Sprintf("parent chain has %d steps, expected %d", steps, depth+1), at, i, "")
		w.check(var_last == protoreflect.Descriptor(w.file), "parent chain does not end at ParentFile()", at, i, "")
		items = append(items, fmt.Sprintf("%d:%s:%s:%s", d.Index(), dash(string(d.FullName())), dash(string(nm)), dash(string(d.FullName().Parent()))))
		names = append(names, string(nm))
		if !modelSafeName(string(nm)) {
			modelOK = false
		}
	}
	if n == 0 || !w.c.HasModel() || !modelOK {
		return
	}
	pkg := string(w.file.Package())
	if pkg != "" && !modelSafeName(pkg) {
		return
	}
	flag := "m"
	if _, ok := get(0).(protoreflect.EnumDescriptor); ok {
		flag = "e"
	}
	impl := strings.Join(items, " ") + fmt.Sprintf(" depth=%d file=%s top=0 beyond=nil", depth, dash(pkg))
	ans := w.c.Ask("children %s %s | %s %s", dash(pkg), strings.Join(chainTokens(parent), " "), flag, strings.Join(names, " "))
	w.compare("children list: model construction != implementation (index:fullName:name:scope)", at, names, impl, ans)
}

// lookups checks one keyed table of one list. keysOf(i) are the keys element i contributes; by(key)
// is the accessor under test; the expected answer is the FIRST element carrying the key.
// oneofView marks OneofFields (one key per member and table, no alias keys; first-wins).
func (w *walker) lookups(at, table string, n int, get func(int) protoreflect.Descriptor, keysOf func(int) []string,
	by func(string) protoreflect.Descriptor, extraProbes []string, oneofView bool) {
	keys := make([][]string, n)
	probeSet := map[string]struct{}{}
	var probes []string
	add := func(p string) {
		if _, ok := probeSet[p]; !ok {
			probeSet[p] = struct{}{}
			probes = append(probes, p)
		}
	}
	dup := false
	seen := map[string]int{}
	for i := 0; i < n; i++ {
		keys[i] = keysOf(i)
		for _, k := range keys[i] {
			add(k)
			if j, ok := seen[k]; ok && j != i {
				dup = true
			}
			seen[k] = i
		}
	}
	for _, p := range extraProbes {
		add(p)
	}
	w.c.Case(w.origin+"|"+at+"|"+table+"|"+strings.Join(probes, ","), n > 0)
	if dup {
		w.c.Hist("lookup-with-duplicate-keys:" + table)
	}
	implAns := make([]string, len(probes))
	for pi, p := range probes {
		first, last, cnt := -1, -1, 0
		for i := 0; i < n; i++ {
			for _, k := range keys[i] {
				if k == p {
					if first < 0 {
						first = i
					}
					last = i
					cnt++
					break
				}
			}
		}
		got := by(p)
		pos := -1
		if got != nil {
			pos = -2 // foreign
			for i := 0; i < n; i++ {
				if get(i) == got {
					pos = i
					break
				}
			}
		}
		if pos == -1 {
			implAns[pi] = "nil"
		} else if pos == -2 {
			implAns[pi] = "foreign"
		} else {
			implAns[pi] = strconv.Itoa(pos)
		}
		if pos != first {
			w.check(false, fmt.Sprintf("%s(%q) returned element %s, the first element with that key is %d", table, p, implAns[pi], first),
				at, map[string]any{"table": table, "key": p, "keys": keys, "last-with-key": last, "members-with-key": cnt}, "")
		}
	}
	if !w.c.HasModel() || n == 0 {
		return
	}
	ptoks := make([]string, len(probes))
	for i, p := range probes {
		ptoks[i] = keyTok(p)
	}
	var ans string
	if oneofView {
		etoks := make([]string, n)
		for i := range keys {
			etoks[i] = keyTok(keys[i][0])
		}
		ans = w.c.Ask("oneof %d %s %s", len(probes), strings.Join(ptoks, " "), strings.Join(etoks, " "))
	} else {
		etoks := make([]string, n)
		for i := range keys {
			ks := make([]string, len(keys[i]))
			for j, k := range keys[i] {
				ks[j] = keyTok(k)
			}
			etoks[i] = strings.Join(ks, ",")
		}
		ans = w.c.Ask("first %d %s %s", len(probes), strings.Join(ptoks, " "), strings.Join(etoks, " "))
	}
	w.compare("keyed lookup "+table+": model table != implementation", at, map[string]any{"table": table, "keys": keys, "probes": probes},
		strings.Join(implAns, " "), ans)
}

func nameProbes(names []string) []string {
	out := []string{"", "no_such_name"}
	for i, s := range names {
		if i < 4 {
			out = append(out, s+"x", strings.ToLower(s), strings.ToUpper(s))
		}
	}
	return out
}

func numStr(n int64) string { return strconv.FormatInt(n, 10) }

func numberProbes(nums []int64) []string {
	out := []string{"0", "-1", "1", numStr(math.MaxInt32), numStr(math.MinInt32)}
	for i, n := range nums {
		if i < 6 {
			out = append(out, numStr(n-1), numStr(n+1))
		}
	}
	return out
}

func parseNum(s string) (int32, bool) {
	v, err := strconv.ParseInt(s, 10, 64)
	if err != nil || v < math.MinInt32 || v > math.MaxInt32 {
		return 0, false
	}
	return int32(v), true
}

// ---------- per-kind walks ----------

func (w *walker) messages(parent protoreflect.Descriptor, ms protoreflect.MessageDescriptors, depth int) {
	n := ms.Len()
	get := func(i int) protoreflect.Descriptor { return ms.Get(i) }
	w.children(parent, "Messages", depth, n, get)
	names := make([]string, n)
	for i := 0; i < n; i++ {
		names[i] = string(ms.Get(i).Name())
	}
	w.lookups("Messages of "+string(parent.FullName()), "ByName", n, get,
		func(i int) []string { return []string{names[i]} },
		func(k string) protoreflect.Descriptor {
			if d := ms.ByName(protoreflect.Name(k)); d != nil {
				return d
			}
			return nil
		}, nameProbes(names), false)
	for i := 0; i < n; i++ {
		w.message(ms.Get(i), depth)
	}
}

func (w *walker) message(m protoreflect.MessageDescriptor, depth int) {
	w.count("message")
	at := "message " + string(m.FullName())
	w.fields(m, depth+1)
	w.oneofs(m, depth+1)
	w.requiredNumbers(m)
	w.namesView(at, "ReservedNames", m.ReservedNames(), fieldNameList(m.Fields()))
	w.fieldRanges(at, "ReservedRanges", m.ReservedRanges())
	w.fieldRanges(at, "ExtensionRanges", m.ExtensionRanges())
	if m.IsMapEntry() {
		w.c.Hist("map-entry-message")
	}
	w.messages(m, m.Messages(), depth+1)
	w.enums(m, m.Enums(), depth+1)
	w.extensions(m, m.Extensions(), depth+1)
}

func fieldNameList(fs protoreflect.FieldDescriptors) []string {
	var out []string
	for i := 0; i < fs.Len() && i < 4; i++ {
		out = append(out, string(fs.Get(i).Name()))
	}
	return out
}

// isGroupLike re-implements filedesc.isGroupLike from its definition (the lower-cased alias under
// which a group-like field is also found by ByJSONName/ByTextName).
func isGroupLike(fd protoreflect.FieldDescriptor) bool {
	if fd.Kind() != protoreflect.GroupKind || fd.Message() == nil {
		return false
	}
	if strings.ToLower(string(fd.Message().Name())) != string(fd.Name()) {
		return false
	}
	if fd.Message().ParentFile() != fd.ParentFile() {
		return false
	}
	if fd.IsExtension() {
		return fd.Parent() == fd.Message().Parent()
	}
	return protoreflect.Descriptor(fd.ContainingMessage()) == fd.Message().Parent()
}

func jsonKeys(f protoreflect.FieldDescriptor) []string {
	ks := []string{f.JSONName()}
	if isGroupLike(f) {
		ks = append(ks, strings.ToLower(f.JSONName()))
	}
	return ks
}

func textKeys(f protoreflect.FieldDescriptor) []string {
	ks := []string{f.TextName()}
	if isGroupLike(f) {
		ks = append(ks, strings.ToLower(f.TextName()))
	}
	return ks
}

func fdOrNil(d protoreflect.FieldDescriptor) protoreflect.Descriptor {
	if d == nil {
		return nil
	}
	return d
}

// fieldLookups checks the four tables of a FieldDescriptors view.
func (w *walker) fieldLookups(at string, fs protoreflect.FieldDescriptors, oneofView bool) {
	n := fs.Len()
	get := func(i int) protoreflect.Descriptor { return fs.Get(i) }
	names := make([]string, n)
	nums := make([]int64, n)
	var jsons, texts []string
	for i := 0; i < n; i++ {
		f := fs.Get(i)
		names[i] = string(f.Name())
		nums[i] = int64(f.Number())
		jsons = append(jsons, f.JSONName())
		texts = append(texts, f.TextName())
	}
	one := func(ks []string) []string {
		if oneofView { // OneofFields registers exactly one key per table
			return ks[:1]
		}
		return ks
	}
	w.lookups(at, "ByName", n, get, func(i int) []string { return []string{names[i]} },
		func(k string) protoreflect.Descriptor { return fdOrNil(fs.ByName(protoreflect.Name(k))) }, nameProbes(names), oneofView)
	w.lookups(at, "ByNumber", n, get, func(i int) []string { return []string{numStr(nums[i])} },
		func(k string) protoreflect.Descriptor {
			v, ok := parseNum(k)
			if !ok {
				return nil
			}
			return fdOrNil(fs.ByNumber(protoreflect.FieldNumber(v)))
		}, numberProbes(nums), oneofView)
	w.lookups(at, "ByJSONName", n, get, func(i int) []string { return one(jsonKeys(fs.Get(i))) },
		func(k string) protoreflect.Descriptor { return fdOrNil(fs.ByJSONName(k)) }, append(nameProbes(jsons), names...), oneofView)
	w.lookups(at, "ByTextName", n, get, func(i int) []string { return one(textKeys(fs.Get(i))) },
		func(k string) protoreflect.Descriptor { return fdOrNil(fs.ByTextName(k)) }, append(nameProbes(texts), names...), oneofView)
}

func (w *walker) fields(m protoreflect.MessageDescriptor, depth int) {
	fs := m.Fields()
	n := fs.Len()
	w.children(m, "Fields", depth, n, func(i int) protoreflect.Descriptor { return fs.Get(i) })
	at := "Fields of " + string(m.FullName())
	w.fieldLookups(at, fs, false)
	for i := 0; i < n; i++ {
		f := fs.Get(i)
		w.count("field")
		w.check(f.ContainingMessage() == m, "Field.ContainingMessage() is not the declaring message", at, i, "")
		w.check(!f.IsExtension(), "message field reports IsExtension", at, i, "")
		w.mapLinks(at, i, f)
	}
}

// mapLinks: MapKey/MapValue <-> IsMap / entry message.
func (w *walker) mapLinks(at string, i int, f protoreflect.FieldDescriptor) {
	entry := f.Message() != nil && f.Message().IsMapEntry()
	if !f.IsExtension() {
		w.check(f.IsMap() == entry, "IsMap() != (Message() is a map entry)", at, i, "")
	}
	k, v := f.MapKey(), f.MapValue()
	if f.IsMap() {
		w.c.Hist("map-field")
		if !w.check(k != nil && v != nil, "IsMap but MapKey/MapValue nil", at, i, "") {
			return
		}
		e := f.Message()
		w.check(k.Number() == 1 && v.Number() == 2, "MapKey/MapValue numbers are not 1/2", at, i, "")
		w.check(k.ContainingMessage() == e && v.ContainingMessage() == e, "MapKey/MapValue do not belong to Message()", at, i, "")
		w.check(protoreflect.Descriptor(k) == fdOrNil(e.Fields().ByNumber(1)) && protoreflect.Descriptor(v) == fdOrNil(e.Fields().ByNumber(2)),
			"MapKey/MapValue != entry.Fields().ByNumber(1/2)", at, i, "")
		w.check(f.Cardinality() == protoreflect.Repeated && !f.IsList(), "map field is not repeated / reports IsList", at, i, "")
	} else {
		w.check(k == nil && v == nil, "not a map but MapKey/MapValue non-nil", at, i, "")
	}
}

func (w *walker) oneofs(m protoreflect.MessageDescriptor, depth int) {
	os := m.Oneofs()
	n := os.Len()
	get := func(i int) protoreflect.Descriptor { return os.Get(i) }
	w.children(m, "Oneofs", depth, n, get)
	names := make([]string, n)
	for i := 0; i < n; i++ {
		names[i] = string(os.Get(i).Name())
	}
	at := "Oneofs of " + string(m.FullName())
	w.lookups(at, "ByName", n, get, func(i int) []string { return []string{names[i]} },
		func(k string) protoreflect.Descriptor {
			if d := os.ByName(protoreflect.Name(k)); d != nil {
				return d
			}
			return nil
		}, nameProbes(names), false)

	fs := m.Fields()
	// Field -> Oneof direction
	oneofIdx := make([]string, fs.Len())
	for j := 0; j < fs.Len(); j++ {
		f := fs.Get(j)
		o := f.ContainingOneof()
		oneofIdx[j] = "-"
		if o == nil {
			continue
		}
		oneofIdx[j] = strconv.Itoa(o.Index())
		ok := w.check(o.Parent() == protoreflect.Descriptor(m), "ContainingOneof().Parent() is not the field's message", at, j, "")
		ok = ok && w.check(o.Index() < n && os.Get(o.Index()) == o, "ContainingOneof() is not Oneofs().Get(its index)", at, j, "")
		if ok {
			cnt := 0
			for x := 0; x < o.Fields().Len(); x++ {
				if o.Fields().Get(x) == f {
					cnt++
				}
			}
			w.check(cnt == 1, fmt.Sprintf("field appears %d times in ContainingOneof().Fields()", cnt), at, j, "")
		}
	}
	// Oneof -> Field direction
	for k := 0; k < n; k++ {
		o := os.Get(k)
		w.count("oneof")
		oat := "Fields of oneof " + string(o.FullName())
		ofs := o.Fields()
		var members []string
		prev := -1
		for x := 0; x < ofs.Len(); x++ {
			f := ofs.Get(x)
			w.check(f.ContainingOneof() == o, "oneof member's ContainingOneof() is another oneof", oat, x, "")
			w.check(f.Index() < fs.Len() && fs.Get(f.Index()) == f, "oneof member is not the message's field at its index", oat, x, "")
			w.check(f.Index() > prev, "oneof members not in field order", oat, x, "")
			prev = f.Index()
			members = append(members, strconv.Itoa(f.Index()))
		}
		w.c.Case(w.origin+"|"+oat+"|members", ofs.Len() > 0)
		if w.c.HasModel() {
			impl := strings.Join(members, " ")
			if impl == "" {
				impl = "-"
			}
			ans := w.c.Ask("members %d %s", k, strings.Join(oneofIdx, " "))
			w.compare("oneof membership: model != implementation", oat, oneofIdx, impl, ans)
		}
		w.fieldLookups(oat, ofs, true)
	}
}

func (w *walker) requiredNumbers(m protoreflect.MessageDescriptor) {
	at := "RequiredNumbers of " + string(m.FullName())
	fs := m.Fields()
	rn := m.RequiredNumbers()
	var want []int64
	var toks []string
	var nums []int64
	for i := 0; i < fs.Len(); i++ {
		f := fs.Get(i)
		c := "o"
		switch f.Cardinality() {
		case protoreflect.Required:
			c = "r"
			want = append(want, int64(f.Number()))
		case protoreflect.Repeated:
			c = "p"
		}
		toks = append(toks, fmt.Sprintf("%s:%d", c, f.Number()))
		nums = append(nums, int64(f.Number()))
	}
	var got []int64
	for i := 0; i < rn.Len(); i++ {
		got = append(got, int64(rn.Get(i)))
	}
	w.c.Case(w.origin+"|"+at+"|"+strings.Join(toks, ","), len(want) > 0)
	w.check(fmt.Sprint(got) == fmt.Sprint(want), fmt.Sprintf("RequiredNumbers %v != numbers of required fields %v", got, want), at, toks, "")
	probes := append([]int64{0, 1, -1}, nums...)
	for _, n := range nums {
		probes = append(probes, n+1)
	}
	var bits strings.Builder
	var ptoks []string
	for _, p := range probes {
		exp := false
		for _, x := range want {
			if x == p {
				exp = true
			}
		}
		has := rn.Has(protoreflect.FieldNumber(p))
		w.check(has == exp, fmt.Sprintf("RequiredNumbers.Has(%d) = %v", p, has), at, toks, "")
		if has {
			bits.WriteByte('1')
		} else {
			bits.WriteByte('0')
		}
		ptoks = append(ptoks, numStr(p))
	}
	if w.c.HasModel() && fs.Len() > 0 {
		ans := w.c.Ask("required %s", strings.Join(toks, " "))
		impl := "-"
		if len(got) > 0 {
			s := make([]string, len(got))
			for i, g := range got {
				s[i] = numStr(g)
			}
			impl = strings.Join(s, " ")
		}
		w.compare("RequiredNumbers: model != implementation", at, toks, impl, ans)
		gtoks := make([]string, len(got))
		for i, g := range got {
			gtoks[i] = numStr(g)
		}
		ans = w.c.Ask("fnums %d %s %s", len(ptoks), strings.Join(ptoks, " "), strings.Join(gtoks, " "))
		w.compare("RequiredNumbers.Has: model != implementation", at, toks, bits.String(), ans)
	}
}

func (w *walker) namesView(at, view string, ns protoreflect.Names, extra []string) {
	n := ns.Len()
	list := make([]string, n)
	for i := 0; i < n; i++ {
		list[i] = string(ns.Get(i))
	}
	probes := append([]string{}, list...)
	probes = append(probes, extra...)
	for i, s := range list {
		if i < 3 {
			probes = append(probes, s+"x", strings.ToUpper(s))
		}
	}
	probes = append(probes, "zz_absent")
	w.c.Case(w.origin+"|"+at+"|"+view+"|"+strings.Join(list, ","), n > 0)
	var bits strings.Builder
	safe := true
	for _, p := range probes {
		exp := false
		for _, s := range list {
			if s == p {
				exp = true
			}
		}
		has := ns.Has(protoreflect.Name(p))
		w.check(has == exp, fmt.Sprintf("%s.Has(%q) = %v", view, p, has), at+" "+view, list, "")
		if has {
			bits.WriteByte('1')
		} else {
			bits.WriteByte('0')
		}
		if !modelSafeName(p) {
			safe = false
		}
	}
	if w.c.HasModel() && n > 0 && safe {
		ans := w.c.Ask("names %d %s %s", len(probes), strings.Join(probes, " "), strings.Join(list, " "))
		// the model also answers CheckValid; a list that lives in a validated descriptor has no duplicates
		dupfree := "1"
		seen := map[string]bool{}
		for _, s := range list {
			if seen[s] {
				dupfree = "0"
			}
			seen[s] = true
		}
		w.compare(view+".Has: model != implementation", at+" "+view, list, bits.String()+" "+dupfree, ans)
	}
}

// boundaryProbes: every number within +-2 of every boundary, plus fixed far values.
func boundaryProbes(list [][2]int32, extra []int32) []int32 {
	set := map[int32]struct{}{}
	var out []int32
	add := func(v int64) {
		if v < math.MinInt32 || v > math.MaxInt32 {
			return
		}
		if _, ok := set[int32(v)]; !ok {
			set[int32(v)] = struct{}{}
			out = append(out, int32(v))
		}
	}
	for _, r := range list {
		for d := int64(-2); d <= 2; d++ {
			add(int64(r[0]) + d)
			add(int64(r[1]) + d)
		}
	}
	for _, v := range []int64{0, 1, -1, 2, 18999, 19000, 19999, 20000, 1<<29 - 1, 1 << 29, 1<<29 + 1, math.MaxInt32, math.MaxInt32 - 1, math.MinInt32, math.MinInt32 + 1} {
		add(v)
	}
	for _, v := range extra {
		add(int64(v))
	}
	sort.Slice(out, func(i, j int) bool { return out[i] < out[j] })
	return out
}

func rangeToks(list [][2]int32) string {
	var sb strings.Builder
	for i, r := range list {
		if i > 0 {
			sb.WriteByte(' ')
		}
		fmt.Fprintf(&sb, "%d %d", r[0], r[1])
	}
	return sb.String()
}

func probeToks(ps []int32) string {
	s := make([]string, len(ps))
	for i, p := range ps {
		s[i] = strconv.Itoa(int(p))
	}
	return strings.Join(s, " ")
}

func bitsOf(bs []bool) string {
	if len(bs) == 0 {
		return "-"
	}
	b := make([]byte, len(bs))
	for i, x := range bs {
		b[i] = '0'
		if x {
			b[i] = '1'
		}
	}
	return string(b)
}

func (w *walker) fieldRanges(at, view string, fr protoreflect.FieldRanges) {
	n := fr.Len()
	list := make([][2]int32, n)
	for i := 0; i < n; i++ {
		r := fr.Get(i)
		list[i] = [2]int32{int32(r[0]), int32(r[1])}
	}
	probes := boundaryProbes(list, []int32{int32(w.c.Rand.Int31()), int32(w.c.Rand.Intn(1 << 20))})
	w.c.Case(w.origin+"|"+at+"|"+view+"|"+rangeToks(list), n > 0)
	if n > 0 {
		w.c.Hist("field-ranges-len:" + bucket(n))
	}
	got := make([]bool, len(probes))
	for i, p := range probes {
		exp := false
		for _, r := range list {
			if r[0] <= p && p < r[1] { // end exclusive
				exp = true
			}
		}
		got[i] = fr.Has(protoreflect.FieldNumber(p))
		w.check(got[i] == exp, fmt.Sprintf("%s.Has(%d) = %v, membership in the listed ranges (end exclusive) = %v", view, p, got[i], exp),
			at+" "+view, map[string]any{"list": list, "n": p}, "")
	}
	if w.c.HasModel() && n > 0 {
		ans := w.c.Ask("fhas %d %s %s", len(probes), probeToks(probes), rangeToks(list))
		w.compare(view+".Has: model != implementation", at+" "+view, map[string]any{"list": list, "probes": probes}, bitsOf(got), ans)
	}
}

func (w *walker) enumRanges(at, view string, er protoreflect.EnumRanges) {
	n := er.Len()
	list := make([][2]int32, n)
	for i := 0; i < n; i++ {
		r := er.Get(i)
		list[i] = [2]int32{int32(r[0]), int32(r[1])}
	}
	probes := boundaryProbes(list, []int32{int32(w.c.Rand.Int31()), -int32(w.c.Rand.Intn(1 << 20))})
	w.c.Case(w.origin+"|"+at+"|"+view+"|"+rangeToks(list), n > 0)
	if n > 0 {
		w.c.Hist("enum-ranges-len:" + bucket(n))
	}
	got := make([]bool, len(probes))
	for i, p := range probes {
		exp := false
		for _, r := range list {
			if r[0] <= p && p <= r[1] { // end inclusive
				exp = true
			}
		}
		got[i] = er.Has(protoreflect.EnumNumber(p))
		w.check(got[i] == exp, fmt.Sprintf("%s.Has(%d) = %v, membership in the listed ranges (end inclusive) = %v", view, p, got[i], exp),
			at+" "+view, map[string]any{"list": list, "n": p}, "")
	}
	if w.c.HasModel() && n > 0 {
		ans := w.c.Ask("ehas %d %s %s", len(probes), probeToks(probes), rangeToks(list))
		w.compare(view+".Has: model != implementation", at+" "+view, map[string]any{"list": list, "probes": probes}, bitsOf(got), ans)
	}
}

func bucket(n int) string {
	switch {
	case n <= 1:
		return "1"
	case n <= 3:
		return "2-3"
	case n <= 8:
		return "4-8"
	default:
		return "9+"
	}
}

func (w *walker) enums(parent protoreflect.Descriptor, es protoreflect.EnumDescriptors, depth int) {
	n := es.Len()
	get := func(i int) protoreflect.Descriptor { return es.Get(i) }
	w.children(parent, "Enums", depth, n, get)
	names := make([]string, n)
	for i := 0; i < n; i++ {
		names[i] = string(es.Get(i).Name())
	}
	w.lookups("Enums of "+string(parent.FullName()), "ByName", n, get, func(i int) []string { return []string{names[i]} },
		func(k string) protoreflect.Descriptor {
			if d := es.ByName(protoreflect.Name(k)); d != nil {
				return d
			}
			return nil
		}, nameProbes(names), false)
	for i := 0; i < n; i++ {
		e := es.Get(i)
		w.count("enum")
		at := "enum " + string(e.FullName())
		vs := e.Values()
		vn := vs.Len()
		vget := func(i int) protoreflect.Descriptor { return vs.Get(i) }
		w.children(e, "Values", depth+1, vn, vget)
		vnames := make([]string, vn)
		vnums := make([]int64, vn)
		for j := 0; j < vn; j++ {
			w.count("enumvalue")
			vnames[j] = string(vs.Get(j).Name())
			vnums[j] = int64(vs.Get(j).Number())
		}
		w.lookups("Values of "+string(e.FullName()), "ByName", vn, vget, func(i int) []string { return []string{vnames[i]} },
			func(k string) protoreflect.Descriptor {
				if d := vs.ByName(protoreflect.Name(k)); d != nil {
					return d
				}
				return nil
			}, nameProbes(vnames), false)
		w.lookups("Values of "+string(e.FullName()), "ByNumber", vn, vget, func(i int) []string { return []string{numStr(vnums[i])} },
			func(k string) protoreflect.Descriptor {
				v, ok := parseNum(k)
				if !ok {
					return nil
				}
				if d := vs.ByNumber(protoreflect.EnumNumber(v)); d != nil {
					return d
				}
				return nil
			}, numberProbes(vnums), false)
		w.namesView(at, "ReservedNames", e.ReservedNames(), vnames[:min(len(vnames), 3)])
		w.enumRanges(at, "ReservedRanges", e.ReservedRanges())
	}
}

func (w *walker) extensions(parent protoreflect.Descriptor, xs protoreflect.ExtensionDescriptors, depth int) {
	n := xs.Len()
	get := func(i int) protoreflect.Descriptor { return xs.Get(i) }
	w.children(parent, "Extensions", depth, n, get)
	names := make([]string, n)
	for i := 0; i < n; i++ {
		names[i] = string(xs.Get(i).Name())
	}
	at := "Extensions of " + string(parent.FullName())
	w.lookups(at, "ByName", n, get, func(i int) []string { return []string{names[i]} },
		func(k string) protoreflect.Descriptor {
			if d := xs.ByName(protoreflect.Name(k)); d != nil {
				return d
			}
			return nil
		}, nameProbes(names), false)
	for i := 0; i < n; i++ {
		x := xs.Get(i)
		w.count("extension")
		w.check(x.IsExtension(), "extension does not report IsExtension", at, i, "")
		w.check(x.ContainingOneof() == nil, "extension has a ContainingOneof", at, i, "")
		w.check(x.ContainingMessage() != nil, "extension without extendee", at, i, "")
		w.mapLinks(at, i, x)
	}
}

func (w *walker) services(parent protoreflect.Descriptor, ss protoreflect.ServiceDescriptors, depth int) {
	n := ss.Len()
	get := func(i int) protoreflect.Descriptor { return ss.Get(i) }
	w.children(parent, "Services", depth, n, get)
	names := make([]string, n)
	for i := 0; i < n; i++ {
		names[i] = string(ss.Get(i).Name())
	}
	w.lookups("Services of "+string(parent.FullName()), "ByName", n, get, func(i int) []string { return []string{names[i]} },
		func(k string) protoreflect.Descriptor {
			if d := ss.ByName(protoreflect.Name(k)); d != nil {
				return d
			}
			return nil
		}, nameProbes(names), false)
	for i := 0; i < n; i++ {
		s := ss.Get(i)
		w.count("service")
		ms := s.Methods()
		mn := ms.Len()
		mget := func(i int) protoreflect.Descriptor { return ms.Get(i) }
		w.children(s, "Methods", depth+1, mn, mget)
		mnames := make([]string, mn)
		for j := 0; j < mn; j++ {
			w.count("method")
			mnames[j] = string(ms.Get(j).Name())
		}
		w.lookups("Methods of "+string(s.FullName()), "ByName", mn, mget, func(i int) []string { return []string{mnames[i]} },
			func(k string) protoreflect.Descriptor {
				if d := ms.ByName(protoreflect.Name(k)); d != nil {
					return d
				}
				return nil
			}, nameProbes(mnames), false)
	}
}

// ---------- stream A: all linked files ----------

func streamLinked(c *C) {
	var files []protoreflect.FileDescriptor
	protoregistry.GlobalFiles.RangeFiles(func(fd protoreflect.FileDescriptor) bool {
		files = append(files, fd)
		return true
	})
	sort.Slice(files, func(i, j int) bool { return files[i].Path() < files[j].Path() })
	total := 0
	for _, fd := range files {
		if c.Failed() {
			return
		}
		total += checkFile(c, fd, "linked:"+fd.Path())
		c.Hist("linked-file")
		// the same file rebuilt through protodesc (the other construction path)
		func() {
			fdp := protodesc.ToFileDescriptorProto(fd)
			nf, err := protodesc.NewFile(fdp, protoregistry.GlobalFiles)
			if err != nil {
				c.Hist("rebuilt-file-rejected")
				if len(c.R.Notes) < 8 {
					c.R.Notes = append(c.R.Notes, "protodesc.NewFile rejects ToFileDescriptorProto of linked "+fd.Path()+": "+err.Error())
				}
				return
			}
			total += checkFile(c, nf, "rebuilt:"+fd.Path())
			c.Hist("rebuilt-file")
		}()
	}
	c.R.Exhaustive = true
	c.R.Notes = append(c.R.Notes, fmt.Sprintf("stream A exhaustive: %d linked files, %d descriptors (each file as linked and rebuilt through protodesc.NewFile)", len(files), total))
	c.Sample(map[string]any{"stream": "A", "linked_files": len(files), "descriptors": total})
}

// replayFile re-runs the walk on the file of a stored failure.
func replayFile(c *C, in replayIn) {
	if strings.HasPrefix(in.Origin, "linked:") {
		if fd, err := protoregistry.GlobalFiles.FindFileByPath(strings.TrimPrefix(in.Origin, "linked:")); err == nil {
			checkFile(c, fd, in.Origin)
			return
		}
	}
	b, err := hex.DecodeString(in.FDP)
	if err != nil || len(b) == 0 {
		c.R.Notes = append(c.R.Notes, "replay: no descriptor bytes for "+in.Origin)
		return
	}
	fdp := &descriptorpb.FileDescriptorProto{}
	if err := proto.Unmarshal(b, fdp); err != nil {
		c.R.Notes = append(c.R.Notes, "replay: "+err.Error())
		return
	}
	nf, err := protodesc.NewFile(fdp, protoregistry.GlobalFiles)
	if err != nil {
		c.R.Notes = append(c.R.Notes, "replay: NewFile: "+err.Error())
		return
	}
	checkFile(c, nf, "replay:"+in.Origin)
}
