package main

import (
	"fmt"
	"math"
	"strings"

	"google.golang.org/protobuf/proto"
	"google.golang.org/protobuf/reflect/protodesc"
	"google.golang.org/protobuf/reflect/protoregistry"
	"google.golang.org/protobuf/types/descriptorpb"
)

// ---------- regression witness of DESIGN finding 11 (fixed in /repo 74fa6e8) ----------

func finding11Proto() *descriptorpb.FileDescriptorProto {
	opt := descriptorpb.FieldDescriptorProto_LABEL_OPTIONAL.Enum()
	i32 := descriptorpb.FieldDescriptorProto_TYPE_INT32.Enum()
	return &descriptorpb.FileDescriptorProto{
		Name:    proto.String("verif/finding11.proto"),
		Syntax:  proto.String("proto2"),
		Package: proto.String("verif.f11"),
		MessageType: []*descriptorpb.DescriptorProto{{
			Name: proto.String("M"),
			Field: []*descriptorpb.FieldDescriptorProto{
				{Name: proto.String("foo_bar"), Number: proto.Int32(1), Label: opt, Type: i32, OneofIndex: proto.Int32(0)},
				{Name: proto.String("fooBar"), Number: proto.Int32(2), Label: opt, Type: i32, OneofIndex: proto.Int32(0)},
			},
			OneofDecl: []*descriptorpb.OneofDescriptorProto{{Name: proto.String("o")}},
		}},
	}
}

// witnessFinding11: proto2 M{oneof o{int32 foo_bar=1; int32 fooBar=2}} via descriptorpb ->
// protodesc.NewFile; M.Fields().ByJSONName("fooBar") vs o.Fields().ByJSONName("fooBar").
func witnessFinding11(c *C) {
	fd, err := protodesc.NewFile(finding11Proto(), protoregistry.GlobalFiles)
	if err != nil {
		c.R.Notes = append(c.R.Notes, "finding-11 witness is rejected by protodesc.NewFile: "+err.Error())
		c.Hist("witness11:rejected")
		return
	}
	m := fd.Messages().Get(0)
	o := m.Oneofs().Get(0)
	a := m.Fields().ByJSONName("fooBar")
	b := o.Fields().ByJSONName("fooBar")
	c.Sample(map[string]any{"witness": "finding 11: proto2 M{oneof o{int32 foo_bar=1; int32 fooBar=2}}",
		"M.Fields().ByJSONName(fooBar)": fmt.Sprint(a.Name()), "o.Fields().ByJSONName(fooBar)": fmt.Sprint(b.Name())})
	if a == b {
		c.Hist("witness11:views-agree")
	} else {
		c.Hist("witness11:views-disagree")
	}
	checkFile(c, fd, "witness:finding11")
}

// ---------- stream B: random schemas ----------

type sgen struct {
	c      *C
	syntax string // proto2 | proto3 | editions
	pkg    string
	// messages that can be extended: full name -> extension ranges
	extendable []extTarget
	topMsgs    []string // full names (with leading dot) of top-level messages
}

type extTarget struct {
	name   string
	ranges [][2]int32
}

func (g *sgen) full(scope, name string) string {
	if scope == "" {
		return name
	}
	return scope + "." + name
}

func (g *sgen) features(fs *descriptorpb.FeatureSet) *descriptorpb.FieldOptions {
	return &descriptorpb.FieldOptions{Features: fs}
}

var jsonNamePool = []string{"fooBar", "x", "Y", "foo_bar", "mygrp0"}

// genMessage builds one message named name in scope (full name of the parent scope).
func (g *sgen) genMessage(scope, name string, depth int) *descriptorpb.DescriptorProto {
	c := g.c
	self := g.full(scope, name)
	md := &descriptorpb.DescriptorProto{Name: proto.String(name)}
	opt := descriptorpb.FieldDescriptorProto_LABEL_OPTIONAL.Enum()
	rep := descriptorpb.FieldDescriptorProto_LABEL_REPEATED.Enum()
	req := descriptorpb.FieldDescriptorProto_LABEL_REQUIRED.Enum()

	// ranges first: reserved + extension ranges, disjoint from each other
	var all [][2]int32
	if c.Rand.Intn(2) == 0 {
		all = randDisjointRanges(c, true, 1, 1<<29-1, 1+c.Rand.Intn(6))
		if c.Rand.Intn(6) == 0 {
			all = randDisjointRanges(c, true, 1, 1<<29-1, 10+c.Rand.Intn(12))
		}
	}
	var extRanges [][2]int32
	for _, r := range all {
		if g.syntax != "proto3" && c.Rand.Intn(2) == 0 {
			md.ExtensionRange = append(md.ExtensionRange, &descriptorpb.DescriptorProto_ExtensionRange{Start: proto.Int32(r[0]), End: proto.Int32(r[1])})
			extRanges = append(extRanges, r)
		} else {
			md.ReservedRange = append(md.ReservedRange, &descriptorpb.DescriptorProto_ReservedRange{Start: proto.Int32(r[0]), End: proto.Int32(r[1])})
		}
	}
	if len(extRanges) > 0 {
		g.extendable = append(g.extendable, extTarget{name: "." + self, ranges: extRanges})
	}
	used := map[int32]bool{}
	pickNum := func() int32 {
		for try := 0; try < 200; try++ {
			var n int32
			switch c.Rand.Intn(6) {
			case 0:
				n = 1<<29 - 1 - int32(c.Rand.Intn(3))
			case 1:
				n = int32(1 + c.Rand.Intn(100000))
			default:
				n = int32(1 + c.Rand.Intn(30))
			}
			if used[n] || (n >= 19000 && n <= 19999) {
				continue
			}
			in := false
			for _, r := range all {
				if r[0] <= n && n < r[1] {
					in = true
				}
			}
			if !in {
				used[n] = true
				return n
			}
		}
		return 0
	}
	usedNames := map[string]bool{}
	namePool := []string{"foo_bar", "fooBar", "foo_Bar", "a", "b", "x_y", "xY", "val", "mygrp0", "z9"}
	pickName := func() string {
		for try := 0; try < 50; try++ {
			s := namePool[c.Rand.Intn(len(namePool))]
			if c.Rand.Intn(3) == 0 {
				s = fmt.Sprintf("f%d", c.Rand.Intn(40))
			}
			if !usedNames[s] {
				usedNames[s] = true
				return s
			}
		}
		return ""
	}
	scalarTypes := []descriptorpb.FieldDescriptorProto_Type{
		descriptorpb.FieldDescriptorProto_TYPE_INT32, descriptorpb.FieldDescriptorProto_TYPE_STRING,
		descriptorpb.FieldDescriptorProto_TYPE_BOOL, descriptorpb.FieldDescriptorProto_TYPE_BYTES,
		descriptorpb.FieldDescriptorProto_TYPE_UINT64, descriptorpb.FieldDescriptorProto_TYPE_DOUBLE,
	}
	addField := func(f *descriptorpb.FieldDescriptorProto) { md.Field = append(md.Field, f) }
	plain := func(label *descriptorpb.FieldDescriptorProto_Label) *descriptorpb.FieldDescriptorProto {
		nm, num := pickName(), pickNum()
		if nm == "" || num == 0 {
			return nil
		}
		f := &descriptorpb.FieldDescriptorProto{Name: proto.String(nm), Number: proto.Int32(num), Label: label}
		if c.Rand.Intn(5) == 0 {
			f.Type = descriptorpb.FieldDescriptorProto_TYPE_MESSAGE.Enum()
			f.TypeName = proto.String("." + self)
		} else {
			f.Type = scalarTypes[c.Rand.Intn(len(scalarTypes))].Enum()
		}
		if c.Rand.Intn(5) == 0 {
			f.JsonName = proto.String(jsonNamePool[c.Rand.Intn(len(jsonNamePool))])
		}
		return f
	}
	nOneof := 0
	nf := c.Rand.Intn(7)
	var synthetic []*descriptorpb.FieldDescriptorProto
	for i := 0; i < nf; i++ {
		switch k := c.Rand.Intn(12); {
		case k < 5: // singular / repeated / required
			label := opt
			switch c.Rand.Intn(4) {
			case 0:
				label = rep
			case 1:
				if g.syntax == "proto2" {
					label = req
				}
			}
			f := plain(label)
			if f == nil {
				continue
			}
			if g.syntax == "editions" && label == opt && c.Rand.Intn(3) == 0 {
				f.Options = g.features(&descriptorpb.FeatureSet{FieldPresence: descriptorpb.FeatureSet_LEGACY_REQUIRED.Enum()})
				g.c.Hist("gen:editions-legacy-required")
			}
			if g.syntax == "proto3" && label == opt && f.GetType() != descriptorpb.FieldDescriptorProto_TYPE_MESSAGE && c.Rand.Intn(4) == 0 {
				f.Proto3Optional = proto.Bool(true)
				synthetic = append(synthetic, f)
				g.c.Hist("gen:proto3-optional")
			}
			addField(f)
		case k < 8: // a oneof with 1..3 consecutive members
			m := 1 + c.Rand.Intn(3)
			idx := int32(nOneof)
			got := 0
			for j := 0; j < m; j++ {
				f := plain(opt)
				if f == nil {
					continue
				}
				f.OneofIndex = proto.Int32(idx)
				addField(f)
				got++
			}
			if got > 0 {
				md.OneofDecl = append(md.OneofDecl, &descriptorpb.OneofDescriptorProto{Name: proto.String(fmt.Sprintf("o%d", nOneof))})
				nOneof++
				g.c.Hist(fmt.Sprintf("gen:oneof-members=%d", got))
			}
		case k == 8: // map field
			num := pickNum()
			nm := fmt.Sprintf("mp_%d", len(md.Field))
			if num == 0 || usedNames[nm] {
				continue
			}
			usedNames[nm] = true
			entry := mapEntryName(nm)
			md.NestedType = append(md.NestedType, &descriptorpb.DescriptorProto{
				Name:    proto.String(entry),
				Options: &descriptorpb.MessageOptions{MapEntry: proto.Bool(true)},
				Field: []*descriptorpb.FieldDescriptorProto{
					{Name: proto.String("key"), Number: proto.Int32(1), Label: opt, Type: descriptorpb.FieldDescriptorProto_TYPE_STRING.Enum()},
					{Name: proto.String("value"), Number: proto.Int32(2), Label: opt, Type: descriptorpb.FieldDescriptorProto_TYPE_INT32.Enum()},
				},
			})
			addField(&descriptorpb.FieldDescriptorProto{Name: proto.String(nm), Number: proto.Int32(num), Label: rep,
				Type: descriptorpb.FieldDescriptorProto_TYPE_MESSAGE.Enum(), TypeName: proto.String("." + self + "." + entry)})
			g.c.Hist("gen:map-field")
		case k == 9 && g.syntax != "proto3": // group / delimited, group-like with an upper-case JSON name
			num := pickNum()
			gi := len(md.Field)
			gname := fmt.Sprintf("My_grp%d", gi)
			fname := strings.ToLower(gname)
			if g.syntax == "editions" && c.Rand.Intn(3) == 0 {
				fname = fmt.Sprintf("notlike%d", gi) // delimited but not group-like
			}
			if num == 0 || usedNames[fname] {
				continue
			}
			usedNames[fname] = true
			md.NestedType = append(md.NestedType, &descriptorpb.DescriptorProto{Name: proto.String(gname)})
			f := &descriptorpb.FieldDescriptorProto{Name: proto.String(fname), Number: proto.Int32(num), Label: opt, TypeName: proto.String("." + self + "." + gname)}
			if g.syntax == "proto2" {
				f.Type = descriptorpb.FieldDescriptorProto_TYPE_GROUP.Enum()
			} else {
				f.Type = descriptorpb.FieldDescriptorProto_TYPE_MESSAGE.Enum()
				f.Options = g.features(&descriptorpb.FeatureSet{MessageEncoding: descriptorpb.FeatureSet_DELIMITED.Enum()})
			}
			addField(f)
			// a field whose own name is the lower-cased JSON/text alias of the group-like field
			if c.Rand.Intn(2) == 0 {
				alias := strings.ToLower(jsonCamel(fname)) // e.g. mygrp3
				if n2 := pickNum(); n2 != 0 && !usedNames[alias] {
					usedNames[alias] = true
					af := &descriptorpb.FieldDescriptorProto{Name: proto.String(alias), Number: proto.Int32(n2), Label: opt, Type: descriptorpb.FieldDescriptorProto_TYPE_INT32.Enum()}
					if c.Rand.Intn(2) == 0 { // before the group field
						md.Field = append(md.Field[:len(md.Field)-1], af, f)
					} else {
						addField(af)
					}
					g.c.Hist("gen:group-alias-collision")
				}
			}
			g.c.Hist("gen:group-or-delimited")
		default:
			f := plain(opt)
			if f != nil {
				addField(f)
			}
		}
	}
	// oneof members must be consecutive: the group-alias insertion above may have split one; repair by
	// leaving it to NewFile to reject (counted).
	for _, f := range synthetic {
		f.OneofIndex = proto.Int32(int32(len(md.OneofDecl)))
		md.OneofDecl = append(md.OneofDecl, &descriptorpb.OneofDescriptorProto{Name: proto.String("_" + f.GetName())})
	}
	for i, k := 0, c.Rand.Intn(3); i < k; i++ {
		md.ReservedName = append(md.ReservedName, fmt.Sprintf("res_%d", c.Rand.Intn(5)+i*5))
	}
	if depth < 2 {
		for i, k := 0, c.Rand.Intn(3); i < k; i++ {
			md.NestedType = append(md.NestedType, g.genMessage(self, fmt.Sprintf("N%d", i), depth+1))
		}
	}
	for i, k := 0, c.Rand.Intn(2); i < k; i++ {
		md.EnumType = append(md.EnumType, g.genEnum(fmt.Sprintf("E%d", i), fmt.Sprintf("%s_E%d", strings.ToUpper(name), i)))
	}
	return md
}

func mapEntryName(s string) string {
	var b []byte
	up := true
	for _, ch := range []byte(s) {
		switch {
		case ch == '_':
			up = true
		case up:
			b = append(b, []byte(strings.ToUpper(string(ch)))...)
			up = false
		default:
			b = append(b, ch)
		}
	}
	return string(b) + "Entry"
}

func jsonCamel(s string) string {
	var b []byte
	up := false
	for _, ch := range []byte(s) {
		if ch == '_' {
			up = true
			continue
		}
		if up && ch >= 'a' && ch <= 'z' {
			ch -= 'a' - 'A'
		}
		up = false
		b = append(b, ch)
	}
	return string(b)
}

// genEnum: value names carry a per-enum prefix because values are siblings of the enum.
func (g *sgen) genEnum(name, prefix string) *descriptorpb.EnumDescriptorProto {
	c := g.c
	ed := &descriptorpb.EnumDescriptorProto{Name: proto.String(name)}
	nv := 1 + c.Rand.Intn(6)
	nums := []int32{0}
	pool := []int32{1, 2, 3, -1, -2, 7, 100, math.MaxInt32, math.MinInt32, 1 << 29}
	alias := c.Rand.Intn(3) == 0 && nv > 1
	for i := 1; i < nv; i++ {
		var n int32
		if alias && c.Rand.Intn(2) == 0 {
			n = nums[c.Rand.Intn(len(nums))]
		} else {
			for try := 0; try < 50; try++ {
				n = pool[c.Rand.Intn(len(pool))]
				dupl := false
				for _, x := range nums {
					if x == n {
						dupl = true
					}
				}
				if !dupl {
					break
				}
				n = int32(10 + i)
			}
		}
		nums = append(nums, n)
	}
	if g.syntax == "proto2" && c.Rand.Intn(2) == 0 {
		nums[0] = int32(5 + c.Rand.Intn(3)) // closed enum: first value need not be zero
		for i := 1; i < len(nums); i++ {
			if nums[i] == nums[0] && !alias {
				nums[i] = 0
			}
		}
	}
	seen := map[int32]bool{}
	hasAlias := false
	for i, n := range nums {
		if seen[n] {
			hasAlias = true
		}
		seen[n] = true
		ed.Value = append(ed.Value, &descriptorpb.EnumValueDescriptorProto{Name: proto.String(fmt.Sprintf("%s_V%d", prefix, i)), Number: proto.Int32(n)})
	}
	if hasAlias {
		ed.Options = &descriptorpb.EnumOptions{AllowAlias: proto.Bool(true)}
		g.c.Hist("gen:enum-alias")
	}
	if c.Rand.Intn(2) == 0 {
		lo := int64(math.MinInt32)
		if c.Rand.Intn(2) == 0 {
			lo = -50
		}
		k := 1 + c.Rand.Intn(5)
		if c.Rand.Intn(6) == 0 {
			k = 10 + c.Rand.Intn(10)
		}
		for _, r := range randDisjointRanges(c, false, lo, math.MaxInt32, k) {
			hit := false
			for _, n := range nums {
				if r[0] <= n && n <= r[1] {
					hit = true
				}
			}
			if !hit {
				ed.ReservedRange = append(ed.ReservedRange, &descriptorpb.EnumDescriptorProto_EnumReservedRange{Start: proto.Int32(r[0]), End: proto.Int32(r[1])})
			}
		}
	}
	for i, k := 0, c.Rand.Intn(3); i < k; i++ {
		ed.ReservedName = append(ed.ReservedName, fmt.Sprintf("RES_%d", i))
	}
	return ed
}

func (g *sgen) genExtension(name string) *descriptorpb.FieldDescriptorProto {
	c := g.c
	if len(g.extendable) == 0 {
		return nil
	}
	t := g.extendable[c.Rand.Intn(len(g.extendable))]
	r := t.ranges[c.Rand.Intn(len(t.ranges))]
	num := r[0]
	if w := int64(r[1]) - int64(r[0]); w > 1 {
		num = r[0] + int32(c.Rand.Int63n(w))
	}
	if num >= 19000 && num <= 19999 {
		return nil
	}
	label := descriptorpb.FieldDescriptorProto_LABEL_OPTIONAL.Enum()
	if c.Rand.Intn(3) == 0 {
		label = descriptorpb.FieldDescriptorProto_LABEL_REPEATED.Enum()
	}
	return &descriptorpb.FieldDescriptorProto{Name: proto.String(name), Number: proto.Int32(num), Label: label,
		Type: descriptorpb.FieldDescriptorProto_TYPE_INT32.Enum(), Extendee: proto.String(t.name)}
}

func randFileProto(c *C, idx int) *descriptorpb.FileDescriptorProto {
	g := &sgen{c: c}
	switch c.Rand.Intn(10) {
	case 0, 1, 2, 3:
		g.syntax = "proto2"
	case 4, 5, 6:
		g.syntax = "proto3"
	default:
		g.syntax = "editions"
	}
	g.pkg = []string{"", "p", "p.q.r", "verif_rand"}[c.Rand.Intn(4)]
	fdp := &descriptorpb.FileDescriptorProto{Name: proto.String(fmt.Sprintf("verif/rand_%d.proto", idx))}
	if g.pkg != "" {
		fdp.Package = proto.String(g.pkg)
	}
	if g.syntax == "editions" {
		fdp.Syntax = proto.String("editions")
		fdp.Edition = descriptorpb.Edition_EDITION_2023.Enum()
	} else {
		fdp.Syntax = proto.String(g.syntax)
	}
	nm := 1 + c.Rand.Intn(3)
	for i := 0; i < nm; i++ {
		name := fmt.Sprintf("M%d", i)
		g.topMsgs = append(g.topMsgs, "."+g.full(g.pkg, name))
		fdp.MessageType = append(fdp.MessageType, g.genMessage(g.pkg, name, 0))
	}
	for i, k := 0, c.Rand.Intn(3); i < k; i++ {
		fdp.EnumType = append(fdp.EnumType, g.genEnum(fmt.Sprintf("TE%d", i), fmt.Sprintf("TE%d", i)))
	}
	if g.syntax != "proto3" {
		usedExt := map[string]bool{}
		for i, k := 0, c.Rand.Intn(4); i < k; i++ {
			if x := g.genExtension(fmt.Sprintf("ext_%d", i)); x != nil {
				key := fmt.Sprintf("%s#%d", x.GetExtendee(), x.GetNumber())
				if usedExt[key] {
					continue
				}
				usedExt[key] = true
				if c.Rand.Intn(2) == 0 || len(fdp.MessageType) == 0 {
					fdp.Extension = append(fdp.Extension, x)
				} else {
					m := fdp.MessageType[c.Rand.Intn(len(fdp.MessageType))]
					m.Extension = append(m.Extension, x)
				}
				c.Hist("gen:extension")
			}
		}
	}
	for i, k := 0, c.Rand.Intn(2); i < k; i++ {
		sd := &descriptorpb.ServiceDescriptorProto{Name: proto.String(fmt.Sprintf("S%d", i))}
		for j, mk := 0, c.Rand.Intn(4); j < mk; j++ {
			sd.Method = append(sd.Method, &descriptorpb.MethodDescriptorProto{Name: proto.String(fmt.Sprintf("Call%d", j)),
				InputType: proto.String(g.topMsgs[c.Rand.Intn(len(g.topMsgs))]), OutputType: proto.String(g.topMsgs[c.Rand.Intn(len(g.topMsgs))])})
		}
		fdp.Service = append(fdp.Service, sd)
	}
	c.Hist("gen:syntax=" + g.syntax)
	return fdp
}

// boundarySchemas: hand-written schemas at the edges of the number space.
func boundarySchemas(c *C) {
	mk := func(name string, ms bool, ext, res [][2]int32) *descriptorpb.FileDescriptorProto {
		md := &descriptorpb.DescriptorProto{Name: proto.String("B")}
		if ms {
			md.Options = &descriptorpb.MessageOptions{MessageSetWireFormat: proto.Bool(true)}
		}
		for _, r := range ext {
			md.ExtensionRange = append(md.ExtensionRange, &descriptorpb.DescriptorProto_ExtensionRange{Start: proto.Int32(r[0]), End: proto.Int32(r[1])})
		}
		for _, r := range res {
			md.ReservedRange = append(md.ReservedRange, &descriptorpb.DescriptorProto_ReservedRange{Start: proto.Int32(r[0]), End: proto.Int32(r[1])})
		}
		return &descriptorpb.FileDescriptorProto{Name: proto.String("verif/boundary_" + name + ".proto"), Syntax: proto.String("proto2"),
			Package: proto.String("verif.b"), MessageType: []*descriptorpb.DescriptorProto{md}}
	}
	cases := []*descriptorpb.FileDescriptorProto{
		mk("mset_max", true, [][2]int32{{4, math.MaxInt32}}, nil),
		mk("mset_split", true, [][2]int32{{1000, math.MaxInt32}, {4, 1000}}, [][2]int32{{1, 4}}),
		mk("mset_end_minint32", true, [][2]int32{{4, math.MinInt32}}, nil),
		mk("max_valid", false, [][2]int32{{1<<29 - 1, 1 << 29}}, [][2]int32{{1, 1<<29 - 1}}),
		mk("res_end_minint32", false, nil, [][2]int32{{4, math.MinInt32}}),
		mk("adjacent", false, [][2]int32{{10, 20}, {30, 40}}, [][2]int32{{20, 30}, {1, 10}, {40, 41}}),
	}
	for _, fdp := range cases {
		fd, err := protodesc.NewFile(fdp, protoregistry.GlobalFiles)
		if err != nil {
			c.Hist("boundary-schema-rejected:" + fdp.GetName())
			continue
		}
		c.Hist("boundary-schema-accepted:" + fdp.GetName())
		checkFile(c, fd, "boundary:"+fdp.GetName())
	}
}

func streamRandom(c *C) {
	boundarySchemas(c)
	n := c.N(2500, 40000)
	accepted := 0
	for i := 0; i < n && !c.Failed(); i++ {
		fdp := randFileProto(c, i)
		fd, err := protodesc.NewFile(fdp, protoregistry.GlobalFiles)
		if err != nil {
			c.Hist("random-schema-rejected")
			if len(c.R.Notes) < 12 && c.R.Histogram["random-schema-rejected"] <= 3 {
				c.R.Notes = append(c.R.Notes, "random schema rejected (example): "+err.Error())
			}
			continue
		}
		accepted++
		c.Hist("random-schema-accepted")
		checkFile(c, fd, fmt.Sprintf("random:%d", i))
		if accepted == 1 {
			c.Sample(map[string]any{"stream": "B", "example": fdp.String()})
		}
	}
}
