// delim harness: C27 — size-delimited streams frame messages exactly (encoding/protodelim).
//
// Every case is a byte stream (or a sequence of real messages written with protodelim.MarshalTo, possibly
// cut), a MaxSize, a reader kind (bufio of a given buffer size over a chunking source, a reader that only
// implements io.Reader+io.ByteReader, bytes.Reader, bytes.Buffer), a chunk oracle and the condition the
// source reports at its end (io.EOF or a foreign error).  UnmarshalFrom is called repeatedly on the same
// reader until it fails; after every call the outcome class, the body bytes and the logical position of
// the reader are compared with Model.Delim (pbmodel_delim) and the property predicates are evaluated
// directly on the implementation.
package main

import (
	"bufio"
	"bytes"
	"encoding/binary"
	"encoding/json"
	"errors"
	"fmt"
	"hash/fnv"
	"io"
	"math"
	"strconv"
	"strings"
	"time"

	"google.golang.org/protobuf/encoding/protodelim"
	"google.golang.org/protobuf/encoding/protowire"
	testpb "google.golang.org/protobuf/internal/testprotos/test"
	"google.golang.org/protobuf/internal/zz_verif_vh"
	"google.golang.org/protobuf/proto"
	"google.golang.org/protobuf/reflect/protoreflect"
	"google.golang.org/protobuf/runtime/protoiface"
)

type C = vh.Ctx

func main() { vh.Main("delim", run) }

func run(c *C) {
	switch c.Prop {
	case "C27":
		runC27(c)
	default:
		panic("delim harness: unknown property " + c.Prop)
	}
}

// ---------------------------------------------------------------- constants the harness states itself

const (
	specDefaultMax = 4 << 20  // documented: "A zero MaxSize will default to 4 MiB"
	maxAlloc       = 1 << 48  // runtime maxAlloc on linux/amd64, arm64
	allocGuard     = 1 << 20  // cases that would make UnmarshalFrom allocate more than this for a missing body are skipped ...
	allocGuardBig  = 48 << 20 // ... unless the case says big
	sigMakeslice   = "maxsize-limit>2^48&&size>2^48&&size<=limit&&panic=makeslice"
)

// effLimit is the documented meaning of MaxSize (0 = 4 MiB, -1 = no limit, i.e. MaxInt).
func effLimit(maxSize int64) uint64 {
	if maxSize == 0 {
		return specDefaultMax
	}
	if maxSize == -1 {
		return math.MaxInt
	}
	return uint64(maxSize)
}

// ---------------------------------------------------------------- stream specs (shared with the model driver)

// spec renders bytes as segments joined by '+': hex, or <count>*<hh> for runs of one byte.
func spec(b []byte) string {
	if len(b) == 0 {
		return "-"
	}
	var segs []string
	var lit []byte
	flush := func() {
		if len(lit) > 0 {
			segs = append(segs, vh.Hex(lit))
			lit = nil
		}
	}
	for i := 0; i < len(b); {
		j := i
		for j < len(b) && b[j] == b[i] {
			j++
		}
		if j-i >= 12 {
			flush()
			segs = append(segs, fmt.Sprintf("%d*%02x", j-i, b[i]))
		} else {
			lit = append(lit, b[i:j]...)
		}
		i = j
	}
	flush()
	return strings.Join(segs, "+")
}

func unspec(s string) []byte {
	if s == "-" || s == "" {
		return nil
	}
	var out []byte
	for _, seg := range strings.Split(s, "+") {
		if k := strings.IndexByte(seg, '*'); k >= 0 {
			n, err := strconv.Atoi(seg[:k])
			if err != nil {
				panic(err)
			}
			bb := vh.UnHex(seg[k+1:])
			out = append(out, bytes.Repeat(bb[:1], n)...)
		} else {
			out = append(out, vh.UnHex(seg)...)
		}
	}
	return out
}

func showBody(b []byte) string {
	if len(b) <= 256 {
		return vh.Hex(b)
	}
	h := fnv.New64a()
	h.Write(b)
	return fmt.Sprintf("#%d", h.Sum64())
}

// ---------------------------------------------------------------- readers

type errBoom struct{ code int }

func (e *errBoom) Error() string { return fmt.Sprintf("boom %d", e.code) }

// src is a conforming io.Reader over data: every Read delivers a non-empty chunk (size from the oracle, at
// most len(p) and what is left); at the end it reports term for ever.
type src struct {
	data        []byte
	pos         int
	hints       []int
	hi          int
	term        error
	eofWithData bool
}

func (s *src) Read(p []byte) (int, error) {
	if len(p) == 0 {
		return 0, nil
	}
	if s.pos >= len(s.data) {
		return 0, s.term
	}
	n := len(s.data) - s.pos
	if n > len(p) {
		n = len(p)
	}
	if s.hi < len(s.hints) {
		h := s.hints[s.hi]
		s.hi++
		if h < 1 {
			h = 1
		}
		if h < n {
			n = h
		}
	}
	copy(p, s.data[s.pos:s.pos+n])
	s.pos += n
	if s.eofWithData && s.pos == len(s.data) {
		return n, s.term
	}
	return n, nil
}

// byteSrc adds ReadByte: a protodelim.Reader that is not a *bufio.Reader.
type byteSrc struct{ src }

func (s *byteSrc) ReadByte() (byte, error) {
	if s.pos >= len(s.data) {
		return 0, s.term
	}
	b := s.data[s.pos]
	s.pos++
	return b, nil
}

type reader struct {
	r    protodelim.Reader
	pos  func() int // logical position: bytes of the stream consumed by UnmarshalFrom calls
	kind string     // model reader kind: "g" or "b"
	size int        // bufio buffer size
}

func parseTerm(t string) (error, int) {
	if t == "eof" {
		return io.EOF, 0
	}
	n, err := strconv.Atoi(strings.TrimPrefix(t, "e"))
	if err != nil {
		panic("bad term " + t)
	}
	return &errBoom{n}, n
}

func newReader(cs *Case, data []byte) reader {
	term, _ := parseTerm(cs.Term)
	name, arg := cs.Reader, 0
	if k := strings.IndexByte(name, ':'); k >= 0 {
		arg, _ = strconv.Atoi(name[k+1:])
		name = name[:k]
	}
	switch name {
	case "bufio": // bufio.Reader over the chunking source
		s := &src{data: data, hints: cs.Hints, term: term, eofWithData: cs.EOFWithData}
		br := bufio.NewReaderSize(s, arg)
		return reader{br, func() int { return s.pos - br.Buffered() }, "b", br.Size()}
	case "bufio-bytes": // bufio.Reader over a bytes.Reader (the common set-up)
		s := bytes.NewReader(data)
		br := bufio.NewReaderSize(s, arg)
		return reader{br, func() int { return len(data) - s.Len() - br.Buffered() }, "b", br.Size()}
	case "byte":
		s := &byteSrc{src{data: data, hints: cs.Hints, term: term, eofWithData: cs.EOFWithData}}
		return reader{s, func() int { return s.pos }, "g", 0}
	case "bytes.Reader":
		s := bytes.NewReader(data)
		return reader{s, func() int { return len(data) - s.Len() }, "g", 0}
	case "bytes.Buffer":
		s := bytes.NewBuffer(append([]byte(nil), data...))
		return reader{s, func() int { return len(data) - s.Len() }, "g", 0}
	}
	panic("bad reader " + cs.Reader)
}

func readerAllowsTerm(rd, term string) bool {
	return term == "eof" || strings.HasPrefix(rd, "bufio:") || rd == "byte"
}

// ---------------------------------------------------------------- a message that captures the raw body

// rawMsg is a proto.Message whose fast-path Unmarshal stores the body bytes it is handed, so that the
// framing can be observed independently of any message codec.
type rawMsg struct {
	protoreflect.Message
	body  []byte
	calls int
}

func newRaw() *rawMsg                                  { return &rawMsg{Message: (&testpb.TestAllTypes{}).ProtoReflect()} }
func (m *rawMsg) ProtoReflect() protoreflect.Message   { return m }
func (m *rawMsg) Interface() protoreflect.ProtoMessage { return m }
func (m *rawMsg) Reset()                               {}
func (m *rawMsg) ProtoMethods() *protoiface.Methods {
	return &protoiface.Methods{
		Unmarshal: func(in protoiface.UnmarshalInput) (protoiface.UnmarshalOutput, error) {
			m.body = append([]byte{}, in.Buf...)
			m.calls++
			return protoiface.UnmarshalOutput{Flags: protoiface.UnmarshalInitialized}, nil
		},
	}
}

// ---------------------------------------------------------------- cases

type Case struct {
	Kind        string   `json:"kind"`             // "seq": real messages written with MarshalTo | "raw": a byte stream
	Bodies      []string `json:"bodies,omitempty"` // seq: the marshalled TestAllTypes messages (stream spec each)
	Cut         int      `json:"cut"`              // seq: keep this many bytes of the stream (-1: all)
	Stream      string   `json:"stream,omitempty"` // raw: stream spec
	MaxSize     int64    `json:"max_size"`
	Term        string   `json:"term"`   // eof | e<code>
	Reader      string   `json:"reader"` // bufio:<n> | bufio-bytes:<n> | byte | bytes.Reader | bytes.Buffer
	Hints       []int    `json:"hints,omitempty"`
	EOFWithData bool     `json:"eof_with_data,omitempty"`
	Det         bool     `json:"deterministic,omitempty"` // seq: MarshalOptions{Deterministic: true}
	Big         bool     `json:"big,omitempty"`           // allow the implementation to allocate up to 48 MiB
}

type outcome struct {
	class string // ok | eof | ueof | toolarge | overflow | rerr | panic-alloc | other
	text  string // canonical line without rest=
	body  []byte
	err   error
	stl   *protodelim.SizeTooLargeError
}

var errOverflow = protowire.ParseError(-3)

var knownPanics int

// peekSize parses the size varint the way the documentation describes it (for guards and predicates only).
func peekSize(rem []byte) (size uint64, n int) {
	k := len(rem)
	if k > binary.MaxVarintLen64 {
		k = binary.MaxVarintLen64
	}
	for i := 0; i < k; i++ {
		if rem[i] < 0x80 {
			k = i + 1
			break
		}
	}
	return protowire.ConsumeVarint(rem[:k])
}

// call runs one UnmarshalFrom and canonicalises what it did.
func call(r protodelim.Reader, maxSize int64, m proto.Message, rem []byte) (o outcome) {
	defer func() {
		if e := recover(); e != nil {
			msg := fmt.Sprint(e)
			if strings.Contains(msg, "makeslice: len out of range") {
				size, _ := peekSize(rem)
				o = outcome{class: "panic-alloc", text: fmt.Sprintf("panic-alloc %d", size)}
			} else {
				o = outcome{class: "other", text: "panic:" + msg}
			}
		}
	}()
	var err error
	if maxSize == 0 && len(rem)%2 == 0 {
		err = protodelim.UnmarshalFrom(r, m) // the package-level wrapper = default options
	} else {
		err = protodelim.UnmarshalOptions{MaxSize: maxSize}.UnmarshalFrom(r, m)
	}
	o.err = err
	var stl *protodelim.SizeTooLargeError
	var boom *errBoom
	switch {
	case err == nil:
		o.class = "ok"
	case err == io.EOF:
		o.class, o.text = "eof", "eof"
	case err == io.ErrUnexpectedEOF:
		o.class, o.text = "ueof", "ueof"
	case errors.As(err, &stl):
		o.class, o.text, o.stl = "toolarge", fmt.Sprintf("toolarge %d %d", stl.Size, stl.MaxSize), stl
	case err == errOverflow:
		o.class, o.text = "overflow", "overflow"
	case errors.As(err, &boom) && err == error(boom):
		o.class, o.text = "rerr", fmt.Sprintf("rerr %d", boom.code)
	default:
		o.class, o.text = "other", "other:"+err.Error()
	}
	return o
}

// ask memoises short model requests: the same remaining stream recurs for every reader kind.
var memo = map[string]string{}

func ask(c *C, format string, args ...any) string {
	line := fmt.Sprintf(format, args...)
	if len(line) > 4096 {
		return c.Ask("%s", line)
	}
	if a, ok := memo[line]; ok {
		return a
	}
	a := c.Ask("%s", line)
	if len(memo) < 1<<20 {
		memo[line] = a
	}
	return a
}

// runCase executes one case completely; it returns false when a failure was recorded.
func runCase(c *C, cs Case) bool {
	ok := true
	fail := func(b bool) {
		if !b {
			ok = false
		}
	}
	defer c.Recover("harness panic while running a case", cs, "")

	// ---- build the stream
	var data []byte
	var origs []*testpb.TestAllTypes
	var bounds []int // stream offsets behind each whole frame
	if cs.Kind == "seq" {
		var w bytes.Buffer
		for _, bs := range cs.Bodies {
			body := unspec(bs)
			m := &testpb.TestAllTypes{}
			if err := proto.Unmarshal(body, m); err != nil {
				panic("seq body does not parse: " + err.Error())
			}
			origs = append(origs, m)
			before := w.Len()
			var n int
			var err error
			if cs.Det {
				n, err = protodelim.MarshalOptions{MarshalOptions: proto.MarshalOptions{Deterministic: true}}.MarshalTo(&w, m)
			} else {
				n, err = protodelim.MarshalTo(&w, m)
			}
			want := append(protowire.AppendVarint(nil, uint64(len(body))), body...)
			fail(c.Check(err == nil && n == w.Len()-before && bytes.Equal(w.Bytes()[before:], want),
				"MarshalTo writes varint(len(body)) ++ body and reports the byte count", cs, ""))
			if c.HasModel() && len(body) <= 4096 {
				fail(c.Compare("frame", cs, vh.Hex(want), ask(c, "frame %s", bs)))
			}
			bounds = append(bounds, w.Len())
		}
		data = w.Bytes()
		if cs.Cut >= 0 && cs.Cut <= len(data) {
			data = data[:cs.Cut]
		}
	} else {
		data = unspec(cs.Stream)
	}
	if !readerAllowsTerm(cs.Reader, cs.Term) {
		panic("reader " + cs.Reader + " cannot end with " + cs.Term)
	}
	_, termCode := parseTerm(cs.Term)
	rd := newReader(&cs, data)
	limit := effLimit(cs.MaxSize)

	// ---- repeated UnmarshalFrom on the same reader
	var got []*testpb.TestAllTypes
	var last outcome
	nontrivial := false
	for step := 0; step < 200; step++ {
		pos := rd.pos()
		rem := data[pos:]
		size, szn := peekSize(rem)
		guard := uint64(allocGuard)
		if cs.Big {
			guard = allocGuardBig
		}
		if szn > 0 && size <= limit && size > guard && size <= maxAlloc && uint64(len(rem)-szn) < size {
			c.Hist("skipped:would-allocate-a-huge-buffer")
			return ok
		}
		var o outcome
		var raw *rawMsg
		if cs.Kind == "seq" {
			m := &testpb.TestAllTypes{}
			o = call(rd.r, cs.MaxSize, m, rem)
			if o.class == "ok" {
				got = append(got, m)
				o.body, _ = proto.MarshalOptions{Deterministic: true}.Marshal(m)
			}
		} else {
			raw = newRaw()
			o = call(rd.r, cs.MaxSize, raw, rem)
			if o.class == "ok" {
				o.body = raw.body
				fail(c.Check(raw.calls == 1, "the body is handed to Unmarshal exactly once", cs, ""))
			}
		}
		if o.class == "ok" {
			o.text = fmt.Sprintf("ok %d %s", len(o.body), showBody(o.body))
		}
		rest := len(data) - rd.pos()
		implLine := fmt.Sprintf("%s rest=%d", o.text, rest)
		in := map[string]any{"case": cs, "step": step, "remaining": spec(rem)}

		// -- correspondence: closed-form model and operational model (reader kind, buffer size, oracle)
		if c.HasModel() {
			fail(c.Compare("UnmarshalFrom = Model.Delim.unmarshalFrom", in, implLine, ask(c, "um %d %s %s", cs.MaxSize, cs.Term, spec(rem))))
			if len(rem) <= 1<<16 && (c.Thorough() || (len(rem)+step+int(cs.MaxSize&3))%3 == 0 || cs.Reader == "byte") {
				hints := "-"
				if rd.kind == "g" && step == 0 && len(cs.Hints) > 0 && len(cs.Hints) <= 64 && cs.Reader == "byte" {
					hs := make([]string, len(cs.Hints))
					for i, h := range cs.Hints {
						hs[i] = strconv.Itoa(h)
					}
					hints = strings.Join(hs, ",")
				}
				fail(c.Compare("UnmarshalFrom = Model.Delim.unmarshalFromR", in, implLine,
					ask(c, "umr %s %d %s %d %s %s", rd.kind, rd.size, hints, cs.MaxSize, cs.Term, spec(rem))))
			}
		}

		// -- the property clauses, directly on the implementation
		switch o.class {
		case "panic-alloc":
			sig := ""
			if limit > maxAlloc && size > maxAlloc && size <= limit {
				sig = sigMakeslice
			}
			if sig != "" {
				c.Hist("known-finding:makeslice-panic")
			}
			if sig == "" || knownPanics < 3 { // vh stops the run after 200 recorded failures: record the known one a few times only
				c.Fail(vh.Failure{Kind: "panic", What: "UnmarshalFrom panics (makeslice: len out of range) instead of returning an error", Input: in, Sig: sig})
			}
			if sig == "" {
				ok = false
			} else {
				knownPanics++
			}
		case "other":
			fail(c.Check(false, "UnmarshalFrom ends outside the documented outcomes: "+o.text, in, ""))
		}
		fail(c.Check((o.err == io.EOF) == (len(rem) == 0 && cs.Term == "eof"),
			"io.EOF is returned iff no byte could be read", in, ""))
		if len(rem) == 0 && cs.Term != "eof" {
			fail(c.Check(o.class == "rerr" && o.text == fmt.Sprintf("rerr %d", termCode), "a reader error before the first byte is returned unchanged", in, ""))
		}
		if szn > 0 && o.class != "panic-alloc" {
			if size > limit {
				good := o.stl != nil && o.stl.Size == size && o.stl.MaxSize == limit && rest == len(rem)-szn
				fail(c.Check(good, "size > MaxSize ⇒ SizeTooLargeError{Size, MaxSize} with the reader right behind the size", in, ""))
			} else if uint64(len(rem)-szn) >= size {
				good := o.class == "ok" && bytes.Equal(o.body, rem[szn:szn+int(size)]) && rest == len(rem)-szn-int(size)
				if cs.Kind == "seq" {
					good = o.class == "ok" && rest == len(rem)-szn-int(size)
				}
				fail(c.Check(good, "a whole frame within MaxSize is read: body = the size bytes behind the varint, reader right behind it", in, ""))
			} else if cs.Term == "eof" {
				fail(c.Check(errors.Is(o.err, io.ErrUnexpectedEOF) && rest == 0, "a stream that ends inside the body ⇒ io.ErrUnexpectedEOF", in, ""))
			} else {
				fail(c.Check(o.class == "rerr", "a reader error inside the body is returned unchanged", in, ""))
			}
		}
		if szn == -1 && len(rem) > 0 { // the data ends inside the size varint
			if cs.Term == "eof" {
				fail(c.Check(errors.Is(o.err, io.ErrUnexpectedEOF) && rest == 0, "a stream that ends inside the size ⇒ io.ErrUnexpectedEOF", in, ""))
			} else {
				fail(c.Check(o.class == "rerr", "a reader error inside the size is returned unchanged", in, ""))
			}
		}
		if szn < -1 { // overflow
			fail(c.Check(o.class == "overflow" && rest == len(rem)-binary.MaxVarintLen64, "a size varint that overflows 64 bits ⇒ overflow error after ten bytes", in, ""))
		}
		c.Hist("outcome:" + o.class)
		if o.class != "eof" && !(o.class == "ok" && len(o.body) == 0) {
			nontrivial = true
		}
		last = o
		if o.class != "ok" {
			break
		}
	}

	// ---- the sequence-level clause: in order, proto.Equal, then io.EOF exactly at a boundary
	if cs.Kind == "seq" && cs.Term == "eof" && cs.MaxSize <= 0 {
		whole := 0
		atBoundary := len(data) == 0
		for _, b := range bounds {
			if b <= len(data) {
				whole++
			}
			if b == len(data) {
				atBoundary = true
			}
		}
		tooBig := false
		for i := 0; i < whole; i++ {
			if uint64(proto.Size(origs[i])) > limit {
				tooBig = true
			}
		}
		if !tooBig {
			good := len(got) == whole
			for i := 0; good && i < whole; i++ {
				good = proto.Equal(got[i], origs[i])
			}
			fail(c.Check(good, "the messages wholly before the cut are read back in order and proto.Equal", cs, ""))
			if atBoundary {
				fail(c.Check(last.err == io.EOF && rd.pos() == len(data), "io.EOF exactly at a clean message boundary", cs, ""))
			} else {
				fail(c.Check(errors.Is(last.err, io.ErrUnexpectedEOF) && last.err != io.EOF, "io.ErrUnexpectedEOF for a stream cut inside a frame", cs, ""))
			}
		}
	}
	c.Case(fmt.Sprintf("%s|%v|%d|%s|%d|%s|%s|%v", cs.Kind, cs.Bodies, cs.Cut, cs.Stream, cs.MaxSize, cs.Term, cs.Reader, cs.Hints), nontrivial)
	return ok
}

// ---------------------------------------------------------------- generators

var bufSizes = []int{16, 17, 64, 4096, 65536}

func allReaders() []string {
	var out []string
	for _, n := range bufSizes {
		out = append(out, fmt.Sprintf("bufio:%d", n))
	}
	return append(out, "bufio-bytes:16", "bufio-bytes:4096", "byte", "bytes.Reader", "bytes.Buffer")
}

func randHints(c *C) []int {
	switch c.Rand.Intn(4) {
	case 0:
		return nil // everything at once
	case 1:
		h := make([]int, 40)
		for i := range h {
			h[i] = 1
		}
		return h
	default:
		h := make([]int, 1+c.Rand.Intn(24))
		for i := range h {
			h[i] = []int{1, 1, 2, 3, 7, 15, 16, 17, 100, 5000}[c.Rand.Intn(10)]
		}
		return h
	}
}

// sized returns a TestAllTypes whose wire size is exactly n (n = 0 or n ≥ 2).
func sized(c *C, n int) *testpb.TestAllTypes {
	if n == 0 {
		return &testpb.TestAllTypes{}
	}
	for l := n - 2; l >= 0 && l >= n-6; l-- {
		b := make([]byte, l)
		if c.Rand.Intn(2) == 0 {
			c.Rand.Read(b)
		} else {
			for i := range b {
				b[i] = 'a'
			}
		}
		m := &testpb.TestAllTypes{OptionalBytes: b}
		if proto.Size(m) == n {
			return m
		}
	}
	panic(fmt.Sprint("cannot build a message of size ", n))
}

func randMsg(c *C) *testpb.TestAllTypes {
	m := &testpb.TestAllTypes{}
	if c.Rand.Intn(2) == 0 {
		m.OptionalInt32 = proto.Int32(int32(c.Rand.Uint32()))
	}
	if c.Rand.Intn(2) == 0 {
		m.OptionalString = proto.String(strings.Repeat("x", c.Rand.Intn(9)))
	}
	if c.Rand.Intn(3) == 0 {
		m.OptionalNestedMessage = &testpb.TestAllTypes_NestedMessage{A: proto.Int32(int32(c.Rand.Intn(300)))}
	}
	if c.Rand.Intn(3) == 0 {
		for i := c.Rand.Intn(5); i > 0; i-- {
			m.RepeatedInt32 = append(m.RepeatedInt32, int32(c.Rand.Intn(1<<uint(c.Rand.Intn(31)))))
		}
	}
	if c.Rand.Intn(4) == 0 {
		m.RepeatedString = []string{"", "ab"}
	}
	if c.Rand.Intn(4) == 0 {
		m.OptionalBytes = []byte{0x80, 0xff, 0}
	}
	return m
}

func genMsg(c *C, big bool) *testpb.TestAllTypes {
	switch k := c.Rand.Intn(12); {
	case k == 0:
		return &testpb.TestAllTypes{}
	case k == 1 && big:
		return sized(c, []int{127, 128, 129, 16383, 16384, 16385}[c.Rand.Intn(6)])
	case k == 2 && big:
		return sized(c, []int{65520, 65536, 65537, 70000}[c.Rand.Intn(4)])
	case k == 3:
		return sized(c, []int{2, 15, 16, 17, 63, 64, 65, 127, 128}[c.Rand.Intn(9)])
	default:
		return randMsg(c)
	}
}

func bodiesOf(ms []*testpb.TestAllTypes) []string {
	var out []string
	for _, m := range ms {
		b, err := proto.MarshalOptions{Deterministic: true}.Marshal(m)
		if err != nil {
			panic(err)
		}
		out = append(out, spec(b))
	}
	return out
}

func streamLen(bodies []string) (total int, bounds []int) {
	for _, b := range bodies {
		n := len(unspec(b))
		total += protowire.SizeVarint(uint64(n)) + n
		bounds = append(bounds, total)
	}
	return
}

// seqCases: a message sequence through every reader, whole and cut at the given points, plus MaxSize around
// the message sizes.
func seqCases(c *C, ms []*testpb.TestAllTypes, allCuts bool) bool {
	bodies := bodiesOf(ms)
	total, bounds := streamLen(bodies)
	cuts := map[int]bool{}
	if allCuts {
		for k := 0; k <= total; k++ {
			cuts[k] = true
		}
	} else {
		prev := 0
		for _, b := range bounds {
			for d := -3; d <= 4; d++ {
				for _, base := range []int{prev, b} {
					if k := base + d; k >= 0 && k <= total {
						cuts[k] = true
					}
				}
			}
			prev = b
		}
		for i := 0; i < 12; i++ {
			cuts[c.Rand.Intn(total+1)] = true
		}
	}
	readers := allReaders()
	good := true
	one := func(cs Case) {
		if !runCase(c, cs) {
			good = false
		}
	}
	det := c.Rand.Intn(2) == 0
	for _, rd := range readers {
		one(Case{Kind: "seq", Bodies: bodies, Cut: -1, MaxSize: 0, Term: "eof", Reader: rd, Hints: randHints(c), Det: det})
		one(Case{Kind: "seq", Bodies: bodies, Cut: -1, MaxSize: -1, Term: "eof", Reader: rd, Hints: randHints(c), Det: det})
	}
	for _, k := range sortedKeys(cuts) {
		if c.Failed() {
			return false
		}
		for _, rd := range readers {
			if !allCuts && c.Rand.Intn(3) != 0 {
				continue
			}
			cs := Case{Kind: "seq", Bodies: bodies, Cut: k, MaxSize: 0, Term: "eof", Reader: rd, Hints: randHints(c), Det: det,
				EOFWithData: c.Rand.Intn(4) == 0}
			if readerAllowsTerm(rd, "e7") && c.Rand.Intn(6) == 0 {
				cs.Term = "e7"
			}
			one(cs)
		}
	}
	// MaxSize around every message size
	for _, b := range bodies {
		n := int64(len(unspec(b)))
		for _, mx := range []int64{n - 1, n, n + 1} {
			if mx <= 0 {
				continue
			}
			rd := readers[c.Rand.Intn(len(readers))]
			one(Case{Kind: "seq", Bodies: bodies, Cut: -1, MaxSize: mx, Term: "eof", Reader: rd, Hints: randHints(c), Det: det})
		}
	}
	return good
}

func sortedKeys(m map[int]bool) []int {
	var out []int
	for k := range m {
		out = append(out, k)
	}
	for i := 1; i < len(out); i++ {
		for j := i; j > 0 && out[j-1] > out[j]; j-- {
			out[j-1], out[j] = out[j], out[j-1]
		}
	}
	return out
}

// padded writes v in exactly n ≥ SizeVarint(v) bytes (non-minimal when n is larger).
func padded(v uint64, n int) []byte {
	b := make([]byte, n)
	for i := 0; i < n; i++ {
		b[i] = byte(v&0x7f) | 0x80
		v >>= 7
	}
	b[n-1] &= 0x7f
	return b
}

func randBody(c *C, n int) []byte {
	b := make([]byte, n)
	switch c.Rand.Intn(3) {
	case 0:
		c.Rand.Read(b)
	case 1:
		for i := range b {
			b[i] = 0x80 // looks like endless continuation bytes
		}
	default:
		for i := range b {
			b[i] = byte('a' + i%3)
		}
	}
	return b
}

// randRawStream builds a stream out of valid, non-minimal, oversized, overflowing and truncated pieces.
func randRawStream(c *C) (data []byte, sizes []uint64) {
	for pieces := 1 + c.Rand.Intn(4); pieces > 0; pieces-- {
		switch k := c.Rand.Intn(16); {
		case k < 6: // a valid frame
			n := []int{0, 1, 2, 5, 15, 16, 17, 40, 127, 128, 129, 300}[c.Rand.Intn(12)]
			data = append(append(data, protowire.AppendVarint(nil, uint64(n))...), randBody(c, n)...)
			sizes = append(sizes, uint64(n))
		case k < 9: // a non-minimal size
			n := c.Rand.Intn(200)
			w := protowire.SizeVarint(uint64(n)) + 1 + c.Rand.Intn(9)
			if w > 10 {
				w = 10
			}
			data = append(append(data, padded(uint64(n), w)...), randBody(c, n)...)
			sizes = append(sizes, uint64(n))
		case k == 9: // overflow: ten bytes, the tenth ≥ 2 (possibly a continuation byte)
			b := padded(math.MaxUint64, 10)
			b[9] = []byte{2, 3, 0x7f, 0x80, 0x81, 0xff}[c.Rand.Intn(6)]
			data = append(data, b...)
			data = append(data, randBody(c, c.Rand.Intn(4))...)
		case k == 10: // a ten-byte size with tenth byte 0 or 1
			v := c.Rand.Uint64()
			if c.Rand.Intn(2) == 0 {
				v |= 1 << 63
			} else {
				v &^= 1 << 63
			}
			data = append(data, padded(v, 10)...)
			sizes = append(sizes, v)
		case k == 11: // a size far beyond the data
			v := []uint64{1 << 20, specDefaultMax - 1, specDefaultMax, specDefaultMax + 1, 1 << 31, 1 << 32, 1<<48 + 1, math.MaxInt64, 1 << 63, math.MaxUint64}[c.Rand.Intn(10)]
			data = append(data, protowire.AppendVarint(nil, v)...)
			data = append(data, randBody(c, c.Rand.Intn(20))...)
			sizes = append(sizes, v)
		case k == 12: // only continuation bytes
			data = append(data, bytes.Repeat([]byte{byte(0x80 + c.Rand.Intn(128))}, 1+c.Rand.Intn(11))...)
		case k == 13: // a frame cut somewhere
			n := 1 + c.Rand.Intn(40)
			f := append(protowire.AppendVarint(nil, uint64(n)), randBody(c, n)...)
			data = append(data, f[:c.Rand.Intn(len(f))]...)
			sizes = append(sizes, uint64(n))
			return
		default: // noise
			data = append(data, randBody(c, c.Rand.Intn(12))...)
		}
	}
	return
}

func randMaxSize(c *C, sizes []uint64) int64 {
	switch k := c.Rand.Intn(10); {
	case k < 3:
		return 0
	case k < 5:
		return -1
	case k < 8 && len(sizes) > 0:
		s := sizes[c.Rand.Intn(len(sizes))]
		return int64(s) + int64(c.Rand.Intn(3)) - 1
	case k == 8:
		return []int64{1, 2, 127, 128, 1 << 20, specDefaultMax, specDefaultMax + 1, 1 << 47, 1 << 48, 1<<48 + 1, 1 << 62, math.MaxInt64}[c.Rand.Intn(12)]
	default:
		return []int64{-2, -3, math.MinInt64, math.MinInt64 + 1, -1 << 40}[c.Rand.Intn(5)]
	}
}

func randReaderTerm(c *C) (string, string) {
	rs := allReaders()
	rd := rs[c.Rand.Intn(len(rs))]
	if readerAllowsTerm(rd, "e7") && c.Rand.Intn(4) == 0 {
		return rd, fmt.Sprintf("e%d", 1+c.Rand.Intn(9))
	}
	return rd, "eof"
}

// ---------------------------------------------------------------- C27

func runC27(c *C) {
	c.R.Rule = "A case = (stream or MarshalTo-written sequence of TestAllTypes possibly cut, MaxSize, reader kind/buffer size, chunk oracle, end condition); " +
		"UnmarshalFrom is repeated on one reader until it fails and every call is compared with the model (result class, body bytes, logical reader position). " +
		"Non-trivial = some call neither returned a clean io.EOF nor an empty body; distinct by the whole case."

	t0 := time.Now()
	lap := func(name string) {
		c.R.Notes = append(c.R.Notes, fmt.Sprintf("section %s: %.1fs, %d model requests so far", name, time.Since(t0).Seconds(), c.R.ModelCompared))
		t0 = time.Now()
	}
	// 0. replay first
	for _, raw := range c.ReplayInputs() {
		var wrap struct {
			Case *Case `json:"case"`
		}
		var cs Case
		if json.Unmarshal(raw, &wrap) == nil && wrap.Case != nil {
			cs = *wrap.Case
		} else if err := json.Unmarshal(raw, &cs); err != nil || cs.Kind == "" {
			continue
		}
		c.Hist("replayed")
		runCase(c, cs)
	}

	// 1. constants and the varint spec (protowire.AppendVarint / ConsumeVarint vs the model's Nat spec)
	if c.HasModel() {
		c.Compare("consts", "consts", fmt.Sprintf("%d %d %d %d", specDefaultMax, uint64(math.MaxInt), uint64(maxAlloc), binary.MaxVarintLen64), c.Ask("consts"))
		var vals []uint64
		for k := 0; k < 64; k++ {
			p := uint64(1) << uint(k)
			vals = append(vals, p-1, p, p+1)
		}
		vals = append(vals, 0, math.MaxUint64, math.MaxUint64-1)
		for i := 0; i < c.N(600, 100000); i++ {
			vals = append(vals, c.Rand.Uint64()>>uint(c.Rand.Intn(64)))
		}
		for _, v := range vals {
			enc := protowire.AppendVarint(nil, v)
			c.Compare("encodeVarint = AppendVarint", v, vh.Hex(enc), c.Ask("encvarint %d", v))
			for w := len(enc); w <= 10; w++ {
				p := padded(v, w)
				c.Compare("encFixed = padded varint", []any{v, w}, vh.Hex(p), c.Ask("encfixed %d %d", w-1, v))
				gv, gn := protowire.ConsumeVarint(p)
				c.Check(gv == v && gn == w, "ConsumeVarint accepts every non-minimal encoding of at most ten bytes", []any{v, w}, "")
			}
			c.Case(fmt.Sprint("varint", v), v != 0)
		}
		for i := 0; i < c.N(8000, 500000); i++ {
			b := make([]byte, c.Rand.Intn(12))
			for j := range b {
				b[j] = []byte{0, 1, 2, 0x7f, 0x80, 0x81, 0xff, byte(c.Rand.Intn(256))}[c.Rand.Intn(8)]
			}
			v, n := protowire.ConsumeVarint(b)
			want := fmt.Sprintf("%d %d", v, n)
			if n == -1 {
				want = "truncated"
			} else if n == -3 {
				want = "overflow"
			}
			c.Compare("consumeVarint = ConsumeVarint", vh.Hex(b), want, c.Ask("consvarint %s", vh.Hex(b)))
			c.Case("cv"+vh.Hex(b), len(b) > 0)
		}
	}

	lap("varint-spec")
	// 2. the witness of the refuted obligation (no panic for every MaxSize) and its neighbours
	for _, rd := range []string{"bytes.Reader", "bufio:16", "byte"} {
		runCase(c, Case{Kind: "raw", Stream: "8*ff+7f", MaxSize: -1, Term: "eof", Reader: rd})
	}
	runCase(c, Case{Kind: "raw", Stream: "81808080808040", MaxSize: -1, Term: "eof", Reader: "bufio:4096"}) // 2^48+1
	runCase(c, Case{Kind: "raw", Stream: "81808080808040", MaxSize: 1 << 50, Term: "eof", Reader: "byte"})
	runCase(c, Case{Kind: "raw", Stream: "9*80+01", MaxSize: -1, Term: "eof", Reader: "byte"}) // 2^63 > MaxInt: SizeTooLarge
	runCase(c, Case{Kind: "raw", Stream: "9*ff+01", MaxSize: -2, Term: "eof", Reader: "byte"})
	runCase(c, Case{Kind: "raw", Stream: "81808080808040", MaxSize: 1 << 48, Term: "eof", Reader: "byte"})

	// 3. the default limit: real bodies of 4 MiB and 4 MiB + 1, and sizes at the limit without a body
	for i, rd := range []string{"bufio:4096", "byte", "bufio:65536", "bytes.Reader", "bufio-bytes:16"} {
		if i < c.N(2, 5) {
			n := specDefaultMax
			st := append(append(protowire.AppendVarint(nil, uint64(n)), bytes.Repeat([]byte{'a'}, n)...), 1, 7)
			runCase(c, Case{Kind: "raw", Stream: spec(st), MaxSize: 0, Term: "eof", Reader: rd, Hints: []int{1, 5000, 3}, Big: true})
			if i == 0 || c.Thorough() {
				st = append(append(protowire.AppendVarint(nil, uint64(n+1)), bytes.Repeat([]byte{'b'}, n+1)...), 0)
				runCase(c, Case{Kind: "raw", Stream: spec(st), MaxSize: int64(n + 1), Term: "eof", Reader: rd, Big: true})
				runCase(c, Case{Kind: "raw", Stream: spec(st), MaxSize: 0, Term: "eof", Reader: rd, Big: true})
			}
		}
		for _, st := range []string{"80808002", "81808002", "80808002+20*61", "81808002+20*61", "ffff7f02+01"} {
			runCase(c, Case{Kind: "raw", Stream: st, MaxSize: 0, Term: "eof", Reader: rd, Big: true})
		}
	}

	lap("witness+default-limit")
	// 4. every stream over a small alphabet up to length 4 (5 in the thorough tier), exhaustively
	alpha := []byte{0x00, 0x01, 0x02, 0x7f, 0x80, 0x81, 0xff}
	maxLen := c.N(4, 5)
	var rec func(prefix []byte)
	rec = func(prefix []byte) {
		if c.Failed() {
			return
		}
		for _, mx := range []int64{0, 1, -1} {
			for _, rd := range []string{"bufio:16", "byte", "bytes.Reader"} {
				runCase(c, Case{Kind: "raw", Stream: spec(prefix), MaxSize: mx, Term: "eof", Reader: rd})
			}
		}
		runCase(c, Case{Kind: "raw", Stream: spec(prefix), MaxSize: 2, Term: "e3", Reader: []string{"bufio:16", "byte"}[len(prefix)%2]})
		if len(prefix) < maxLen {
			for _, a := range alpha {
				rec(append(append([]byte{}, prefix...), a))
			}
		}
	}
	rec(nil)
	// all streams of up to eleven continuation bytes followed by every last byte class
	for n := 0; n <= 11; n++ {
		for _, lastb := range []int{-1, 0, 1, 2, 0x7f, 0x80, 0xff} {
			st := bytes.Repeat([]byte{0x80}, n)
			if lastb >= 0 {
				st = append(st, byte(lastb))
			}
			st2 := append(append([]byte{}, st...), 5, 6, 7)
			for _, rd := range []string{"bufio:16", "bufio:17", "byte", "bytes.Buffer"} {
				runCase(c, Case{Kind: "raw", Stream: spec(st), MaxSize: 0, Term: "eof", Reader: rd})
				runCase(c, Case{Kind: "raw", Stream: spec(st2), MaxSize: -1, Term: "eof", Reader: rd})
			}
		}
	}

	lap("exhaustive-short-streams")
	// 5. message sequences written with MarshalTo: every truncation point of small streams, every reader
	fixed := [][]*testpb.TestAllTypes{
		{},
		{{}},
		{{}, {}, {}},
		{sized(c, 127)}, {sized(c, 128)},
		{sized(c, 2), {}, sized(c, 15), sized(c, 16), sized(c, 17)},
	}
	for _, ms := range fixed {
		seqCases(c, ms, true)
	}
	for _, n := range []int{16383, 16384, 65536, 70000} {
		seqCases(c, []*testpb.TestAllTypes{randMsg(c), sized(c, n), {}, randMsg(c)}, false)
	}
	for i := 0; i < c.N(25, 600) && !c.Failed(); i++ {
		var ms []*testpb.TestAllTypes
		for k := c.Rand.Intn(6); k > 0; k-- {
			ms = append(ms, genMsg(c, false))
		}
		bodies := bodiesOf(ms)
		total, _ := streamLen(bodies)
		seqCases(c, ms, total <= 160)
		if i < 12 {
			c.Sample(map[string]any{"kind": "seq", "bodies": bodies, "stream_bytes": total})
		}
	}
	for i := 0; i < c.N(6, 150) && !c.Failed(); i++ {
		var ms []*testpb.TestAllTypes
		for k := 1 + c.Rand.Intn(4); k > 0; k-- {
			ms = append(ms, genMsg(c, true))
		}
		seqCases(c, ms, false)
	}

	lap("message-sequences")
	// 6. raw streams: valid, non-minimal, oversized, overflowing, truncated pieces; MaxSize around the sizes and
	//    at the int64 edges; foreign reader errors; every reader
	for i := 0; i < c.N(6000, 300000) && !c.Failed(); i++ {
		data, sizes := randRawStream(c)
		rd, term := randReaderTerm(c)
		cs := Case{Kind: "raw", Stream: spec(data), MaxSize: randMaxSize(c, sizes), Term: term, Reader: rd, Hints: randHints(c), EOFWithData: c.Rand.Intn(5) == 0}
		runCase(c, cs)
		if i%500 == 0 {
			c.Sample(cs)
		}
	}

	lap("raw-streams")
	// 7. glue: a body the message codec rejects — the codec's error is returned, the frame is consumed all the same
	for _, rd := range allReaders() {
		garbage := []byte{0x08, 0x80} // truncated varint field
		st := append(append(protowire.AppendVarint(nil, uint64(len(garbage))), garbage...), 0x00)
		cs := Case{Kind: "raw", Stream: spec(st), MaxSize: 0, Term: "eof", Reader: rd}
		r := newReader(&cs, st)
		m := &testpb.TestAllTypes{}
		err := protodelim.UnmarshalFrom(r.r, m)
		want := proto.Unmarshal(garbage, &testpb.TestAllTypes{})
		c.Check(err != nil && want != nil && err.Error() == want.Error() && r.pos() == 3,
			"a body rejected by proto.Unmarshal: that error is returned and the reader is behind the frame", cs, "")
		err = protodelim.UnmarshalFrom(r.r, m)
		c.Check(err == nil && r.pos() == 4 && proto.Size(m) == 0, "the next (empty) frame is read correctly after a rejected body", cs, "")
		c.Case("glue"+rd, true)
	}
	// MarshalTo passes a writer error through unchanged
	{
		w := &failWriter{failAt: 1}
		n, err := protodelim.MarshalTo(w, sized(c, 20))
		c.Check(err == errWrite && n == 1, "MarshalTo returns the writer's error unchanged (after the size)", "failWriter@1", "")
		w = &failWriter{failAt: 0}
		n, err = protodelim.MarshalTo(w, sized(c, 20))
		c.Check(err == errWrite && n == 0, "MarshalTo returns the writer's error unchanged (at the size)", "failWriter@0", "")
	}
}

var errWrite = errors.New("write failed")

type failWriter struct{ calls, failAt int }

func (w *failWriter) Write(p []byte) (int, error) {
	w.calls++
	if w.calls-1 == w.failAt {
		return 0, errWrite
	}
	return len(p), nil
}
