package main

// anypb streams: every registered message type x contents, and hand-made type URLs.

import (
	"bytes"
	"fmt"
	"strings"

	vh "google.golang.org/protobuf/internal/zz_verif_vh"
	"google.golang.org/protobuf/proto"
	"google.golang.org/protobuf/reflect/protoreflect"
	"google.golang.org/protobuf/reflect/protoregistry"
	"google.golang.org/protobuf/types/dynamicpb"
	"google.golang.org/protobuf/types/known/anypb"
)

const urlPrefix = "type.googleapis.com/"

var uopts = proto.UnmarshalOptions{AllowPartial: true}

func fullName(mt protoreflect.MessageType) string { return string(mt.Descriptor().FullName()) }

// otherFor picks a different message type, preferring one whose name is related to mt's
// (one a suffix of the other, or sharing the last component) so that HasSuffix-style shortcuts show.
func otherFor(c *C, mt protoreflect.MessageType) protoreflect.MessageType {
	name := fullName(mt)
	short := name[strings.LastIndexByte(name, '.')+1:]
	var rel []protoreflect.MessageType
	for _, t := range allTypes {
		n := fullName(t)
		if n == name {
			continue
		}
		if strings.HasSuffix(n, name) || strings.HasSuffix(name, n) || strings.HasSuffix(n, "."+short) || strings.HasSuffix(n, short) {
			rel = append(rel, t)
		}
	}
	if len(rel) > 0 && c.Rand.Intn(4) != 0 {
		return rel[c.Rand.Intn(len(rel))]
	}
	for {
		t := allTypes[c.Rand.Intn(len(allTypes))]
		if fullName(t) != name {
			return t
		}
	}
}

// rawSuffix: the part of the URL after its last '/', scanning from the end (the harness' own oracle).
func rawSuffix(url string) string {
	i := len(url)
	for i > 0 && url[i-1] != '/' {
		i--
	}
	return url[i:]
}

func runAny(c *C) {
	evalAnyNil(c)
	rounds := c.N(2, 12)
	for ti, mt := range allTypes {
		if c.Failed() {
			return
		}
		for k := 0; k < rounds; k++ {
			m := mt.New()
			if k > 0 {
				fill(c, m, 0, Opts{MaxDepth: 2 + k%3, FieldProb: 1 + k%4, NegZero: true, BadUTF8: false}, nil)
			}
			evalAny(c, mt, m.Interface(), otherFor(c, mt))
		}
		// hand-made URLs
		m := mt.New()
		fill(c, m, 0, Opts{MaxDepth: 1, FieldProb: 3}, nil)
		content, _ := proto.MarshalOptions{Deterministic: true, AllowPartial: true}.Marshal(m.Interface())
		urls := urlsFor(c, mt)
		if !c.Thorough() && ti%4 != 0 { // quick tier: the full URL list for every 4th type, a sample of 14 for the others
			c.Rand.Shuffle(len(urls), func(i, j int) { urls[i], urls[j] = urls[j], urls[i] })
			urls = urls[:14]
		}
		for _, u := range urls {
			evalURL(c, u, mt, content)
		}
	}
	c.R.Exhaustive = true
	c.R.Notes = append(c.R.Notes, fmt.Sprintf("exhaustive refers to the any stream: all %d message types registered in this binary were enumerated (contents and URLs are PRNG/boundary samples); the nv/ai/leaf streams are sampled", len(allTypes)))
}

func classifyAnyErr(err error) string {
	if err == nil {
		return ""
	}
	s := err.Error()
	switch {
	case err == protoregistry.NotFound:
		return "notfound"
	case strings.Contains(s, "mismatched message type"):
		return "mismatch"
	case strings.Contains(s, "invalid empty type URL"):
		return "emptyurl"
	case strings.Contains(s, "could not resolve"):
		return "wrongtype"
	case strings.Contains(s, "invalid nil source message"):
		return "nilsrc"
	}
	return "" // the call reached opts.Unmarshal: the binary codec's business (C03)
}

func evalAny(c *C, mt protoreflect.MessageType, m proto.Message, other protoreflect.MessageType) bool {
	name := fullName(mt)
	oname := fullName(other)
	det := proto.MarshalOptions{Deterministic: true, AllowPartial: true}
	content, cerr := det.Marshal(m)
	in := Input{Stream: "any", Type: name, Bytes: vh.Hex(content), Other: oname}
	ok := true
	chk := func(cond bool, what string) bool {
		if !c.Check(cond, what, in, "") {
			ok = false
		}
		return cond
	}
	cmp := func(what, impl, model string) {
		if c.HasModel() && !c.Compare(what, in, impl, model) {
			ok = false
		}
	}
	func() {
		defer c.Recover("anypb", in, "")
		if cerr != nil {
			return
		}
		c.Hist("any:case")
		_, plainErr := proto.Marshal(m)
		a, err := anypb.New(m)
		if !chk((err == nil) == (plainErr == nil), "anypb.New fails iff proto.Marshal fails") {
			return
		}
		if err != nil {
			c.Hist("any:new-fails(required)")
			chk(a == nil, "anypb.New returns nil with an error")
			a = &anypb.Any{TypeUrl: "stale", Value: []byte("stale")}
			if !chk(anypb.MarshalFrom(a, m, proto.MarshalOptions{AllowPartial: true}) == nil, "anypb.MarshalFrom with AllowPartial succeeds") {
				return
			}
		}
		// The binary codec is C03's subject: what the Any helpers must reproduce is what the codec itself
		// reproduces. (Known outside C45: without -tags protolegacy, Marshal drops the unknown fields of a
		// MessageSet while Size counts them; such contents are counted, not failed, here.)
		want := mt.New().Interface()
		if !chk(uopts.Unmarshal(a.GetValue(), want) == nil, "proto.Unmarshal(proto.Marshal(m)) succeeds") {
			return
		}
		if !proto.Equal(want, m) {
			c.Hist("any:codec-alone-does-not-round-trip(" + name + ")")
		}
		orig := m
		m = want
		url := a.GetTypeUrl()
		chk(url == urlPrefix+name, "New writes type.googleapis.com/<full name>")
		hu, hv, hn, ho := vh.Hex([]byte(url)), vh.Hex(a.Value), vh.Hex([]byte(name)), vh.Hex([]byte(oname))
		cmp("new", hu+" "+hv, c.Ask("new %s %s", hn, hv))

		// MessageName
		mn := string(a.MessageName())
		chk(mn == name, "New(m).MessageName() = full name of m")
		cmp("messageName", vh.Hex([]byte(rawSuffix(url)))+" "+vh.Hex([]byte(mn)), c.Ask("name %s", hu))

		// MessageIs
		chk(a.MessageIs(mt.New().Interface()), "New(m).MessageIs(new instance of the same type)")
		chk(a.MessageIs(mt.Zero().Interface()), "New(m).MessageIs(typed nil of the same type)")
		chk(a.MessageIs(dynamicpb.NewMessage(mt.Descriptor())), "New(m).MessageIs(dynamic message of the same descriptor)")
		chk(!a.MessageIs(other.New().Interface()), "New(m).MessageIs(message of another type) is false")
		chk(!a.MessageIs(nil), "MessageIs(nil) is false")
		cmp("messageIs same", b01(a.MessageIs(m)), c.Ask("is %s %s", hu, hn))
		cmp("messageIs other", b01(a.MessageIs(other.New().Interface())), c.Ask("is %s %s", hu, ho))

		// UnmarshalTo: fresh instance, pre-filled instance (Unmarshal resets), dynamic message
		dst := mt.New().Interface()
		e1 := anypb.UnmarshalTo(a, dst, uopts)
		chk(e1 == nil && proto.Equal(dst, m), "UnmarshalTo(New(m), new instance) gives a message Equal to m")
		dst2 := mt.New()
		fill(c, dst2, 0, Opts{MaxDepth: 1, FieldProb: 2}, nil)
		e2 := anypb.UnmarshalTo(a, dst2.Interface(), uopts)
		chk(e2 == nil && proto.Equal(dst2.Interface(), m), "UnmarshalTo(New(m), pre-filled instance) gives a message Equal to m")
		dyn := dynamicpb.NewMessage(mt.Descriptor())
		e3 := anypb.UnmarshalTo(a, dyn, uopts)
		ed := uopts.Unmarshal(a.GetValue(), dynamicpb.NewMessage(mt.Descriptor())) // dynamicpb rejects e.g. MessageSets without protolegacy
		chk(classifyAnyErr(e3) == "" && (e3 == nil) == (ed == nil), "UnmarshalTo(New(m), dynamic message of the same descriptor) behaves as proto.Unmarshal into it")
		if plainErr == nil {
			dst3 := mt.New().Interface()
			chk(a.UnmarshalTo(dst3) == nil && proto.Equal(dst3, m), "(*Any).UnmarshalTo gives a message Equal to m")
		}
		verdict := func(err error, typ string) string {
			if k := classifyAnyErr(err); k != "" {
				return "err " + k
			}
			return "ok " + vh.Hex([]byte(typ)) + " " + hv
		}
		cmp("unmarshalTo same", verdict(e1, name), c.Ask("uto %s %s %s", hu, hv, hn))

		// UnmarshalTo into another type
		o := other.New().Interface()
		eo := anypb.UnmarshalTo(a, o, uopts)
		chk(eo != nil && classifyAnyErr(eo) == "mismatch", "UnmarshalTo into a different type reports a mismatch")
		chk(proto.Size(o) == 0, "UnmarshalTo into a different type leaves it untouched")
		cmp("unmarshalTo other", verdict(eo, oname), c.Ask("uto %s %s %s", hu, hv, ho))

		// UnmarshalNew: default resolver, empty resolver, resolver holding just this type
		got, en := anypb.UnmarshalNew(a, uopts)
		if chk(en == nil && got != nil, "UnmarshalNew(New(m)) succeeds with the default resolver") {
			chk(string(got.ProtoReflect().Descriptor().FullName()) == name, "UnmarshalNew creates a message of m's type")
			chk(proto.Equal(got, m), "UnmarshalNew(New(m)) gives a message Equal to m")
			cmp("unmarshalNew", verdict(en, string(got.ProtoReflect().Descriptor().FullName())), c.Ask("unew %s %s", hu, hv))
		}
		if plainErr == nil {
			g2, e := a.UnmarshalNew()
			chk(e == nil && proto.Equal(g2, m), "(*Any).UnmarshalNew gives a message Equal to m")
		}
		_, ee := anypb.UnmarshalNew(a, proto.UnmarshalOptions{Resolver: new(protoregistry.Types), AllowPartial: true})
		chk(ee == protoregistry.NotFound, "UnmarshalNew with a resolver that lacks the type reports NotFound")
		one := new(protoregistry.Types)
		if one.RegisterMessage(mt) == nil {
			g3, e := anypb.UnmarshalNew(a, proto.UnmarshalOptions{Resolver: one, AllowPartial: true})
			chk(e == nil && proto.Equal(g3, m), "UnmarshalNew with a resolver holding the type")
		}

		// MarshalFrom with Deterministic: overwrites both fields, bytes are the deterministic encoding
		a2 := &anypb.Any{TypeUrl: "stale/x.Y", Value: []byte("stale")}
		chk(anypb.MarshalFrom(a2, orig, det) == nil && a2.TypeUrl == url && bytes.Equal(a2.Value, content), "MarshalFrom(Deterministic) = (url, deterministic bytes)")
		a3 := &anypb.Any{TypeUrl: "stale/x.Y", Value: []byte("stale")}
		if plainErr == nil {
			chk(a3.MarshalFrom(m) == nil && a3.TypeUrl == url, "(*Any).MarshalFrom overwrites the URL")
			d3 := mt.New().Interface()
			chk(a3.UnmarshalTo(d3) == nil && proto.Equal(d3, m), "(*Any).MarshalFrom then UnmarshalTo")
		}
		// Any inside Any
		if plainErr == nil && c.Rand.Intn(4) == 0 {
			aa, e := anypb.New(a)
			if chk(e == nil && string(aa.MessageName()) == "google.protobuf.Any", "New(Any) names google.protobuf.Any") {
				inner, e := aa.UnmarshalNew()
				chk(e == nil && proto.Equal(inner, a), "Any inside Any round-trips")
			}
		}
		c.Case(name+"|"+in.Bytes, len(content) > 0)
		if len(content) > 0 && len(content) < 40 {
			c.Sample(map[string]any{"stream": "any", "type": name, "bytes": in.Bytes, "url": url, "other": oname})
		}
	}()
	return ok
}

// nil handling of the helpers (once per run)
func evalAnyNil(c *C) {
	in := Input{Stream: "any-nil"}
	defer c.Recover("anypb nil handling", in, "")
	var na *anypb.Any
	m := &anypb.Any{}
	c.Check(!na.MessageIs(m), "nil Any: MessageIs false", in, "")
	c.Check(na.MessageName() == "", "nil Any: MessageName empty", in, "")
	c.Check(classifyAnyErr(anypb.UnmarshalTo(nil, m, uopts)) == "nilsrc", "UnmarshalTo(nil src) reports an error", in, "")
	_, e := anypb.UnmarshalNew(nil, uopts)
	c.Check(classifyAnyErr(e) == "emptyurl", "UnmarshalNew(nil src) reports the empty URL", in, "")
	_, e = anypb.New(nil)
	c.Check(classifyAnyErr(e) == "nilsrc", "New(nil) reports an error", in, "")
	c.Check(classifyAnyErr(anypb.MarshalFrom(&anypb.Any{}, nil, proto.MarshalOptions{})) == "nilsrc", "MarshalFrom(nil src) reports an error", in, "")
	a, e := anypb.New((*anypb.Any)(nil))
	c.Check(e == nil && a.GetTypeUrl() == urlPrefix+"google.protobuf.Any" && len(a.GetValue()) == 0, "New(typed nil) = empty message of that type", in, "")
}

var urlTemplates = []string{
	"", "/", "//", "%s", "/%s", "a/b/c/%s", "type.googleapis.com/%s", "type.googleapis.com//%s", "%s/", "type.googleapis.com/%s/",
	"http://example.com/types/%s", "type.googleapis.com/%s ", "type.googleapis.com/ %s", "type.googleapis.com/.%s", "type.googleapis.com/%s.",
	"type.googleapis.com/%s..x", "x/1%s", "x/%s-", "x/%s/%s", "%s/%s", "x%s", "x.%s", "/x/%s\x00", "x/\xff%s", "x/%s\xff", "x/é%s",
	"type.googleapis.com", "type.googleapis.com/", "x/_", "x/a.b", "x/a..b", "x/a.1b", "x/a b", "x/A_b.C9", "?/%s", "x\\%s",
}

func urlsFor(c *C, mt protoreflect.MessageType) []string {
	name := fullName(mt)
	var out []string
	for _, t := range urlTemplates {
		out = append(out, strings.ReplaceAll(t, "%s", name))
	}
	// other names around this one
	o := fullName(otherFor(c, mt))
	out = append(out, "x/"+o, o+"/"+name, name+"/"+o, urlPrefix+name[:len(name)-1], urlPrefix+name[1:], urlPrefix+name+"x",
		urlPrefix+strings.ToUpper(name), urlPrefix+strings.ReplaceAll(name, ".", "/"))
	if len(otherNames) > 0 { // an enum or extension name: registered, but not a message
		e := otherNames[c.Rand.Intn(len(otherNames))]
		out = append(out, urlPrefix+e, e)
	}
	// random mutations
	for k := 0; k < 4; k++ {
		b := []byte(urlPrefix + name)
		i := c.Rand.Intn(len(b))
		switch c.Rand.Intn(4) {
		case 0:
			b[i] = '/'
		case 1:
			b[i] = byte(c.Rand.Intn(256))
		case 2:
			b = append(b[:i], b[i+1:]...)
		default:
			b = append(b[:i:i], append([]byte{'/'}, b[i:]...)...)
		}
		out = append(out, string(b))
	}
	return out
}

func evalURL(c *C, url string, mt protoreflect.MessageType, value []byte) bool {
	name := fullName(mt)
	in := Input{Stream: "url", URL: vh.Hex([]byte(url)), Type: name, Bytes: vh.Hex(value)}
	ok := true
	chk := func(cond bool, what string) bool {
		if !c.Check(cond, what, in, "") {
			ok = false
		}
		return cond
	}
	cmp := func(what, impl, model string) {
		if c.HasModel() && !c.Compare(what, in, impl, model) {
			ok = false
		}
	}
	func() {
		defer c.Recover("anypb with a hand-made URL", in, "")
		c.Hist("url:case")
		a := &anypb.Any{TypeUrl: url, Value: value}
		hu, hv, hn := vh.Hex([]byte(url)), vh.Hex(value), vh.Hex([]byte(name))
		raw := rawSuffix(url)
		mn := string(a.MessageName())
		valid := protoreflect.FullName(raw).IsValid()
		chk((valid && mn == raw) || (!valid && mn == ""), "MessageName = suffix after the last '/' if that is a valid full name, else empty")

		is := a.MessageIs(mt.New().Interface())
		chk(is == (raw == name), "MessageIs(m) iff the suffix after the last '/' is m's full name")

		dst := mt.New().Interface()
		et := anypb.UnmarshalTo(a, dst, uopts)
		chk((classifyAnyErr(et) == "mismatch") == !is, "UnmarshalTo reports a mismatch iff !MessageIs")
		if is {
			c.Hist("url:is")
			chk(et == nil, "UnmarshalTo succeeds when MessageIs")
		}
		vt := "ok " + hn + " " + hv
		if k := classifyAnyErr(et); k != "" {
			vt = "err " + k
		}

		got, en := anypb.UnmarshalNew(a, uopts)
		_, isMsg := typeByName[raw]
		isOther := false
		for _, o := range otherNames {
			if o == raw {
				isOther = true
			}
		}
		want := "notfound"
		switch {
		case url == "":
			want = "emptyurl"
		case isMsg:
			want = ""
		case isOther:
			want = "wrongtype"
		}
		chk(classifyAnyErr(en) == want, "UnmarshalNew verdict: empty URL / found by the suffix after the last '/' / wrong type / NotFound")
		vn := "err " + classifyAnyErr(en)
		if classifyAnyErr(en) == "" {
			vn = "ok " + vh.Hex([]byte(raw)) + " " + hv
			if en == nil {
				chk(string(got.ProtoReflect().Descriptor().FullName()) == raw, "UnmarshalNew creates the type named by the suffix")
			}
			c.Hist("url:resolved")
		} else {
			c.Hist("url:" + classifyAnyErr(en))
		}
		if c.HasModel() {
			impl := fmt.Sprintf("%s %s %s %s %s ; %s", vh.Hex([]byte(raw)), vh.Hex([]byte(mn)), b01(valid), b01(is), vt, vn)
			cmp("messageName / FullName.IsValid / MessageIs / UnmarshalTo / UnmarshalNew on a hand-made URL", impl, c.Ask("url %s %s %s", hu, hv, hn))
		}
		c.Case(name+"|"+in.URL, raw != "")
	}()
	return ok
}
