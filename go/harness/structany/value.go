package main

// Go value trees for structpb.NewValue: one AST (`node`) is the single source of a case.
// From a node we derive (a) the Go value handed to the implementation (`build`), (b) the request
// tokens for the Lean model (`tokens`), (c) the harness-side `normalize` of the documented law.
// `parseNode` reads the tokens back, so a replay file (which stores the request line) re-creates
// exactly the same Go value.

import (
	"encoding/base64"
	"encoding/json"
	"fmt"
	"math"
	"sort"
	"strconv"
	"strings"
	"unicode/utf8"

	vh "google.golang.org/protobuf/internal/zz_verif_vh"
	"google.golang.org/protobuf/types/known/structpb"
)

type node struct {
	K    byte // z b i u g d j s y m l x
	B    bool
	Ty   int    // integer type index 0..4: int,int8,int16,int32,int64 / uint,uint8,...
	I    int64  // K=='i'
	U    uint64 // K=='u'
	Bits uint64 // K=='g' (32 bits) / 'd'
	S    []byte // j s y
	Nil  bool   // m l
	Keys [][]byte
	Kids []*node
	Tag  int // x
}

// ---- unsupported Go types (tag -> instance) ----

type myString string
type myMap map[string]any
type mySlice []any
type myFloat float64
type myStruct struct{ A int }

var unsupportedMakers = []func() any{
	0:  func() any { return struct{}{} },
	1:  func() any { return myStruct{A: 1} },
	2:  func() any { return make(chan int) },
	3:  func() any { return map[int]any{1: "x"} },
	4:  func() any { return (*int)(nil) },
	5:  func() any { return map[string]string{"a": "b"} },
	6:  func() any { return []string{"a"} },
	7:  func() any { return []int{1} },
	8:  func() any { return myString("named") },
	9:  func() any { return uintptr(5) },
	10: func() any { return complex128(1) },
	11: func() any { return func() {} },
	12: func() any { return structpb.NewBoolValue(true) },
	13: func() any { return json.RawMessage(`{"a":1}`) },
	14: func() any { return myMap{"a": 1.0} },
	15: func() any { return mySlice{1.0} },
	16: func() any { return [2]any{1.0, 2.0} },
	17: func() any { return fmt.Errorf("an error value") },
	18: func() any { return myFloat(1.5) },
	19: func() any { return (*structpb.Value)(nil) },
	20: func() any { return map[string]float64{"a": 1} },
	21: func() any { return []float64{1} },
	22: func() any { return (map[string]string)(nil) },
	23: func() any { x := 5; return &x },
	24: func() any { return [0]byte{} },
	25: func() any { return (*myStruct)(nil) },
}

// ---- build: node -> Go value ----

func build(n *node) any {
	switch n.K {
	case 'z':
		return nil
	case 'b':
		return n.B
	case 'i':
		switch n.Ty {
		case 0:
			return int(n.I)
		case 1:
			return int8(n.I)
		case 2:
			return int16(n.I)
		case 3:
			return int32(n.I)
		default:
			return int64(n.I)
		}
	case 'u':
		switch n.Ty {
		case 0:
			return uint(n.U)
		case 1:
			return uint8(n.U)
		case 2:
			return uint16(n.U)
		case 3:
			return uint32(n.U)
		default:
			return uint64(n.U)
		}
	case 'g':
		return math.Float32frombits(uint32(n.Bits))
	case 'd':
		return math.Float64frombits(n.Bits)
	case 'j':
		return json.Number(string(n.S))
	case 's':
		return string(n.S)
	case 'y':
		if n.Nil {
			return []byte(nil)
		}
		return append([]byte{}, n.S...)
	case 'm':
		if n.Nil {
			return map[string]any(nil)
		}
		m := make(map[string]any, len(n.Keys))
		for i, k := range n.Keys {
			m[string(k)] = build(n.Kids[i])
		}
		return m
	case 'l':
		if n.Nil {
			return []any(nil)
		}
		l := make([]any, len(n.Kids))
		for i, k := range n.Kids {
			l[i] = build(k)
		}
		return l
	case 'x':
		return unsupportedMakers[n.Tag%len(unsupportedMakers)]()
	}
	panic("build: bad node")
}

// ---- tokens: node -> request tokens; jsonNumbers collects the json.Number table ----

func (n *node) sortKeys() {
	if n.K == 'm' {
		idx := make([]int, len(n.Keys))
		for i := range idx {
			idx[i] = i
		}
		sort.SliceStable(idx, func(a, b int) bool { return string(n.Keys[idx[a]]) < string(n.Keys[idx[b]]) })
		ks := make([][]byte, len(idx))
		vs := make([]*node, len(idx))
		for i, j := range idx {
			ks[i], vs[i] = n.Keys[j], n.Kids[j]
		}
		n.Keys, n.Kids = ks, vs
	}
	for _, k := range n.Kids {
		k.sortKeys()
	}
}

func b01(b bool) string {
	if b {
		return "1"
	}
	return "0"
}

func (n *node) tokens(sb *strings.Builder, tbl map[string]struct{}) {
	switch n.K {
	case 'z':
		sb.WriteString(" z")
	case 'b':
		sb.WriteString(" b" + b01(n.B))
	case 'i':
		fmt.Fprintf(sb, " i%d %d", n.Ty, n.I)
	case 'u':
		fmt.Fprintf(sb, " u%d %d", n.Ty, n.U)
	case 'g':
		fmt.Fprintf(sb, " g %d", uint32(n.Bits))
	case 'd':
		fmt.Fprintf(sb, " d %d", n.Bits)
	case 'j':
		sb.WriteString(" j " + vh.Hex(n.S))
		tbl[string(n.S)] = struct{}{}
	case 's':
		sb.WriteString(" s " + vh.Hex(n.S))
	case 'y':
		sb.WriteString(" y " + vh.Hex(n.S)) // the model does not distinguish a nil []byte
	case 'm':
		fmt.Fprintf(sb, " m%s %d", b01(n.Nil), len(n.Keys))
		for i, k := range n.Keys {
			sb.WriteString(" " + vh.Hex(k))
			n.Kids[i].tokens(sb, tbl)
		}
	case 'l':
		fmt.Fprintf(sb, " l%s %d", b01(n.Nil), len(n.Kids))
		for _, k := range n.Kids {
			k.tokens(sb, tbl)
		}
	case 'x':
		fmt.Fprintf(sb, " x %d", n.Tag)
	}
}

// requestLine renders the `nv` request: table of json.Number outcomes (computed with Go's own
// strconv, which the model takes as a parameter) followed by the tree.
func requestLine(n *node) string {
	var sb strings.Builder
	tbl := map[string]struct{}{}
	n.tokens(&sb, tbl)
	keys := make([]string, 0, len(tbl))
	for k := range tbl {
		keys = append(keys, k)
	}
	sort.Strings(keys)
	var hd strings.Builder
	fmt.Fprintf(&hd, "nv %d", len(keys))
	for _, k := range keys {
		f, err := json.Number(k).Float64()
		if err != nil {
			hd.WriteString(" " + vh.Hex([]byte(k)) + " e")
		} else {
			fmt.Fprintf(&hd, " %s %d", vh.Hex([]byte(k)), math.Float64bits(f))
		}
	}
	return hd.String() + sb.String()
}

// ---- parse tokens back (replay) ----

type tokStream struct {
	t []string
	i int
}

func (s *tokStream) next() string {
	if s.i >= len(s.t) {
		panic("replay: truncated token stream")
	}
	x := s.t[s.i]
	s.i++
	return x
}

func atoiU(s string) uint64 {
	v, err := strconv.ParseUint(s, 10, 64)
	if err != nil {
		panic(err)
	}
	return v
}

func parseNode(s *tokStream) *node {
	t := s.next()
	switch {
	case t == "z":
		return &node{K: 'z'}
	case t == "b0", t == "b1":
		return &node{K: 'b', B: t == "b1"}
	case t == "g":
		return &node{K: 'g', Bits: atoiU(s.next())}
	case t == "d":
		return &node{K: 'd', Bits: atoiU(s.next())}
	case t == "j":
		return &node{K: 'j', S: vh.UnHex(s.next())}
	case t == "s":
		return &node{K: 's', S: vh.UnHex(s.next())}
	case t == "y":
		return &node{K: 'y', S: vh.UnHex(s.next())}
	case t == "x":
		return &node{K: 'x', Tag: int(atoiU(s.next()))}
	case len(t) == 2 && t[0] == 'i':
		v, err := strconv.ParseInt(s.next(), 10, 64)
		if err != nil {
			panic(err)
		}
		return &node{K: 'i', Ty: int(t[1] - '0'), I: v}
	case len(t) == 2 && t[0] == 'u':
		return &node{K: 'u', Ty: int(t[1] - '0'), U: atoiU(s.next())}
	case len(t) == 2 && t[0] == 'm':
		n := &node{K: 'm', Nil: t[1] == '1'}
		k := int(atoiU(s.next()))
		for i := 0; i < k; i++ {
			n.Keys = append(n.Keys, vh.UnHex(s.next()))
			n.Kids = append(n.Kids, parseNode(s))
		}
		return n
	case len(t) == 2 && t[0] == 'l':
		n := &node{K: 'l', Nil: t[1] == '1'}
		k := int(atoiU(s.next()))
		for i := 0; i < k; i++ {
			n.Kids = append(n.Kids, parseNode(s))
		}
		return n
	}
	panic("replay: bad token " + t)
}

// parseRequest reads an `nv` request line (skipping the table).
func parseRequest(line string) *node {
	f := strings.Fields(line)
	if len(f) < 2 || f[0] != "nv" {
		panic("replay: not an nv line")
	}
	k := int(atoiU(f[1]))
	s := &tokStream{t: f[2+2*k:]}
	return parseNode(s)
}

// ---- the harness-side `normalize` (the documented conversions) and `supported` ----

func numIface(f float64) any {
	switch {
	case math.IsNaN(f):
		return "NaN"
	case math.IsInf(f, 1):
		return "Infinity"
	case math.IsInf(f, -1):
		return "-Infinity"
	}
	return f
}

// normGo is written against the *documentation* of NewValue/AsInterface, on the AST.
func normGo(n *node) any {
	switch n.K {
	case 'z':
		return nil
	case 'b':
		return n.B
	case 'i':
		return numIface(float64(n.I))
	case 'u':
		return numIface(float64(n.U))
	case 'g':
		return numIface(float64(math.Float32frombits(uint32(n.Bits))))
	case 'd':
		return numIface(math.Float64frombits(n.Bits))
	case 'j':
		f, err := strconv.ParseFloat(string(n.S), 64)
		if err != nil {
			return json.Number(string(n.S))
		}
		return numIface(f)
	case 's':
		return string(n.S)
	case 'y':
		return base64.StdEncoding.EncodeToString(n.S)
	case 'm':
		m := make(map[string]any, len(n.Keys))
		for i, k := range n.Keys {
			m[string(k)] = normGo(n.Kids[i])
		}
		return m
	case 'l':
		l := make([]any, len(n.Kids))
		for i, k := range n.Kids {
			l[i] = normGo(k)
		}
		return l
	case 'x':
		return unsupportedMakers[n.Tag%len(unsupportedMakers)]()
	}
	panic("normGo")
}

// supportedGo: no unsupported type, all strings and keys valid UTF-8, json.Numbers parse — at every depth.
func supportedGo(n *node) bool {
	switch n.K {
	case 'j':
		_, err := strconv.ParseFloat(string(n.S), 64)
		return err == nil
	case 's':
		return utf8.Valid(n.S)
	case 'x':
		return false
	case 'm':
		for i, k := range n.Keys {
			if !utf8.Valid(k) || !supportedGo(n.Kids[i]) {
				return false
			}
		}
	case 'l':
		for _, k := range n.Kids {
			if !supportedGo(k) {
				return false
			}
		}
	}
	return true
}

func (n *node) depth() int {
	d := 0
	for _, k := range n.Kids {
		if x := k.depth(); x > d {
			d = x
		}
	}
	return d + 1
}

func (n *node) size() int {
	s := 1
	for _, k := range n.Kids {
		s += k.size()
	}
	return s
}

// ---- rendering of live Go values / Values / JSON in the model's syntax ----

func showGo(v any) string {
	var sb strings.Builder
	showGoTo(&sb, v)
	return sb.String()
}

func showGoTo(sb *strings.Builder, v any) {
	switch v := v.(type) {
	case nil:
		sb.WriteString("z")
	case bool:
		sb.WriteString("b" + b01(v))
	case int:
		fmt.Fprintf(sb, "i0:%d", v)
	case int8:
		fmt.Fprintf(sb, "i1:%d", v)
	case int16:
		fmt.Fprintf(sb, "i2:%d", v)
	case int32:
		fmt.Fprintf(sb, "i3:%d", v)
	case int64:
		fmt.Fprintf(sb, "i4:%d", v)
	case uint:
		fmt.Fprintf(sb, "u0:%d", v)
	case uint8:
		fmt.Fprintf(sb, "u1:%d", v)
	case uint16:
		fmt.Fprintf(sb, "u2:%d", v)
	case uint32:
		fmt.Fprintf(sb, "u3:%d", v)
	case uint64:
		fmt.Fprintf(sb, "u4:%d", v)
	case float32:
		fmt.Fprintf(sb, "g:%d", math.Float32bits(v))
	case float64:
		fmt.Fprintf(sb, "d:%d", math.Float64bits(v))
	case json.Number:
		sb.WriteString("j:" + vh.Hex([]byte(v)))
	case string:
		sb.WriteString("s:" + vh.Hex([]byte(v)))
	case []byte:
		sb.WriteString("y:" + vh.Hex(v))
	case map[string]any:
		sb.WriteString("m" + b01(v == nil) + "{")
		keys := make([]string, 0, len(v))
		for k := range v {
			keys = append(keys, k)
		}
		sort.Strings(keys)
		for _, k := range keys {
			sb.WriteString(vh.Hex([]byte(k)) + "=")
			showGoTo(sb, v[k])
			sb.WriteString(",")
		}
		sb.WriteString("}")
	case []any:
		sb.WriteString("l" + b01(v == nil) + "[")
		for _, e := range v {
			showGoTo(sb, e)
			sb.WriteString(",")
		}
		sb.WriteString("]")
	default:
		fmt.Fprintf(sb, "x:%T", v)
	}
}

// showGoX renders like showGo but prints unsupported values by tag (to compare with the model's normalize).
func showNormNode(n *node) string {
	var sb strings.Builder
	var rec func(n *node)
	rec = func(n *node) {
		switch n.K {
		case 'x':
			fmt.Fprintf(&sb, "x:%d", n.Tag)
		case 'm':
			sb.WriteString("m0{")
			for i, k := range n.Keys {
				sb.WriteString(vh.Hex(k) + "=")
				rec(n.Kids[i])
				sb.WriteString(",")
			}
			sb.WriteString("}")
		case 'l':
			sb.WriteString("l0[")
			for _, k := range n.Kids {
				rec(k)
				sb.WriteString(",")
			}
			sb.WriteString("]")
		default:
			showGoTo(&sb, normGo(n))
		}
	}
	rec(n)
	return sb.String()
}

func showNum(f float64) string {
	if math.IsNaN(f) {
		return "nan"
	}
	return strconv.FormatUint(math.Float64bits(f), 10)
}

func showPV(v *structpb.Value) string {
	var sb strings.Builder
	showPVTo(&sb, v)
	return sb.String()
}

func showPVTo(sb *strings.Builder, v *structpb.Value) {
	if v == nil {
		sb.WriteString("U")
		return
	}
	switch k := v.Kind.(type) {
	case nil:
		sb.WriteString("U")
	case *structpb.Value_NullValue:
		if k == nil {
			sb.WriteString("U")
			return
		}
		sb.WriteString("N")
	case *structpb.Value_NumberValue:
		if k == nil {
			sb.WriteString("U")
			return
		}
		sb.WriteString("D:" + showNum(k.NumberValue))
	case *structpb.Value_StringValue:
		if k == nil {
			sb.WriteString("U")
			return
		}
		sb.WriteString("S:" + vh.Hex([]byte(k.StringValue)))
	case *structpb.Value_BoolValue:
		if k == nil {
			sb.WriteString("U")
			return
		}
		sb.WriteString("B" + b01(k.BoolValue))
	case *structpb.Value_StructValue:
		if k == nil {
			sb.WriteString("U")
			return
		}
		sb.WriteString("M{")
		f := k.StructValue.GetFields()
		keys := make([]string, 0, len(f))
		for x := range f {
			keys = append(keys, x)
		}
		sort.Strings(keys)
		for _, x := range keys {
			sb.WriteString(vh.Hex([]byte(x)) + "=")
			showPVTo(sb, f[x])
			sb.WriteString(",")
		}
		sb.WriteString("}")
	case *structpb.Value_ListValue:
		if k == nil {
			sb.WriteString("U")
			return
		}
		sb.WriteString("L[")
		for _, e := range k.ListValue.GetValues() {
			showPVTo(sb, e)
			sb.WriteString(",")
		}
		sb.WriteString("]")
	}
}

// pvTokens renders a Value as `ai` request tokens (maps in sorted key order).
func pvTokens(sb *strings.Builder, v *structpb.Value) {
	if v == nil {
		sb.WriteString(" U")
		return
	}
	switch k := v.Kind.(type) {
	case nil:
		sb.WriteString(" U")
	case *structpb.Value_NullValue:
		if k == nil {
			sb.WriteString(" U")
			return
		}
		sb.WriteString(" N")
	case *structpb.Value_NumberValue:
		if k == nil {
			sb.WriteString(" U")
			return
		}
		fmt.Fprintf(sb, " D %d", math.Float64bits(k.NumberValue))
	case *structpb.Value_StringValue:
		if k == nil {
			sb.WriteString(" U")
			return
		}
		sb.WriteString(" S " + vh.Hex([]byte(k.StringValue)))
	case *structpb.Value_BoolValue:
		if k == nil {
			sb.WriteString(" U")
			return
		}
		sb.WriteString(" B" + b01(k.BoolValue))
	case *structpb.Value_StructValue:
		if k == nil {
			sb.WriteString(" U")
			return
		}
		f := k.StructValue.GetFields()
		keys := make([]string, 0, len(f))
		for x := range f {
			keys = append(keys, x)
		}
		sort.Strings(keys)
		fmt.Fprintf(sb, " M %d", len(keys))
		for _, x := range keys {
			sb.WriteString(" " + vh.Hex([]byte(x)))
			pvTokens(sb, f[x])
		}
	case *structpb.Value_ListValue:
		if k == nil {
			sb.WriteString(" U")
			return
		}
		vs := k.ListValue.GetValues()
		fmt.Fprintf(sb, " L %d", len(vs))
		for _, e := range vs {
			pvTokens(sb, e)
		}
	}
}

// parsePVTokens rebuilds a Value from `ai` tokens (replay). Unset is rendered as Kind == nil.
func parsePVTokens(s *tokStream) *structpb.Value {
	t := s.next()
	switch t {
	case "U":
		return &structpb.Value{}
	case "N":
		return structpb.NewNullValue()
	case "B0":
		return structpb.NewBoolValue(false)
	case "B1":
		return structpb.NewBoolValue(true)
	case "D":
		return structpb.NewNumberValue(math.Float64frombits(atoiU(s.next())))
	case "S":
		return structpb.NewStringValue(string(vh.UnHex(s.next())))
	case "M":
		k := int(atoiU(s.next()))
		st := &structpb.Struct{Fields: map[string]*structpb.Value{}}
		for i := 0; i < k; i++ {
			key := string(vh.UnHex(s.next()))
			st.Fields[key] = parsePVTokens(s)
		}
		return structpb.NewStructValue(st)
	case "L":
		k := int(atoiU(s.next()))
		l := &structpb.ListValue{}
		for i := 0; i < k; i++ {
			l.Values = append(l.Values, parsePVTokens(s))
		}
		return structpb.NewListValue(l)
	}
	panic("replay: bad value token " + t)
}

// showJSON decodes a JSON text and renders it as an abstract document: numbers by the float64 they
// denote, strings by their bytes, objects sorted by key.
func showJSON(text []byte) (string, error) {
	dec := json.NewDecoder(strings.NewReader(string(text)))
	dec.UseNumber()
	var v any
	if err := dec.Decode(&v); err != nil {
		return "", err
	}
	if dec.More() {
		return "", fmt.Errorf("trailing data")
	}
	var sb strings.Builder
	var rec func(v any) error
	rec = func(v any) error {
		switch v := v.(type) {
		case nil:
			sb.WriteString("n")
		case bool:
			if v {
				sb.WriteString("t")
			} else {
				sb.WriteString("f")
			}
		case json.Number:
			f, err := strconv.ParseFloat(string(v), 64)
			if err != nil {
				return err
			}
			sb.WriteString("#" + showNum(f))
		case string:
			sb.WriteString("\"" + vh.Hex([]byte(v)))
		case map[string]any:
			sb.WriteString("{")
			keys := make([]string, 0, len(v))
			for k := range v {
				keys = append(keys, k)
			}
			sort.Strings(keys)
			for _, k := range keys {
				sb.WriteString(vh.Hex([]byte(k)) + "=")
				if err := rec(v[k]); err != nil {
					return err
				}
				sb.WriteString(",")
			}
			sb.WriteString("}")
		case []any:
			sb.WriteString("[")
			for _, e := range v {
				if err := rec(e); err != nil {
					return err
				}
				sb.WriteString(",")
			}
			sb.WriteString("]")
		}
		return nil
	}
	if err := rec(v); err != nil {
		return "", err
	}
	return sb.String(), nil
}
