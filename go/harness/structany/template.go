package main

// Tie between the generator template (cmd/protoc-gen-go/internal_gengo/well_known_types.go) and the
// generated helpers that the harness executes (types/known/{anypb,structpb}/*.pb.go): the lines the
// template prints for Any, Struct, ListValue and Value must be the helper code of the generated files,
// line by line (white space collapsed; `xPackage.Ident("Y")` matches `<alias>.Y`).
// The repository root is taken from the compiled-in source path of structpb.NewValue.

import (
	"go/ast"
	"go/parser"
	"go/token"
	"os"
	"path/filepath"
	"reflect"
	"regexp"
	"runtime"
	"strconv"
	"strings"

	"google.golang.org/protobuf/types/known/structpb"
)

var wsRun = regexp.MustCompile(`[ \t]+`)

func squash(s string) string { return strings.TrimSpace(wsRun.ReplaceAllString(s, " ")) }

// templateLines returns, per `case genid.X_message_fullname` of genMessageKnownFunctions, the printed lines as regexps.
func templateLines(path string) (map[string][]string, error) {
	fset := token.NewFileSet()
	f, err := parser.ParseFile(fset, path, nil, 0)
	if err != nil {
		return nil, err
	}
	out := map[string][]string{}
	for _, d := range f.Decls {
		fd, ok := d.(*ast.FuncDecl)
		if !ok || fd.Name.Name != "genMessageKnownFunctions" {
			continue
		}
		ast.Inspect(fd.Body, func(n ast.Node) bool {
			cc, ok := n.(*ast.CaseClause)
			if !ok || len(cc.List) != 1 {
				return true
			}
			sel, ok := cc.List[0].(*ast.SelectorExpr)
			if !ok {
				return true
			}
			key := sel.Sel.Name
			for _, st := range cc.Body {
				es, ok := st.(*ast.ExprStmt)
				if !ok {
					continue
				}
				call, ok := es.X.(*ast.CallExpr)
				if !ok {
					continue
				}
				if fn, ok := call.Fun.(*ast.SelectorExpr); !ok || fn.Sel.Name != "P" {
					continue
				}
				var re strings.Builder
				for _, a := range call.Args {
					switch a := a.(type) {
					case *ast.BasicLit:
						s, err := strconv.Unquote(a.Value)
						if err != nil {
							s = a.Value
						}
						re.WriteString(regexp.QuoteMeta(s))
					case *ast.CallExpr: // xPackage.Ident("Y")
						name := `\w+`
						if len(a.Args) == 1 {
							if bl, ok := a.Args[0].(*ast.BasicLit); ok {
								if s, err := strconv.Unquote(bl.Value); err == nil {
									name = regexp.QuoteMeta(s)
								}
							}
						}
						re.WriteString(`(\w+\.)?` + name)
					default:
						re.WriteString(`.*`)
					}
				}
				out[key] = append(out[key], re.String())
			}
			return false
		})
	}
	return out, nil
}

func runTemplateTie(c *C) {
	pc := reflect.ValueOf(structpb.NewValue).Pointer()
	file, _ := runtime.FuncForPC(pc).FileLine(pc)
	const suffix = "types/known/structpb/struct.pb.go"
	if !strings.HasSuffix(filepath.ToSlash(file), suffix) {
		c.R.Notes = append(c.R.Notes, "template tie skipped: source path of structpb.NewValue not available: "+file)
		return
	}
	root := file[:len(file)-len(suffix)]
	tl, err := templateLines(filepath.Join(root, "cmd/protoc-gen-go/internal_gengo/well_known_types.go"))
	if err != nil {
		c.R.Notes = append(c.R.Notes, "template tie skipped: "+err.Error())
		return
	}
	for _, t := range []struct{ key, gen string }{
		{"Any_message_fullname", "types/known/anypb/any.pb.go"},
		{"Struct_message_fullname", "types/known/structpb/struct.pb.go"},
		{"ListValue_message_fullname", "types/known/structpb/struct.pb.go"},
		{"Value_message_fullname", "types/known/structpb/struct.pb.go"},
	} {
		in := Input{Stream: "template", Type: t.key}
		src, err := os.ReadFile(filepath.Join(root, t.gen))
		if err != nil || len(tl[t.key]) == 0 {
			c.Compare("template tie: template section and generated file are readable", in, "unreadable", "readable")
			continue
		}
		var gen []string
		for _, l := range strings.Split(string(src), "\n") {
			if s := squash(l); s != "" {
				gen = append(gen, s)
			}
		}
		var tmpl []string // regexps over squashed lines
		for _, l := range tl[t.key] {
			if s := squash(strings.ReplaceAll(l, `\t`, " ")); s != "" { // QuoteMeta leaves a tab as is; literal tabs become blanks
				tmpl = append(tmpl, s)
			}
		}
		first := regexp.MustCompile("^" + tmpl[0] + "$")
		start := -1
		for i, g := range gen {
			if first.MatchString(g) {
				start = i
				break
			}
		}
		if start < 0 {
			c.Compare("template tie: first helper line of "+t.key+" occurs in "+t.gen, in, "absent", tmpl[0])
			continue
		}
		okAll := true
		for i, p := range tmpl {
			g := "<end of file>"
			if start+i < len(gen) {
				g = gen[start+i]
			}
			re, err := regexp.Compile("^" + p + "$")
			if err != nil || !re.MatchString(g) {
				c.Compare("template tie: generated helper line = template line ("+t.key+")", in, g, p)
				okAll = false
				break
			}
		}
		c.Hist("template:" + t.key + ":lines=" + strconv.Itoa(len(tmpl)))
		c.Case("template|"+t.key, okAll)
	}
}
