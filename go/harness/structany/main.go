// structany harness: C45 (Struct, Value and Any conversions round-trip).
//
// Streams
//   leaf  float64(int), float64(float32), base64, utf8.Valid: the model's executable parameters vs Go
//   nv    Go value trees -> structpb.NewValue/NewStruct/NewList -> AsInterface/AsMap/AsSlice, protojson,
//         encoding/json, MarshalJSON/UnmarshalJSON; model: newValue, asInterface, normalize, possibleErrs, JSON
//   ai    hand-made Value trees (unset Values, nil pointers, NaN/Inf, invalid UTF-8) -> AsInterface,
//         NewValue(AsInterface(x)), protojson, encoding/json; model: asInterface, wf, protoJSON, goJSON
//   any   EVERY message type linked into the harness x random contents -> anypb.New/MarshalFrom/MessageName/
//         MessageIs/UnmarshalTo/UnmarshalNew; model: new, messageName, messageIs, unmarshalTo, unmarshalNew
//   url   hand-made type URLs per message type
package main

import (
	"encoding/base64"
	"encoding/json"
	"fmt"
	"math"
	"reflect"
	"sort"
	"strings"
	"time"
	"unicode/utf8"

	"google.golang.org/protobuf/encoding/protojson"
	vh "google.golang.org/protobuf/internal/zz_verif_vh"
	"google.golang.org/protobuf/proto"
	"google.golang.org/protobuf/reflect/protoreflect"
	"google.golang.org/protobuf/reflect/protoregistry"
	"google.golang.org/protobuf/types/known/structpb"
)

type C = vh.Ctx

func main() { vh.Main("structany", run) }

func run(c *C) {
	switch c.Prop {
	case "C45":
		runC45(c)
	default:
		panic("structany harness: unknown property " + c.Prop)
	}
}

// Input is what a replay file stores for one case.
type Input struct {
	Stream string `json:"stream"`
	Line   string `json:"line,omitempty"`  // leaf / nv / ai: the request line
	Type   string `json:"type,omitempty"`  // any / url: full name of the message type
	Bytes  string `json:"bytes,omitempty"` // any / url: hex of the message contents
	URL    string `json:"url,omitempty"`   // url: hex of the type URL
	Other  string `json:"other,omitempty"` // any: full name of the "other" type
}

func runC45(c *C) {
	c.R.Rule = "structpb: Go value trees of depth<=5 (plus chains of depth 200) over nil, bool, all ten integer types at min/max/0/±1/2^53±1/2^63/2^64-1, float32/float64 boundary bit patterns (±0, subnormals, max, ±Inf, quiet/signaling NaN) and random bits, json.Number (valid, range errors, syntax errors, hex floats, NaN/Inf spellings), strings and map keys valid/invalid UTF-8 (empty, NUL, look-alike pairs), []byte (nil, lengths 0..9), nil vs empty maps/slices, 26 unsupported dynamic types (struct, chan, map[int], typed nil pointers, named string/map/slice/float types, json.RawMessage, *structpb.Value ...); hand-made Value trees with unset Values, nil pointers, typed-nil oneof wrappers, NaN/Inf, invalid UTF-8. anypb: EXHAUSTIVE over the message types registered in protoregistry.GlobalTypes of this binary (count in histogram any:types) x empty + random contents (fill copied from the msg engine); per type a related 'other' type (suffix/prefix-related name when one exists) and 30+ hand-made URLs. Non-trivial: nv tree with >=1 container and >=3 nodes that NewValue accepts; ai tree with a container; any case with non-empty contents; url whose suffix is non-empty; distinct by request line / (type, bytes) / (type, url)."
	initRegistry(c)

	// 0. replay
	for _, raw := range c.ReplayInputs() {
		var in Input
		if json.Unmarshal(raw, &in) == nil && in.Stream != "" {
			c.Hist("replayed")
			replay(c, in)
		}
	}

	var walls []string
	timed := func(name string, f func(*C)) bool {
		t0 := time.Now()
		f(c)
		walls = append(walls, fmt.Sprintf("%s=%.1fs", name, time.Since(t0).Seconds()))
		return !c.Failed()
	}
	_ = timed("template", runTemplateTie) && timed("leaf", runLeaf) && timed("nv", runNV) && timed("ai", runAI) && timed("any+url", runAny)
	c.R.Notes = append(c.R.Notes, "wall per stream: "+strings.Join(walls, " "))
}

func replay(c *C, in Input) {
	defer c.Recover("replay", in, "")
	switch in.Stream {
	case "leaf":
		evalLeaf(c, in.Line)
	case "nv":
		evalNV(c, parseRequest(in.Line))
	case "ai":
		f := strings.Fields(in.Line)
		evalAI(c, parsePVTokens(&tokStream{t: f[1:]}))
	case "any":
		mt := typeByName[in.Type]
		if mt == nil {
			return
		}
		m := mt.New().Interface()
		if err := (proto.UnmarshalOptions{AllowPartial: true}).Unmarshal(vh.UnHex(in.Bytes), m); err != nil {
			return
		}
		other := typeByName[in.Other]
		if other == nil {
			other = otherFor(c, mt)
		}
		evalAny(c, mt, m, other)
	case "url":
		mt := typeByName[in.Type]
		if mt == nil {
			return
		}
		evalURL(c, string(vh.UnHex(in.URL)), mt, vh.UnHex(in.Bytes))
	}
}

// ---------------------------------------------------------------- leaf stream

func runLeaf(c *C) {
	var ints []string
	add := func(format string, a ...any) { ints = append(ints, fmt.Sprintf(format, a...)) }
	for _, v := range []int64{0, 1, -1, math.MaxInt8, math.MinInt8, math.MaxInt16, math.MinInt16, math.MaxInt32, math.MinInt32,
		math.MaxInt64, math.MinInt64, math.MaxInt64 - 1, math.MinInt64 + 1} {
		add("i2f %d", v)
	}
	for _, v := range []uint64{math.MaxUint8, math.MaxUint16, math.MaxUint32, math.MaxUint64, math.MaxUint64 - 1, 1 << 63, 1<<63 + 1, 1<<63 - 1,
		math.MaxUint64 - 1024, math.MaxUint64 - 1023, math.MaxUint64 - 2047, math.MaxUint64 - 2048, math.MaxUint64 - 3072} {
		add("i2f %d", v)
	}
	// around every power of two: exact below 2^53, round-to-nearest-even above (ties, just below/above a tie)
	for k := uint(1); k < 64; k++ {
		p := uint64(1) << k
		for _, d := range []int64{-2, -1, 0, 1, 2, 3} {
			u := p + uint64(d)
			add("i2f %d", u)
			if u <= math.MaxInt64 {
				add("i2f -%d", u)
			}
		}
		if k > 54 {
			h := uint64(1) << (k - 53) // half an ulp at 2^k
			for _, u := range []uint64{p + h, p + h - 1, p + h + 1, p + 3*h, p + 3*h - 1, p + 3*h + 1, p - h/2, p - h/2 - 1, p - h/2 + 1} {
				add("i2f %d", u)
			}
		}
	}
	for i := 0; i < c.N(2000, 40000); i++ {
		u := c.Rand.Uint64() >> uint(c.Rand.Intn(64))
		if c.Rand.Intn(2) == 0 && u <= math.MaxInt64 {
			add("i2f -%d", u)
		} else {
			add("i2f %d", u)
		}
	}
	for _, b := range f32Bounds {
		add("f32 %d", b)
	}
	for i := 0; i < c.N(2000, 40000); i++ {
		add("f32 %d", c.Rand.Uint32())
	}
	for n := 0; n <= 10; n++ {
		for k := 0; k < 4; k++ {
			b := make([]byte, n)
			c.Rand.Read(b)
			switch k {
			case 1:
				for i := range b {
					b[i] = 0xff
				}
			case 2:
				for i := range b {
					b[i] = 0
				}
			}
			add("b64 %s", vh.Hex(b))
		}
	}
	for i := 0; i < c.N(300, 5000); i++ {
		b := make([]byte, c.Rand.Intn(40))
		c.Rand.Read(b)
		add("b64 %s", vh.Hex(b))
	}
	for _, s := range allStrings() {
		add("utf8 %s", vh.Hex([]byte(s)))
	}
	for _, n := range []string{"", "a", "_", "a.b", "A_b.C9", "a..b", ".a", "a.", "1a", "a.1b", "a b", "a/b", "a-b", "é", "a.é", "\xff", "a\x00", "google.protobuf.Any", "x.y.z.w", "a.b.", "_._", "a9.b9", "9"} {
		add("fn %s", vh.Hex([]byte(n)))
	}
	for i := 0; i < c.N(500, 10000); i++ {
		alphabet := "aZ_9./ -\x80"
		b := make([]byte, c.Rand.Intn(8))
		for j := range b {
			b[j] = alphabet[c.Rand.Intn(len(alphabet))]
		}
		add("fn %s", vh.Hex(b))
	}
	for _, l := range ints {
		evalLeaf(c, l)
		if c.Failed() {
			return
		}
	}
}

func evalLeaf(c *C, line string) {
	in := Input{Stream: "leaf", Line: line}
	defer c.Recover("leaf", in, "")
	f := strings.Fields(line)
	if len(f) != 2 {
		return
	}
	c.Hist("leaf:" + f[0])
	var impl string
	switch f[0] {
	case "i2f":
		if strings.HasPrefix(f[1], "-") {
			var v int64
			fmt.Sscan(f[1], &v)
			impl = fmt.Sprint(math.Float64bits(float64(v)))
			// exact below 2^53
			if v >= -(1<<53) && !c.Check(int64(float64(v)) == v, "float64(int64) exact below 2^53", in, "") {
				return
			}
		} else {
			v := atoiU(f[1])
			impl = fmt.Sprint(math.Float64bits(float64(v)))
			if v <= 1<<53 && !c.Check(uint64(float64(v)) == v, "float64(uint64) exact below 2^53", in, "") {
				return
			}
		}
	case "f32":
		impl = showNum(float64(math.Float32frombits(uint32(atoiU(f[1])))))
	case "b64":
		impl = vh.Hex([]byte(base64.StdEncoding.EncodeToString(vh.UnHex(f[1]))))
	case "utf8":
		impl = b01(utf8.Valid(vh.UnHex(f[1])))
	case "fn":
		impl = b01(protoreflect.FullName(vh.UnHex(f[1])).IsValid())
	default:
		return
	}
	c.Case(line, f[1] != "0" && f[1] != "-")
	if c.HasModel() {
		c.Compare("leaf "+f[0], in, impl, c.Ask("%s", line))
	}
}

// ---------------------------------------------------------------- generators for Go value trees

var f32Bounds = []uint32{0, 0x80000000, 1, 0x80000001, 0x007fffff, 0x00800000, 0x00800001, 0x3f800000, 0xbf800000, 0x7f7fffff, 0xff7fffff,
	0x7f800000, 0xff800000, 0x7fc00000, 0xffc00000, 0x7f800001, 0xff800001, 0x7fbfffff, 0x7fffffff, 0x00000002, 0x00400000, 0x33d6bf95, 0x4b800000, 0x5f000000}

var f64Bounds = []uint64{0, 0x8000000000000000, 1, 0x8000000000000001, 0x000fffffffffffff, 0x0010000000000000, 0x0010000000000001,
	0x3ff0000000000000, 0xbff0000000000000, 0x7fefffffffffffff, 0xffefffffffffffff, 0x7ff0000000000000, 0xfff0000000000000,
	0x7ff8000000000000, 0xfff8000000000000, 0x7ff0000000000001, 0xfff0000000000001, 0x7ff7ffffffffffff, 0x7fffffffffffffff,
	0x4340000000000000, 0x433fffffffffffff, 0x4340000000000001, 0x3fb999999999999a, 0x444b1ae4d6e2ef50 /*1e21*/, 0x3e7ad7f29abcaf48, /*1e-7*/
	0x43e0000000000000 /*2^63*/, 0x43f0000000000000 /*2^64*/, 0xc3e0000000000000, 0x3ff8000000000000, 0x4059000000000000}

var jsonNumbers = []string{"0", "-0", "1", "1.5", "-2.5e3", "1e400", "-1e400", "1e-400", "", "abc", "NaN", "nan", "Inf", "+Inf", "-Infinity", "infinity",
	"0x1p-2", "0x1.8p1", "1_000", "0x_1p0", " 1", "1 ", "9007199254740993", "1e308", "1.7976931348623157e308", "1.7976931348623159e308",
	"+5", ".5", "5.", "1e", "--1", "1.0.0", "0.1", "123456789012345678901234567890", "4.9e-324", "2.5e-324", "1e23", "٣"}

var goodStrings = []string{"", "a", "hello", "héllo", "日本", "\x00", "\"quote\\", "line\nbreak", " ", "tab\t", "😀", "NaN", "Infinity", "-Infinity",
	"<>&  ", "\u007f", "�", "\U0010ffff", "퟿", strings.Repeat("x", 130), "null", "true", "1.5"}
var badStrings = []string{"\xff", "\xc0\x80", "\xed\xa0\x80", "\xe2\x82", "\x80", "\xf4\x90\x80\x80", "a\xffb", "日\xe6", "\xf8\x88\x80\x80\x80", "ok\xc3"}
var goodKeys = []string{"", "a", "b", "A", "key", "é", "é", "\x00", "a\x00", "a.b", "a/b", " ", "k1", "k2", "日本", "fields", "NaN", "K", "K", "k"}
var badKeys = []string{"\xff", "\xc0\x80", "\xed\xa0\x80", "k\xfe", "\x80"}

func allStrings() []string {
	var out []string
	out = append(out, goodStrings...)
	out = append(out, badStrings...)
	out = append(out, goodKeys...)
	out = append(out, badKeys...)
	return out
}

type genOpts struct {
	maxDepth int
	pBad     int // 1/pBad of a string, key, json.Number or node being invalid/unsupported (0 = never)
}

var intRanges = [5][2]int64{{math.MinInt64, math.MaxInt64}, {math.MinInt8, math.MaxInt8}, {math.MinInt16, math.MaxInt16}, {math.MinInt32, math.MaxInt32}, {math.MinInt64, math.MaxInt64}}
var uintMax = [5]uint64{math.MaxUint64, math.MaxUint8, math.MaxUint16, math.MaxUint32, math.MaxUint64}

func genInt(c *C) *node {
	ty := c.Rand.Intn(5)
	lo, hi := intRanges[ty][0], intRanges[ty][1]
	var v int64
	switch c.Rand.Intn(10) {
	case 0:
		v = lo
	case 1:
		v = hi
	case 2:
		v = 0
	case 3:
		v = 1
	case 4:
		v = -1
	case 5:
		v = []int64{1<<53 + 1, -(1<<53 + 1), 1 << 53, 1<<53 - 1, 1<<62 + 1, math.MaxInt64 - 1, math.MinInt64 + 1, 1<<54 + 2, 1<<54 + 6}[c.Rand.Intn(9)]
	case 6, 7:
		v = c.Rand.Int63() >> uint(c.Rand.Intn(63))
		if c.Rand.Intn(2) == 0 {
			v = -v
		}
	default:
		v = int64(c.Rand.Intn(2000)) - 1000
	}
	if v < lo {
		v = lo
	}
	if v > hi {
		v = hi
	}
	return &node{K: 'i', Ty: ty, I: v}
}

func genUint(c *C) *node {
	ty := c.Rand.Intn(5)
	var v uint64
	switch c.Rand.Intn(8) {
	case 0:
		v = 0
	case 1:
		v = uintMax[ty]
	case 2:
		v = []uint64{1<<53 + 1, 1 << 63, 1<<63 + 1, math.MaxUint64 - 1, 1<<64 - 1024, 1<<64 - 1025, 1<<53 - 1, 1<<63 + 1024, 1<<63 + 1025}[c.Rand.Intn(9)]
	case 3, 4:
		v = c.Rand.Uint64() >> uint(c.Rand.Intn(64))
	default:
		v = uint64(c.Rand.Intn(1000))
	}
	if v > uintMax[ty] {
		v = uintMax[ty]
	}
	return &node{K: 'u', Ty: ty, U: v}
}

func pick(c *C, xs []string) []byte { return []byte(xs[c.Rand.Intn(len(xs))]) }

func genString(c *C, o genOpts) []byte {
	if o.pBad > 0 && c.Rand.Intn(o.pBad) == 0 {
		return pick(c, badStrings)
	}
	if c.Rand.Intn(6) == 0 { // random valid runes
		var sb strings.Builder
		for k := c.Rand.Intn(6); k >= 0; k-- {
			r := rune(c.Rand.Intn(0x110000))
			if !utf8.ValidRune(r) {
				r = 'x'
			}
			sb.WriteRune(r)
		}
		return []byte(sb.String())
	}
	return pick(c, goodStrings)
}

func genKey(c *C, o genOpts) []byte {
	if o.pBad > 0 && c.Rand.Intn(o.pBad) == 0 {
		return pick(c, badKeys)
	}
	if c.Rand.Intn(8) == 0 {
		return genString(c, genOpts{})
	}
	return pick(c, goodKeys)
}

func genNode(c *C, depth int, o genOpts) *node {
	r := c.Rand
	if o.pBad > 0 && r.Intn(o.pBad*3) == 0 {
		c.Hist("gen:unsupported")
		return &node{K: 'x', Tag: r.Intn(len(unsupportedMakers))}
	}
	k := r.Intn(100)
	if depth >= o.maxDepth && k >= 55 {
		k = r.Intn(55)
	}
	switch {
	case k < 4:
		return &node{K: 'z'}
	case k < 9:
		return &node{K: 'b', B: r.Intn(2) == 0}
	case k < 17:
		return genInt(c)
	case k < 24:
		return genUint(c)
	case k < 29:
		b := f32Bounds[r.Intn(len(f32Bounds))]
		if r.Intn(2) == 0 {
			b = r.Uint32()
		}
		return &node{K: 'g', Bits: uint64(b)}
	case k < 38:
		b := f64Bounds[r.Intn(len(f64Bounds))]
		switch r.Intn(4) {
		case 0:
			b = r.Uint64()
		case 1:
			b = math.Float64bits(float64(r.Intn(2000)-1000) / 8)
		}
		return &node{K: 'd', Bits: b}
	case k < 41:
		s := jsonNumbers[r.Intn(len(jsonNumbers))]
		if o.pBad == 0 {
			s = []string{"0", "1.5", "-2.5e3", "1e308", "9007199254740993", "4.9e-324", "0.1"}[r.Intn(7)]
		}
		return &node{K: 'j', S: []byte(s)}
	case k < 50:
		return &node{K: 's', S: genString(c, o)}
	case k < 55:
		n := r.Intn(10)
		b := make([]byte, n)
		r.Read(b)
		return &node{K: 'y', S: b, Nil: n == 0 && r.Intn(2) == 0}
	case k < 80:
		n := &node{K: 'm'}
		if r.Intn(8) == 0 {
			n.Nil = true
			return n
		}
		seen := map[string]bool{}
		for i := r.Intn(5); i > 0; i-- {
			key := genKey(c, o)
			if seen[string(key)] {
				continue
			}
			seen[string(key)] = true
			n.Keys = append(n.Keys, key)
			n.Kids = append(n.Kids, genNode(c, depth+1, o))
		}
		return n
	default:
		n := &node{K: 'l'}
		if r.Intn(8) == 0 {
			n.Nil = true
			return n
		}
		for i := r.Intn(5); i > 0; i-- {
			n.Kids = append(n.Kids, genNode(c, depth+1, o))
		}
		return n
	}
}

func leaf(k byte) *node { return &node{K: k} }

func mapOf(kv ...any) *node {
	n := &node{K: 'm'}
	for i := 0; i+1 < len(kv); i += 2 {
		n.Keys = append(n.Keys, []byte(kv[i].(string)))
		n.Kids = append(n.Kids, kv[i+1].(*node))
	}
	return n
}

func listOf(kids ...*node) *node { return &node{K: 'l', Kids: kids} }

// corpusNV: written-out boundary trees that run on every seed.
func corpusNV() []*node {
	var out []*node
	// every scalar boundary alone, in a list and as a map value
	var scal []*node
	for ty := 0; ty < 5; ty++ {
		for _, v := range []int64{intRanges[ty][0], intRanges[ty][1], 0, 1, -1} {
			scal = append(scal, &node{K: 'i', Ty: ty, I: v})
		}
		for _, v := range []uint64{uintMax[ty], 0, 1} {
			scal = append(scal, &node{K: 'u', Ty: ty, U: v})
		}
	}
	for _, v := range []int64{1<<53 + 1, -(1<<53 + 1), 1 << 53, 1<<53 + 2, 1<<53 + 3} {
		scal = append(scal, &node{K: 'i', Ty: 4, I: v}, &node{K: 'i', Ty: 0, I: v})
	}
	for _, v := range []uint64{1<<53 + 1, 1 << 63, 1<<63 + 1025, 1<<64 - 1025, 1<<64 - 1024} {
		scal = append(scal, &node{K: 'u', Ty: 4, U: v}, &node{K: 'u', Ty: 0, U: v})
	}
	for _, b := range f32Bounds {
		scal = append(scal, &node{K: 'g', Bits: uint64(b)})
	}
	for _, b := range f64Bounds {
		scal = append(scal, &node{K: 'd', Bits: b})
	}
	for _, s := range jsonNumbers {
		scal = append(scal, &node{K: 'j', S: []byte(s)})
	}
	for _, s := range goodStrings {
		scal = append(scal, &node{K: 's', S: []byte(s)})
	}
	for _, s := range badStrings {
		scal = append(scal, &node{K: 's', S: []byte(s)})
	}
	for n := 0; n < 8; n++ {
		b := make([]byte, n)
		for i := range b {
			b[i] = byte(0xf8 + i)
		}
		scal = append(scal, &node{K: 'y', S: b})
	}
	scal = append(scal, &node{K: 'y', Nil: true}, leaf('z'), &node{K: 'b', B: true}, &node{K: 'b'})
	for t := range unsupportedMakers {
		scal = append(scal, &node{K: 'x', Tag: t})
	}
	for _, s := range scal {
		out = append(out, s, listOf(s), mapOf("k", s))
	}
	// nil vs empty
	out = append(out, &node{K: 'm', Nil: true}, &node{K: 'm'}, &node{K: 'l', Nil: true}, &node{K: 'l'},
		mapOf("a", &node{K: 'm', Nil: true}, "b", &node{K: 'l', Nil: true}, "c", &node{K: 'm'}, "d", &node{K: 'l'}),
		listOf(&node{K: 'm', Nil: true}, &node{K: 'l', Nil: true}, leaf('z')))
	// keys
	for _, k := range goodKeys {
		out = append(out, mapOf(k, leaf('z')))
	}
	for _, k := range badKeys {
		out = append(out, mapOf(k, leaf('z')), mapOf("a", mapOf(k, leaf('z'))), listOf(mapOf("a", listOf(mapOf(k, &node{K: 'b', B: true})))))
	}
	out = append(out, mapOf("é", leaf('z'), "é", &node{K: 'b'}, "K", leaf('z'), "K", leaf('z'), "k", leaf('z'), "", leaf('z')))
	// several different errors in one map (the reported one depends on Go's map order), in a list (first wins)
	out = append(out,
		mapOf("\xff", leaf('z'), "a", &node{K: 'x', Tag: 2}),
		mapOf("a", &node{K: 'x', Tag: 2}, "b", &node{K: 'j', S: []byte("abc")}, "\xff", leaf('z')),
		mapOf("a", &node{K: 's', S: []byte("\xff")}, "b", &node{K: 'j', S: []byte("1e400")}),
		listOf(&node{K: 'x', Tag: 0}, &node{K: 's', S: []byte("\xff")}),
		listOf(&node{K: 's', S: []byte("\xff")}, &node{K: 'x', Tag: 0}),
		listOf(leaf('z'), mapOf("a", &node{K: 'j', S: []byte("")}, "b", &node{K: 'x', Tag: 4}), &node{K: 's', S: []byte("\x80")}),
		mapOf("\xff", &node{K: 'x', Tag: 1}),
	)
	// error at every position of a list / depth
	for pos := 0; pos < 4; pos++ {
		l := listOf(leaf('z'), leaf('z'), leaf('z'), leaf('z'))
		l.Kids[pos] = &node{K: 'x', Tag: 3}
		out = append(out, l)
		m := mapOf("a", leaf('z'), "b", leaf('z'), "c", leaf('z'), "d", leaf('z'))
		m.Kids[pos] = &node{K: 's', S: []byte("\xc0\x80")}
		out = append(out, m)
	}
	// deep chains: the helpers have no depth bound
	for _, d := range []int{5, 6, 50, 200} {
		var n *node = &node{K: 'i', Ty: 3, I: 7}
		var bad *node = &node{K: 's', S: []byte("\xff")}
		for i := 0; i < d; i++ {
			if i%2 == 0 {
				n, bad = listOf(n), listOf(leaf('z'), bad)
			} else {
				n, bad = mapOf("k", n), mapOf("k", bad, "j", leaf('z'))
			}
		}
		out = append(out, n, bad)
	}
	return out
}

// ---------------------------------------------------------------- nv stream

func runNV(c *C) {
	for _, n := range corpusNV() {
		c.Hist("nv:corpus")
		evalNV(c, n)
		if c.Failed() {
			return
		}
	}
	N := c.N(16000, 200000)
	for i := 0; i < N && !c.Failed(); i++ {
		o := genOpts{maxDepth: 5, pBad: 25}
		switch i % 4 {
		case 0:
			o.pBad = 0 // only supported trees: the law itself
		case 1:
			o.pBad = 60
		case 2:
			o.pBad = 8
		}
		var n *node
		if i%3 == 0 {
			n = genNode(c, 1, o)
		} else { // force a container at the top
			n = &node{K: []byte{'m', 'l'}[c.Rand.Intn(2)]}
			seen := map[string]bool{}
			for k := 1 + c.Rand.Intn(4); k > 0; k-- {
				kid := genNode(c, 2, o)
				if n.K == 'm' {
					key := genKey(c, o)
					if seen[string(key)] {
						continue
					}
					seen[string(key)] = true
					n.Keys = append(n.Keys, key)
				}
				n.Kids = append(n.Kids, kid)
			}
		}
		evalNV(c, n)
	}
}

func classifyNewValueErr(err error) string {
	s := err.Error()
	switch {
	case strings.Contains(s, "invalid UTF-8"):
		return "utf8"
	case strings.Contains(s, "invalid type"):
		return "type"
	case strings.Contains(s, "invalid number format"):
		return "number"
	}
	return "other:" + s
}

func classifyProtoJSONErr(err error) string {
	s := err.Error()
	switch {
	case strings.Contains(s, "none of the oneof fields is set"):
		return "Eunset"
	case strings.Contains(s, "invalid UTF-8"):
		return "Eutf8"
	case strings.Contains(s, "number_value: invalid"):
		return "Enonfinite"
	}
	return "Eother:" + s
}

func classifyGoJSONErr(err error) string {
	if _, ok := err.(*json.UnsupportedValueError); ok {
		return "Enonfinite"
	}
	return "Eother:" + err.Error()
}

func protoJSONShow(m proto.Message) (string, error) {
	b, err := protojson.Marshal(m)
	if err != nil {
		return classifyProtoJSONErr(err), err
	}
	s, derr := showJSON(b)
	if derr != nil {
		return "Eundecodable:" + string(b), nil
	}
	return s, nil
}

func goJSONShow(v any) (string, error) {
	b, err := json.Marshal(v)
	if err != nil {
		return classifyGoJSONErr(err), err
	}
	s, derr := showJSON(b)
	if derr != nil {
		return "Eundecodable:" + string(b), nil
	}
	return s, nil
}

func contains(xs []string, x string) bool {
	for _, y := range xs {
		if x == y {
			return true
		}
	}
	return false
}

func evalNV(c *C, n *node) bool {
	n.sortKeys()
	line := requestLine(n)
	in := Input{Stream: "nv", Line: line}
	ok := true
	chk := func(cond bool, what string) bool {
		if !c.Check(cond, what, in, "") {
			ok = false
		}
		return cond
	}
	cmp := func(what, impl, model string) {
		if !c.Compare(what, in, impl, model) {
			ok = false
		}
	}
	func() {
		defer c.Recover("NewValue/AsInterface", in, "")
		v := build(n)
		val, err := structpb.NewValue(v)
		sup := supportedGo(n)
		c.Hist(fmt.Sprintf("nv:depth=%d", min(n.depth(), 7)))
		var model string
		if c.HasModel() {
			model = c.Ask("%s", line)
		}
		if !chk((err == nil) == sup, "NewValue succeeds iff no unsupported type, all strings/keys valid UTF-8, json.Numbers parse (at every depth)") {
			return
		}
		// NewStruct / NewList agree with NewValue on a top-level map / slice
		switch vv := v.(type) {
		case map[string]any:
			st, serr := structpb.NewStruct(vv)
			chk((serr == nil) == (err == nil), "NewStruct verdict = NewValue verdict")
			if serr == nil && err == nil {
				chk(proto.Equal(st, val.GetStructValue()) || hasNaN(n), "NewStruct(m) = NewValue(m).GetStructValue()")
				chk(showGo(st.AsMap()) == showGo(val.AsInterface()), "NewStruct(m).AsMap() = NewValue(m).AsInterface()")
				chk(st.AsMap() != nil, "AsMap never returns a nil map")
			} else {
				chk(st == nil, "NewStruct returns nil with an error")
			}
		case []any:
			l, lerr := structpb.NewList(vv)
			chk((lerr == nil) == (err == nil), "NewList verdict = NewValue verdict")
			if lerr == nil && err == nil {
				chk(showGo(l.AsSlice()) == showGo(val.AsInterface()), "NewList(l).AsSlice() = NewValue(l).AsInterface()")
				chk(l.AsSlice() != nil, "AsSlice never returns a nil slice")
				chk(len(l.GetValues()) == len(vv), "NewList keeps the length")
			} else {
				chk(l == nil, "NewList returns nil with an error (no element error is swallowed)")
			}
		}
		if err != nil {
			c.Hist("nv:err")
			kind := classifyNewValueErr(err)
			c.Hist("nv:err:" + kind)
			chk(val == nil, "NewValue returns a nil Value together with an error")
			c.Case(line, false)
			if c.HasModel() {
				f := strings.Fields(model)
				if len(f) != 4 || f[0] != "err" {
					cmp("NewValue verdict", "err "+kind, model)
					return
				}
				set := strings.Split(f[2], ",")
				if !contains(set, kind) {
					cmp("NewValue error kind is one of the model's possibleErrs", kind, f[2])
				}
				if len(set) == 1 {
					cmp("NewValue error kind", kind, f[1])
				} else {
					c.Hist("nv:err:order-dependent")
				}
				cmp("normalize", showNormNode(n), f[3])
			}
			return
		}
		c.Hist("nv:ok")
		got := val.AsInterface()
		want := normGo(n)
		chk(reflect.DeepEqual(got, want), "reflect.DeepEqual(NewValue(v).AsInterface(), normalize(v))")
		chk(showGo(got) == showGo(want), "NewValue(v).AsInterface() = normalize(v) bit for bit (±0)")
		pjs, perr := protoJSONShow(val)
		gjs, gerr := goJSONShow(got)
		fin := !hasNonFinite(n)
		chk((perr == nil) == fin, "protojson.Marshal(Value) succeeds iff every number is finite")
		chk(gerr == nil, "encoding/json.Marshal(AsInterface()) succeeds")
		if perr == nil && gerr == nil {
			chk(pjs == gjs, "encoding/json.Marshal(v.AsInterface()) semantically equal to protojson.Marshal(v)")
			// structpb MarshalJSON / UnmarshalJSON round trip
			b, merr := val.MarshalJSON()
			var back structpb.Value
			if chk(merr == nil, "Value.MarshalJSON succeeds") {
				chk(back.UnmarshalJSON(b) == nil && showPV(&back) == showPV(val), "Value.UnmarshalJSON(Value.MarshalJSON(x)) = x")
			}
			// encoding/json text -> any -> NewValue gives the Value back
			gb, _ := json.Marshal(got)
			var x any
			if chk(json.Unmarshal(gb, &x) == nil, "encoding/json output parses") {
				v2, e2 := structpb.NewValue(x)
				chk(e2 == nil && showPV(v2) == showPV(val), "NewValue(json.Unmarshal(json.Marshal(x.AsInterface()))) = x")
			}
			if st := val.GetStructValue(); st != nil {
				b, merr := st.MarshalJSON()
				var back structpb.Struct
				chk(merr == nil && back.UnmarshalJSON(b) == nil && proto.Equal(&back, st), "Struct.UnmarshalJSON(Struct.MarshalJSON(x)) = x")
			}
			if l := val.GetListValue(); l != nil {
				b, merr := l.MarshalJSON()
				var back structpb.ListValue
				chk(merr == nil && back.UnmarshalJSON(b) == nil && proto.Equal(&back, l), "ListValue.UnmarshalJSON(ListValue.MarshalJSON(x)) = x")
			}
		}
		// the converse direction on what NewValue built
		v3, e3 := structpb.NewValue(got)
		if fin {
			chk(e3 == nil && showPV(v3) == showPV(val), "NewValue(x.AsInterface()) = x for finite x")
		} else {
			chk(e3 == nil && showPV(v3) != showPV(val), "NewValue(x.AsInterface()) != x when x holds NaN/Inf (they come back as strings)")
		}
		nt := n.size() >= 3 && (n.K == 'm' || n.K == 'l')
		c.Case(line, nt)
		if nt && len(line) < 400 {
			c.Sample(map[string]any{"stream": "nv", "request": line, "value": showPV(val), "asInterface": showGo(got)})
		}
		if c.HasModel() {
			impl := fmt.Sprintf("ok %s %s %s %s %s", showPV(val), showGo(got), showNormNode(n), pjs, gjs)
			cmp("NewValue / AsInterface / normalize / protojson / encoding/json", impl, model)
		}
	}()
	return ok
}

func hasNaN(n *node) bool {
	return anyNode(n, func(f float64) bool { return math.IsNaN(f) })
}

func hasNonFinite(n *node) bool {
	return anyNode(n, func(f float64) bool { return math.IsNaN(f) || math.IsInf(f, 0) })
}

func anyNode(n *node, p func(float64) bool) bool {
	switch n.K {
	case 'g':
		return p(float64(math.Float32frombits(uint32(n.Bits))))
	case 'd':
		return p(math.Float64frombits(n.Bits))
	case 'j':
		f, err := json.Number(string(n.S)).Float64()
		return err == nil && p(f)
	}
	for _, k := range n.Kids {
		if anyNode(k, p) {
			return true
		}
	}
	return false
}

// ---------------------------------------------------------------- ai stream: hand-made Values

func genPV(c *C, depth int) *structpb.Value {
	r := c.Rand
	k := r.Intn(100)
	if depth >= 4 && k >= 60 {
		k = r.Intn(60)
	}
	switch {
	case k < 6:
		return &structpb.Value{}
	case k < 8:
		return nil
	case k < 11:
		return []*structpb.Value{{Kind: (*structpb.Value_NumberValue)(nil)}, {Kind: (*structpb.Value_StringValue)(nil)}, {Kind: (*structpb.Value_BoolValue)(nil)},
			{Kind: (*structpb.Value_StructValue)(nil)}, {Kind: (*structpb.Value_ListValue)(nil)}, {Kind: (*structpb.Value_NullValue)(nil)}}[r.Intn(6)]
	case k < 16:
		if r.Intn(6) == 0 {
			return &structpb.Value{Kind: &structpb.Value_NullValue{NullValue: structpb.NullValue(r.Intn(5))}}
		}
		return structpb.NewNullValue()
	case k < 32:
		b := f64Bounds[r.Intn(len(f64Bounds))]
		if r.Intn(3) == 0 {
			b = r.Uint64()
		}
		return structpb.NewNumberValue(math.Float64frombits(b))
	case k < 48:
		return structpb.NewStringValue(string(genString(c, genOpts{pBad: 6})))
	case k < 60:
		return structpb.NewBoolValue(r.Intn(2) == 0)
	case k < 82:
		if r.Intn(10) == 0 {
			return &structpb.Value{Kind: &structpb.Value_StructValue{}}
		}
		st := &structpb.Struct{}
		if r.Intn(6) != 0 {
			st.Fields = map[string]*structpb.Value{}
			bad := false
			for i := r.Intn(4); i > 0; i-- {
				o := genOpts{pBad: 10}
				if bad {
					o.pBad = 0
				}
				key := string(genKey(c, o))
				if !utf8.ValidString(key) {
					bad = true // at most one invalid key per map (encoding/json would merge them into one U+FFFD key)
				}
				st.Fields[key] = genPV(c, depth+1)
			}
		}
		return structpb.NewStructValue(st)
	default:
		if r.Intn(10) == 0 {
			return &structpb.Value{Kind: &structpb.Value_ListValue{}}
		}
		l := &structpb.ListValue{}
		for i := r.Intn(4); i > 0; i-- {
			l.Values = append(l.Values, genPV(c, depth+1))
		}
		return structpb.NewListValue(l)
	}
}

func runAI(c *C) {
	fixed := []*structpb.Value{nil, {}, structpb.NewNumberValue(math.NaN()), structpb.NewNumberValue(math.Inf(1)), structpb.NewNumberValue(math.Inf(-1)),
		structpb.NewNumberValue(math.Copysign(0, -1)), structpb.NewStringValue("\xff"), structpb.NewStringValue("NaN"),
		{Kind: &structpb.Value_StructValue{}}, {Kind: &structpb.Value_ListValue{}},
		structpb.NewStructValue(&structpb.Struct{Fields: map[string]*structpb.Value{"a": nil, "b": {}, "\xff": structpb.NewBoolValue(true)}}),
		structpb.NewListValue(&structpb.ListValue{Values: []*structpb.Value{nil, {}, structpb.NewNumberValue(math.NaN())}}),
	}
	for _, v := range fixed {
		evalAI(c, v)
	}
	N := c.N(8000, 80000)
	for i := 0; i < N && !c.Failed(); i++ {
		evalAI(c, genPV(c, 1))
	}
}

// pvFacts: well-formedness (what NewValue∘AsInterface reproduces) and whether a map key is invalid UTF-8.
func pvFacts(v *structpb.Value) (wf bool, badKey bool, container bool) {
	if v == nil {
		return false, false, false
	}
	switch k := v.Kind.(type) {
	case *structpb.Value_NullValue:
		return k != nil, false, false
	case *structpb.Value_NumberValue:
		return k != nil && !math.IsNaN(k.NumberValue) && !math.IsInf(k.NumberValue, 0), false, false
	case *structpb.Value_StringValue:
		return k != nil && utf8.ValidString(k.StringValue), false, false
	case *structpb.Value_BoolValue:
		return k != nil, false, false
	case *structpb.Value_StructValue:
		if k == nil {
			return false, false, false
		}
		wf = true
		for key, e := range k.StructValue.GetFields() {
			w, b, _ := pvFacts(e)
			if !utf8.ValidString(key) {
				w, b = false, true
			}
			wf = wf && w
			badKey = badKey || b
		}
		return wf, badKey, true
	case *structpb.Value_ListValue:
		if k == nil {
			return false, false, false
		}
		wf = true
		for _, e := range k.ListValue.GetValues() {
			w, b, _ := pvFacts(e)
			wf = wf && w
			badKey = badKey || b
		}
		return wf, badKey, true
	}
	return false, false, false
}

func evalAI(c *C, val *structpb.Value) bool {
	var sb strings.Builder
	sb.WriteString("ai")
	pvTokens(&sb, val)
	line := sb.String()
	in := Input{Stream: "ai", Line: line}
	ok := true
	chk := func(cond bool, what string) bool {
		if !c.Check(cond, what, in, "") {
			ok = false
		}
		return cond
	}
	func() {
		defer c.Recover("AsInterface of a hand-made Value", in, "")
		wf, badKey, container := pvFacts(val)
		got := val.AsInterface()
		if st, isSt := val.GetKind().(*structpb.Value_StructValue); isSt && st != nil {
			chk(showGo(st.StructValue.AsMap()) == showGo(got), "Struct.AsMap = Value.AsInterface")
		}
		if l, isL := val.GetKind().(*structpb.Value_ListValue); isL && l != nil {
			chk(showGo(l.ListValue.AsSlice()) == showGo(got), "ListValue.AsSlice = Value.AsInterface")
		}
		back, berr := structpb.NewValue(got)
		var backs string
		if berr != nil {
			backs = "err:" + classifyNewValueErr(berr)
		} else {
			backs = "ok:" + showPV(back)
		}
		chk((berr == nil && showPV(back) == showPV(val)) == wf, "NewValue(x.AsInterface()) = x iff x has no unset Value, only finite numbers and valid UTF-8")
		pjs := "-"
		var perr error
		if val != nil {
			pjs, perr = protoJSONShow(val)
			// a nil *Struct / *ListValue inside the oneof wrapper is outside the model's Value trees for protojson
			chk((perr == nil) == wf || hasNilContainer(val), "protojson.Marshal(x) succeeds iff x is well-formed")
		}
		gjs, gerr := goJSONShow(got)
		chk(gerr == nil, "encoding/json.Marshal(x.AsInterface()) never fails")
		if val != nil && perr == nil && gerr == nil {
			chk(pjs == gjs, "encoding/json.Marshal(x.AsInterface()) semantically equal to protojson.Marshal(x)")
		}
		c.Hist(fmt.Sprintf("ai:wf=%v", wf))
		c.Case(line, container)
		if c.HasModel() && val != nil && !hasNilContainer(val) {
			model := c.Ask("%s", line)
			if badKey { // invalid keys are coerced by encoding/json and may be re-ordered or merged: not compared
				gjs = "-"
				if f := strings.Fields(model); len(f) == 5 {
					f[4] = "-"
					model = strings.Join(f, " ")
				}
			}
			impl := fmt.Sprintf("%s %s %s %s %s", showGo(got), b01(wf), backs, pjs, gjs)
			if !c.Compare("AsInterface / wf / NewValue∘AsInterface / protojson / encoding/json", in, impl, model) {
				ok = false
			}
		}
	}()
	return ok
}

// hasNilContainer: a `*Value_StructValue{nil}` / `*Value_ListValue{nil}` somewhere (AsInterface treats it as
// empty; protojson's view of it is reflection-specific).
func hasNilContainer(v *structpb.Value) bool {
	if v == nil {
		return false
	}
	switch k := v.Kind.(type) {
	case *structpb.Value_StructValue:
		if k == nil {
			return false
		}
		if k.StructValue == nil {
			return true
		}
		for _, e := range k.StructValue.Fields {
			if hasNilContainer(e) {
				return true
			}
		}
	case *structpb.Value_ListValue:
		if k == nil {
			return false
		}
		if k.ListValue == nil {
			return true
		}
		for _, e := range k.ListValue.Values {
			if hasNilContainer(e) {
				return true
			}
		}
	}
	return false
}

// ---------------------------------------------------------------- registry

var (
	allTypes   []protoreflect.MessageType
	typeByName = map[string]protoreflect.MessageType{}
	otherNames []string // enums and extensions registered in GlobalTypes
)

func initRegistry(c *C) {
	protoregistry.GlobalTypes.RangeMessages(func(mt protoreflect.MessageType) bool {
		allTypes = append(allTypes, mt)
		return true
	})
	sort.Slice(allTypes, func(i, j int) bool { return allTypes[i].Descriptor().FullName() < allTypes[j].Descriptor().FullName() })
	for _, mt := range allTypes {
		typeByName[string(mt.Descriptor().FullName())] = mt
	}
	protoregistry.GlobalTypes.RangeEnums(func(et protoreflect.EnumType) bool {
		otherNames = append(otherNames, string(et.Descriptor().FullName()))
		return true
	})
	protoregistry.GlobalTypes.RangeExtensions(func(xt protoreflect.ExtensionType) bool {
		otherNames = append(otherNames, string(xt.TypeDescriptor().FullName()))
		return true
	})
	sort.Strings(otherNames)
	if c.HasModel() {
		for _, mt := range allTypes {
			if a := c.Ask("reg %s m", vh.Hex([]byte(mt.Descriptor().FullName()))); a != "ok" {
				c.Compare("reg", string(mt.Descriptor().FullName()), "ok", a)
			}
		}
		for _, n := range otherNames {
			if a := c.Ask("reg %s o", vh.Hex([]byte(n))); a != "ok" {
				c.Compare("reg", n, "ok", a)
			}
		}
	}
	c.R.Histogram["any:types"] = len(allTypes)
	c.R.Histogram["any:enums+extensions"] = len(otherNames)
}
