// wkttime harness: C43 — Timestamp and Duration helpers convert exactly.
//
// Drives the real durationpb / timestamppb helpers in-process, the Lean model (pbmodel_wkttime, whose
// arithmetic is regenerated from the same Go sources) over the line protocol, and evaluates the property
// predicates directly on the implementation against a math/big oracle.
package main

import (
	"encoding/json"
	"fmt"
	"math"
	"math/big"
	"strconv"
	"strings"
	"time"

	vh "google.golang.org/protobuf/internal/zz_verif_vh"
	"google.golang.org/protobuf/types/known/durationpb"
	"google.golang.org/protobuf/types/known/timestamppb"
)

type C = vh.Ctx

func main() { vh.Main("wkttime", run) }

func run(c *C) {
	switch c.Prop {
	case "C43":
		runC43(c)
	default:
		panic("wkttime harness: unknown property " + c.Prop)
	}
}

// ---------- documented limits, computed independently of the code under test ----------

var (
	// 10000 years of 365.25 days
	docAbsDuration = int64(10000 * 365.25 * 24 * 3600)
	// 0001-01-01T00:00:00Z and 9999-12-31T23:59:59Z from the standard library's calendar
	docMinTimestamp = time.Date(1, 1, 1, 0, 0, 0, 0, time.UTC).Unix()
	docMaxTimestamp = time.Date(9999, 12, 31, 23, 59, 59, 0, time.UTC).Unix()
)

// largest seconds value whose product with 10^9 fits int64
const maxSecFit = math.MaxInt64 / 1000000000

const sigFinding5 = "asduration-mixed-sign-overflow"

var finding5Reported int

var durClassKey, tsClassKey [100]string

func init() {
	for i := range durClassKey {
		durClassKey[i] = fmt.Sprintf("dur-class-%d", i)
		tsClassKey[i] = fmt.Sprintf("ts-class-%d", i)
	}
}

// replayable input
type input struct {
	K    string `json:"k"`             // pair | dur | time | unix | nil
	S    string `json:"s,omitempty"`   // seconds / duration / unix seconds (decimal string: exact in JSON)
	N    string `json:"n,omitempty"`   // nanos / nsec
	Zone int    `json:"zone,omitempty"` // time: zone offset seconds (0 = UTC), 1<<30 = time.Local
	Mono bool   `json:"mono,omitempty"` // time: carries a monotonic clock reading (not reproducible bit-for-bit)
}

func i64s(v int64) string { return strconv.FormatInt(v, 10) }

// ---------- oracles (math/big) ----------

var (
	bigE9  = big.NewInt(1e9)
	bigMin = big.NewInt(math.MinInt64)
	bigMax = big.NewInt(math.MaxInt64)
)

// exactNanos = s*10^9 + n; prod = s*10^9
func exactNanos(s int64, n int32) (exact, prod *big.Int) {
	prod = new(big.Int).Mul(big.NewInt(s), bigE9)
	exact = new(big.Int).Add(prod, big.NewInt(int64(n)))
	return
}

func clamp(v *big.Int) int64 {
	switch {
	case v.Cmp(bigMax) > 0:
		return math.MaxInt64
	case v.Cmp(bigMin) < 0:
		return math.MinInt64
	}
	return v.Int64()
}

// documented Duration classes: 0 valid, 2 below -10000y, 3 above +10000y, 4 nanos out of range, 5 signs differ
func docDurationClass(s int64, n int32) int {
	switch {
	case s < -docAbsDuration:
		return 2
	case s > docAbsDuration:
		return 3
	case n <= -1e9 || n >= 1e9:
		return 4
	case (s > 0 && n < 0) || (s < 0 && n > 0):
		return 5
	}
	return 0
}

// documented Timestamp classes: 0 valid, 2 before 0001-01-01, 3 after 9999-12-31, 4 nanos out of range
func docTimestampClass(s int64, n int32) int {
	switch {
	case s < docMinTimestamp:
		return 2
	case s > docMaxTimestamp:
		return 3
	case n < 0 || n >= 1e9:
		return 4
	}
	return 0
}

func durErrClass(err error) int {
	if err == nil {
		return 0
	}
	m := err.Error()
	switch {
	case strings.Contains(m, "invalid nil Duration"):
		return 1
	case strings.Contains(m, "exceeds -10000 years"):
		return 2
	case strings.Contains(m, "exceeds +10000 years"):
		return 3
	case strings.Contains(m, "out-of-range nanos"):
		return 4
	case strings.Contains(m, "different signs"):
		return 5
	}
	return 99
}

func tsErrClass(err error) int {
	if err == nil {
		return 0
	}
	m := err.Error()
	switch {
	case strings.Contains(m, "invalid nil Timestamp"):
		return 1
	case strings.Contains(m, "before 0001-01-01"):
		return 2
	case strings.Contains(m, "after 9999-12-31"):
		return 3
	case strings.Contains(m, "out-of-range nanos"):
		return 4
	}
	return 99
}

func b2i(b bool) int {
	if b {
		return 1
	}
	return 0
}

// sigAsDuration classifies an AsDuration ≠ clamp(exact) failure: finding 5 exactly when seconds*1e9
// overflows int64, nanos has the opposite sign, the exact sum lies strictly inside the int64 range and
// the result is the saturation value chosen by the sign of seconds.
func sigAsDuration(s int64, n int32, got int64, exact, prod *big.Int) string {
	mulOv := !prod.IsInt64()
	opp := (s > 0 && n < 0) || (s < 0 && n > 0)
	inside := exact.Cmp(bigMin) > 0 && exact.Cmp(bigMax) < 0
	sat := (s > 0 && got == math.MaxInt64) || (s < 0 && got == math.MinInt64)
	if mulOv && opp && inside && sat {
		return sigFinding5
	}
	return ""
}

// ---------- one (seconds, nanos) pair ----------

func checkPair(c *C, s int64, n int32) {
	in := input{K: "pair", S: i64s(s), N: i64s(int64(n))}
	defer c.Recover("helpers on (seconds, nanos)", in, "")

	// ---- implementation
	d := &durationpb.Duration{Seconds: s, Nanos: n}
	as := int64(d.AsDuration())
	dValid := d.IsValid()
	dClass := durErrClass(d.CheckValid())
	ts := &timestamppb.Timestamp{Seconds: s, Nanos: n}
	at := ts.AsTime()
	tValid := ts.IsValid()
	tClass := tsErrClass(ts.CheckValid())

	// ---- model (check() itself is unexported: its code is observed through CheckValid's class)
	if c.HasModel() {
		impl := fmt.Sprintf("%d %d %d %d %d %d %d %d %d", as, dClass, b2i(dValid), dClass, at.Unix(), at.Nanosecond(), tClass, b2i(tValid), tClass)
		c.Compare("durationpb/timestamppb helpers vs model: AsDuration check IsValid CheckValid | AsTime(unix nsec) check IsValid CheckValid", in, impl, c.Ask("pair %d %d", s, n))
	}

	// ---- property predicates on the implementation
	exact, prod := exactNanos(s, n)
	want := clamp(exact)
	if as != want {
		sig := sigAsDuration(s, n, as, exact, prod)
		if sig == sigFinding5 {
			// known finding: every instance is counted, the first three are reported (vh stops a run after 200
			// failures, which the crossed boundaries alone would exceed); any other mismatch is reported in full
			c.Hist("finding5:" + sig)
			if finding5Reported < 3 {
				finding5Reported++
				c.Check(false, "AsDuration() saturates although the exact value seconds*1e9+nanos is representable (seconds*1e9 overflows int64, nanos has the opposite sign)", in, sig)
			}
		} else {
			c.Check(false, fmt.Sprintf("AsDuration() = %d, exact value %s clamps to %d", as, exact, want), in, "")
		}
	}
	dc := docDurationClass(s, n)
	c.Check(dValid == (dc == 0), fmt.Sprintf("Duration.IsValid() = %v, documented class %d", dValid, dc), in, "")
	c.Check(dClass == dc, fmt.Sprintf("Duration.CheckValid() class %d, documented class %d", dClass, dc), in, "")
	tc := docTimestampClass(s, n)
	c.Check(tValid == (tc == 0), fmt.Sprintf("Timestamp.IsValid() = %v, documented class %d", tValid, tc), in, "")
	c.Check(tClass == tc, fmt.Sprintf("Timestamp.CheckValid() class %d, documented class %d", tClass, tc), in, "")

	// AsTime denotes exactly seconds*1e9+nanos ns since the epoch (unless the carried seconds overflow int64)
	q, r := new(big.Int).DivMod(exact, bigE9, new(big.Int)) // Euclidean: 0 <= r < 1e9
	c.Check(at.Nanosecond() >= 0 && at.Nanosecond() < 1e9 && at.Location() == time.UTC, "AsTime(): nanosecond out of [0,1e9) or location not UTC", in, "")
	if q.IsInt64() {
		c.Check(at.Unix() == q.Int64() && int64(at.Nanosecond()) == r.Int64(),
			fmt.Sprintf("AsTime() = (%d, %d), exact (%s, %s)", at.Unix(), at.Nanosecond(), q, r), in, "")
	}
	if n >= 0 && n < 1e9 {
		back := timestamppb.New(at)
		c.Check(at.Unix() == s && at.Nanosecond() == int(n) && back.Seconds == s && back.Nanos == n, "New(x.AsTime()) != x for in-range nanos", in, "")
		// "years 1-9999": only where Time.Year() itself is within its documented domain
		if s > -(1<<55) && s < 1<<55 {
			y := at.Year()
			c.Check(tValid == (y >= 1 && y <= 9999), fmt.Sprintf("Timestamp.IsValid() = %v but AsTime().Year() = %d", tValid, y), in, "")
		}
	}
	// every valid Duration converts exactly (no saturation below ~292 years)
	if dValid && exact.IsInt64() {
		c.Check(as == exact.Int64(), "valid Duration not converted exactly", in, "")
	}

	c.Case("p"+in.S+","+in.N, s != 0 || n != 0)
	c.Hist(durClassKey[dClass%100])
	c.Hist(tsClassKey[tClass%100])
	switch {
	case !prod.IsInt64():
		c.Hist("asduration:mul-overflow")
	case !exact.IsInt64():
		c.Hist("asduration:add-overflow")
	default:
		c.Hist("asduration:exact")
	}
	if !q.IsInt64() {
		c.Hist("astime:seconds-overflow")
	} else if n < 0 || n >= 1e9 {
		c.Hist("astime:carry")
	}
}

// ---------- one time.Duration ----------

func checkDur(c *C, dv int64) {
	in := input{K: "dur", S: i64s(dv)}
	defer c.Recover("durationpb.New", in, "")
	d := time.Duration(dv)
	x := durationpb.New(d)
	if c.HasModel() {
		c.Compare("durationpb.New vs model", in, fmt.Sprintf("%d %d", x.Seconds, x.Nanos), c.Ask("dur.new %d", dv))
	}
	c.Check(x.AsDuration() == d, fmt.Sprintf("New(d).AsDuration() = %d", int64(x.AsDuration())), in, "")
	q, r := new(big.Int).QuoRem(big.NewInt(dv), bigE9, new(big.Int)) // truncated
	c.Check(x.Seconds == q.Int64() && int64(x.Nanos) == r.Int64(), fmt.Sprintf("New(d) = (%d, %d), exact split (%s, %s)", x.Seconds, x.Nanos, q, r), in, "")
	c.Check(x.IsValid() && x.CheckValid() == nil, "New(d) is not a valid Duration", in, "")
	c.Case("d"+in.S, dv != 0)
	c.Hist("durationpb.New")
}

// ---------- one time.Time ----------

func checkTime(c *C, t time.Time, in input) {
	defer c.Recover("timestamppb.New", in, "")
	x := timestamppb.New(t)
	if c.HasModel() {
		c.Compare("timestamppb.New vs model", in, fmt.Sprintf("%d %d", x.Seconds, x.Nanos), c.Ask("ts.new %d %d", t.Unix(), t.Nanosecond()))
	}
	back := x.AsTime()
	c.Check(back.Equal(t), fmt.Sprintf("New(t).AsTime() = %v (unix %d nsec %d), t = unix %d nsec %d", back, back.Unix(), back.Nanosecond(), t.Unix(), t.Nanosecond()), in, "")
	c.Check(back.Location() == time.UTC, "AsTime() location is not UTC", in, "")
	c.Check(x.Seconds == t.Unix() && int(x.Nanos) == t.Nanosecond(), "New(t) fields differ from t.Unix()/t.Nanosecond()", in, "")
	c.Check(t.Nanosecond() >= 0 && t.Nanosecond() < 1e9, "stdlib contract: t.Nanosecond() outside [0,1e9)", in, "")
	if u := t.Unix(); u > -(1<<55) && u < 1<<55 {
		y := t.UTC().Year()
		c.Check(x.IsValid() == (y >= 1 && y <= 9999), fmt.Sprintf("New(t).IsValid() = %v, UTC year %d", x.IsValid(), y), in, "")
	}
	if !in.Mono {
		c.Case(fmt.Sprintf("t%s,%s,%d", in.S, in.N, in.Zone), t.Unix() != 0 || t.Nanosecond() != 0)
	} else {
		c.R.Evaluations++
	}
	c.Hist("timestamppb.New")
}

func zone(z int) *time.Location {
	switch z {
	case 0:
		return time.UTC
	case 1 << 30:
		return time.Local
	}
	return time.FixedZone("z", z)
}

func timeOf(in input) time.Time {
	s, _ := strconv.ParseInt(in.S, 10, 64)
	n, _ := strconv.ParseInt(in.N, 10, 64)
	return time.Unix(s, n).In(zone(in.Zone))
}

// ---------- time.Unix itself (the stdlib contract the model takes as GoTime.unix) ----------

func checkUnix(c *C, sec, nsec int64) {
	in := input{K: "unix", S: i64s(sec), N: i64s(nsec)}
	defer c.Recover("time.Unix", in, "")
	t := time.Unix(sec, nsec)
	if c.HasModel() {
		c.Compare("stdlib time.Unix vs model contract GoTime.unix", in, fmt.Sprintf("%d %d", t.Unix(), t.Nanosecond()), c.Ask("time.unix %d %d", sec, nsec))
	}
	c.Case("u"+in.S+","+in.N, sec != 0 || nsec != 0)
	c.Hist("time.Unix")
}

// ---------- generators ----------

func around(base int64, k int64) []int64 {
	var out []int64
	for d := -k; d <= k; d++ {
		v := base + d
		if (d > 0 && v < base) || (d < 0 && v > base) { // wrapped
			continue
		}
		out = append(out, v)
	}
	return out
}

func dedup(xs []int64) []int64 {
	seen := map[int64]bool{}
	var out []int64
	for _, x := range xs {
		if !seen[x] {
			seen[x] = true
			out = append(out, x)
		}
	}
	return out
}

func secondsBoundaries() []int64 {
	bases := []int64{0, 1, -1,
		maxSecFit, -(maxSecFit), // 9223372036: largest seconds whose product fits
		docAbsDuration, -docAbsDuration,
		docMinTimestamp, docMaxTimestamp,
		math.MinInt64, math.MaxInt64,
		1 << 31, -(1 << 31), 1 << 32, -(1 << 32), 1 << 55, -(1 << 55),
		maxSecFit * 2, 18446744073, -18446744073, // products that wrap back near zero: 2^64/1e9
	}
	var out []int64
	for _, b := range bases {
		out = append(out, around(b, 3)...)
	}
	return dedup(out)
}

func nanosBoundaries() []int32 {
	// 2^63 mod 1e9 = 854775808: the first nanos at which seconds=±9223372037 becomes representable again
	bases := []int64{0, 1, -1, 999999999, -999999999, 1e9, -1e9, math.MinInt32, math.MaxInt32,
		145224192, -145224192, 854775808, -854775808, 1145224192, -1145224192, 2145224192, -2145224192,
		2e9, -2e9, 500000000, -500000000}
	var all []int64
	for _, b := range bases {
		all = append(all, around(b, 3)...)
	}
	var out []int32
	for _, v := range dedup(all) {
		if v >= math.MinInt32 && v <= math.MaxInt32 {
			out = append(out, int32(v))
		}
	}
	return out
}

func randSeconds(c *C, sb []int64) int64 {
	switch c.Rand.Intn(8) {
	case 0:
		return int64(c.Rand.Uint64())
	case 1: // random magnitude
		return int64(c.Rand.Uint64()) >> uint(c.Rand.Intn(64))
	case 2: // near a boundary
		return sb[c.Rand.Intn(len(sb))] + int64(c.Rand.Intn(2001)) - 1000
	case 3: // valid Duration range
		return c.Rand.Int63n(2*docAbsDuration+1) - docAbsDuration
	case 4: // valid Timestamp range
		return docMinTimestamp + c.Rand.Int63n(docMaxTimestamp-docMinTimestamp+1)
	case 5: // around the multiplication-overflow threshold, either sign
		v := int64(maxSecFit) + int64(c.Rand.Intn(9)) - 4
		if c.Rand.Intn(2) == 0 {
			v = -v
		}
		return v
	case 6: // beyond the threshold by a few units .. billions
		v := int64(maxSecFit) + (int64(c.Rand.Uint64()>>1) >> uint(20+c.Rand.Intn(43)))
		if c.Rand.Intn(2) == 0 {
			v = -v
		}
		return v
	default:
		return int64(c.Rand.Intn(2001)) - 1000
	}
}

func randNanos(c *C, nb []int32) int32 {
	switch c.Rand.Intn(6) {
	case 0:
		return int32(c.Rand.Uint32())
	case 1:
		return int32(c.Rand.Intn(1999999999)) - 999999999 // documented range
	case 2:
		return nb[c.Rand.Intn(len(nb))]
	case 3:
		v := int64(nb[c.Rand.Intn(len(nb))]) + int64(c.Rand.Intn(2001)) - 1000
		if v < math.MinInt32 || v > math.MaxInt32 {
			return int32(c.Rand.Intn(1000))
		}
		return int32(v)
	case 4:
		return int32(c.Rand.Intn(1e9)) // valid Timestamp nanos
	default:
		return int32(c.Rand.Intn(2001)) - 1000
	}
}

func durationBoundaries() []int64 {
	bases := []int64{0, 1, -1, 999999999, -999999999, 1e9, -1e9, 2e9, -2e9, math.MinInt64, math.MaxInt64,
		maxSecFit * 1e9, -(maxSecFit * 1e9), 1 << 31, -(1 << 31), 1 << 32, -(1 << 32),
		int64(time.Hour), -int64(time.Hour), 1500000000, -1500000000}
	for k := uint(1); k < 63; k++ {
		bases = append(bases, 1<<k, -(1 << k))
	}
	for p := int64(10); p < 1e18; p *= 10 {
		bases = append(bases, p, -p)
	}
	var out []int64
	for _, b := range bases {
		out = append(out, around(b, 3)...)
	}
	return dedup(out)
}

func randDuration(c *C) int64 {
	switch c.Rand.Intn(4) {
	case 0:
		return int64(c.Rand.Uint64())
	case 1:
		return int64(c.Rand.Uint64()) >> uint(c.Rand.Intn(64))
	case 2: // near a multiple of a second
		k := int64(c.Rand.Uint64()) >> uint(c.Rand.Intn(64))
		return k/1e9*1e9 + int64(c.Rand.Intn(7)) - 3
	default:
		return int64(c.Rand.Intn(4e9)) - 2e9
	}
}

// ---------- C43 ----------

func runC43(c *C) {
	c.R.Rule = "pairs: (seconds within ±3 of 0, ±1, ±9223372036 (=MaxInt64/1e9), ±315576000000, the two timestamp limits, Min/MaxInt64, ±2^31, ±2^32, ±2^55, ±18446744073) × (nanos within ±3 of 0, ±1, ±999999999, ±1e9, ±2e9, Min/MaxInt32, ±145224192, ±854775808, ±1145224192, ±2145224192), all crossed, then PRNG pairs of mixed magnitude (8 seconds classes × 6 nanos classes); time.Duration: ±3 of 0, ±1e9, ±2^k, ±10^k, Min/MaxInt64 + PRNG; time.Time: boundary unix seconds × nsec × 4 locations, calendar extremes (years -292277022399…292277026596), monotonic time.Now(); time.Unix(sec, nsec) on boundary × boundary + PRNG for the stdlib contract. A case is non-trivial when the value is not the zero pair / zero duration / the epoch; distinct by (kind, value)."

	sb, nb := secondsBoundaries(), nanosBoundaries()

	// 0. replay inputs first
	for _, raw := range c.ReplayInputs() {
		var in input
		if json.Unmarshal(raw, &in) != nil {
			continue
		}
		s, _ := strconv.ParseInt(in.S, 10, 64)
		n, _ := strconv.ParseInt(in.N, 10, 64)
		switch in.K {
		case "pair":
			checkPair(c, s, int32(n))
		case "dur":
			checkDur(c, s)
		case "time":
			checkTime(c, timeOf(in), in)
		case "unix":
			checkUnix(c, s, n)
		case "nil":
			checkNil(c)
		}
		c.Hist("replayed")
	}

	// 1. constants: the model's (extracted from the code) against the documented limits and the stdlib
	if c.HasModel() {
		want := fmt.Sprintf("%d %d %d %d %d", docAbsDuration, docMinTimestamp, docMaxTimestamp, int64(time.Second), int64(time.Nanosecond))
		c.Compare("extracted constants (absDuration minTimestamp maxTimestamp time.Second time.Nanosecond) vs documented limits", input{K: "consts"}, want, c.Ask("consts"))
	}
	checkNil(c)

	// 2. the witness of the refuted obligation (finding 5) and its mirror image
	checkPair(c, 9223372037, -999999999)
	checkPair(c, -9223372037, 999999999)
	c.Sample(map[string]any{"witness": "Duration{9223372037,-999999999}", "AsDuration": int64((&durationpb.Duration{Seconds: 9223372037, Nanos: -999999999}).AsDuration()), "exact": "9223372036000000001"})

	// 3. boundaries crossed
	for _, s := range sb {
		for _, n := range nb {
			if c.Failed() {
				return
			}
			checkPair(c, s, n)
		}
	}
	c.Sample(map[string]any{"boundary_seconds": len(sb), "boundary_nanos": len(nb), "crossed": len(sb) * len(nb)})

	// 4. random pairs
	for i, n := 0, c.N(100000, 10000000); i < n && !c.Failed(); i++ {
		checkPair(c, randSeconds(c, sb), randNanos(c, nb))
	}

	// 5. time.Duration values
	for _, d := range durationBoundaries() {
		checkDur(c, d)
	}
	for i, n := 0, c.N(100000, 2000000); i < n && !c.Failed(); i++ {
		checkDur(c, randDuration(c))
	}

	// 6. time.Time values
	zones := []int{0, 14 * 3600, -12 * 3600, 1 << 30}
	nsecs := []int64{0, 1, 499999999, 999999998, 999999999}
	for _, s := range sb {
		for _, ns := range nsecs {
			for _, z := range zones {
				in := input{K: "time", S: i64s(s), N: i64s(ns), Zone: z}
				checkTime(c, timeOf(in), in)
			}
		}
	}
	for _, y := range []int{-292277022399, -1 << 31, -10000, -1, 0, 1, 2, 1582, 1969, 1970, 1971, 2038, 2262, 2263, 9999, 10000, 10001, 1 << 31, 292277026596} {
		for _, mdhms := range [][6]int{{1, 1, 0, 0, 0, 0}, {12, 31, 23, 59, 59, 999999999}, {2, 29, 12, 0, 0, 1}} {
			t := time.Date(y, time.Month(mdhms[0]), mdhms[1], mdhms[2], mdhms[3], mdhms[4], mdhms[5], time.UTC)
			in := input{K: "time", S: i64s(t.Unix()), N: i64s(int64(t.Nanosecond()))}
			checkTime(c, t, in)
		}
	}
	checkTime(c, time.Time{}, input{K: "time", S: i64s(time.Time{}.Unix()), N: "0"})
	now := time.Now() // carries a monotonic reading: Equal() then compares differently
	for _, dd := range []time.Duration{0, 1, -1, time.Hour, -1e6 * time.Hour} {
		t := now.Add(dd)
		checkTime(c, t, input{K: "time", S: i64s(t.Unix()), N: i64s(int64(t.Nanosecond())), Zone: 1 << 30, Mono: true})
	}
	for i, n := 0, c.N(50000, 1000000); i < n && !c.Failed(); i++ {
		in := input{K: "time", S: i64s(randSeconds(c, sb)), N: i64s(int64(c.Rand.Intn(1e9))), Zone: zones[c.Rand.Intn(len(zones))]}
		checkTime(c, timeOf(in), in)
	}

	// 7. the stdlib contract time.Unix(sec, nsec) for arbitrary nsec
	var nb64 []int64
	for _, b := range []int64{0, 1, -1, 999999999, -999999999, 1e9, -1e9, 2e9, -2e9, math.MinInt32, math.MaxInt32, math.MinInt64, math.MaxInt64,
		maxSecFit * 1e9, -(maxSecFit * 1e9), 1e18, -1e18} {
		nb64 = append(nb64, around(b, 2)...)
	}
	nb64 = dedup(nb64)
	for _, s := range sb {
		for _, ns := range nb64 {
			checkUnix(c, s, ns)
		}
	}
	for i, n := 0, c.N(50000, 1000000); i < n && !c.Failed(); i++ {
		var ns int64
		switch c.Rand.Intn(3) {
		case 0:
			ns = int64(c.Rand.Uint64())
		case 1:
			ns = int64(c.Rand.Uint64()) >> uint(c.Rand.Intn(64))
		default:
			ns = nb64[c.Rand.Intn(len(nb64))] + int64(c.Rand.Intn(11)) - 5
		}
		checkUnix(c, randSeconds(c, sb), ns)
	}
}

// nil receivers: the getters return 0
func checkNil(c *C) {
	in := input{K: "nil"}
	defer c.Recover("helpers on nil receivers", in, "")
	var d *durationpb.Duration
	var t *timestamppb.Timestamp
	dImpl := fmt.Sprintf("%d %d %d %d", int64(d.AsDuration()), durErrClass(d.CheckValid()), b2i(d.IsValid()), durErrClass(d.CheckValid()))
	at := t.AsTime()
	tImpl := fmt.Sprintf("%d %d %d %d %d", at.Unix(), at.Nanosecond(), tsErrClass(t.CheckValid()), b2i(t.IsValid()), tsErrClass(t.CheckValid()))
	if c.HasModel() {
		c.Compare("nil Duration vs model", in, dImpl, c.Ask("dur nil"))
		c.Compare("nil Timestamp vs model", in, tImpl, c.Ask("ts nil"))
	}
	c.Check(dImpl == "0 1 0 1", "nil Duration: want AsDuration 0, invalid, 'invalid nil Duration'; got "+dImpl, in, "")
	c.Check(tImpl == "0 0 1 0 1", "nil Timestamp: want AsTime epoch, invalid, 'invalid nil Timestamp'; got "+tImpl, in, "")
	c.Case("nil", true)
}
