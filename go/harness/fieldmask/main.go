// fieldmask harness: C44 (FieldMask operations implement path-set algebra).
//
// Drives the real fieldmaskpb functions in-process (the exported API, and the unexported helpers
// through the virtual file export/zz_verif_export.go), the Lean model pbmodel_fieldmask through
// the line protocol, and evaluates the property predicates directly on the implementation with
// small independent reference functions (refLess, refPrefix, refCovers, refValid).
package main

import (
	"bytes"
	"encoding/hex"
	"encoding/json"
	"fmt"
	"sort"
	"strings"
	"time"

	testpb "google.golang.org/protobuf/internal/testprotos/test"
	test3pb "google.golang.org/protobuf/internal/testprotos/test3"
	"google.golang.org/protobuf/internal/testprotos/testeditions"
	"google.golang.org/protobuf/internal/testprotos/textpb2"
	"google.golang.org/protobuf/internal/zz_verif_vh"
	"google.golang.org/protobuf/proto"
	"google.golang.org/protobuf/reflect/protoreflect"
	"google.golang.org/protobuf/reflect/protoregistry"
	"google.golang.org/protobuf/types/descriptorpb"
	"google.golang.org/protobuf/types/dynamicpb"
	"google.golang.org/protobuf/types/known/anypb"
	"google.golang.org/protobuf/types/known/fieldmaskpb"
	"google.golang.org/protobuf/types/known/structpb"
)

type C = vh.Ctx

func main() { vh.Main("fieldmask", run) }

func run(c *C) {
	switch c.Prop {
	case "C44":
		runC44(c)
	default:
		panic("fieldmask harness: unknown property " + c.Prop)
	}
}

// Case is the replayable input of one evaluation.  Paths are hex (any byte string is a path);
// Text repeats them in %q form for the reader.
type Case struct {
	Op    string     `json:"op"`              // less | prefix | split | normalize | union | intersect | valid | append
	Masks [][]string `json:"masks,omitempty"` // hex paths; less/prefix/split use Masks[0]
	Nil   []int      `json:"nil,omitempty"`   // indexes of masks passed as nil *FieldMask (union/intersect)
	Msg   string     `json:"msg,omitempty"`   // full name of the message type (valid/append)
	Text  string     `json:"text,omitempty"`
}

func hx(s string) string {
	if s == "" {
		return "-"
	}
	return hex.EncodeToString([]byte(s))
}

func unhx(s string) string {
	if s == "-" || s == "" {
		return ""
	}
	b, err := hex.DecodeString(s)
	if err != nil {
		panic(err)
	}
	return string(b)
}

func hxs(ps []string) []string {
	out := make([]string, len(ps))
	for i, p := range ps {
		out[i] = hx(p)
	}
	return out
}

func unhxs(ps []string) []string {
	out := make([]string, len(ps))
	for i, p := range ps {
		out[i] = unhx(p)
	}
	return out
}

func showList(ps []string) string {
	return strings.Join(append([]string{fmt.Sprint(len(ps))}, hxs(ps)...), " ")
}

func mkCase(op string, msg string, masks ...[]string) Case {
	cs := Case{Op: op, Msg: msg}
	var t []string
	for _, m := range masks {
		cs.Masks = append(cs.Masks, hxs(m))
		t = append(t, fmt.Sprintf("%q", m))
	}
	cs.Text = strings.Join(t, " ")
	return cs
}

// ---------- independent reference functions ----------

func rot(s string) []byte {
	b := []byte(s)
	for i := range b {
		b[i] -= '.'
	}
	return b
}

// refLess: lexicographic on bytes re-keyed so that '.' is least; a proper prefix is smaller.
func refLess(x, y string) bool { return bytes.Compare(rot(x), rot(y)) < 0 }

// refPrefix: q is p, or p followed by ".…".
func refPrefix(q, p string) bool { return q == p || strings.HasPrefix(q, p+".") }

func refCovers(P []string, q string) bool {
	for _, p := range P {
		if refPrefix(q, p) {
			return true
		}
	}
	return false
}

// withTimeout runs f; false when it did not return within d (the goroutine is abandoned).
func withTimeout(d time.Duration, f func()) (ok bool, panicked any) {
	done := make(chan any, 1)
	go func() {
		defer func() { done <- recover() }()
		f()
	}()
	select {
	case p := <-done:
		return true, p
	case <-time.After(d):
		return false, nil
	}
}

const callTimeout = 10 * time.Second

// ---------- path algebra ----------

func mask(paths []string, isNil bool) *fieldmaskpb.FieldMask {
	if isNil {
		return nil
	}
	return &fieldmaskpb.FieldMask{Paths: append([]string(nil), paths...)}
}

func isNilIdx(cs Case, i int) bool {
	for _, k := range cs.Nil {
		if k == i {
			return true
		}
	}
	return false
}

// checkNormalForm evaluates "sorted, prefix-free" on a result of the implementation.
func checkNormalForm(c *C, what string, cs Case, out []string) {
	for i := 0; i+1 < len(out); i++ {
		c.Check(refLess(out[i], out[i+1]), what+": result not strictly sorted (dot-first order)", cs, "")
	}
	for i := range out {
		for j := range out {
			if i != j {
				c.Check(!refPrefix(out[i], out[j]), what+": result not prefix-free", cs, "")
			}
		}
	}
}

func subset(a, b []string) bool {
	set := map[string]bool{}
	for _, x := range b {
		set[x] = true
	}
	for _, x := range a {
		if !set[x] {
			return false
		}
	}
	return true
}

func eqList(a, b []string) bool {
	if len(a) != len(b) {
		return false
	}
	for i := range a {
		if a[i] != b[i] {
			return false
		}
	}
	return true
}

// probes: the elements of all lists involved decide equality of the (upward closed) covered sets
// exactly; a few extensions are added for good measure.
func probes(lists ...[]string) []string {
	var out []string
	for _, l := range lists {
		for _, p := range l {
			out = append(out, p, p+".z", p+"z", p+".", p+"!")
			if i := strings.LastIndexByte(p, '.'); i >= 0 {
				out = append(out, p[:i])
			}
		}
	}
	return append(out, "", ".", "a", "zz")
}

func evalNormalize(c *C, cs Case) {
	in := unhxs(cs.Masks[0])
	defer c.Recover("Normalize", cs, "")
	x := mask(in, false)
	x.Normalize()
	out := append([]string(nil), x.Paths...)
	c.Compare("Normalize vs model normalizePaths", cs, showList(out), c.Ask("normalize %s", strings.Join(hxs(in), " ")))
	// the unexported helper on a fresh copy gives the same
	out2 := fieldmaskpb.VerifNormalizePaths(append([]string(nil), in...))
	c.Check(eqList(out, out2), "Normalize != normalizePaths", cs, "")
	checkNormalForm(c, "Normalize", cs, out)
	c.Check(subset(out, in), "Normalize: result has a path that is not in the input", cs, "")
	for _, q := range probes(in, out) {
		if !c.Check(refCovers(out, q) == refCovers(in, q), fmt.Sprintf("Normalize changes coverage of %q", q), cs, "") {
			break
		}
	}
	y := mask(out, false)
	y.Normalize()
	c.Check(eqList(y.Paths, out), "Normalize not idempotent", cs, "")
	c.Case("n|"+strings.Join(cs.Masks[0], ","), len(in) >= 2 && !eqList(in, out))
	if len(out) < len(in) {
		c.Hist("normalize:elided")
	} else if !eqList(in, out) {
		c.Hist("normalize:reordered")
	} else {
		c.Hist("normalize:fixedpoint")
	}
}

func evalSetOp(c *C, cs Case) bool {
	var ms []*fieldmaskpb.FieldMask
	var ins [][]string
	var req []string
	for i, m := range cs.Masks {
		p := unhxs(m)
		ins = append(ins, p)
		ms = append(ms, mask(p, isNilIdx(cs, i)))
		req = append(req, strings.Join(hxs(p), " "))
	}
	if len(ms) < 2 {
		panic("set operation needs two masks")
	}
	snapshot := make([][]string, len(ins))
	for i := range ins {
		snapshot[i] = append([]string(nil), ins[i]...)
	}
	var out []string
	name := "Union"
	if cs.Op == "intersect" {
		name = "Intersect"
	}
	ok, pan := withTimeout(callTimeout, func() {
		if cs.Op == "union" {
			out = fieldmaskpb.Union(ms[0], ms[1], ms[2:]...).GetPaths()
		} else {
			out = fieldmaskpb.Intersect(ms[0], ms[1], ms[2:]...).GetPaths()
		}
	})
	if !ok {
		c.Check(false, name+" does not terminate", cs, "")
		return false
	}
	if pan != nil {
		c.Check(false, fmt.Sprintf("%s panics: %v", name, pan), cs, "")
		return true
	}
	c.Compare(name+" vs model", cs, showList(out), c.Ask("%s %s", cs.Op, strings.Join(req, " | ")))
	checkNormalForm(c, name, cs, out)
	all := append([][]string{out}, ins...)
	for _, q := range probes(all...) {
		want := cs.Op == "intersect"
		for _, in := range ins {
			if cs.Op == "union" {
				want = want || refCovers(in, q)
			} else {
				want = want && refCovers(in, q)
			}
		}
		if !c.Check(refCovers(out, q) == want, fmt.Sprintf("%s: coverage of %q is %v, want %v", name, q, !want, want), cs, "") {
			break
		}
	}
	for i, m := range ms {
		if m != nil {
			c.Check(eqList(m.Paths, snapshot[i]), name+" modifies an input mask", cs, "")
		}
	}
	nonempty := 0
	for _, in := range ins {
		if len(in) > 0 {
			nonempty++
		}
	}
	c.Case(cs.Op+"|"+strings.Join(req, "|"), nonempty >= 2 && len(out) > 0)
	c.Hist(fmt.Sprintf("%s:arity%d:out%s", cs.Op, len(ins), bucket(len(out))))
	return true
}

func bucket(n int) string {
	switch {
	case n == 0:
		return "0"
	case n == 1:
		return "1"
	case n <= 3:
		return "2-3"
	default:
		return "4+"
	}
}

func evalPair(c *C, cs Case) {
	x, y := unhx(cs.Masks[0][0]), unhx(cs.Masks[0][1])
	defer c.Recover(cs.Op, cs, "")
	b2s := func(b bool) string {
		if b {
			return "1"
		}
		return "0"
	}
	switch cs.Op {
	case "less":
		got := fieldmaskpb.VerifLessPath(x, y)
		c.Compare("lessPath vs model", cs, b2s(got), c.Ask("less %s %s", hx(x), hx(y)))
		c.Check(got == refLess(x, y), "lessPath is not the dot-first lexicographic order", cs, "")
		rev := fieldmaskpb.VerifLessPath(y, x)
		c.Check(!(got && rev), "lessPath not asymmetric", cs, "")
		c.Check(x == y || got || rev, "lessPath not total", cs, "")
		c.Case("l|"+cs.Masks[0][0]+"|"+cs.Masks[0][1], x != y)
	case "prefix":
		got := fieldmaskpb.VerifHasPathPrefix(x, y)
		c.Compare("hasPathPrefix vs model", cs, b2s(got), c.Ask("prefix %s %s", hx(x), hx(y)))
		c.Check(got == refPrefix(x, y), "hasPathPrefix is not 'equal or prefix followed by a dot'", cs, "")
		c.Case("p|"+cs.Masks[0][0]+"|"+cs.Masks[0][1], got)
	}
}

func evalSplit(c *C, cs Case) {
	p := unhx(cs.Masks[0][0])
	defer c.Recover("rangeFields", cs, "")
	var fields []string
	var okr bool
	ok, pan := withTimeout(callTimeout, func() { fields, okr = fieldmaskpb.VerifRangeFields(p) })
	if !ok || pan != nil {
		c.Check(false, fmt.Sprintf("rangeFields does not terminate or panics: %v", pan), cs, "")
		return
	}
	c.Compare("rangeFields vs model splitDots", cs, showList(fields), c.Ask("split %s", hx(p)))
	c.Check(okr && eqList(fields, strings.Split(p, ".")), "rangeFields does not visit strings.Split(path, \".\")", cs, "")
	c.Case("s|"+cs.Masks[0][0], strings.Contains(p, "."))
}

// ---------- validity ----------

type schemaInfo struct {
	md    protoreflect.MessageDescriptor
	msgs  []protoreflect.MessageDescriptor
	text  string // protocol form
	nflds int
	// group-kind fields whose TextName() is neither the field name nor an unshadowed name that lower-cases to it
	wfBroken []string
}

var schemaCache = map[protoreflect.FullName]*schemaInfo{}

// flatten lists the message descriptors reachable from md (index 0 = md) with what numValidPaths reads.
func flatten(md protoreflect.MessageDescriptor) *schemaInfo {
	if s, ok := schemaCache[md.FullName()]; ok {
		return s
	}
	s := &schemaInfo{md: md}
	idx := map[protoreflect.FullName]int{md.FullName(): 0}
	s.msgs = []protoreflect.MessageDescriptor{md}
	for i := 0; i < len(s.msgs); i++ {
		fs := s.msgs[i].Fields()
		for j := 0; j < fs.Len(); j++ {
			if m := fs.Get(j).Message(); m != nil {
				if _, ok := idx[m.FullName()]; !ok {
					idx[m.FullName()] = len(s.msgs)
					s.msgs = append(s.msgs, m)
				}
			}
		}
	}
	b01 := func(b bool) string {
		if b {
			return "1"
		}
		return "0"
	}
	var groups []string
	for _, m := range s.msgs {
		var toks []string
		fs := m.Fields()
		for j := 0; j < fs.Len(); j++ {
			fd := fs.Get(j)
			tgt := "n"
			if mm := fd.Message(); mm != nil {
				tgt = fmt.Sprint(idx[mm.FullName()])
			}
			toks = append(toks, fmt.Sprintf("%s:%s:%s:%s:%s:%s", hx(string(fd.Name())),
				b01(fd.Kind() == protoreflect.GroupKind), hx(fd.TextName()), tgt, b01(fd.IsList()), b01(fd.IsMap())))
			if fd.Kind() == protoreflect.GroupKind {
				// hypothesis TextNameWF of C44.every_field_selectable
				tn, n := fd.TextName(), string(fd.Name())
				if !(tn == n || (n == strings.ToLower(tn) && fs.ByName(protoreflect.Name(tn)) == nil)) {
					s.wfBroken = append(s.wfBroken, string(fd.FullName()))
				}
			}
			s.nflds++
		}
		groups = append(groups, strings.Join(toks, " "))
	}
	s.text = strings.Join(groups, " / ")
	schemaCache[md.FullName()] = s
	return s
}

// refValid: the path's components walk fields by their text-format name (the field name, or the
// message type name for a group-like field) through singular message fields.
func refValid(md protoreflect.MessageDescriptor, path string) bool {
	cur := md
	for _, comp := range strings.Split(path, ".") {
		if cur == nil {
			return false
		}
		var fd protoreflect.FieldDescriptor
		fs := cur.Fields()
		for j := 0; j < fs.Len(); j++ {
			if fs.Get(j).TextName() == comp {
				fd = fs.Get(j)
				break
			}
		}
		if fd == nil {
			return false
		}
		cur = fd.Message()
		if fd.IsList() || fd.IsMap() {
			cur = nil
		}
	}
	return true
}

func newMsg(md protoreflect.MessageDescriptor) proto.Message {
	if mt, err := protoregistry.GlobalTypes.FindMessageByName(md.FullName()); err == nil {
		return mt.New().Interface()
	}
	return dynamicpb.NewMessage(md)
}

func findMsg(name string) protoreflect.MessageDescriptor {
	d, err := protoregistry.GlobalFiles.FindDescriptorByName(protoreflect.FullName(name))
	if err != nil {
		return nil
	}
	md, _ := d.(protoreflect.MessageDescriptor)
	return md
}

// evalValid: every path of Masks[0] on its own, through New, IsValid and numValidPaths.
func evalValid(c *C, cs Case) bool {
	md := findMsg(cs.Msg)
	if md == nil {
		panic("unknown message type " + cs.Msg)
	}
	m := newMsg(md)
	si := flatten(md)
	c.Check(len(si.wfBroken) == 0, fmt.Sprintf("descriptor assumption TextNameWF fails for %v", si.wfBroken), mkCase("valid", cs.Msg, nil), "")
	paths := unhxs(cs.Masks[0])
	got := make([]byte, len(paths))
	ok, pan := withTimeout(callTimeout, func() {
		for i, p := range paths {
			fm, err := fieldmaskpb.New(m, p)
			v := err == nil
			got[i] = '0'
			if v {
				got[i] = '1'
			}
			one := mkCase("valid", cs.Msg, []string{p})
			c.Check(fm != nil && ((v && eqList(fm.Paths, []string{p})) || (!v && len(fm.Paths) == 0)), "New: paths of the result", one, "")
			c.Check((&fieldmaskpb.FieldMask{Paths: []string{p}}).IsValid(m) == v, "IsValid != (New err == nil)", one, "")
			c.Check((fieldmaskpb.VerifNumValidPaths(m, []string{p}) == 1) == v, "numValidPaths != (New err == nil)", one, "")
			want := refValid(md, p)
			c.Check(v == want, fmt.Sprintf("New accepts=%v but the path names a field reachable through singular message fields=%v", v, want), one, "")
			c.Case("v|"+cs.Msg+"|"+hx(p), v)
			if v {
				c.Hist(fmt.Sprintf("valid:accepted:depth%d", strings.Count(p, ".")+1))
			} else {
				c.Hist("valid:rejected")
			}
		}
	})
	if !ok || pan != nil {
		c.Check(false, fmt.Sprintf("New/IsValid does not terminate or panics: %v", pan), cs, "")
		return ok
	}
	s := string(got)
	if s == "" {
		s = "-"
	}
	if c.HasModel() {
		ans := c.Ask("valid 0 %s ; %s", si.text, strings.Join(hxs(paths), " "))
		if ans != s {
			// narrow the report down to the first differing path
			for i := range paths {
				if i >= len(ans) || ans[i] != s[i] {
					one := mkCase("valid", cs.Msg, []string{paths[i]})
					c.Compare("New(m, path) err==nil vs model pathValid", one, s[i:i+1], c.Ask("valid 0 %s ; %s", si.text, hx(paths[i])))
					break
				}
			}
			if len(ans) != len(s) {
				c.Compare("valid: answer length", cs, s, ans)
			}
		}
	}
	return true
}

// evalAppend: list semantics. Masks[0] = existing x.Paths, Masks[1] = appended paths.
func evalAppend(c *C, cs Case) {
	md := findMsg(cs.Msg)
	if md == nil {
		panic("unknown message type " + cs.Msg)
	}
	m := newMsg(md)
	si := flatten(md)
	xs, paths := unhxs(cs.Masks[0]), unhxs(cs.Masks[1])
	defer c.Recover("Append", cs, "")
	x := &fieldmaskpb.FieldMask{Paths: append([]string(nil), xs...)}
	err := x.Append(m, paths...)
	e := "1"
	if err != nil {
		e = "0"
	}
	c.Compare("Append vs model", cs, e+" "+showList(x.Paths),
		c.Ask("append 0 %s ; %s ; %s", si.text, strings.Join(hxs(xs), " "), strings.Join(hxs(paths), " ")))
	// directly: the longest all-valid prefix is appended; error iff something is left
	n := 0
	for n < len(paths) {
		if _, err1 := fieldmaskpb.New(m, paths[n]); err1 != nil {
			break
		}
		n++
	}
	c.Check(eqList(x.Paths, append(append([]string(nil), xs...), paths[:n]...)), "Append does not append exactly the longest valid prefix", cs, "")
	c.Check((err == nil) == (n == len(paths)), "Append error != (some path invalid)", cs, "")
	if err != nil && n < len(paths) {
		c.Check(strings.Contains(err.Error(), fmt.Sprintf("%q", paths[n])), "Append error does not name the first invalid path", cs, "")
	}
	nm, errN := fieldmaskpb.New(m, paths...)
	c.Check(eqList(nm.GetPaths(), paths[:n]) && (errN == nil) == (n == len(paths)), "New != Append on an empty mask", cs, "")
	iv := (&fieldmaskpb.FieldMask{Paths: paths}).IsValid(m)
	c.Check(iv == (n == len(paths)), "IsValid != all paths valid", cs, "")
	b := "0"
	if iv {
		b = "1"
	}
	c.Compare("IsValid vs model", cs, b, c.Ask("isvalid 0 %s ; %s", si.text, strings.Join(hxs(paths), " ")))
	c.Compare("numValidPaths vs model", cs, fmt.Sprint(fieldmaskpb.VerifNumValidPaths(m, paths)), c.Ask("numvalid 0 %s ; %s", si.text, strings.Join(hxs(paths), " ")))
	c.Check(!(*fieldmaskpb.FieldMask)(nil).IsValid(m), "nil mask reported valid", cs, "")
	c.Case("a|"+cs.Msg+"|"+strings.Join(cs.Masks[0], ",")+"|"+strings.Join(cs.Masks[1], ","), n > 0)
	c.Hist(fmt.Sprintf("append:valid-prefix=%s,of=%s", bucket(n), bucket(len(paths))))
}

func evalCase(c *C, cs Case) bool {
	switch cs.Op {
	case "less", "prefix":
		evalPair(c, cs)
	case "split":
		evalSplit(c, cs)
	case "normalize":
		evalNormalize(c, cs)
	case "union", "intersect":
		return evalSetOp(c, cs)
	case "valid":
		return evalValid(c, cs)
	case "append":
		evalAppend(c, cs)
	default:
		panic("unknown op " + cs.Op)
	}
	return true
}

// ---------- generators ----------

// alphabet: prefixes of each other, bytes below '.' ('!', '-') and above it ('/', letters), empty
// components, the empty path.
var alphabet = []string{"a", "b", "a.b", "a.c", "ab", "a.b.c", "", ".", "a.", "a!", "a-b", "a.b.", "b.a"}
var alphabetExtra = []string{"a/", "a.!", ".a", "a..b", "A", "a.b!", "a\x00", "a\xff", "a.-", "a-", "a.b-c", "b", "b.", "a.a"}

func enumLists(alpha []string, n int, f func([]string) bool) bool {
	cur := make([]string, n)
	var rec func(i int) bool
	rec = func(i int) bool {
		if i == n {
			return f(append([]string(nil), cur...))
		}
		for _, a := range alpha {
			cur[i] = a
			if !rec(i + 1) {
				return false
			}
		}
		return true
	}
	return rec(0)
}

var byteAlphabet = []byte{'a', 'b', '.', '.', '!', '-', '/', 0, 0xff, 'A', '_', 0x80, '.'}

func randBytesPath(c *C) string {
	n := c.Rand.Intn(6)
	b := make([]byte, n)
	for i := range b {
		if c.Rand.Intn(12) == 0 {
			b[i] = byte(c.Rand.Intn(256))
		} else {
			b[i] = byteAlphabet[c.Rand.Intn(len(byteAlphabet))]
		}
	}
	return string(b)
}

// spelled: how the implementation spells a field in a path (used to generate mostly-valid paths).
func spelled(fd protoreflect.FieldDescriptor) string {
	if fd.Kind() == protoreflect.GroupKind {
		return string(fd.Message().Name())
	}
	return string(fd.Name())
}

// randWalk produces a path that walks fields of md; bad selects how it is broken (0 = not at all).
func randWalk(c *C, md protoreflect.MessageDescriptor, maxDepth int, bad int) string {
	var comps []string
	cur := md
	depth := 1 + c.Rand.Intn(maxDepth)
	for i := 0; i < depth && cur != nil && cur.Fields().Len() > 0; i++ {
		fs := cur.Fields()
		var fd protoreflect.FieldDescriptor
		// prefer singular message fields while more components are wanted
		for try := 0; try < 4; try++ {
			fd = fs.Get(c.Rand.Intn(fs.Len()))
			if i+1 >= depth || (fd.Message() != nil && !fd.IsList() && !fd.IsMap()) {
				break
			}
		}
		name := spelled(fd)
		if bad != 0 && c.Rand.Intn(depth) == 0 {
			switch bad {
			case 1: // the field name of a group / the type name of a plain message field
				if fd.Kind() == protoreflect.GroupKind {
					name = string(fd.Name())
				} else if fd.Message() != nil {
					name = string(fd.Message().Name())
				} else {
					name = fd.JSONName()
				}
			case 2:
				name = fd.JSONName()
			case 3:
				name = strings.ToUpper(name[:1]) + name[1:]
			case 4:
				name = strings.ToLower(name)
			case 5:
				name = name + "x"
			case 6:
				name = ""
			case 7:
				// KELVIN SIGN: strings.ToLower maps it to ASCII 'k'
				if strings.Contains(name, "k") {
					name = strings.Replace(name, "k", "\u212a", 1)
				} else {
					name = strings.Replace(name, "K", "\u212a", 1)
				}
			case 8:
				name = fd.TextName()
			case 9:
				name = " " + name
			}
		}
		comps = append(comps, name)
		cur = fd.Message() // deliberately also through lists and maps: those must be rejected
	}
	p := strings.Join(comps, ".")
	if bad == 10 {
		switch c.Rand.Intn(4) {
		case 0:
			p = p + "."
		case 1:
			p = "." + p
		case 2:
			p = strings.Replace(p, ".", "..", 1)
		case 3:
			p = p + ".zz_unknown"
		}
	}
	return p
}

// systematic: every field of md under every spelling, and one level below.
func systematic(md protoreflect.MessageDescriptor, childCap int) []string {
	var out []string
	spellings := func(fd protoreflect.FieldDescriptor) []string {
		s := []string{string(fd.Name()), fd.TextName(), fd.JSONName()}
		if m := fd.Message(); m != nil {
			s = append(s, string(m.Name()), strings.ToLower(string(m.Name())), string(m.FullName()))
		}
		return s
	}
	fs := md.Fields()
	for j := 0; j < fs.Len(); j++ {
		fd := fs.Get(j)
		for _, s := range spellings(fd) {
			out = append(out, s)
			if m := fd.Message(); m != nil {
				cf := m.Fields()
				for k := 0; k < cf.Len() && k < childCap; k++ {
					out = append(out, s+"."+spelled(cf.Get(k)), s+"."+string(cf.Get(k).Name()))
				}
			}
		}
	}
	out = append(out, "", ".", "..", "zz_unknown", "a.", ".a")
	return dedup(out)
}

func dedup(in []string) []string {
	seen := map[string]bool{}
	var out []string
	for _, s := range in {
		if !seen[s] {
			seen[s] = true
			out = append(out, s)
		}
	}
	return out
}

func corpusTypes() []protoreflect.MessageDescriptor {
	// make sure the packages are linked in
	_ = []proto.Message{&testpb.TestAllTypes{}, &test3pb.TestAllTypes{}, &testeditions.TestAllTypes{}, &textpb2.Scalars{},
		&descriptorpb.FileDescriptorProto{}, &structpb.Struct{}, &anypb.Any{}, &fieldmaskpb.FieldMask{}}
	var out []protoreflect.MessageDescriptor
	protoregistry.GlobalTypes.RangeMessages(func(mt protoreflect.MessageType) bool {
		md := mt.Descriptor()
		if !md.IsMapEntry() {
			out = append(out, md)
		}
		return true
	})
	sort.Slice(out, func(i, j int) bool { return out[i].FullName() < out[j].FullName() })
	return out
}

var primaryTypes = []string{
	"goproto.proto.test.TestAllTypes",
	"goproto.proto.test3.TestAllTypes",
	"goproto.proto.testeditions.TestAllTypes",
	"goproto.proto.test.TestRequiredGroupFields",
	"google.protobuf.FileDescriptorProto",
	"google.protobuf.Struct",
	"pb2.Nests",
}

func runC44(c *C) {
	c.R.Rule = "algebra: ALL lists over a 13-path alphabet (prefixes of each other, empty path/components, bytes below and above '.') up to length 3 (quick) / 4 (thorough) for Normalize, ALL pairs of such lists up to length 2 (quick) / 3x2 (thorough) for Union and Intersect, all pairs of alphabet paths for lessPath/hasPathPrefix; plus PRNG lists of 2-4 masks over a wider alphabet, random byte strings and dotted field names of corpus messages. Coverage equalities are decided on the elements of all lists involved (which decides equality of upward-closed sets exactly) plus extensions. validity: every message type linked into the harness; per type every field under every spelling one level deep, plus PRNG walks (valid, through lists/maps/scalars, group spelled by field name, JSON/upper/lower-cased names, empty components, unknown names, KELVIN SIGN) and PRNG path lists for Append/New/IsValid. Non-trivial: Normalize input of >=2 paths that is changed; set operation with >=2 non-empty inputs and non-empty result; accepted path; Append with a non-empty valid prefix; distinct by canonical input."

	// 0. replay
	for _, raw := range c.ReplayInputs() {
		var cs Case
		if json.Unmarshal(raw, &cs) == nil && cs.Op != "" {
			c.Hist("replayed")
			if !evalCase(c, cs) {
				return
			}
		}
	}

	// 0b. regression corpus: the witness of the finding fixed in /repo 9230271 and its neighbours, on every run
	for _, p := range []string{"not_group_like_delimited", "not_group_like_delimited.a", "OptionalGroup", "OptionalGroup.a", "optionalgroup"} {
		if !evalCase(c, mkCase("valid", "goproto.proto.testeditions.TestAllTypes", []string{p})) {
			return
		}
	}

	// 1. lessPath / hasPathPrefix / rangeFields: all pairs over both alphabets, then random bytes
	all := append(append([]string(nil), alphabet...), alphabetExtra...)
	for _, x := range all {
		evalCase(c, mkCase("split", "", []string{x}))
		for _, y := range all {
			evalCase(c, mkCase("less", "", []string{x, y}))
			evalCase(c, mkCase("prefix", "", []string{x, y}))
		}
	}
	for i := 0; i < c.N(4000, 100000) && !c.Failed(); i++ {
		x := randBytesPath(c)
		y := randBytesPath(c)
		switch c.Rand.Intn(4) {
		case 0:
			y = x + "." + y
		case 1:
			y = x + y
		case 2:
			if len(x) > 0 {
				y = x[:c.Rand.Intn(len(x))] + y
			}
		}
		if c.Rand.Intn(2) == 0 {
			x, y = y, x
		}
		evalCase(c, mkCase("less", "", []string{x, y}))
		evalCase(c, mkCase("prefix", "", []string{x, y}))
		evalCase(c, mkCase("split", "", []string{x}))
	}
	if c.Failed() {
		return
	}

	// 2. Normalize: exhaustive
	maxN := c.N(3, 4)
	exhaustive := true
	for n := 0; n <= maxN; n++ {
		if !enumLists(alphabet, n, func(l []string) bool {
			evalCase(c, mkCase("normalize", "", l))
			return !c.Failed()
		}) {
			exhaustive = false
			break
		}
	}
	if c.Failed() {
		return
	}

	// 3. Union / Intersect: exhaustive pairs
	var small, left [][]string
	for n := 0; n <= 2; n++ {
		enumLists(alphabet, n, func(l []string) bool { small = append(small, l); return true })
	}
	left = small
	if c.Thorough() {
		enumLists(alphabet, 3, func(l []string) bool { left = append(left, l); return true })
	}
	for _, p := range left {
		for _, q := range small {
			for _, op := range []string{"union", "intersect"} {
				cs := mkCase(op, "", p, q)
				if !evalCase(c, cs) || c.Failed() {
					return
				}
			}
		}
	}
	c.R.Exhaustive = exhaustive

	// 4. random lists: wider alphabet, n-ary, nil masks, corpus field names
	types := corpusTypes()
	var pool []string
	for _, name := range primaryTypes[:3] {
		md := findMsg(name)
		for i := 0; i < 400; i++ {
			pool = append(pool, randWalk(c, md, 4, 0))
		}
	}
	randPath := func(kind int) string {
		switch kind {
		case 0:
			return all[c.Rand.Intn(len(all))]
		case 1:
			return randBytesPath(c)
		default:
			p := pool[c.Rand.Intn(len(pool))]
			switch c.Rand.Intn(5) {
			case 0: // a path-prefix of it
				if i := strings.LastIndexByte(p, '.'); i > 0 {
					p = p[:i]
				}
			case 1: // a string prefix that is not a path-prefix
				p = p[:1+c.Rand.Intn(len(p))]
			case 2:
				p = p + "_x"
			}
			return p
		}
	}
	randList := func(kind, max int) []string {
		n := c.Rand.Intn(max + 1)
		l := make([]string, n)
		for i := range l {
			if i > 0 && c.Rand.Intn(4) == 0 { // related to an earlier element
				e := l[c.Rand.Intn(i)]
				switch c.Rand.Intn(3) {
				case 0:
					l[i] = e
				case 1:
					l[i] = e + "." + randPath(kind)
				default:
					l[i] = e + "!"
				}
			} else {
				l[i] = randPath(kind)
			}
		}
		return l
	}
	for i := 0; i < c.N(6000, 200000) && !c.Failed(); i++ {
		kind := c.Rand.Intn(3)
		evalCase(c, mkCase("normalize", "", randList(kind, 8)))
		arity := 2 + c.Rand.Intn(3)
		var masks [][]string
		for k := 0; k < arity; k++ {
			masks = append(masks, randList(kind, 6))
		}
		for _, op := range []string{"union", "intersect"} {
			cs := mkCase(op, "", masks...)
			for k := range masks {
				if len(masks[k]) == 0 && c.Rand.Intn(2) == 0 {
					cs.Nil = append(cs.Nil, k)
				}
			}
			if !evalCase(c, cs) {
				return
			}
		}
	}
	if c.Failed() {
		return
	}

	// 5. validity
	primary := map[string]bool{}
	for _, n := range primaryTypes {
		primary[n] = true
	}
	ntypes := 0
	for _, md := range types {
		if c.Failed() {
			return
		}
		name := string(md.FullName())
		var cands []string
		nrand := c.N(12, 200)
		if primary[name] {
			cands = systematic(md, c.N(6, 40))
			nrand = c.N(500, 20000)
		} else {
			cands = systematic(md, 2)
			if len(cands) > c.N(60, 2000) {
				c.Rand.Shuffle(len(cands), func(i, j int) { cands[i], cands[j] = cands[j], cands[i] })
				cands = cands[:c.N(60, 2000)]
			}
		}
		for i := 0; i < nrand; i++ {
			bad := 0
			if c.Rand.Intn(2) == 0 {
				bad = 1 + c.Rand.Intn(10)
			}
			cands = append(cands, randWalk(c, md, 5, bad))
		}
		cands = dedup(cands)
		for len(cands) > 0 {
			k := len(cands)
			if k > 200 {
				k = 200
			}
			if !evalCase(c, mkCase("valid", name, cands[:k])) {
				return
			}
			cands = cands[k:]
		}
		// lists
		nl := c.N(3, 50)
		if primary[name] {
			nl = c.N(150, 5000)
		}
		for i := 0; i < nl; i++ {
			mk := func(max int) []string {
				n := c.Rand.Intn(max + 1)
				l := make([]string, n)
				for j := range l {
					bad := 0
					if c.Rand.Intn(5) == 0 {
						bad = 1 + c.Rand.Intn(10)
					}
					l[j] = randWalk(c, md, 3, bad)
				}
				return l
			}
			evalCase(c, mkCase("append", name, mk(2), mk(5)))
		}
		ntypes++
		c.Hist("types:" + strings.SplitN(name, ".", 3)[0])
	}
	c.R.Notes = append(c.R.Notes, fmt.Sprintf("validity compared on %d message types", ntypes))
	c.Sample(mkCase("normalize", "", []string{"a.b", "a!", "ab", "a", "b.a"}))
	c.Sample(mkCase("intersect", "", []string{"a.b", "b"}, []string{"a", "b.a"}))
	c.Sample(mkCase("valid", primaryTypes[0], []string{"OptionalGroup.optional_nested_message.corecursive", "optionalgroup", "repeated_nested_message.a"}))
}
