//go:build verif

// Virtual file (go build -overlay) that lets the C44 harness call the unexported helpers of
// fieldmaskpb directly.  It is never written into /repo.
package fieldmaskpb

import "google.golang.org/protobuf/proto"

func VerifLessPath(x, y string) bool                         { return lessPath(x, y) }
func VerifHasPathPrefix(path, prefix string) bool            { return hasPathPrefix(path, prefix) }
func VerifNormalizePaths(paths []string) []string            { return normalizePaths(paths) }
func VerifNumValidPaths(m proto.Message, paths []string) int { return numValidPaths(m, paths) }

// VerifRangeFields returns the fields rangeFields hands to a callback that always returns true.
func VerifRangeFields(path string) (fields []string, ok bool) {
	ok = rangeFields(path, func(f string) bool { fields = append(fields, f); return true })
	return fields, ok
}
