package main

import (
	"fmt"
	"math"
	"strings"
	"unicode/utf8"

	"google.golang.org/protobuf/reflect/protoreflect"
)

// ---------- strings ----------

var interestingRunes = []rune{0, 1, 7, 8, 9, 10, 12, 13, 0x1f, 0x20, '"', '\\', '/', 0x7f, 0x80, 0xa0, 0xe9, 0x7ff, 0x800,
	0x1680, 0x2028, 0x2029, 0x3000, 0xd7ff, 0xe000, 0xfffd, 0xfffe, 0xffff, 0x10000, 0x1f600, 0x10ffff, 'a', 'Z', '0', '<', '>', '&'}

func randRune(c *C) rune {
	switch c.Rand.Intn(6) {
	case 0:
		return interestingRunes[c.Rand.Intn(len(interestingRunes))]
	case 1:
		return rune(c.Rand.Intn(0x80))
	case 2:
		return rune(0x80 + c.Rand.Intn(0x800-0x80))
	case 3:
		r := rune(0x800 + c.Rand.Intn(0x10000-0x800))
		if r >= 0xd800 && r < 0xe000 {
			r = 0x4e2d
		}
		return r
	case 4:
		return rune(0x10000 + c.Rand.Intn(0x110000-0x10000))
	default:
		return rune('a' + c.Rand.Intn(26))
	}
}

// randUTF8 returns a valid UTF-8 string of up to max runes.
func randUTF8(c *C, max int) string {
	n := c.Rand.Intn(max + 1)
	var sb strings.Builder
	for i := 0; i < n; i++ {
		sb.WriteRune(randRune(c))
	}
	return sb.String()
}

// invalid UTF-8 fragments (one per class of utf8.DecodeRune's failure branches)
var badUTF8 = []string{"\x80", "\xbf", "\xc0\x80", "\xc1\xbf", "\xc2", "\xc2\x20", "\xe0\x80\x80", "\xe0\x9f\xbf", "\xe0\xa0", "\xed\xa0\x80",
	"\xed\xbf\xbf", "\xef\xbf", "\xf0\x80\x80\x80", "\xf0\x8f\xbf\xbf", "\xf0\x90\x80", "\xf4\x90\x80\x80", "\xf5\x80\x80\x80", "\xff", "\xfe", "\xf8\x88\x80\x80\x80"}

func randBytes(c *C, max int) []byte {
	b := make([]byte, c.Rand.Intn(max+1))
	c.Rand.Read(b)
	return b
}

const hexdigits = "0123456789abcdefABCDEF"

// randEscape returns one JSON escape sequence, valid or broken.
func randEscape(c *C, valid bool) string {
	if valid {
		switch c.Rand.Intn(4) {
		case 0:
			return `\` + string(`"\/bfnrt`[c.Rand.Intn(8)])
		case 1: // BMP non-surrogate
			v := c.Rand.Intn(0x10000)
			if v >= 0xd800 && v < 0xe000 {
				v -= 0x800
			}
			return fmt.Sprintf(`\u%04x`, v)
		case 2: // surrogate pair
			return fmt.Sprintf(`\u%04X\u%04x`, 0xd800+c.Rand.Intn(0x400), 0xdc00+c.Rand.Intn(0x400))
		default:
			return fmt.Sprintf(`\u%04X`, []int{0, 0x1f, 0x20, 0x22, 0x5c, 0x7f, 0x80, 0xd7ff, 0xe000, 0xfffd, 0xffff}[c.Rand.Intn(11)])
		}
	}
	switch c.Rand.Intn(11) {
	case 9, 10: // a well-formed \uXXXX (or the low half of a pair) with ONE hex position replaced by an arbitrary non-hex byte
		e := []byte(fmt.Sprintf(`\u%04x`, c.Rand.Intn(0xd800)))
		if c.Rand.Intn(3) == 0 {
			e = []byte(fmt.Sprintf(`\u%04x\u%04x`, 0xd800+c.Rand.Intn(0x400), 0xdc00+c.Rand.Intn(0x400)))
		}
		pos := len(e) - 1 - c.Rand.Intn(4)
		for {
			b := byte(c.Rand.Intn(256))
			if c.Rand.Intn(2) == 0 {
				b = byte(c.Rand.Intn(0x40)) // control bytes, punctuation, the neighbours of '0'..'9'
			}
			isHex := b >= '0' && b <= '9' || b >= 'a' && b <= 'f' || b >= 'A' && b <= 'F'
			if !isHex && b != '"' && b != '\\' {
				e[pos] = b
				break
			}
		}
		return string(e)
	case 0:
		return `\` + string("aevx0'uU \n"[c.Rand.Intn(10)])
	case 1: // lone high surrogate
		return fmt.Sprintf(`\u%04x`, 0xd800+c.Rand.Intn(0x400))
	case 2: // lone low surrogate
		return fmt.Sprintf(`\u%04x`, 0xdc00+c.Rand.Intn(0x400))
	case 3: // high followed by a non-low escape
		return fmt.Sprintf(`\u%04x\u%04x`, 0xd800+c.Rand.Intn(0x400), c.Rand.Intn(0xd800))
	case 4: // high followed by something that is not \u
		return fmt.Sprintf(`\u%04x\n%04x`, 0xd800+c.Rand.Intn(0x400), 0xdc00+c.Rand.Intn(0x400))
	case 5: // low, high
		return fmt.Sprintf(`\u%04x\u%04x`, 0xdc00+c.Rand.Intn(0x400), 0xd800+c.Rand.Intn(0x400))
	case 6: // short or non-hex
		return []string{`\u`, `\u1`, `\u12`, `\u123`, `\u12g4`, `\u+123`, `\u-123`, `\u 123`, `\u0x12`, `\u1_23`, `\ud800\u`, `\ud800\udc0`, `\ud800\udcxx`, `\ud800\u+c00`}[c.Rand.Intn(14)]
	case 7: // high + high
		return fmt.Sprintf(`\u%04x\u%04x`, 0xd800+c.Rand.Intn(0x400), 0xd800+c.Rand.Intn(0x400))
	default:
		return `\`
	}
}

// randStringLiteral returns a JSON string literal (with quotes). bad > 0 plants defects.
func randStringLiteral(c *C, maxParts int, bad bool) string {
	var sb strings.Builder
	sb.WriteByte('"')
	n := c.Rand.Intn(maxParts + 1)
	planted := !bad
	for i := 0; i < n; i++ {
		switch c.Rand.Intn(5) {
		case 0:
			sb.WriteString(randEscape(c, true))
		case 1, 2:
			r := randRune(c)
			if r < 0x20 || r == '"' || r == '\\' {
				r = 'q'
			}
			sb.WriteRune(r)
		case 3:
			sb.WriteString("ab c"[:1+c.Rand.Intn(4)])
		default:
			if bad && (c.Rand.Intn(2) == 0 || !planted) {
				planted = true
				switch c.Rand.Intn(4) {
				case 0:
					sb.WriteString(randEscape(c, false))
				case 1:
					sb.WriteByte(byte(c.Rand.Intn(0x20))) // raw control character
				case 2:
					sb.WriteString(badUTF8[c.Rand.Intn(len(badUTF8))])
				default:
					sb.WriteString(`"`) // early close
				}
			} else {
				sb.WriteRune(0xfffd) // a literal U+FFFD is legal
			}
		}
	}
	if bad && !planted {
		sb.WriteString(randEscape(c, false))
	}
	if !(bad && c.Rand.Intn(6) == 0) {
		sb.WriteByte('"')
	}
	return sb.String()
}

// ---------- numbers ----------

func digits(c *C, n int) string {
	b := make([]byte, n)
	for i := range b {
		b[i] = byte('0' + c.Rand.Intn(10))
	}
	return string(b)
}

// randNumberLiteral returns a JSON number literal; bad plants one of the classic defects.
func randNumberLiteral(c *C, bad bool) string {
	var sb strings.Builder
	if c.Rand.Intn(3) == 0 {
		sb.WriteByte('-')
	}
	if c.Rand.Intn(4) == 0 {
		sb.WriteByte('0')
	} else {
		sb.WriteByte(byte('1' + c.Rand.Intn(9)))
		sb.WriteString(digits(c, c.Rand.Intn(5)))
	}
	if c.Rand.Intn(3) == 0 {
		sb.WriteByte('.')
		sb.WriteString(digits(c, 1+c.Rand.Intn(4)))
	}
	if c.Rand.Intn(3) == 0 {
		sb.WriteByte("eE"[c.Rand.Intn(2)])
		sb.WriteString([]string{"", "+", "-"}[c.Rand.Intn(3)])
		sb.WriteString(digits(c, 1+c.Rand.Intn(3)))
	}
	s := sb.String()
	if !bad {
		return s
	}
	switch c.Rand.Intn(12) {
	case 0:
		return "+" + strings.TrimPrefix(s, "-")
	case 1:
		return "0" + strings.TrimPrefix(s, "-") // leading zero
	case 2:
		return "-0" + digits(c, 1+c.Rand.Intn(2))
	case 3:
		return s + "."
	case 4:
		return "." + digits(c, 2)
	case 5:
		return s + "e" // finding 4 class when followed by a delimiter
	case 6:
		return s + "E+"
	case 7:
		return strings.TrimRight(s, "0123456789") + "e-"
	case 8:
		return s + "e1.5"
	case 9:
		return "-"
	case 10:
		return s + []string{"x", "_", "a", "e1e1", "..1", "-1", "+1", "f", "n", "Infinity"}[c.Rand.Intn(10)]
	default:
		return []string{"NaN", "Infinity", "-Infinity", "0x10", "1_000", "\u0661\u0662", "1,5", "--1", "-+1", "1e+-1", "01", "-01", "00", "1.e1", "1.E1", ".e1", "-.1", "1e", "1e+", "-0E-", "0e", "12E"}[c.Rand.Intn(22)]
	}
}

// ---------- documents ----------

func randWs(c *C) string {
	switch c.Rand.Intn(8) {
	case 0:
		return " "
	case 1:
		return "\n"
	case 2:
		return "\t\r\n "
	default:
		return ""
	}
}

// randValue writes a random JSON value; with bad=true scalars may carry defects.
func randValue(c *C, sb *strings.Builder, depth int, bad bool) {
	k := c.Rand.Intn(10)
	if depth <= 0 && k >= 6 {
		k = c.Rand.Intn(6)
	}
	switch k {
	case 0:
		sb.WriteString("null")
	case 1:
		sb.WriteString([]string{"true", "false"}[c.Rand.Intn(2)])
	case 2, 3:
		sb.WriteString(randNumberLiteral(c, bad && c.Rand.Intn(4) == 0))
	case 4, 5:
		sb.WriteString(randStringLiteral(c, 4, bad && c.Rand.Intn(4) == 0))
	case 6, 7:
		sb.WriteByte('[')
		sb.WriteString(randWs(c))
		n := c.Rand.Intn(4)
		for i := 0; i < n; i++ {
			if i > 0 {
				sb.WriteString(randWs(c) + "," + randWs(c))
			}
			randValue(c, sb, depth-1, bad)
		}
		sb.WriteString(randWs(c))
		sb.WriteByte(']')
	default:
		sb.WriteByte('{')
		sb.WriteString(randWs(c))
		n := c.Rand.Intn(4)
		for i := 0; i < n; i++ {
			if i > 0 {
				sb.WriteString(randWs(c) + "," + randWs(c))
			}
			sb.WriteString(randStringLiteral(c, 2, bad && c.Rand.Intn(8) == 0))
			sb.WriteString(randWs(c) + ":" + randWs(c))
			randValue(c, sb, depth-1, bad)
		}
		sb.WriteString(randWs(c))
		sb.WriteByte('}')
	}
}

func randDoc(c *C, bad bool) []byte {
	var sb strings.Builder
	sb.WriteString(randWs(c))
	randValue(c, &sb, 1+c.Rand.Intn(4), bad)
	sb.WriteString(randWs(c))
	return []byte(sb.String())
}

var soupTokens = []string{"{", "}", "[", "]", ",", ":", "null", "true", "false", "nul", "True", "tru", "falsey", "nullx", "\"a\"", "\"\"", "1", "-0", "1.5e3",
	"1e", "0E+", " ", "\n", "\t", "\r", "\"k\":", ",,", "[]", "{}", "//", "/**/", "'a'", "\"\\u0041\"", "\"\\ud800\"", "\x00", "\xef\xbb\xbf", "\x0b", "\x0c", "\xc2\xa0", "_", "-", "+1", ".5", "01"}

func randSoup(c *C) []byte {
	var sb strings.Builder
	n := 1 + c.Rand.Intn(10)
	for i := 0; i < n; i++ {
		switch c.Rand.Intn(12) {
		case 0:
			sb.WriteString(randNumberLiteral(c, c.Rand.Intn(2) == 0))
		case 1:
			sb.WriteString(randStringLiteral(c, 3, c.Rand.Intn(3) == 0))
		default:
			sb.WriteString(soupTokens[c.Rand.Intn(len(soupTokens))])
		}
	}
	return []byte(sb.String())
}

// mutate applies one grammar-directed mutation to a (valid) document.
func mutate(c *C, doc []byte) ([]byte, string) {
	s := string(doc)
	idx := func(set string) []int {
		var out []int
		inStr := false
		for i := 0; i < len(s); i++ {
			ch := s[i]
			if inStr {
				if ch == '\\' {
					i++
				} else if ch == '"' {
					inStr = false
				}
				continue
			}
			if ch == '"' {
				inStr = true
				if strings.IndexByte(set, '"') >= 0 {
					out = append(out, i)
				}
				continue
			}
			if strings.IndexByte(set, ch) >= 0 {
				out = append(out, i)
			}
		}
		return out
	}
	pick := func(xs []int) int { return xs[c.Rand.Intn(len(xs))] }
	switch m := c.Rand.Intn(16); m {
	case 0: // trailing comma before a closer
		if xs := idx("]}"); len(xs) > 0 {
			i := pick(xs)
			return []byte(s[:i] + "," + s[i:]), "trailing-comma"
		}
	case 1: // duplicate comma
		if xs := idx(","); len(xs) > 0 {
			i := pick(xs)
			return []byte(s[:i] + "," + s[i:]), "dup-comma"
		}
	case 2: // missing colon
		if xs := idx(":"); len(xs) > 0 {
			i := pick(xs)
			return []byte(s[:i] + s[i+1:]), "missing-colon"
		}
	case 3: // colon -> comma
		if xs := idx(":"); len(xs) > 0 {
			i := pick(xs)
			return []byte(s[:i] + "," + s[i+1:]), "colon-to-comma"
		}
	case 4: // missing comma
		if xs := idx(","); len(xs) > 0 {
			i := pick(xs)
			return []byte(s[:i] + " " + s[i+1:]), "missing-comma"
		}
	case 5: // drop a closer
		if xs := idx("]}"); len(xs) > 0 {
			i := pick(xs)
			return []byte(s[:i] + s[i+1:]), "drop-closer"
		}
	case 6: // swap a closer
		if xs := idx("]}"); len(xs) > 0 {
			i := pick(xs)
			r := byte(']')
			if s[i] == ']' {
				r = '}'
			}
			return []byte(s[:i] + string(r) + s[i+1:]), "swap-closer"
		}
	case 7: // trailing garbage
		return []byte(s + []string{"x", "1", ",", "]", "}", "{}", "null", "\x00", "\"", ":", "e"}[c.Rand.Intn(11)]), "trailing-garbage"
	case 8: // truncate
		if len(s) > 1 {
			return []byte(s[:c.Rand.Intn(len(s))]), "truncate"
		}
	case 9: // leading comma after an opener
		if xs := idx("[{"); len(xs) > 0 {
			i := pick(xs)
			return []byte(s[:i+1] + "," + s[i+1:]), "leading-comma"
		}
	case 10: // raw control character / invalid UTF-8 / bad escape into a string
		if xs := idx("\""); len(xs) > 0 {
			i := pick(xs)
			var ins string
			switch c.Rand.Intn(3) {
			case 0:
				ins = string([]byte{byte(c.Rand.Intn(0x20))})
			case 1:
				ins = badUTF8[c.Rand.Intn(len(badUTF8))]
			default:
				ins = randEscape(c, false)
			}
			return []byte(s[:i+1] + ins + s[i+1:]), "string-defect"
		}
	case 11: // replace a number by a defective one
		if xs := idx("0123456789"); len(xs) > 0 {
			i := pick(xs)
			j := i
			for j < len(s) && strings.IndexByte("0123456789+-.eE", s[j]) >= 0 {
				j++
			}
			return []byte(s[:i] + randNumberLiteral(c, true) + s[j:]), "number-defect"
		}
	case 12: // flip one byte
		if len(s) > 0 {
			b := []byte(s)
			i := c.Rand.Intn(len(b))
			b[i] ^= byte(1 << uint(c.Rand.Intn(8)))
			return b, "bitflip"
		}
	case 13: // literal defect
		for _, lit := range []string{"null", "true", "false"} {
			if i := strings.Index(s, lit); i >= 0 {
				rep := []string{"nul", "NULL", "nulll", "tru", "True", "fals", "falsee", "nil", "none", "undefined"}[c.Rand.Intn(10)]
				return []byte(s[:i] + rep + s[i+len(lit):]), "literal-defect"
			}
		}
	case 14: // unicode whitespace / comment / BOM between tokens
		if xs := idx(",:[]{}"); len(xs) > 0 {
			i := pick(xs)
			ins := []string{"\u00a0", "\u2028", "\x0b", "\x0c", "//c\n", "/*c*/", "\ufeff", "\x00"}[c.Rand.Intn(8)]
			return []byte(s[:i] + ins + s[i:]), "foreign-space"
		}
	default: // wrap deeply
		n := 1 + c.Rand.Intn(40)
		if c.Rand.Intn(8) == 0 {
			n = 500 + c.Rand.Intn(1500)
		}
		open, clos := strings.Repeat("[", n), strings.Repeat("]", n)
		if c.Rand.Intn(4) == 0 && n > 1 {
			clos = clos[1:] // one closer short
		}
		return []byte(open + s + clos), "deep-nesting"
	}
	return []byte(s + " x"), "trailing-garbage"
}

// hasLoneSurrogateEscape reports whether a JSON text contains a \uXXXX escape that is a surrogate
// not part of a well-formed pair (encoding/json.Valid accepts those, protojson does not).
func hasLoneSurrogateEscape(b []byte) bool {
	s := string(b)
	for i := 0; i+1 < len(s); i++ {
		if s[i] != '\\' {
			continue
		}
		if s[i+1] != 'u' {
			i++
			continue
		}
		v, ok := hex4(s[i+2:])
		if !ok {
			i++
			continue
		}
		if v >= 0xd800 && v < 0xdc00 {
			if i+12 <= len(s) && s[i+6] == '\\' && s[i+7] == 'u' {
				if w, ok := hex4(s[i+8:]); ok && w >= 0xdc00 && w < 0xe000 {
					i += 11
					continue
				}
			}
			return true
		}
		if v >= 0xdc00 && v < 0xe000 {
			return true
		}
		i += 5
	}
	return false
}

func hex4(s string) (int, bool) {
	if len(s) < 4 {
		return 0, false
	}
	v := 0
	for i := 0; i < 4; i++ {
		ch := s[i]
		switch {
		case ch >= '0' && ch <= '9':
			v = v*16 + int(ch-'0')
		case ch >= 'a' && ch <= 'f':
			v = v*16 + int(ch-'a') + 10
		case ch >= 'A' && ch <= 'F':
			v = v*16 + int(ch-'A') + 10
		default:
			return 0, false
		}
	}
	return v, true
}

// ---------- messages ----------

func boundaryInt64(c *C) int64 {
	b := []int64{0, 1, -1, 127, 128, 255, 256, math.MaxInt32, math.MinInt32, math.MaxInt32 + 1, math.MinInt32 - 1, math.MaxUint32, math.MaxUint32 + 1,
		math.MaxInt64, math.MinInt64, math.MaxInt64 - 1, math.MinInt64 + 1, 1 << 53, 1<<53 + 1, -(1 << 53) - 1, 999999999999999999, 1000000000000000000}
	if c.Rand.Intn(2) == 0 {
		return b[c.Rand.Intn(len(b))]
	}
	return int64(c.Rand.Uint64()) >> uint(c.Rand.Intn(64))
}

func randFloat64(c *C) float64 {
	switch c.Rand.Intn(8) {
	case 0:
		return []float64{0, math.Copysign(0, -1), 1, -1, math.NaN(), math.Inf(1), math.Inf(-1), math.MaxFloat64, -math.MaxFloat64, math.SmallestNonzeroFloat64,
			math.MaxFloat32, math.SmallestNonzeroFloat32, 1e21, 1e-6, 9.999999e20, 1.0000001e21, 9.99999e-7, 1e-7, 0.000001, 123456789012345678, 1e20, 0.1, 1.5, 1e100, 1e-100, 2.2250738585072014e-308}[c.Rand.Intn(26)]
	case 1, 2:
		return math.Float64frombits(c.Rand.Uint64())
	case 3:
		return float64(math.Float32frombits(c.Rand.Uint32()))
	case 4:
		return float64(c.Rand.Intn(2000)-1000) / 8
	case 5:
		return math.Pow(10, float64(c.Rand.Intn(50)-25)) * (1 + c.Rand.Float64())
	default:
		return c.Rand.NormFloat64() * 1e3
	}
}

func randScalar(c *C, fd protoreflect.FieldDescriptor, validUTF8 bool) protoreflect.Value {
	switch fd.Kind() {
	case protoreflect.BoolKind:
		return protoreflect.ValueOfBool(c.Rand.Intn(2) == 0)
	case protoreflect.Int32Kind, protoreflect.Sint32Kind, protoreflect.Sfixed32Kind:
		return protoreflect.ValueOfInt32(int32(boundaryInt64(c)))
	case protoreflect.Int64Kind, protoreflect.Sint64Kind, protoreflect.Sfixed64Kind:
		return protoreflect.ValueOfInt64(boundaryInt64(c))
	case protoreflect.Uint32Kind, protoreflect.Fixed32Kind:
		return protoreflect.ValueOfUint32(uint32(boundaryInt64(c)))
	case protoreflect.Uint64Kind, protoreflect.Fixed64Kind:
		return protoreflect.ValueOfUint64(uint64(boundaryInt64(c)))
	case protoreflect.FloatKind:
		return protoreflect.ValueOfFloat32(float32(randFloat64(c)))
	case protoreflect.DoubleKind:
		return protoreflect.ValueOfFloat64(randFloat64(c))
	case protoreflect.StringKind:
		return protoreflect.ValueOfString(randUTF8(c, 8))
	case protoreflect.BytesKind:
		return protoreflect.ValueOfBytes(randBytes(c, 12))
	case protoreflect.EnumKind:
		vals := fd.Enum().Values()
		if c.Rand.Intn(5) == 0 {
			return protoreflect.ValueOfEnum(protoreflect.EnumNumber(int32(boundaryInt64(c)))) // possibly unknown number
		}
		return protoreflect.ValueOfEnum(vals.Get(c.Rand.Intn(vals.Len())).Number())
	}
	panic("randScalar: " + fd.Kind().String())
}

// randMessage populates m with random content (boundary scalars, strings with characters that need
// escaping, nested messages, lists, maps).
func randMessage(c *C, m protoreflect.Message, depth int, density int) {
	fds := m.Descriptor().Fields()
	for i := 0; i < fds.Len(); i++ {
		fd := fds.Get(i)
		if c.Rand.Intn(100) >= density {
			continue
		}
		if fd.IsWeak() {
			continue
		}
		isMsg := fd.Kind() == protoreflect.MessageKind || fd.Kind() == protoreflect.GroupKind
		switch {
		case fd.IsList():
			l := m.Mutable(fd).List()
			n := c.Rand.Intn(4)
			for j := 0; j < n; j++ {
				if isMsg {
					if depth <= 0 {
						break
					}
					e := l.NewElement()
					randMessage(c, e.Message(), depth-1, density/2)
					l.Append(e)
				} else {
					l.Append(randScalar(c, fd, true))
				}
			}
		case fd.IsMap():
			mp := m.Mutable(fd).Map()
			n := c.Rand.Intn(4)
			for j := 0; j < n; j++ {
				k := randScalar(c, fd.MapKey(), true).MapKey()
				vd := fd.MapValue()
				if vd.Kind() == protoreflect.MessageKind {
					if depth <= 0 {
						break
					}
					v := mp.NewValue()
					randMessage(c, v.Message(), depth-1, density/2)
					mp.Set(k, v)
				} else {
					mp.Set(k, randScalar(c, vd, true))
				}
			}
		case isMsg:
			if depth <= 0 {
				continue
			}
			if od := fd.ContainingOneof(); od != nil && m.WhichOneof(od) != nil {
				continue
			}
			randMessage(c, m.Mutable(fd).Message(), depth-1, density/2)
		default:
			if od := fd.ContainingOneof(); od != nil && m.WhichOneof(od) != nil {
				continue
			}
			m.Set(fd, randScalar(c, fd, true))
		}
	}
}

func validUTF8(b []byte) bool { return utf8.Valid(b) }
