package main

import (
	"bytes"
	"encoding/base64"
	ejson "encoding/json"
	"fmt"
	"math"
	"math/big"
	"strconv"
	"strings"

	"google.golang.org/protobuf/encoding/protojson"
	"google.golang.org/protobuf/internal/encoding/json"
	test3pb "google.golang.org/protobuf/internal/testprotos/test3"
	vh "google.golang.org/protobuf/internal/zz_verif_vh"
	"google.golang.org/protobuf/proto"
	"google.golang.org/protobuf/reflect/protoreflect"
)

func runC22(c *C) {
	c.R.Rule = "literals: integers around 0, +-2^31, 2^32, +-2^63, 2^64 (offsets -2..2) and random values rendered in random notations (plain, trailing zeros folded into an exponent, decimal point shifted left/right with compensating exponent incl. leading-zero fractions, .0 suffixes, e/E, +/-/no exponent sign, zero-padded and huge exponents), non-integers, malformed literals; each through int32/int64/uint32/uint64/float/double (and sint/fixed/enum) fields of test3.TestAllTypes, unquoted and quoted with/without surrounding spaces; oracle math/big. bytes: random byte strings x 4 base64 alphabets/paddings; enums by name and number; 64-bit integers marshal as strings. Non-trivial = the implementation accepted the literal; distinct by (field, literal)."
	for _, raw := range c.ReplayInputs() {
		var i In
		if ejson.Unmarshal(raw, &i) != nil {
			continue
		}
		if i.Kind == "literal" {
			checkLiteralAllKinds(c, string(vh.UnHex(i.Hex)))
		}
	}
	// findings and the forms the property statement names go first
	for _, s := range []string{"1e", "1E", "-0e", "1e+", "0.000001e21", "0.0000000001e21", "0.00001e25", "1e2", "100.0", "1.0e+2", "0.1e1", "12345e-2", "1.5", "-0", "-0.0", "0e99999999999", "1e-0",
		"2147483647", "2147483648", "-2147483648", "-2147483649", "4294967295", "4294967296", "9223372036854775807", "9223372036854775808", "-9223372036854775808", "-9223372036854775809",
		"18446744073709551615", "18446744073709551616", "1e19", "1.8446744073709551615e19", "184467440737095516150e-1", "0.18446744073709551615e20", "100000000000000000000", "1e20", "1e21", "10e-1", "10e-2"} {
		checkLiteralAllKinds(c, s)
	}
	n := c.N(25000, 600000)
	for i := 0; i < n && !c.Failed(); i++ {
		lit := randLiteral(c)
		checkLiteralAllKinds(c, lit)
		if i < 6 {
			c.Sample(map[string]string{"literal": lit})
		}
	}
	if c.Failed() {
		return
	}
	checkStrconvModels(c)
	checkInt64AsStrings(c)
	checkBytes(c)
	checkEnums(c)
}

// ---------- oracle ----------

// decimal value of a literal: sign * mant * 10^scale with mant having no trailing zero (or 0)
type decVal struct {
	neg   bool
	mant  *big.Int
	scale int64 // valid only if !huge
	huge  int   // +1: scale astronomically positive, -1: astronomically negative
}

// parseRFCNumber parses s as an RFC 8259 number, independently of the code under test.
func parseRFCNumber(s string) (decVal, bool) {
	var v decVal
	i := 0
	if i < len(s) && s[i] == '-' {
		v.neg = true
		i++
	}
	st := i
	if i < len(s) && s[i] == '0' {
		i++
	} else if i < len(s) && s[i] >= '1' && s[i] <= '9' {
		for i < len(s) && s[i] >= '0' && s[i] <= '9' {
			i++
		}
	} else {
		return v, false
	}
	digs := s[st:i]
	fracLen := 0
	if i < len(s) && s[i] == '.' {
		i++
		fs := i
		for i < len(s) && s[i] >= '0' && s[i] <= '9' {
			i++
		}
		if i == fs {
			return v, false
		}
		digs += s[fs:i]
		fracLen = i - fs
	}
	exp := new(big.Int)
	if i < len(s) && (s[i] == 'e' || s[i] == 'E') {
		i++
		eneg := false
		if i < len(s) && (s[i] == '+' || s[i] == '-') {
			eneg = s[i] == '-'
			i++
		}
		es := i
		for i < len(s) && s[i] >= '0' && s[i] <= '9' {
			i++
		}
		if i == es {
			return v, false
		}
		exp.SetString(s[es:i], 10)
		if eneg {
			exp.Neg(exp)
		}
	}
	if i != len(s) {
		return v, false
	}
	v.mant, _ = new(big.Int).SetString(digs, 10)
	if v.mant.Sign() == 0 {
		return v, true
	}
	exp.Sub(exp, big.NewInt(int64(fracLen)))
	ten := big.NewInt(10)
	q, r := new(big.Int), new(big.Int)
	for {
		q.QuoRem(v.mant, ten, r)
		if r.Sign() != 0 {
			break
		}
		v.mant.Set(q)
		exp.Add(exp, big.NewInt(1))
	}
	if !exp.IsInt64() || exp.Int64() > 100000 || exp.Int64() < -100000 {
		v.huge = exp.Sign()
		return v, true
	}
	v.scale = exp.Int64()
	return v, true
}

// intValue returns the integer the literal denotes, if it denotes one of magnitude < 10^40.
func (v decVal) intValue() (*big.Int, bool) {
	if v.mant.Sign() == 0 {
		return new(big.Int), true
	}
	if v.huge != 0 || v.scale < 0 || v.scale > 40 {
		return nil, false
	}
	x := new(big.Int).Exp(big.NewInt(10), big.NewInt(v.scale), nil)
	x.Mul(x, v.mant)
	if v.neg {
		x.Neg(x)
	}
	return x, true
}

// isInteger: the literal denotes an integer (of any size)
func (v decVal) isInteger() bool { return v.mant.Sign() == 0 || v.huge > 0 || (v.huge == 0 && v.scale >= 0) }

// float returns the correctly rounded float (bits = 32 or 64) and whether it is finite.
func (v decVal) float(bits int) (float64, bool) {
	sign := 1.0
	if v.neg {
		sign = -1
	}
	if v.mant.Sign() == 0 {
		return math.Copysign(0, sign), true
	}
	mag := int64(len(v.mant.String())) + v.scale
	if v.huge > 0 || (v.huge == 0 && mag > 400) {
		return math.Inf(int(sign)), false
	}
	if v.huge < 0 || mag < -400 {
		return math.Copysign(0, sign), true
	}
	r := new(big.Rat).SetInt(v.mant)
	p := new(big.Int).Exp(big.NewInt(10), big.NewInt(abs64(v.scale)), nil)
	if v.scale >= 0 {
		r.Mul(r, new(big.Rat).SetInt(p))
	} else {
		r.Quo(r, new(big.Rat).SetInt(p))
	}
	if v.neg {
		r.Neg(r)
	}
	if bits == 32 {
		f, _ := r.Float32()
		return float64(f), !math.IsInf(float64(f), 0)
	}
	f, _ := r.Float64()
	return f, !math.IsInf(f, 0)
}

func abs64(x int64) int64 {
	if x < 0 {
		return -x
	}
	return x
}

type intKind struct {
	name   string // class
	bits   int
	signed bool
	fields []string // JSON names of test3.TestAllTypes fields of this class
	min    *big.Int
	max    *big.Int
}

func pow2(k uint) *big.Int { return new(big.Int).Lsh(big.NewInt(1), k) }

var intKinds = []intKind{
	{"int32", 32, true, []string{"optionalInt32", "optionalSint32", "optionalSfixed32", "singularInt32"}, new(big.Int).Neg(pow2(31)), new(big.Int).Sub(pow2(31), big.NewInt(1))},
	{"int64", 64, true, []string{"optionalInt64", "optionalSint64", "optionalSfixed64", "singularInt64"}, new(big.Int).Neg(pow2(63)), new(big.Int).Sub(pow2(63), big.NewInt(1))},
	{"uint32", 32, false, []string{"optionalUint32", "optionalFixed32", "singularUint32"}, big.NewInt(0), new(big.Int).Sub(pow2(32), big.NewInt(1))},
	{"uint64", 64, false, []string{"optionalUint64", "optionalFixed64", "singularUint64"}, big.NewInt(0), new(big.Int).Sub(pow2(64), big.NewInt(1))},
}

// expected result of an integer field for the JSON value text `text` (a number literal or a quoted one)
func expectInt(k intKind, content string) string {
	v, ok := parseRFCNumber(content)
	if !ok {
		return "none"
	}
	x, ok := v.intValue()
	if !ok || x.Cmp(k.min) < 0 || x.Cmp(k.max) > 0 {
		return "none"
	}
	return x.String()
}

// ---------- implementation voice ----------

func fieldByJSONName(m proto.Message, name string) protoreflect.FieldDescriptor {
	return m.ProtoReflect().Descriptor().Fields().ByJSONName(name)
}

// implField unmarshals {"<field>": <text>} and returns the field value rendered in decimal, or "none".
func implField(field, text string) (res string, doc []byte) {
	doc = []byte(`{"` + field + `":` + text + `}`)
	m := &test3pb.TestAllTypes{}
	if err := protojson.Unmarshal(doc, m); err != nil {
		return "none", doc
	}
	fd := fieldByJSONName(m, field)
	if fd == nil || !m.ProtoReflect().Has(fd) && fd.HasPresence() {
		return "unset", doc
	}
	v := m.ProtoReflect().Get(fd)
	switch fd.Kind() {
	case protoreflect.FloatKind:
		return fmt.Sprintf("f%08x", math.Float32bits(float32(v.Float()))), doc
	case protoreflect.DoubleKind:
		return fmt.Sprintf("d%016x", math.Float64bits(v.Float())), doc
	case protoreflect.EnumKind:
		return fmt.Sprint(int32(v.Enum())), doc
	case protoreflect.Uint32Kind, protoreflect.Uint64Kind, protoreflect.Fixed32Kind, protoreflect.Fixed64Kind:
		return fmt.Sprint(v.Uint()), doc
	default:
		return fmt.Sprint(v.Int()), doc
	}
}

// implToken: Token.Int / Token.Uint on the token the decoder makes of an unquoted literal.
func implToken(k intKind, lit string) string {
	d := json.NewDecoder([]byte(lit + "}"))
	tok, err := d.Read()
	if err != nil || tok.Kind() != json.Number || tok.RawString() != lit {
		return "none"
	}
	if k.signed {
		if n, ok := tok.Int(k.bits); ok {
			return fmt.Sprint(n)
		}
		return "none"
	}
	if n, ok := tok.Uint(k.bits); ok {
		return fmt.Sprint(n)
	}
	return "none"
}

// ---------- one literal through every kind ----------

func jsonUnquote(text string) (string, bool) {
	var s string
	if err := ejson.Unmarshal([]byte(text), &s); err != nil {
		return "", false
	}
	return s, true
}

func checkIntField(c *C, k intKind, text string, quoted bool) {
	field := k.fields[c.Rand.Intn(len(k.fields))]
	input := in("literal", []byte(text), k.name+":"+field)
	defer c.Recover("protojson.Unmarshal(int field)", input, "")
	content := text
	if quoted {
		var ok bool
		if content, ok = jsonUnquote(text); !ok {
			return
		}
	}
	want := expectInt(k, content)
	got, _ := implField(field, text)
	if c.HasModel() {
		verb := "fieldint"
		if !k.signed {
			verb = "fielduint"
		}
		c.Compare(verb+" "+fmt.Sprint(k.bits), input, got, c.Ask("%s %d %s", verb, k.bits, vh.Hex([]byte(text))))
	}
	if !quoted {
		c.Check(implToken(k, text) == got, "Token.Int/Uint disagrees with the field result", input, "")
	}
	if got != want {
		c.Check(false, fmt.Sprintf("%s field: implementation %s, exact value says %s", k.name, got, want), input, "")
	}
	c.Hist("int:" + k.name + ":" + map[bool]string{true: "accept", false: "reject"}[got != "none"])
	c.Case(field+"="+text, got != "none")
}

func checkFloatField(c *C, bits int, text string, quoted bool) {
	field := map[int][]string{32: {"optionalFloat", "singularFloat"}, 64: {"optionalDouble", "singularDouble"}}[bits][c.Rand.Intn(2)]
	input := in("literal", []byte(text), fmt.Sprintf("float%d:%s", bits, field))
	defer c.Recover("protojson.Unmarshal(float field)", input, "")
	content := text
	if quoted {
		var ok bool
		if content, ok = jsonUnquote(text); !ok {
			return
		}
	}
	want := "none"
	switch {
	case quoted && content == "NaN":
		want = "nan"
	case quoted && content == "Infinity":
		want = "+inf"
	case quoted && content == "-Infinity":
		want = "-inf"
	default:
		if v, ok := parseRFCNumber(content); ok {
			if f, finite := v.float(bits); finite {
				if bits == 32 {
					want = fmt.Sprintf("f%08x", math.Float32bits(float32(f)))
				} else {
					want = fmt.Sprintf("d%016x", math.Float64bits(f))
				}
			}
		}
	}
	got, _ := implField(field, text)
	if strings.HasPrefix(got, "f") || strings.HasPrefix(got, "d") {
		var f float64
		if bits == 32 {
			var u uint32
			fmt.Sscanf(got[1:], "%x", &u)
			f = float64(math.Float32frombits(u))
		} else {
			var u uint64
			fmt.Sscanf(got[1:], "%x", &u)
			f = math.Float64frombits(u)
		}
		switch {
		case math.IsNaN(f):
			got = "nan"
		case math.IsInf(f, 1):
			got = "+inf"
		case math.IsInf(f, -1):
			got = "-inf"
		}
	}
	if got != want {
		c.Check(false, fmt.Sprintf("float%d field: implementation %s, correctly rounded value %s", bits, got, want), input, "")
	}
	c.Hist(fmt.Sprintf("float%d:%s", bits, map[bool]string{true: "accept", false: "reject"}[got != "none"]))
	c.Case(field+"="+text, got != "none")
}

func checkLiteralAllKinds(c *C, lit string) {
	texts := []struct {
		text   string
		quoted bool
	}{{lit, false}, {`"` + lit + `"`, true}}
	switch c.Rand.Intn(6) {
	case 0:
		texts = append(texts, struct {
			text   string
			quoted bool
		}{`" ` + lit + `"`, true})
	case 1:
		texts = append(texts, struct {
			text   string
			quoted bool
		}{`"` + lit + ` "`, true})
	case 2:
		sp := []string{`\t`, `\n`, `\u00a0`, `\u2003`, `\u0085`, `\u3000`, `\r`, `\f`, `\u000b`, `\u2028`}[c.Rand.Intn(10)]
		if c.Rand.Intn(2) == 0 {
			texts = append(texts, struct {
				text   string
				quoted bool
			}{`"` + sp + lit + `"`, true})
		} else {
			texts = append(texts, struct {
				text   string
				quoted bool
			}{`"` + lit + sp + `"`, true})
		}
	case 3: // content that is not a single number token
		extra := []string{`,`, ` 1`, `]`, `\u0000`, `x`, `}`, `:`, `e`, `\"`, `+`}[c.Rand.Intn(10)]
		texts = append(texts, struct {
			text   string
			quoted bool
		}{`"` + lit + extra + `"`, true})
	}
	for _, t := range texts {
		if strings.ContainsAny(t.text, "\x00\n") && !t.quoted {
			continue
		}
		for _, k := range intKinds {
			checkIntField(c, k, t.text, t.quoted)
		}
		checkFloatField(c, 32, t.text, t.quoted)
		checkFloatField(c, 64, t.text, t.quoted)
	}
	// enum by number goes through Token.Int(32)
	{
		got, _ := implField("optionalNestedEnum", lit)
		want := expectInt(intKinds[0], lit)
		if got != want {
			c.Check(false, fmt.Sprintf("enum field by number: implementation %s, exact value says %s", got, want), in("literal", []byte(lit), "enum"), "")
		}
	}
}

// ---------- literal generator ----------

var limitValues = func() []*big.Int {
	var out []*big.Int
	base := []*big.Int{big.NewInt(0), pow2(31), new(big.Int).Neg(pow2(31)), pow2(32), pow2(63), new(big.Int).Neg(pow2(63)), pow2(64), new(big.Int).Neg(pow2(64)), new(big.Int).Neg(pow2(32)),
		big.NewInt(1000000), big.NewInt(10), new(big.Int).Exp(big.NewInt(10), big.NewInt(15), nil), new(big.Int).Exp(big.NewInt(10), big.NewInt(18), nil), new(big.Int).Exp(big.NewInt(10), big.NewInt(19), nil), new(big.Int).Exp(big.NewInt(10), big.NewInt(20), nil), pow2(53)}
	for _, b := range base {
		for d := int64(-2); d <= 2; d++ {
			out = append(out, new(big.Int).Add(b, big.NewInt(d)))
		}
	}
	return out
}()

func randTarget(c *C) *big.Int {
	switch c.Rand.Intn(5) {
	case 0, 1:
		return limitValues[c.Rand.Intn(len(limitValues))]
	case 2:
		return big.NewInt(boundaryInt64(c))
	case 3:
		x := new(big.Int).SetUint64(c.Rand.Uint64())
		x.Mul(x, big.NewInt(int64(1+c.Rand.Intn(20))))
		if c.Rand.Intn(2) == 0 {
			x.Neg(x)
		}
		return x
	default:
		return big.NewInt(int64(c.Rand.Intn(2000) - 1000))
	}
}

func randExpSpelling(c *C, e int) string {
	mark := "eE"[c.Rand.Intn(2) : c.Rand.Intn(2)+1]
	if len(mark) == 0 {
		mark = "e"
	}
	sign := ""
	if e < 0 {
		sign = "-"
		e = -e
	} else if c.Rand.Intn(2) == 0 {
		sign = "+"
	}
	ds := strconv.Itoa(e)
	if c.Rand.Intn(5) == 0 {
		ds = strings.Repeat("0", 1+c.Rand.Intn(3)) + ds
	}
	if e == 0 && c.Rand.Intn(2) == 0 && sign == "" {
		sign = "-"
	}
	return mark + sign + ds
}

// render writes the integer x in a random notation that denotes exactly x
func renderInt(c *C, x *big.Int) string {
	neg := x.Sign() < 0
	d := new(big.Int).Abs(x).String()
	sign := ""
	if neg || (x.Sign() == 0 && c.Rand.Intn(4) == 0) {
		sign = "-"
	}
	switch c.Rand.Intn(8) {
	case 0: // plain
		return sign + d
	case 1: // .0 suffix
		return sign + d + "." + strings.Repeat("0", 1+c.Rand.Intn(3))
	case 2: // fold trailing zeros into an exponent
		t := len(d) - len(strings.TrimRight(d, "0"))
		if d == "0" {
			t = 0
		}
		if t > 0 {
			t = 1 + c.Rand.Intn(t)
		}
		return sign + d[:len(d)-t] + randExpSpelling(c, t)
	case 3, 4: // shift the point left by j, compensate with e+j
		j := 1 + c.Rand.Intn(len(d)+6)
		if c.Rand.Intn(6) == 0 {
			j = len(d) + c.Rand.Intn(24)
		}
		var m string
		if j < len(d) {
			m = d[:len(d)-j] + "." + d[len(d)-j:]
		} else {
			m = "0." + strings.Repeat("0", j-len(d)) + d
		}
		if c.Rand.Intn(3) == 0 {
			m += strings.Repeat("0", 1+c.Rand.Intn(2)) // trailing zeros in the fraction
		}
		return sign + m + randExpSpelling(c, j)
	case 5: // append zeros, compensate with e-j
		j := 1 + c.Rand.Intn(5)
		if d == "0" {
			return sign + "0" + randExpSpelling(c, -j)
		}
		return sign + d + strings.Repeat("0", j) + randExpSpelling(c, -j)
	case 6: // both: point inside and a larger positive exponent would change the value, so keep exact:
		// d = a.b with exponent len(b)
		if len(d) > 1 {
			j := 1 + c.Rand.Intn(len(d)-1)
			return sign + d[:j] + "." + d[j:] + randExpSpelling(c, len(d)-j)
		}
		return sign + d + randExpSpelling(c, 0)
	default: // x.0e0, x.00e+0
		return sign + d + ".0" + randExpSpelling(c, 0)
	}
}

// randRoundingBoundary: a literal at, just below or just above the midpoint between two adjacent float32 (or
// float64) values, incl. the overflow threshold MaxFloat + half an ulp and the smallest subnormal's half — the only
// places where "correctly rounded" differs from "rounded twice" or "rounded the other way". Many significant digits.
func randRoundingBoundary(c *C) string {
	var lo, hi float64
	if c.Rand.Intn(3) != 0 {
		f := math.Float32frombits(uint32(c.Rand.Int63n(0x7f800000)))
		switch c.Rand.Intn(8) {
		case 0:
			f = math.MaxFloat32
		case 1:
			f = float32(uint32(1) << uint(c.Rand.Intn(31)))
		case 2:
			f = math.Float32frombits(uint32(c.Rand.Intn(4))) // 0 and the smallest subnormals
		case 3:
			f = float32(1<<24) + float32(2*c.Rand.Intn(64))
		}
		lo, hi = float64(f), float64(math.Nextafter32(f, float32(math.Inf(1))))
		if math.IsInf(hi, 1) {
			hi = 0x1p128
		}
	} else {
		f := math.Float64frombits(uint64(c.Rand.Int63n(0x7ff0000000000000)))
		switch c.Rand.Intn(6) {
		case 0:
			f = math.MaxFloat64
		case 1:
			f = float64(uint64(1) << uint(c.Rand.Intn(63)))
		case 2:
			f = math.Float64frombits(uint64(c.Rand.Intn(4)))
		}
		lo, hi = f, math.Nextafter(f, math.Inf(1))
	}
	mid := new(big.Float).SetPrec(2400).SetFloat64(lo)
	if math.IsInf(hi, 1) { // MaxFloat64: the threshold is 2^1024 - 2^970
		h := new(big.Float).SetPrec(2400).SetMantExp(big.NewFloat(1), 1024)
		mid.Add(mid, h)
	} else {
		mid.Add(mid, new(big.Float).SetPrec(2400).SetFloat64(hi))
	}
	mid.Quo(mid, big.NewFloat(2))
	if k := c.Rand.Intn(3); k != 0 && mid.Sign() != 0 { // nudge by a relative 2^-j, far below the ulp
		d := new(big.Float).SetPrec(2400).SetMantExp(mid, -(26 + c.Rand.Intn(200)))
		if k == 1 {
			mid.Add(mid, d)
		} else {
			mid.Sub(mid, d)
		}
	}
	digits := []int{17, 20, 25, 40, 80, 160, 400}[c.Rand.Intn(7)]
	var s string
	if e := mid.MantExp(nil); e > -60 && e < 130 && c.Rand.Intn(2) == 0 {
		s = mid.Text('f', digits)
	} else {
		s = strings.Replace(mid.Text('e', digits), "e+", []string{"e", "E+", "e+"}[c.Rand.Intn(3)], 1)
	}
	if c.Rand.Intn(4) == 0 {
		s = "-" + s
	}
	return s
}

func randLiteral(c *C) string {
	switch c.Rand.Intn(12) {
	case 10, 11:
		return randRoundingBoundary(c)
	case 0, 1, 2, 3, 4, 5:
		return renderInt(c, randTarget(c))
	case 6: // non-integers near integers
		s := renderInt(c, randTarget(c))
		switch c.Rand.Intn(4) {
		case 0:
			if !strings.ContainsAny(s, ".eE") {
				return s + "." + digits(c, c.Rand.Intn(3)) + string(byte('1'+c.Rand.Intn(9)))
			}
			return s
		case 1:
			if i := strings.IndexAny(s, "eE"); i >= 0 {
				return s[:i] + randExpSpelling(c, c.Rand.Intn(60)-30)
			}
			return s + randExpSpelling(c, -1-c.Rand.Intn(25))
		case 2:
			return randNumberLiteral(c, false)
		default:
			return s + "e-" + strconv.Itoa(1+c.Rand.Intn(30))
		}
	case 7: // huge exponents
		m := []string{"0", "1", "-1", "0.0", "10", "0.000", "123", "-0"}[c.Rand.Intn(8)]
		e := []string{"400", "-400", "99999999999", "-99999999999", "2147483647", "2147483648", "-2147483648", "-2147483649", "4294967296", "18446744073709551616", "308", "309", "-323", "-324", "-325", "38", "39", "-45", "-46", "21", "20", "19"}[c.Rand.Intn(22)]
		sp := "e"
		if !strings.HasPrefix(e, "-") && c.Rand.Intn(2) == 0 {
			sp = "E+"
		}
		return m + sp + e
	case 8: // floats of interest
		f := randFloat64(c)
		if math.IsNaN(f) || math.IsInf(f, 0) {
			return "1e400"
		}
		if c.Rand.Intn(2) == 0 {
			return strconv.FormatFloat(f, 'e', -1, 64)
		}
		s := strconv.FormatFloat(f, 'g', 17+c.Rand.Intn(8), 64)
		return strings.Replace(s, "e+", "e", 1)
	default: // malformed
		return randNumberLiteral(c, true)
	}
}

// ---------- strconv models ----------

func checkStrconvModels(c *C) {
	if !c.HasModel() {
		return
	}
	for i := 0; i < c.N(6000, 100000) && !c.Failed(); i++ {
		var s string
		switch c.Rand.Intn(5) {
		case 0:
			s = limitValues[c.Rand.Intn(len(limitValues))].String()
		case 1:
			s = []string{"", "+", "-", "+0", "-0", "00", "007", "+5", "-5", "1_0", "0x1", " 1", "1 ", "\u0967", "1e2", "--1", "+-1"}[c.Rand.Intn(17)]
		case 2:
			s = strings.Repeat("0", c.Rand.Intn(4)) + limitValues[c.Rand.Intn(len(limitValues))].String()
			if s[0] != '-' && c.Rand.Intn(3) == 0 {
				s = "+" + s
			}
		case 3:
			s = digits(c, 1+c.Rand.Intn(25))
		default:
			s = randNumberLiteral(c, c.Rand.Intn(2) == 0)
		}
		for _, bits := range []int{32, 64} {
			want := "none"
			if n, err := strconv.ParseInt(s, 10, bits); err == nil {
				want = fmt.Sprint(n)
			}
			c.Compare("parseIntBits vs strconv.ParseInt", in("parseint", []byte(s), fmt.Sprint(bits)), want, c.Ask("parseint %d %s", bits, vh.Hex([]byte(s))))
			want = "none"
			if n, err := strconv.ParseUint(s, 10, bits); err == nil {
				want = fmt.Sprint(n)
			}
			c.Compare("parseUintBits vs strconv.ParseUint", in("parseuint", []byte(s), fmt.Sprint(bits)), want, c.Ask("parseuint %d %s", bits, vh.Hex([]byte(s))))
		}
		c.Case("strconv:"+s, true)
	}
}

// ---------- 64-bit integers are written as strings ----------

func checkInt64AsStrings(c *C) {
	for i := 0; i < c.N(800, 20000) && !c.Failed(); i++ {
		m := &test3pb.TestAllTypes{}
		randMessage(c, m.ProtoReflect(), 1, 40)
		out, err := protojson.MarshalOptions{UseProtoNames: false}.Marshal(m)
		input := In{Kind: "marshal64", Text: fmt.Sprintf("%q", out)}
		if err != nil {
			c.Check(false, "Marshal failed: "+err.Error(), input, "")
			continue
		}
		d := ejson.NewDecoder(bytes.NewReader(out))
		d.UseNumber()
		var top map[string]any
		if err := d.Decode(&top); err != nil {
			c.Check(false, "Marshal output does not decode: "+err.Error(), input, "")
			continue
		}
		fds := m.ProtoReflect().Descriptor().Fields()
		for name, val := range top {
			fd := fds.ByJSONName(name)
			if fd == nil {
				c.Check(false, "unknown JSON name in output: "+name, input, "")
				continue
			}
			checkJSONShape(c, fd, val, m.ProtoReflect().Get(fd), input)
		}
		c.Case("m64:"+string(out), len(top) > 0)
	}
}

func is64(k protoreflect.Kind) bool {
	switch k {
	case protoreflect.Int64Kind, protoreflect.Sint64Kind, protoreflect.Sfixed64Kind, protoreflect.Uint64Kind, protoreflect.Fixed64Kind:
		return true
	}
	return false
}

func is32(k protoreflect.Kind) bool {
	switch k {
	case protoreflect.Int32Kind, protoreflect.Sint32Kind, protoreflect.Sfixed32Kind, protoreflect.Uint32Kind, protoreflect.Fixed32Kind:
		return true
	}
	return false
}

func scalarDecimal(fd protoreflect.FieldDescriptor, v protoreflect.Value) string {
	switch fd.Kind() {
	case protoreflect.Uint32Kind, protoreflect.Uint64Kind, protoreflect.Fixed32Kind, protoreflect.Fixed64Kind:
		return fmt.Sprint(v.Uint())
	default:
		return fmt.Sprint(v.Int())
	}
}

func checkScalarShape(c *C, fd protoreflect.FieldDescriptor, jv any, pv protoreflect.Value, input In) {
	switch {
	case is64(fd.Kind()):
		s, ok := jv.(string)
		c.Check(ok && s == scalarDecimal(fd, pv), "64-bit integer "+string(fd.Name())+" is not written as its decimal string", input, "")
		c.Hist("shape:int64-as-string")
	case is32(fd.Kind()):
		n, ok := jv.(ejson.Number)
		c.Check(ok && n.String() == scalarDecimal(fd, pv), "32-bit integer "+string(fd.Name())+" is not written as its decimal number", input, "")
		c.Hist("shape:int32-as-number")
	case fd.Kind() == protoreflect.BytesKind:
		s, ok := jv.(string)
		c.Check(ok && s == base64.StdEncoding.EncodeToString(pv.Bytes()), "bytes "+string(fd.Name())+" are not written as padded standard base64", input, "")
		c.Hist("shape:bytes-std-base64")
	case fd.Kind() == protoreflect.EnumKind:
		if ev := fd.Enum().Values().ByNumber(pv.Enum()); ev != nil {
			s, ok := jv.(string)
			c.Check(ok && s == string(ev.Name()), "known enum value "+string(fd.Name())+" is not written by name", input, "")
			c.Hist("shape:enum-by-name")
		} else {
			n, ok := jv.(ejson.Number)
			c.Check(ok && n.String() == fmt.Sprint(int32(pv.Enum())), "unknown enum number "+string(fd.Name())+" is not written as a number", input, "")
			c.Hist("shape:enum-unknown-by-number")
		}
	}
}

func checkJSONShape(c *C, fd protoreflect.FieldDescriptor, jv any, pv protoreflect.Value, input In) {
	switch {
	case fd.IsList():
		arr, ok := jv.([]any)
		if !c.Check(ok && len(arr) == pv.List().Len(), "list shape", input, "") {
			return
		}
		for i, e := range arr {
			checkScalarShape(c, fd, e, pv.List().Get(i), input)
		}
	case fd.IsMap():
		obj, ok := jv.(map[string]any)
		if !c.Check(ok && len(obj) == pv.Map().Len(), "map shape", input, "") {
			return
		}
		pv.Map().Range(func(k protoreflect.MapKey, v protoreflect.Value) bool {
			ks := k.String()
			e, ok := obj[ks]
			if !ok {
				c.Check(false, "map key "+ks+" missing in output", input, "")
				return true
			}
			checkScalarShape(c, fd.MapValue(), e, v, input)
			return true
		})
	default:
		checkScalarShape(c, fd, jv, pv, input)
	}
}

// ---------- bytes ----------

func checkBytes(c *C) {
	encs := []struct {
		name string
		e    *base64.Encoding
	}{{"std", base64.StdEncoding}, {"rawstd", base64.RawStdEncoding}, {"url", base64.URLEncoding}, {"rawurl", base64.RawURLEncoding}}
	for i := 0; i < c.N(4000, 100000) && !c.Failed(); i++ {
		var b []byte
		switch c.Rand.Intn(4) {
		case 0:
			b = randBytes(c, 4)
		case 1: // bytes that produce + / - _ in the alphabets
			b = bytes.Repeat([]byte{[]byte{0xfb, 0xff, 0xfe, 0x3e, 0x3f}[c.Rand.Intn(5)]}, 1+c.Rand.Intn(7))
		default:
			b = randBytes(c, 40)
		}
		m := &test3pb.TestAllTypes{OptionalBytes: b, SingularBytes: b}
		out, err := protojson.Marshal(m)
		input := in("bytes", b, "")
		if err != nil {
			c.Check(false, "Marshal failed", input, "")
			continue
		}
		var top map[string]any
		if ejson.Unmarshal(out, &top) != nil {
			c.Check(false, "Marshal output does not decode", input, "")
			continue
		}
		c.Check(top["optionalBytes"] == base64.StdEncoding.EncodeToString(b), "bytes are not marshalled as padded standard base64", input, "")
		for _, e := range encs {
			s := e.e.EncodeToString(b)
			m2 := &test3pb.TestAllTypes{}
			err := protojson.Unmarshal([]byte(`{"optionalBytes":"`+s+`"}`), m2)
			input := in("bytes", b, e.name+":"+s)
			c.Check(err == nil && bytes.Equal(m2.OptionalBytes, b), "base64 "+e.name+" form not accepted or decoded differently", input, "")
			c.Hist("bytes:" + e.name)
		}
		// malformed: characters outside both alphabets, bad padding
		if len(b) > 0 {
			s := base64.StdEncoding.EncodeToString(b)
			for _, bad := range []string{s + "=", "=" + s, s[:len(s)-1] + "!", s + "A=", "*" + s} {
				m2 := &test3pb.TestAllTypes{}
				err := protojson.Unmarshal([]byte(`{"optionalBytes":"`+bad+`"}`), m2)
				_, e1 := base64.StdEncoding.DecodeString(bad)
				_, e2 := base64.RawStdEncoding.DecodeString(bad)
				_, e3 := base64.URLEncoding.DecodeString(bad)
				_, e4 := base64.RawURLEncoding.DecodeString(bad)
				if e1 != nil && e2 != nil && e3 != nil && e4 != nil {
					c.Check(err != nil, "malformed base64 accepted", in("bytes", b, "bad:"+bad), "")
				}
			}
		}
		c.Case("bytes:"+string(b), len(b) > 0)
	}
}

// ---------- enums ----------

func checkEnums(c *C) {
	ed := (&test3pb.TestAllTypes{}).ProtoReflect().Descriptor().Fields().ByJSONName("optionalNestedEnum").Enum()
	for i := 0; i < ed.Values().Len(); i++ {
		ev := ed.Values().Get(i)
		// by name
		got, _ := implField("optionalNestedEnum", `"`+string(ev.Name())+`"`)
		c.Check(got == fmt.Sprint(int32(ev.Number())), "enum by name", in("enum", []byte(ev.Name()), ""), "")
		// by number
		got, _ = implField("optionalNestedEnum", fmt.Sprint(int32(ev.Number())))
		c.Check(got == fmt.Sprint(int32(ev.Number())), "enum by number", in("enum", []byte(fmt.Sprint(ev.Number())), ""), "")
		// output: by name, or by number with UseEnumNumbers
		m := &test3pb.TestAllTypes{OptionalNestedEnum: test3pb.TestAllTypes_NestedEnum(ev.Number()).Enum()}
		out, _ := protojson.Marshal(m)
		var top map[string]any
		ejson.Unmarshal(out, &top)
		c.Check(top["optionalNestedEnum"] == string(ev.Name()), "enum written by name", in("enum", out, ""), "")
		out, _ = protojson.MarshalOptions{UseEnumNumbers: true}.Marshal(m)
		top = nil
		d := ejson.NewDecoder(bytes.NewReader(out))
		d.UseNumber()
		d.Decode(&top)
		n, ok := top["optionalNestedEnum"].(ejson.Number)
		c.Check(ok && n.String() == fmt.Sprint(int32(ev.Number())), "enum written by number with UseEnumNumbers", in("enum", out, ""), "")
		c.Case("enum:"+string(ev.Name()), true)
	}
	for _, bad := range []string{`"foo"`, `"FOO "`, `" FOO"`, `"foo"`, `"0"`, `"1"`, `true`, `[]`, `{}`, `1.5`, `2147483648`, `-2147483649`, `"NestedEnum"`} {
		got, _ := implField("optionalNestedEnum", bad)
		c.Check(got == "none", "invalid enum value accepted", in("enum", []byte(bad), ""), "")
		// with DiscardUnknown an unknown *name* is skipped, nothing else
		m := &test3pb.TestAllTypes{}
		err := protojson.UnmarshalOptions{DiscardUnknown: true}.Unmarshal([]byte(`{"optionalNestedEnum":`+bad+`}`), m)
		isString := strings.HasPrefix(bad, `"`)
		c.Check((err == nil) == isString && m.OptionalNestedEnum == nil, "DiscardUnknown enum handling", in("enum", []byte(bad), "discard"), "")
		c.Case("enum:"+bad, false)
	}
	// unknown numbers in range are kept
	for _, n := range []int64{5, -7, math.MaxInt32, math.MinInt32} {
		got, _ := implField("optionalNestedEnum", fmt.Sprint(n))
		c.Check(got == fmt.Sprint(n), "unknown enum number in int32 range", in("enum", []byte(fmt.Sprint(n)), ""), "")
	}
}
