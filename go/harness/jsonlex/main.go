// jsonlex harness: C21 (protojson speaks exactly JSON) and C22 (JSON scalar values decode exactly).
//
// Three voices: the implementation (internal/encoding/json Decoder/Encoder and protojson, driven
// in-process), the Lean model (pbmodel_jsonlex over the line protocol) and independent oracles
// (encoding/json.Valid / encoding/json decoding, math/big, encoding/base64, unicode/utf8, strings).
package main

import (
	"fmt"
	"strings"

	"google.golang.org/protobuf/internal/encoding/json"
	vh "google.golang.org/protobuf/internal/zz_verif_vh"
)

type C = vh.Ctx

func main() { vh.Main("jsonlex", run) }

func run(c *C) {
	switch c.Prop {
	case "C21":
		runC21(c)
	case "C22":
		runC22(c)
	default:
		panic("jsonlex harness: unknown property " + c.Prop)
	}
}

// In is the replayable form of every failing input of this harness.
type In struct {
	Kind string `json:"kind"`          // which sub-check produced it
	Hex  string `json:"hex"`           // the input bytes
	Text string `json:"text"`          // the same, for the reader (quoted Go string)
	Arg  string `json:"arg,omitempty"` // extra argument (field name, bit size, indent, op list)
}

func in(kind string, b []byte, arg string) In {
	return In{Kind: kind, Hex: vh.Hex(b), Text: fmt.Sprintf("%q", b), Arg: arg}
}

// ---------- implementation voice: token stream of json.Decoder ----------

func errKind(err error) string {
	if err == json.ErrUnexpectedEOF {
		return "eof"
	}
	return "syntax"
}

type tokInfo struct {
	kind json.Kind
	pos  int
	raw  string
}

// implTokens runs a fresh Decoder over b until EOF or the first error and renders the tokens in
// the format of the model's `tokens` verb. ok reports that EOF was reached without error.
func implTokens(b []byte) (canon string, ok bool, toks []tokInfo) {
	d := json.NewDecoder(b)
	var parts []string
	for {
		tok, err := d.Read()
		if err != nil {
			parts = append(parts, "!"+errKind(err))
			return strings.Join(parts, " "), false, toks
		}
		toks = append(toks, tokInfo{tok.Kind(), tok.Pos(), tok.RawString()})
		switch tok.Kind() {
		case json.EOF:
			parts = append(parts, "E")
			return strings.Join(parts, " "), true, toks[:len(toks)-1]
		case json.Null:
			parts = append(parts, "n")
		case json.Bool:
			if tok.Bool() {
				parts = append(parts, "t")
			} else {
				parts = append(parts, "f")
			}
		case json.Number:
			parts = append(parts, "#"+vh.Hex([]byte(tok.RawString())))
		case json.String:
			parts = append(parts, "s"+vh.Hex([]byte(tok.ParsedString())))
		case json.Name:
			parts = append(parts, "k"+vh.Hex([]byte(tok.Name())))
		case json.ObjectOpen:
			parts = append(parts, "{")
		case json.ObjectClose:
			parts = append(parts, "}")
		case json.ArrayOpen:
			parts = append(parts, "[")
		case json.ArrayClose:
			parts = append(parts, "]")
		default:
			parts = append(parts, "?")
		}
	}
}

// implParseNumber: parseNumber(b) as observable through Decoder.Read on an input that starts with
// '-' or a digit (parseNext hands exactly b to parseNumber; at top level the sequence check passes).
func implParseNumber(b []byte) string {
	d := json.NewDecoder(b)
	tok, err := d.Read()
	if err != nil || tok.Kind() != json.Number {
		return "none"
	}
	return fmt.Sprint(len(tok.RawString()))
}

// implParseString: Decoder.parseString(b) through Decoder.Read on an input starting with '"'.
func implParseString(b []byte) string {
	d := json.NewDecoder(b)
	tok, err := d.Read()
	if err != nil {
		return errKind(err)
	}
	if tok.Kind() != json.String {
		return "notstring"
	}
	return fmt.Sprintf("ok %s %d", vh.Hex([]byte(tok.ParsedString())), len(tok.RawString()))
}
