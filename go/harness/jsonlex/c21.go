package main

import (
	"bytes"
	ejson "encoding/json"
	"fmt"
	"math"
	"reflect"
	"strconv"
	"strings"
	"time"
	"unicode/utf8"

	"google.golang.org/protobuf/encoding/protojson"
	"google.golang.org/protobuf/internal/detrand"
	"google.golang.org/protobuf/internal/encoding/json"
	testpb "google.golang.org/protobuf/internal/testprotos/test"
	test3pb "google.golang.org/protobuf/internal/testprotos/test3"
	vh "google.golang.org/protobuf/internal/zz_verif_vh"
	"google.golang.org/protobuf/proto"
	"google.golang.org/protobuf/types/known/structpb"
	"google.golang.org/protobuf/types/known/wrapperspb"
)

var lapT = time.Now()

func lap(c *C, name string) {
	c.R.Notes = append(c.R.Notes, fmt.Sprintf("section %s: %.1fs", name, time.Since(lapT).Seconds()))
	lapT = time.Now()
}

func runC21(c *C) {
	c.R.Rule = "numbers: every string of length <= 6 (quick) / 7 (thorough) over the alphabet -+.eE0129 followed by each of , ] } space EOF and a letter, through json.Decoder and (embedded in documents) protojson.Unmarshal; strings: every 1- and 2-byte body, every \\uXXXX escape, surrogate-pair boundaries, random literals with planted defects; documents: random valid documents, 16 grammar-directed mutations, token soups; encoder: every 1- and 2-byte string, random strings, random call sequences (also ill-formed), floats; marshal: random test.TestAllTypes / test3.TestAllTypes under 5 indent settings. A case is non-trivial when the implementation accepts the input (or produced output); distinct by input bytes."
	for _, raw := range c.ReplayInputs() {
		var i In
		if ejson.Unmarshal(raw, &i) != nil {
			continue
		}
		replayC21(c, i)
	}
	checkCorpusC21(c)
	if c.Failed() {
		return
	}
	checkNumbersExhaustive(c)
	lap(c, "checkNumbersExhaustive")
	if c.Failed() {
		return
	}
	checkStrings(c)
	lap(c, "checkStrings")
	if c.Failed() {
		return
	}
	checkRunes(c)
	lap(c, "checkRunes")
	if c.Failed() {
		return
	}
	checkDocs(c)
	lap(c, "checkDocs")
	if c.Failed() {
		return
	}
	checkEncoder(c)
	lap(c, "checkEncoder")
	if c.Failed() {
		return
	}
	checkMarshal(c)
	lap(c, "checkMarshal")
}

func replayC21(c *C, i In) {
	b := vh.UnHex(i.Hex)
	switch i.Kind {
	case "number":
		checkNumberInputs(c, [][]byte{b}, true)
		checkNumberDocs(c, b)
	case "string":
		checkStringLiteral(c, b)
	case "doc":
		checkDoc(c, b, "replay")
	case "writestring":
		checkWriteString(c, b)
	case "decoderune":
		checkDecodeRune(c, b)
	case "trimspace":
		checkTrimSpace(c, b)
	default:
		// encoder / marshal failures are replayed from the seed (their input is a call sequence or a
		// message); the failing bytes are in the replay file.
	}
}

// the findings of DESIGN.md section 7 and a few hand-picked documents go first
func checkCorpusC21(c *C) {
	for _, s := range []string{`{"x":1e}`, `[1e,2e]`, `12E `, `-0E-]`, `1e+ `, `{"optionalInt32":1e}`, ``, ` `, "\n", `{}`, `[]`, `{"a":[1,2,{"b":null}],"c":"😀"}`,
		`[1,]`, `{"a":1,}`, `[,1]`, `{"a" 1}`, `{"a":}`, `{1:2}`, `[1 2]`, `01`, `-`, `+1`, `1.`, `.1`, `"\ud800"`, `"\udc00\ud800"`, "\"\x01\"", "\"\xff\"", `nulll`, `[null,true,false]`, `{"a":{"a":{"a":[]}}} x`, "\ufeff{}"} {
		checkDoc(c, []byte(s), "corpus")
	}
}

// ---------- numbers ----------

var numAlphabet = []byte("-+.eE0129")
var numDelims = []string{",", "]", "}", " ", "", "a"}

func isNumStart(b byte) bool { return b == '-' || (b >= '0' && b <= '9') }

// checkNumberInputs: implementation vs model vs encoding/json on inputs that start a number.
func checkNumberInputs(c *C, ins [][]byte, askModel bool) {
	var model []string
	if askModel && c.HasModel() {
		var sb strings.Builder
		sb.WriteString("parsenumbers")
		for _, b := range ins {
			sb.WriteByte(' ')
			sb.WriteString(vh.Hex(b))
		}
		model = strings.Fields(c.Ask("%s", sb.String()))
		if len(model) != len(ins) {
			c.Compare("parsenumbers arity", in("number", ins[0], ""), fmt.Sprint(len(ins)), strings.Join(model, " "))
			model = nil
		}
	}
	for k, b := range ins {
		func() {
			defer c.Recover("json.Decoder.Read", in("number", b, ""), "")
			res := implParseNumber(b)
			if model != nil {
				c.Compare("parseNumber", in("number", b, ""), res, model[k])
			}
			if res != "none" {
				n, _ := strconv.Atoi(res)
				pre := b[:n]
				if !ejson.Valid(pre) {
					c.Check(false, "parseNumber accepted a prefix that is not a JSON number", in("number", b, ""), "")
				}
				c.Hist("number:accepted")
			} else {
				c.Hist("number:rejected")
			}
			c.Case("num:"+string(b), res != "none")
		}()
	}
}

// checkNumberDocs embeds the literal s into documents and feeds them to protojson.Unmarshal.
func checkNumberDocs(c *C, s []byte) {
	lit := string(s)
	type dcase struct {
		doc string
		msg func() proto.Message
	}
	t3 := func() proto.Message { return &test3pb.TestAllTypes{} }
	cases := []dcase{
		{`{"x":` + lit + `}`, t3},
		{`{"x":[` + lit + `,` + lit + `]}`, t3},
		{`{"optionalInt32":` + lit + `}`, t3},
		{`{"optionalUint64": ` + lit + ` }`, t3},
		{`{"optionalDouble":` + lit + `}`, t3},
		{`{"repeatedFloat":[` + lit + `]}`, t3},
		{`{"optionalNestedEnum":` + lit + `}`, t3},
		{lit, func() proto.Message { return &structpb.Value{} }},
		{`[` + lit + `]`, func() proto.Message { return &structpb.ListValue{} }},
		{lit, func() proto.Message { return &wrapperspb.Int64Value{} }},
	}
	for _, dc := range cases {
		doc := []byte(dc.doc)
		func() {
			defer c.Recover("protojson.Unmarshal", in("doc", doc, ""), "")
			err := protojson.UnmarshalOptions{DiscardUnknown: true}.Unmarshal(doc, dc.msg())
			if err == nil {
				c.Hist("numberdoc:accepted")
				if !ejson.Valid(doc) {
					c.Check(false, "protojson.Unmarshal accepted a document that is not valid JSON", in("doc", doc, ""), "")
				}
			} else {
				c.Hist("numberdoc:rejected")
			}
			c.Case("numdoc:"+dc.doc, err == nil)
		}()
	}
}

func checkNumbersExhaustive(c *C) {
	maxLen := c.N(6, 7)
	buf := make([]byte, 0, maxLen+1)
	var rec func(depth int)
	count := 0
	rec = func(depth int) {
		if c.Failed() {
			return
		}
		if depth > 0 {
			s := buf[:depth]
			count++
			valid := ejson.Valid(s)
			ins := make([][]byte, len(numDelims))
			res := make([]string, len(numDelims))
			for i, d := range numDelims {
				ins[i] = append(append([]byte(nil), s...), d...)
				func() {
					defer c.Recover("json.Decoder.Read", in("number", ins[i], ""), "")
					res[i] = implParseNumber(ins[i])
				}()
			}
			whole := fmt.Sprint(len(s))
			if isNumStart(s[0]) {
				if c.HasModel() {
					// one round trip: parseNumber before each follower, and the grammar's own voice
					// (RFC.Number decided through parseNumber, theorem C21.number_iff, and Ref.isNumber)
					m := strings.Fields(c.Ask("numall %s", vh.Hex(s)))
					if len(m) != len(numDelims)+1 {
						c.Compare("numall arity", in("number", s, ""), fmt.Sprint(len(numDelims)+1), strings.Join(m, " "))
					} else {
						for i := range numDelims {
							c.Compare("parseNumber", in("number", ins[i], ""), res[i], m[i])
						}
						want := "00"
						if valid {
							want = "11"
						}
						c.Compare("RFC number grammar vs encoding/json.Valid", in("number", s, "numspec"), want, m[len(numDelims)])
					}
				}
				for i := range numDelims {
					if res[i] != "none" {
						n, _ := strconv.Atoi(res[i])
						pre := ins[i][:n]
						if !ejson.Valid(pre) {
							c.Check(false, "parseNumber accepted a prefix that is not a JSON number", in("number", ins[i], ""), "")
						}
						c.Hist("number:accepted")
					} else {
						c.Hist("number:rejected")
					}
					c.Case("num:"+string(ins[i]), res[i] != "none")
				}
			} else {
				// parseNext never hands these to parseNumber; the decoder must reject them
				for i := range numDelims {
					if res[i] != "none" {
						c.Check(false, "decoder produced a Number token for input not starting with '-' or a digit", in("number", ins[i], ""), "")
					}
					c.Case("num:"+string(ins[i]), false)
				}
			}
			// completeness: an RFC number followed by a delimiter is accepted whole
			if valid {
				for i, d := range numDelims {
					if d == "a" {
						c.Check(res[i] == "none", "number followed by a letter must be rejected", in("number", ins[i], ""), "")
					} else {
						c.Check(res[i] == whole, "valid JSON number not accepted whole", in("number", ins[i], ""), "")
					}
				}
			}
			// documents: always in the thorough tier; in the quick tier for every literal that is valid
			// or that the decoder accepts before some delimiter, and for a sample of the others
			doDocs := c.Thorough() || valid || count%16 == 0 || res[0] == whole || res[1] == whole || res[2] == whole || res[3] == whole
			if doDocs {
				checkNumberDocs(c, s)
			}
		}
		if depth == maxLen {
			return
		}
		for _, a := range numAlphabet {
			buf = append(buf[:depth], a)
			rec(depth + 1)
		}
	}
	rec(0)
	if !c.Failed() {
		c.R.Exhaustive = true
		c.R.Notes = append(c.R.Notes, fmt.Sprintf("number alphabet: %d strings x %d delimiter classes enumerated", count, len(numDelims)))
	}
}

// ---------- strings ----------

func checkStringLiteral(c *C, lit []byte) {
	defer c.Recover("json.Decoder.Read(string)", in("string", lit, ""), "")
	res := implParseString(lit)
	if c.HasModel() {
		m := c.Ask("parsestring %s", vh.Hex(lit))
		c.Compare("parseString", in("string", lit, ""), res, m)
	}
	ok := strings.HasPrefix(res, "ok ")
	if ok {
		f := strings.Fields(res)
		n, _ := strconv.Atoi(f[2])
		raw := lit[:n]
		parsed := vh.UnHex(f[1])
		if !ejson.Valid(raw) {
			c.Check(false, "parseString accepted a literal that is not a JSON string", in("string", lit, ""), "")
		} else {
			var want string
			if err := ejson.Unmarshal(raw, &want); err != nil || want != string(parsed) {
				c.Check(false, "parseString value differs from encoding/json", in("string", lit, ""), "")
			}
			if !utf8.Valid(parsed) {
				c.Check(false, "parseString produced invalid UTF-8", in("string", lit, ""), "")
			}
		}
		c.Hist("string:accepted")
	} else {
		c.Hist("string:" + res)
		// completeness: a valid JSON string in valid UTF-8 with well-formed surrogate pairs is accepted whole
		if ejson.Valid(lit) && lit[0] == '"' && utf8.Valid(lit) && !hasLoneSurrogateEscape(lit) {
			c.Check(false, "valid JSON string rejected", in("string", lit, ""), "")
		}
	}
	if ok && ejson.Valid(lit) && lit[len(lit)-1] == '"' {
		f := strings.Fields(res)
		c.Check(f[2] == fmt.Sprint(len(lit)), "valid JSON string not consumed whole", in("string", lit, ""), "")
	}
	c.Case("str:"+string(lit), ok)
}

// the grammar's own voice against encoding/json.Valid (ties the Lean RFC recogniser to the oracle)
func checkRefString(c *C, lit []byte) {
	if !c.HasModel() {
		return
	}
	want := "0"
	if ejson.Valid(lit) && utf8.Valid(lit) && len(lit) > 1 && lit[0] == '"' && lit[len(lit)-1] == '"' {
		want = "1"
	}
	c.Compare("Ref.isString vs encoding/json.Valid", in("string", lit, "rfcstring"), want, c.Ask("rfcstring %s", vh.Hex(lit)))
}

func checkStrings(c *C) {
	// every 1-byte and 2-byte body
	for a := 0; a < 256 && !c.Failed(); a++ {
		checkStringLiteral(c, []byte{'"', byte(a), '"'})
		checkStringLiteral(c, []byte{'"', byte(a)})
		checkStringLiteral(c, []byte{'"', '\\', byte(a), '"'})
		checkRefString(c, []byte{'"', byte(a), '"'})
		checkRefString(c, []byte{'"', '\\', byte(a), '"'})
		step := 1
		if !c.Thorough() {
			step = 1
		}
		for b := 0; b < 256; b += step {
			checkStringLiteral(c, []byte{'"', byte(a), byte(b), '"'})
		}
	}
	// every \uXXXX, alone and followed by characteristic second escapes
	seconds := []int{0xd7ff, 0xd800, 0xdbff, 0xdc00, 0xdfff, 0xe000, 0x0041}
	for v := 0; v < 0x10000 && !c.Failed(); v++ {
		for _, f := range []string{`"\u%04x"`, `"\u%04X"`} {
			if f == `"\u%04X"` && v%7 != 0 {
				continue
			}
			lit := []byte(fmt.Sprintf(f, v))
			checkStringLiteral(c, lit)
			if v%5 == 0 {
				checkRefString(c, lit)
			}
		}
		if (v >= 0xd7f0 && v <= 0xe010) || v%257 == 0 {
			for _, w := range seconds {
				checkStringLiteral(c, []byte(fmt.Sprintf(`"\u%04x\u%04x"`, v, w)))
			}
		}
	}
	for hi := 0xd800; hi < 0xdc00 && !c.Failed(); hi += 0x3f {
		for lo := 0xdc00; lo < 0xe000; lo += 0x3b {
			checkStringLiteral(c, []byte(fmt.Sprintf(`"\u%04x\u%04X"`, hi, lo)))
		}
	}
	// every invalid-UTF-8 class in every position relative to ordinary characters
	for _, bad := range badUTF8 {
		for _, pre := range []string{"", "a", "é", "\\n", "€"} {
			for _, post := range []string{"", "b", "\"", "\\"} {
				checkStringLiteral(c, []byte(`"`+pre+bad+post+`"`))
				checkRefString(c, []byte(`"`+pre+bad+post+`"`))
			}
		}
	}
	// random literals
	n := c.N(30000, 600000)
	for i := 0; i < n && !c.Failed(); i++ {
		bad := c.Rand.Intn(2) == 0
		lit := []byte(randStringLiteral(c, 6, bad))
		if c.Rand.Intn(5) == 0 {
			lit = append(lit, randBytes(c, 3)...)
		}
		checkStringLiteral(c, lit)
		if i%4 == 0 {
			checkRefString(c, lit)
		}
	}
	// trimming rule used for quoted numbers
	for i := 0; i < c.N(20000, 200000) && !c.Failed(); i++ {
		checkTrimSpace(c, randSpaced(c))
	}
}

var spaceish = []string{" ", "\t", "\n", "\v", "\f", "\r", "\u0085", "\u00a0", "\u1680", "\u2000", "\u2001", "\u2005", "\u200a", "\u200b", "\u2028", "\u2029", "\u202f", "\u205f", "\u3000",
	"\ufeff", "\x85", "\xa0", "\xc2", "\xe2\x80", "\x1c", "\x1f", "\x00", "\u180e", "\u2060", "\xe1\x9a", "\x80"}

func randSpaced(c *C) []byte {
	var sb strings.Builder
	for i := c.Rand.Intn(3); i > 0; i-- {
		sb.WriteString(spaceish[c.Rand.Intn(len(spaceish))])
	}
	if c.Rand.Intn(4) > 0 {
		sb.WriteString(randNumberLiteral(c, false))
	}
	for i := c.Rand.Intn(3); i > 0; i-- {
		sb.WriteString(spaceish[c.Rand.Intn(len(spaceish))])
	}
	return []byte(sb.String())
}

func checkTrimSpace(c *C, s []byte) {
	if !c.HasModel() {
		return
	}
	want := "0"
	if len(strings.TrimSpace(string(s))) == len(s) {
		want = "1"
	}
	c.Compare("trimSpaceUnchanged vs strings.TrimSpace", in("trimspace", s, ""), want, c.Ask("trimspace %s", vh.Hex(s)))
	c.Case("trim:"+string(s), want == "1")
}

// ---------- utf8 ----------

func checkDecodeRune(c *C, b []byte) {
	if !c.HasModel() {
		return
	}
	r, n := utf8.DecodeRune(b)
	c.Compare("decodeRune vs utf8.DecodeRune", in("decoderune", b, ""), fmt.Sprintf("%d %d", r, n), c.Ask("decoderune %s", vh.Hex(b)))
	c.Case("dr:"+string(b), !(r == utf8.RuneError && n <= 1))
}

func checkRunes(c *C) {
	if !c.HasModel() {
		return
	}
	checkDecodeRune(c, nil)
	for a := 0; a < 256; a++ {
		checkDecodeRune(c, []byte{byte(a)})
		for _, b := range []int{0x00, 0x7f, 0x80, 0x8f, 0x90, 0x9f, 0xa0, 0xbf, 0xc0} {
			checkDecodeRune(c, []byte{byte(a), byte(b)})
			for _, d := range []int{0x7f, 0x80, 0xbf, 0xc0} {
				checkDecodeRune(c, []byte{byte(a), byte(b), byte(d)})
				checkDecodeRune(c, []byte{byte(a), byte(b), byte(d), 0x80})
				checkDecodeRune(c, []byte{byte(a), byte(b), byte(d), 0xbf, 0x41})
				checkDecodeRune(c, []byte{byte(a), byte(b), byte(d), 0x7f})
			}
		}
	}
	for i := 0; i < c.N(20000, 1000000) && !c.Failed(); i++ {
		var b []byte
		if c.Rand.Intn(2) == 0 {
			b = []byte(string(randRune(c)))
			if c.Rand.Intn(3) == 0 && len(b) > 1 {
				b[c.Rand.Intn(len(b))] ^= byte(1 << uint(c.Rand.Intn(8)))
			}
			b = append(b, randBytes(c, 2)...)
		} else {
			b = randBytes(c, 5)
		}
		checkDecodeRune(c, b)
	}
	// encodeRune: all boundaries, and every code point in the thorough tier
	chk := func(r int) {
		want := string(rune(r))
		c.Compare("encodeRune vs string(rune)", in("encoderune", []byte(want), fmt.Sprint(r)), vh.Hex([]byte(want)), c.Ask("encoderune %d", r))
		c.Case(fmt.Sprint("er:", r), true)
	}
	step := 61
	if c.Thorough() {
		step = 1
	}
	for r := 0; r < 0x120000 && !c.Failed(); r += step {
		chk(r)
	}
	for _, r := range []int{0, 0x7f, 0x80, 0x7ff, 0x800, 0xd7ff, 0xd800, 0xdbff, 0xdc00, 0xdfff, 0xe000, 0xfffd, 0xffff, 0x10000, 0x10ffff, 0x110000, 0x7fffffff} {
		chk(r)
	}
}

// ---------- documents ----------

func nestingDepth(b []byte) int {
	d, m := 0, 0
	for _, ch := range b {
		if ch == '[' || ch == '{' {
			d++
			if d > m {
				m = d
			}
		} else if ch == ']' || ch == '}' {
			d--
		}
	}
	return m
}

func checkDoc(c *C, doc []byte, origin string) {
	input := in("doc", doc, origin)
	defer c.Recover("document", input, "")
	canon, ok, toks := implTokens(doc)
	valid := ejson.Valid(doc)
	strict := valid && utf8.Valid(doc) && !hasLoneSurrogateEscape(doc)
	if c.HasModel() {
		c.Compare("Decoder.Read token stream", input, canon, c.Ask("tokens %s", vh.Hex(doc)))
		if nestingDepth(doc) < 9000 {
			want := "0"
			if valid && utf8.Valid(doc) {
				want = "1"
			}
			c.Compare("Ref.rfcValid vs encoding/json.Valid", in("doc", doc, "rfcvalid"), want, c.Ask("rfcvalid %s", vh.Hex(doc)))
		}
	}
	// json.Decoder level
	if ok && len(toks) > 0 && !valid {
		c.Check(false, "json.Decoder read to EOF a document that is not valid JSON", input, "")
	}
	if ok && len(toks) == 0 {
		c.Hist("doc:decoder-accepts-empty-input")
	}
	if strict && !ok {
		c.Check(false, "json.Decoder rejected a valid JSON document", input, "")
	}
	// protojson level: google.protobuf.Value takes any JSON value; an unknown field is skipped token by token
	accepted := false
	func() {
		err := protojson.Unmarshal(doc, &structpb.Value{})
		if err == nil {
			accepted = true
			if !valid {
				c.Check(false, "protojson.Unmarshal(google.protobuf.Value) accepted a document that is not valid JSON", input, "")
			}
		}
	}()
	func() {
		wrapped := []byte(`{"unknownField":` + string(doc) + `}`)
		err := protojson.UnmarshalOptions{DiscardUnknown: true}.Unmarshal(wrapped, &test3pb.TestAllTypes{})
		if err == nil {
			accepted = true
			if !ejson.Valid(wrapped) {
				c.Check(false, "protojson.Unmarshal (DiscardUnknown, unknown field) accepted a document that is not valid JSON", in("doc", wrapped, origin), "")
			}
		} else if strict && nestingDepth(doc) < 9000 {
			c.Check(false, "protojson.Unmarshal (DiscardUnknown) rejected a valid JSON value of an unknown field: "+err.Error(), in("doc", wrapped, origin), "")
		}
	}()
	func() {
		// the document itself as a message: must be valid JSON whenever accepted
		for _, m := range []proto.Message{&test3pb.TestAllTypes{}, &structpb.Struct{}, &structpb.ListValue{}, &wrapperspb.StringValue{}} {
			if err := (protojson.UnmarshalOptions{DiscardUnknown: true}).Unmarshal(doc, m); err == nil {
				accepted = true
				if !valid {
					c.Check(false, fmt.Sprintf("protojson.Unmarshal(%T) accepted a document that is not valid JSON", m), input, "")
				}
			}
		}
	}()
	if ok {
		c.Hist("doc:" + origin + ":decoder-ok")
	} else {
		c.Hist("doc:" + origin + ":decoder-err")
	}
	c.Case("doc:"+string(doc), ok || accepted)
}

func checkDocs(c *C) {
	n := c.N(12000, 250000)
	for i := 0; i < n && !c.Failed(); i++ {
		switch i % 4 {
		case 0:
			checkDoc(c, randDoc(c, false), "valid")
		case 1:
			d, how := mutate(c, randDoc(c, false))
			if c.Rand.Intn(4) == 0 {
				d, _ = mutate(c, d)
			}
			checkDoc(c, d, "mutated:"+how)
		case 2:
			checkDoc(c, randDoc(c, true), "defective-scalars")
		default:
			checkDoc(c, randSoup(c), "soup")
		}
	}
	c.Sample(map[string]string{"valid": string(randDoc(c, false))})
	d, how := mutate(c, randDoc(c, false))
	c.Sample(map[string]string{"mutated": fmt.Sprintf("%q", d), "how": how})
	c.Sample(map[string]string{"soup": fmt.Sprintf("%q", randSoup(c))})
}

// ---------- encoder ----------

func checkWriteString(c *C, s []byte) {
	input := in("writestring", s, "")
	defer c.Recover("Encoder.WriteString", input, "")
	e, _ := json.NewEncoder(nil, "")
	err := e.WriteString(string(s))
	out := append([]byte(nil), e.Bytes()...)
	res := "ok " + vh.Hex(out)
	if err != nil {
		res = "err " + vh.Hex(out)
	}
	if c.HasModel() {
		c.Compare("appendString", input, res, c.Ask("appendstring %s", vh.Hex(s)))
	}
	c.Check((err == nil) == utf8.Valid(s), "WriteString fails exactly on invalid UTF-8", input, "")
	if err == nil {
		if !ejson.Valid(out) {
			c.Check(false, "WriteString output is not a JSON string", input, "")
		} else {
			var back string
			if ejson.Unmarshal(out, &back) != nil || back != string(s) {
				c.Check(false, "WriteString output does not decode (encoding/json) to the original", input, "")
			}
		}
		r := implParseString(out)
		c.Check(r == fmt.Sprintf("ok %s %d", vh.Hex(s), len(out)), "WriteString output does not parse back (json.Decoder) to the original", input, "")
	}
	c.Case("ws:"+string(s), err == nil)
}

type encOp struct {
	code string // model encoding of the call
	call func(e *json.Encoder) error
	kind int // 0 scalar, 1 name, 2 {, 3 }, 4 [, 5 ]
}

func floatLiteral(f float64, bits int) []byte {
	e, _ := json.NewEncoder(nil, "")
	e.WriteFloat(f, bits)
	return append([]byte(nil), e.Bytes()...)
}

func randScalarOp(c *C) encOp {
	switch c.Rand.Intn(7) {
	case 0:
		return encOp{"n", func(e *json.Encoder) error { e.WriteNull(); return nil }, 0}
	case 1:
		b := c.Rand.Intn(2) == 0
		code := "F"
		if b {
			code = "T"
		}
		return encOp{code, func(e *json.Encoder) error { e.WriteBool(b); return nil }, 0}
	case 2:
		s := randUTF8(c, 5)
		if c.Rand.Intn(12) == 0 {
			s += badUTF8[c.Rand.Intn(len(badUTF8))]
		}
		return encOp{"s" + vh.Hex([]byte(s)), func(e *json.Encoder) error { return e.WriteString(s) }, 0}
	case 3:
		n := boundaryInt64(c)
		return encOp{fmt.Sprintf("i%d", n), func(e *json.Encoder) error { e.WriteInt(n); return nil }, 0}
	case 4:
		n := uint64(boundaryInt64(c))
		return encOp{fmt.Sprintf("u%d", n), func(e *json.Encoder) error { e.WriteUint(n); return nil }, 0}
	default:
		f := randFloat64(c)
		bits := 64
		if c.Rand.Intn(2) == 0 {
			bits = 32
			f = float64(float32(f))
		}
		return encOp{"r" + vh.Hex(floatLiteral(f, bits)), func(e *json.Encoder) error { e.WriteFloat(f, bits); return nil }, 0}
	}
}

func genValueOps(c *C, depth int, out *[]encOp) {
	k := c.Rand.Intn(8)
	if depth <= 0 && k >= 5 {
		k = 0
	}
	switch {
	case k < 5:
		*out = append(*out, randScalarOp(c))
	case k < 7:
		*out = append(*out, encOp{"[", func(e *json.Encoder) error { e.StartArray(); return nil }, 4})
		for i := c.Rand.Intn(4); i > 0; i-- {
			genValueOps(c, depth-1, out)
		}
		*out = append(*out, encOp{"]", func(e *json.Encoder) error { e.EndArray(); return nil }, 5})
	default:
		*out = append(*out, encOp{"{", func(e *json.Encoder) error { e.StartObject(); return nil }, 2})
		for i := c.Rand.Intn(4); i > 0; i-- {
			name := randUTF8(c, 4)
			*out = append(*out, encOp{"k" + vh.Hex([]byte(name)), func(e *json.Encoder) error { return e.WriteName(name) }, 1})
			genValueOps(c, depth-1, out)
		}
		*out = append(*out, encOp{"}", func(e *json.Encoder) error { e.EndObject(); return nil }, 3})
	}
}

var indents = []string{"", " ", "  ", "\t", " \t ", "        "}

func runEncoder(ops []encOp, indent string) (res string, out []byte) {
	defer func() {
		if recover() != nil {
			res = "panic"
		}
	}()
	e, err := json.NewEncoder(nil, indent)
	if err != nil {
		return "newencoder-error", nil
	}
	for _, op := range ops {
		if err := op.call(e); err != nil {
			return "err " + vh.Hex(e.Bytes()), e.Bytes()
		}
	}
	return "ok " + vh.Hex(e.Bytes()), e.Bytes()
}

func opCodes(ops []encOp) string {
	s := make([]string, len(ops))
	for i, o := range ops {
		s[i] = o.code
	}
	return strings.Join(s, " ")
}

func checkEncoder(c *C) {
	rnd := "0"
	if detrand.Bool() {
		rnd = "1"
	}
	c.R.Notes = append(c.R.Notes, "detrand.Bool() of this harness binary = "+rnd)
	// strings: every 1- and 2-byte string, then random
	for a := 0; a < 256 && !c.Failed(); a++ {
		checkWriteString(c, []byte{byte(a)})
		for b := 0; b < 256; b++ {
			checkWriteString(c, []byte{byte(a), byte(b)})
		}
	}
	checkWriteString(c, nil)
	for i := 0; i < c.N(20000, 400000) && !c.Failed(); i++ {
		s := []byte(randUTF8(c, 10))
		if c.Rand.Intn(8) == 0 {
			k := c.Rand.Intn(len(s) + 1)
			s = append(append(append([]byte(nil), s[:k]...), badUTF8[c.Rand.Intn(len(badUTF8))]...), s[k:]...)
		}
		checkWriteString(c, s)
	}
	// floats: the literal must be a JSON number or one of the three special strings
	for i := 0; i < c.N(20000, 1000000) && !c.Failed(); i++ {
		f := randFloat64(c)
		bits := 64
		if i%2 == 0 {
			bits = 32
			f = float64(float32(f))
		}
		lit := floatLiteral(f, bits)
		input := in("float", lit, fmt.Sprintf("%d:%x", bits, math.Float64bits(f)))
		special := math.IsNaN(f) || math.IsInf(f, 0)
		if special {
			c.Check(string(lit) == `"NaN"` || string(lit) == `"Infinity"` || string(lit) == `"-Infinity"`, "special float literal", input, "")
		} else {
			c.Check(ejson.Valid(lit) && lit[0] != '"', "WriteFloat literal is not a JSON number", input, "")
			if c.HasModel() && i%4 == 0 {
				c.Compare("Ref.isNumber on WriteFloat literal", input, "1", c.Ask("rfcnumber %s", vh.Hex(lit)))
			}
			// and it reads back to the same float
			back, err := strconv.ParseFloat(string(lit), bits)
			c.Check(err == nil && math.Float64bits(back) == math.Float64bits(f), "WriteFloat literal does not parse back to the same value", input, "")
		}
		c.Case("fl:"+string(lit)+fmt.Sprint(bits), !special)
	}
	// call sequences
	for i := 0; i < c.N(6000, 150000) && !c.Failed(); i++ {
		var ops []encOp
		wellFormed := c.Rand.Intn(5) > 0
		if wellFormed {
			genValueOps(c, 1+c.Rand.Intn(4), &ops)
		} else {
			all := []encOp{
				{"[", func(e *json.Encoder) error { e.StartArray(); return nil }, 4}, {"]", func(e *json.Encoder) error { e.EndArray(); return nil }, 5},
				{"{", func(e *json.Encoder) error { e.StartObject(); return nil }, 2}, {"}", func(e *json.Encoder) error { e.EndObject(); return nil }, 3},
				{"k61", func(e *json.Encoder) error { return e.WriteName("a") }, 1},
			}
			for j := 1 + c.Rand.Intn(8); j > 0; j-- {
				if c.Rand.Intn(3) == 0 {
					ops = append(ops, randScalarOp(c))
				} else {
					ops = append(ops, all[c.Rand.Intn(len(all))])
				}
			}
		}
		codes := opCodes(ops)
		var streams []string
		for _, ind := range indents {
			input := In{Kind: "encoder", Arg: fmt.Sprintf("indent=%q rnd=%s ops=%s", ind, rnd, codes)}
			res, out := runEncoder(ops, ind)
			if c.HasModel() {
				c.Compare("Encoder call sequence", input, res, c.Ask("encode %s %s %s", vh.Hex([]byte(ind)), rnd, codes))
			}
			if wellFormed && strings.HasPrefix(res, "ok ") {
				input.Hex, input.Text = vh.Hex(out), fmt.Sprintf("%q", out)
				c.Check(ejson.Valid(out), "Encoder output for a well-formed call sequence is not valid JSON", input, "")
				canon, ok, _ := implTokens(out)
				c.Check(ok, "Encoder output does not read back through json.Decoder", input, "")
				streams = append(streams, canon)
			}
			c.Hist("encoder:" + strings.Fields(res + " x")[0])
		}
		for _, s := range streams {
			if s != streams[0] {
				c.Check(false, "token stream of Encoder output depends on the indent", In{Kind: "encoder", Arg: codes}, "")
			}
		}
		c.Case("enc:"+codes, wellFormed)
	}
}

// ---------- marshal ----------

func decodeAny(b []byte) (any, error) {
	d := ejson.NewDecoder(bytes.NewReader(b))
	d.UseNumber()
	var v any
	if err := d.Decode(&v); err != nil {
		return nil, err
	}
	if d.More() {
		return nil, fmt.Errorf("trailing data")
	}
	return v, nil
}

func checkMarshal(c *C) {
	n := c.N(1500, 40000)
	for i := 0; i < n && !c.Failed(); i++ {
		var m proto.Message
		if i%2 == 0 {
			m = &test3pb.TestAllTypes{}
		} else {
			m = &testpb.TestAllTypes{}
		}
		randMessage(c, m.ProtoReflect(), 1+c.Rand.Intn(3), 5+c.Rand.Intn(60))
		base := protojson.MarshalOptions{EmitUnpopulated: c.Rand.Intn(4) == 0, UseEnumNumbers: c.Rand.Intn(3) == 0, UseProtoNames: c.Rand.Intn(3) == 0, AllowPartial: true}
		type variant struct {
			name string
			o    protojson.MarshalOptions
		}
		mk := func(multi bool, ind string) protojson.MarshalOptions { o := base; o.Multiline = multi; o.Indent = ind; return o }
		variants := []variant{{"compact", mk(false, "")}, {"multiline", mk(true, "")}, {"indent2", mk(false, "  ")}, {"tab", mk(true, "\t")}, {"mixed", mk(true, " \t ")}}
		var ref any
		var refTokens string
		wire, _ := proto.MarshalOptions{Deterministic: true, AllowPartial: true}.Marshal(m)
		for vi, v := range variants {
			input := In{Kind: "marshal", Arg: fmt.Sprintf("%T variant=%s opts=%+v", m, v.name, base), Hex: vh.Hex(wire)}
			func() {
				defer c.Recover("protojson.Marshal", input, "")
				out, err := v.o.Marshal(m)
				if err != nil {
					c.Check(false, "Marshal failed: "+err.Error(), input, "")
					return
				}
				input.Text = fmt.Sprintf("%q", out)
				if !c.Check(ejson.Valid(out), "Marshal output is not valid JSON", input, "") {
					return
				}
				val, err := decodeAny(out)
				if err != nil {
					c.Check(false, "Marshal output does not decode with encoding/json: "+err.Error(), input, "")
					return
				}
				canon, ok, _ := implTokens(out)
				c.Check(ok, "Marshal output does not read back through json.Decoder", input, "")
				if c.HasModel() && (vi == 0 || i%3 == 0) {
					c.Compare("tokens of Marshal output", In{Kind: "doc", Hex: vh.Hex(out), Text: fmt.Sprintf("%q", out)}, canon, c.Ask("tokens %s", vh.Hex(out)))
				}
				if vi == 0 {
					ref, refTokens = val, canon
				} else {
					c.Check(reflect.DeepEqual(ref, val), "Marshal output parses to a different JSON value under Multiline/Indent", input, "")
					c.Check(refTokens == canon, "Marshal output has a different token stream under Multiline/Indent", input, "")
				}
				c.Hist("marshal:" + v.name)
				c.Case("m:"+string(out), len(out) > 2)
				if i < 2 && vi == 3 {
					c.Sample(map[string]string{"marshal": string(out)})
				}
			}()
		}
	}
}
