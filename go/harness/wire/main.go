// wire harness: C01 (primitives round-trip, sizes) and C02 (field parser = wire grammar).
package main

import (
	"bytes"
	"fmt"
	"io"
	"math"
	"strings"

	"google.golang.org/protobuf/encoding/protowire"
	"google.golang.org/protobuf/internal/zz_verif_vh"
)

type C = vh.Ctx

func main() { vh.Main("wire", run) }

func run(c *C) {
	switch c.Prop {
	case "C01":
		runC01(c)
	case "C02":
		runC02(c)
	default:
		panic("wire harness: unknown property " + c.Prop)
	}
}

// ---------- value generators ----------

func boundaryU64() []uint64 {
	var out []uint64
	for k := 0; k < 64; k++ {
		p := uint64(1) << uint(k)
		out = append(out, p-1, p, p+1)
	}
	out = append(out, 0, math.MaxUint64, math.MaxUint64-1, math.MaxInt64, math.MaxInt64+1, math.MaxUint32, math.MaxInt32)
	return out
}

func randU64(c *C) uint64 {
	switch c.Rand.Intn(4) {
	case 0:
		return c.Rand.Uint64()
	case 1: // random bit length
		k := uint(c.Rand.Intn(64))
		return c.Rand.Uint64() >> k
	case 2: // near a power of 128
		k := uint(7 * c.Rand.Intn(10))
		if k > 63 {
			k = 63
		}
		return (uint64(1) << k) + uint64(c.Rand.Intn(5)) - 2
	default:
		return uint64(c.Rand.Intn(300))
	}
}

func randBytes(c *C, max int) []byte {
	n := c.Rand.Intn(max + 1)
	b := make([]byte, n)
	c.Rand.Read(b)
	return b
}

// ---------- C01 ----------

func runC01(c *C) {
	c.R.Rule = "values: every 2^k-1,2^k,2^k+1 (k<64) plus PRNG values biased to varint-size boundaries; field numbers at varint-size boundaries x 8 wire types; random byte strings / group bodies. A case is non-trivial when the value is non-zero / the payload non-empty; distinct by (function, value)."
	vals := boundaryU64()
	n := c.N(100000, 3000000)
	for i := 0; i < n; i++ {
		vals = append(vals, randU64(c))
	}
	for _, v := range vals {
		if c.Failed() {
			return
		}
		rest := randBytes(c, 3)
		checkVarint(c, v, rest)
		checkZigZag(c, v)
		checkFixed(c, v, rest)
	}
	// bool
	for _, b := range []bool{false, true} {
		u := protowire.EncodeBool(b)
		c.Check(protowire.DecodeBool(u) == b && (u == 0 || u == 1), "DecodeBool(EncodeBool(b))", b, "")
		bs := "0"
		if b {
			bs = "1"
		}
		c.Compare("encodeBool", b, fmt.Sprint(u), c.Ask("encodeBool %s", bs))
		c.Case(fmt.Sprint("bool", b), b)
	}
	// tags
	nums := []int32{1, 2, 15, 16, 17, 2047, 2048, 2049, 1<<18 - 1, 1 << 18, 1<<18 + 1, 1<<25 - 1, 1 << 25, 1<<25 + 1, 18999, 19000, 19999, 20000, 1<<29 - 2, 1<<29 - 1}
	for i := 0; i < c.N(3000, 300000); i++ {
		nums = append(nums, int32(1+c.Rand.Intn(1<<29-1)))
	}
	for _, num := range nums {
		for typ := int8(0); typ < 8; typ++ {
			checkTag(c, protowire.Number(num), protowire.Type(typ))
		}
	}
	// out-of-domain tags: decode side must still agree with the model
	for i := 0; i < c.N(2000, 100000); i++ {
		x := randU64(c)
		num, typ := protowire.DecodeTag(x)
		c.Compare("decodeTag", x, fmt.Sprintf("%d %d", num, typ), c.Ask("decodeTag %d", x))
		c.Case(fmt.Sprint("dtag", x), x != 0)
	}
	for _, num := range []int32{math.MinInt32, -1, 0, 1, 1<<29 - 1, 1 << 29, math.MaxInt32} {
		iv := "0"
		if protowire.Number(num).IsValid() {
			iv = "1"
		}
		c.Compare("IsValid", num, iv, c.Ask("isValid %d", num))
		c.Check(protowire.Number(num).IsValid() == (num >= 1 && num <= 1<<29-1), "Number.IsValid range", num, "")
		c.Case(fmt.Sprint("valid", num), num != 0)
	}
	// bytes / strings / groups
	for i := 0; i < c.N(20000, 400000); i++ {
		if c.Failed() {
			return
		}
		var p []byte
		switch c.Rand.Intn(8) {
		case 0:
			p = randBytes(c, 0)
		case 1:
			p = make([]byte, []int{127, 128, 129, 16383, 16384, 16385}[c.Rand.Intn(6)])
			c.Rand.Read(p)
		default:
			p = randBytes(c, 40)
		}
		rest := randBytes(c, 3)
		checkBytes(c, p, rest)
	}
	for i := 0; i < c.N(20000, 400000); i++ {
		if c.Failed() {
			return
		}
		body := genFields(c, c.Rand.Intn(4), 3)
		num := protowire.Number(nums[c.Rand.Intn(len(nums))])
		checkGroup(c, num, body, randBytes(c, 3))
	}
}

func checkVarint(c *C, v uint64, rest []byte) {
	enc := protowire.AppendVarint(nil, v)
	in := append(append([]byte{}, enc...), rest...)
	got, n := protowire.ConsumeVarint(in)
	sz := protowire.SizeVarint(v)
	c.Check(got == v && n == len(enc) && sz == len(enc), "ConsumeVarint(AppendVarint(v)++rest) = (v, SizeVarint v)", map[string]any{"v": v, "rest": vh.Hex(rest)}, "")
	// shortest: no strictly shorter prefix-free encoding decodes to v: dropping the last byte never decodes to v
	if len(enc) > 1 {
		short := append([]byte{}, enc[:len(enc)-1]...)
		short[len(short)-1] &= 0x7f
		g2, n2 := protowire.ConsumeVarint(short)
		c.Check(!(n2 > 0 && g2 == v), "AppendVarint emits the shortest encoding", v, "")
	}
	pre := randBytes(c, 2)
	c.Check(bytes.Equal(protowire.AppendVarint(append([]byte{}, pre...), v), append(append([]byte{}, pre...), enc...)), "AppendVarint(b,v) = b ++ AppendVarint(nil,v)", v, "")
	if c.HasModel() {
		c.Compare("appendVarint", v, vh.Hex(enc), c.Ask("appendVarint %d", v))
		c.Compare("consumeVarint", vh.Hex(in), fmt.Sprintf("%d %d", got, n), c.Ask("consumeVarint %s", vh.Hex(in)))
		c.Compare("sizeVarint", v, fmt.Sprint(sz), c.Ask("sizeVarint %d", v))
		// the readable specification (Spec.*), on which the message-level models are built
		c.Compare("specEncVarint", v, vh.Hex(enc), c.Ask("specEncVarint %d", v))
		c.Compare("specVarint", vh.Hex(in), fmt.Sprintf("%d %d", got, n), c.Ask("specVarint %s", vh.Hex(in)))
	}
	c.Hist(fmt.Sprintf("varint-size-%d", len(enc)))
	c.Case(fmt.Sprint("varint", v), v != 0)
	if v > 1000 {
		c.Sample(map[string]any{"op": "varint", "v": v, "enc": vh.Hex(enc)})
	}
}

func checkZigZag(c *C, v uint64) {
	x := int64(v)
	u := protowire.EncodeZigZag(x)
	c.Check(protowire.DecodeZigZag(u) == x, "DecodeZigZag(EncodeZigZag(x)) = x", x, "")
	c.Check(protowire.EncodeZigZag(protowire.DecodeZigZag(v)) == v, "EncodeZigZag(DecodeZigZag(u)) = u", v, "")
	if c.HasModel() {
		c.Compare("encodeZigZag", x, fmt.Sprint(u), c.Ask("encodeZigZag %d", v))
		c.Compare("decodeZigZag", v, fmt.Sprint(uint64(protowire.DecodeZigZag(v))), c.Ask("decodeZigZag %d", v))
	}
	c.Case(fmt.Sprint("zz", v), v != 0)
}

func checkFixed(c *C, v uint64, rest []byte) {
	e64 := protowire.AppendFixed64(nil, v)
	g64, n64 := protowire.ConsumeFixed64(append(append([]byte{}, e64...), rest...))
	c.Check(g64 == v && n64 == 8 && protowire.SizeFixed64() == 8 && len(e64) == 8, "fixed64 round trip", v, "")
	v32 := uint32(v)
	e32 := protowire.AppendFixed32(nil, v32)
	g32, n32 := protowire.ConsumeFixed32(append(append([]byte{}, e32...), rest...))
	c.Check(g32 == v32 && n32 == 4 && protowire.SizeFixed32() == 4 && len(e32) == 4, "fixed32 round trip", v32, "")
	if c.HasModel() && c.Rand.Intn(4) == 0 {
		c.Compare("appendFixed64", v, vh.Hex(e64), c.Ask("appendFixed64 %d", v))
		c.Compare("appendFixed32", v32, vh.Hex(e32), c.Ask("appendFixed32 %d", v32))
		trunc := e64[:c.Rand.Intn(9)]
		tv, tn := protowire.ConsumeFixed64(trunc)
		c.Compare("consumeFixed64", vh.Hex(trunc), fmt.Sprintf("%d %d", tv, tn), c.Ask("consumeFixed64 %s", vh.Hex(trunc)))
		trunc = e32[:c.Rand.Intn(5)]
		tv32, tn := protowire.ConsumeFixed32(trunc)
		c.Compare("consumeFixed32", vh.Hex(trunc), fmt.Sprintf("%d %d", tv32, tn), c.Ask("consumeFixed32 %s", vh.Hex(trunc)))
	}
	c.Case(fmt.Sprint("fx", v), v != 0)
}

func checkTag(c *C, num protowire.Number, typ protowire.Type) {
	x := protowire.EncodeTag(num, typ)
	n2, t2 := protowire.DecodeTag(x)
	c.Check(n2 == num && t2 == typ, "DecodeTag(EncodeTag(n,t)) = (n,t)", []int{int(num), int(typ)}, "")
	enc := protowire.AppendTag(nil, num, typ)
	c.Check(len(enc) == protowire.SizeTag(num), "len(AppendTag) = SizeTag", []int{int(num), int(typ)}, "")
	n3, t3, ln := protowire.ConsumeTag(enc)
	c.Check(n3 == num && t3 == typ && ln == len(enc), "ConsumeTag(AppendTag(n,t)) = (n,t,len)", []int{int(num), int(typ)}, "")
	if c.HasModel() {
		c.Compare("encodeTag", []int{int(num), int(typ)}, fmt.Sprint(x), c.Ask("encodeTag %d %d", num, typ))
		c.Compare("appendTag", []int{int(num), int(typ)}, vh.Hex(enc), c.Ask("appendTag %d %d", num, typ))
		c.Compare("sizeTag", int(num), fmt.Sprint(protowire.SizeTag(num)), c.Ask("sizeTag %d", num))
	}
	c.Case(fmt.Sprint("tag", num, typ), true)
}

func checkBytes(c *C, p, rest []byte) {
	enc := protowire.AppendBytes(nil, p)
	in := append(append([]byte{}, enc...), rest...)
	got, n := protowire.ConsumeBytes(in)
	c.Check(bytes.Equal(got, p) && n == len(enc) && n == protowire.SizeBytes(len(p)), "ConsumeBytes(AppendBytes(p)++rest) = (p, SizeBytes|p|)", vh.Hex(p), "")
	encS := protowire.AppendString(nil, string(p))
	gs, ns := protowire.ConsumeString(in)
	c.Check(bytes.Equal(encS, enc) && gs == string(p) && ns == n, "string = bytes", vh.Hex(p), "")
	if c.HasModel() && len(p) < 200 {
		c.Compare("appendBytes", vh.Hex(p), vh.Hex(enc), c.Ask("appendBytes %s", vh.Hex(p)))
		c.Compare("consumeBytes", vh.Hex(in), fmt.Sprintf("%s %d", vh.Hex(got), n), c.Ask("consumeBytes %s", vh.Hex(in)))
		c.Compare("sizeBytes", len(p), fmt.Sprint(protowire.SizeBytes(len(p))), c.Ask("sizeBytes %d", len(p)))
	}
	c.Case("bytes"+string(p), len(p) > 0)
}

func checkGroup(c *C, num protowire.Number, body, rest []byte) {
	enc := protowire.AppendGroup(nil, num, body)
	in := append(append([]byte{}, enc...), rest...)
	got, n := protowire.ConsumeGroup(num, in)
	c.Check(bytes.Equal(got, body) && n == len(enc) && n == protowire.SizeGroup(num, len(body)), "ConsumeGroup(AppendGroup(body)++rest) = (body, SizeGroup)", map[string]any{"num": num, "body": vh.Hex(body)}, "")
	// non-minimal end tag: pad the end-group varint with 0x80.. 0x00 continuation bytes
	tag := protowire.AppendVarint(nil, protowire.EncodeTag(num, protowire.EndGroupType))
	for pad := 1; len(tag)+pad <= 10 && pad <= 3; pad++ {
		nm := append([]byte{}, tag...)
		nm[len(nm)-1] |= 0x80
		for j := 1; j < pad; j++ {
			nm = append(nm, 0x80)
		}
		nm = append(nm, 0x00)
		in2 := append(append(append([]byte{}, body...), nm...), rest...)
		g2, n2 := protowire.ConsumeGroup(num, in2)
		c.Check(bytes.Equal(g2, body) && n2 == len(body)+len(nm), "ConsumeGroup with non-minimal end tag returns the body", map[string]any{"num": num, "in": vh.Hex(in2)}, "")
		if c.HasModel() && len(in2) < 300 {
			c.Compare("consumeGroup", map[string]any{"num": num, "in": vh.Hex(in2)}, fmt.Sprintf("%s %d", vh.Hex(g2), n2), c.Ask("consumeGroup %d %s", num, vh.Hex(in2)))
		}
	}
	if c.HasModel() && len(in) < 300 {
		c.Compare("appendGroup", vh.Hex(body), vh.Hex(enc), c.Ask("appendGroup %d %s", num, vh.Hex(body)))
		c.Compare("consumeGroup", map[string]any{"num": num, "in": vh.Hex(in)}, fmt.Sprintf("%s %d", vh.Hex(got), n), c.Ask("consumeGroup %d %s", num, vh.Hex(in)))
		c.Compare("sizeGroup", len(body), fmt.Sprint(protowire.SizeGroup(num, len(body))), c.Ask("sizeGroup %d %d", num, len(body)))
	}
	c.Case("group"+fmt.Sprint(num)+string(body), len(body) > 0)
	if len(body) > 4 {
		c.Sample(map[string]any{"op": "group", "num": num, "body": vh.Hex(body)})
	}
}

// genFields builds a well-formed field sequence (n fields, nesting <= depth).
func genFields(c *C, n, depth int) []byte {
	var b []byte
	for i := 0; i < n; i++ {
		b = genField(c, b, depth)
	}
	return b
}

func randNum(c *C) protowire.Number {
	switch c.Rand.Intn(6) {
	case 0:
		return protowire.Number(1 + c.Rand.Intn(15))
	case 1:
		return protowire.Number(16 + c.Rand.Intn(2032))
	case 2:
		return protowire.Number([]int{1<<29 - 1, 1 << 29, math.MaxInt32, 19000, 2047, 2048}[c.Rand.Intn(6)])
	default:
		return protowire.Number(1 + c.Rand.Intn(100))
	}
}

func genField(c *C, b []byte, depth int) []byte {
	num := randNum(c)
	k := c.Rand.Intn(6)
	if depth <= 0 && k == 4 {
		k = 0
	}
	switch k {
	case 0:
		b = protowire.AppendTag(b, num, protowire.VarintType)
		b = protowire.AppendVarint(b, randU64(c))
	case 1:
		b = protowire.AppendTag(b, num, protowire.Fixed32Type)
		b = protowire.AppendFixed32(b, c.Rand.Uint32())
	case 2:
		b = protowire.AppendTag(b, num, protowire.Fixed64Type)
		b = protowire.AppendFixed64(b, c.Rand.Uint64())
	case 3, 5:
		b = protowire.AppendTag(b, num, protowire.BytesType)
		b = protowire.AppendBytes(b, randBytes(c, 6))
	case 4:
		b = protowire.AppendTag(b, num, protowire.StartGroupType)
		b = append(b, genFields(c, c.Rand.Intn(3), depth-1)...)
		b = protowire.AppendTag(b, num, protowire.EndGroupType)
	}
	return b
}

// ---------- C02 ----------

var errTable = map[int]string{
	-1: io.ErrUnexpectedEOF.Error(),
	-2: "invalid field number",
	-3: "variable length integer overflow",
	-4: "cannot parse reserved wire type",
	-5: "mismatching end group marker",
	-6: "parse error",
}

func mutate(c *C, b []byte) ([]byte, string) {
	b = append([]byte{}, b...)
	switch k := c.Rand.Intn(9); k {
	case 0:
		return b, "valid"
	case 1: // truncate
		if len(b) > 0 {
			b = b[:c.Rand.Intn(len(b))]
		}
		return b, "truncate"
	case 2: // overlong varint somewhere
		if len(b) > 0 {
			i := c.Rand.Intn(len(b))
			ins := bytes.Repeat([]byte{0x80}, 1+c.Rand.Intn(10))
			b = append(b[:i], append(ins, b[i:]...)...)
		}
		return b, "overlong"
	case 3: // flip wire type bits of first byte
		if len(b) > 0 {
			b[0] = b[0]&^7 | byte(c.Rand.Intn(8))
		}
		return b, "wiretype"
	case 4: // field number zero
		if len(b) > 0 {
			b[0] &= 7
		}
		return b, "fieldzero"
	case 5: // flip a random byte
		if len(b) > 0 {
			b[c.Rand.Intn(len(b))] ^= byte(1 << uint(c.Rand.Intn(8)))
		}
		return b, "flip"
	case 6: // drop a byte
		if len(b) > 0 {
			i := c.Rand.Intn(len(b))
			b = append(b[:i], b[i+1:]...)
		}
		return b, "drop"
	case 7: // random soup
		return randBytes(c, 12), "random"
	default: // bogus length: set a byte to big
		if len(b) > 1 {
			b[1+c.Rand.Intn(len(b)-1)] = 0xff
		}
		return b, "ff"
	}
}

func nested(depth int, num protowire.Number, inner []byte) []byte {
	var b []byte
	for i := 0; i < depth; i++ {
		b = protowire.AppendTag(b, num, protowire.StartGroupType)
	}
	b = append(b, inner...)
	for i := 0; i < depth; i++ {
		b = protowire.AppendTag(b, num, protowire.EndGroupType)
	}
	return b
}

func runC02(c *C) {
	c.R.Rule = "inputs: well-formed field sequences (structure-aware, nested groups) with one mutation from {none, truncate, overlong varint, wire-type flip, field number 0, bit flip, byte drop, random soup, 0xff}; group nesting at limit-1, limit, limit+1; all byte strings of length <= 2 (quick) / 3 (thorough). Non-trivial = parser returned n > 0 or a specific error code; distinct by input bytes."
	// ParseError table
	for n := -10; n <= 5; n++ {
		err := protowire.ParseError(n)
		want := ""
		if n < 0 {
			want = errTable[n]
			if want == "" {
				want = "parse error"
			}
		}
		got := ""
		if err != nil {
			got = err.Error()
			// errors.New in internal/errors prefixes "proto: "
			got = strings.TrimLeft(strings.TrimPrefix(got, "proto:"), " \u00a0")
		}
		if n == -1 {
			c.Check(err == io.ErrUnexpectedEOF, "ParseError(-1) is io.ErrUnexpectedEOF", n, "")
		} else {
			c.Check(got == want, fmt.Sprintf("ParseError(%d) = %q, documented %q", n, got, want), n, "")
		}
		c.Case(fmt.Sprint("perr", n), n < 0)
	}
	if c.HasModel() {
		c.Compare("errCodes", "constants", "-1 -2 -3 -4 -5 -6 10000", c.Ask("errCodes"))
	}
	// exhaustive short strings
	maxLen := 2
	if c.Thorough() {
		maxLen = 3
	}
	var rec func(prefix []byte)
	rec = func(prefix []byte) {
		checkParse(c, prefix, "exhaustive")
		if len(prefix) == maxLen || c.Failed() {
			return
		}
		for x := 0; x < 256; x++ {
			rec(append(prefix, byte(x)))
		}
	}
	rec(nil)
	// structured + mutated
	n := c.N(60000, 500000)
	for i := 0; i < n && !c.Failed(); i++ {
		b := genFields(c, 1+c.Rand.Intn(3), 4)
		m, kind := mutate(c, b)
		checkParse(c, m, kind)
	}
	// deep nesting around the recursion limit
	lim := protowire.DefaultRecursionLimit
	for _, d := range []int{lim - 1, lim, lim + 1, lim + 2, 2 * lim} {
		for _, inner := range [][]byte{nil, {0x08, 0x01}, {0x0c}} {
			checkParse(c, nested(d, 1, inner), fmt.Sprintf("nest-%d", d-lim))
		}
	}
	for ri, b := range c.ReplayInputs() {
		var s string
		if err := jsonUnmarshal(b, &s); err == nil {
			checkParse(c, vh.UnHex(s), fmt.Sprint("replay-", ri))
		}
	}
}

func checkParse(c *C, b []byte, kind string) {
	hx := vh.Hex(b)
	defer c.Recover("protowire.Consume*", hx, "")
	num, typ, n := protowire.ConsumeField(b)
	c.Check(n <= len(b), "ConsumeField length <= len(input)", hx, "")
	tnum, ttyp, tn := protowire.ConsumeTag(b)
	c.Check(tn <= len(b), "ConsumeTag length <= len(input)", hx, "")
	// grammar oracle, independent of the implementation and of the model
	wn, wcode := refField(b, protowire.DefaultRecursionLimit)
	if wn >= 0 {
		c.Check(n == wn, fmt.Sprintf("ConsumeField accepts exactly the grammar: got n=%d, grammar says prefix length %d", n, wn), hx, "")
	} else {
		c.Check(n == wcode, fmt.Sprintf("ConsumeField error code for the first defect: got %d want %d", n, wcode), hx, "")
	}
	if n >= 0 {
		c.Check(protowire.ParseError(n) == nil, "ParseError(n>=0) = nil", hx, "")
	}
	if c.HasModel() && len(b) <= 400 {
		c.Compare("consumeField", hx, fmt.Sprintf("%d %d %d", num, typ, n), c.Ask("consumeField %s", hx))
		c.Compare("consumeTag", hx, fmt.Sprintf("%d %d %d", tnum, ttyp, tn), c.Ask("consumeTag %s", hx))
		c.Compare("specTag", hx, fmt.Sprintf("%d %d %d", tnum, ttyp, tn), c.Ask("specTag %s", hx))
		sv, sn := protowire.ConsumeVarint(b)
		c.Compare("specVarint", hx, fmt.Sprintf("%d %d", sv, sn), c.Ask("specVarint %s", hx))
		sb, sbn := protowire.ConsumeBytes(b)
		c.Compare("specBytes", hx, fmt.Sprintf("%s %d", vh.Hex(sb), sbn), c.Ask("specBytes %s", hx))
		c.Compare("consumeBytes", hx, fmt.Sprintf("%s %d", vh.Hex(sb), sbn), c.Ask("consumeBytes %s", hx))
		if tn > 0 {
			vn := protowire.ConsumeFieldValue(tnum, ttyp, b[tn:])
			c.Compare("consumeFieldValue", hx, fmt.Sprint(vn), c.Ask("consumeFieldValue %d %d %s", tnum, ttyp, vh.Hex(b[tn:])))
		}
		gnum := protowire.Number(1 + c.Rand.Intn(3))
		gv, gn := protowire.ConsumeGroup(gnum, b)
		c.Check(gn <= len(b), "ConsumeGroup length <= len(input)", hx, "")
		c.Compare("consumeGroup", hx, fmt.Sprintf("%s %d", vh.Hex(gv), gn), c.Ask("consumeGroup %d %s", gnum, hx))
	} else {
		gv, gn := protowire.ConsumeGroup(1, b)
		c.Check(gn <= len(b) && (gn < 0 || len(gv) < gn), "ConsumeGroup length <= len(input)", "len="+fmt.Sprint(len(b)), "")
	}
	c.Hist("mut:" + kind)
	c.Hist(fmt.Sprintf("result:%s", map[bool]string{true: "ok", false: fmt.Sprint(n)}[n >= 0]))
	c.Case(string(b), n != 0)
	if n > 6 && kind != "valid" {
		c.Sample(map[string]any{"input": hx, "mutation": kind, "n": n})
	}
}
