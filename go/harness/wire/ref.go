package main

import "encoding/json"

func jsonUnmarshal(b []byte, v any) error { return json.Unmarshal(b, v) }

// refField is an independent reference recogniser of the protobuf wire grammar, written from
// the encoding specification (not from wire.go): it returns the length of the well-formed
// field at the start of b, or -1 with the documented error code of the first defect in
// reading order.
//
//	field   := tag value
//	tag     := varint            (number = x>>3 in 1..2^31-1)
//	value   := varint | 4 bytes | 8 bytes | len payload | field* endtag(number) (nesting <= limit)
//	varint  := up to 10 bytes, 7 bits each, little endian; byte 10 must be 0 or 1
func refField(b []byte, limit int) (n int, code int) {
	num, typ, tn, code := refTag(b)
	if code != 0 {
		return -1, code
	}
	vn, code := refValue(num, typ, b[tn:], limit)
	if code != 0 {
		return -1, code
	}
	return tn + vn, 0
}

func refVarint(b []byte) (v uint64, n int, code int) {
	for i := 0; i < 10; i++ {
		if i >= len(b) {
			return 0, 0, -1 // truncated
		}
		c := b[i]
		if i == 9 && c > 1 {
			return 0, 0, -3 // overflow
		}
		v |= uint64(c&0x7f) << (7 * uint(i))
		if c < 0x80 {
			return v, i + 1, 0
		}
	}
	return 0, 0, -3
}

func refTag(b []byte) (num int64, typ int, n int, code int) {
	v, n, code := refVarint(b)
	if code != 0 {
		return 0, 0, 0, code
	}
	if v>>3 > 1<<31-1 || v>>3 < 1 {
		return 0, 0, 0, -2 // invalid field number
	}
	return int64(v >> 3), int(v & 7), n, 0
}

func refValue(num int64, typ int, b []byte, limit int) (n int, code int) {
	switch typ {
	case 0:
		_, n, code := refVarint(b)
		return n, code
	case 5:
		if len(b) < 4 {
			return 0, -1
		}
		return 4, 0
	case 1:
		if len(b) < 8 {
			return 0, -1
		}
		return 8, 0
	case 2:
		m, n, code := refVarint(b)
		if code != 0 {
			return 0, code
		}
		if m > uint64(len(b)-n) {
			return 0, -1
		}
		return n + int(m), 0
	case 3:
		if limit < 0 {
			return 0, -6
		}
		pos := 0
		for {
			num2, typ2, tn, code := refTag(b[pos:])
			if code != 0 {
				return 0, code
			}
			pos += tn
			if typ2 == 4 {
				if num2 != num {
					return 0, -5
				}
				return pos, 0
			}
			vn, code := refValue(num2, typ2, b[pos:], limit-1)
			if code != 0 {
				return 0, code
			}
			pos += vn
		}
	case 4:
		return 0, -5
	default:
		return 0, -4
	}
}
