// range harness: C32 (protorange visits every populated value exactly once).
//
// Random messages of the repository's own corpus types (proto2/proto3 TestAllTypes with nested
// messages, groups, lists, maps, oneofs, extensions, unknown fields; news.Article with
// google.protobuf.Any attachments that do / do not resolve; textpb2.KnownTypes; Any as the root;
// generated and dynamicpb implementations) are traversed by the real
// protorange.Options{Stable: true}.Range with recording push/pop callbacks, with Break / Terminate /
// an error injected at every callback position.  The message is flattened independently (own
// reflection walk, own sort) into the model's tree; pbmodel_range is asked for its events under the
// same injection and the answers are compared exactly.  The property predicates (balanced, every
// populated value exactly once, step consistency by re-applying the step with protoreflect,
// Terminate = prefix + pending pops, Break = skip shape) are also checked directly.
package main

import (
	"encoding/hex"
	"encoding/json"
	"fmt"
	"math"
	"sort"
	"strconv"
	"strings"
	"unicode/utf8"

	"google.golang.org/protobuf/encoding/protowire"
	"google.golang.org/protobuf/proto"
	"google.golang.org/protobuf/reflect/protopath"
	"google.golang.org/protobuf/reflect/protorange"
	"google.golang.org/protobuf/reflect/protoreflect"
	"google.golang.org/protobuf/reflect/protoregistry"
	"google.golang.org/protobuf/types/dynamicpb"

	vh "google.golang.org/protobuf/internal/zz_verif_vh"

	newspb "google.golang.org/protobuf/internal/testprotos/news"
	testpb "google.golang.org/protobuf/internal/testprotos/test"
	test3pb "google.golang.org/protobuf/internal/testprotos/test3"
	textpb2 "google.golang.org/protobuf/internal/testprotos/textpb2"
	"google.golang.org/protobuf/types/known/anypb"
	_ "google.golang.org/protobuf/types/known/structpb"
)

type C = vh.Ctx

func main() { vh.Main("range", run) }

func run(c *C) {
	switch c.Prop {
	case "C32":
		runC32(c)
	default:
		panic("range harness: unknown property " + c.Prop)
	}
}

// ---------------------------------------------------------------- resolvers

type resolver interface {
	protoregistry.ExtensionTypeResolver
	protoregistry.MessageTypeResolver
}

func resolverOf(name string) resolver {
	switch name {
	case "none":
		return (*protoregistry.Types)(nil)
	default:
		return protoregistry.GlobalTypes
	}
}

// optResolver is what goes into protorange.Options.Resolver ("global" exercises the nil default).
func optResolver(name string) resolver {
	if name == "global" {
		return nil
	}
	return resolverOf(name)
}

// ---------------------------------------------------------------- rendering (canonical tokens)

func hx(b []byte) string { return hex.EncodeToString(b) }

func hxd(b []byte) string {
	if len(b) == 0 {
		return "-"
	}
	return hex.EncodeToString(b)
}

func f32tok(f float32) string {
	if f != f {
		return "s:f32:nan"
	}
	return fmt.Sprintf("s:f32:%08x", math.Float32bits(f))
}

func f64tok(f float64) string {
	if f != f {
		return "s:f64:nan"
	}
	return fmt.Sprintf("s:f64:%016x", math.Float64bits(f))
}

// scalarByKind renders a scalar from its *descriptor* kind (used by the flattening).
func scalarByKind(fd protoreflect.FieldDescriptor, v protoreflect.Value) string {
	switch fd.Kind() {
	case protoreflect.BoolKind:
		if v.Bool() {
			return "s:b:1"
		}
		return "s:b:0"
	case protoreflect.Int32Kind, protoreflect.Sint32Kind, protoreflect.Sfixed32Kind:
		return "s:i32:" + strconv.FormatInt(v.Int(), 10)
	case protoreflect.Int64Kind, protoreflect.Sint64Kind, protoreflect.Sfixed64Kind:
		return "s:i64:" + strconv.FormatInt(v.Int(), 10)
	case protoreflect.Uint32Kind, protoreflect.Fixed32Kind:
		return "s:u32:" + strconv.FormatUint(v.Uint(), 10)
	case protoreflect.Uint64Kind, protoreflect.Fixed64Kind:
		return "s:u64:" + strconv.FormatUint(v.Uint(), 10)
	case protoreflect.FloatKind:
		return f32tok(float32(v.Float()))
	case protoreflect.DoubleKind:
		return f64tok(v.Float())
	case protoreflect.StringKind:
		return "s:str:" + hxd([]byte(v.String()))
	case protoreflect.BytesKind:
		return "y:" + hx(v.Bytes())
	case protoreflect.EnumKind:
		return "s:e:" + strconv.FormatInt(int64(v.Enum()), 10)
	}
	panic("scalarByKind: " + fd.Kind().String())
}

// scalarDyn renders a scalar from the *dynamic Go type* held by the Value (used for what the
// callbacks report; independent of the descriptor).
func scalarDyn(v protoreflect.Value) (string, bool) {
	switch x := v.Interface().(type) {
	case bool:
		if x {
			return "s:b:1", true
		}
		return "s:b:0", true
	case int32:
		return "s:i32:" + strconv.FormatInt(int64(x), 10), true
	case int64:
		return "s:i64:" + strconv.FormatInt(x, 10), true
	case uint32:
		return "s:u32:" + strconv.FormatUint(uint64(x), 10), true
	case uint64:
		return "s:u64:" + strconv.FormatUint(x, 10), true
	case float32:
		return f32tok(x), true
	case float64:
		return f64tok(x), true
	case string:
		return "s:str:" + hxd([]byte(x)), true
	case []byte:
		return "y:" + hx(x), true
	case protoreflect.EnumNumber:
		return "s:e:" + strconv.FormatInt(int64(x), 10), true
	}
	return "", false
}

func keyTok(k protoreflect.MapKey) string {
	switch x := k.Interface().(type) {
	case bool:
		if x {
			return "kb:1"
		}
		return "kb:0"
	case int32:
		return "ki:" + strconv.FormatInt(int64(x), 10)
	case int64:
		return "ki:" + strconv.FormatInt(x, 10)
	case uint32:
		return "ku:" + strconv.FormatUint(uint64(x), 10)
	case uint64:
		return "ku:" + strconv.FormatUint(x, 10)
	case string:
		return "ks:" + hxd([]byte(x))
	}
	panic("keyTok")
}

// keyLess is the documented order of Options.Stable, written independently of internal/order:
// false < true, numeric order, strings by Unicode code point (bytewise when not valid UTF-8).
func keyLess(a, b protoreflect.MapKey) bool {
	switch x := a.Interface().(type) {
	case bool:
		return !x && b.Bool()
	case int32, int64:
		return a.Int() < b.Int()
	case uint32, uint64:
		return a.Uint() < b.Uint()
	case string:
		y := b.String()
		if utf8.ValidString(x) && utf8.ValidString(y) {
			rx, ry := []rune(x), []rune(y)
			for i := 0; i < len(rx) && i < len(ry); i++ {
				if rx[i] != ry[i] {
					return rx[i] < ry[i]
				}
			}
			return len(rx) < len(ry)
		}
		return x < y
	}
	panic("keyLess")
}

// ---------------------------------------------------------------- the independent flattening

// tnode is one populated value: the step that leads to it, its canonical rendering, its children.
type tnode struct {
	step string
	toks []string
	kids []*tnode
}

func (n *tnode) val() string { return strings.Join(n.toks, ",") }

type flattener struct {
	res   resolver
	nAny  int // resolvable Any messages seen
	nUnk  int
	nodes int
	depth int
	maxD  int
}

// expandAny reports the expanded body if m is a google.protobuf.Any whose URL resolves and whose
// value unmarshals ("resolvable Any" of the property statement).
func expandAny(m protoreflect.Message, res resolver) (protoreflect.Message, bool) {
	md := m.Descriptor()
	if md.FullName() != "google.protobuf.Any" {
		return nil, false
	}
	url := m.Get(md.Fields().ByNumber(1)).String()
	val := m.Get(md.Fields().ByNumber(2)).Bytes()
	mt, err := res.FindMessageByURL(url)
	if err != nil {
		return nil, false
	}
	m2 := mt.New()
	if err := (proto.UnmarshalOptions{Merge: true, AllowPartial: true, Resolver: res}).Unmarshal(val, m2.Interface()); err != nil {
		return nil, false
	}
	return m2, true
}

// msg returns the msg-grammar tokens of m and the populated-value nodes below it.
func (f *flattener) msg(m protoreflect.Message) ([]string, []*tnode) {
	f.depth++
	if f.depth > f.maxD {
		f.maxD = f.depth
	}
	defer func() { f.depth-- }()
	type fv struct {
		fd protoreflect.FieldDescriptor
		v  protoreflect.Value
	}
	var fields []fv
	m.Range(func(fd protoreflect.FieldDescriptor, v protoreflect.Value) bool {
		fields = append(fields, fv{fd, v})
		return true
	})
	sort.Slice(fields, func(i, j int) bool { return fields[i].fd.Number() < fields[j].fd.Number() })
	unk := []byte(m.GetUnknown())
	body, isAny := expandAny(m, f.res)
	head := "m"
	if isAny {
		head = "a"
	}
	toks := []string{head, string(m.Descriptor().FullName()), strconv.Itoa(len(fields)), hxd(unk)}
	var kids []*tnode
	for _, x := range fields {
		vt, vk := f.value(x.fd, x.v)
		toks = append(toks, strconv.Itoa(int(x.fd.Number())))
		toks = append(toks, vt...)
		kids = append(kids, &tnode{step: "F:" + strconv.Itoa(int(x.fd.Number())), toks: vt, kids: vk})
	}
	if len(unk) > 0 {
		kids = append(kids, &tnode{step: "U", toks: []string{"y:" + hx(unk)}})
		f.nUnk++
	}
	if isAny {
		f.nAny++
		bt, bk := f.msg(body)
		toks = append(toks, bt...)
		// only the expanded body is a populated value of a resolvable Any
		kids = []*tnode{{step: "A:" + string(body.Descriptor().FullName()), toks: append([]string{"("}, bt...), kids: bk}}
	}
	f.nodes += len(kids)
	return toks, kids
}

func (f *flattener) elem(fd protoreflect.FieldDescriptor, v protoreflect.Value) ([]string, []*tnode) {
	if fd.Message() != nil {
		mt, mk := f.msg(v.Message())
		return append([]string{"("}, mt...), mk
	}
	return []string{scalarByKind(fd, v)}, nil
}

func (f *flattener) value(fd protoreflect.FieldDescriptor, v protoreflect.Value) ([]string, []*tnode) {
	switch {
	case fd.IsMap():
		mp := v.Map()
		var keys []protoreflect.MapKey
		mp.Range(func(k protoreflect.MapKey, _ protoreflect.Value) bool {
			keys = append(keys, k)
			return true
		})
		sort.Slice(keys, func(i, j int) bool { return keyLess(keys[i], keys[j]) })
		toks := []string{"{", strconv.Itoa(len(keys))}
		var kids []*tnode
		for _, k := range keys {
			et, ek := f.elem(fd.MapValue(), mp.Get(k))
			toks = append(toks, keyTok(k))
			toks = append(toks, et...)
			kids = append(kids, &tnode{step: "K:" + keyTok(k), toks: et, kids: ek})
		}
		f.nodes += len(kids)
		return toks, kids
	case fd.IsList():
		l := v.List()
		toks := []string{"[", strconv.Itoa(l.Len())}
		var kids []*tnode
		for i := 0; i < l.Len(); i++ {
			et, ek := f.elem(fd, l.Get(i))
			toks = append(toks, et...)
			kids = append(kids, &tnode{step: "L:" + strconv.Itoa(i), toks: et, kids: ek})
		}
		f.nodes += len(kids)
		return toks, kids
	default:
		return f.elem(fd, v)
	}
}

// renderDyn renders whatever a callback reports, from the dynamic type of the Value.
func renderDyn(v protoreflect.Value, res resolver) string {
	f := &flattener{res: res}
	switch x := v.Interface().(type) {
	case protoreflect.Message:
		t, _ := f.msg(x)
		return "(," + strings.Join(t, ",")
	case protoreflect.List:
		toks := []string{"[", strconv.Itoa(x.Len())}
		for i := 0; i < x.Len(); i++ {
			toks = append(toks, renderDyn(x.Get(i), res))
		}
		return strings.Join(toks, ",")
	case protoreflect.Map:
		var keys []protoreflect.MapKey
		x.Range(func(k protoreflect.MapKey, _ protoreflect.Value) bool {
			keys = append(keys, k)
			return true
		})
		sort.Slice(keys, func(i, j int) bool { return keyLess(keys[i], keys[j]) })
		toks := []string{"{", strconv.Itoa(len(keys))}
		for _, k := range keys {
			toks = append(toks, keyTok(k), renderDyn(x.Get(k), res))
		}
		return strings.Join(toks, ",")
	default:
		s, ok := scalarDyn(v)
		if !ok {
			return fmt.Sprintf("?%T", v.Interface())
		}
		return s
	}
}

func stepTok(s protopath.Step) string {
	switch s.Kind() {
	case protopath.RootStep:
		return "R:" + string(s.MessageDescriptor().FullName())
	case protopath.FieldAccessStep:
		return "F:" + strconv.Itoa(int(s.FieldDescriptor().Number()))
	case protopath.UnknownAccessStep:
		return "U"
	case protopath.ListIndexStep:
		return "L:" + strconv.Itoa(s.ListIndex())
	case protopath.MapIndexStep:
		return "K:" + keyTok(s.MapIndex())
	case protopath.AnyExpandStep:
		return "A:" + string(s.MessageDescriptor().FullName())
	}
	return "?step"
}

func preorder(kids []*tnode, withVal bool, out *[]string) {
	for _, k := range kids {
		if withVal {
			*out = append(*out, k.step+"="+k.val())
		} else {
			*out = append(*out, k.step)
		}
		preorder(k.kids, withVal, out)
	}
}

func pathsOf(prefix string, kids []*tnode, out *[]string) {
	for _, k := range kids {
		p := prefix + "/" + k.step
		*out = append(*out, p)
		pathsOf(p, k.kids, out)
	}
}

// ---------------------------------------------------------------- running the real traversal

type action struct {
	kind byte // 'b' Break, 't' Terminate, 'e' error
	code int
}

type errInj struct{ code int }

func (e *errInj) Error() string { return "injected error " + strconv.Itoa(e.code) }

type oracle map[int]action

func (o oracle) String() string {
	if len(o) == 0 {
		return "-"
	}
	var idx []int
	for i := range o {
		idx = append(idx, i)
	}
	sort.Ints(idx)
	var parts []string
	for _, i := range idx {
		a := o[i]
		s := string(a.kind)
		if a.kind == 'e' {
			s += strconv.Itoa(a.code)
		}
		parts = append(parts, strconv.Itoa(i)+":"+s)
	}
	return strings.Join(parts, ",")
}

func parseOracle(s string) oracle {
	o := oracle{}
	if s == "-" || s == "" {
		return o
	}
	for _, it := range strings.Split(s, ",") {
		p := strings.SplitN(it, ":", 2)
		i, _ := strconv.Atoi(p[0])
		a := action{kind: p[1][0]}
		if a.kind == 'e' {
			a.code, _ = strconv.Atoi(p[1][1:])
		}
		o[i] = a
	}
	return o
}

func (a action) err() error {
	switch a.kind {
	case 'b':
		return protorange.Break
	case 't':
		return protorange.Terminate
	default:
		return &errInj{a.code}
	}
}

type frame struct {
	step  protopath.Step
	val   protoreflect.Value
	stepS string
	valS  string // only in value mode
	shape byte   // 'm' message, 'l' list, 'p' map, 's' scalar
}

type trace struct {
	events []string // "+step[=val]" / "-step[=val]"
	result string
	bad    []string // direct property failures noticed inside the callbacks
}

func shapeOf(s protopath.Step, v protoreflect.Value) byte {
	switch s.Kind() {
	case protopath.RootStep, protopath.AnyExpandStep:
		return 'm'
	case protopath.UnknownAccessStep:
		return 's'
	case protopath.FieldAccessStep:
		fd := s.FieldDescriptor()
		switch {
		case fd.IsMap():
			return 'p'
		case fd.IsList():
			return 'l'
		case fd.Message() != nil:
			return 'm'
		}
		return 's'
	default: // list element / map value: decided by the value itself
		if _, ok := v.Interface().(protoreflect.Message); ok {
			return 'm'
		}
		return 's'
	}
}

// applyReal applies step s to the parent frame with protoreflect accessors only.
func applyReal(root protoreflect.Message, parent *frame, s protopath.Step, res resolver) (protoreflect.Value, string) {
	if parent == nil {
		if s.Kind() != protopath.RootStep {
			return protoreflect.Value{}, "first step is not Root"
		}
		if s.MessageDescriptor() != root.Descriptor() {
			return protoreflect.Value{}, "Root step carries a different descriptor"
		}
		return protoreflect.ValueOfMessage(root), ""
	}
	switch s.Kind() {
	case protopath.FieldAccessStep:
		if parent.shape != 'm' {
			return protoreflect.Value{}, "FieldAccess below a non-message"
		}
		pm := parent.val.Message()
		fd := s.FieldDescriptor()
		if fd.IsExtension() {
			if fd.ContainingMessage().FullName() != pm.Descriptor().FullName() {
				return protoreflect.Value{}, "extension of another message"
			}
		} else if fd.ContainingMessage() != pm.Descriptor() && fd.ContainingMessage().FullName() != pm.Descriptor().FullName() {
			return protoreflect.Value{}, "field of another message"
		}
		if !pm.Has(fd) {
			return protoreflect.Value{}, "FieldAccess of an unpopulated field"
		}
		return pm.Get(fd), ""
	case protopath.UnknownAccessStep:
		if parent.shape != 'm' {
			return protoreflect.Value{}, "UnknownAccess below a non-message"
		}
		b := parent.val.Message().GetUnknown()
		if len(b) == 0 {
			return protoreflect.Value{}, "UnknownAccess with empty unknown set"
		}
		return protoreflect.ValueOfBytes(b), ""
	case protopath.ListIndexStep:
		if parent.shape != 'l' {
			return protoreflect.Value{}, "ListIndex below a non-list"
		}
		l := parent.val.List()
		if i := s.ListIndex(); i < 0 || i >= l.Len() {
			return protoreflect.Value{}, "ListIndex out of range"
		}
		return l.Get(s.ListIndex()), ""
	case protopath.MapIndexStep:
		if parent.shape != 'p' {
			return protoreflect.Value{}, "MapIndex below a non-map"
		}
		mp := parent.val.Map()
		if !mp.Has(s.MapIndex()) {
			return protoreflect.Value{}, "MapIndex of an absent key"
		}
		return mp.Get(s.MapIndex()), ""
	case protopath.AnyExpandStep:
		if parent.shape != 'm' {
			return protoreflect.Value{}, "AnyExpand below a non-message"
		}
		body, ok := expandAny(parent.val.Message(), res)
		if !ok {
			return protoreflect.Value{}, "AnyExpand of a message that is not a resolvable Any"
		}
		if s.MessageDescriptor().FullName() != body.Descriptor().FullName() {
			return protoreflect.Value{}, "AnyExpand step carries a different descriptor"
		}
		return protoreflect.ValueOfMessage(body), ""
	}
	return protoreflect.Value{}, "Root step below the root"
}

type runOpts struct {
	resName  string
	withVal  bool // render values, check step consistency by value
	stable   bool
	nilPush  bool
	nilPop   bool
	useRange bool // protorange.Range(m, push): Options{} and nil pop
}

// traverse runs the real protorange over m under the oracle and records the callback sequence.
func traverse(m protoreflect.Message, o oracle, ro runOpts) (tr trace) {
	res := resolverOf(ro.resName)
	var stack []frame
	idx := 0
	fail := func(s string) {
		if len(tr.bad) < 5 {
			tr.bad = append(tr.bad, fmt.Sprintf("callback %d: %s", idx, s))
		}
	}
	answer := func() error {
		a, ok := o[idx]
		idx++
		if ok {
			return a.err()
		}
		return nil
	}
	checkStack := func(p protopath.Values, depth int) {
		if len(p.Path) != depth || len(p.Values) != depth {
			fail(fmt.Sprintf("len(Path)=%d len(Values)=%d, stack depth %d", len(p.Path), len(p.Values), depth))
			return
		}
		for i := 0; i < depth-1 && i < len(stack); i++ {
			if stepTok(p.Path[i]) != stack[i].stepS {
				fail("the lower part of Path changed between callbacks")
				return
			}
		}
	}
	push := func(p protopath.Values) error {
		checkStack(p, len(stack)+1)
		if len(p.Path) == 0 {
			fail("push with empty path")
			return answer()
		}
		top := p.Index(-1)
		fr := frame{step: top.Step, val: top.Value, stepS: stepTok(top.Step)}
		fr.shape = shapeOf(top.Step, top.Value)
		var parent *frame
		if len(stack) > 0 {
			parent = &stack[len(stack)-1]
		}
		want, why := applyReal(m, parent, top.Step, res)
		if why != "" {
			fail("step " + fr.stepS + ": " + why)
		}
		ev := "+" + fr.stepS
		if ro.withVal {
			fr.valS = renderDyn(top.Value, res)
			ev += "=" + fr.valS
			if why == "" {
				if ws := renderDyn(want, res); ws != fr.valS {
					fail("step " + fr.stepS + ": reported value " + fr.valS + " differs from the step applied to the parent " + ws)
				}
			}
		} else if why == "" && fr.shape == 's' {
			if a, b := renderDyn(want, res), renderDyn(top.Value, res); a != b {
				fail("step " + fr.stepS + ": reported scalar " + b + " differs from the step applied to the parent " + a)
			}
		}
		stack = append(stack, fr)
		tr.events = append(tr.events, ev)
		return answer()
	}
	pop := func(p protopath.Values) error {
		checkStack(p, len(stack))
		ev := "-?"
		if len(stack) == 0 {
			fail("pop on empty stack")
		} else if len(p.Path) > 0 {
			fr := stack[len(stack)-1]
			top := p.Index(-1)
			if s := stepTok(top.Step); s != fr.stepS {
				fail("pop of " + s + " while " + fr.stepS + " is open")
			}
			ev = "-" + stepTok(top.Step)
			if ro.withVal {
				vs := renderDyn(top.Value, res)
				ev += "=" + vs
				if vs != fr.valS {
					fail("pop of " + fr.stepS + " reports a value different from its push")
				}
			}
			stack = stack[:len(stack)-1]
		}
		tr.events = append(tr.events, ev)
		return answer()
	}
	var err error
	switch {
	case ro.useRange:
		err = protorange.Range(m, push)
	default:
		opts := protorange.Options{Stable: ro.stable, Resolver: optResolver(ro.resName)}
		switch {
		case ro.nilPush:
			// without push callbacks the harness stack cannot be maintained: record pops only
			err = opts.Range(m, nil, func(p protopath.Values) error {
				if len(p.Path) > 0 {
					tr.events = append(tr.events, "-"+stepTok(p.Index(-1).Step))
				}
				return nil
			})
		case ro.nilPop:
			err = opts.Range(m, func(p protopath.Values) error {
				if len(p.Path) > 0 {
					tr.events = append(tr.events, "+"+stepTok(p.Index(-1).Step))
				}
				return nil
			}, nil)
		default:
			err = opts.Range(m, push, pop)
		}
	}
	if !ro.nilPush && !ro.nilPop && !ro.useRange && len(stack) != 0 {
		fail(fmt.Sprintf("%d values still open when Range returned", len(stack)))
	}
	switch e := err.(type) {
	case nil:
		tr.result = "ok"
	case *errInj:
		tr.result = "err" + strconv.Itoa(e.code)
	default:
		if err == protorange.Break {
			tr.result = "BUG-break"
		} else if err == protorange.Terminate {
			tr.result = "BUG-terminate"
		} else {
			tr.result = "other:" + err.Error()
		}
	}
	return tr
}

// ---------------------------------------------------------------- direct predicates on event lists

func stripVal(e string) string {
	if i := strings.IndexByte(e, '='); i >= 0 {
		return e[:i]
	}
	return e
}

// balanced reports whether evs is a Dyck word with equal labels on matching push/pop.
func balanced(evs []string) bool {
	var st []string
	for _, e := range evs {
		if e == "" {
			return false
		}
		if e[0] == '+' {
			st = append(st, e[1:])
		} else {
			if len(st) == 0 || st[len(st)-1] != e[1:] {
				return false
			}
			st = st[:len(st)-1]
		}
	}
	return len(st) == 0
}

// matchEnd returns the index of the pop matching the push at i.
func matchEnd(full []string, i int) int {
	d := 0
	for j := i; j < len(full); j++ {
		if full[j][0] == '+' {
			d++
		} else {
			d--
		}
		if d == 0 {
			return j
		}
	}
	return -1
}

// expectBreak: events when callback k alone answers Break, derived from the undisturbed events:
// the inside of the value is skipped (k a push), all its later siblings are skipped, its own pop and
// everything from the parent's pop on is kept.
func expectBreak(full []string, k int) []string {
	j := k
	out := append([]string{}, full[:k+1]...)
	if full[k][0] == '+' {
		j = matchEnd(full, k)
		out = append(out, full[j])
	}
	q := j + 1
	for q < len(full) && full[q][0] == '+' { // skip whole sibling blocks
		q = matchEnd(full, q) + 1
	}
	return append(out, full[q:]...)
}

// expectStop: events when callback k answers Terminate or an error (nil before, nil after):
// the first k+1 events, then the pending pops innermost first.
func expectStop(full []string, k int) []string {
	out := append([]string{}, full[:k+1]...)
	var st []string
	for _, e := range out {
		if e[0] == '+' {
			st = append(st, e[1:])
		} else {
			st = st[:len(st)-1]
		}
	}
	for i := len(st) - 1; i >= 0; i-- {
		out = append(out, "-"+st[i])
	}
	return out
}

// ---------------------------------------------------------------- subjects

type subject struct {
	Type     string `json:"type"`
	Wire     string `json:"wire"`
	Dyn      bool   `json:"dyn"`
	Resolver string `json:"resolver"`
}

type input struct {
	subject
	Oracle string `json:"oracle"`
	Mode   string `json:"mode"`
	Tree   string `json:"tree,omitempty"`
}

func (s subject) build() (protoreflect.Message, error) {
	mt, err := protoregistry.GlobalTypes.FindMessageByName(protoreflect.FullName(s.Type))
	if err != nil {
		return nil, err
	}
	var m protoreflect.Message
	if s.Dyn {
		m = dynamicpb.NewMessage(mt.Descriptor())
	} else {
		m = mt.New()
	}
	b, err := hex.DecodeString(s.Wire)
	if err != nil {
		return nil, err
	}
	if err := (proto.UnmarshalOptions{AllowPartial: true}).Unmarshal(b, m.Interface()); err != nil {
		return nil, err
	}
	return m, nil
}

// ---------------------------------------------------------------- generator

type gen struct {
	c       *C
	density float64
}

var keyStrings = []string{"", "a", "a\x00", "ab", "b", "Z", "10", "9", "é", "é", "中", "￿", "\U00010000", "\U0001F600", "~", "key"}

func (g *gen) str() string {
	r := g.c.Rand
	switch r.Intn(4) {
	case 0:
		return keyStrings[r.Intn(len(keyStrings))]
	case 1:
		return ""
	default:
		n := 1 + r.Intn(6)
		b := make([]byte, n)
		for i := range b {
			b[i] = byte('a' + r.Intn(26))
		}
		return string(b)
	}
}

func (g *gen) bytes(max int) []byte {
	b := make([]byte, g.c.Rand.Intn(max+1))
	g.c.Rand.Read(b)
	return b
}

func (g *gen) i64() int64 {
	r := g.c.Rand
	switch r.Intn(5) {
	case 0:
		return []int64{0, 1, -1, math.MaxInt32, math.MinInt32, math.MaxInt64, math.MinInt64, 127, 128, -128}[r.Intn(10)]
	case 1:
		return int64(r.Intn(10)) - 5
	default:
		return int64(r.Uint64())
	}
}

func (g *gen) u64() uint64 {
	r := g.c.Rand
	switch r.Intn(4) {
	case 0:
		return []uint64{0, 1, math.MaxUint32, math.MaxUint64, 1 << 63, 127, 128}[r.Intn(7)]
	case 1:
		return uint64(r.Intn(10))
	default:
		return r.Uint64()
	}
}

func (g *gen) scalar(fd protoreflect.FieldDescriptor) protoreflect.Value {
	r := g.c.Rand
	switch fd.Kind() {
	case protoreflect.BoolKind:
		return protoreflect.ValueOfBool(r.Intn(2) == 0)
	case protoreflect.Int32Kind, protoreflect.Sint32Kind, protoreflect.Sfixed32Kind:
		return protoreflect.ValueOfInt32(int32(g.i64()))
	case protoreflect.Int64Kind, protoreflect.Sint64Kind, protoreflect.Sfixed64Kind:
		return protoreflect.ValueOfInt64(g.i64())
	case protoreflect.Uint32Kind, protoreflect.Fixed32Kind:
		return protoreflect.ValueOfUint32(uint32(g.u64()))
	case protoreflect.Uint64Kind, protoreflect.Fixed64Kind:
		return protoreflect.ValueOfUint64(g.u64())
	case protoreflect.FloatKind:
		return protoreflect.ValueOfFloat32([]float32{0, 1.5, -2, float32(math.Inf(1)), float32(math.NaN()), float32(math.Copysign(0, -1)), float32(r.NormFloat64())}[r.Intn(7)])
	case protoreflect.DoubleKind:
		return protoreflect.ValueOfFloat64([]float64{0, 1.5, -2, math.Inf(-1), math.NaN(), math.Copysign(0, -1), r.NormFloat64()}[r.Intn(7)])
	case protoreflect.StringKind:
		return protoreflect.ValueOfString(g.str())
	case protoreflect.BytesKind:
		return protoreflect.ValueOfBytes(g.bytes(5))
	case protoreflect.EnumKind:
		vals := fd.Enum().Values()
		if r.Intn(6) == 0 && !fd.Enum().IsClosed() {
			return protoreflect.ValueOfEnum(protoreflect.EnumNumber(r.Intn(1000)))
		}
		return protoreflect.ValueOfEnum(vals.Get(r.Intn(vals.Len())).Number())
	}
	panic("scalar kind " + fd.Kind().String())
}

func (g *gen) unknown() []byte {
	r := g.c.Rand
	var b []byte
	for i, n := 0, 1+r.Intn(3); i < n; i++ {
		num := protowire.Number(100000 + r.Intn(1000))
		switch r.Intn(4) {
		case 0:
			b = protowire.AppendTag(b, num, protowire.VarintType)
			b = protowire.AppendVarint(b, r.Uint64()>>uint(r.Intn(64)))
		case 1:
			b = protowire.AppendTag(b, num, protowire.Fixed32Type)
			b = protowire.AppendFixed32(b, r.Uint32())
		case 2:
			b = protowire.AppendTag(b, num, protowire.BytesType)
			b = protowire.AppendBytes(b, g.bytes(4))
		default:
			b = protowire.AppendTag(b, num, protowire.StartGroupType)
			b = protowire.AppendTag(b, 1, protowire.VarintType)
			b = protowire.AppendVarint(b, uint64(r.Intn(300)))
			b = protowire.AppendTag(b, num, protowire.EndGroupType)
		}
	}
	return b
}

var anyBodies = []protoreflect.MessageType{
	(&newspb.KeyValueAttachment{}).ProtoReflect().Type(),
	(&newspb.BinaryAttachment{}).ProtoReflect().Type(),
	(&newspb.Article{}).ProtoReflect().Type(),
	(&testpb.TestAllTypes{}).ProtoReflect().Type(),
	(&test3pb.TestAllTypes{}).ProtoReflect().Type(),
	(&testpb.TestAllTypes_NestedMessage{}).ProtoReflect().Type(),
	(&anypb.Any{}).ProtoReflect().Type(),
	(&textpb2.KnownTypes{}).ProtoReflect().Type(),
	(&testpb.TestAllExtensions{}).ProtoReflect().Type(),
}

// fillAny populates a google.protobuf.Any in one of the ways that matter to rangeAnyMessage.
func (g *gen) fillAny(m protoreflect.Message, depth int) {
	r := g.c.Rand
	fds := m.Descriptor().Fields()
	urlFD, valFD := fds.ByNumber(1), fds.ByNumber(2)
	which := r.Intn(10)
	switch {
	case which < 6: // resolvable
		mt := anyBodies[r.Intn(len(anyBodies))]
		body := mt.New()
		if depth > 0 {
			g.fill(body, depth-1)
		}
		b, err := proto.MarshalOptions{AllowPartial: true, Deterministic: true}.Marshal(body.Interface())
		if err != nil {
			b = nil
		}
		prefix := []string{"type.googleapis.com/", "", "example.org/a/b/", "/"}[r.Intn(4)]
		m.Set(urlFD, protoreflect.ValueOfString(prefix+string(mt.Descriptor().FullName())))
		if len(b) > 0 {
			m.Set(valFD, protoreflect.ValueOfBytes(b))
		}
		g.c.Hist("any:resolvable")
	case which == 6: // unknown type
		m.Set(urlFD, protoreflect.ValueOfString("type.googleapis.com/does.not.Exist"))
		m.Set(valFD, protoreflect.ValueOfBytes(g.bytes(6)))
		g.c.Hist("any:unknown-type")
	case which == 7: // known type, value does not parse
		m.Set(urlFD, protoreflect.ValueOfString("type.googleapis.com/google.golang.org.KeyValueAttachment"))
		m.Set(valFD, protoreflect.ValueOfBytes([]byte{0x0a, 0x05, 0x01}))
		g.c.Hist("any:corrupt-value")
	case which == 8: // no url
		m.Set(valFD, protoreflect.ValueOfBytes(g.bytes(6)))
		g.c.Hist("any:no-url")
	default: // empty
		g.c.Hist("any:empty")
	}
	if r.Intn(4) == 0 {
		m.SetUnknown(g.unknown())
	}
}

func (g *gen) mapKey(fd protoreflect.FieldDescriptor) protoreflect.MapKey {
	return g.scalar(fd).MapKey()
}

func allFields(md protoreflect.MessageDescriptor) []protoreflect.FieldDescriptor {
	var out []protoreflect.FieldDescriptor
	for i := 0; i < md.Fields().Len(); i++ {
		out = append(out, md.Fields().Get(i))
	}
	if md.ExtensionRanges().Len() > 0 {
		protoregistry.GlobalTypes.RangeExtensionsByMessage(md.FullName(), func(xt protoreflect.ExtensionType) bool {
			out = append(out, xt.TypeDescriptor())
			return true
		})
		sort.Slice(out, func(i, j int) bool { return out[i].Number() < out[j].Number() })
	}
	return out
}

func (g *gen) fill(m protoreflect.Message, depth int) {
	r := g.c.Rand
	md := m.Descriptor()
	if md.FullName() == "google.protobuf.Any" {
		g.fillAny(m, depth)
		return
	}
	for _, fd := range allFields(md) {
		if fd.IsWeak() {
			continue
		}
		if r.Float64() >= g.density {
			continue
		}
		isMsg := fd.Message() != nil && !fd.IsMap()
		if isMsg && depth <= 0 && r.Intn(3) != 0 {
			continue
		}
		switch {
		case fd.IsMap():
			mp := m.Mutable(fd).Map()
			for i, n := 0, 1+r.Intn(3); i < n; i++ {
				k := g.mapKey(fd.MapKey())
				if fd.MapValue().Message() != nil {
					v := mp.NewValue()
					if depth > 0 {
						g.fill(v.Message(), depth-1)
					}
					mp.Set(k, v)
				} else {
					mp.Set(k, g.scalar(fd.MapValue()))
				}
			}
			g.c.Hist("gen:map")
		case fd.IsList():
			l := m.Mutable(fd).List()
			for i, n := 0, 1+r.Intn(3); i < n; i++ {
				if fd.Message() != nil {
					v := l.NewElement()
					if depth > 0 {
						g.fill(v.Message(), depth-1)
					}
					l.Append(v)
				} else {
					l.Append(g.scalar(fd))
				}
			}
			g.c.Hist("gen:list")
		case fd.Message() != nil:
			sub := m.Mutable(fd).Message()
			if depth > 0 {
				g.fill(sub, depth-1)
			} else if sub.Descriptor().FullName() == "google.protobuf.Any" {
				g.fillAny(sub, 0)
			}
			if fd.Kind() == protoreflect.GroupKind {
				g.c.Hist("gen:group")
			} else {
				g.c.Hist("gen:message")
			}
		default:
			m.Set(fd, g.scalar(fd))
			if fd.ContainingOneof() != nil {
				g.c.Hist("gen:oneof-member")
			}
			if fd.IsExtension() {
				g.c.Hist("gen:extension")
			}
		}
	}
	if r.Intn(3) == 0 {
		m.SetUnknown(g.unknown())
		g.c.Hist("gen:unknown")
	}
}

var rootTypes = []protoreflect.MessageType{
	(&testpb.TestAllTypes{}).ProtoReflect().Type(),
	(&testpb.TestAllTypes{}).ProtoReflect().Type(),
	(&test3pb.TestAllTypes{}).ProtoReflect().Type(),
	(&testpb.TestAllExtensions{}).ProtoReflect().Type(),
	(&newspb.Article{}).ProtoReflect().Type(),
	(&newspb.Article{}).ProtoReflect().Type(),
	(&newspb.Article{}).ProtoReflect().Type(),
	(&textpb2.KnownTypes{}).ProtoReflect().Type(),
	(&anypb.Any{}).ProtoReflect().Type(),
	(&anypb.Any{}).ProtoReflect().Type(),
	(&newspb.KeyValueAttachment{}).ProtoReflect().Type(),
}

func (g *gen) subject() subject {
	r := g.c.Rand
	mt := rootTypes[r.Intn(len(rootTypes))]
	g.density = []float64{0.04, 0.1, 0.2, 0.35}[r.Intn(4)]
	if mt.Descriptor().Fields().Len() < 12 {
		g.density = []float64{0.5, 0.8, 1}[r.Intn(3)]
	}
	m := mt.New()
	depth := r.Intn(4)
	if mt.Descriptor().FullName() == "google.protobuf.Any" {
		g.density = []float64{0.1, 0.3, 0.8}[r.Intn(3)]
		g.fillAny(m, 1+depth)
	} else {
		g.fill(m, depth)
	}
	b, err := proto.MarshalOptions{AllowPartial: true}.Marshal(m.Interface())
	if err != nil {
		panic("generator produced an unmarshalable message: " + err.Error())
	}
	resName := "global"
	if r.Intn(6) == 0 {
		resName = "none"
	}
	return subject{Type: string(mt.Descriptor().FullName()), Wire: hex.EncodeToString(b), Dyn: r.Intn(4) == 0, Resolver: resName}
}

// ---------------------------------------------------------------- the check

type checker struct {
	c    *C
	s    subject
	m    protoreflect.Message
	tree string   // msg tokens, blank separated (model input)
	kids []*tnode // populated values below the root
	full trace    // undisturbed traversal, with values
	fulN []string // its events without values
}

func (k *checker) in(o oracle, mode string) input {
	return input{subject: k.s, Oracle: o.String(), Mode: mode, Tree: k.tree}
}

// prepare flattens the subject, runs the undisturbed traversal and checks clauses 1-3 of C32.
func (k *checker) prepare() bool {
	c := k.c
	res := resolverOf(k.s.Resolver)
	fl := &flattener{res: res}
	toks, kids := fl.msg(k.m)
	k.tree, k.kids = strings.Join(toks, " "), kids
	in := k.in(oracle{}, "v")

	// the spec side of the model (pre-order of the populated values) against the harness's own enumeration
	var pre []string
	preorder(kids, true, &pre)
	if c.HasModel() {
		ans := c.Ask("pre v %s", k.tree)
		c.Compare("populated values: model pre-order vs independent reflection walk", in, strings.Join(append([]string{"pre"}, pre...), " "), ans)
	}

	// undisturbed traversal
	k.full = traverse(k.m, oracle{}, runOpts{resName: k.s.Resolver, withVal: true, stable: true})
	for _, e := range k.full.events {
		k.fulN = append(k.fulN, stripVal(e))
	}
	ok := true
	for _, b := range k.full.bad {
		ok = c.Check(false, "step consistency / stack discipline: "+b, in, "") && ok
	}
	ok = c.Check(balanced(k.full.events), "undisturbed traversal: pushes and pops are not balanced/nested", in, "") && ok
	ok = c.Check(k.full.result == "ok", "undisturbed traversal returns "+k.full.result, in, "") && ok
	// every populated value exactly once, in order, with its value
	rootVal := "(," + strings.Join(toks, ",")
	want := append([]string{"R:" + k.s.Type + "=" + rootVal}, pre...)
	var got []string
	for _, e := range k.full.events {
		if e[0] == '+' {
			got = append(got, e[1:])
		}
	}
	ok = c.Check(strings.Join(got, " ") == strings.Join(want, " "),
		"the pushes are not exactly the populated values in pre-order (each once)", in, "") && ok
	// distinct addresses: every populated value has its own path
	var paths []string
	pathsOf("", kids, &paths)
	seen := map[string]bool{}
	for _, p := range paths {
		if seen[p] {
			ok = c.Check(false, "two populated values share the path "+p, in, "") && ok
		}
		seen[p] = true
	}
	if c.HasModel() {
		ans := c.Ask("run v - %s", k.tree)
		c.Compare("events (undisturbed, with values)", in, k.full.result+" "+strings.Join(k.full.events, " "), ans)
	}
	c.Hist(fmt.Sprintf("events:%s", bucket(len(k.full.events))))
	c.Hist(fmt.Sprintf("depth:%d", fl.maxD))
	if fl.nAny > 0 {
		c.Hist("subject:has-resolvable-any")
	}
	if fl.nUnk > 0 {
		c.Hist("subject:has-unknown")
	}
	if k.s.Dyn {
		c.Hist("subject:dynamicpb")
	}
	c.Hist("resolver:" + k.s.Resolver)
	c.Hist("type:" + k.s.Type)
	return ok
}

func bucket(n int) string {
	switch {
	case n <= 2:
		return "2"
	case n <= 10:
		return "3-10"
	case n <= 40:
		return "11-40"
	case n <= 120:
		return "41-120"
	case n <= 400:
		return "121-400"
	}
	return ">400"
}

// inject runs the real traversal and the model under oracle o and compares; single says that o is
// one action at one position with nil elsewhere, in which case the direct predicates apply.
func (k *checker) inject(o oracle, withVal bool) {
	c := k.c
	mode := "n"
	if withVal {
		mode = "v"
	}
	in := k.in(o, mode)
	tr := traverse(k.m, o, runOpts{resName: k.s.Resolver, withVal: withVal, stable: true})
	for _, b := range tr.bad {
		c.Check(false, "step consistency / stack discipline under injection: "+b, in, "")
	}
	evN := make([]string, len(tr.events))
	for i, e := range tr.events {
		evN[i] = stripVal(e)
	}
	c.Check(balanced(tr.events), "events under injection are not balanced/nested", in, "")
	// clauses that hold for every oracle (C32.result_is_last_error, hard_answer_stops,
	// nonnil_push_skips_children, nonnil_child_ends_iteration)
	lastErr, stopped := "ok", false
	for i, e := range evN {
		a, answered := o[i]
		if stopped && e[0] == '+' {
			c.Check(false, "a push is made after a callback answered Terminate or an error", in, "")
			break
		}
		if !answered {
			continue
		}
		if a.kind == 'e' {
			lastErr = "err" + strconv.Itoa(a.code)
		}
		if a.kind != 'b' {
			stopped = true
		}
		if i+1 < len(evN) {
			if e[0] == '+' && evN[i+1] != "-"+e[1:] {
				c.Check(false, "a push answered with a non-nil error is not followed immediately by its pop", in, "")
			}
			if e[0] == '-' && evN[i+1][0] != '-' {
				c.Check(false, "a pop answered with a non-nil error is followed by the push of a sibling", in, "")
			}
		}
	}
	c.Check(tr.result == lastErr, "Range returns "+tr.result+" but the last error a callback returned is "+lastErr, in, "")
	if len(o) == 1 {
		for pos, a := range o {
			if pos >= len(k.fulN) {
				break
			}
			var want []string
			wantRes := "ok"
			switch a.kind {
			case 'b':
				want = expectBreak(k.fulN, pos)
			case 't':
				want = expectStop(k.fulN, pos)
			default:
				want = expectStop(k.fulN, pos)
				wantRes = "err" + strconv.Itoa(a.code)
			}
			what := map[byte]string{'b': "Break", 't': "Terminate", 'e': "error"}[a.kind]
			c.Check(strings.Join(evN, " ") == strings.Join(want, " "),
				what+" at one callback: events differ from the shape the property states", in, "")
			c.Check(tr.result == wantRes, what+" at one callback: Range returns "+tr.result+", want "+wantRes, in, "")
			c.Hist("inject:" + what)
		}
	} else if len(o) > 1 {
		c.Hist("inject:multi")
	}
	if c.HasModel() {
		ans := c.Ask("run %s %s %s", mode, o.String(), k.tree)
		c.Compare("events under injection "+o.String(), in, tr.result+" "+strings.Join(tr.events, " "), ans)
	}
	c.Case(k.s.Type+"|"+k.s.Wire+"|"+k.s.Resolver+"|"+o.String(), len(k.fulN) > 2)
}

// glue: nil callbacks, the Range wrapper, unstable order.
func (k *checker) glue() {
	c := k.c
	in := k.in(oracle{}, "n")
	var pushes, pops []string
	for _, e := range k.fulN {
		if e[0] == '+' {
			pushes = append(pushes, e)
		} else {
			pops = append(pops, e)
		}
	}
	a := traverse(k.m, nil, runOpts{resName: k.s.Resolver, stable: true, nilPop: true})
	c.Check(strings.Join(a.events, " ") == strings.Join(pushes, " ") && a.result == "ok", "nil pop callback: pushes differ from the full traversal", in, "")
	b := traverse(k.m, nil, runOpts{resName: k.s.Resolver, stable: true, nilPush: true})
	c.Check(strings.Join(b.events, " ") == strings.Join(pops, " ") && b.result == "ok", "nil push callback: pops differ from the full traversal", in, "")
	// unstable order: same populated values as a multiset of paths, still balanced
	u := traverse(k.m, oracle{}, runOpts{resName: k.s.Resolver, stable: false})
	for _, bad := range u.bad {
		c.Check(false, "Stable=false: "+bad, in, "")
	}
	c.Check(balanced(u.events), "Stable=false: not balanced", in, "")
	c.Check(sameMultiset(pathList(u.events), pathList(k.fulN)), "Stable=false: visits a different set of paths", in, "")
	if k.s.Resolver == "global" {
		w := traverse(k.m, oracle{}, runOpts{resName: "global", useRange: true})
		var wp []string
		for _, e := range w.events {
			wp = append(wp, stripVal(e))
		}
		sort.Strings(wp)
		sp := append([]string{}, pushes...)
		sort.Strings(sp)
		c.Check(strings.Join(wp, " ") == strings.Join(sp, " "), "protorange.Range: pushes differ from Options{Stable:true}.Range as a multiset", in, "")
	}
}

func pathList(evs []string) []string {
	var st, out []string
	for _, e := range evs {
		e = stripVal(e)
		if e[0] == '+' {
			st = append(st, e[1:])
			out = append(out, strings.Join(st, "/"))
		} else if len(st) > 0 {
			st = st[:len(st)-1]
		}
	}
	return out
}

func sameMultiset(a, b []string) bool {
	a, b = append([]string{}, a...), append([]string{}, b...)
	sort.Strings(a)
	sort.Strings(b)
	return strings.Join(a, "\n") == strings.Join(b, "\n")
}

func checkSubject(c *C, s subject, only *oracle, maxPos int) {
	m, err := s.build()
	if err != nil {
		c.Check(false, "cannot rebuild subject: "+err.Error(), s, "")
		return
	}
	k := &checker{c: c, s: s, m: m}
	defer c.Recover("protorange panicked", k.in(oracle{}, "v"), "")
	k.prepare()
	c.Case(s.Type+"|"+s.Wire+"|"+s.Resolver+"|-", len(k.fulN) > 2)
	if only != nil {
		k.inject(*only, true)
		k.inject(*only, false)
		return
	}
	k.glue()
	n := len(k.fulN)
	if len(c.R.Samples) < 6 && n > 6 && n < 40 {
		c.Sample(map[string]any{"type": s.Type, "resolver": s.Resolver, "dyn": s.Dyn, "tree": k.tree, "events": strings.Join(k.fulN, " ")})
	}
	// every callback position (all of them up to maxPos, a random subset beyond) x {Break, Terminate, error}
	pos := make([]int, 0, n)
	for i := 0; i < n; i++ {
		pos = append(pos, i)
	}
	if n > maxPos {
		c.Rand.Shuffle(len(pos), func(i, j int) { pos[i], pos[j] = pos[j], pos[i] })
		keep := append([]int{0, 1, n - 2, n - 1}, pos[:maxPos-4]...)
		pos = keep
	}
	for _, p := range pos {
		if c.Failed() {
			return
		}
		for _, a := range []action{{kind: 'b'}, {kind: 't'}, {kind: 'e', code: 1 + c.Rand.Intn(9)}} {
			k.inject(oracle{p: a}, c.Rand.Intn(10) == 0)
		}
	}
	// several actions at once: precedence of amendError, Break after Break, errors during unwinding
	for i, cnt := 0, 6+n/8; i < cnt && n > 0; i++ {
		o := oracle{}
		for j, m := 0, 2+c.Rand.Intn(4); j < m; j++ {
			p := c.Rand.Intn(n)
			switch c.Rand.Intn(5) {
			case 0, 1:
				o[p] = action{kind: 'b'}
			case 2:
				o[p] = action{kind: 't'}
			default:
				o[p] = action{kind: 'e', code: 1 + c.Rand.Intn(9)}
			}
		}
		// often make the actions adjacent so that a pop answers right after a push that answered
		if c.Rand.Intn(2) == 0 {
			p := c.Rand.Intn(n)
			o[p] = action{kind: "bte"[c.Rand.Intn(3)], code: 3}
			o[p+1] = action{kind: "bte"[c.Rand.Intn(3)], code: 4}
			if c.Rand.Intn(2) == 0 {
				o[p+2] = action{kind: "bte"[c.Rand.Intn(3)], code: 5}
			}
		}
		k.inject(o, c.Rand.Intn(10) == 0)
	}
}

func runC32(c *C) {
	c.R.Rule = "subjects: random messages of test.TestAllTypes/TestAllExtensions, test3.TestAllTypes, news.Article (Any attachments), textpb2.KnownTypes, anypb.Any and news.KeyValueAttachment, generated or dynamicpb, re-read from their wire form; per subject: the undisturbed traversal, then Break/Terminate/error at every callback position (a random subset of positions beyond the tier's cap) and random multi-action oracles. A case = (subject, oracle); non-trivial when the subject has at least one populated value (more than the Root push/pop); distinct by (type, wire bytes, resolver, oracle)."
	for _, raw := range c.ReplayInputs() {
		var in input
		if err := json.Unmarshal(raw, &in); err != nil || in.Type == "" {
			continue
		}
		o := parseOracle(in.Oracle)
		checkSubject(c, in.subject, &o, 0)
		c.Hist("replayed")
	}
	if c.Replay != "" && c.Failed() {
		return
	}
	// fixed subjects first: the message of the repository's own range_test.go, an empty message, Any as root
	g := &gen{c: c}
	for _, s := range fixedSubjects() {
		checkSubject(c, s, nil, 1000)
	}
	n := c.N(140, 2500)
	maxPos := c.N(48, 160)
	for i := 0; i < n && !c.Failed(); i++ {
		checkSubject(c, g.subject(), nil, maxPos)
	}
}

func fixedSubjects() []subject {
	mk := func(m proto.Message, res string, dyn bool) subject {
		b, err := proto.MarshalOptions{AllowPartial: true, Deterministic: true}.Marshal(m)
		if err != nil {
			panic(err)
		}
		return subject{Type: string(m.ProtoReflect().Descriptor().FullName()), Wire: hex.EncodeToString(b), Dyn: dyn, Resolver: res}
	}
	kv := &newspb.KeyValueAttachment{Name: "checksums.txt", Data: map[string]string{"go1.10.src.tar.gz": "07cb", "go1.10.darwin-amd64.pkg": "cbb3", "go1.10.linux-amd64.tar.gz": "6b3d"}}
	kvb, _ := proto.MarshalOptions{Deterministic: true}.Marshal(kv)
	art := &newspb.Article{Author: "Brad", Title: "Go 1.10 is released", Content: "Happy Friday", Status: newspb.Article_PUBLISHED, Tags: []string{"go1.10", "release"},
		Attachments: []*anypb.Any{{TypeUrl: "google.golang.org.KeyValueAttachment", Value: kvb}}}
	inner, _ := anypb.New(kv)
	outer, _ := anypb.New(inner)
	return []subject{
		mk(art, "global", false),
		mk(art, "none", false),
		mk(art, "global", true),
		mk(&testpb.TestAllTypes{}, "global", false),
		mk(outer, "global", false),
		mk(&anypb.Any{}, "global", false),
		mk(&testpb.TestAllTypes{MapBoolBool: map[bool]bool{true: false, false: true}, MapInt32Int32: map[int32]int32{-1: 1, 1: 2, math.MinInt32: 3, 0: 4},
			MapUint64Uint64: map[uint64]uint64{math.MaxUint64: 1, 0: 2, 1 << 63: 3},
			MapStringString: map[string]string{"￿": "bmp-last", "\U00010000": "astral-first", "": "empty", "a": "a", "a\x00": "a0", "Z": "Z"},
			RepeatedNestedMessage: []*testpb.TestAllTypes_NestedMessage{{}, {A: proto.Int32(1)}, {}},
			OneofField:            &testpb.TestAllTypes_OneofNestedMessage{OneofNestedMessage: &testpb.TestAllTypes_NestedMessage{Corecursive: &testpb.TestAllTypes{OptionalInt32: proto.Int32(0)}}}}, "global", false),
	}
}
