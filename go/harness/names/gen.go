package main

// Drives the real generator in-process: a MsgSpec becomes a descriptorpb.FileDescriptorProto, is wrapped
// in a pluginpb.CodeGeneratorRequest, handed to protogen.Options{}.New and (for the declaration scan)
// to internal_gengo.GenerateFile; the names protogen assigned are read back through its public API.

import (
	"fmt"
	"go/ast"
	"go/parser"
	"go/token"
	"sort"
	"strings"

	"google.golang.org/protobuf/cmd/protoc-gen-go/internal_gengo"
	"google.golang.org/protobuf/compiler/protogen"
	"google.golang.org/protobuf/proto"
	"google.golang.org/protobuf/types/descriptorpb"
	"google.golang.org/protobuf/types/pluginpb"
)

// FieldSpec is one field of the message under test.
type FieldSpec struct {
	Name     string `json:"name"`
	Num      int    `json:"num"`
	Oneof    int    `json:"oneof"`    // index into Oneofs, -1 = none
	Repeated bool   `json:"repeated"` // repeated scalar: no explicit presence (no Has/Clear in the opaque API)
}

// MsgSpec is the schema of one case: a single top-level message with fields, oneofs and (empty) nested
// messages / (one-value) nested enums. Proto3 = true turns every one-member oneof whose name is "_"+member
// into a synthetic oneof of a proto3 `optional` field (that is how protoc names them).
type MsgSpec struct {
	Proto3 bool        `json:"proto3,omitempty"`
	Name   string      `json:"name"`
	Fields []FieldSpec `json:"fields"`
	Oneofs []string    `json:"oneofs"`
	Msgs   []string    `json:"msgs"`
	Enums  []string    `json:"enums"`
}

func (m *MsgSpec) clone() *MsgSpec {
	c := *m
	c.Fields = append([]FieldSpec(nil), m.Fields...)
	c.Oneofs = append([]string(nil), m.Oneofs...)
	c.Msgs = append([]string(nil), m.Msgs...)
	c.Enums = append([]string(nil), m.Enums...)
	return &c
}

// line renders the spec as the request line of the model ("msg …").
func (m *MsgSpec) line() string {
	var b strings.Builder
	fmt.Fprintf(&b, "msg %s", m.Name)
	for _, f := range m.Fields {
		o := "-"
		if f.Oneof >= 0 {
			o = fmt.Sprint(f.Oneof)
		}
		// FieldDescriptor.HasPresence: oneof members, and proto2 optional scalars
		p := 0
		if f.Oneof >= 0 || (!m.Proto3 && !f.Repeated) {
			p = 1
		}
		fmt.Fprintf(&b, " F %s %d %s %d", f.Name, f.Num, o, p)
	}
	for _, o := range m.Oneofs {
		fmt.Fprintf(&b, " O %s", o)
	}
	for _, n := range m.Msgs {
		fmt.Fprintf(&b, " N %s", n)
	}
	for _, n := range m.Enums {
		fmt.Fprintf(&b, " E %s", n)
	}
	return b.String()
}

func (m *MsgSpec) synthetic(oi int) bool {
	if !m.Proto3 {
		return false
	}
	n, mem := 0, ""
	for _, f := range m.Fields {
		if f.Oneof == oi {
			n++
			mem = f.Name
		}
	}
	return n == 1 && m.Oneofs[oi] == "_"+mem
}

func (m *MsgSpec) fileProto() *descriptorpb.FileDescriptorProto {
	md := &descriptorpb.DescriptorProto{Name: proto.String(m.Name)}
	for _, f := range m.Fields {
		fd := &descriptorpb.FieldDescriptorProto{
			Name:   proto.String(f.Name),
			Number: proto.Int32(int32(f.Num)),
			Type:   descriptorpb.FieldDescriptorProto_TYPE_INT32.Enum(),
			Label:  descriptorpb.FieldDescriptorProto_LABEL_OPTIONAL.Enum(),
		}
		if f.Repeated && f.Oneof < 0 {
			fd.Label = descriptorpb.FieldDescriptorProto_LABEL_REPEATED.Enum()
		}
		if f.Oneof >= 0 {
			fd.OneofIndex = proto.Int32(int32(f.Oneof))
			if m.synthetic(f.Oneof) {
				fd.Proto3Optional = proto.Bool(true)
			}
		}
		md.Field = append(md.Field, fd)
	}
	for _, o := range m.Oneofs {
		md.OneofDecl = append(md.OneofDecl, &descriptorpb.OneofDescriptorProto{Name: proto.String(o)})
	}
	for _, n := range m.Msgs {
		md.NestedType = append(md.NestedType, &descriptorpb.DescriptorProto{Name: proto.String(n)})
	}
	for i, n := range m.Enums {
		md.EnumType = append(md.EnumType, &descriptorpb.EnumDescriptorProto{
			Name: proto.String(n),
			Value: []*descriptorpb.EnumValueDescriptorProto{{
				// the value name is fixed and outside every name pool: enum *values* are not in C42's statement
				Name: proto.String(fmt.Sprintf("ZZV%dQ", i)), Number: proto.Int32(0)}},
		})
	}
	syntax := "proto2"
	if m.Proto3 {
		syntax = "proto3"
	}
	return &descriptorpb.FileDescriptorProto{
		Name:        proto.String("v.proto"),
		Package:     proto.String("vp"),
		Syntax:      proto.String(syntax),
		MessageType: []*descriptorpb.DescriptorProto{md},
		Options:     &descriptorpb.FileOptions{GoPackage: proto.String("example.com/vp;vp")},
	}
}

// FieldNames are the names protogen assigned to one field.
type FieldNames struct {
	GoName  string // struct field name (open API) and base of the getter
	Getter  string // open-API getter, "Get"+GoName
	Wrapper string // GoIdent of the oneof wrapper type ("-" when not a oneof member)
	Camel   string // opaque camelCase (BuilderFieldName)
	Hybrid  bool   // hasConflictHybrid
}

type OneofNames struct {
	GoName, GoIdent, Camel string
	Hybrid                 bool
}

// Names is everything protogen decided for the message.
type Names struct {
	MsgIdent string
	Fields   []FieldNames
	Oneofs   []OneofNames
	Nested   []string // GoIdents of nested messages, then nested enums
	// method names per API level as the public MethodName API reports them
	OpaqueMethods [][]string // per field: Get, Set, Has, Clear ("" = none)
	HybridMethods [][]string
}

func (m *MsgSpec) plugin(level string) (*protogen.Plugin, *protogen.Message, error) {
	req := &pluginpb.CodeGeneratorRequest{
		FileToGenerate: []string{"v.proto"},
		Parameter:      proto.String("default_api_level=" + level),
		ProtoFile:      []*descriptorpb.FileDescriptorProto{m.fileProto()},
	}
	gen, err := protogen.Options{}.New(req)
	if err != nil {
		return nil, nil, err
	}
	if len(gen.Files) != 1 || len(gen.Files[0].Messages) != 1 {
		return nil, nil, fmt.Errorf("unexpected plugin shape")
	}
	return gen, gen.Files[0].Messages[0], nil
}

func methodsOf(f *protogen.Field) []string {
	out := make([]string, 0, 4)
	for _, k := range []string{"Set", "Get"} {
		n, _ := f.MethodName(k)
		out = append(out, n)
	}
	if f.Desc.HasPresence() {
		for _, k := range []string{"Has", "Clear"} {
			n, _ := f.MethodName(k)
			out = append(out, n)
		}
	}
	return out
}

// resolve runs protogen (hybrid level: it exposes every name) and reads the names back.
func (m *MsgSpec) resolve() (*Names, error) {
	_, msg, err := m.plugin("API_HYBRID")
	if err != nil {
		return nil, err
	}
	_, omsg, err := m.plugin("API_OPAQUE")
	if err != nil {
		return nil, err
	}
	_, pmsg, err := m.plugin("API_OPEN")
	if err != nil {
		return nil, err
	}
	n := &Names{MsgIdent: msg.GoIdent.GoName}
	for i, f := range msg.Fields {
		fn := FieldNames{GoName: f.GoName, Wrapper: "-", Camel: f.BuilderFieldName()}
		fn.Getter, _ = pmsg.Fields[i].MethodName("Get")
		if f.Oneof != nil {
			fn.Wrapper = f.GoIdent.GoName
		}
		set, _ := f.MethodName("Set")
		switch set {
		case "Set" + fn.Camel:
		case "Set_" + fn.Camel:
			fn.Hybrid = true
		default:
			return nil, fmt.Errorf("unexpected hybrid setter name %q for camelCase %q", set, fn.Camel)
		}
		// the three levels must agree on the level-independent names
		of, pf := omsg.Fields[i], pmsg.Fields[i]
		if of.GoName != f.GoName || pf.GoName != f.GoName || of.GoIdent != f.GoIdent || pf.GoIdent != f.GoIdent ||
			of.BuilderFieldName() != fn.Camel || pf.BuilderFieldName() != fn.Camel {
			return nil, fmt.Errorf("API levels disagree on names of field %s", f.Desc.Name())
		}
		n.Fields = append(n.Fields, fn)
		n.OpaqueMethods = append(n.OpaqueMethods, methodsOf(of))
		n.HybridMethods = append(n.HybridMethods, methodsOf(f))
	}
	for i, o := range msg.Oneofs {
		on := OneofNames{GoName: o.GoName, GoIdent: o.GoIdent.GoName}
		w := omsg.Oneofs[i].MethodName("Which")
		on.Camel = strings.TrimPrefix(w, "Which")
		switch o.MethodName("Which") {
		case "Which" + on.Camel:
		case "Which_" + on.Camel:
			on.Hybrid = true
		default:
			return nil, fmt.Errorf("unexpected hybrid Which name %q for camelCase %q", o.MethodName("Which"), on.Camel)
		}
		n.Oneofs = append(n.Oneofs, on)
	}
	for _, x := range msg.Messages {
		n.Nested = append(n.Nested, x.GoIdent.GoName)
	}
	for _, x := range msg.Enums {
		n.Nested = append(n.Nested, x.GoIdent.GoName)
	}
	return n, nil
}

func b2s(b bool) string {
	if b {
		return "1"
	}
	return "0"
}

// methodLine renders the opaque accessor names in the order of the model's `opaqueMethods`: per field
// Set, Get(, Has, Clear); then per oneof with members Has, Clear, Which.
func (n *Names) methodLine() string {
	var p []string
	for _, ms := range n.OpaqueMethods {
		p = append(p, ms...)
	}
	for _, o := range n.Oneofs {
		p = append(p, "Has"+o.Camel, "Clear"+o.Camel, "Which"+o.Camel)
	}
	return strings.Join(p, " ")
}

// canon renders the names in the answer format of the model.
func (n *Names) canon() string {
	var p []string
	for _, f := range n.Fields {
		p = append(p, "f:"+f.GoName+":"+f.Wrapper+":"+f.Camel+":"+b2s(f.Hybrid))
	}
	for _, o := range n.Oneofs {
		p = append(p, "o:"+o.GoName+":"+o.GoIdent+":"+o.Camel+":"+b2s(o.Hybrid))
	}
	for _, x := range n.Nested {
		p = append(p, "n:"+x)
	}
	return strings.Join(p, " ")
}

// Dup is one duplicate declaration found in generated code.
type Dup struct {
	Level string // API_OPEN | API_HYBRID | API_OPAQUE
	File  string
	Scope string // "" = package scope, else the type whose fields+methods clash
	Name  string
}

func (d Dup) String() string {
	if d.Scope == "" {
		return d.Level + ":" + d.Name
	}
	return d.Level + ":" + d.Scope + "." + d.Name
}

// scanDups parses one generated file and returns every identifier declared twice in the package scope
// and every name declared twice among the fields and methods of one type (Go rejects all of them:
// "redeclared", "method already declared", "field and method with the same name", "duplicate field").
func scanDups(level, fname, src string) ([]Dup, error) {
	fset := token.NewFileSet()
	f, err := parser.ParseFile(fset, fname, src, parser.SkipObjectResolution)
	if err != nil {
		return nil, err
	}
	pkg := map[string]int{}
	members := map[string]map[string]int{}
	add := func(scope, name string) {
		if name == "_" {
			return
		}
		if members[scope] == nil {
			members[scope] = map[string]int{}
		}
		members[scope][name]++
	}
	for _, d := range f.Decls {
		switch d := d.(type) {
		case *ast.FuncDecl:
			if d.Recv == nil {
				if d.Name.Name != "init" {
					pkg[d.Name.Name]++
				}
				continue
			}
			t := d.Recv.List[0].Type
			if s, ok := t.(*ast.StarExpr); ok {
				t = s.X
			}
			if id, ok := t.(*ast.Ident); ok {
				add(id.Name, d.Name.Name)
			}
		case *ast.GenDecl:
			for _, s := range d.Specs {
				switch s := s.(type) {
				case *ast.TypeSpec:
					pkg[s.Name.Name]++
					if st, ok := s.Type.(*ast.StructType); ok {
						for _, fl := range st.Fields.List {
							for _, nm := range fl.Names {
								add(s.Name.Name, nm.Name)
							}
						}
					}
				case *ast.ValueSpec:
					for _, nm := range s.Names {
						if nm.Name != "_" {
							pkg[nm.Name]++
						}
					}
				}
			}
		}
	}
	var out []Dup
	for n, c := range pkg {
		if c > 1 {
			out = append(out, Dup{level, fname, "", n})
		}
	}
	for sc, mm := range members {
		for n, c := range mm {
			if c > 1 {
				out = append(out, Dup{level, fname, sc, n})
			}
		}
	}
	sort.Slice(out, func(i, j int) bool { return out[i].String() < out[j].String() })
	return out, nil
}

// generate runs the real code generator at the given API level and scans all files it produces.
func (m *MsgSpec) generate(level string) ([]Dup, int, error) {
	gen, _, err := m.plugin(level)
	if err != nil {
		return nil, 0, err
	}
	for _, f := range gen.Files {
		if f.Generate {
			internal_gengo.GenerateFile(gen, f)
		}
	}
	resp := gen.Response()
	if resp.Error != nil {
		return nil, 0, fmt.Errorf("generator: %s", resp.GetError())
	}
	var out []Dup
	size := 0
	for _, rf := range resp.File {
		size += len(rf.GetContent())
		d, err := scanDups(level, rf.GetName(), rf.GetContent())
		if err != nil {
			return nil, 0, err
		}
		out = append(out, d...)
	}
	return out, size, nil
}
