package main

import (
	"fmt"
	"os"

	vh "google.golang.org/protobuf/internal/zz_verif_vh"
)

func main() { vh.Main("names", run) }

func run(c *vh.Ctx) {
	switch c.Prop {
	case "probe":
		probe(c)
	case "direct":
		direct(c)
	default:
		fmt.Fprintln(os.Stderr, "names: unknown property", c.Prop)
		os.Exit(2)
	}
}

var fieldPool = []string{
	"foo_bar", "fooBar", "FooBar", "foo__bar", "Foo_bar", "foo_Bar", "_foo", "x_foo", "XFoo", "X_foo", "xFoo",
	"XFoo_1", "XFoo_2", "XFoo_3", "x_foo_2", "XFoo_2_3",
	"reset", "string", "proto_message", "descriptor", "marshal", "unmarshal", "extension_map", "extension_range_array",
	"Reset", "String", "ProtoMessage", "Descriptor", "build", "Build", "build_",
	"x", "get_x", "has_x", "clear_x", "set_x", "which_x", "GetX", "get_get_x", "X", "x_", "X_", "x__", "get_x_",
	"a", "A", "a_", "A_", "a__", "b", "B", "b_", "o", "O", "get_o", "has_o", "clear_o", "which_o",
}

var nestedPool = []string{"A", "a", "A_", "a_", "B", "b", "B_", "X", "x", "Foo", "foo", "XFoo", "O", "X_", "A__"}

func genSpec(c *vh.Ctx) *MsgSpec {
	r := c.Rand
	m := &MsgSpec{Name: []string{"M", "M", "m", "M_", "m_x"}[r.Intn(5)]}
	used := map[string]bool{}
	pick := func(pool []string) string {
		for {
			s := pool[r.Intn(len(pool))]
			if !used[s] {
				used[s] = true
				return s
			}
		}
	}
	nf := 2 + r.Intn(5)
	no := r.Intn(3)
	if no > nf {
		no = nf
	}
	for i := 0; i < no; i++ {
		m.Oneofs = append(m.Oneofs, pick(fieldPool))
	}
	nums := r.Perm(7)
	for i := 0; i < nf; i++ {
		f := FieldSpec{Name: pick(fieldPool), Num: nums[i] + 1, Oneof: -1}
		if i < no {
			f.Oneof = i // every oneof gets at least one member
		} else if no > 0 && r.Intn(3) == 0 {
			f.Oneof = r.Intn(no)
		} else if r.Intn(5) == 0 {
			f.Repeated = true
		}
		m.Fields = append(m.Fields, f)
	}
	r.Shuffle(len(m.Fields), func(i, j int) { m.Fields[i], m.Fields[j] = m.Fields[j], m.Fields[i] })
	// protodesc requires the members of a oneof to be declared consecutively: pull them behind the first member
	var out []FieldSpec
	done := map[int]bool{}
	for _, f := range m.Fields {
		if f.Oneof < 0 {
			out = append(out, f)
		} else if !done[f.Oneof] {
			done[f.Oneof] = true
			for _, g := range m.Fields {
				if g.Oneof == f.Oneof {
					out = append(out, g)
				}
			}
		}
	}
	m.Fields = out
	for i, k := 0, r.Intn(3); i < k; i++ {
		m.Msgs = append(m.Msgs, pick(nestedPool))
	}
	for i, k := 0, r.Intn(2); i < k; i++ {
		m.Enums = append(m.Enums, pick(nestedPool))
	}
	return m
}

// removeField drops field i, and its oneof when that becomes empty.
func (m *MsgSpec) removeField(i int) *MsgSpec {
	c := m.clone()
	o := c.Fields[i].Oneof
	c.Fields = append(c.Fields[:i], c.Fields[i+1:]...)
	if o >= 0 {
		n := 0
		for _, f := range c.Fields {
			if f.Oneof == o {
				n++
			}
		}
		if n == 0 {
			c.Oneofs = append(c.Oneofs[:o], c.Oneofs[o+1:]...)
			for j := range c.Fields {
				if c.Fields[j].Oneof > o {
					c.Fields[j].Oneof--
				}
			}
		}
	}
	return c
}

// shrink greedily removes parts of the spec while pred keeps holding.
func shrink(m *MsgSpec, pred func(*MsgSpec) bool) *MsgSpec {
	for changed := true; changed; {
		changed = false
		for i := 0; i < len(m.Fields); i++ {
			if c := m.removeField(i); pred(c) {
				m, changed = c, true
				i--
			}
		}
		for i := 0; i < len(m.Msgs); i++ {
			c := m.clone()
			c.Msgs = append(c.Msgs[:i], c.Msgs[i+1:]...)
			if pred(c) {
				m, changed = c, true
				i--
			}
		}
		for i := 0; i < len(m.Enums); i++ {
			c := m.clone()
			c.Enums = append(c.Enums[:i], c.Enums[i+1:]...)
			if pred(c) {
				m, changed = c, true
				i--
			}
		}
		for i := range m.Fields {
			if m.Fields[i].Repeated {
				c := m.clone()
				c.Fields[i].Repeated = false
				if pred(c) {
					m, changed = c, true
				}
			}
		}
		if m.Name != "M" {
			c := m.clone()
			c.Name = "M"
			if pred(c) {
				m, changed = c, true
			}
		}
		if m.Proto3 {
			c := m.clone()
			c.Proto3 = false
			if pred(c) {
				m, changed = c, true
			}
		}
	}
	return m
}

func probe(c *vh.Ctx) {
	seen := map[string]int{}
	for i := 0; i < c.N(3000, 30000); i++ {
		m := genSpec(c)
		n, err := m.resolve()
		if err != nil {
			c.Hist("reject")
			if seen["rej"] < 5 {
				seen["rej"]++
				fmt.Println("REJECT", m.line(), err)
			}
			continue
		}
		for _, lv := range []string{"API_OPEN", "API_HYBRID", "API_OPAQUE"} {
			d, _, err := m.generate(lv)
			if err != nil {
				fmt.Println("GENERR", m.line(), err)
				continue
			}
			for _, x := range d {
				c.Hist("dup:" + lv + ":" + classify(m, n, x))
			}
			uncl := func(x *MsgSpec) bool {
				nn, err := x.resolve()
				if err != nil {
					return false
				}
				d, _, err := x.generate(lv)
				if err != nil {
					return false
				}
				for _, y := range d {
					if classify(x, nn, y) == "" {
						return true
					}
				}
				return false
			}
			if uncl(m) {
				mm := shrink(m, uncl)
				d2, _, _ := mm.generate(lv)
				n2, _ := mm.resolve()
				k := fmt.Sprint(lv, " ", mm.line())
				if seen[k] == 0 {
					seen[k]++
					fmt.Println("MIN", lv, "|", mm.line(), "|", d2, "|", n2.canon())
				}
			}
		}
		c.Case(m.line(), true)
	}
}

func F(name string, num int, oneof int) FieldSpec { return FieldSpec{Name: name, Num: num, Oneof: oneof} }

func direct(c *vh.Ctx) {
	specs := []*MsgSpec{
		{Name: "M", Fields: []FieldSpec{F("_foo", 1, -1), F("x_foo", 2, -1), F("XFoo_2", 3, -1)}},
		{Name: "M", Fields: []FieldSpec{F("a", 1, 0), F("a_", 2, 0)}, Oneofs: []string{"o"}, Msgs: []string{"A"}},
		{Name: "M", Fields: []FieldSpec{F("get_x", 1, -1), F("a", 2, 0)}, Oneofs: []string{"x"}},
		{Name: "M", Fields: []FieldSpec{F("a", 1, 0), F("b", 2, 1), F("GetX", 3, -1)}, Oneofs: []string{"get_x", "x"}},
		{Name: "M", Fields: []FieldSpec{F("a", 1, 0), F("fooBar", 2, -1)}, Oneofs: []string{"foo_bar"}},
		{Name: "M", Fields: []FieldSpec{F("proto_reflect", 1, -1)}},
		{Name: "M", Fields: []FieldSpec{F("GetGetX", 1, -1), F("a", 2, 0), F("b", 3, 1), F("c", 4, 2), F("d", 5, 3), F("get_get_x", 6, -1)}, Oneofs: []string{"get_x", "getGetX", "x", "GetX"}},
	}
	for _, m := range specs {
		n, err := m.resolve()
		if err != nil {
			fmt.Println("ERR", m.line(), err)
			continue
		}
		fmt.Println(m.line(), "=>", n.canon())
		for _, lv := range []string{"API_OPEN", "API_OPAQUE"} {
			d, _, err := m.generate(lv)
			for _, x := range d {
				fmt.Println("   ", x, classify(m, n, x), err)
			}
		}
	}
}
