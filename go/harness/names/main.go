// names harness: C42 — Go identifiers derived from schemas are valid and unique.
//
// Part 1 (strings): internal/strs.{GoCamelCase,GoSanitized,JSONCamelCase,JSONSnakeCase},
// protoreflect.FullName.IsValid and the FieldMask path tests of protojson are run against the Lean model
// (exact comparison) and against the oracles the property names (go/token.IsIdentifier, IsExported).
// Part 2 (messages): schemas built from adversarial name pools go through compiler/protogen in-process
// (open, hybrid and opaque API level) and through the model; the names are compared exactly, and the code
// that cmd/protoc-gen-go/internal_gengo generates for the open and the opaque API is scanned for
// identifiers declared twice (gen.go).  classify.go holds the signatures of the collisions that exist on
// the unchanged tree.
package main

import (
	"encoding/json"
	"fmt"
	"go/token"
	"os"
	"sort"
	"strings"
	"unicode"
	"unicode/utf8"

	"google.golang.org/protobuf/encoding/protojson"
	"google.golang.org/protobuf/internal/strs"
	vh "google.golang.org/protobuf/internal/zz_verif_vh"
	"google.golang.org/protobuf/reflect/protoreflect"
	"google.golang.org/protobuf/types/known/fieldmaskpb"
)

func main() { vh.Main("names", run) }

func run(c *vh.Ctx) {
	switch c.Prop {
	case "C42":
		runC42(c)
	default:
		fmt.Fprintln(os.Stderr, "names: unknown property", c.Prop)
		os.Exit(2)
	}
}

// Input is the replayable form of one case.
type Input struct {
	Kind  string   `json:"kind"`            // "str" | "msg"
	Hex   string   `json:"hex,omitempty"`   // kind str: the bytes of the string
	Text  string   `json:"text,omitempty"`  // kind str: the string, quoted (information only)
	Level string   `json:"level,omitempty"` // kind msg: API level at which a duplicate was found
	Spec  *MsgSpec `json:"spec,omitempty"`
	Line  string   `json:"line,omitempty"` // kind msg: the request line of the model (information only)
}

func strInput(s string) Input { return Input{Kind: "str", Hex: vh.Hex([]byte(s)), Text: fmt.Sprintf("%q", s)} }

func runC42(c *vh.Ctx) {
	c.R.Rule = "strings: every string of length <= 4 (quick) / 5 (thorough) over {a b z A B Z 0 9 _ .}, every 1-byte string, " +
		"2-byte strings over the ASCII class boundaries (thorough: every 2-byte string), the Go keywords, PRNG ASCII strings of " +
		"length 5-40 from a class-weighted alphabet, PRNG Unicode strings (letters/digits/marks/symbols of several scripts, U+FFFD, " +
		"invalid UTF-8). A string case is non-trivial when at least one of the four functions changes the string. " +
		"messages: directed witnesses, every ordered selection of 2 (thorough: 3) fields from a 14-name pool, PRNG schemas of 2-6 fields " +
		"with 0-2 oneofs, 0-2 nested messages, 0-1 nested enums, proto2 and proto3 (synthetic oneofs), names drawn from pools of names " +
		"that collide after camel-casing, with reserved methods, with Get/Set/Has/Clear/Which prefixes and with nested types. " +
		"A message case is non-trivial when conflict resolution changed at least one name. Distinct by input."
	// replayed inputs first
	for _, raw := range c.ReplayInputs() {
		var in Input
		if json.Unmarshal(raw, &in) != nil {
			continue
		}
		c.Hist("replay")
		switch in.Kind {
		case "str":
			checkString(c, string(vh.UnHex(in.Hex)))
		case "msg":
			if in.Spec != nil {
				checkMsg(c, in.Spec, "replay")
			}
		}
	}
	checkTables(c)
	runStrings(c)
	if c.Failed() {
		return
	}
	runMessages(c)
}

// ---------------------------------------------------------------- tables

func goKeywords() []string {
	var out []string
	for t := token.Token(0); t < 256; t++ {
		if t.IsKeyword() {
			out = append(out, t.String())
		}
	}
	return out
}

func checkTables(c *vh.Ctx) {
	kw := goKeywords()
	c.Compare("go/token keyword table", "keywords", strings.Join(kw, ","), c.Ask("keywords"))
	for _, k := range kw {
		c.Check(token.IsKeyword(k) && token.Lookup(k).IsKeyword(), "token.Lookup finds keyword", k, "")
	}
	c.Case("keywords", true)
}

// ---------------------------------------------------------------- strings

func isASCII(s string) bool {
	for i := 0; i < len(s); i++ {
		if s[i] >= 0x80 {
			return false
		}
	}
	return true
}

func identBytes(s string) bool {
	for i := 0; i < len(s); i++ {
		b := s[i]
		if !(b == '_' || '0' <= b && b <= '9' || 'a' <= b && b <= 'z' || 'A' <= b && b <= 'Z') {
			return false
		}
	}
	return true
}

// runeTokens renders the code points of s (as Go's range sees them) with their unicode class.
func runeTokens(s string) string {
	var p []string
	for _, r := range s {
		cl := "o"
		if unicode.IsLetter(r) {
			cl = "l"
		} else if unicode.IsDigit(r) {
			cl = "d"
		}
		p = append(p, fmt.Sprintf("%d.%s", r, cl))
	}
	return strings.Join(p, " ")
}

func runeList(s string) string {
	if s == "" {
		return "-"
	}
	var p []string
	for _, r := range s {
		p = append(p, fmt.Sprint(int(r)))
	}
	return strings.Join(p, ",")
}

func bit(b bool) string {
	if b {
		return "1"
	}
	return "0"
}

// fieldMaskMarshal runs the real protojson encoder on FieldMask{paths:[s]}.
func fieldMaskMarshal(s string) (string, bool) {
	b, err := protojson.Marshal(&fieldmaskpb.FieldMask{Paths: []string{s}})
	if err != nil {
		return "", false
	}
	var out string
	if json.Unmarshal(b, &out) != nil {
		return "", false
	}
	return out, true
}

// fieldMaskUnmarshal runs the real protojson decoder on the JSON string s0; single says that s0 can be
// presented as exactly one path (no comma, no surrounding white space, valid UTF-8, non-empty).
func fieldMaskUnmarshal(s0 string) (paths []string, ok bool, single bool) {
	if s0 == "" || !utf8.ValidString(s0) || strings.Contains(s0, ",") || strings.TrimSpace(s0) != s0 {
		return nil, false, false
	}
	js, err := json.Marshal(s0)
	if err != nil {
		return nil, false, false
	}
	var fm fieldmaskpb.FieldMask
	if err := protojson.Unmarshal(js, &fm); err != nil {
		return nil, false, true
	}
	return fm.Paths, true, true
}

func checkString(c *vh.Ctx, s string) {
	in := strInput(s)
	hx := vh.Hex([]byte(s))
	changed := false
	func() {
		defer c.Recover("strs functions", in, "")
		// GoCamelCase
		cc := strs.GoCamelCase(s)
		c.Compare("GoCamelCase", in, vh.Hex([]byte(cc)), c.Ask("camel %s", hx))
		validName := protoreflect.Name(s).IsValid()
		validFull := protoreflect.FullName(s).IsValid()
		c.Compare("FullName.IsValid", in, bit(validFull), c.Ask("fullname %s", hx))
		if validFull {
			// the property: a valid protobuf identifier (also a dotted one, as used for nested types)
			// becomes an exported Go identifier over [A-Za-z0-9_]
			ok := cc != "" && token.IsIdentifier(cc) && token.IsExported(cc) && identBytes(cc) && 'A' <= cc[0] && cc[0] <= 'Z'
			c.Check(ok, "GoCamelCase(valid protobuf name) is an exported Go identifier", in, "")
			if validName {
				c.Hist("camel:valid-name")
			} else {
				c.Hist("camel:valid-fullname")
			}
		} else {
			c.Hist("camel:invalid-name")
		}
		changed = changed || cc != s

		// GoSanitized
		gs := strs.GoSanitized(s)
		c.Compare("GoSanitized", in, runeList(gs), c.Ask("sanitize %s", runeTokens(s)))
		c.Check(token.IsIdentifier(gs) && !token.IsKeyword(gs), "GoSanitized(s) is a Go identifier and not a keyword", in, "")
		c.Compare("token.IsIdentifier(s)", in, bit(token.IsIdentifier(s)), c.Ask("goident %s", runeTokens(s)))
		changed = changed || gs != s
		if token.IsKeyword(s) {
			c.Hist("sanitize:keyword")
		} else if isASCII(s) {
			c.Hist("sanitize:ascii")
		} else if utf8.ValidString(s) {
			c.Hist("sanitize:unicode")
		} else {
			c.Hist("sanitize:invalid-utf8")
		}

		// JSONCamelCase / JSONSnakeCase
		jc := strs.JSONCamelCase(s)
		js := strs.JSONSnakeCase(s)
		c.Compare("JSONCamelCase", in, vh.Hex([]byte(jc)), c.Ask("jcamel %s", hx))
		c.Compare("JSONSnakeCase", in, vh.Hex([]byte(js)), c.Ask("jsnake %s", hx))
		changed = changed || jc != s || js != s

		// FieldMask: what protojson accepts, and the round trip on what it accepts
		out, acc := fieldMaskMarshal(s)
		c.Compare("marshalFieldMask accepts", in, bit(acc), c.Ask("fmaccept %s", hx))
		if acc {
			c.Hist("fieldmask:marshal-accepts")
			c.Check(strs.JSONSnakeCase(strs.JSONCamelCase(s)) == s, "JSONSnakeCase(JSONCamelCase(s)) == s for an accepted FieldMask path", in, "")
			c.Check(out == jc, "marshalFieldMask writes JSONCamelCase(s)", in, "")
			back, ok, single := fieldMaskUnmarshal(out)
			if single {
				c.Check(ok && len(back) == 1 && back[0] == s, "FieldMask path survives protojson Marshal then Unmarshal", in, "")
			}
		}
		paths, ok, single := fieldMaskUnmarshal(s)
		if single {
			c.Compare("unmarshalFieldMask accepts", in, bit(ok), c.Ask("fmparse %s", hx))
			if ok {
				c.Hist("fieldmask:unmarshal-accepts")
				good := len(paths) == 1 && paths[0] == js
				if good {
					out2, acc2 := fieldMaskMarshal(paths[0])
					good = acc2 && out2 == s
				}
				c.Check(good, "JSON FieldMask path survives protojson Unmarshal then Marshal", in, "")
			}
		}
	}()
	c.Case("s:"+s, changed)
}

var smallAlphabet = []byte("abzABZ09_.")

func enumStrings(alpha []byte, maxLen int, f func(string)) {
	buf := make([]byte, 0, maxLen)
	var rec func()
	rec = func() {
		f(string(buf))
		if len(buf) == maxLen {
			return
		}
		for _, a := range alpha {
			buf = append(buf, a)
			rec()
			buf = buf[:len(buf)-1]
		}
	}
	rec()
}

var runePool = []rune{
	'a', 'z', 'A', 'Z', '0', '9', '_', '.', '-', ' ', '$', 0x7f,
	0xaa, 0xb5, 0xc0, 0xe9, 0xf7, 0xd7, // Latin-1 letters and the two operators between them
	0x391, 0x3c9, 0x416, 0x44f, 0x5d0, 0x627, // Greek, Cyrillic, Hebrew, Arabic letters
	0x660, 0x669, 0x966, 0xff10, 0x1d7ce, // digits of other scripts (Nd)
	0xb2, 0xbd, 0x2160, 0x3007, // No / Nl: numbers that are not unicode.IsDigit
	0x300, 0x301, 0x93e, // combining marks (Mn, Mc): neither letter nor digit
	0x4e2d, 0x3042, 0xac00, 0x1f600, 0x10000, 0x2028, 0x200d, 0xfeff,
	0xfffd, 0xfffe, 0x10ffff, 0xe000,
}

func randString(c *vh.Ctx) string {
	r := c.Rand
	n := 5 + r.Intn(36)
	var b []byte
	switch r.Intn(4) {
	case 0, 1: // identifier-like ASCII
		for i := 0; i < n; i++ {
			switch r.Intn(10) {
			case 0, 1, 2:
				b = append(b, byte('a'+r.Intn(26)))
			case 3, 4:
				b = append(b, byte('A'+r.Intn(26)))
			case 5:
				b = append(b, byte('0'+r.Intn(10)))
			case 6, 7:
				b = append(b, '_')
			case 8:
				b = append(b, '.')
			default:
				b = append(b, "azAZ09"[r.Intn(6)])
			}
		}
	case 2: // any ASCII
		for i := 0; i < n; i++ {
			b = append(b, byte(r.Intn(128)))
		}
	default: // Unicode, sometimes damaged
		for i := 0; i < n/2+1; i++ {
			switch r.Intn(8) {
			case 0:
				b = utf8.AppendRune(b, rune(r.Intn(0x110000)))
			case 1:
				b = append(b, byte(0x80+r.Intn(0x80))) // stray continuation / lead byte
			default:
				b = utf8.AppendRune(b, runePool[r.Intn(len(runePool))])
			}
		}
	}
	// sometimes turn the string into a keyword with decoration
	if r.Intn(12) == 0 {
		kw := goKeywords()
		k := kw[r.Intn(len(kw))]
		switch r.Intn(4) {
		case 0:
			return k
		case 1:
			return k + string(b[:1])
		case 2:
			return strings.ToUpper(k[:1]) + k[1:]
		default:
			return "_" + k
		}
	}
	return string(b)
}

func runStrings(c *vh.Ctx) {
	maxLen := 4 // (length 5 over the small alphabet took more than an hour in the thorough tier)
	enumStrings(smallAlphabet, maxLen, func(s string) {
		if !c.Failed() {
			c.Hist("gen:exhaustive-small-alphabet")
			checkString(c, s)
		}
	})
	c.R.Exhaustive = true
	for b := 0; b < 256; b++ {
		c.Hist("gen:one-byte")
		checkString(c, string([]byte{byte(b)}))
	}
	edges := []byte{0, '-', '.', '/', '0', '9', ':', '@', 'A', 'Z', '[', '_', '`', 'a', 'z', '{', 0x7f, 0x80, 0xc3, 0xff}
	if c.Thorough() {
		edges = edges[:0]
		for b := 0; b < 256; b++ {
			edges = append(edges, byte(b))
		}
	}
	for _, x := range edges {
		for _, y := range edges {
			if c.Failed() {
				return
			}
			c.Hist("gen:two-byte")
			checkString(c, string([]byte{x, y}))
		}
	}
	for _, k := range goKeywords() {
		for _, s := range []string{k, "_" + k, k + "_", strings.ToUpper(k), k + "1", "x." + k, k + "." + k, strings.ToUpper(k[:1]) + k[1:]} {
			c.Hist("gen:keyword")
			checkString(c, s)
		}
	}
	for _, r := range runePool {
		for _, s := range []string{string(r), string(r) + "a", "a" + string(r), string(r) + "1", "1" + string(r), string(r) + string(r)} {
			c.Hist("gen:rune-pool")
			checkString(c, s)
		}
	}
	for _, s := range []string{"", "foo_bar", "fooBar", "foo__bar", "_foo", "foo_", "FOO_BAR", "foo_bar_baz", "foo.bar_baz", "a_b_c", "aBC",
		"foo1_bar", "foo_1bar", "f_", "user.display_name", "user.displayName", "a.b.c", "a..b", ".a", "a.", "_", "__", "_._", "A_b.C_d",
		"\xff", "a\xffb", "\xed\xa0\x80", "\xf4\x90\x80\x80", "\xc0\x80"} {
		c.Hist("gen:directed")
		checkString(c, s)
	}
	for i, n := 0, c.N(20000, 400000); i < n && !c.Failed(); i++ {
		c.Hist("gen:random")
		checkString(c, randString(c))
	}
}

// ---------------------------------------------------------------- messages

var fieldPool = []string{
	"foo_bar", "fooBar", "FooBar", "foo__bar", "Foo_bar", "foo_Bar", "_foo", "x_foo", "XFoo", "X_foo", "xFoo",
	"XFoo_1", "XFoo_2", "XFoo_3", "x_foo_2", "XFoo_2_3", "XFoo_1_2",
	"reset", "string", "proto_message", "descriptor", "marshal", "unmarshal", "extension_map", "extension_range_array",
	"Reset", "String", "ProtoMessage", "Descriptor", "proto_reflect", "ProtoReflect", "build", "Build", "build_", "Build_",
	"x", "get_x", "has_x", "clear_x", "set_x", "which_x", "GetX", "get_get_x", "getGetX", "GetGetX", "X", "x_", "X_", "x__", "get_x_",
	"a", "A", "a_", "A_", "a__", "b", "B", "b_", "o", "O", "get_o", "has_o", "clear_o", "which_o", "set_o",
	"reset_", "get_reset", "get_string", "a1", "a_1", "A1", "a1b", "a_1b", "a1_b",
}

var nestedPool = []string{"A", "a", "A_", "a_", "B", "b", "B_", "X", "x", "Foo", "foo", "XFoo", "O", "X_", "A__", "GetX", "Reset"}

var smallPool = []string{"x", "X", "get_x", "GetX", "x_", "get_x_", "reset", "Reset", "reset_", "_foo", "x_foo", "XFoo_1", "XFoo_2", "proto_reflect"}

func genSpec(c *vh.Ctx) *MsgSpec {
	r := c.Rand
	m := &MsgSpec{Name: []string{"M", "M", "M", "m", "M_", "m_x", "M1"}[r.Intn(7)], Proto3: r.Intn(5) == 0}
	used := map[string]bool{}
	pick := func(pool []string) string {
		for try := 0; ; try++ {
			s := pool[r.Intn(len(pool))]
			if try > 200 { // the pool is (nearly) used up: derive a fresh name instead of spinning
				s = fmt.Sprintf("%s_%d", s, try)
			}
			if !used[s] {
				used[s] = true
				return s
			}
		}
	}
	nf := 2 + r.Intn(5)
	no := r.Intn(3)
	if no > nf {
		no = nf
	}
	// a third of the schemas draw their field names from one cluster of names that meet each other
	fpool, npool := fieldPool, nestedPool
	switch r.Intn(6) {
	case 0: // camelCase XFoo and its "_<number>" neighbours (resolveCamelCaseConflicts)
		fpool = []string{"_foo", "x_foo", "X_foo", "xFoo", "XFoo", "XFoo_1", "XFoo_2", "XFoo_3", "x_foo_2", "XFoo_2_3", "XFoo_1_2", "XFoo_", "x_foo_"}
	case 1: // oneof members against nested types (wrapper rename loop)
		fpool = []string{"a", "A", "a_", "A_", "a__", "A__", "b", "B", "b_", "B_", "x", "x_", "X_"}
		npool = []string{"A", "A_", "A__", "B", "B_", "X", "X_"}
		if no == 0 {
			no = 1
		}
	}
	for i := 0; i < no; i++ {
		m.Oneofs = append(m.Oneofs, pick(fieldPool))
	}
	nums := r.Perm(7)
	for i := 0; i < nf; i++ {
		f := FieldSpec{Name: pick(fpool), Num: nums[i] + 1, Oneof: -1}
		if i < no {
			f.Oneof = i // every oneof gets at least one member
		} else if no > 0 && r.Intn(3) == 0 {
			f.Oneof = r.Intn(no)
		} else if r.Intn(5) == 0 {
			f.Repeated = true
		}
		m.Fields = append(m.Fields, f)
	}
	r.Shuffle(len(m.Fields), func(i, j int) { m.Fields[i], m.Fields[j] = m.Fields[j], m.Fields[i] })
	// protodesc requires the members of a oneof to be declared consecutively: pull them behind the first member
	var out []FieldSpec
	done := map[int]bool{}
	for _, f := range m.Fields {
		if f.Oneof < 0 {
			out = append(out, f)
		} else if !done[f.Oneof] {
			done[f.Oneof] = true
			for _, g := range m.Fields {
				if g.Oneof == f.Oneof {
					out = append(out, g)
				}
			}
		}
	}
	m.Fields = out
	if m.Proto3 && r.Intn(2) == 0 {
		// proto3 `optional`: protoc appends one synthetic oneof "_<field>" per such field, after the real oneofs
		for i := range m.Fields {
			if m.Fields[i].Oneof < 0 && !m.Fields[i].Repeated && !used["_"+m.Fields[i].Name] && r.Intn(2) == 0 {
				used["_"+m.Fields[i].Name] = true
				m.Oneofs = append(m.Oneofs, "_"+m.Fields[i].Name)
				m.Fields[i].Oneof = len(m.Oneofs) - 1
			}
		}
	}
	ident := map[string]bool{}
	for i, k := 0, r.Intn(3); i < k; i++ {
		// nested type names are context, not what C42 quantifies over: keep their Go identifiers distinct
		if n := pick(npool); !ident[strs.GoCamelCase("M."+n)] {
			ident[strs.GoCamelCase("M."+n)] = true
			m.Msgs = append(m.Msgs, n)
		}
	}
	for i, k := 0, r.Intn(2); i < k; i++ {
		if n := pick(npool); !ident[strs.GoCamelCase("M."+n)] {
			ident[strs.GoCamelCase("M."+n)] = true
			m.Enums = append(m.Enums, n)
		}
	}
	return m
}

// removeField drops field i, and its oneof when that becomes empty.
func (m *MsgSpec) removeField(i int) *MsgSpec {
	c := m.clone()
	o := c.Fields[i].Oneof
	c.Fields = append(c.Fields[:i], c.Fields[i+1:]...)
	if o >= 0 {
		n := 0
		for _, f := range c.Fields {
			if f.Oneof == o {
				n++
			}
		}
		if n == 0 {
			c.Oneofs = append(c.Oneofs[:o], c.Oneofs[o+1:]...)
			for j := range c.Fields {
				if c.Fields[j].Oneof > o {
					c.Fields[j].Oneof--
				}
			}
		}
	}
	return c
}

// shrink greedily removes parts of the spec while pred keeps holding.
func shrink(m *MsgSpec, pred func(*MsgSpec) bool) *MsgSpec {
	for changed := true; changed; {
		changed = false
		for i := 0; i < len(m.Fields); i++ {
			if c := m.removeField(i); pred(c) {
				m, changed = c, true
				i--
			}
		}
		for i := 0; i < len(m.Msgs); i++ {
			c := m.clone()
			c.Msgs = append(c.Msgs[:i], c.Msgs[i+1:]...)
			if pred(c) {
				m, changed = c, true
				i--
			}
		}
		for i := 0; i < len(m.Enums); i++ {
			c := m.clone()
			c.Enums = append(c.Enums[:i], c.Enums[i+1:]...)
			if pred(c) {
				m, changed = c, true
				i--
			}
		}
		for i := range m.Fields {
			if m.Fields[i].Repeated {
				c := m.clone()
				c.Fields[i].Repeated = false
				if pred(c) {
					m, changed = c, true
				}
			}
		}
		if m.Name != "M" {
			c := m.clone()
			c.Name = "M"
			if pred(c) {
				m, changed = c, true
			}
		}
		if m.Proto3 {
			c := m.clone()
			c.Proto3 = false
			if pred(c) {
				m, changed = c, true
			}
		}
	}
	return m
}

var scanLevels = []string{"API_OPEN", "API_OPAQUE"}

// msgResult is what one schema produced: the names according to protogen and to the model, the
// unexplained duplicates and the explained ones (by signature).
type msgResult struct {
	rejected bool
	err      string
	impl     string
	model    string
	dups     []Dup // unexplained
	known    map[string]Dup
	changed  bool
	genBytes int
}

func evalMsg(c *vh.Ctx, m *MsgSpec, askModel bool) msgResult {
	res := msgResult{known: map[string]Dup{}}
	ns, err := m.resolve()
	if err != nil {
		res.rejected, res.err = true, err.Error()
		return res
	}
	res.impl = ns.canon()
	if askModel && c.HasModel() {
		res.model = c.Ask("%s", m.line())
		if ml := c.Ask("methods%s", strings.TrimPrefix(m.line(), "msg")); ml != ns.methodLine() && res.model == res.impl {
			res.impl, res.model = "methods: "+ns.methodLine(), "methods: "+ml
		}
	} else {
		res.model = res.impl
	}
	for i, f := range ns.Fields {
		cc := strs.GoCamelCase(m.Fields[i].Name)
		if f.GoName != cc || f.Camel != cc || f.Hybrid || (f.Wrapper != "-" && f.Wrapper != ns.MsgIdent+"_"+f.GoName) {
			res.changed = true
		}
	}
	for i, o := range ns.Oneofs {
		cc := strs.GoCamelCase(m.Oneofs[i])
		if o.GoName != cc || o.Camel != cc || o.Hybrid {
			res.changed = true
		}
	}
	// direct checks on the names protogen reports (independent of the generator templates)
	var direct []Dup
	direct = append(direct, openNameDups(m, ns)...)
	direct = append(direct, opaqueNameDups(m, ns)...)
	for _, lv := range scanLevels {
		d, size, err := m.generate(lv)
		if err != nil {
			res.rejected, res.err = true, "generate: "+err.Error()
			return res
		}
		res.genBytes += size
		direct = append(direct, d...)
	}
	for _, d := range direct {
		if sig := classify(m, ns, d); sig != "" {
			if _, ok := res.known[sig]; !ok {
				res.known[sig] = d
			}
		} else {
			res.dups = append(res.dups, d)
		}
	}
	return res
}

func dupsOf(names []string, level, scope string) []Dup {
	cnt := map[string]int{}
	for _, n := range names {
		cnt[n]++
	}
	var out []Dup
	for n, k := range cnt {
		if k > 1 {
			out = append(out, Dup{Level: level, File: "protogen", Scope: scope, Name: n})
		}
	}
	sort.Slice(out, func(i, j int) bool { return out[i].Name < out[j].Name })
	return out
}

// openNameDups evaluates the open-API clause on protogen's own output: struct field names (fields outside
// oneofs, oneofs), Get methods (every field, every real oneof), the fixed methods, and the package-level
// type names (message, nested types, wrapper types).
func openNameDups(m *MsgSpec, ns *Names) []Dup {
	members := []string{"Reset", "String", "ProtoMessage", "ProtoReflect", "Descriptor"}
	types := []string{ns.MsgIdent}
	types = append(types, ns.Nested...)
	for i, f := range ns.Fields {
		if m.Fields[i].Oneof < 0 || m.synthetic(m.Fields[i].Oneof) {
			members = append(members, f.GoName)
		} else {
			types = append(types, f.Wrapper)
		}
		members = append(members, f.Getter)
	}
	for i, o := range ns.Oneofs {
		if !m.synthetic(i) {
			members = append(members, o.GoName, "Get"+o.GoName)
		}
	}
	return append(dupsOf(members, "API_OPEN", ns.MsgIdent), dupsOf(types, "API_OPEN", "")...)
}

// opaqueNameDups evaluates the opaque clause on the method names protogen's MethodName API reports.
func opaqueNameDups(m *MsgSpec, ns *Names) []Dup {
	members := []string{"Reset", "String", "ProtoMessage", "ProtoReflect"}
	for _, ms := range ns.OpaqueMethods {
		members = append(members, ms...)
	}
	for i, o := range ns.Oneofs {
		if !m.synthetic(i) {
			members = append(members, "Has"+o.Camel, "Clear"+o.Camel, "Which"+o.Camel)
		}
	}
	return dupsOf(members, "API_OPAQUE", ns.MsgIdent)
}

var knownSeen = map[string]bool{}

func checkMsg(c *vh.Ctx, m *MsgSpec, origin string) {
	in := Input{Kind: "msg", Spec: m, Line: m.line()}
	defer c.Recover("protogen / generator", in, "")
	res := evalMsg(c, m, true)
	if res.rejected {
		c.Hist("msg:rejected-by-protodesc")
		// the generators only produce valid descriptors: a rejection is a harness defect, make it visible
		c.Check(false, "schema rejected: "+res.err, in, "harness-invalid-schema")
		return
	}
	c.Hist("msg:" + origin)
	if !c.Compare("protogen names (open GoName:wrapper, opaque camelCase:hybrid flag; oneofs; nested)", in, res.impl, res.model) {
		// minimise the disagreement
		mm := shrink(m, func(x *MsgSpec) bool {
			r := evalMsg(c, x, true)
			return !r.rejected && r.impl != r.model
		})
		if mm != m {
			r := evalMsg(c, mm, true)
			c.Compare("protogen names (minimised)", Input{Kind: "msg", Spec: mm, Line: mm.line()}, r.impl, r.model)
		}
	}
	if len(res.dups) > 0 {
		mm := shrink(m, func(x *MsgSpec) bool {
			r := evalMsg(c, x, false)
			return !r.rejected && len(r.dups) > 0
		})
		r := evalMsg(c, mm, false)
		var names []string
		for _, d := range r.dups {
			names = append(names, d.String())
		}
		c.Check(false, "identifiers declared twice in one generated message: "+strings.Join(names, " "),
			Input{Kind: "msg", Level: r.dups[0].Level, Spec: mm, Line: mm.line()}, "")
		c.Hist("msg:VIOLATION-duplicate")
	}
	var sigs []string
	for s := range res.known {
		sigs = append(sigs, s)
	}
	sort.Strings(sigs)
	for _, s := range sigs {
		c.Hist("known:" + s)
		if !knownSeen[s] {
			// report each known collision class once per run, minimised, so that bin/check prints KNOWN-FINDING
			knownSeen[s] = true
			s := s
			mm := shrink(m, func(x *MsgSpec) bool {
				r := evalMsg(c, x, false)
				_, ok := r.known[s]
				return !r.rejected && ok && len(r.dups) == 0
			})
			r := evalMsg(c, mm, false)
			d := r.known[s]
			c.Check(false, "identifier declared twice in one generated message: "+d.String(),
				Input{Kind: "msg", Level: d.Level, Spec: mm, Line: mm.line()}, s)
		}
	}
	if len(res.known) == 0 && len(res.dups) == 0 {
		c.Hist("msg:all-identifiers-distinct")
	}
	c.Case("m:"+m.line(), res.changed)
	if res.changed {
		c.Sample(map[string]string{"schema": m.line(), "names": res.impl})
	}
}

func F(name string, num int, oneof int) FieldSpec { return FieldSpec{Name: name, Num: num, Oneof: oneof} }

// witnesses are the schemas of the findings, replayed on every run (each must still collide, with the
// expected signature: if one stops colliding the code was repaired and the model/known list must follow).
var witnesses = []struct {
	sig  string
	spec *MsgSpec
}{
	{sigOpaqueSuffix, &MsgSpec{Name: "M", Fields: []FieldSpec{F("_foo", 1, -1), F("x_foo", 2, -1), F("XFoo_2", 3, -1)}}},
	{sigWrapper, &MsgSpec{Name: "M", Fields: []FieldSpec{F("a", 1, 0), F("a_", 2, 0)}, Oneofs: []string{"o"}, Msgs: []string{"A"}}},
	{sigOneofGetter, &MsgSpec{Name: "M", Fields: []FieldSpec{F("get_x", 1, -1), F("a", 2, 0)}, Oneofs: []string{"x"}}},
	{sigOneofCamel, &MsgSpec{Name: "M", Fields: []FieldSpec{F("a", 1, 0), F("fooBar", 2, -1)}, Oneofs: []string{"foo_bar"}}},
}

func runMessages(c *vh.Ctx) {
	for _, w := range witnesses {
		res := evalMsg(c, w.spec, false)
		_, ok := res.known[w.sig]
		c.Check(!res.rejected && ok, "witness of known finding "+w.sig+" no longer collides (code repaired? update model, Props/C42 and known-findings.txt)",
			Input{Kind: "msg", Spec: w.spec, Line: w.spec.line()}, "")
		checkMsg(c, w.spec, "witness")
	}
	// schemas of the two repaired findings (25d16a6, f3220dc): any duplicate they produce again is unclassified
	for _, m := range []*MsgSpec{
		{Name: "M", Fields: []FieldSpec{F("proto_reflect", 1, -1)}},
		{Name: "M", Fields: []FieldSpec{F("a", 1, 0), F("b", 2, 1), F("GetX", 3, -1)}, Oneofs: []string{"get_x", "x"}},
		{Name: "M", Fields: []FieldSpec{F("GetGetX", 1, -1), F("a", 2, 0), F("b", 3, 1), F("c", 4, 2), F("d", 5, 3), F("get_get_x", 6, -1)},
			Oneofs: []string{"get_x", "getGetX", "x", "GetX"}},
	} {
		checkMsg(c, m, "repaired-witness")
	}
	// reserved method names, one field each: the Go name must be moved out of the way
	for _, n := range []string{"reset", "string", "proto_message", "proto_reflect", "marshal", "unmarshal", "extension_range_array", "extension_map", "descriptor"} {
		checkMsg(c, &MsgSpec{Name: "M", Fields: []FieldSpec{F(n, 1, -1)}}, "reserved")
		checkMsg(c, &MsgSpec{Name: "M", Fields: []FieldSpec{F("get_"+n, 1, -1), F(n, 2, -1)}}, "reserved")
	}
	// exhaustive: ordered selections from the small pool, no oneofs (the unconditional open-API theorem)
	k := 2 // (the thorough tier samples longer selections through the random stream below)
	var sel []int
	var rec func()
	rec = func() {
		if len(sel) >= 2 && !c.Failed() {
			m := &MsgSpec{Name: "M"}
			for i, s := range sel {
				m.Fields = append(m.Fields, F(smallPool[s], i+1, -1))
			}
			checkMsg(c, m, "exhaustive-small-pool")
		}
		if len(sel) == k {
			return
		}
		for i := range smallPool {
			dup := false
			for _, s := range sel {
				dup = dup || s == i
			}
			if !dup {
				sel = append(sel, i)
				rec()
				sel = sel[:len(sel)-1]
			}
		}
	}
	rec()
	for i, n := 0, c.N(2500, 20000); i < n && !c.Failed(); i++ {
		checkMsg(c, genSpec(c), "random")
	}
}
