package main

import (
	"strings"

	"google.golang.org/protobuf/internal/strs"
)

// Signatures of the collisions that are known to exist on the unchanged tree (known-findings.txt).
// Each is a conjunction of concrete predicates on the schema and on the names protogen assigned to it;
// a duplicate declaration that satisfies none of them is reported unclassified (a VIOLATION).
const (
	// DESIGN.md finding 6: two fields share a camelCase, one gets "_<number>" appended by
	// resolveCamelCaseConflicts and thereby takes the camelCase of a third field.
	sigOpaqueSuffix = "opaque-camelcase-suffix-collision"
	// DESIGN.md finding 7: a oneof wrapper type renamed with "_" (because it met a nested message/enum)
	// meets the wrapper type of another member.
	sigWrapper = "oneof-wrapper-underscore-collision"
	// open API: the method Get<Oneof> generated for a oneof is not reserved by makeNameUnique(name, false)
	// ("this assumes that a getter method is not generated for oneofs. This is incorrect", protogen.go).
	sigOneofGetter = "oneof-getter-not-reserved"
	// open API: makeNameUnique(name, false) executes usedNames["Get"+name] = false and thereby releases a
	// name that an earlier field or oneof holds; a later oneof or field is given that same Go name.
	sigOneofRelease = "oneof-releases-get-name"
	// opaque/hybrid API: resolveCamelCaseConflicts looks at fields only; a oneof whose camelCase equals the
	// camelCase of a field or of another oneof gets the same Has/Clear/Which method names.
	sigOneofCamel = "opaque-oneof-camelcase-collision"
)

func count[T any](xs []T, p func(T) bool) int {
	n := 0
	for _, x := range xs {
		if p(x) {
			n++
		}
	}
	return n
}

// goNameDup reports whether name n is the Go name of two struct members (fields or oneofs), or whether
// two fields share a Go name: the state that only the "release" defect can produce.
func goNameDup(ns *Names, n string) bool {
	k := count(ns.Fields, func(f FieldNames) bool { return f.GoName == n }) +
		count(ns.Oneofs, func(o OneofNames) bool { return o.GoName == n })
	return k >= 2
}

func wasSuffixed(m *MsgSpec, i int, camel string) bool {
	c := strs.GoCamelCase(m.Fields[i].Name)
	if c == "Build" {
		c = "Build_"
	}
	return camel != c
}

// classify explains one duplicate declaration, or returns "".
func classify(m *MsgSpec, ns *Names, d Dup) string {
	// package scope, or the member list of a wrapper struct: two oneof members were given the same wrapper type
	w := d.Name
	if d.Scope != "" && d.Scope != ns.MsgIdent && d.Scope != ns.MsgIdent+"_builder" {
		w = d.Scope
	}
	if d.Scope != ns.MsgIdent && d.Scope != ns.MsgIdent+"_builder" {
		// in the opaque API the wrapper types are unexported: first letter in lower case
		same := func(f FieldNames) bool {
			return f.Wrapper == w || (len(f.Wrapper) > 0 && strings.ToLower(f.Wrapper[:1])+f.Wrapper[1:] == w)
		}
		var idx []int
		for i, f := range ns.Fields {
			if m.Fields[i].Oneof >= 0 && !m.synthetic(m.Fields[i].Oneof) && same(f) {
				idx = append(idx, i)
			}
		}
		if len(idx) >= 2 {
			renamed, dupGo := false, false
			for _, i := range idx {
				if ns.Fields[i].Wrapper != ns.MsgIdent+"_"+ns.Fields[i].GoName {
					renamed = true
				}
				if goNameDup(ns, ns.Fields[i].GoName) {
					dupGo = true
				}
			}
			switch {
			case dupGo:
				return sigOneofRelease
			case renamed:
				return sigWrapper
			}
		}
		return ""
	}
	if d.Scope == ns.MsgIdent+"_builder" {
		// builder struct: fields are named by camelCase
		return classifyCamel(m, ns, d.Name)
	}
	// members of the message struct
	n := d.Name
	if d.Level == "API_OPEN" || d.Level == "API_HYBRID" {
		if goNameDup(ns, n) || (strings.HasPrefix(n, "Get") && goNameDup(ns, n[3:]) &&
			count(ns.Fields, func(f FieldNames) bool { return f.GoName == n[3:] }) >= 1) {
			return sigOneofRelease
		}
	}
	if d.Level == "API_OPEN" {
		if strings.HasPrefix(n, "Get") {
			for oi, o := range ns.Oneofs {
				if !m.synthetic(oi) && o.GoName == n[3:] {
					return sigOneofGetter
				}
			}
		}
		return ""
	}
	for _, p := range []string{"Get", "Set", "Has", "Clear", "Which"} {
		if strings.HasPrefix(n, p) {
			c := n[len(p):]
			if s := classifyCamel(m, ns, c); s != "" {
				return s
			}
			if d.Level == "API_HYBRID" && strings.HasPrefix(c, "_") {
				if s := classifyCamel(m, ns, c[1:]); s != "" {
					return s
				}
			}
		}
	}
	return ""
}

// classifyCamel explains why camelCase c is carried by two fields/oneofs.
func classifyCamel(m *MsgSpec, ns *Names, c string) string {
	var fi []int
	for i, f := range ns.Fields {
		if f.Camel == c {
			fi = append(fi, i)
		}
	}
	no := count(ns.Oneofs, func(o OneofNames) bool { return o.Camel == c })
	switch {
	case no >= 1 && no+len(fi) >= 2:
		return sigOneofCamel
	case len(fi) >= 2:
		for _, i := range fi {
			if wasSuffixed(m, i, c) {
				return sigOpaqueSuffix
			}
		}
	}
	return ""
}
