package main

import (
	"strings"

	"google.golang.org/protobuf/internal/strs"
)

// Signatures of the collisions that exist on the unchanged tree (known-findings.txt).  (Two former classes,
// protoreflect-not-reserved and oneof-releases-get-name, were repaired in /repo by 25d16a6 and f3220dc and are
// no longer classified: a recurrence is a VIOLATION.)  Each is a
// conjunction of concrete predicates on the schema, on the names protogen assigned to it and on the
// identifier that is declared twice; a duplicate declaration that satisfies none of them is reported
// unclassified and is a VIOLATION.
const (
	// DESIGN.md finding 6: two fields share a camelCase, resolveCamelCaseConflicts appends "_<number>" and
	// thereby gives one of them the camelCase of a third field.
	sigOpaqueSuffix = "opaque-camelcase-suffix-collision"
	// DESIGN.md finding 7: a oneof wrapper type renamed with "_" (because it met a nested message/enum, or
	// because its field was renamed) meets the wrapper type of another member.
	sigWrapper = "oneof-wrapper-underscore-collision"
	// open API: the method Get<Oneof> generated for a oneof is not reserved by makeNameUnique(name, false)
	// ("this assumes that a getter method is not generated for oneofs. This is incorrect", protogen.go).
	sigOneofGetter = "oneof-getter-not-reserved"
	// opaque API: resolveCamelCaseConflicts looks at fields only; a oneof whose camelCase equals the
	// camelCase of a field or of another oneof gets the same Has/Clear/Which method names.
	sigOneofCamel = "opaque-oneof-camelcase-collision"
)

func count[T any](xs []T, p func(T) bool) int {
	n := 0
	for _, x := range xs {
		if p(x) {
			n++
		}
	}
	return n
}

func wasSuffixed(m *MsgSpec, i int, camel string) bool {
	c := strs.GoCamelCase(m.Fields[i].Name)
	if c == "Build" {
		c = "Build_"
	}
	return camel != c
}

func lowerFirst(s string) string {
	if s == "" {
		return s
	}
	return strings.ToLower(s[:1]) + s[1:]
}

// classify explains one duplicate declaration, or returns "".
func classify(m *MsgSpec, ns *Names, d Dup) string {
	inMsg := d.Scope == ns.MsgIdent
	inBuilder := d.Scope == ns.MsgIdent+"_builder"
	if !inMsg && !inBuilder {
		// package scope, or the member list of a wrapper struct: two real oneof members have one wrapper type
		w := d.Name
		if d.Scope != "" {
			w = d.Scope
		}
		var idx []int
		for i, f := range ns.Fields {
			if m.Fields[i].Oneof >= 0 && !m.synthetic(m.Fields[i].Oneof) &&
				(f.Wrapper == w || lowerFirst(f.Wrapper) == w) { // opaque API: wrapper types are unexported
				idx = append(idx, i)
			}
		}
		if len(idx) >= 2 {
			for _, i := range idx {
				if ns.Fields[i].Wrapper != ns.MsgIdent+"_"+ns.Fields[i].GoName ||
					ns.Fields[i].GoName != strs.GoCamelCase(m.Fields[i].Name) {
					return sigWrapper // one of them carries an appended "_"
				}
			}
		}
		return ""
	}
	if inBuilder {
		return classifyCamel(m, ns, d.Name) // builder struct: fields are named by camelCase
	}
	n := d.Name
	if d.Level == "API_OPEN" {
		// the duplicate disappears when the Get methods of the oneofs are left out
		other := 0
		for i, f := range ns.Fields {
			if (m.Fields[i].Oneof < 0 || m.synthetic(m.Fields[i].Oneof)) && f.GoName == n {
				other++
			}
			if f.Getter == n {
				other++
			}
		}
		getters := 0
		for oi, o := range ns.Oneofs {
			if !m.synthetic(oi) {
				if o.GoName == n {
					other++
				}
				if "Get"+o.GoName == n {
					getters++
				}
			}
		}
		if getters >= 1 && other <= 1 {
			return sigOneofGetter
		}
		return ""
	}
	for _, p := range []string{"Get", "Set", "Has", "Clear", "Which"} {
		if strings.HasPrefix(n, p) {
			if s := classifyCamel(m, ns, n[len(p):]); s != "" {
				return s
			}
		}
	}
	return ""
}

// classifyCamel explains why camelCase c is carried by two fields/oneofs.
func classifyCamel(m *MsgSpec, ns *Names, c string) string {
	var fi []int
	for i, f := range ns.Fields {
		if f.Camel == c {
			fi = append(fi, i)
		}
	}
	no := 0
	for i, o := range ns.Oneofs {
		if o.Camel == c && !m.synthetic(i) {
			no++
		}
	}
	switch {
	case no >= 1 && no+len(fi) >= 2:
		return sigOneofCamel
	case len(fi) >= 2:
		for _, i := range fi {
			if wasSuffixed(m, i, c) {
				return sigOpaqueSuffix
			}
		}
	}
	return ""
}
