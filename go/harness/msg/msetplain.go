package main

import (
	"bytes"
	"fmt"

	"google.golang.org/protobuf/encoding/protowire"
	messagesetpb "google.golang.org/protobuf/internal/testprotos/messageset/messagesetpb"
	vh "google.golang.org/protobuf/internal/zz_verif_vh"
	"google.golang.org/protobuf/proto"
	"google.golang.org/protobuf/types/dynamicpb"
)

// C04 on message_set_wire_format types in the DEFAULT build (no protolegacy tag): such a type is handled as an
// ordinary extendable message, its items are unknown fields. Size must equal the length of what Marshal writes,
// at top level and nested, and the bytes must survive a round trip.
var msetMD = (&messagesetpb.MessageSet{}).ProtoReflect().Descriptor()

func msetPlainCases(c *C) {
	for i := 0; i < c.N(200, 5000) && !c.Failed(); i++ {
		var set []byte
		for k := c.Rand.Intn(4); k > 0; k-- {
			typeID := uint64(1 + c.Rand.Intn(1<<20))
			payload := randUnknown(c, msetMD)
			set = protowire.AppendTag(set, 1, protowire.StartGroupType)
			set = protowire.AppendTag(set, 2, protowire.VarintType)
			set = protowire.AppendVarint(set, typeID)
			set = protowire.AppendTag(set, 3, protowire.BytesType)
			set = protowire.AppendBytes(set, payload)
			set = protowire.AppendTag(set, 1, protowire.EndGroupType)
		}
		if c.Rand.Intn(3) == 0 {
			set = append(set, randUnknown(c, msetMD)...)
		}
		nested := protowire.AppendBytes(protowire.AppendTag(nil, 1, protowire.BytesType), set)
		for _, tc := range []struct {
			name string
			m    proto.Message
			b    []byte
		}{
			{"MessageSet", &messagesetpb.MessageSet{}, set},
			{"MessageSetContainer", &messagesetpb.MessageSetContainer{}, nested},
			{"dynamic MessageSetContainer", dynamicpb.NewMessage((&messagesetpb.MessageSetContainer{}).ProtoReflect().Descriptor()), nested},
		} {
			in := map[string]any{"type": tc.name, "bytes": vh.Hex(tc.b), "build": "default (no protolegacy)"}
			func() {
				defer c.Recover("MessageSet type in the default build", in, "")
				if err := (proto.UnmarshalOptions{AllowPartial: true}).Unmarshal(tc.b, tc.m); err != nil {
					c.Hist("mset-plain:unmarshal-refused")
					return // refusing the type outright is consistent
				}
				n := proto.Size(tc.m)
				out, err := partial.Marshal(tc.m)
				if err != nil && bytes.Contains([]byte(err.Error()), []byte("message_set_wire_format")) {
					c.Hist("mset-plain:marshal-refused")
					return
				}
				c.Check(err == nil, fmt.Sprintf("Marshal of a decoded message fails: %v", err), in, "")
				if err == nil {
					c.Check(n == len(out), fmt.Sprintf("Size=%d, len(Marshal)=%d", n, len(out)), in, "")
					m2 := tc.m.ProtoReflect().New().Interface()
					c.Check(proto.Unmarshal(out, m2) == nil && proto.Equal(tc.m, m2), "Marshal output does not decode to an equal message", in, "")
				}
				c.Hist("mset-plain:ok")
				c.Case("msetplain/"+tc.name+string(tc.b), len(tc.b) > 0)
			}()
		}
	}
}
