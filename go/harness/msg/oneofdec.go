package main

import (
	"fmt"

	"google.golang.org/protobuf/encoding/protojson"
	"google.golang.org/protobuf/encoding/prototext"
	vh "google.golang.org/protobuf/internal/zz_verif_vh"
	"google.golang.org/protobuf/proto"
	"google.golang.org/protobuf/reflect/protoreflect"
)

// ---------- C12: encodings naming two members of one oneof ----------
//
// For every root type, every oneof, every ORDERED pair (a, b) of distinct members, with random values:
//   binary:  bytes(a) ++ bytes(b)  decodes, exactly b is populated and holds b's value (last one wins);
//   text:    text(a) text(b)       is rejected;
//   JSON:    {a-entry, b-entry}    is rejected.
// Exhaustive over the pairs; both families; the values come from the shared generators.
func oneofDecodeCases(c *C, r *Root, dyn bool) {
	mt := r.MT
	if dyn {
		mt = r.DT
	}
	md := mt.Descriptor()
	for i := 0; i < md.Oneofs().Len(); i++ {
		od := md.Oneofs().Get(i)
		if od.IsSynthetic() {
			continue
		}
		for ai := 0; ai < od.Fields().Len(); ai++ {
			for bi := 0; bi < od.Fields().Len(); bi++ {
				if ai != bi {
					oneofPair(c, r, mt, dyn, od.Fields().Get(ai), od.Fields().Get(bi))
				}
			}
		}
	}
}

func oneofMember(c *C, r *Root, mt protoreflect.MessageType, fd protoreflect.FieldDescriptor) protoreflect.Message {
	m := mt.New()
	if fd.Message() != nil {
		sub := m.NewField(fd)
		if c.Rand.Intn(3) != 0 {
			fill(c, sub.Message(), 2, Opts{MaxDepth: 3, FieldProb: 3}, r.Exts)
		}
		m.Set(fd, sub)
	} else {
		v := scalar(c, fd, Opts{})
		if c.Rand.Intn(3) == 0 {
			v = fd.Default()
			if fd.Kind() == protoreflect.BytesKind {
				v = protoreflect.ValueOfBytes(nil)
			}
		}
		m.Set(fd, v)
	}
	return m
}

func oneofPair(c *C, r *Root, mt protoreflect.MessageType, dyn bool, a, b protoreflect.FieldDescriptor) {
	ma, mb := oneofMember(c, r, mt, a), oneofMember(c, r, mt, b)
	in := map[string]any{"type": r.Name, "family": family(dyn), "oneof": string(a.ContainingOneof().Name()), "first": string(a.Name()), "second": string(b.Name())}
	defer c.Recover("decoding two members of one oneof", in, "")
	ba, e1 := partial.Marshal(ma.Interface())
	bb, e2 := partial.Marshal(mb.Interface())
	if e1 != nil || e2 != nil {
		return
	}
	// binary: last one wins
	both := append(append([]byte{}, ba...), bb...)
	in["bytes"] = vh.Hex(both)
	for _, lazy := range []bool{false, true} {
		m := mt.New()
		err := unm(lazy).Unmarshal(both, m.Interface())
		if !c.Check(err == nil, fmt.Sprintf("binary decoding of two members of one oneof fails: %v", err), in, "") {
			continue
		}
		w := m.WhichOneof(a.ContainingOneof())
		c.Check(w != nil && w.Number() == b.Number() && !m.Has(a) && m.Has(b), fmt.Sprintf("binary decoding: WhichOneof=%v Has(first)=%v Has(second)=%v, the last member on the wire must win", w, m.Has(a), m.Has(b)), in, "")
		c.Check(proto.Equal(m.Interface(), mb.Interface()), "binary decoding: the surviving member does not hold the last value on the wire", in, "")
	}
	// text
	ta, e1 := prototext.MarshalOptions{AllowPartial: true}.Marshal(ma.Interface())
	tb, e2 := prototext.MarshalOptions{AllowPartial: true}.Marshal(mb.Interface())
	if e1 == nil && e2 == nil {
		doc := string(ta) + " " + string(tb)
		in["text"] = doc
		// control: each half alone is accepted
		okA := prototext.UnmarshalOptions{AllowPartial: true}.Unmarshal(ta, mt.New().Interface()) == nil
		okB := prototext.UnmarshalOptions{AllowPartial: true}.Unmarshal(tb, mt.New().Interface()) == nil
		if okA && okB {
			err := prototext.UnmarshalOptions{AllowPartial: true}.Unmarshal([]byte(doc), mt.New().Interface())
			c.Check(err != nil, "prototext.Unmarshal accepts input naming two members of one oneof", in, "")
			c.Hist("text-two-members:" + map[bool]string{true: "rejected", false: "ACCEPTED"}[err != nil])
		}
	}
	// JSON
	ja, e1 := protojson.MarshalOptions{AllowPartial: true}.Marshal(ma.Interface())
	jb, e2 := protojson.MarshalOptions{AllowPartial: true}.Marshal(mb.Interface())
	if e1 == nil && e2 == nil && len(ja) > 2 && len(jb) > 2 {
		doc := string(ja[:len(ja)-1]) + "," + string(jb[1:])
		in["json"] = doc
		delete(in, "text")
		okA := protojson.UnmarshalOptions{AllowPartial: true}.Unmarshal(ja, mt.New().Interface()) == nil
		okB := protojson.UnmarshalOptions{AllowPartial: true}.Unmarshal(jb, mt.New().Interface()) == nil
		if okA && okB {
			err := protojson.UnmarshalOptions{AllowPartial: true}.Unmarshal([]byte(doc), mt.New().Interface())
			c.Check(err != nil, "protojson.Unmarshal accepts input naming two members of one oneof", in, "")
			c.Hist("json-two-members:" + map[bool]string{true: "rejected", false: "ACCEPTED"}[err != nil])
		}
	}
	c.Case(fmt.Sprintf("%s/%v/%s>%s/%x", r.Name, dyn, a.Name(), b.Name(), both), true)
}
