package main

import (
	_ "google.golang.org/protobuf/internal/testprotos/conformance"
	"google.golang.org/protobuf/reflect/protoregistry"
	"google.golang.org/protobuf/runtime/protoiface"
	"google.golang.org/protobuf/encoding/protowire"
	"fmt"
	"strings"

	vh "google.golang.org/protobuf/internal/zz_verif_vh"
	"google.golang.org/protobuf/proto"
	"google.golang.org/protobuf/reflect/protoreflect"
	"google.golang.org/protobuf/types/dynamicpb"
)

// ---------- C11 / C12 / C15 / C28: reflection operation histories ----------

func (f *Flat) valTok(fd protoreflect.FieldDescriptor, v protoreflect.Value) string {
	var sb strings.Builder
	f.snapVal(&sb, fd, v)
	return sb.String()
}

func allFields(r *Root, md protoreflect.MessageDescriptor) []protoreflect.FieldDescriptor {
	var all []protoreflect.FieldDescriptor
	for i := 0; i < md.Fields().Len(); i++ {
		all = append(all, md.Fields().Get(i))
	}
	for _, xt := range r.Flat.Exts[md.FullName()] {
		all = append(all, xt.TypeDescriptor())
	}
	return all
}

func runOps(c *C) {
	c.R.Rule = "operation histories of length <= 40 from the empty message over about 40 corpus root types x {generated (open/hybrid/opaque), dynamicpb}: Set (scalars incl. zero values, bytes, whole submessages, oneof members, extensions), Clear, Mutable, list Append/Set/Truncate, map Set/Clear, SetUnknown, Reset, Unmarshal (non-merge, valid and corrupted input). After every step: reflection snapshot vs the Lean model's state; Has == populated-in-Range; Get of unset == default/empty read-only; at most one populated member per oneof and WhichOneof names it. C12 additionally: for every oneof of every root type and every ordered pair of distinct members, binary concatenation (last wins, both lazy modes), text concatenation and merged JSON objects (must be rejected), exhaustive over the pairs with random values. Non-trivial = history reaches a message with >= 2 populated fields; distinct by final snapshot."
	rs := roots(c)
	per := c.N(12, 500)
	if c.Prop == "C12" {
		// oneofs with members whose JSON form can be null (google.protobuf.NullValue, google.protobuf.Value): only
		// for the two-member decoding stream
		for _, n := range []string{"protobuf_test_messages.proto3.TestAllTypesProto3", "protobuf_test_messages.proto2.TestAllTypesProto2"} {
			if mt, err := protoregistry.GlobalTypes.FindMessageByName(protoreflect.FullName(n)); err == nil {
				xr := &Root{Name: n, MT: mt, DT: dynamicpb.NewMessageType(mt.Descriptor())}
				for k := 0; k < c.N(2, 20) && !c.Failed(); k++ {
					oneofDecodeCases(c, xr, false)
					oneofDecodeCases(c, xr, true)
				}
			}
		}
	}
	for _, r := range rs {
		r.Flat.Send(c)
		if c.Prop == "C12" {
			for k := 0; k < c.N(2, 40) && !c.Failed(); k++ {
				oneofDecodeCases(c, r, false)
				oneofDecodeCases(c, r, true)
			}
		}
		for i := 0; i < per && !c.Failed(); i++ {
			for _, dyn := range []bool{false, true} {
				history(c, r, dyn)
			}
		}
	}
}

func history(c *C, r *Root, dyn bool) {
	mt := r.MT
	if dyn {
		mt = r.DT
	}
	m := mt.New()
	md := m.Descriptor()
	fds := allFields(r, md)
	state := "( u - )"
	var trace []string
	in := map[string]any{"type": r.Name, "family": family(dyn)}
	maxPop := 0
	defer func() {
		if e := recover(); e != nil {
			in["ops"] = trace
			c.Fail(vh.Failure{Kind: "panic", What: fmt.Sprintf("reflection history panics: %v", e), Input: in})
		}
	}()
	pick := func(pred func(fd protoreflect.FieldDescriptor) bool) protoreflect.FieldDescriptor {
		var cand []protoreflect.FieldDescriptor
		for _, fd := range fds {
			if pred(fd) {
				cand = append(cand, fd)
			}
		}
		if len(cand) == 0 {
			return nil
		}
		return cand[c.Rand.Intn(len(cand))]
	}
	singular := func(fd protoreflect.FieldDescriptor) bool { return !fd.IsList() && !fd.IsMap() }
	n := 5 + c.Rand.Intn(36)
	for step := 0; step < n; step++ {
		var op string // model request "op 0 <name> args"
		resync := false
		deferredState := ""
		switch k := c.Rand.Intn(14); k {
		case 0, 1, 2: // set scalar
			fd := pick(func(fd protoreflect.FieldDescriptor) bool { return singular(fd) && fd.Message() == nil })
			if fd == nil {
				continue
			}
			v := scalar(c, fd, Opts{NegZero: true})
			if c.Rand.Intn(3) == 0 {
				v = fd.Default() // zero / default value: presence discipline decides
				if fd.Kind() == protoreflect.BytesKind {
					v = protoreflect.ValueOfBytes(nil)
				}
			}
			m.Set(fd, v)
			op = fmt.Sprintf("set %d %s", fd.Number(), r.Flat.valTok(fd, v))
			// presence discipline, stated on the implementation alone: a field that is required, a oneof member,
			// proto2-optional / proto3-optional / editions EXPLICIT reports Has after Set of ANY value; an
			// implicit-presence field exactly for non-zero values.
			explicit := fd.Cardinality() == protoreflect.Required || fd.ContainingOneof() != nil || fd.HasPresence()
			in["ops"] = append(append([]string{}, trace...), op)
			if explicit {
				c.Check(m.Has(fd), fmt.Sprintf("Has(%s) is false right after Set(%v) on an explicit-presence field (required=%v oneof=%v HasPresence=%v)", fd.Name(), v, fd.Cardinality() == protoreflect.Required, fd.ContainingOneof() != nil, fd.HasPresence()), in, "")
			} else {
				c.Check(m.Has(fd) == !isZeroValue(fd, v), fmt.Sprintf("Has(%s)=%v after Set(%v) on an implicit-presence field", fd.Name(), m.Has(fd), v), in, "")
			}
		case 3: // set whole message
			fd := pick(func(fd protoreflect.FieldDescriptor) bool { return singular(fd) && fd.Message() != nil })
			if fd == nil {
				continue
			}
			sub := m.NewField(fd)
			fill(c, sub.Message(), 2, Opts{MaxDepth: 3, FieldProb: 3}, r.Exts)
			m.Set(fd, sub)
			op = fmt.Sprintf("set %d %s", fd.Number(), r.Flat.valTok(fd, sub))
		case 4, 5:
			fd := pick(func(fd protoreflect.FieldDescriptor) bool { return true })
			if fd == nil {
				continue
			}
			m.Clear(fd)
			op = fmt.Sprintf("clear %d", fd.Number())
			in["ops"] = append(append([]string{}, trace...), op)
			c.Check(!m.Has(fd), fmt.Sprintf("Has(%s) is still true right after Clear", fd.Name()), in, "")
		case 6:
			fd := pick(func(fd protoreflect.FieldDescriptor) bool { return singular(fd) && fd.Message() != nil })
			if fd == nil {
				continue
			}
			was := m.Has(fd)
			mm := m.Mutable(fd).Message()
			op = fmt.Sprintf("mutable %d", fd.Number())
			// the contract of Mutable, stated on the implementation alone
			in["ops"] = append(append([]string{}, trace...), op)
			c.Check(m.Has(fd), fmt.Sprintf("Has(%s) is false right after Mutable", fd.Name()), in, "")
			if !was {
				c.Check(isEmptyRO(mm), fmt.Sprintf("Mutable(%s) on an unpopulated field returned a non-empty message", fd.Name()), in, "")
			}
		case 7, 8:
			fd := pick(func(fd protoreflect.FieldDescriptor) bool { return fd.IsList() })
			if fd == nil {
				continue
			}
			l := m.Mutable(fd).List()
			// Mutable hands out a reference to the value STORED in the field: a second Mutable call (also on a
			// still empty list) must not detach the first handle
			l2 := l
			if c.Rand.Intn(2) == 0 {
				l2 = m.Mutable(fd).List()
			}
			var v protoreflect.Value
			if fd.Message() != nil {
				v = l.NewElement()
				fill(c, v.Message(), 2, Opts{MaxDepth: 3, FieldProb: 3}, r.Exts)
			} else {
				v = scalar(c, fd, Opts{NegZero: true})
			}
			if l.Len() > 0 && c.Rand.Intn(3) == 0 {
				i := c.Rand.Intn(l.Len())
				l.Set(i, v)
				op = fmt.Sprintf("lset %d %d %s", fd.Number(), i, r.Flat.valTok(fd, v))
			} else if l.Len() > 0 && c.Rand.Intn(4) == 0 {
				k := c.Rand.Intn(l.Len() + 1)
				l.Truncate(k)
				op = fmt.Sprintf("trunc %d %d", fd.Number(), k)
			} else {
				l.Append(v)
				op = fmt.Sprintf("append %d %s", fd.Number(), r.Flat.valTok(fd, v))
			}
			in["ops"] = append(append([]string{}, trace...), op+" (two Mutable handles)")
			c.Check(l.Len() == l2.Len() && m.Get(fd).List().Len() == l.Len(), fmt.Sprintf("list %s: an earlier Mutable handle was detached by a later Mutable call: handle lengths %d / %d, stored length %d", fd.Name(), l.Len(), l2.Len(), m.Get(fd).List().Len()), in, "")
		case 9, 10:
			fd := pick(func(fd protoreflect.FieldDescriptor) bool { return fd.IsMap() })
			if fd == nil {
				continue
			}
			mp := m.Mutable(fd).Map()
			key := scalar(c, fd.MapKey(), Opts{})
			if c.Rand.Intn(2) == 0 {
				key = protoreflect.ValueOf(fd.MapKey().Default().Interface())
			}
			if c.Rand.Intn(4) == 0 {
				mp.Clear(key.MapKey())
				op = fmt.Sprintf("mdel %d %s", fd.Number(), r.Flat.valTok(fd.MapKey(), key))
			} else {
				var v protoreflect.Value
				if fd.MapValue().Message() != nil {
					v = mp.NewValue()
					fill(c, v.Message(), 2, Opts{MaxDepth: 3, FieldProb: 3}, r.Exts)
				} else {
					v = scalar(c, fd.MapValue(), Opts{NegZero: true})
				}
				mp.Set(key.MapKey(), v)
				op = fmt.Sprintf("mput %d %s %s", fd.Number(), r.Flat.valTok(fd.MapKey(), key), r.Flat.valTok(fd.MapValue(), v))
			}
		case 11:
			var u []byte
			if c.Rand.Intn(3) != 0 {
				u = randUnknown(c, md)
			}
			m.SetUnknown(u)
			op = fmt.Sprintf("setunk %s", vh.Hex(u))
		case 12:
			proto.Reset(m.Interface())
			op = "reset"
			c.Check(r.Flat.Snap(m) == "( u - )" && proto.Equal(m.Interface(), mt.New().Interface()), "Reset does not yield an empty message", in, "")
		case 13: // Unmarshal without Merge: must erase all prior state
			src := newFilled(c, r, false, Opts{FieldProb: 3})
			b, err := partial.Marshal(src.Interface())
			if err != nil {
				continue
			}
			corrupt := c.Rand.Intn(4) == 0
			if corrupt {
				b, _ = mutateWire(c, b)
			}
			lazy := c.Rand.Intn(2) == 0
			var uerr error
			entry := "Unmarshal"
			if c.Rand.Intn(3) == 0 { // the third exported entry point
				entry = "UnmarshalState"
				_, uerr = unm(lazy).UnmarshalState(protoiface.UnmarshalInput{Buf: b, Message: m})
			} else {
				uerr = unm(lazy).Unmarshal(b, m.Interface())
			}
			_ = entry
			fresh := mt.New()
			ferr := unm(false).Unmarshal(b, fresh.Interface())
			trace = append(trace, fmt.Sprintf("unmarshal(lazy=%v) %s", lazy, vh.Hex(b))+map[bool]string{true: " (UnmarshalState)", false: ""}[entry == "UnmarshalState"])
			in["ops"] = trace
			c.Check((uerr == nil) == (ferr == nil), fmt.Sprintf("Unmarshal into a used message: err=%v, into a fresh one: err=%v", uerr, ferr), in, "")
			// half of the lazy decodes are left UNOBSERVED (no Equal, no snapshot: either would expand the deferred
			// lazy submessages): the next operation then acts on a message whose lazy fields are still deferred; the
			// expected state is taken from the eagerly decoded twin
			if lazy && uerr == nil && ferr == nil && c.Rand.Intn(2) == 0 {
				deferredState = r.Flat.Snap(fresh)
				trace[len(trace)-1] += " (unobserved)"
			} else if uerr == nil && ferr == nil {
				c.Check(proto.Equal(m.Interface(), fresh.Interface()) && r.Flat.Snap(m) == r.Flat.Snap(fresh), "Unmarshal (no Merge) into a used message differs from decoding into a fresh one", in, "")
			}
			if uerr != nil {
				// contents after a failed decode are unspecified: start over from a clean slate
				proto.Reset(m.Interface())
			}
			resync = true
		}
		if resync {
			if deferredState != "" {
				state, deferredState = deferredState, ""
			} else {
				state = r.Flat.Snap(m)
			}
			continue
		}
		trace = append(trace, op)
		in["ops"] = trace
		snap := r.Flat.Snap(m)
		if c.HasModel() {
			ans := c.Ask("op 0 %s %s", op, state)
			if !c.Compare("reflection state after "+strings.SplitN(op, " ", 2)[0], in, snap, ans) {
				return
			}
			state = ans
		}
		if !contract(c, r, m, fds, in) {
			return
		}
		if np := strings.Count(snap, " s ") + strings.Count(snap, " r "); np > maxPop {
			maxPop = np
		}
		c.Hist("op:" + strings.SplitN(op, " ", 2)[0])
	}
	if c.Prop == "C11" {
		wirePresence(c, r, m, in)
	}
	c.Hist("family:" + family(dyn))
	c.Case(r.Name+state, maxPop >= 2)
	if len(trace) > 3 && len(trace) < 9 {
		c.Sample(map[string]any{"type": r.Name, "family": family(dyn), "ops": trace})
	}
}

// storedEmptySig classifies the known finding "a stored but empty composite is handed out writable by Get":
// dynamicpb messages (any list/map field) and extension fields of generated messages keep a present-but-empty
// list/map object (left by Mutable without an append, by emptying, or by a zero-length packed record); Has
// reports false for it, yet Get returns that stored, valid, writable object instead of the read-only empty one.
// Regular list/map fields of generated messages are NOT covered by the signature: they honour the contract.
func storedEmptySig(m protoreflect.Message, fd protoreflect.FieldDescriptor) string {
	if _, dyn := m.Interface().(*dynamicpb.Message); dyn || fd.IsExtension() {
		return "stored-empty-composite-get-writable"
	}
	return ""
}

// wirePresence: the encoding of m carries a record for a singular non-message field exactly when Has reports it
// (so implicit-presence zero values are never encoded and explicit presence — even of a zero value — is), and
// the presence of every field survives the binary round trip.
func wirePresence(c *C, r *Root, m protoreflect.Message, in map[string]any) {
	b, err := partialDet.Marshal(m.Interface())
	if err != nil {
		return
	}
	onWire := map[protowire.Number]bool{}
	for rest := b; len(rest) > 0; {
		num, _, n := protowire.ConsumeField(rest)
		if n < 0 {
			return
		}
		onWire[num] = true
		rest = rest[n:]
	}
	// numbers that (also) occur among the unknown fields (a known number with a wrong wire type, kept from a
	// corrupted input) say nothing about the field's presence
	inUnknown := map[protowire.Number]bool{}
	for rest := []byte(m.GetUnknown()); len(rest) > 0; {
		num, _, n := protowire.ConsumeField(rest)
		if n < 0 {
			break
		}
		inUnknown[num] = true
		rest = rest[n:]
	}
	in2 := map[string]any{"type": in["type"], "family": in["family"], "ops": in["ops"], "bytes": vh.Hex(b)}
	fds := m.Descriptor().Fields()
	for i := 0; i < fds.Len(); i++ {
		fd := fds.Get(i)
		if fd.IsList() || fd.IsMap() || fd.Message() != nil || inUnknown[fd.Number()] {
			continue
		}
		c.Check(onWire[fd.Number()] == m.Has(fd), fmt.Sprintf("field %s: Has=%v but a record with its number is on the wire: %v", fd.Name(), m.Has(fd), onWire[fd.Number()]), in2, "")
	}
	back := m.New()
	if unm(false).Unmarshal(b, back.Interface()) == nil {
		for i := 0; i < fds.Len(); i++ {
			fd := fds.Get(i)
			c.Check(back.Has(fd) == m.Has(fd), fmt.Sprintf("field %s: Has=%v before and %v after the binary round trip", fd.Name(), m.Has(fd), back.Has(fd)), in2, "")
		}
	}
}

// contract checks the protoreflect.Message contract on the current state (C11, C12, C28).
func contract(c *C, r *Root, m protoreflect.Message, fds []protoreflect.FieldDescriptor, in map[string]any) bool {
	populated := map[protoreflect.FieldNumber]int{}
	m.Range(func(fd protoreflect.FieldDescriptor, v protoreflect.Value) bool {
		key := fd.Number()
		populated[key]++
		return true
	})
	ok := true
	for _, fd := range fds {
		has := m.Has(fd)
		ok = c.Check(has == (populated[fd.Number()] == 1) && populated[fd.Number()] <= 1, fmt.Sprintf("Has(%s)=%v but Range visits it %d times", fd.Name(), has, populated[fd.Number()]), in, "") && ok
		v := m.Get(fd)
		switch {
		case fd.IsList():
			ok = c.Check(has == (v.List().Len() > 0), fmt.Sprintf("list %s: Has=%v len=%d", fd.Name(), has, v.List().Len()), in, "") && ok
			if !has && c.Prop == "C28" {
				// an unpopulated list field (never set, cleared, or emptied again) yields the empty READ-ONLY list
				ok = c.Check(!v.List().IsValid(), fmt.Sprintf("list %s is unpopulated but Get returns a valid (writable) list", fd.Name()), in, storedEmptySig(m, fd)) && ok
			}
		case fd.IsMap():
			ok = c.Check(has == (v.Map().Len() > 0), fmt.Sprintf("map %s: Has=%v len=%d", fd.Name(), has, v.Map().Len()), in, "") && ok
			if !has && c.Prop == "C28" {
				ok = c.Check(!v.Map().IsValid(), fmt.Sprintf("map %s is unpopulated but Get returns a valid (writable) map", fd.Name()), in, storedEmptySig(m, fd)) && ok
			}
		case fd.Message() != nil:
			if !has {
				ok = c.Check(!v.Message().IsValid() || isEmptyRO(v.Message()), fmt.Sprintf("unset message field %s: Get is not an empty read-only message", fd.Name()), in, "") && ok
			}
		default:
			if !has {
				d := fd.Default()
				same := v.Equal(d)
				if fd.Kind() == protoreflect.BytesKind {
					same = string(v.Bytes()) == string(d.Bytes())
				}
				ok = c.Check(same, fmt.Sprintf("unset field %s: Get=%v, default=%v", fd.Name(), v, d), in, "") && ok
			} else if !fd.HasPresence() {
				// implicit presence: populated means non-zero
				ok = c.Check(!isZeroValue(fd, v), fmt.Sprintf("implicit-presence field %s reports Has with the zero value", fd.Name()), in, "") && ok
			}
		}
	}
	ods := m.Descriptor().Oneofs()
	for i := 0; i < ods.Len(); i++ {
		od := ods.Get(i)
		var set []protoreflect.FieldDescriptor
		for j := 0; j < od.Fields().Len(); j++ {
			if m.Has(od.Fields().Get(j)) {
				set = append(set, od.Fields().Get(j))
			}
		}
		w := m.WhichOneof(od)
		ok = c.Check(len(set) <= 1, fmt.Sprintf("oneof %s has %d populated members", od.Name(), len(set)), in, "") && ok
		if len(set) == 1 {
			ok = c.Check(w != nil && w.Number() == set[0].Number(), fmt.Sprintf("WhichOneof(%s) = %v but member %s is populated", od.Name(), w, set[0].Name()), in, whichSig(od, set[0])) && ok
		} else if len(set) == 0 {
			ok = c.Check(w == nil, fmt.Sprintf("WhichOneof(%s) = %v but no member is populated", od.Name(), w), in, "") && ok
		}
		if c.HasModel() && !od.IsSynthetic() && ok {
			want := "-"
			if len(set) == 1 {
				want = fmt.Sprint(set[0].Number())
			}
			c.Compare("which: model WhichOneof", in, want, c.Ask("which 0 %d %s", od.Index(), r.Flat.Snap(m)))
		}
	}
	return ok
}

// whichSig classifies DESIGN finding 20 (opaque API: synthetic oneof of a proto3-optional message field).
func whichSig(od protoreflect.OneofDescriptor, fd protoreflect.FieldDescriptor) string {
	if od.IsSynthetic() && fd.Message() != nil {
		return "opaque-synthetic-oneof-message-which"
	}
	return ""
}

func isEmptyRO(m protoreflect.Message) bool {
	n := 0
	m.Range(func(protoreflect.FieldDescriptor, protoreflect.Value) bool { n++; return true })
	return n == 0 && len(m.GetUnknown()) == 0
}

func isZeroValue(fd protoreflect.FieldDescriptor, v protoreflect.Value) bool {
	switch fd.Kind() {
	case protoreflect.StringKind:
		return v.String() == ""
	case protoreflect.BytesKind:
		return len(v.Bytes()) == 0
	case protoreflect.FloatKind, protoreflect.DoubleKind:
		return canonNum(fd, v) == 0
	case protoreflect.MessageKind, protoreflect.GroupKind:
		return false
	default:
		return canonNum(fd, v) == 0
	}
}
