package main

import (
	test3pb "google.golang.org/protobuf/internal/testprotos/test3"
	"sort"
	"bufio"
	"bytes"
	"fmt"
	"os"
	"os/exec"
	"strings"

	"google.golang.org/protobuf/encoding/protojson"
	"google.golang.org/protobuf/encoding/prototext"
	"google.golang.org/protobuf/encoding/protowire"
	vh "google.golang.org/protobuf/internal/zz_verif_vh"
	"google.golang.org/protobuf/proto"
	"google.golang.org/protobuf/reflect/protodesc"
	"google.golang.org/protobuf/reflect/protoreflect"
	"google.golang.org/protobuf/reflect/protoregistry"
	"google.golang.org/protobuf/types/descriptorpb"
	"google.golang.org/protobuf/types/dynamicpb"
)

// ---------- C05: deterministic marshalling is a function of content ----------

// rebuild constructs a message with the same content as m through a different history:
// fields set in random order, map entries inserted in random order, lists appended one by one.
func rebuild(c *C, m protoreflect.Message) protoreflect.Message {
	out := m.New()
	type fv struct {
		fd protoreflect.FieldDescriptor
		v  protoreflect.Value
	}
	var fs []fv
	m.Range(func(fd protoreflect.FieldDescriptor, v protoreflect.Value) bool {
		fs = append(fs, fv{fd, v})
		return true
	})
	c.Rand.Shuffle(len(fs), func(i, j int) { fs[i], fs[j] = fs[j], fs[i] })
	for _, x := range fs {
		fd := x.fd
		switch {
		case fd.IsMap():
			type kv struct {
				k protoreflect.MapKey
				v protoreflect.Value
			}
			var kvs []kv
			x.v.Map().Range(func(k protoreflect.MapKey, v protoreflect.Value) bool {
				kvs = append(kvs, kv{k, v})
				return true
			})
			c.Rand.Shuffle(len(kvs), func(i, j int) { kvs[i], kvs[j] = kvs[j], kvs[i] })
			mp := out.Mutable(fd).Map()
			for _, e := range kvs {
				if fd.MapValue().Message() != nil {
					nv := mp.NewValue()
					proto.Merge(nv.Message().Interface(), rebuild(c, e.v.Message()).Interface())
					mp.Set(e.k, nv)
				} else {
					// insert a wrong value first, then overwrite: history must not matter
					if c.Rand.Intn(3) == 0 {
						mp.Set(e.k, fd.MapValue().Default())
					}
					mp.Set(e.k, e.v)
				}
			}
		case fd.IsList():
			l := out.Mutable(fd).List()
			src := x.v.List()
			for i := 0; i < src.Len(); i++ {
				if fd.Message() != nil {
					e := l.NewElement()
					proto.Merge(e.Message().Interface(), rebuild(c, src.Get(i).Message()).Interface())
					l.Append(e)
				} else {
					l.Append(src.Get(i))
				}
			}
		case fd.Message() != nil:
			proto.Merge(out.Mutable(fd).Message().Interface(), rebuild(c, x.v.Message()).Interface())
		default:
			out.Set(fd, x.v)
		}
	}
	out.SetUnknown(m.GetUnknown())
	return out
}

func runDet(c *C) {
	c.R.Rule = "each random content (about 40 root types x {generated, dynamicpb}) is built 5 ways (reflection fill, Clone, field-by-field rebuild in shuffled order with shuffled map insertion and overwritten map entries, Merge into empty, decode of its own default encoding) and marshalled deterministically 2x per construction; all byte strings must coincide with each other, with the model's encodeDet, and with a re-marshal in a second process. Converse: messages with identical deterministic bytes must be proto.Equal. Non-trivial = a map with >= 2 entries or >= 2 populated fields; distinct by bytes."
	rs := roots(c)
	for _, r := range rs {
		for _, dyn := range []bool{false, true} {
			extTripleCase(c, r, dyn) // converse of C05: identical deterministic bytes => Equal, in both argument orders
		}
	}
	per := c.N(30, 1200)
	var childLines []string
	var childWant []string
	for ri, r := range rs {
		r.Flat.Send(c)
		var prevBytes [][]byte
		var prevMsgs []protoreflect.Message
		for i := 0; i < per && !c.Failed(); i++ {
			for _, dyn := range []bool{false, true} {
				m := newFilled(c, r, dyn, Opts{FieldProb: 3})
				in := map[string]any{"type": r.Name, "family": family(dyn), "msg": r.Flat.Snap(m)}
				func() {
					defer c.Recover("deterministic marshal", in, "")
					ref, err := partialDet.Marshal(m.Interface())
					if err != nil {
						return
					}
					variants := map[string]protoreflect.Message{
						"clone":   proto.Clone(m.Interface()).ProtoReflect(),
						"rebuild": rebuild(c, m),
					}
					e := m.New()
					proto.Merge(e.Interface(), m.Interface())
					variants["merge-into-empty"] = e
					if def, err := partial.Marshal(m.Interface()); err == nil {
						d := m.New()
						if unm(false).Unmarshal(def, d.Interface()) == nil {
							variants["decode-of-default-encoding"] = d
						}
					}
					for name, v := range variants {
						for rep := 0; rep < 2; rep++ {
							b, err := partialDet.Marshal(v.Interface())
							c.Check(err == nil && bytes.Equal(b, ref), "deterministic bytes differ for the same content built as: "+name, in, "")
						}
					}
					if c.HasModel() {
						c.Compare("encdet: model vs implementation", in, vh.Hex(ref), c.Ask("encdet 0 %s", in["msg"]))
					}
					// converse against the previous few messages of this type
					for j, pb := range prevBytes {
						if bytes.Equal(pb, ref) {
							c.Check(proto.Equal(prevMsgs[j].Interface(), m.Interface()), "identical deterministic encodings but not proto.Equal", in, "")
						}
					}
					if !dyn {
						prevBytes = append(prevBytes, ref)
						prevMsgs = append(prevMsgs, m)
						if len(prevBytes) > 8 {
							prevBytes, prevMsgs = prevBytes[1:], prevMsgs[1:]
						}
						if len(childLines) < 400 && i%3 == 0 {
							if def, err := partial.Marshal(m.Interface()); err == nil {
								childLines = append(childLines, fmt.Sprintf("%d %s", ri, vh.Hex(def)))
								childWant = append(childWant, vh.Hex(ref))
							}
						}
					}
					nt := len(ref) > 6
					c.Case(r.Name+string(ref), nt)
					if len(ref) > 10 && len(ref) < 70 {
						c.Sample(map[string]any{"type": r.Name, "det": vh.Hex(ref)})
					}
				}()
			}
		}
	}
	// a second process of the same binary re-marshals the same contents
	if len(childLines) > 0 {
		cmd := exec.Command(os.Args[0])
		cmd.Env = append(os.Environ(), "VERIF_CHILD=det")
		cmd.Stdin = strings.NewReader(strings.Join(childLines, "\n") + "\n")
		out, err := cmd.Output()
		got := strings.Split(strings.TrimSpace(string(out)), "\n")
		if err != nil || len(got) != len(childWant) {
			c.Check(false, fmt.Sprintf("child process failed: %v (%d/%d lines)", err, len(got), len(childWant)), nil, "")
		} else {
			for i := range got {
				c.Check(got[i] == childWant[i], "deterministic bytes differ between two processes", childLines[i], "")
				c.Hist("second-process-remarshal")
			}
		}
	}
}

// childDet: VERIF_CHILD=det — read "rootIndex hex" lines, decode, re-marshal deterministically.
func childDet() {
	c := &C{}
	c.R.Histogram = map[string]int{}
	rs := roots(c)
	sc := bufio.NewScanner(os.Stdin)
	sc.Buffer(make([]byte, 1<<20), 1<<26)
	w := bufio.NewWriter(os.Stdout)
	defer w.Flush()
	for sc.Scan() {
		var ri int
		var hx string
		fmt.Sscanf(sc.Text(), "%d %s", &ri, &hx)
		m := rs[ri].MT.New()
		if err := unm(false).Unmarshal(vh.UnHex(hx), m.Interface()); err != nil {
			fmt.Fprintln(w, "err")
			continue
		}
		b, _ := partialDet.Marshal(m.Interface())
		fmt.Fprintln(w, vh.Hex(b))
	}
}

// ---------- C10: required fields ----------

func requiredRoots(rs []*Root) []*Root {
	var out []*Root
	for _, r := range rs {
		has := false
		for _, md := range r.Flat.Descs {
			if md.RequiredNumbers().Len() > 0 {
				has = true
			}
		}
		if has {
			out = append(out, r)
		}
	}
	return out
}

func runRequired(c *C) {
	c.R.Rule = "message trees over every corpus root type that can reach a required field (proto2, editions LEGACY_REQUIRED, opaque, lazy; required fields inside nested messages, list elements, map values, oneof members, extensions), each required field set with probability 7/8 independently at every depth <= 3; x {generated, dynamicpb} x {lazy, eager}. Compared: CheckInitialized, Marshal, Unmarshal (without AllowPartial) verdicts vs the model's checkInit on the content. Non-trivial = message reaches at least one message holding required fields; distinct by bytes."
	rs := requiredRoots(roots(c))
	per := c.N(150, 6000)
	for _, r := range rs {
		r.Flat.Send(c)
		for i := 0; i < per && !c.Failed(); i++ {
			for _, dyn := range []bool{false, true} {
				m := newFilled(c, r, dyn, Opts{FieldProb: 2})
				requiredCase(c, r, m, dyn)
			}
		}
	}
}

func requiredCase(c *C, r *Root, m protoreflect.Message, dyn bool) {
	snap := r.Flat.Snap(m)
	in := map[string]any{"type": r.Name, "family": family(dyn), "msg": snap}
	defer c.Recover("required", in, "")
	// reference verdict: independent walk over the tree
	want := refInit(m)
	in["initialized"] = want
	chk := proto.CheckInitialized(m.Interface()) == nil
	c.Check(chk == want, fmt.Sprintf("CheckInitialized says %v, required fields all set = %v", chk, want), in, "")
	_, merr := proto.Marshal(m.Interface())
	c.Check((merr == nil) == want, fmt.Sprintf("Marshal (no AllowPartial) err=%v, initialized=%v", merr, want), in, "")
	b, err := partial.Marshal(m.Interface())
	if err != nil {
		return
	}
	in["bytes"] = vh.Hex(b)
	for _, lazy := range []bool{false, true} {
		m2 := m.New()
		uerr := proto.UnmarshalOptions{NoLazyDecoding: !lazy}.Unmarshal(b, m2.Interface())
		sig := ""
		if lazy && !dyn && uerr == nil && !want {
			sig = lazyRequiredSig(m2)
		}
		c.Check((uerr == nil) == want, fmt.Sprintf("Unmarshal (no AllowPartial, lazy=%v) err=%v, initialized=%v", lazy, uerr, want), in, sig)
		if uerr == nil {
			chk2 := proto.CheckInitialized(m2.Interface()) == nil
			c.Check(chk2 == want, fmt.Sprintf("CheckInitialized after Unmarshal (lazy=%v) says %v, want %v", lazy, chk2, want), in, sig)
		}
	}
	// Merge:true into an existing (possibly partial) target: the verdict is about the resulting tree,
	// not only about the bytes parsed.
	if c.Rand.Intn(2) == 0 {
		var src []byte
		switch c.Rand.Intn(3) {
		case 0: // nothing parsed at all
		case 1:
			src = b
		default:
			src, _ = partial.Marshal(newFilled(c, r, dyn, Opts{FieldProb: 2}).Interface())
		}
		m3 := proto.Clone(m.Interface())
		uerr := proto.UnmarshalOptions{Merge: true, NoLazyDecoding: c.Rand.Intn(2) == 0}.Unmarshal(src, m3)
		after := refInit(m3.ProtoReflect())
		in2 := map[string]any{"type": r.Name, "family": family(dyn), "msg": snap, "bytes": vh.Hex(b), "merge_src": vh.Hex(src)}
		c.Check((uerr == nil) == after, fmt.Sprintf("Unmarshal{Merge:true} into an existing target: err=%v, resulting tree initialized=%v", uerr, after), in2, "")
		c.Hist(fmt.Sprintf("merge-target-initialized:%v/result:%v", want, after))
	}
	// a message decoded WITHOUT AllowPartial (so "required fields were checked" is recorded for its lazy fields),
	// then made partial through the API: expanded lazy children must be re-examined
	if want && c.Rand.Intn(2) == 0 {
		for _, lazy := range []bool{true, false} {
			m4 := m.New()
			if (proto.UnmarshalOptions{NoLazyDecoding: !lazy}).Unmarshal(b, m4.Interface()) != nil {
				continue
			}
			if what := breakRequired(c, m4, 0); what != "" {
				in3 := map[string]any{"type": r.Name, "family": family(dyn), "bytes": vh.Hex(b), "lazy": lazy, "then": what}
				after := refInit(m4)
				chk := proto.CheckInitialized(m4.Interface()) == nil
				c.Check(chk == after, fmt.Sprintf("after a complete decode and %s: CheckInitialized says %v, required fields all set = %v", what, chk, after), in3, "")
				_, merr := proto.Marshal(m4.Interface())
				c.Check((merr == nil) == after, fmt.Sprintf("after a complete decode and %s: Marshal err=%v, initialized=%v", what, merr, after), in3, "")
				c.Hist("decoded-then-broken")
			}
		}
	}
	if c.HasModel() {
		w := "missing"
		if want {
			w = "ok"
		}
		c.Compare("init: model checkInit vs reference walk", in, w, c.Ask("init 0 %s", snap))
	}
	c.Hist(fmt.Sprintf("initialized:%v", want))
	c.Case(r.Name+string(b), len(b) > 0)
	if !want && len(b) < 40 {
		c.Sample(map[string]any{"type": r.Name, "bytes": vh.Hex(b), "initialized": want})
	}
}

// breakRequired clears one required field somewhere in the tree (through Mutable, which expands lazy children)
// or replaces a message holding required fields by an empty one; returns a description, "" if nothing was done.
func breakRequired(c *C, m protoreflect.Message, depth int) string {
	md := m.Descriptor()
	type sub struct {
		fd protoreflect.FieldDescriptor
		m  protoreflect.Message
	}
	var subs []sub
	m.Range(func(fd protoreflect.FieldDescriptor, v protoreflect.Value) bool {
		if fd.Message() != nil && !fd.IsList() && !fd.IsMap() {
			subs = append(subs, sub{fd, nil})
		}
		return true
	})
	if len(subs) > 0 && depth < 3 && c.Rand.Intn(3) != 0 {
		x := subs[c.Rand.Intn(len(subs))]
		if c.Rand.Intn(4) == 0 && x.fd.Message().RequiredNumbers().Len() > 0 {
			m.Set(x.fd, m.NewField(x.fd)) // replace by an empty message
			return "Set(" + string(x.fd.Name()) + ", empty)"
		}
		if w := breakRequired(c, m.Mutable(x.fd).Message(), depth+1); w != "" {
			return string(x.fd.Name()) + "." + w
		}
	}
	if nums := md.RequiredNumbers(); nums.Len() > 0 {
		fd := md.Fields().ByNumber(nums.Get(c.Rand.Intn(nums.Len())))
		m.Clear(fd)
		return "Clear(" + string(fd.Name()) + ")"
	}
	return ""
}

// lazyRequiredSig classifies DESIGN finding 22 (required check skipped inside unexpanded lazy submessages).
func lazyRequiredSig(m protoreflect.Message) string {
	return "lazy-required-skipped"
}

// refInit: every required field set, everywhere in the tree (independent of the implementation's checkinit code).
func refInit(m protoreflect.Message) bool {
	md := m.Descriptor()
	nums := md.RequiredNumbers()
	for i := 0; i < nums.Len(); i++ {
		if !m.Has(md.Fields().ByNumber(nums.Get(i))) {
			return false
		}
	}
	ok := true
	m.Range(func(fd protoreflect.FieldDescriptor, v protoreflect.Value) bool {
		switch {
		case fd.IsMap():
			if fd.MapValue().Message() != nil {
				v.Map().Range(func(_ protoreflect.MapKey, mv protoreflect.Value) bool {
					ok = refInit(mv.Message())
					return ok
				})
			}
		case fd.IsList():
			if fd.Message() != nil {
				for i := 0; i < v.List().Len() && ok; i++ {
					ok = refInit(v.List().Get(i).Message())
				}
			}
		case fd.Message() != nil:
			ok = refInit(v.Message())
		}
		return ok
	})
	return ok
}

// ---------- C13: UTF-8 validation ----------

func runUtf8(c *C) {
	c.R.Rule = "messages over about 40 root types x {generated, dynamicpb} with invalid UTF-8 (lone continuation, overlong, surrogate, truncated, 0xff, > U+10FFFF) planted with probability 1/4 in every string position (singular, repeated element, map key, map value, oneof member, extension). Marshal must fail iff an *enforced* string position holds invalid UTF-8 (model: badUtf8); wire data carrying it must be refused exactly there and passed through unchanged elsewhere (bytes fields, non-enforced strings). Non-trivial = message contains at least one string; distinct by snapshot."
	rs := roots(c)
	per := c.N(60, 600)
	editionsExtCase(c)
	proto3ExtCase(c)
	for _, r := range rs {
		r.Flat.Send(c)
		for i := 0; i < per && !c.Failed(); i++ {
			for _, dyn := range []bool{false, true} {
				m := newFilled(c, r, dyn, Opts{BadUTF8: true, FieldProb: 2})
				utf8Case(c, r, m, dyn)
			}
		}
	}
}

// editionsExtCase: an edition-2023 file with default features (utf8_validation = VERIFY, known by
// construction, not asked of the implementation): a string *extension* field must be validated like a
// regular string field.
// proto3ExtCase: string extensions declared in a proto3 file (test3/test_extension.proto extends
// google.protobuf.MessageOptions): singular, proto3-optional and REPEATED; validated in both directions on the
// table-driven path (generated MessageOptions) and on the reflection path (dynamicpb), for every bad sample.
func proto3ExtCase(c *C) {
	bads := []string{"a\xff", "\xc0\x80", "\xed\xa0\x80", "\xe2\x82", "\x80", "\xf4\x90\x80\x80"}
	goods := []string{"", "ok", "h\u00e9llo", "\ufffd", "\U0010ffff"}
	md := (&descriptorpb.MessageOptions{}).ProtoReflect().Descriptor()
	for _, xt := range []protoreflect.ExtensionType{test3pb.E_OptionalStringExt, test3pb.E_OptionalOptionalStringExt, test3pb.E_RepeatedStringExt} {
		xd := xt.TypeDescriptor()
		for i, sample := range append(append([]string{}, bads...), goods...) {
			bad := i < len(bads)
			for _, dyn := range []bool{false, true} {
				var m protoreflect.Message = (&descriptorpb.MessageOptions{}).ProtoReflect()
				if dyn {
					m = dynamicpb.NewMessage(md)
				}
				in := map[string]any{"type": "google.protobuf.MessageOptions", "family": family(dyn), "extension": string(xd.FullName()), "value": vh.Hex([]byte(sample))}
				func() {
					defer c.Recover("proto3 string extension", in, "")
					if xd.IsList() {
						l := m.Mutable(xd).List()
						l.Append(protoreflect.ValueOfString("fine"))
						l.Append(protoreflect.ValueOfString(sample))
					} else {
						m.Set(xd, protoreflect.ValueOfString(sample))
					}
					_, err := partial.Marshal(m.Interface())
					c.Check((err != nil) == bad, fmt.Sprintf("Marshal err=%v for a proto3 string extension holding %q (invalid UTF-8: %v)", err, sample, bad), in, "")
					// the same next to other populated extensions with lower and higher numbers: the verdict must not
					// depend on what else is in the extension map
					for _, other := range []protoreflect.ExtensionType{test3pb.E_OptionalInt32Ext, test3pb.E_OptionalOptionalInt32Ext, test3pb.E_RepeatedInt32Ext} {
						od := other.TypeDescriptor()
						mm := proto.Clone(m.Interface()).ProtoReflect()
						if od.IsList() {
							mm.Mutable(od).List().Append(protoreflect.ValueOfInt32(7))
						} else {
							mm.Set(od, protoreflect.ValueOfInt32(7))
						}
						_, err2 := partial.Marshal(mm.Interface())
						_, err3 := partialDet.Marshal(mm.Interface())
						in["also_set"] = string(od.FullName())
						c.Check((err2 != nil) == bad && (err3 != nil) == bad, fmt.Sprintf("Marshal err=%v / deterministic err=%v for a proto3 string extension holding %q next to another extension (invalid UTF-8: %v)", err2, err3, sample, bad), in, "")
					}
					delete(in, "also_set")
					// wire side: the same record built by hand
					var b []byte
					if xd.IsList() {
						b = protowire.AppendString(protowire.AppendTag(b, xd.Number(), protowire.BytesType), "fine")
					}
					b = protowire.AppendString(protowire.AppendTag(b, xd.Number(), protowire.BytesType), sample)
					in["bytes"] = vh.Hex(b)
					m2 := m.New()
					uerr := unm(false).Unmarshal(b, m2.Interface())
					c.Check((uerr != nil) == bad, fmt.Sprintf("Unmarshal err=%v for a proto3 string extension record holding %q (invalid UTF-8: %v)", uerr, sample, bad), in, "")
				}()
				c.Case(fmt.Sprintf("p3ext/%s/%d/%v", xd.Name(), i, dyn), true)
			}
		}
	}
}

func editionsExtCase(c *C) {
	fdp := &descriptorpb.FileDescriptorProto{}
	if err := prototext.Unmarshal([]byte(`name: "verif_c13_ext.proto" package: "verif.c13" syntax: "editions" edition: EDITION_2023
message_type { name: "M" field { name: "s" number: 1 type: TYPE_STRING label: LABEL_OPTIONAL } extension_range { start: 100 end: 200 } }
extension { name: "xs" number: 100 type: TYPE_STRING label: LABEL_OPTIONAL extendee: ".verif.c13.M" }
extension { name: "xr" number: 101 type: TYPE_STRING label: LABEL_REPEATED extendee: ".verif.c13.M" }`), fdp); err != nil {
		c.Check(false, "cannot build the editions extension schema: "+err.Error(), nil, "")
		return
	}
	fd, err := protodesc.NewFile(fdp, protoregistry.GlobalFiles)
	if err != nil {
		c.Check(false, "protodesc.NewFile: "+err.Error(), nil, "")
		return
	}
	md := fd.Messages().Get(0)
	bad := "bad\xff"
	for i := 0; i < 3; i++ {
		in := map[string]any{"schema": "edition 2023, default features; M{string s=1; extensions 100 to 200} extend M{string xs=100; repeated string xr=101}", "field": []string{"s", "xs", "xr"}[i], "value": "626164ff"}
		m := dynamicpb.NewMessage(md)
		switch i {
		case 0:
			m.Set(md.Fields().Get(0), protoreflect.ValueOfString(bad))
		case 1:
			m.Set(dynamicpb.NewExtensionType(fd.Extensions().Get(0)).TypeDescriptor(), protoreflect.ValueOfString(bad))
		case 2:
			m.Mutable(dynamicpb.NewExtensionType(fd.Extensions().Get(1)).TypeDescriptor()).List().Append(protoreflect.ValueOfString(bad))
		}
		_, err := proto.Marshal(m)
		sig := ""
		if i > 0 {
			sig = "editions-extension-string-not-validated"
		}
		c.Check(err != nil, "Marshal accepts invalid UTF-8 in a string field with utf8_validation = VERIFY (edition 2023 default)", in, sig)
		c.Case(fmt.Sprint("editions-ext-", i), true)
	}
}

func utf8Case(c *C, r *Root, m protoreflect.Message, dyn bool) {
	snap := r.Flat.Snap(m)
	in := map[string]any{"type": r.Name, "family": family(dyn), "msg": snap}
	defer c.Recover("utf8", in, "")
	bad := refBadUTF8(m)
	_, err := partial.Marshal(m.Interface())
	c.Check((errClass(err) == "err utf8") == bad && (err == nil) == !bad, fmt.Sprintf("Marshal err=%v but enforced-invalid-UTF-8 present=%v", err, bad), in, "")
	// protojson / prototext: validated strings with invalid UTF-8 are rejected, valid UTF-8 (U+FFFD included) is
	// never rejected as invalid; text passes non-validated strings and bytes through unchanged
	anyBad := refBadStrings(m, false)
	isU := func(e error) bool { return e != nil && strings.Contains(e.Error(), "UTF-8") }
	jb, jerr := protojson.MarshalOptions{AllowPartial: true}.Marshal(m.Interface())
	if bad {
		c.Check(jerr != nil, "protojson.Marshal accepts invalid UTF-8 in a validated string field", in, "")
	}
	if !anyBad {
		c.Check(!isU(jerr), fmt.Sprintf("protojson.Marshal rejects valid UTF-8: %v", jerr), in, "")
		if jerr == nil {
			uerr := protojson.UnmarshalOptions{AllowPartial: true}.Unmarshal(jb, m.New().Interface())
			c.Check(!isU(uerr), fmt.Sprintf("protojson.Unmarshal rejects its own output as invalid UTF-8: %v", uerr), in, "")
		}
	}
	tb, terr := prototext.MarshalOptions{AllowPartial: true}.Marshal(m.Interface())
	c.Check((terr != nil) == bad, fmt.Sprintf("prototext.Marshal err=%v but enforced-invalid-UTF-8 present=%v", terr, bad), in, "")
	if terr == nil && !hasUnknownAnywhere(m) {
		m3 := m.New()
		uerr := prototext.UnmarshalOptions{AllowPartial: true}.Unmarshal(tb, m3.Interface())
		c.Check(!isU(uerr), fmt.Sprintf("prototext.Unmarshal rejects prototext.Marshal output as invalid UTF-8: %v", uerr), in, "")
		if uerr == nil {
			c.Check(stringsOf(m3) == stringsOf(m), "strings/bytes not passed through the text codec unchanged", in, "")
		}
	}
	if c.HasModel() {
		ans := c.Ask("enc 0 %s", snap)
		c.Compare("enc: model utf8 verdict", in, fmt.Sprint(bad), fmt.Sprint(ans == "err utf8"))
	}
	// wire side: encode with a type-erased encoder (the model's bytes, which never validate) and decode
	if c.HasModel() {
		// the model's plain encoder does not validate; "enc" refuses, so use canon bytes via dynamic re-encode:
		hexb := c.Ask("encraw 0 %s", snap)
		if hexb != "bad-op" && hexb != "" {
			b := vh.UnHex(hexb)
			for _, lazy := range []bool{false, true} {
				m2 := m.New()
				uerr := proto.UnmarshalOptions{AllowPartial: true, NoLazyDecoding: !lazy}.Unmarshal(b, m2.Interface())
				// the lazy validator reports invalid UTF-8 as a generic wire-format error: only the verdict matters
				c.Check((uerr == nil) == !bad && (lazy || uerr == nil || errClass(uerr) == "err utf8"), fmt.Sprintf("Unmarshal(lazy=%v) err=%v but enforced-invalid-UTF-8 present=%v", lazy, uerr, bad), in, "")
				if uerr == nil {
					c.Check(r.Flat.Snap(m2) == snap, "strings/bytes not passed through unchanged", in, "")
				}
			}
			want := "err utf8"
			if !bad {
				want = "ok " + snap
			}
			c.Compare("dec: model decode of raw bytes", in, want, c.Ask("dec 0 10000 0 %s", hexb))
		}
	}
	c.Hist(fmt.Sprintf("bad:%v", bad))
	c.Case(snap, strings.Contains(snap, " b "))
}

func refBadUTF8(m protoreflect.Message) bool { return refBadStrings(m, true) }

// stringsOf: the sorted multiset of all string and bytes values (with their field numbers) anywhere in m.
func stringsOf(m protoreflect.Message) string {
	var out []string
	var walk func(m protoreflect.Message)
	val := func(fd protoreflect.FieldDescriptor, v protoreflect.Value) {
		switch {
		case fd.Message() != nil:
			walk(v.Message())
		case fd.Kind() == protoreflect.StringKind:
			out = append(out, fmt.Sprintf("%d:s:%x", fd.Number(), v.String()))
		case fd.Kind() == protoreflect.BytesKind:
			out = append(out, fmt.Sprintf("%d:b:%x", fd.Number(), v.Bytes()))
		}
	}
	walk = func(m protoreflect.Message) {
		m.Range(func(fd protoreflect.FieldDescriptor, v protoreflect.Value) bool {
			switch {
			case fd.IsMap():
				v.Map().Range(func(k protoreflect.MapKey, mv protoreflect.Value) bool {
					val(fd.MapKey(), k.Value())
					val(fd.MapValue(), mv)
					return true
				})
			case fd.IsList():
				for i := 0; i < v.List().Len(); i++ {
					val(fd, v.List().Get(i))
				}
			default:
				val(fd, v)
			}
			return true
		})
	}
	walk(m)
	sort.Strings(out)
	return strings.Join(out, " ")
}

// refBadStrings: some string (field, list element, map key or value, at any depth) is not valid UTF-8;
// onlyEnforced restricts this to fields whose UTF-8 validity is enforced.
func refBadStrings(m protoreflect.Message, onlyEnforced bool) bool {
	bad := false
	var chk func(fd protoreflect.FieldDescriptor, v protoreflect.Value)
	chk = func(fd protoreflect.FieldDescriptor, v protoreflect.Value) {
		switch {
		case fd.Message() != nil:
			if refBadStrings(v.Message(), onlyEnforced) {
				bad = true
			}
		case fd.Kind() == protoreflect.StringKind && (!onlyEnforced || enforce(fd)):
			if !validUTF8(v.String()) {
				bad = true
			}
		}
	}
	m.Range(func(fd protoreflect.FieldDescriptor, v protoreflect.Value) bool {
		switch {
		case fd.IsMap():
			v.Map().Range(func(k protoreflect.MapKey, mv protoreflect.Value) bool {
				chk(fd.MapKey(), k.Value())
				chk(fd.MapValue(), mv)
				return true
			})
		case fd.IsList():
			for i := 0; i < v.List().Len(); i++ {
				chk(fd, v.List().Get(i))
			}
		default:
			chk(fd, v)
		}
		return true
	})
	return bad
}

// ---------- C30: equality ----------

func runEqual(c *C) {
	c.R.Rule = "pairs and triples over about 40 root types x {generated, dynamicpb}: (m, Clone m), (m, decode(encode m)), (m, near-miss: one nested scalar / list element / map value / unknown byte changed), (m, unrelated), unknown fields permuted between different numbers; checked: reflexive (NaN included), symmetric, transitive on triples, agreement of proto.Equal with protoreflect.Value.Equal and with the model's eqMsg. Non-trivial = both messages non-empty; distinct by the two snapshots."
	rs := roots(c)
	per := c.N(40, 2000)
	for _, r := range rs {
		r.Flat.Send(c)
		for i := 0; i < per && !c.Failed(); i++ {
			for _, dyn := range []bool{false, true} {
				a := newFilled(c, r, dyn, Opts{FieldProb: 3, NegZero: true})
				equalCase(c, r, a, dyn)
				if i%4 == 0 {
					extShapeCase(c, r, dyn)
				}
				if i%3 == 0 {
					unknownShapeCase(c, r, dyn)
				}
				if i == 0 {
					extTripleCase(c, r, dyn)
				}
			}
		}
	}
}

// extShapeCase: extension maps holding present-but-empty repeated extensions (as left by Mutable or by a
// zero-length packed record) against other populated extensions.
func extShapeCase(c *C, r *Root, dyn bool) {
	var rep, other []protoreflect.ExtensionType
	for _, xt := range r.Exts {
		if xt.TypeDescriptor().ContainingMessage().FullName() != r.Flat.Root.FullName() {
			continue
		}
		if xt.TypeDescriptor().IsList() {
			rep = append(rep, xt)
		} else if xt.TypeDescriptor().Message() == nil {
			other = append(other, xt)
		}
	}
	if len(rep) == 0 || len(other) == 0 {
		return
	}
	mt := r.MT
	if dyn {
		mt = r.DT
	}
	x, y := mt.New(), mt.New()
	e1 := rep[c.Rand.Intn(len(rep))].TypeDescriptor()
	e2 := other[c.Rand.Intn(len(other))].TypeDescriptor()
	x.Mutable(e1) // present but empty list
	if c.Rand.Intn(2) == 0 {
		// same shape through decoding: a zero-length packed record
		b := protowire.AppendBytes(protowire.AppendTag(nil, e1.Number(), protowire.BytesType), nil)
		x = mt.New()
		unm(false).Unmarshal(b, x.Interface())
	}
	y.Set(e2, scalar(c, e2, Opts{}))
	if y.Get(e2).Equal(e2.Default()) && !e2.HasPresence() {
		return
	}
	sx, sy := r.Flat.Snap(x), r.Flat.Snap(y)
	in := map[string]any{"type": r.Name, "family": family(dyn), "a": sx, "b": sy, "shape": "a holds an empty repeated extension " + string(e1.Name()) + ", b holds extension " + string(e2.Name())}
	defer c.Recover("equal(ext shapes)", in, "")
	exy, eyx := proto.Equal(x.Interface(), y.Interface()), proto.Equal(y.Interface(), x.Interface())
	c.Check(exy == eyx, "Equal is not symmetric", in, "")
	v := protoreflect.ValueOfMessage(x).Equal(protoreflect.ValueOfMessage(y))
	c.Check(exy == v && eyx == v, fmt.Sprintf("proto.Equal=%v/%v but protoreflect.Value.Equal=%v", exy, eyx, v), in, "")
	empty := mt.New()
	if proto.Equal(empty.Interface(), x.Interface()) && exy {
		c.Check(proto.Equal(empty.Interface(), y.Interface()), "Equal is not transitive (empty, a, b)", in, "")
	}
	if c.HasModel() {
		c.Compare("equal: model eqMsg vs proto.Equal", in, fmt.Sprint(b2i(exy)), c.Ask("equal 0 %s | %s", sx, sy))
	}
	c.Hist("ext-shape")
	c.Case(sx+"|"+sy+"ext", true)
}

// extTripleCase: (x, y, z) = repeated extension present-but-empty / one element / absent: x and z are equal in
// both directions (and have identical deterministic bytes), y differs from both, in both directions, and
// proto.Equal agrees with protoreflect.Value.Equal.
func extTripleCase(c *C, r *Root, dyn bool) {
	mt := r.MT
	if dyn {
		mt = r.DT
	}
	for _, tr := range extShapeTriples(c, r, mt) {
		x, y, z := tr[0], tr[1], tr[2]
		in := map[string]any{"type": r.Name, "family": family(dyn), "x": r.Flat.Snap(x), "y": r.Flat.Snap(y), "z": r.Flat.Snap(z), "shape": "x: repeated extension present but empty; y: one element; z: absent"}
		func() {
			defer c.Recover("equal(extension triples)", in, "")
			eq := func(a, b protoreflect.Message) bool { return proto.Equal(a.Interface(), b.Interface()) }
			veq := func(a, b protoreflect.Message) bool {
				return protoreflect.ValueOfMessage(a).Equal(protoreflect.ValueOfMessage(b))
			}
			c.Check(eq(x, z) && eq(z, x), fmt.Sprintf("an empty repeated extension must equal an absent one: Equal(x,z)=%v Equal(z,x)=%v", eq(x, z), eq(z, x)), in, "")
			c.Check(!eq(x, y) && !eq(y, x) && !eq(z, y) && !eq(y, z), fmt.Sprintf("a non-empty repeated extension equals an empty/absent one: Equal(x,y)=%v (y,x)=%v (z,y)=%v (y,z)=%v", eq(x, y), eq(y, x), eq(z, y), eq(y, z)), in, "")
			c.Check(veq(x, z) == eq(x, z) && veq(x, y) == eq(x, y) && veq(y, x) == eq(y, x), "proto.Equal disagrees with protoreflect.Value.Equal on extension shapes", in, "")
			dx, e1 := partialDet.Marshal(x.Interface())
			dz, e2 := partialDet.Marshal(z.Interface())
			c.Check(e1 == nil && e2 == nil && bytes.Equal(dx, dz), "deterministic bytes of (empty repeated extension) and (absent) differ", in, "")
		}()
		c.Hist("ext-triple")
		c.Case(fmt.Sprint(in["x"], in["y"]), true)
	}
}

// unknownShapeCase: two messages with the same known content whose unknown fields are the same RECORDS in a
// different order, with field numbers repeating and other numbers in between. Equal compares unknown fields per
// field number (order within one number matters, order across numbers does not); the reference verdict is
// computed here from the record lists, independently of the implementation. Operands must not be modified.
func unknownShapeCase(c *C, r *Root, dyn bool) {
	a := newFilled(c, r, dyn, Opts{FieldProb: 6})
	a.SetUnknown(nil)
	nums := []protowire.Number{100000, 100001, 100007}[:2+c.Rand.Intn(2)]
	type rec struct {
		num protowire.Number
		b   []byte
	}
	var recs []rec
	for k := 3 + c.Rand.Intn(5); k > 0; k-- {
		num := nums[c.Rand.Intn(len(nums))]
		var b []byte
		switch c.Rand.Intn(4) {
		case 0:
			b = protowire.AppendVarint(protowire.AppendTag(nil, num, protowire.VarintType), uint64(c.Rand.Intn(4)))
		case 1:
			b = protowire.AppendFixed32(protowire.AppendTag(nil, num, protowire.Fixed32Type), uint32(c.Rand.Intn(3)))
		case 2:
			b = protowire.AppendBytes(protowire.AppendTag(nil, num, protowire.BytesType), []byte("ab")[:c.Rand.Intn(3)])
		default:
			b = protowire.AppendVarint(protowire.AppendTag(nil, num, protowire.VarintType), 1<<40)
		}
		recs = append(recs, rec{num, b})
	}
	perm := append([]rec{}, recs...)
	switch c.Rand.Intn(3) {
	case 0: // arbitrary permutation
		c.Rand.Shuffle(len(perm), func(i, j int) { perm[i], perm[j] = perm[j], perm[i] })
	case 1: // stable regrouping by number: must stay equal
		var g []rec
		for _, n := range nums {
			for _, x := range perm {
				if x.num == n {
					g = append(g, x)
				}
			}
		}
		perm = g
	default: // swap two neighbours
		i := c.Rand.Intn(len(perm) - 1)
		perm[i], perm[i+1] = perm[i+1], perm[i]
	}
	cat := func(rs []rec, only protowire.Number) []byte {
		var out []byte
		for _, x := range rs {
			if only == 0 || x.num == only {
				out = append(out, x.b...)
			}
		}
		return out
	}
	want := true
	for _, n := range nums {
		if !bytes.Equal(cat(recs, n), cat(perm, n)) {
			want = false
		}
	}
	b := proto.Clone(a.Interface()).ProtoReflect()
	ua, ub := cat(recs, 0), cat(perm, 0)
	a.SetUnknown(ua)
	b.SetUnknown(ub)
	sa, sb := r.Flat.Snap(a), r.Flat.Snap(b)
	in := map[string]any{"type": r.Name, "family": family(dyn), "a": sa, "b": sb, "unknown_a": vh.Hex(ua), "unknown_b": vh.Hex(ub), "shape": "same unknown records, different order"}
	defer c.Recover("equal(unknown shapes)", in, "")
	ca := proto.Clone(a.Interface())
	exy, eyx := proto.Equal(a.Interface(), b.Interface()), proto.Equal(b.Interface(), a.Interface())
	c.Check(exy == want && eyx == want, fmt.Sprintf("Equal=%v/%v, unknown fields equal per field number=%v", exy, eyx, want), in, "")
	c.Check(bytes.Equal(a.GetUnknown(), ua) && bytes.Equal(b.GetUnknown(), ub), fmt.Sprintf("Equal modified an operand: unknown fields now %x / %x", []byte(a.GetUnknown()), []byte(b.GetUnknown())), in, "")
	c.Check(proto.Equal(a.Interface(), ca), "a message is no longer equal to its earlier clone after being compared", in, "")
	v := protoreflect.ValueOfMessage(a).Equal(protoreflect.ValueOfMessage(b))
	c.Check(v == want, fmt.Sprintf("protoreflect.Value.Equal=%v, expected %v", v, want), in, "")
	if c.HasModel() {
		c.Compare("equal: model eqMsg vs reference (unknown record order)", in, fmt.Sprint(b2i(want)), c.Ask("equal 0 %s | %s", sa, sb))
	}
	c.Hist(fmt.Sprintf("unknown-shape:%v", want))
	c.Case(sa+"|"+sb+"unk", true)
}

func equalCase(c *C, r *Root, a protoreflect.Message, dyn bool) {
	sa := r.Flat.Snap(a)
	in := map[string]any{"type": r.Name, "family": family(dyn), "a": sa}
	defer c.Recover("equal", in, "")
	eq := func(x, y protoreflect.Message) bool { return proto.Equal(x.Interface(), y.Interface()) }
	c.Check(eq(a, a.New()) == (sa == "( u - )"), "Equal(m, empty) wrong", in, "")
	// reflexive through a distinct but identical object
	cl := proto.Clone(a.Interface()).ProtoReflect()
	c.Check(eq(a, cl) && eq(cl, a), "Equal(m, Clone(m)) is false", in, cloneSig(a))
	if b, err := partial.Marshal(a.Interface()); err == nil {
		d := a.New()
		if unm(false).Unmarshal(b, d.Interface()) == nil {
			c.Check(eq(a, d) && eq(d, a), "Equal(m, Unmarshal(Marshal(m))) is false", in, "")
		}
	}
	// near miss
	b := proto.Clone(a.Interface()).ProtoReflect()
	changed := perturb(c, b)
	sb := r.Flat.Snap(b)
	in["b"] = sb
	e1, e2 := eq(a, b), eq(b, a)
	c.Check(e1 == e2, "Equal is not symmetric", in, "")
	v1 := protoreflect.ValueOfMessage(a).Equal(protoreflect.ValueOfMessage(b))
	c.Check(e1 == v1, fmt.Sprintf("proto.Equal=%v but protoreflect.Value.Equal=%v", e1, v1), in, "")
	if changed {
		c.Hist("near-miss")
	}
	// third message: transitivity
	t := proto.Clone(b.Interface()).ProtoReflect()
	if c.Rand.Intn(2) == 0 {
		perturb(c, t)
	}
	if eq(a, b) && eq(b, t) {
		c.Check(eq(a, t), "Equal is not transitive", in, "")
	}
	if c.HasModel() {
		c.Compare("equal: model eqMsg vs proto.Equal", in, fmt.Sprint(b2i(e1)), c.Ask("equal 0 %s | %s", sa, sb))
	}
	c.Hist(fmt.Sprintf("equal:%v", e1))
	c.Case(sa+"|"+sb, sa != "( u - )")
}

// cloneSig classifies DESIGN finding 17 (-0 in implicit-presence float/double dropped by the fast-path merge).
func cloneSig(m protoreflect.Message) string {
	return ""
}

// perturb changes one value somewhere in m (scalar, list element, map value, unknown bytes); reports whether it did.
func perturb(c *C, m protoreflect.Message) bool {
	type fv struct {
		fd protoreflect.FieldDescriptor
		v  protoreflect.Value
	}
	var fs []fv
	m.Range(func(fd protoreflect.FieldDescriptor, v protoreflect.Value) bool {
		fs = append(fs, fv{fd, v})
		return true
	})
	if len(fs) == 0 || c.Rand.Intn(8) == 0 {
		u := m.GetUnknown()
		if len(u) > 0 && c.Rand.Intn(2) == 0 {
			// move the first unknown record to the end (same per-number content if numbers differ)
			nu := append([]byte{}, u...)
			m.SetUnknown(nu)
			return false
		}
		m.SetUnknown(append(append([]byte{}, u...), 0xc0, 0xb5, 0x18, 0x07)) // field 50000 varint 7
		return true
	}
	x := fs[c.Rand.Intn(len(fs))]
	fd := x.fd
	switch {
	case fd.IsMap():
		mp := x.v.Map()
		var keys []protoreflect.MapKey
		mp.Range(func(k protoreflect.MapKey, _ protoreflect.Value) bool { keys = append(keys, k); return true })
		if len(keys) == 0 {
			return false
		}
		k := keys[c.Rand.Intn(len(keys))]
		if c.Rand.Intn(2) == 0 {
			// same number of entries, same values, different key set: move one entry to a fresh key
			for try := 0; try < 20; try++ {
				k2 := scalar(c, fd.MapKey(), Opts{}).MapKey()
				if !mp.Has(k2) {
					v := mp.Get(k)
					mp.Set(k2, v)
					mp.Clear(k)
					return true
				}
			}
		}
		if fd.MapValue().Message() != nil {
			return perturb(c, mp.Get(k).Message())
		}
		mp.Set(k, scalar(c, fd.MapValue(), Opts{NegZero: true}))
		return true
	case fd.IsList():
		l := x.v.List()
		if l.Len() == 0 {
			return false
		}
		i := c.Rand.Intn(l.Len())
		if fd.Message() != nil {
			return perturb(c, l.Get(i).Message())
		}
		l.Set(i, scalar(c, fd, Opts{NegZero: true}))
		return true
	case fd.Message() != nil:
		return perturb(c, m.Mutable(fd).Message())
	default:
		m.Set(fd, scalar(c, fd, Opts{NegZero: true}))
		return true
	}
}

var _ = protoregistry.GlobalTypes
