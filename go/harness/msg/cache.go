package main

import (
	"google.golang.org/protobuf/runtime/protoiface"
	"bytes"
	"fmt"

	vh "google.golang.org/protobuf/internal/zz_verif_vh"
	"google.golang.org/protobuf/proto"
	"google.golang.org/protobuf/reflect/protoreflect"
)

// ---------- C16: the size cache never makes Marshal output stale ----------

// mutateSmall changes the encoded size of some (possibly deeply nested) message by a small amount:
// varint values stepping across 1-byte/2-byte boundaries, one more byte in a string, one more list element.
func mutateSmall(c *C, m protoreflect.Message, depth int) string {
	// descend with probability 2/3 when possible
	var subs []protoreflect.Message
	m.Range(func(fd protoreflect.FieldDescriptor, v protoreflect.Value) bool {
		switch {
		case fd.IsMap():
			if fd.MapValue().Message() != nil {
				v.Map().Range(func(_ protoreflect.MapKey, mv protoreflect.Value) bool { subs = append(subs, mv.Message()); return true })
			}
		case fd.IsList():
			if fd.Message() != nil {
				for i := 0; i < v.List().Len(); i++ {
					subs = append(subs, v.List().Get(i).Message())
				}
			}
		case fd.Message() != nil:
			subs = append(subs, m.Mutable(fd).Message())
		}
		return true
	})
	if len(subs) > 0 && depth < 4 && c.Rand.Intn(8) == 0 {
		// empty a child completely while it stays present (its size drops to 0)
		sub := subs[c.Rand.Intn(len(subs))]
		var set []protoreflect.FieldDescriptor
		sub.Range(func(fd protoreflect.FieldDescriptor, _ protoreflect.Value) bool { set = append(set, fd); return true })
		for _, fd := range set {
			sub.Clear(fd)
		}
		sub.SetUnknown(nil)
		return fmt.Sprintf("empty-child@%d", depth)
	}
	if len(subs) > 0 && depth < 4 && c.Rand.Intn(3) != 0 {
		return mutateSmall(c, subs[c.Rand.Intn(len(subs))], depth+1)
	}
	fds := m.Descriptor().Fields()
	for try := 0; try < 20 && fds.Len() > 0; try++ {
		fd := fds.Get(c.Rand.Intn(fds.Len()))
		if fd.ContainingOneof() != nil && !fd.ContainingOneof().IsSynthetic() {
			continue
		}
		switch {
		case fd.IsMap() || fd.Message() != nil:
			continue
		case fd.IsList():
			l := m.Mutable(fd).List()
			l.Append(scalar(c, fd, Opts{}))
			return fmt.Sprintf("append %s@%d", fd.Name(), depth)
		case fd.Kind() == protoreflect.StringKind:
			m.Set(fd, protoreflect.ValueOfString(m.Get(fd).String()+"x"))
			return fmt.Sprintf("grow %s@%d", fd.Name(), depth)
		case fd.Kind() == protoreflect.BytesKind:
			m.Set(fd, protoreflect.ValueOfBytes(append(append([]byte{}, m.Get(fd).Bytes()...), 'y')))
			return fmt.Sprintf("grow %s@%d", fd.Name(), depth)
		case fd.Kind() == protoreflect.Int32Kind || fd.Kind() == protoreflect.Int64Kind || fd.Kind() == protoreflect.Uint32Kind || fd.Kind() == protoreflect.Uint64Kind:
			steps := []int64{1, 127, 128, 16383, 16384, 2097151, 2097152}
			cur := int64(canonNum(fd, m.Get(fd)))
			next := steps[c.Rand.Intn(len(steps))]
			for i, s := range steps { // prefer the neighbour across a size boundary
				if s == cur && i+1 < len(steps) && c.Rand.Intn(2) == 0 {
					next = steps[i+1]
				}
			}
			switch fd.Kind() {
			case protoreflect.Int32Kind:
				m.Set(fd, protoreflect.ValueOfInt32(int32(next)))
			case protoreflect.Int64Kind:
				m.Set(fd, protoreflect.ValueOfInt64(next))
			case protoreflect.Uint32Kind:
				m.Set(fd, protoreflect.ValueOfUint32(uint32(next)))
			default:
				m.Set(fd, protoreflect.ValueOfUint64(uint64(next)))
			}
			return fmt.Sprintf("set %s=%d@%d", fd.Name(), next, depth)
		}
	}
	return "noop"
}

func runSizeCache(c *C) {
	c.R.Rule = "histories of <= 30 operations on nested generated messages (about 40 corpus root types; messages with a size cache): mutate-small (a nested value's encoded size changes by a few bytes, often exactly one: varint boundary steps, one more string byte, one more list element), Size, Marshal (default / Deterministic / UseCachedSize directly after Size), Equal, Clone, in random order. Every Marshal must succeed and decode to the message's *current* content; Size must equal the length. Non-trivial = history with >= 2 mutations between marshals; distinct by final bytes."
	rs := roots(c)
	per := c.N(25, 1000)
	for _, r := range rs {
		r.Flat.Send(c)
		for i := 0; i < per && !c.Failed(); i++ {
			cacheHistory(c, r)
		}
	}
}

func cacheHistory(c *C, r *Root) {
	m := newFilled(c, r, false, Opts{FieldProb: 2})
	var trace []string
	in := map[string]any{"type": r.Name, "start": r.Flat.Snap(m)}
	defer func() {
		if e := recover(); e != nil {
			in["ops"] = trace
			c.Fail(vh.Failure{Kind: "panic", What: fmt.Sprintf("size-cache history panics: %v", e), Input: in})
		}
	}()
	muts := 0
	n := 8 + c.Rand.Intn(23)
	var last []byte
	for step := 0; step < n; step++ {
		switch c.Rand.Intn(10) {
		case 8, 9: // MarshalAppend / MarshalState into a buffer with spare capacity (the documented buf[:0] reuse loop)
			det := c.Rand.Intn(2) == 0
			prefix := []byte("pfx")[:c.Rand.Intn(4)]
			buf := append(make([]byte, 0, len(prefix)+c.Rand.Intn(4096)), prefix...)
			viaState := c.Rand.Intn(2) == 0
			trace = append(trace, fmt.Sprintf("marshalappend det=%v cap=%d state=%v", det, cap(buf), viaState))
			in["ops"] = trace
			var out []byte
			var err error
			o := proto.MarshalOptions{AllowPartial: true, Deterministic: det}
			if viaState {
				var res protoiface.MarshalOutput
				res, err = o.MarshalState(protoiface.MarshalInput{Message: m, Buf: buf})
				out = res.Buf
			} else {
				out, err = o.MarshalAppend(buf, m.Interface())
			}
			if !c.Check(err == nil, "MarshalAppend into a buffer with spare capacity fails after a mutation history: "+fmt.Sprint(err), in, "") {
				return
			}
			if !c.Check(bytes.HasPrefix(out, prefix), "MarshalAppend does not keep the prefix", in, "") {
				return
			}
			last = out[len(prefix):]
			if !checkCurrent(c, r, m, last, in) {
				return
			}
		case 0, 1, 2:
			trace = append(trace, mutateSmall(c, m, 0))
			muts++
		case 3:
			trace = append(trace, "size")
			proto.Size(m.Interface())
		case 4, 5:
			det := c.Rand.Intn(2) == 0
			trace = append(trace, fmt.Sprintf("marshal det=%v", det))
			in["ops"] = trace
			b, err := proto.MarshalOptions{AllowPartial: true, Deterministic: det}.Marshal(m.Interface())
			if !c.Check(err == nil, "Marshal fails after a mutation history: "+fmt.Sprint(err), in, "") {
				return
			}
			last = b
			if !checkCurrent(c, r, m, b, in) {
				return
			}
			c.Check(proto.Size(m.Interface()) == len(b), "Size != len(Marshal) after a mutation history", in, "")
		case 6:
			trace = append(trace, "size+marshal(UseCachedSize)")
			in["ops"] = trace
			sz := proto.Size(m.Interface())
			b, err := proto.MarshalOptions{AllowPartial: true, UseCachedSize: true}.Marshal(m.Interface())
			if !c.Check(err == nil && len(b) == sz, fmt.Sprintf("Size=%d then Marshal(UseCachedSize): err=%v len=%d", sz, err, len(b)), in, "") {
				return
			}
			cs := proto.MarshalOptions{AllowPartial: true, UseCachedSize: true}.Size(m.Interface())
			c.Check(cs == sz, fmt.Sprintf("Size=%d but Size(UseCachedSize) directly afterwards=%d", sz, cs), in, "")
			last = b
			if !checkCurrent(c, r, m, b, in) {
				return
			}
		case 7:
			trace = append(trace, "clone+equal")
			in["ops"] = trace
			cl := proto.Clone(m.Interface())
			c.Check(proto.Equal(cl, m.Interface()), "Equal(Clone(m), m) false inside a history", in, "")
		}
	}
	c.Hist(fmt.Sprintf("mutations:%d", muts/4*4))
	c.Case(r.Name+string(last), muts >= 2 && last != nil)
	if len(trace) < 12 && muts > 1 {
		c.Sample(map[string]any{"type": r.Name, "ops": trace})
	}
}

// checkCurrent: b must decode (eagerly, into a fresh message) to exactly the current content of m.
func checkCurrent(c *C, r *Root, m protoreflect.Message, b []byte, in map[string]any) bool {
	fresh := m.New()
	if err := unm(false).Unmarshal(b, fresh.Interface()); err != nil {
		return c.Check(false, "Marshal output after a mutation history does not decode: "+err.Error(), in, "")
	}
	ok := c.Check(proto.Equal(fresh.Interface(), m.Interface()) && r.Flat.Snap(fresh) == r.Flat.Snap(m), "Marshal output does not encode the message's current content (stale size cache?)", in, "")
	if ok && c.HasModel() && len(b) < 2000 && c.Rand.Intn(4) == 0 {
		c.Compare("size: model size of the current content vs len(Marshal)", in, fmt.Sprint(len(b)), c.Ask("size 0 %s", r.Flat.Snap(m)))
	}
	return ok
}
