// msg harness: message-level codec properties (C03 C04 C06 C07 …) against the Lean model
// Pb (lean/PbVerif/Model/Msg.lean) and directly against the property predicates.
package main

import (
	"bytes"
	"encoding/json"
	"fmt"
	"os"
	"strings"
	"unicode/utf8"

	"google.golang.org/protobuf/encoding/protowire"
	"google.golang.org/protobuf/internal/strs"

	vh "google.golang.org/protobuf/internal/zz_verif_vh"
	"google.golang.org/protobuf/proto"
	"google.golang.org/protobuf/reflect/protodesc"
	"google.golang.org/protobuf/reflect/protoreflect"
	"google.golang.org/protobuf/reflect/protoregistry"
	"google.golang.org/protobuf/types/dynamicpb"

	_ "google.golang.org/protobuf/cmd/protoc-gen-go/testdata/proto2"
	_ "google.golang.org/protobuf/cmd/protoc-gen-go/testdata/proto3"
	_ "google.golang.org/protobuf/cmd/protoc-gen-go/testdata/protoeditions"
	"google.golang.org/protobuf/internal/impl"
	_ "google.golang.org/protobuf/internal/testprotos/editionsfuzztest"
	_ "google.golang.org/protobuf/internal/testprotos/lazy"
	_ "google.golang.org/protobuf/internal/testprotos/news"
	_ "google.golang.org/protobuf/internal/testprotos/order"
	_ "google.golang.org/protobuf/internal/testprotos/textpbeditions"
	_ "google.golang.org/protobuf/internal/testprotos/mixed"
	"google.golang.org/protobuf/runtime/protoiface"
	_ "google.golang.org/protobuf/internal/testprotos/lazy/lazy_opaque"
	_ "google.golang.org/protobuf/internal/testprotos/required"
	_ "google.golang.org/protobuf/internal/testprotos/required/required_opaque"
	_ "google.golang.org/protobuf/internal/testprotos/test"
	_ "google.golang.org/protobuf/internal/testprotos/test3"
	_ "google.golang.org/protobuf/internal/testprotos/test3/test3_hybrid"
	_ "google.golang.org/protobuf/internal/testprotos/test3/test3_opaque"
	_ "google.golang.org/protobuf/internal/testprotos/testeditions"
	_ "google.golang.org/protobuf/internal/testprotos/testeditions/testeditions_hybrid"
	_ "google.golang.org/protobuf/internal/testprotos/testeditions/testeditions_opaque"
	_ "google.golang.org/protobuf/internal/testprotos/textpb2"
	_ "google.golang.org/protobuf/internal/testprotos/textpb3"
)

type C = vh.Ctx

func main() {
	if os.Getenv("VERIF_CHILD") == "det" {
		childDet()
		return
	}
	if os.Getenv("VERIF_CHILD") == "digest" {
		childDigest()
		return
	}
	// snapshots on the Go side read float32 fields through protoreflect (float64), which quiets signalling NaNs;
	// ask the model driver (started by vh.Main, inheriting the environment) to print the same canonical pattern
	os.Setenv("PBMODEL_QUIET_NAN", "1")
	vh.Main("msg", run)
}

// root message types exercised (full names); every one is driven as generated type and as dynamicpb
var rootTypes = []string{
	"goproto.proto.test.TestAllTypes",
	"goproto.proto.test.TestAllExtensions",
	"goproto.proto.test.TestRequired",
	"goproto.proto.test.TestRequiredForeign",
	"goproto.proto.test.TestPackedTypes",
	"goproto.proto.test.TestUnpackedTypes",
	"goproto.proto.test.TestManyMessageFieldsMessage",
	"goproto.proto.test3.TestAllTypes",
	"hybrid.goproto.proto.test3.TestAllTypes",
	"opaque.goproto.proto.test3.TestAllTypes",
	"goproto.proto.testeditions.TestAllTypes",
	"hybrid.goproto.proto.testeditions.TestAllTypes",
	"opaque.goproto.proto.testeditions.TestAllTypes",
	"goproto.proto.testeditions.TestRequired",
	"goproto.proto.testeditions.TestRequiredForeign",
	"goproto.proto.testeditions.TestRequiredLazy",
	"opaque.goproto.proto.testeditions.TestRequiredLazy",
	"goproto.proto.testeditions.TestOneofWithRequired",
	"goproto.proto.testeditions.TestPackedTypes",
	"goproto.proto.testeditions.TestPackedExtensions",
	"goproto.proto.testrequired.Message",
	"opaque.goproto.proto.testrequired.Message",
	"pb2.Scalars", "pb2.Repeats", "pb2.Nests", "pb2.Maps", "pb2.Requireds", "pb2.NestedWithRequired", "pb2.IndirectRequired", "pb2.Extensions",
	"pb3.Scalars", "pb3.Repeats", "pb3.Nests", "pb3.Maps", "pb3.Oneofs",
	"lazy_tree.Node",
	"opaque.lazy_tree.Node",
	"lazy_normalized_wire_test.FTop",
	// oneofs whose members share a Go type, every scalar kind in optional/required/repeated/map position
	// several lazy fields in one message, mixed API levels
	"goproto.proto.test.Open", "goproto.proto.test.Hybrid", "goproto.proto.test.Opaque",
	"goproto.proto.test.OpenLazy", "goproto.proto.test.HybridLazy", "goproto.proto.test.OpaqueLazy",
	"goproto.proto.order.Message",
	"google.golang.org.Article",
	"goproto.proto.test.TestAllTypesProto2",
	"goproto.proto.test.TestAllTypesProto2Editions",
	"goproto.proto.test.TestAllTypesProto3",
	"goproto.proto.test.TestAllTypesProto3Editions",
	"pbeditions.Scalars",
	"pbeditions.ImplicitScalars",
	"pbeditions.Nests",
	"pbeditions.Maps",
	"pbeditions.Repeats",
	"pbeditions.Requireds",
	"goproto.protoc.proto2.FieldTestMessage",
	"goproto.protoc.proto3.FieldTestMessage",
	"goproto.protoc.protoeditions.FieldTestMessage",
}

type Root struct {
	Name string
	MT   protoreflect.MessageType // generated
	DT   protoreflect.MessageType // dynamicpb of the same descriptor
	Flat *Flat
	Exts []protoreflect.ExtensionType
}

func roots(c *C) []*Root {
	var out []*Root
	for _, n := range rootTypes {
		mt, err := protoregistry.GlobalTypes.FindMessageByName(protoreflect.FullName(n))
		if err != nil {
			c.R.Notes = append(c.R.Notes, "type not linked: "+n)
			continue
		}
		r := &Root{Name: n, MT: mt, DT: dynamicpb.NewMessageType(mt.Descriptor())}
		r.Flat = Flatten(mt.Descriptor(), protoregistry.GlobalTypes)
		for _, xs := range r.Flat.Exts {
			r.Exts = append(r.Exts, xs...)
		}
		out = append(out, r)
		if protodescProps[c.Prop] {
			if r2 := protodescRoot(c, n, mt.Descriptor()); r2 != nil {
				out = append(out, r2)
			}
		}
	}
	return out
}

// For the streams below every root type is also exercised as a "random-schema" style message: dynamicpb over a
// descriptor REBUILT by protodesc.NewFile from the FileDescriptorProto of the linked file (feature resolution,
// presence, packedness, … computed by protodesc instead of filedesc).
var protodescProps = map[string]bool{"C03": true, "C10": true, "C11": true, "C12": true, "C15": true, "C28": true, "C13": true, "C04": true}

var protodescFiles = map[string]protoreflect.FileDescriptor{}

func protodescRoot(c *C, name string, md protoreflect.MessageDescriptor) *Root {
	path := md.ParentFile().Path()
	fd, ok := protodescFiles[path]
	if !ok {
		var err error
		fd, err = protodesc.NewFile(protodesc.ToFileDescriptorProto(md.ParentFile()), protoregistry.GlobalFiles)
		if err != nil {
			c.R.Notes = append(c.R.Notes, "protodesc rebuild of "+path+" failed: "+err.Error())
			fd = nil
		}
		protodescFiles[path] = fd
	}
	if fd == nil {
		return nil
	}
	var find func(ms protoreflect.MessageDescriptors) protoreflect.MessageDescriptor
	find = func(ms protoreflect.MessageDescriptors) protoreflect.MessageDescriptor {
		for i := 0; i < ms.Len(); i++ {
			if ms.Get(i).FullName() == md.FullName() {
				return ms.Get(i)
			}
			if m := find(ms.Get(i).Messages()); m != nil {
				return m
			}
		}
		return nil
	}
	md2 := find(fd.Messages())
	if md2 == nil {
		return nil
	}
	pt := dynamicpb.NewMessageType(md2)
	r := &Root{Name: name + "@protodesc", MT: pt, DT: pt}
	r.Flat = Flatten(md2, protoregistry.GlobalTypes)
	for _, xs := range r.Flat.Exts {
		r.Exts = append(r.Exts, xs...)
	}
	return r
}

func errClass(err error) string {
	if err == nil {
		return "ok"
	}
	s := err.Error()
	switch {
	case strings.Contains(s, "invalid UTF-8"):
		return "err utf8"
	case strings.Contains(s, "exceeded maximum recursion depth"):
		return "err depth"
	case strings.Contains(s, "required field"):
		return "err required"
	default:
		return "err decode"
	}
}

func run(c *C) {
	switch c.Prop {
	case "C03":
		runRoundTrip(c)
	case "C04":
		runSize(c)
	case "C06":
		runDecode(c)
	case "C07":
		runMerge(c)
	case "C05":
		runDet(c)
	case "C10":
		runRequired(c)
	case "C13":
		runUtf8(c)
	case "C30":
		runEqual(c)
	case "C16":
		runSizeCache(c)
	case "C08":
		runPaths(c)
	case "C17":
		runLazy(c)
	case "C09":
		runUnknown(c)
	case "C11", "C12", "C15", "C28":
		runOps(c)
	default:
		panic("msg harness: unknown property " + c.Prop)
	}
}

var partial = proto.MarshalOptions{AllowPartial: true}
var partialDet = proto.MarshalOptions{AllowPartial: true, Deterministic: true}

func unm(lazy bool) proto.UnmarshalOptions {
	return proto.UnmarshalOptions{AllowPartial: true, NoLazyDecoding: !lazy}
}

// newFilled returns a random message of root r in the given family.
func newFilled(c *C, r *Root, dynamic bool, o Opts) protoreflect.Message {
	mt := r.MT
	if dynamic {
		mt = r.DT
	}
	m := mt.New()
	if o.MaxDepth == 0 {
		o.MaxDepth = 3
	}
	fill(c, m, 0, o, r.Exts)
	return m
}

// ---------- C03: round trip ----------

func runRoundTrip(c *C) {
	c.R.Rule = "random messages over about 40 corpus root types (proto2/proto3/editions; open/hybrid/opaque; lazy; extensions; maps; oneofs; groups; packed/unpacked; unknown fields), each as generated type and as dynamicpb; boundary scalars, NaN, -0, empty and long strings. Non-trivial = at least one populated field; distinct by deterministic encoding."
	rs := roots(c)
	per := c.N(40, 1500)
	for _, r := range rs {
		r.Flat.Send(c)
		// round trips after in-place mutation histories (a Marshal that follows earlier Size/Marshal calls and
		// mutations — incl. emptying a child — must still encode the current content)
		for i := 0; i < per/4+1 && !c.Failed(); i++ {
			cacheHistory(c, r)
		}
		for i := 0; i < per && !c.Failed(); i++ {
			for _, dyn := range []bool{false, true} {
				m := newFilled(c, r, dyn, Opts{NegZero: true})
				roundTrip(c, r, m, dyn)
			}
		}
	}
}

func family(dyn bool) string {
	if dyn {
		return "dynamicpb"
	}
	return "generated"
}

func roundTrip(c *C, r *Root, m protoreflect.Message, dyn bool) {
	in := map[string]any{"type": r.Name, "family": family(dyn)}
	defer c.Recover("round trip", in, "")
	snap := r.Flat.Snap(m)
	in["msg"] = snap
	det, err := partialDet.Marshal(m.Interface())
	if !c.Check(err == nil, "Marshal(Deterministic) of valid content fails: "+fmt.Sprint(err), in, "") {
		return
	}
	def, err := partial.Marshal(m.Interface())
	c.Check(err == nil, "Marshal of valid content fails: "+fmt.Sprint(err), in, "")
	for _, b := range [][]byte{det, def} {
		for _, lazy := range []bool{false, true} {
			m2 := m.New()
			err := unm(lazy).Unmarshal(b, m2.Interface())
			if c.Check(err == nil, "Unmarshal(Marshal(m)) fails: "+fmt.Sprint(err), in, "") {
				c.Check(proto.Equal(m.Interface(), m2.Interface()), fmt.Sprintf("Unmarshal(Marshal(m)) != m (lazy=%v)", lazy), in, "")
			}
		}
	}
	if c.HasModel() {
		// model encodes the same content: exact deterministic bytes
		c.Compare("encdet: model deterministic bytes vs proto.Marshal(Deterministic)", in, vh.Hex(det), c.Ask("encdet 0 %s", snap))
		// the hypothesis of theorem C03.decode_encode (WF) holds of every real message: the theorem is not vacuous
		c.Compare("wf: the model's well-formedness predicate (hypothesis of C03.decode_encode) holds of a real message", in, "1", c.Ask("wf 0 %s", snap))
		// model decodes the implementation's default (non-deterministic order) output
		want := "ok " + snap
		c.Compare("dec: model decoding of the implementation's bytes vs the message", in, want, c.Ask("dec 0 10000 0 %s", vh.Hex(def)))
	}
	c.Hist("family:" + family(dyn))
	c.Case(r.Name+string(det), len(det) > 0)
	if len(det) > 8 && len(det) < 80 {
		c.Sample(map[string]any{"type": r.Name, "family": family(dyn), "bytes": vh.Hex(det)})
	}
}

// ---------- C04: size ----------

func runSize(c *C) {
	c.R.Rule = "random messages as in C03; Size vs len(Marshal) under {default, Deterministic} options and MarshalAppend with random prefixes/capacities; bodies at varint-length boundaries (127/128/16383/16384 bytes); plus mutate/Size/Marshal histories on nested messages (size changes of exactly one byte after a previous Size); message_set_wire_format types in the default build (items as unknown fields, top level and nested, generated and dynamicpb). Non-trivial = non-empty encoding; distinct by bytes."
	rs := roots(c)
	per := c.N(40, 1500)
	msetPlainCases(c)
	for _, r := range rs {
		r.Flat.Send(c)
		for i := 0; i < per && !c.Failed(); i++ {
			for _, dyn := range []bool{false, true} {
				m := newFilled(c, r, dyn, Opts{NegZero: true})
				if i%10 == 0 {
					padToBoundary(c, m)
				}
				sizeCase(c, r, m, dyn)
			}
		}
		for i := 0; i < per/4+1 && !c.Failed(); i++ {
			nilValueCase(c, r)
		}
		// Size/Marshal after in-place mutations of already-sized nested messages (cached sizes must not go stale)
		for i := 0; i < per/4+1 && !c.Failed(); i++ {
			cacheHistory(c, r)
		}
	}
}

// padToBoundary sets a bytes/string field so that nested lengths land on varint boundaries.
func padToBoundary(c *C, m protoreflect.Message) {
	fds := m.Descriptor().Fields()
	for i := 0; i < fds.Len(); i++ {
		fd := fds.Get(i)
		if fd.Kind() == protoreflect.BytesKind && !fd.IsList() && fd.ContainingOneof() == nil {
			n := []int{120, 125, 126, 127, 128, 16380, 16383, 16384}[c.Rand.Intn(8)]
			m.Set(fd, protoreflect.ValueOfBytes(bytes.Repeat([]byte{'x'}, n)))
			return
		}
	}
}

func sizeCase(c *C, r *Root, m protoreflect.Message, dyn bool) {
	in := map[string]any{"type": r.Name, "family": family(dyn)}
	defer c.Recover("size", in, "")
	snap := r.Flat.Snap(m)
	in["msg"] = snap
	for _, o := range []proto.MarshalOptions{partial, partialDet, {AllowPartial: true, UseCachedSize: false}} {
		b, err := o.Marshal(m.Interface())
		if err != nil {
			c.Check(false, "Marshal fails: "+err.Error(), in, "")
			continue
		}
		sz := o.Size(m.Interface())
		c.Check(sz == len(b), fmt.Sprintf("Size=%d != len(Marshal)=%d (det=%v)", sz, len(b), o.Deterministic), in, "")
		prefix := make([]byte, c.Rand.Intn(5), c.Rand.Intn(5)+5+c.Rand.Intn(2)*len(b))
		c.Rand.Read(prefix)
		pcopy := append([]byte{}, prefix...)
		out, err := o.MarshalAppend(prefix, m.Interface())
		// Deterministic output is a function of content; default output may differ between calls only in map order
		if o.Deterministic {
			c.Check(err == nil && bytes.Equal(out, append(pcopy, b...)), "MarshalAppend(prefix, m) != prefix ++ Marshal(m)", in, "")
		} else {
			c.Check(err == nil && bytes.HasPrefix(out, pcopy) && len(out) == len(pcopy)+len(b), "MarshalAppend(prefix, m): prefix/length wrong", in, "")
		}
		if c.HasModel() && o.Deterministic {
			c.Compare("size: model size vs proto.Size", in, fmt.Sprint(sz), c.Ask("size 0 %s", snap))
		}
		c.Case(r.Name+string(b), len(b) > 0)
	}
	c.Hist("family:" + family(dyn))
}

// ---------- C06: decoding arbitrary bytes ----------

func runDecode(c *C) {
	c.R.Rule = "inputs: valid encodings of random messages with 0-3 wire mutations {truncate, bit flip, wire-type flip, overlong varint, byte drop, slice duplication, 0xff, stray end-group, rotation} and random soups, for about 40 root types x {generated, dynamicpb}; nesting around RecursionLimit in {1,2,3,5}. Non-trivial = input decodes successfully to a non-empty message or fails with a specific class; distinct by input bytes."
	rs := roots(c)
	per := c.N(120, 6000)
	for _, r := range rs {
		r.Flat.Send(c)
		for i := 0; i < per && !c.Failed(); i++ {
			m := newFilled(c, r, false, Opts{BadUTF8: true, NegZero: true})
			b, err := partial.Marshal(m.Interface())
			if err != nil {
				// invalid UTF-8 planted in an enforced field: the model must refuse too
				if c.HasModel() {
					c.Compare("enc: marshal error class", r.Flat.Snap(m), errClass(err), c.Ask("enc 0 %s", r.Flat.Snap(m)))
				}
				continue
			}
			kinds := ""
			for k := c.Rand.Intn(4); k > 0; k-- {
				var kind string
				b, kind = mutateWire(c, b)
				kinds += kind + "+"
			}
			limit := 10000
			if c.Rand.Intn(4) == 0 {
				limit = []int{1, 2, 3, 5}[c.Rand.Intn(4)]
			}
			decodeCase(c, r, b, limit, c.Rand.Intn(5) == 0, kinds)
		}
	}
	// hand-assembled map entries: repeated / missing / wrong-wire-type key and value records, foreign fields
	for _, r := range rs {
		var maps []protoreflect.FieldDescriptor
		for i := 0; i < r.Flat.Root.Fields().Len(); i++ {
			if fd := r.Flat.Root.Fields().Get(i); fd.IsMap() {
				maps = append(maps, fd)
			}
		}
		if len(maps) == 0 {
			continue
		}
		r.Flat.Send(c)
		for i := 0; i < c.N(60, 3000) && !c.Failed(); i++ {
			fd := maps[c.Rand.Intn(len(maps))]
			var b []byte
			for k := 1 + c.Rand.Intn(2); k > 0; k-- {
				b = protowire.AppendBytes(protowire.AppendTag(b, fd.Number(), protowire.BytesType), mapEntryBytes(c, fd))
			}
			decodeCase(c, r, b, 10000, false, "mapentry")
		}
	}
	// nesting exactly at / around the recursion limit through every kind of message-valued field
	// (plain fields, groups, map values, list elements, extension fields)
	for _, r := range rs {
		r.Flat.Send(c)
		for _, cyc := range findCycles(r) {
			for _, limit := range []int{1, 2, 3, 5, 17} {
				for k := 0; k <= limit+2; k++ {
					depth := 1 + k*len(cyc.path)
					if depth > limit+2*len(cyc.path)+1 {
						break
					}
					b := nestBytes(cyc, k)
					nestCase(c, r, b, limit, depth, cyc.desc)
				}
			}
		}
	}
	for _, raw := range c.ReplayInputs() {
		var in struct {
			Type    string `json:"type"`
			Bytes   string `json:"bytes"`
			Limit   int    `json:"limit"`
			Discard bool   `json:"discard"`
		}
		if json.Unmarshal(raw, &in) == nil && in.Type != "" {
			for _, r := range rs {
				if r.Name == in.Type {
					r.Flat.Send(c)
					decodeCase(c, r, vh.UnHex(in.Bytes), in.Limit, in.Discard, "replay")
				}
			}
		}
	}
}

type cycle struct {
	path []protoreflect.FieldDescriptor // message-valued fields leading from the root type back to it
	desc string
}

// findCycles returns descriptor cycles root -> ... -> root through message-valued fields
// (declared fields and known extensions), one per first step, shortest first.
func findCycles(r *Root) []cycle {
	root := r.Flat.Root
	var out []cycle
	fieldsOf := func(md protoreflect.MessageDescriptor) []protoreflect.FieldDescriptor {
		var fs []protoreflect.FieldDescriptor
		for i := 0; i < md.Fields().Len(); i++ {
			if fd := md.Fields().Get(i); fd.Message() != nil {
				fs = append(fs, fd)
			}
		}
		for _, xt := range r.Flat.Exts[md.FullName()] {
			if xt.TypeDescriptor().Message() != nil {
				fs = append(fs, xt.TypeDescriptor())
			}
		}
		return fs
	}
	target := func(fd protoreflect.FieldDescriptor) protoreflect.MessageDescriptor {
		if fd.IsMap() {
			return fd.MapValue().Message()
		}
		return fd.Message()
	}
	for _, first := range fieldsOf(root) {
		if target(first) == nil {
			continue
		}
		// BFS from target(first) back to root
		type node struct {
			md   protoreflect.MessageDescriptor
			path []protoreflect.FieldDescriptor
		}
		seen := map[protoreflect.FullName]bool{}
		q := []node{{target(first), []protoreflect.FieldDescriptor{first}}}
		for len(q) > 0 {
			n := q[0]
			q = q[1:]
			if n.md.FullName() == root.FullName() {
				names := []string{}
				for _, fd := range n.path {
					names = append(names, string(fd.Name()))
				}
				out = append(out, cycle{n.path, strings.Join(names, ".")})
				break
			}
			if seen[n.md.FullName()] || len(n.path) > 3 {
				continue
			}
			seen[n.md.FullName()] = true
			for _, fd := range fieldsOf(n.md) {
				if t := target(fd); t != nil {
					q = append(q, node{t, append(append([]protoreflect.FieldDescriptor{}, n.path...), fd)})
				}
			}
		}
	}
	if len(out) > 12 {
		out = out[:12]
	}
	return out
}

// nestBytes wraps the empty message k times along the cycle.
func nestBytes(cyc cycle, k int) []byte {
	var b []byte
	for i := 0; i < k; i++ {
		for j := len(cyc.path) - 1; j >= 0; j-- {
			fd := cyc.path[j]
			switch {
			case fd.IsMap():
				entry := protowire.AppendBytes(protowire.AppendTag(nil, 2, protowire.BytesType), b)
				b = protowire.AppendBytes(protowire.AppendTag(nil, fd.Number(), protowire.BytesType), entry)
			case fd.Kind() == protoreflect.GroupKind:
				b = protowire.AppendTag(append(protowire.AppendTag(nil, fd.Number(), protowire.StartGroupType), b...), fd.Number(), protowire.EndGroupType)
			default:
				b = protowire.AppendBytes(protowire.AppendTag(nil, fd.Number(), protowire.BytesType), b)
			}
		}
	}
	return b
}

// nestCase: nesting deeper than the limit must be refused, nesting within it accepted.
func nestCase(c *C, r *Root, b []byte, limit, depth int, desc string) {
	in := map[string]any{"type": r.Name, "bytes": vh.Hex(b), "limit": limit, "discard": false, "nesting": depth, "via": desc}
	for _, dyn := range []bool{false, true} {
		for _, lazy := range []bool{false, true} {
			if dyn && lazy {
				continue
			}
			func() {
				defer c.Recover("Unmarshal(nested)", in, "")
				mt := r.MT
				if dyn {
					mt = r.DT
				}
				err := proto.UnmarshalOptions{AllowPartial: true, NoLazyDecoding: !lazy, RecursionLimit: limit}.Unmarshal(b, mt.New().Interface())
				if mapDepthCost(desc, r) {
					return // map entries cost an extra level; covered by the model comparison below
				}
				if depth > limit {
					c.Check(err != nil, fmt.Sprintf("input nested %d deep via %s accepted with RecursionLimit %d (%s, lazy=%v)", depth, desc, limit, family(dyn), lazy), in, "")
				} else {
					c.Check(err == nil, fmt.Sprintf("input nested %d deep via %s refused with RecursionLimit %d (%s, lazy=%v): %v", depth, desc, limit, family(dyn), lazy, err), in, "")
				}
			}()
		}
	}
	decodeCase(c, r, b, limit, false, "nest")
}

func mapDepthCost(desc string, r *Root) bool {
	return strings.Contains(desc, "map_")
}

func decodeCase(c *C, r *Root, b []byte, limit int, discard bool, kinds string) {
	in := map[string]any{"type": r.Name, "bytes": vh.Hex(b), "limit": limit, "discard": discard}
	var verdicts []string
	rawDyn := ""
	for _, dyn := range []bool{false, true} {
		for _, lazy := range []bool{false, true} {
			if dyn && lazy {
				continue
			}
			func() {
				in := map[string]any{"type": r.Name, "bytes": vh.Hex(b), "limit": limit, "discard": discard, "family": family(dyn), "lazy": lazy}
				defer c.Recover("Unmarshal", in, panicSig(r, b, dyn))
				mt := r.MT
				if dyn {
					mt = r.DT
				}
				m := mt.New()
				o := proto.UnmarshalOptions{AllowPartial: true, NoLazyDecoding: !lazy, RecursionLimit: limit, DiscardUnknown: discard}
				err := o.Unmarshal(b, m.Interface())
				got := errClass(err)
				if err == nil {
					got = "ok " + r.Flat.SnapNorm(m, !dyn)
				}
				verdicts = append(verdicts, got)
				if dyn {
					rawDyn = got
					if err == nil {
						rawDyn = "ok " + r.Flat.Snap(m) // unknown records byte for byte, as the model keeps them
					}
				}
			}()
		}
	}
	// the fast-path validator used by lazy decoding must agree with Unmarshal
	func() {
		defer c.Recover("impl.Validate", in, "")
		_, st := impl.Validate(r.MT, protoiface.UnmarshalInput{Buf: b, Depth: limit})
		out, _ := impl.Validate(r.MT, protoiface.UnmarshalInput{Buf: b, Depth: limit})
		ok := len(verdicts) > 0 && strings.HasPrefix(verdicts[0], "ok")
		switch st {
		case impl.ValidationValid:
			c.Check(ok, "validator says Valid but Unmarshal fails", in, "")
			if ok && out.Flags&protoiface.UnmarshalInitialized != 0 {
				m := r.MT.New()
				if (proto.UnmarshalOptions{AllowPartial: true, NoLazyDecoding: true, RecursionLimit: limit}).Unmarshal(b, m.Interface()) == nil {
					c.Check(proto.CheckInitialized(m.Interface()) == nil, "validator reports a partial message as initialized", in, "")
				}
			}
		case impl.ValidationInvalid:
			c.Check(!ok, "validator says Invalid but Unmarshal succeeds", in, "")
		}
		c.Hist(fmt.Sprintf("validate:%d", st))
	}()
	// all implementation voices agree (C08 aspect) …
	for _, v := range verdicts[1:] {
		if !(v == verdicts[0] || (strings.HasPrefix(v, "err") && strings.HasPrefix(verdicts[0], "err"))) {
			heads := []string{}
			for _, x := range verdicts {
				if len(x) > 60 {
					x = x[:60]
				}
				heads = append(heads, x)
			}
			c.Fail(vh.Failure{Kind: "property", What: "generated(eager) / generated(lazy) / dynamicpb disagree on Unmarshal result", Input: in, Impl: strings.Join(heads, " || ")})
			break
		}
	}
	// … and with the model
	if c.HasModel() && len(verdicts) > 0 && len(b) < 3000 {
		ans := c.Ask("dec 0 %d %d %s", limit, b2i(discard), vh.Hex(b))
		want := rawDyn // dynamicpb: the reflection path the model mirrors (exact unknown bytes)
		if want == "" {
			want = verdicts[len(verdicts)-1]
		}
		if strings.HasPrefix(want, "err") && strings.HasPrefix(ans, "err") {
			// error classes can legitimately differ between the paths only in which of several defects is hit first; compare class
			c.Compare("dec: error class (dynamicpb vs model)", in, want, ans)
		} else {
			c.Compare("dec: dynamicpb result vs model", in, want, ans)
		}
	}
	cls := verdicts[0]
	if strings.HasPrefix(cls, "ok") {
		cls = "ok"
	}
	c.Hist("mut:" + kinds)
	c.Hist("result:" + cls)
	c.Case(r.Name+string(b), cls != "ok" || len(b) > 0)
	if len(b) > 4 && len(b) < 60 && kinds != "" {
		c.Sample(map[string]any{"type": r.Name, "bytes": vh.Hex(b), "mutations": kinds, "result": cls})
	}
}

// panicSig classifies the known reflection-path panic (DESIGN finding 21).
func panicSig(r *Root, b []byte, dyn bool) string {
	return ""
}

// ---------- C07: merge ----------

func runMerge(c *C) {
	c.R.Rule = "pairs (a, b) of random messages of one type (b is drawn independently; overlaps are frequent because fields are populated with probability 1/3), about 40 root types x {generated, dynamicpb}: Merge(a,b) vs Unmarshal(Marshal(a)++Marshal(b)) vs UnmarshalOptions{Merge} vs the model's merge and decode; the same with both operands freshly decoded (lazily / eagerly, untouched before the Merge). Non-trivial = both messages non-empty; distinct by the two encodings."
	rs := roots(c)
	per := c.N(40, 1500)
	for _, r := range rs {
		r.Flat.Send(c)
		for i := 0; i < per && !c.Failed(); i++ {
			for _, dyn := range []bool{false, true} {
				a := newFilled(c, r, dyn, Opts{FieldProb: 3, NegZero: true})
				b := newFilled(c, r, dyn, Opts{FieldProb: 3, NegZero: true})
				mergeCase(c, r, a, b, dyn)
			}
		}
	}
}

func mergeCase(c *C, r *Root, a, b protoreflect.Message, dyn bool) {
	sa, sb := r.Flat.Snap(a), r.Flat.Snap(b)
	in := map[string]any{"type": r.Name, "family": family(dyn), "a": sa, "b": sb}
	defer c.Recover("merge", in, "")
	ba, err1 := partial.Marshal(a.Interface())
	bb, err2 := partial.Marshal(b.Interface())
	if err1 != nil || err2 != nil {
		return
	}
	// Merge(a, b)
	merged := proto.Clone(a.Interface())
	proto.Merge(merged, b.Interface())
	// decode of the concatenation
	cat := a.New().Interface()
	err := unm(false).Unmarshal(append(append([]byte{}, ba...), bb...), cat)
	c.Check(err == nil, "Unmarshal(Marshal(a)++Marshal(b)) fails: "+fmt.Sprint(err), in, "")
	c.Check(proto.Equal(merged, cat), "Merge(a,b) != Unmarshal(Marshal(a) ++ Marshal(b))", in, "")
	// UnmarshalOptions{Merge:true} into a clone of a
	into := proto.Clone(a.Interface())
	err = proto.UnmarshalOptions{AllowPartial: true, Merge: true}.Unmarshal(bb, into)
	c.Check(err == nil && proto.Equal(merged, into), "UnmarshalOptions{Merge}(b) into a != Merge(a, b)", in, "")
	// operands that come straight out of a (lazy or eager) decoder and have not been touched: deferred lazy
	// submessages on either side must be merged like decoded ones
	for _, mode := range [][2]bool{{true, true}, {true, false}, {false, true}} {
		da, db := a.New().Interface(), a.New().Interface()
		if unm(mode[0]).Unmarshal(ba, da) != nil || unm(mode[1]).Unmarshal(bb, db) != nil {
			continue
		}
		proto.Merge(da, db)
		c.Check(proto.Equal(da, cat), fmt.Sprintf("Merge of freshly decoded operands (dst lazy=%v, src lazy=%v) != Unmarshal(Marshal(a) ++ Marshal(b))", mode[0], mode[1]), in, "")
		if out, err := partialDet.Marshal(da); err == nil {
			re := a.New().Interface()
			c.Check(unm(false).Unmarshal(out, re) == nil && proto.Equal(re, cat), fmt.Sprintf("Marshal after Merge of freshly decoded operands (dst lazy=%v, src lazy=%v) loses content", mode[0], mode[1]), in, "")
		}
		dc := a.New().Interface()
		if unm(mode[0]).Unmarshal(ba, dc) == nil {
			err := proto.UnmarshalOptions{AllowPartial: true, Merge: true, NoLazyDecoding: !mode[1]}.Unmarshal(bb, dc)
			c.Check(err == nil && proto.Equal(dc, cat), fmt.Sprintf("UnmarshalOptions{Merge} into a freshly decoded message (dst lazy=%v, lazy=%v) != decoding of the concatenation", mode[0], mode[1]), in, "")
		}
	}
	// src untouched
	c.Check(r.Flat.Snap(b) == sb, "Merge modified its source", in, "")
	if c.HasModel() {
		ms := r.Flat.Snap(merged.ProtoReflect())
		c.Compare("merge: model merge vs proto.Merge", in, ms, c.Ask("merge 0 %s | %s", sa, sb))
		c.Compare("decinto: model merge-decode vs proto.Merge", in, "ok "+ms, c.Ask("decinto 0 10000 0 %s %s", vh.Hex(bb), sa))
	}
	c.Hist("family:" + family(dyn))
	c.Case(r.Name+string(ba)+"|"+string(bb), len(ba) > 0 && len(bb) > 0)
}

func enforce(fd protoreflect.FieldDescriptor) bool { return strs.EnforceUTF8(fd) }
func validUTF8(s string) bool                      { return utf8.ValidString(s) }

// entryRecord appends one record for entry field fd (1 = key, 2 = value) with a right or wrong wire type.
func entryRecord(c *C, b []byte, num protowire.Number, fd protoreflect.FieldDescriptor, wrong bool) []byte {
	wt := map[protoreflect.Kind]protowire.Type{
		protoreflect.BoolKind: 0, protoreflect.EnumKind: 0, protoreflect.Int32Kind: 0, protoreflect.Sint32Kind: 0, protoreflect.Uint32Kind: 0,
		protoreflect.Int64Kind: 0, protoreflect.Sint64Kind: 0, protoreflect.Uint64Kind: 0,
		protoreflect.Sfixed32Kind: 5, protoreflect.Fixed32Kind: 5, protoreflect.FloatKind: 5,
		protoreflect.Sfixed64Kind: 1, protoreflect.Fixed64Kind: 1, protoreflect.DoubleKind: 1,
		protoreflect.StringKind: 2, protoreflect.BytesKind: 2, protoreflect.MessageKind: 2, protoreflect.GroupKind: 3,
	}[fd.Kind()]
	if wrong {
		wt = []protowire.Type{0, 1, 2, 5}[c.Rand.Intn(4)]
	}
	b = protowire.AppendTag(b, num, wt)
	switch wt {
	case 0:
		b = protowire.AppendVarint(b, uint64(c.Rand.Intn(4)))
	case 1:
		b = protowire.AppendFixed64(b, uint64(c.Rand.Intn(4)))
	case 5:
		b = protowire.AppendFixed32(b, uint32(c.Rand.Intn(4)))
	case 2:
		if fd.Kind() == protoreflect.MessageKind && !wrong {
			m := dynamicpb.NewMessage(fd.Message())
			fill(c, m, 2, Opts{MaxDepth: 3}, nil)
			sub, _ := partial.Marshal(m)
			b = protowire.AppendBytes(b, sub)
		} else {
			b = protowire.AppendBytes(b, []byte(strsv[c.Rand.Intn(4)]))
		}
	}
	return b
}

func mapEntryBytes(c *C, fd protoreflect.FieldDescriptor) []byte {
	var b []byte
	for k := c.Rand.Intn(5); k > 0; k-- {
		switch c.Rand.Intn(7) {
		case 0, 1:
			b = entryRecord(c, b, 1, fd.MapKey(), false)
		case 2:
			b = entryRecord(c, b, 1, fd.MapKey(), true)
		case 3, 4:
			b = entryRecord(c, b, 2, fd.MapValue(), false)
		case 5:
			b = entryRecord(c, b, 2, fd.MapValue(), true)
		default:
			b = protowire.AppendVarint(protowire.AppendTag(b, protowire.Number(3+c.Rand.Intn(3)), 0), 7)
		}
	}
	return b
}
