package main

import (
	"fmt"
	"reflect"

	vh "google.golang.org/protobuf/internal/zz_verif_vh"
	"google.golang.org/protobuf/proto"
	"google.golang.org/protobuf/reflect/protoreflect"
)

// Open-struct API only: a message-valued map may hold a nil value and a repeated message field a nil element
// (written directly into the Go struct; reflection cannot produce them). They stand for empty messages.
// C04: Size == len(Marshal) at top level and nested; C03: the encoding decodes to the message with empty values.
func nilValueCase(c *C, r *Root) {
	m := newFilled(c, r, false, Opts{FieldProb: 4})
	rv := reflect.ValueOf(m.Interface())
	if rv.Kind() != reflect.Ptr || rv.Elem().Kind() != reflect.Struct {
		return
	}
	planted := plantNils(c, rv.Elem(), 0)
	if planted == 0 {
		return
	}
	in := map[string]any{"type": r.Name, "family": "generated", "planted_nil_values": planted}
	defer c.Recover("nil map values / list elements", in, "")
	for _, det := range []bool{false, true} {
		n := proto.Size(m.Interface())
		out, err := proto.MarshalOptions{AllowPartial: true, Deterministic: det}.Marshal(m.Interface())
		in["bytes"] = vh.Hex(out)
		if !c.Check(err == nil, fmt.Sprintf("Marshal fails on a message holding nil map values / list elements: %v", err), in, "") {
			return
		}
		c.Check(n == len(out), fmt.Sprintf("Size=%d, len(Marshal)=%d (deterministic=%v) with nil map values / list elements", n, len(out), det), in, "")
		c.Check(proto.Size(m.Interface()) == len(out), "Size after Marshal differs from the length written", in, "")
		back := m.New().Interface()
		c.Check(unm(false).Unmarshal(out, back) == nil && proto.Equal(back, m.Interface()), "message with nil map values / list elements does not round-trip to an equal message", in, "")
	}
	c.Hist("nil-values")
	c.Case(fmt.Sprintf("nilvals/%s/%v", r.Name, in["bytes"]), true)
}

// plantNils walks exported fields of an open-API struct and plants nil message values; returns how many.
func plantNils(c *C, sv reflect.Value, depth int) int {
	n := 0
	pm := reflect.TypeOf((*proto.Message)(nil)).Elem()
	for i := 0; i < sv.NumField(); i++ {
		f := sv.Field(i)
		if !f.CanSet() {
			continue
		}
		switch {
		case f.Kind() == reflect.Map && f.Type().Elem().Kind() == reflect.Ptr && f.Type().Elem().Implements(pm):
			if c.Rand.Intn(2) == 0 {
				if f.IsNil() {
					f.Set(reflect.MakeMap(f.Type()))
				}
				k := reflect.New(f.Type().Key()).Elem() // zero key
				if c.Rand.Intn(2) == 0 && f.Len() > 0 {
					k = f.MapKeys()[0]
				}
				f.SetMapIndex(k, reflect.Zero(f.Type().Elem()))
				n++
			}
		case f.Kind() == reflect.Slice && f.Type().Elem().Kind() == reflect.Ptr && f.Type().Elem().Implements(pm):
			if c.Rand.Intn(3) == 0 {
				f.Set(reflect.Append(f, reflect.Zero(f.Type().Elem())))
				n++
			}
		case f.Kind() == reflect.Ptr && f.Type().Implements(pm) && !f.IsNil() && depth < 2 && f.Elem().Kind() == reflect.Struct:
			n += plantNils(c, f.Elem(), depth+1)
		}
	}
	return n
}

var _ protoreflect.Message
