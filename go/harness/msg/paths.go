package main

import (
	"bufio"
	"bytes"
	"fmt"
	"math"
	"math/rand"
	"os"
	"os/exec"
	"strconv"
	"strings"

	"google.golang.org/protobuf/encoding/protowire"
	vh "google.golang.org/protobuf/internal/zz_verif_vh"
	"google.golang.org/protobuf/proto"
	"google.golang.org/protobuf/reflect/protoreflect"
)

// ---------- C08: fast path (default build) vs reflection path (-tags protoreflect, dynamicpb) ----------

// normUnknown re-encodes every unknown record's tag minimally (the fast path does that; C08 allows it).
func normUnknown(b []byte) []byte {
	var out []byte
	for len(b) > 0 {
		num, typ, tn := protowire.ConsumeTag(b)
		if tn < 0 {
			return append(out, b...)
		}
		vn := protowire.ConsumeFieldValue(num, typ, b[tn:])
		if vn < 0 {
			return append(out, b...)
		}
		out = protowire.AppendTag(out, num, typ)
		out = append(out, b[tn:tn+vn]...)
		b = b[tn+vn:]
	}
	return out
}

func normAll(m protoreflect.Message) {
	if u := m.GetUnknown(); len(u) > 0 {
		m.SetUnknown(normUnknown(u))
	}
	m.Range(func(fd protoreflect.FieldDescriptor, v protoreflect.Value) bool {
		switch {
		case fd.IsMap():
			if fd.MapValue().Message() != nil {
				v.Map().Range(func(_ protoreflect.MapKey, mv protoreflect.Value) bool { normAll(mv.Message()); return true })
			}
		case fd.IsList():
			if fd.Message() != nil {
				for i := 0; i < v.List().Len(); i++ {
					normAll(v.List().Get(i).Message())
				}
			}
		case fd.Message() != nil:
			normAll(m.Mutable(fd).Message())
		}
		return true
	})
}

// digests is the deterministic case stream of C08: for a seed it yields one digest line per case.
func digests(seed int64, n int, emit func(key, digest string)) {
	c := &C{Rand: rand.New(rand.NewSource(seed))}
	c.R.Histogram = map[string]int{}
	rs := roots(c)
	for _, r := range rs {
		for i := 0; i < n; i++ {
			// (a) a message value
			m := newFilled(c, r, false, Opts{FieldProb: 3, NegZero: true})
			m2 := newFilled(c, r, false, Opts{FieldProb: 3, NegZero: true})
			emit(fmt.Sprintf("%s/msg/%d", r.Name, i), msgDigest(r, m, m2))
			// (b) a byte string
			b, err := partialDet.Marshal(m.Interface()) // deterministic: both processes must derive the same inputs
			if err != nil {
				continue
			}
			for k := c.Rand.Intn(3); k > 0; k-- {
				b, _ = mutateWire(c, b)
			}
			emit(fmt.Sprintf("%s/bytes/%d %s", r.Name, i, vh.Hex(b)), bytesDigest(r.MT.New(), r, b))
		}
		// (c) extension-map shapes: present-but-empty repeated extensions against absent / non-empty ones
		for i, tr := range extShapeTriples(c, r, r.MT) {
			x, y, z := tr[0], tr[1], tr[2]
			emit(fmt.Sprintf("%s/extshape/%d", r.Name, i), guard(func() string {
				eq := func(a, b protoreflect.Message) bool { return proto.Equal(a.Interface(), b.Interface()) }
				dx, _ := partialDet.Marshal(x.Interface())
				dy, _ := partialDet.Marshal(y.Interface())
				return fmt.Sprintf("eq=%v,%v,%v,%v,%v,%v det=%s/%s size=%d/%d", eq(x, y), eq(y, x), eq(x, z), eq(z, x), eq(y, z), eq(z, y), vh.Hex(dx), vh.Hex(dy), proto.Size(x.Interface()), proto.Size(y.Interface()))
			}))
		}
	}
}

// extShapeTriples: for every repeated extension of the root, (x, y, z) = (entry present but empty, one element,
// no entry), each next to the same other populated extension (so the maps have equal / different sizes).
func extShapeTriples(c *C, r *Root, mt protoreflect.MessageType) [][3]protoreflect.Message {
	var out [][3]protoreflect.Message
	var reps, others []protoreflect.ExtensionType
	for _, xt := range r.Exts {
		xd := xt.TypeDescriptor()
		if xd.ContainingMessage().FullName() != r.Flat.Root.FullName() {
			continue
		}
		if xd.IsList() && xd.Message() == nil {
			reps = append(reps, xt)
		} else if !xd.IsList() && !xd.IsMap() && xd.Message() == nil {
			others = append(others, xt)
		}
	}
	for i, xt := range reps {
		if i >= 6 {
			break
		}
		xd := xt.TypeDescriptor()
		mk := func(shape int) protoreflect.Message {
			m := mt.New()
			if len(others) > 0 && i%2 == 0 {
				od := others[i%len(others)].TypeDescriptor()
				m.Set(od, scalar(c, od, Opts{}))
				if !m.Has(od) {
					m.Set(od, od.Default())
				}
			}
			switch shape {
			case 0:
				m.Mutable(xd) // present, empty
			case 1:
				m.Mutable(xd).List().Append(scalar(c, xd, Opts{}))
			}
			return m
		}
		// the "other" extension must hold the same value in all three: build it once and clone
		base := mk(2)
		x, y := proto.Clone(base.Interface()).ProtoReflect(), proto.Clone(base.Interface()).ProtoReflect()
		x.Mutable(xd)
		y.Mutable(xd).List().Append(scalar(c, xd, Opts{}))
		out = append(out, [3]protoreflect.Message{x, y, base})
	}
	return out
}

func guard(f func() string) (s string) {
	defer func() {
		if e := recover(); e != nil {
			s = fmt.Sprintf("PANIC %v", e)
		}
	}()
	return f()
}

func msgDigest(r *Root, m, m2 protoreflect.Message) string {
	return guard(func() string {
		det, err := partialDet.Marshal(m.Interface())
		cl := proto.Clone(m.Interface())
		cdet, _ := partialDet.Marshal(cl)
		mg := proto.Clone(m.Interface())
		proto.Merge(mg, m2.Interface())
		mdet, _ := partialDet.Marshal(mg)
		return fmt.Sprintf("det=%s/%s size=%d init=%v clone=%s merge=%s eq=%v,%v", vh.Hex(det), errClass(err), proto.Size(m.Interface()),
			proto.CheckInitialized(m.Interface()) == nil, vh.Hex(cdet), vh.Hex(mdet), proto.Equal(m.Interface(), cl), proto.Equal(m.Interface(), m2.Interface()))
	})
}

// quietNaNs sets the quiet bit of every float32 NaN in m (the reflection path cannot carry a float32
// signaling NaN: protoreflect.ValueOfFloat32 widens to float64, which quiets it — DESIGN finding 12).
func quietNaNs(m protoreflect.Message) {
	q := func(fd protoreflect.FieldDescriptor, v protoreflect.Value) protoreflect.Value {
		b := math.Float32bits(float32(v.Float()))
		if b&0x7f800000 == 0x7f800000 && b&0x007fffff != 0 {
			b |= 0x00400000
		}
		return protoreflect.ValueOfFloat32(math.Float32frombits(b))
	}
	m.Range(func(fd protoreflect.FieldDescriptor, v protoreflect.Value) bool {
		switch {
		case fd.IsMap():
			mv := fd.MapValue()
			v.Map().Range(func(k protoreflect.MapKey, x protoreflect.Value) bool {
				if mv.Message() != nil {
					quietNaNs(x.Message())
				} else if mv.Kind() == protoreflect.FloatKind {
					v.Map().Set(k, q(mv, x))
				}
				return true
			})
		case fd.IsList():
			for i := 0; i < v.List().Len(); i++ {
				if fd.Message() != nil {
					quietNaNs(v.List().Get(i).Message())
				} else if fd.Kind() == protoreflect.FloatKind {
					v.List().Set(i, q(fd, v.List().Get(i)))
				}
			}
		case fd.Message() != nil:
			quietNaNs(m.Mutable(fd).Message())
		case fd.Kind() == protoreflect.FloatKind:
			m.Set(fd, q(fd, v))
		}
		return true
	})
}

func bytesDigest(m protoreflect.Message, r *Root, b []byte) string {
	return guard(func() string {
		err := unm(false).Unmarshal(b, m.Interface())
		if err != nil {
			return "err"
		}
		normAll(m)
		raw, _ := partialDet.Marshal(m.Interface())
		quietNaNs(m)
		det, _ := partialDet.Marshal(m.Interface())
		if !bytes.Equal(raw, det) {
			// digest of the NaN-quieted content, flagged: the raw bytes are compared separately
			return fmt.Sprintf("ok SNAN det=%s size=%d init=%v", vh.Hex(det), proto.Size(m.Interface()), proto.CheckInitialized(m.Interface()) == nil)
		}
		return fmt.Sprintf("ok det=%s size=%d init=%v", vh.Hex(det), proto.Size(m.Interface()), proto.CheckInitialized(m.Interface()) == nil)
	})
}

func childDigest() {
	seed, _ := strconv.ParseInt(os.Getenv("VERIF_CHILD_SEED"), 10, 64)
	n, _ := strconv.Atoi(os.Getenv("VERIF_CHILD_N"))
	w := bufio.NewWriterSize(os.Stdout, 1<<20)
	defer w.Flush()
	digests(seed, n, func(key, d string) { fmt.Fprintf(w, "%s\t%s\n", key, d) })
}

func runPaths(c *C) {
	c.R.Rule = "the same seeded stream of message values (Marshal deterministic bytes, Size, CheckInitialized, Clone, Merge, Equal) and byte strings (valid encodings with 0-2 wire mutations: Unmarshal verdict, decoded content as deterministic bytes with unknown tags normalised, Size, init verdict, strict Unmarshal verdict) is digested (1) by this process (table-driven fast path), (2) by a second process built with -tags protoreflect (reflection path), (3) for byte strings also by dynamicpb in-process; all digests must coincide. Non-trivial = non-empty encoding; distinct by case key."
	peer := os.Getenv("VERIF_PEER_BIN")
	if peer == "" {
		c.Check(false, "no peer binary (-tags protoreflect build) supplied: the two-build comparison cannot run", nil, "")
		return
	}
	n := c.N(25, 800)
	mine := map[string]string{}
	var order []string
	digests(c.Seed, n, func(key, d string) { mine[key] = d; order = append(order, key) })
	cmd := exec.Command(peer)
	cmd.Env = append(os.Environ(), "VERIF_CHILD=digest", fmt.Sprint("VERIF_CHILD_SEED=", c.Seed), fmt.Sprint("VERIF_CHILD_N=", n))
	var stderr bytes.Buffer
	cmd.Stderr = &stderr
	out, err := cmd.Output()
	if !c.Check(err == nil, fmt.Sprintf("protoreflect-build peer failed: %v %s", err, stderr.String()), nil, "") {
		return
	}
	theirs := map[string]string{}
	sc := bufio.NewScanner(bytes.NewReader(out))
	sc.Buffer(make([]byte, 1<<20), 1<<28)
	for sc.Scan() {
		kv := strings.SplitN(sc.Text(), "\t", 2)
		if len(kv) == 2 {
			theirs[kv[0]] = kv[1]
		}
	}
	c.Check(len(theirs) == len(mine), fmt.Sprintf("peer produced %d digests, this process %d", len(theirs), len(mine)), nil, "")
	rs := roots(c)
	byName := map[string]*Root{}
	for _, r := range rs {
		byName[r.Name] = r
	}
	for _, key := range order {
		a, b := mine[key], theirs[key]
		in := map[string]any{"case": key}
		c.Check(a == b, "fast path (default build) and reflection path (-tags protoreflect) disagree", in, snanSig(a, b))
		a = stripSNaN(a)
		if !c.Failed() && a != b {
			c.R.Notes = append(c.R.Notes, "default: "+trunc(a)+" | protoreflect: "+trunc(b))
		}
		if i := strings.Index(key, "/bytes/"); i > 0 {
			r := byName[key[:i]]
			hexb := key[strings.LastIndex(key, " ")+1:]
			d := bytesDigest(r.DT.New(), r, vh.UnHex(hexb))
			c.Check(stripSNaN(d) == a, "generated type and dynamicpb disagree on a byte string", map[string]any{"case": key, "generated": trunc(a), "dynamicpb": trunc(d)}, "")
			if strings.Contains(mine[key], "SNAN") && !strings.Contains(d, "SNAN") {
				// the generated message preserved a float32 signaling NaN that dynamicpb quieted
				c.Check(false, "float32 signaling NaN: generated code keeps the payload bit, the reflection path (dynamicpb) quiets it", map[string]any{"case": key}, "float32-snan-quieted-by-reflection")
			}
			c.Hist("bytes:" + strings.SplitN(a, " ", 2)[0])
		} else {
			c.Hist("msg")
		}
		c.Case(key, len(a) > 20)
	}
	if len(order) > 0 {
		c.Sample(map[string]any{"case": order[0], "digest": trunc(mine[order[0]])})
	}
}

func trunc(s string) string {
	if len(s) > 300 {
		return s[:300] + "…"
	}
	return s
}

// snanSig: the known float32 signaling-NaN quieting of the reflection path (DESIGN finding 12) is excluded by
// construction (the generator quiets NaNs); kept for completeness.
func snanSig(a, b string) string {
	if a != b && stripSNaN(a) == stripSNaN(b) {
		return "float32-snan-quieted-by-reflection"
	}
	return ""
}

// stripSNaN removes the marker that says "the decoded content held a float32 signaling NaN".
func stripSNaN(s string) string { return strings.Replace(s, "ok SNAN ", "ok ", 1) }
