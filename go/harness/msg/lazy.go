package main

import (
	"sort"
	"bytes"
	"fmt"
	"strings"

	"google.golang.org/protobuf/encoding/protojson"
	"google.golang.org/protobuf/encoding/prototext"
	"google.golang.org/protobuf/encoding/protowire"
	vh "google.golang.org/protobuf/internal/zz_verif_vh"
	"google.golang.org/protobuf/proto"
	"google.golang.org/protobuf/reflect/protodesc"
	"google.golang.org/protobuf/reflect/protoreflect"
	"google.golang.org/protobuf/reflect/protoregistry"
	"google.golang.org/protobuf/types/descriptorpb"
	"google.golang.org/protobuf/types/dynamicpb"
)

// ---------- C17: lazy decoding is observationally equivalent to eager decoding ----------

func lazyRoots(rs []*Root) []*Root {
	var out []*Root
	for _, r := range rs {
		if strings.Contains(r.Name, "lazy") || strings.HasPrefix(r.Name, "opaque.") || strings.HasPrefix(r.Name, "hybrid.") || strings.Contains(r.Name, "Lazy") {
			out = append(out, r)
		}
	}
	return out
}

// lazyFieldNumbers returns message-typed field numbers of md (lazy candidates).
func msgFields(md protoreflect.MessageDescriptor) []protoreflect.FieldDescriptor {
	var out []protoreflect.FieldDescriptor
	for i := 0; i < md.Fields().Len(); i++ {
		if fd := md.Fields().Get(i); fd.Message() != nil && !fd.IsMap() {
			out = append(out, fd)
		}
	}
	return out
}

// lazyInput builds an encoding that stresses the lazy path: message fields repeated, out of order,
// with wrong wire types, non-minimal length prefixes, interleaved with other fields.
func lazyInput(c *C, r *Root) []byte {
	m := newFilled(c, r, false, Opts{FieldProb: 2, NegZero: true})
	b, err := partial.Marshal(m.Interface())
	if err != nil {
		return nil
	}
	mfs := msgFields(r.Flat.Root)
	for k := c.Rand.Intn(4); k > 0 && len(mfs) > 0; k-- {
		fd := mfs[c.Rand.Intn(len(mfs))]
		var rec []byte
		switch c.Rand.Intn(5) {
		case 0: // wrong wire type occurrence of a message field
			rec = protowire.AppendVarint(protowire.AppendTag(nil, fd.Number(), protowire.VarintType), uint64(c.Rand.Intn(9)))
		case 1: // another (valid) occurrence: must merge
			sub := dynamicpb.NewMessage(fd.Message())
			fill(c, sub, 2, Opts{MaxDepth: 3, FieldProb: 3}, nil)
			sb, _ := partial.Marshal(sub)
			rec = protowire.AppendBytes(protowire.AppendTag(nil, fd.Number(), protowire.BytesType), sb)
		case 2: // non-minimal length prefix
			sub := dynamicpb.NewMessage(fd.Message())
			fill(c, sub, 2, Opts{MaxDepth: 3, FieldProb: 3}, nil)
			sb, _ := partial.Marshal(sub)
			if len(sb) < 128 {
				rec = append(protowire.AppendTag(nil, fd.Number(), protowire.BytesType), byte(len(sb))|0x80, 0x00)
				rec = append(rec, sb...)
			}
		case 3: // invalid content inside the (lazy) submessage
			rec = protowire.AppendBytes(protowire.AppendTag(nil, fd.Number(), protowire.BytesType), []byte{0x08, 0x80, 0x80})
		case 4: // fixed32 occurrence (wrong wire type)
			rec = protowire.AppendFixed32(protowire.AppendTag(nil, fd.Number(), protowire.Fixed32Type), 7)
		}
		if fd.Kind() == protoreflect.GroupKind {
			continue
		}
		if c.Rand.Intn(2) == 0 {
			b = append(rec, b...)
		} else {
			b = append(b, rec...)
		}
	}
	// many small occurrences of the message fields, in rounds of descending / scrambled field order: the lazy
	// index then holds several dozen entries that must be re-sorted without permuting the occurrences of one
	// field (merge order is observable: in every occurrence the same scalar gets a different value)
	if c.Rand.Intn(4) == 0 && len(mfs) > 0 {
		rounds := 3 + c.Rand.Intn(30)
		for k := 0; k < rounds; k++ {
			order := c.Rand.Perm(len(mfs))
			if c.Rand.Intn(2) == 0 { // descending field numbers
				sort.Slice(order, func(i, j int) bool { return mfs[order[i]].Number() > mfs[order[j]].Number() })
			}
			if len(order) > 4 {
				order = order[:2+c.Rand.Intn(3)]
			}
			for _, i := range order {
				fd := mfs[i]
				if fd.Kind() == protoreflect.GroupKind || fd.IsMap() {
					continue
				}
				b = protowire.AppendBytes(protowire.AppendTag(b, fd.Number(), protowire.BytesType), roundPayload(fd.Message(), k))
			}
		}
		c.Hist("lazy-many-occurrences")
	}
	if c.Rand.Intn(3) == 0 {
		b = shuffleRecords(c, b)
	}
	if c.Rand.Intn(6) == 0 {
		b, _ = mutateWire(c, b)
	}
	return b
}

// roundPayload: an encoding of md in which the first varint/fixed scalar field (if any) carries the value k+1,
// so that the order in which occurrences are merged is visible in the result; empty when md has no such field.
func roundPayload(md protoreflect.MessageDescriptor, k int) []byte {
	fds := md.Fields()
	for i := 0; i < fds.Len(); i++ {
		fd := fds.Get(i)
		if fd.IsList() || fd.IsMap() {
			continue
		}
		switch fd.Kind() {
		case protoreflect.Int32Kind, protoreflect.Int64Kind, protoreflect.Uint32Kind, protoreflect.Uint64Kind:
			return protowire.AppendVarint(protowire.AppendTag(nil, fd.Number(), protowire.VarintType), uint64(k+1))
		case protoreflect.Fixed32Kind, protoreflect.Sfixed32Kind, protoreflect.FloatKind:
			return protowire.AppendFixed32(protowire.AppendTag(nil, fd.Number(), protowire.Fixed32Type), uint32(k+1))
		case protoreflect.Fixed64Kind, protoreflect.Sfixed64Kind, protoreflect.DoubleKind:
			return protowire.AppendFixed64(protowire.AppendTag(nil, fd.Number(), protowire.Fixed64Type), uint64(k+1))
		}
	}
	return nil
}

// shuffleRecords permutes the top-level records of a well-formed encoding (arbitrary field order on the wire:
// descending lazy fields, foreign records in between, …).
func shuffleRecords(c *C, b []byte) []byte {
	var recs [][]byte
	for rest := b; len(rest) > 0; {
		_, _, n := protowire.ConsumeField(rest)
		if n < 0 {
			return b
		}
		recs = append(recs, rest[:n])
		rest = rest[n:]
	}
	if len(recs) > 12 {
		// keep most of a long message in place, permute a window
		i := c.Rand.Intn(len(recs) - 6)
		w := recs[i : i+6]
		c.Rand.Shuffle(len(w), func(a, b int) { w[a], w[b] = w[b], w[a] })
	} else {
		c.Rand.Shuffle(len(recs), func(a, b int) { recs[a], recs[b] = recs[b], recs[a] })
	}
	var out []byte
	for _, r := range recs {
		out = append(out, r...)
	}
	return out
}

func observe(r *Root, m protoreflect.Message) map[string]string {
	o := map[string]string{}
	det, err := partialDet.Marshal(m.Interface())
	o["det"] = vh.Hex(det) + errClass(err)
	o["size"] = fmt.Sprint(proto.Size(m.Interface()))
	o["init"] = fmt.Sprint(proto.CheckInitialized(m.Interface()) == nil)
	j, err := protojson.MarshalOptions{AllowPartial: true}.Marshal(m.Interface())
	if err == nil {
		var buf bytes.Buffer
		compactJSON(&buf, j)
		o["json"] = buf.String()
	} else {
		o["json"] = "err"
	}
	t, err := prototext.MarshalOptions{AllowPartial: true, Multiline: false}.Marshal(m.Interface())
	if err == nil {
		o["text"] = strings.Join(strings.Fields(string(t)), " ")
	} else {
		o["text"] = "err"
	}
	o["snap"] = r.Flat.Snap(m)
	return o
}

func runLazy(c *C) {
	c.R.Rule = "encodings for lazy-capable corpus types (opaque/hybrid flavors, lazy_tree, TestRequiredLazy, …): valid, with message fields repeated / out of order / in non-minimal form / with wrong wire types / with invalid content inside the lazy submessage, plus generic wire mutations; decoded lazily and eagerly; then a random access sequence (Has/Get/Range/Mutable on some fields) and observation of Equal, deterministic and default Marshal bytes (after re-decoding), Size, CheckInitialized, JSON, text, reflection snapshot. Non-trivial = input decodes; distinct by input bytes."
	rs := lazyRoots(roots(c))
	per := c.N(150, 8000)
	for _, r := range rs {
		r.Flat.Send(c)
		for i := 0; i < per && !c.Failed(); i++ {
			b := lazyInput(c, r)
			if b == nil {
				continue
			}
			lazyCase(c, r, b)
		}
		// nesting deeper than the default limit under a larger caller-supplied RecursionLimit
		for ci, cyc := range findCycles(r) {
			if c.Failed() || ci >= 2 {
				break
			}
			k := 10400/len(cyc.path) + 1
			b := nestBytes(cyc, k)
			deepLazyCase(c, r, b, 50000, cyc.desc)
		}
	}
}

func msgDepth(m protoreflect.Message) int {
	d := 0
	m.Range(func(fd protoreflect.FieldDescriptor, v protoreflect.Value) bool {
		switch {
		case fd.IsMap():
			if fd.MapValue().Message() != nil {
				v.Map().Range(func(_ protoreflect.MapKey, mv protoreflect.Value) bool {
					if x := msgDepth(mv.Message()); x > d {
						d = x
					}
					return true
				})
			}
		case fd.IsList():
			if fd.Message() != nil {
				for i := 0; i < v.List().Len(); i++ {
					if x := msgDepth(v.List().Get(i).Message()); x > d {
						d = x
					}
				}
			}
		case fd.Message() != nil:
			if x := msgDepth(v.Message()); x > d {
				d = x
			}
		}
		return true
	})
	return d + 1
}

func deepLazyCase(c *C, r *Root, b []byte, limit int, via string) {
	in := map[string]any{"type": r.Name, "limit": limit, "via": via, "bytes_len": len(b), "nesting": "> 10400"}
	defer c.Recover("deep lazy", in, "")
	lz, eg := r.MT.New(), r.MT.New()
	errL := proto.UnmarshalOptions{AllowPartial: true, RecursionLimit: limit}.Unmarshal(b, lz.Interface())
	errE := proto.UnmarshalOptions{AllowPartial: true, RecursionLimit: limit, NoLazyDecoding: true}.Unmarshal(b, eg.Interface())
	if !c.Check((errL == nil) == (errE == nil), fmt.Sprintf("deep nesting: lazy err=%v eager err=%v", errL, errE), in, "") || errL != nil {
		return
	}
	dl, de := msgDepth(lz), msgDepth(eg)
	c.Check(dl == de, fmt.Sprintf("content silently lost: lazily decoded tree has depth %d, eagerly decoded %d", dl, de), in, "lazy-depth-default-limit")
	c.Case(r.Name+via+"deep", true)
	c.Hist("deep-nesting")
}

func lazyCase(c *C, r *Root, b []byte) {
	in := map[string]any{"type": r.Name, "bytes": vh.Hex(b)}
	defer c.Recover("lazy vs eager", in, "")
	lz, eg := r.MT.New(), r.MT.New()
	errL := proto.UnmarshalOptions{AllowPartial: true}.Unmarshal(b, lz.Interface())
	errE := proto.UnmarshalOptions{AllowPartial: true, NoLazyDecoding: true}.Unmarshal(b, eg.Interface())
	c.Check((errL == nil) == (errE == nil), fmt.Sprintf("lazy Unmarshal err=%v, eager err=%v", errL, errE), in, "")
	if errL != nil || errE != nil {
		c.Case(r.Name+string(b), true)
		c.Hist("result:err")
		return
	}
	// default (non-deterministic) marshal straight after decoding: the lazy message may re-emit raw bytes
	dl, e1 := partial.Marshal(lz.Interface())
	de, e2 := partial.Marshal(eg.Interface())
	if c.Check(e1 == nil && e2 == nil, "Marshal after decode fails", in, "") {
		// compare by content: decode both again eagerly
		x, y := r.MT.New(), r.MT.New()
		ex := unm(false).Unmarshal(dl, x.Interface())
		ey := unm(false).Unmarshal(de, y.Interface())
		c.Check(ex == nil && ey == nil && proto.Equal(x.Interface(), y.Interface()) && r.Flat.Snap(x) == r.Flat.Snap(y),
			"default Marshal of the lazily decoded message encodes different content than that of the eagerly decoded one", in, lazyDupSig(r, b))
		c.Check(proto.Size(lz.Interface()) >= len(dl) && proto.Size(eg.Interface()) == len(de), "Size/Marshal length relation broken", in, "")
	}
	// random access sequence applied to both
	fds := allFields(r, r.Flat.Root)
	for k := c.Rand.Intn(6); k > 0 && len(fds) > 0; k-- {
		fd := fds[c.Rand.Intn(len(fds))]
		switch c.Rand.Intn(4) {
		case 0:
			c.Check(lz.Has(fd) == eg.Has(fd), "Has differs between lazy and eager: "+string(fd.Name()), in, "")
		case 1:
			if fd.Message() != nil && !fd.IsList() && !fd.IsMap() && lz.Has(fd) && eg.Has(fd) {
				c.Check(proto.Equal(lz.Get(fd).Message().Interface(), eg.Get(fd).Message().Interface()), "Get(message) differs: "+string(fd.Name()), in, "")
			}
		case 2:
			if fd.Message() != nil && !fd.IsList() && !fd.IsMap() {
				lz.Mutable(fd)
				eg.Mutable(fd)
			}
		case 3:
			lz.Clear(fd)
			eg.Clear(fd)
		}
	}
	// write sequences on a still-deferred message: Merge INTO a freshly lazily decoded message from a source whose
	// submessages are ordinary pointers (eagerly decoded) and from a lazily decoded source; result vs all-eager
	if c.Rand.Intn(3) == 0 {
		srcM := newFilled(c, r, false, Opts{FieldProb: 2})
		if sb, err := partial.Marshal(srcM.Interface()); err == nil {
			in2 := map[string]any{"type": r.Name, "bytes": vh.Hex(b), "merge_src": vh.Hex(sb)}
			want := r.MT.New().Interface()
			if unm(false).Unmarshal(b, want) == nil {
				wsrc := r.MT.New().Interface()
				unm(false).Unmarshal(sb, wsrc)
				proto.Merge(want, wsrc)
				for _, srcLazy := range []bool{false, true} {
					dst, src := r.MT.New().Interface(), r.MT.New().Interface()
					if unm(true).Unmarshal(b, dst) != nil || unm(srcLazy).Unmarshal(sb, src) != nil {
						continue
					}
					proto.Merge(dst, src)
					c.Check(proto.Equal(dst, want), fmt.Sprintf("Merge into a lazily decoded, untouched message (source lazy=%v) differs from the all-eager result", srcLazy), in2, "")
					if out, err := partialDet.Marshal(dst); err == nil {
						wout, _ := partialDet.Marshal(want)
						re1, re2 := r.MT.New().Interface(), r.MT.New().Interface()
						unm(false).Unmarshal(out, re1)
						unm(false).Unmarshal(wout, re2)
						c.Check(proto.Equal(re1, re2), fmt.Sprintf("Marshal after Merge into a lazily decoded message (source lazy=%v) encodes different content than the all-eager run", srcLazy), in2, "")
					}
				}
				c.Hist("merge-into-deferred")
			}
		}
	}
	c.Check(proto.Equal(lz.Interface(), eg.Interface()) && proto.Equal(eg.Interface(), lz.Interface()), "proto.Equal(lazy, eager) is false", in, "")
	ol, oe := observe(r, lz), observe(r, eg)
	for k, v := range oe {
		c.Check(ol[k] == v, "observer '"+k+"' differs between lazily and eagerly decoded message", in, "")
	}
	if c.HasModel() && len(b) < 2500 {
		// the abstract model is the eager semantics
		eg2 := r.MT.New()
		unm(false).Unmarshal(b, eg2.Interface())
		// up to the spelling of unknown-field tags: the table-driven decoder re-encodes them, the model (like the
		// reflection decoder) keeps the record byte for byte
		c.Compare("dec: model vs eager decode", in, "ok "+r.Flat.SnapNorm(eg2, true), normSnapUnknown(c.Ask("dec 0 10000 0 %s", vh.Hex(b))))
	}
	c.Hist("result:ok")
	c.Case(r.Name+string(b), true)
	if len(b) < 40 {
		c.Sample(map[string]any{"type": r.Name, "bytes": vh.Hex(b)})
	}
}

// lazyDupSig classifies DESIGN finding 3: a lazy message field that occurs both with the right and with a
// wrong wire type is emitted twice by the default Marshal of the lazily decoded message.
func lazyDupSig(r *Root, b []byte) string {
	seenRight, seenWrong := map[protowire.Number]bool{}, map[protowire.Number]bool{}
	for len(b) > 0 {
		num, typ, n := protowire.ConsumeField(b)
		if n < 0 {
			return ""
		}
		if fd := r.Flat.Root.Fields().ByNumber(num); fd != nil && fd.Message() != nil && fd.Kind() == protoreflect.MessageKind {
			if typ == protowire.BytesType {
				seenRight[num] = true
			} else {
				seenWrong[num] = true
			}
		}
		b = b[n:]
	}
	for n := range seenRight {
		if seenWrong[n] {
			return "lazy-field-wrong-wiretype-reemitted"
		}
	}
	return ""
}

func compactJSON(buf *bytes.Buffer, j []byte) {
	inStr := false
	for i := 0; i < len(j); i++ {
		ch := j[i]
		if inStr {
			buf.WriteByte(ch)
			if ch == '\\' && i+1 < len(j) {
				i++
				buf.WriteByte(j[i])
			} else if ch == '"' {
				inStr = false
			}
			continue
		}
		switch ch {
		case ' ', '\n', '\t', '\r':
		case '"':
			inStr = true
			buf.WriteByte(ch)
		default:
			buf.WriteByte(ch)
		}
	}
}

// ---------- C09: unknown fields / schema evolution ----------

// subSchema returns a dynamic message type for md with a random subset of fields deleted
// (everywhere in the file), or nil.
func subSchema(c *C, md protoreflect.MessageDescriptor) (protoreflect.MessageType, []string) {
	fdp := protodesc.ToFileDescriptorProto(md.ParentFile())
	var dropped []string
	var prune func(mp *descriptorpb.DescriptorProto, prefix string)
	prune = func(mp *descriptorpb.DescriptorProto, prefix string) {
		if mp.GetOptions().GetMapEntry() {
			return
		}
		var keep []*descriptorpb.FieldDescriptorProto
		oneofUse := map[int32]int{}
		for _, f := range mp.Field {
			drop := c.Rand.Intn(4) == 0 && f.GetLabel() != descriptorpb.FieldDescriptorProto_LABEL_REQUIRED
			if drop && f.OneofIndex != nil {
				drop = false // keep oneof shapes intact (an emptied oneof is invalid)
			}
			if drop {
				dropped = append(dropped, prefix+mp.GetName()+"."+f.GetName())
				continue
			}
			if f.OneofIndex != nil {
				oneofUse[f.GetOneofIndex()]++
			}
			keep = append(keep, f)
		}
		mp.Field = keep
		for _, n := range mp.NestedType {
			prune(n, prefix+mp.GetName()+".")
		}
	}
	for _, mp := range fdp.MessageType {
		prune(mp, "")
	}
	// rename the file so that it does not clash; resolve imports against the global registry
	fdp.Name = proto.String("verif_sub_" + fdp.GetName())
	fd, err := protodesc.NewFile(fdp, protoregistry.GlobalFiles)
	if err != nil {
		return nil, nil
	}
	var find func(mds protoreflect.MessageDescriptors) protoreflect.MessageDescriptor
	find = func(mds protoreflect.MessageDescriptors) protoreflect.MessageDescriptor {
		for i := 0; i < mds.Len(); i++ {
			if mds.Get(i).FullName() == md.FullName() {
				return mds.Get(i)
			}
			if x := find(mds.Get(i).Messages()); x != nil {
				return x
			}
		}
		return nil
	}
	sub := find(fd.Messages())
	if sub == nil {
		return nil, nil
	}
	return dynamicpb.NewMessageType(sub), dropped
}

func hasUnknownAnywhere(m protoreflect.Message) bool {
	if len(m.GetUnknown()) > 0 {
		return true
	}
	found := false
	m.Range(func(fd protoreflect.FieldDescriptor, v protoreflect.Value) bool {
		switch {
		case fd.IsMap():
			if fd.MapValue().Message() != nil {
				v.Map().Range(func(_ protoreflect.MapKey, mv protoreflect.Value) bool {
					found = hasUnknownAnywhere(mv.Message())
					return !found
				})
			}
		case fd.IsList():
			if fd.Message() != nil {
				for i := 0; i < v.List().Len() && !found; i++ {
					found = hasUnknownAnywhere(v.List().Get(i).Message())
				}
			}
		case fd.Message() != nil:
			found = hasUnknownAnywhere(v.Message())
		}
		return !found
	})
	return found
}

func runUnknown(c *C) {
	c.R.Rule = "for about 40 corpus root types: random messages encoded with the full schema, decoded with a random sub-schema (fields deleted at every nesting level; dynamicpb), re-encoded and decoded with the full schema (schema evolution); unknown payloads of all wire types incl. groups and non-minimal tags; DiscardUnknown at every level; generated and dynamicpb; the model decodes with the flattened sub-schema. Non-trivial = at least one field was unknown to the sub-schema; distinct by bytes + dropped set."
	rs := roots(c)
	per := c.N(25, 1200)
	for _, r := range rs {
		for k := 0; k < 3 && !c.Failed(); k++ {
			subT, dropped := subSchema(c, r.Flat.Root)
			if subT == nil {
				c.Hist("subschema:invalid")
				continue
			}
			subFlat := Flatten(subT.Descriptor(), protoregistry.GlobalTypes)
			for i := 0; i < per/3+1 && !c.Failed(); i++ {
				m := newFilled(c, r, c.Rand.Intn(2) == 0, Opts{FieldProb: 2, NegZero: true})
				unknownCase(c, r, m, subT, subFlat, dropped)
				if i%3 == 0 {
					m2 := newFilled(c, r, false, Opts{FieldProb: 2, NegZero: true})
					unknownConcatCase(c, r, m, m2, subT, subFlat, dropped)
				}
			}
		}
	}
}

func unknownCase(c *C, r *Root, m protoreflect.Message, subT protoreflect.MessageType, subFlat *Flat, dropped []string) {
	in := map[string]any{"type": r.Name, "dropped": dropped}
	defer c.Recover("unknown fields", in, "")
	b, err := partialDet.Marshal(m.Interface())
	if err != nil {
		return
	}
	in["bytes"] = vh.Hex(b)
	// decode with the sub-schema
	s := subT.New()
	if err := unm(false).Unmarshal(b, s.Interface()); err != nil {
		c.Check(false, "decoding with a sub-schema fails: "+err.Error(), in, "")
		return
	}
	if c.HasModel() && len(b) < 2500 {
		subFlat.Send(c)
		c.Compare("dec: model vs dynamicpb with the sub-schema (unknown fields kept in input order, bytes unchanged)", in, "ok "+subFlat.Snap(s), c.Ask("dec 0 10000 0 %s", vh.Hex(b)))
		c.Compare("dec(discard): model vs DiscardUnknown", in, "ok "+discardSnap(subT, subFlat, b), c.Ask("dec 0 10000 1 %s", vh.Hex(b)))
	}
	// the same records with non-minimal (overlong but legal) tag varints: same content, and what is kept as
	// unknown must still be parseable and re-encode to the same content
	if nb := denormTags(c, b); !bytes.Equal(nb, b) {
		in2 := map[string]any{"type": r.Name, "dropped": dropped, "bytes": vh.Hex(nb), "canonical": vh.Hex(b)}
		for _, mt := range []protoreflect.MessageType{r.MT, r.DT, subT} {
			for _, lazy := range []bool{false, true} {
				x, y := mt.New(), mt.New()
				e1, e2 := unm(lazy).Unmarshal(nb, x.Interface()), unm(lazy).Unmarshal(b, y.Interface())
				if !c.Check((e1 == nil) == (e2 == nil), fmt.Sprintf("non-minimal tags: err=%v, canonical input: err=%v", e1, e2), in2, "") || e1 != nil {
					continue
				}
				// the reflection decoder keeps an unknown record byte for byte (tag spelling included), the
				// table-driven one re-encodes the tag: compare up to the spelling of top-level unknown tags
				normTopUnknownTags(x)
				c.Check(proto.Equal(x.Interface(), y.Interface()), "decoding records with non-minimal tags gives a different message than the canonical encoding", in2, "")
				rb, err := partial.Marshal(x.Interface())
				if c.Check(err == nil, fmt.Sprintf("Marshal after decoding non-minimal tags: %v", err), in2, "") {
					z := mt.New()
					zerr := unm(false).Unmarshal(rb, z.Interface())
					normTopUnknownTags(z)
					c.Check(zerr == nil && proto.Equal(z.Interface(), y.Interface()), "unknown fields decoded from non-minimal tags do not survive re-encoding", in2, "")
					c.Check(proto.Size(x.Interface()) == len(rb), "Size != len(Marshal) after decoding non-minimal tags", in2, "")
				}
			}
		}
		c.Hist("denormalized-tags")
	}
	// re-encode and decode with the full schema
	b2, err := partial.Marshal(s.Interface())
	c.Check(err == nil, "re-encoding the sub-schema message fails", in, "")
	for _, mt := range []protoreflect.MessageType{r.MT, r.DT} {
		back := mt.New()
		err = unm(false).Unmarshal(b2, back.Interface())
		c.Check(err == nil && proto.Equal(back.Interface(), m.Interface()), "schema evolution: decode(full, encode(sub, decode(sub, encode(full, m)))) != m", in, "")
	}
	// DiscardUnknown leaves no unknown field anywhere
	for _, mt := range []protoreflect.MessageType{r.MT, subT} {
		d := mt.New()
		if err := (proto.UnmarshalOptions{AllowPartial: true, DiscardUnknown: true}).Unmarshal(b, d.Interface()); err == nil {
			// first through re-encoding, before anything touches (and thereby expands) a lazily kept submessage
			if rb, err := partial.Marshal(d.Interface()); err == nil {
				re := mt.New()
				if unm(false).Unmarshal(rb, re.Interface()) == nil {
					c.Check(!hasUnknownAnywhere(re), "Marshal after Unmarshal(DiscardUnknown) re-emits unknown fields", in, "")
				}
				c.Check(proto.Size(d.Interface()) == len(rb), "Size != len(Marshal) after Unmarshal(DiscardUnknown)", in, "")
			}
			c.Check(!hasUnknownAnywhere(d), "DiscardUnknown retained unknown fields", in, "")
		}
	}
	c.Case(r.Name+string(b)+strings.Join(dropped, ","), hasUnknownAnywhere(s))
	if hasUnknownAnywhere(s) {
		c.Hist("with-unknown")
	}
}

// normTopUnknownTags rewrites the unknown fields of m (top level only) with minimal tag varints; it leaves them
// untouched when they do not parse.
func normTopUnknownTags(m protoreflect.Message) {
	u := m.GetUnknown()
	var out []byte
	for rest := []byte(u); len(rest) > 0; {
		num, typ, tn := protowire.ConsumeTag(rest)
		if tn < 0 {
			return
		}
		vn := protowire.ConsumeFieldValue(num, typ, rest[tn:])
		if vn < 0 {
			return
		}
		out = protowire.AppendTag(out, num, typ)
		out = append(out, rest[tn:tn+vn]...)
		rest = rest[tn+vn:]
	}
	m.SetUnknown(out)
}

// denormTags re-encodes the tag varint of some top-level records with redundant continuation bytes.
func denormTags(c *C, b []byte) []byte {
	var out []byte
	for rest := b; len(rest) > 0; {
		num, typ, tn := protowire.ConsumeTag(rest)
		if tn < 0 {
			return b
		}
		vn := protowire.ConsumeFieldValue(num, typ, rest[tn:])
		if vn < 0 {
			return b
		}
		tag := append([]byte{}, rest[:tn]...)
		if c.Rand.Intn(2) == 0 && tn < 8 {
			pad := 1 + c.Rand.Intn(2)
			tag[len(tag)-1] |= 0x80
			for i := 0; i < pad-1; i++ {
				tag = append(tag, 0x80)
			}
			tag = append(tag, 0x00)
		}
		out = append(out, tag...)
		out = append(out, rest[tn:tn+vn]...)
		rest = rest[tn+vn:]
	}
	return out
}

// unknownConcatCase: the encodings of two messages concatenated — singular message fields then occur in two
// records each, both carrying fields unknown to the sub-schema: every decoding pass into the same nested message
// must ADD its unknown fields to those already kept.
func unknownConcatCase(c *C, r *Root, m, m2 protoreflect.Message, subT protoreflect.MessageType, subFlat *Flat, dropped []string) {
	in := map[string]any{"type": r.Name, "dropped": dropped, "shape": "two encodings concatenated"}
	defer c.Recover("unknown fields (concatenated encodings)", in, "")
	b1, e1 := partialDet.Marshal(m.Interface())
	b2, e2 := partialDet.Marshal(m2.Interface())
	if e1 != nil || e2 != nil {
		return
	}
	b := append(append([]byte{}, b1...), b2...)
	in["bytes"] = vh.Hex(b)
	merged := m.New().Interface()
	if unm(false).Unmarshal(b, merged) != nil {
		return
	}
	s := subT.New()
	if err := unm(false).Unmarshal(b, s.Interface()); err != nil {
		c.Check(false, "decoding concatenated encodings with a sub-schema fails: "+err.Error(), in, "")
		return
	}
	if c.HasModel() && len(b) < 2500 {
		subFlat.Send(c)
		c.Compare("dec: model vs dynamicpb with the sub-schema (concatenated encodings)", in, "ok "+subFlat.Snap(s), c.Ask("dec 0 10000 0 %s", vh.Hex(b)))
	}
	rb, err := partial.Marshal(s.Interface())
	if !c.Check(err == nil, "re-encoding the sub-schema message fails", in, "") {
		return
	}
	for _, mt := range []protoreflect.MessageType{r.MT, r.DT} {
		back := mt.New()
		err := unm(false).Unmarshal(rb, back.Interface())
		c.Check(err == nil && proto.Equal(back.Interface(), merged), "schema evolution over concatenated encodings: decode(full, encode(sub, decode(sub, x||y))) != decode(full, x||y)", in, "")
	}
	// Merge:true into a message that already keeps unknown fields
	s2 := subT.New()
	if unm(false).Unmarshal(b1, s2.Interface()) == nil {
		if err := (proto.UnmarshalOptions{AllowPartial: true, Merge: true}).Unmarshal(b2, s2.Interface()); err == nil {
			c.Check(proto.Equal(s2.Interface(), s.Interface()), "Unmarshal(x) then Unmarshal{Merge}(y) with a sub-schema differs from Unmarshal(x||y)", in, "")
		}
	}
	c.Hist("concat")
	c.Case(r.Name+string(b)+"concat", hasUnknownAnywhere(s))
}

func discardSnap(subT protoreflect.MessageType, subFlat *Flat, b []byte) string {
	d := subT.New()
	(proto.UnmarshalOptions{AllowPartial: true, DiscardUnknown: true}).Unmarshal(b, d.Interface())
	return subFlat.Snap(d)
}
