package main

import (
	"math"
	"strings"

	"google.golang.org/protobuf/encoding/protowire"
	vh "google.golang.org/protobuf/internal/zz_verif_vh"
	"google.golang.org/protobuf/reflect/protoreflect"
)

var ints = []int64{0, 1, -1, 127, 128, -128, 255, 16383, 16384, math.MaxInt32, math.MinInt32, math.MaxInt64, math.MinInt64, 1 << 35, -(1 << 35), math.MaxUint32}
var f32s = []uint32{0, 0x80000000, 0x3f800000, 0x7f800000, 0xff800000, 0x7fc00000, 0x00000001, 0x7f7fffff, 0x15ae43fc, 0x33d6bf95, 0xffc00000}
var f64s = []uint64{0, 0x8000000000000000, 0x3ff0000000000000, 0x7ff0000000000000, 0xfff0000000000000, 0x7ff8000000000000, 1, 0x7fefffffffffffff, 0x3fb999999999999a}
var strsv = []string{"", "a", "hello", "héllo", "日本", "\x00", "\"quote\\", "line\nbreak", " ", "tab\t", "😀", strings.Repeat("x", 130)}

// Opts steers the random message generator.
type Opts struct {
	MaxDepth   int
	BadUTF8    bool // may put invalid UTF-8 into string fields
	SNaN       bool // may generate signaling NaNs for float32
	FieldProb  int  // 1/FieldProb of populating each field
	NegZero    bool
}

func scalar(c *vh.Ctx, fd protoreflect.FieldDescriptor, o Opts) protoreflect.Value {
	r := c.Rand
	i := ints[r.Intn(len(ints))]
	if r.Intn(3) == 0 {
		i = r.Int63() >> uint(r.Intn(63))
		if r.Intn(2) == 0 {
			i = -i
		}
	}
	switch fd.Kind() {
	case protoreflect.BoolKind:
		return protoreflect.ValueOfBool(r.Intn(2) == 0)
	case protoreflect.EnumKind:
		vs := fd.Enum().Values()
		if r.Intn(5) == 0 {
			return protoreflect.ValueOfEnum(protoreflect.EnumNumber(int32(i))) // unlisted number
		}
		return protoreflect.ValueOfEnum(vs.Get(r.Intn(vs.Len())).Number())
	case protoreflect.Int32Kind, protoreflect.Sint32Kind, protoreflect.Sfixed32Kind:
		return protoreflect.ValueOfInt32(int32(i))
	case protoreflect.Int64Kind, protoreflect.Sint64Kind, protoreflect.Sfixed64Kind:
		return protoreflect.ValueOfInt64(i)
	case protoreflect.Uint32Kind, protoreflect.Fixed32Kind:
		return protoreflect.ValueOfUint32(uint32(i))
	case protoreflect.Uint64Kind, protoreflect.Fixed64Kind:
		return protoreflect.ValueOfUint64(uint64(i))
	case protoreflect.FloatKind:
		b := f32s[r.Intn(len(f32s))]
		if r.Intn(2) == 0 {
			b = r.Uint32()
		}
		if !o.NegZero && b == 0x80000000 {
			b = 0
		}
		// signaling NaNs are quieted by the float64 round trip of protoreflect.Value (finding 12)
		if !o.SNaN && b&0x7f800000 == 0x7f800000 && b&0x007fffff != 0 {
			b |= 0x00400000
		}
		return protoreflect.ValueOfFloat32(math.Float32frombits(b))
	case protoreflect.DoubleKind:
		b := f64s[r.Intn(len(f64s))]
		if r.Intn(2) == 0 {
			b = r.Uint64()
		}
		if !o.NegZero && b == 0x8000000000000000 {
			b = 0
		}
		return protoreflect.ValueOfFloat64(math.Float64frombits(b))
	case protoreflect.StringKind:
		s := strsv[r.Intn(len(strsv))]
		if r.Intn(8) == 0 {
			s += []string{"\ufffd", "\u0000", "\U0010ffff", "\ud7ff\ue000", "\u2028", "\u007f\u0080"}[r.Intn(6)] // valid, but next to what the validators single out
		}
		if o.BadUTF8 && r.Intn(4) == 0 {
			s += []string{"\xff", "\xc0\x80", "\xed\xa0\x80", "\xe2\x82", "\x80", "\xf4\x90\x80\x80"}[r.Intn(6)]
		}
		return protoreflect.ValueOfString(s)
	case protoreflect.BytesKind:
		s := strsv[r.Intn(len(strsv))]
		if r.Intn(2) == 0 {
			s += "\xff\xfe"
		}
		return protoreflect.ValueOfBytes([]byte(s))
	}
	panic("scalar: kind")
}

var wktSkip = map[protoreflect.FullName]bool{}

// fill populates m randomly through the reflection API.
func fill(c *vh.Ctx, m protoreflect.Message, depth int, o Opts, exts []protoreflect.ExtensionType) {
	r := c.Rand
	fds := m.Descriptor().Fields()
	var all []protoreflect.FieldDescriptor
	for i := 0; i < fds.Len(); i++ {
		all = append(all, fds.Get(i))
	}
	for _, xt := range exts {
		if xt.TypeDescriptor().ContainingMessage().FullName() == m.Descriptor().FullName() {
			all = append(all, xt.TypeDescriptor())
		}
	}
	// random field order: the content must not depend on it
	r.Shuffle(len(all), func(i, j int) { all[i], all[j] = all[j], all[i] })
	for _, fd := range all {
		p := o.FieldProb
		if p == 0 {
			p = 4
		}
		if fd.Cardinality() == protoreflect.Required {
			p = 1
			if r.Intn(8) == 0 {
				continue
			}
		}
		if r.Intn(p) != 0 {
			continue
		}
		switch {
		case fd.IsMap():
			mp := m.Mutable(fd).Map()
			for k := r.Intn(3); k >= 0; k-- {
				key := scalar(c, fd.MapKey(), Opts{BadUTF8: o.BadUTF8}).MapKey()
				if fd.MapValue().Message() != nil {
					if depth >= o.MaxDepth {
						continue
					}
					v := mp.NewValue()
					fill(c, v.Message(), depth+1, o, exts)
					mp.Set(key, v)
				} else {
					mp.Set(key, scalar(c, fd.MapValue(), o))
				}
			}
		case fd.IsList():
			l := m.Mutable(fd).List()
			for k := r.Intn(3); k >= 0; k-- {
				if fd.Message() != nil {
					if depth >= o.MaxDepth {
						continue
					}
					e := l.NewElement()
					fill(c, e.Message(), depth+1, o, exts)
					l.Append(e)
				} else {
					l.Append(scalar(c, fd, o))
				}
			}
		case fd.Message() != nil:
			if depth >= o.MaxDepth {
				continue
			}
			fill(c, m.Mutable(fd).Message(), depth+1, o, exts)
		default:
			m.Set(fd, scalar(c, fd, o))
		}
	}
	if r.Intn(6) == 0 {
		m.SetUnknown(randUnknown(c, m.Descriptor()))
	}
}

// randUnknown builds well-formed unknown fields whose numbers are not declared in md
// and not in its extension ranges resolved by known extensions (number >= 100000 is used).
func randUnknown(c *vh.Ctx, md protoreflect.MessageDescriptor) []byte {
	var b []byte
	n := 1 + c.Rand.Intn(3)
	for i := 0; i < n; i++ {
		num := protowire.Number(100000 + c.Rand.Intn(50))
		if md.Fields().ByNumber(num) != nil {
			continue
		}
		switch c.Rand.Intn(5) {
		case 0:
			b = protowire.AppendTag(b, num, protowire.VarintType)
			b = protowire.AppendVarint(b, c.Rand.Uint64()>>uint(c.Rand.Intn(64)))
		case 1:
			b = protowire.AppendTag(b, num, protowire.Fixed32Type)
			b = protowire.AppendFixed32(b, c.Rand.Uint32())
		case 2:
			b = protowire.AppendTag(b, num, protowire.Fixed64Type)
			b = protowire.AppendFixed64(b, c.Rand.Uint64())
		case 3:
			b = protowire.AppendTag(b, num, protowire.BytesType)
			b = protowire.AppendBytes(b, []byte(strsv[c.Rand.Intn(len(strsv)-1)]))
		case 4:
			b = protowire.AppendTag(b, num, protowire.StartGroupType)
			b = protowire.AppendTag(b, 1, protowire.VarintType)
			b = protowire.AppendVarint(b, uint64(c.Rand.Intn(300)))
			b = protowire.AppendTag(b, num, protowire.EndGroupType)
		}
	}
	return b
}

// mutateWire applies one structure-unaware mutation to a valid encoding.
func mutateWire(c *vh.Ctx, b []byte) ([]byte, string) {
	r := c.Rand
	b = append([]byte{}, b...)
	if len(b) == 0 {
		return []byte{byte(r.Intn(256))}, "single"
	}
	switch r.Intn(10) {
	case 0:
		return b[:r.Intn(len(b))], "truncate"
	case 1:
		b[r.Intn(len(b))] ^= byte(1 << uint(r.Intn(8)))
		return b, "bitflip"
	case 2: // flip wire type of some byte (likely a tag)
		i := r.Intn(len(b))
		b[i] = b[i]&^7 | byte(r.Intn(8))
		return b, "wiretype"
	case 3: // overlong varint
		i := r.Intn(len(b))
		ins := make([]byte, 1+r.Intn(10))
		for j := range ins {
			ins[j] = 0x80
		}
		return append(b[:i], append(ins, b[i:]...)...), "overlong"
	case 4:
		i := r.Intn(len(b))
		return append(b[:i], b[i+1:]...), "drop"
	case 5: // duplicate a slice
		i := r.Intn(len(b))
		j := i + r.Intn(len(b)-i)
		return append(b[:j:j], append(append([]byte{}, b[i:j]...), b[j:]...)...), "dup"
	case 6:
		b[r.Intn(len(b))] = 0xff
		return b, "ff"
	case 7: // append a stray end-group or garbage
		return append(b, []byte{0x0c, 0x04, 0x07, 0x00}[r.Intn(4)]), "stray"
	case 8: // swap two halves
		i := r.Intn(len(b))
		return append(append([]byte{}, b[i:]...), b[:i]...), "rotate"
	default:
		return b, "none"
	}
}
