package main

import (
	"google.golang.org/protobuf/encoding/protowire"
	"fmt"
	"math"
	"sort"
	"strings"

	"google.golang.org/protobuf/internal/strs"
	vh "google.golang.org/protobuf/internal/zz_verif_vh"
	"google.golang.org/protobuf/reflect/protoreflect"
	"google.golang.org/protobuf/reflect/protoregistry"
)

// Flat is a message-descriptor graph flattened for the Lean model: every reachable message
// descriptor (nested types, map entries, groups, extension message types) gets an index.
type Flat struct {
	Root  protoreflect.MessageDescriptor
	Index map[protoreflect.FullName]int
	Descs []protoreflect.MessageDescriptor
	// known extension fields per message (from the resolver), part of the schema
	Exts  map[protoreflect.FullName][]protoreflect.ExtensionType
	Lines []string

	normUnknown bool // Snap re-encodes unknown-field tags minimally (see SnapNorm)
}

func kindName(k protoreflect.Kind) string {
	return strings.TrimSuffix(k.String(), "") // "int32", "message", "group", ...
}

func cardName(fd protoreflect.FieldDescriptor) string {
	switch {
	case fd.ContainingMessage() != nil && fd.ContainingMessage().IsMapEntry():
		// the key and value of a map entry are always materialised and always encoded
		return "optional"
	case fd.IsMap():
		return "map"
	case fd.IsList():
		return "repeated"
	case fd.Cardinality() == protoreflect.Required:
		return "required"
	case fd.HasPresence():
		return "optional"
	default:
		return "implicit"
	}
}

func b2i(b bool) int {
	if b {
		return 1
	}
	return 0
}

// Flatten walks the descriptor graph from root. resolver supplies known extensions (may be nil).
func Flatten(root protoreflect.MessageDescriptor, resolver *protoregistry.Types) *Flat {
	f := &Flat{Root: root, Index: map[protoreflect.FullName]int{}, Exts: map[protoreflect.FullName][]protoreflect.ExtensionType{}}
	var add func(md protoreflect.MessageDescriptor)
	add = func(md protoreflect.MessageDescriptor) {
		if _, ok := f.Index[md.FullName()]; ok {
			return
		}
		f.Index[md.FullName()] = len(f.Descs)
		f.Descs = append(f.Descs, md)
		fds := md.Fields()
		for i := 0; i < fds.Len(); i++ {
			if sub := fds.Get(i).Message(); sub != nil {
				add(sub)
			}
		}
		if resolver != nil && md.ExtensionRanges().Len() > 0 {
			var xts []protoreflect.ExtensionType
			resolver.RangeExtensionsByMessage(md.FullName(), func(xt protoreflect.ExtensionType) bool {
				xts = append(xts, xt)
				return true
			})
			sort.Slice(xts, func(i, j int) bool {
				return xts[i].TypeDescriptor().Number() < xts[j].TypeDescriptor().Number()
			})
			f.Exts[md.FullName()] = xts
			for _, xt := range xts {
				if sub := xt.TypeDescriptor().Message(); sub != nil {
					add(sub)
				}
			}
		}
	}
	add(root)
	f.Lines = append(f.Lines, fmt.Sprintf("schema %d", len(f.Descs)))
	for mi, md := range f.Descs {
		fds := md.Fields()
		for i := 0; i < fds.Len(); i++ {
			f.Lines = append(f.Lines, f.fieldLine(mi, fds.Get(i), false))
		}
		for _, xt := range f.Exts[md.FullName()] {
			f.Lines = append(f.Lines, f.fieldLine(mi, xt.TypeDescriptor(), true))
		}
	}
	return f
}

func (f *Flat) fieldLine(mi int, fd protoreflect.FieldDescriptor, ext bool) string {
	oneof := -1
	if od := fd.ContainingOneof(); od != nil && !od.IsSynthetic() {
		oneof = od.Index()
	}
	sub := 0
	if m := fd.Message(); m != nil {
		sub = f.Index[m.FullName()]
	}
	utf8 := fd.Kind() == protoreflect.StringKind && strs.EnforceUTF8(fd)
	var dflt uint64
	if fd.Kind() == protoreflect.EnumKind && !fd.IsList() {
		dflt = uint64(int64(fd.Default().Enum()))
	}
	return fmt.Sprintf("field %d %d %s %s %d %d %d %d %d %d", mi, fd.Number(), kindName(fd.Kind()), cardName(fd),
		b2i(fd.IsPacked()), oneof, sub, b2i(utf8), b2i(ext), dflt)
}

// Send installs the schema in the model.
func (f *Flat) Send(c *vh.Ctx) {
	if !c.HasModel() {
		return
	}
	for _, l := range f.Lines {
		if ans := c.Ask("%s", l); ans != "ok" {
			c.Compare("schema line", l, "ok", ans)
			return
		}
	}
}

// ---------- snapshot: protoreflect.Message -> MSG tokens ----------

func canonNum(fd protoreflect.FieldDescriptor, v protoreflect.Value) uint64 {
	switch fd.Kind() {
	case protoreflect.BoolKind:
		if v.Bool() {
			return 1
		}
		return 0
	case protoreflect.EnumKind:
		return uint64(int64(v.Enum()))
	case protoreflect.Int32Kind, protoreflect.Sint32Kind, protoreflect.Sfixed32Kind,
		protoreflect.Int64Kind, protoreflect.Sint64Kind, protoreflect.Sfixed64Kind:
		return uint64(v.Int())
	case protoreflect.Uint32Kind, protoreflect.Fixed32Kind, protoreflect.Uint64Kind, protoreflect.Fixed64Kind:
		return v.Uint()
	case protoreflect.FloatKind:
		return uint64(math.Float32bits(float32(v.Float())))
	case protoreflect.DoubleKind:
		return math.Float64bits(v.Float())
	}
	panic("canonNum: kind " + fd.Kind().String())
}

func (f *Flat) snapVal(sb *strings.Builder, fd protoreflect.FieldDescriptor, v protoreflect.Value) {
	switch fd.Kind() {
	case protoreflect.MessageKind, protoreflect.GroupKind:
		f.snapMsg(sb, v.Message())
	case protoreflect.StringKind:
		sb.WriteString("b " + vh.Hex([]byte(v.String())))
	case protoreflect.BytesKind:
		sb.WriteString("b " + vh.Hex(v.Bytes()))
	default:
		fmt.Fprintf(sb, "n %d", canonNum(fd, v))
	}
}

type entry struct {
	num  uint64
	str  string
	text string
}

// Snap renders m in the canonical token form of the model (fields ascending by number,
// map entries ascending by canonical key).
func (f *Flat) Snap(m protoreflect.Message) string {
	var sb strings.Builder
	f.snapMsg(&sb, m)
	return sb.String()
}

func (f *Flat) snapMsg(sb *strings.Builder, m protoreflect.Message) {
	type fv struct {
		fd protoreflect.FieldDescriptor
		v  protoreflect.Value
	}
	var fs []fv
	m.Range(func(fd protoreflect.FieldDescriptor, v protoreflect.Value) bool {
		fs = append(fs, fv{fd, v})
		return true
	})
	sort.Slice(fs, func(i, j int) bool { return fs[i].fd.Number() < fs[j].fd.Number() })
	sb.WriteString("( ")
	for _, x := range fs {
		fd := x.fd
		switch {
		case fd.IsMap():
			mp := x.v.Map()
			var es []entry
			mp.Range(func(k protoreflect.MapKey, v protoreflect.Value) bool {
				var e entry
				var t strings.Builder
				t.WriteString("( 1 s ")
				if fd.MapKey().Kind() == protoreflect.StringKind {
					e.str = k.String()
				} else {
					e.num = canonNum(fd.MapKey(), k.Value())
				}
				f.snapVal(&t, fd.MapKey(), k.Value())
				t.WriteString(" 2 s ")
				f.snapVal(&t, fd.MapValue(), v)
				t.WriteString(" u - )")
				e.text = t.String()
				es = append(es, e)
				return true
			})
			sort.Slice(es, func(i, j int) bool {
				if es[i].num != es[j].num {
					return es[i].num < es[j].num
				}
				return es[i].str < es[j].str
			})
			fmt.Fprintf(sb, "%d r %d ", fd.Number(), len(es))
			for _, e := range es {
				sb.WriteString(e.text + " ")
			}
		case fd.IsList():
			l := x.v.List()
			fmt.Fprintf(sb, "%d r %d ", fd.Number(), l.Len())
			for i := 0; i < l.Len(); i++ {
				f.snapVal(sb, fd, l.Get(i))
				sb.WriteString(" ")
			}
		default:
			fmt.Fprintf(sb, "%d s ", fd.Number())
			f.snapVal(sb, fd, x.v)
			sb.WriteString(" ")
		}
	}
	u := []byte(m.GetUnknown())
	if f.normUnknown {
		u = minimalTags(u)
	}
	sb.WriteString("u " + vh.Hex(u) + " )")
}

// minimalTags re-encodes the tag of every record of u (one message level) as a minimal varint; u is returned
// unchanged when it does not parse.
func minimalTags(u []byte) []byte {
	var out []byte
	for rest := u; len(rest) > 0; {
		num, typ, tn := protowire.ConsumeTag(rest)
		if tn < 0 {
			return u
		}
		vn := protowire.ConsumeFieldValue(num, typ, rest[tn:])
		if vn < 0 {
			return u
		}
		out = protowire.AppendTag(out, num, typ)
		out = append(out, rest[tn:tn+vn]...)
		rest = rest[tn+vn:]
	}
	return out
}

// SnapNorm is Snap with unknown-field tags re-encoded minimally when norm is set (the fast path
// normalises unknown tags; C08 allows that).
func (f *Flat) SnapNorm(m protoreflect.Message, norm bool) string {
	// the reflection decoder keeps unknown records byte for byte, the table-driven one re-encodes their tags
	f.normUnknown = true
	defer func() { f.normUnknown = false }()
	return f.Snap(m)
}

// normSnapUnknown rewrites every unknown-field token ("u <hex>") of a snapshot string with minimal tag varints
// (model answers are strings; the token "u" occurs only as the unknown-fields marker).
func normSnapUnknown(snap string) string {
	toks := strings.Split(snap, " ")
	for i := 0; i+1 < len(toks); i++ {
		if toks[i] == "u" && toks[i+1] != "-" && toks[i+1] != ")" {
			toks[i+1] = vh.Hex(minimalTags(vh.UnHex(toks[i+1])))
		}
	}
	return strings.Join(toks, " ")
}
