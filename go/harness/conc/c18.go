package main

import (
	"encoding/hex"
	"encoding/json"
	"fmt"
	"hash/fnv"
	"math/rand"
	"runtime"
	"sort"
	"strings"
	"sync"
	"sync/atomic"
	"time"

	"google.golang.org/protobuf/encoding/protojson"
	"google.golang.org/protobuf/encoding/prototext"
	"google.golang.org/protobuf/encoding/protowire"
	lazyopaque "google.golang.org/protobuf/internal/testprotos/lazy/lazy_opaque"
	edopaque "google.golang.org/protobuf/internal/testprotos/testeditions/testeditions_opaque"
	vh "google.golang.org/protobuf/internal/zz_verif_vh"
	"google.golang.org/protobuf/proto"
	"google.golang.org/protobuf/reflect/protoreflect"
)

// ---------------------------------------------------------------------------- subjects

// A subject kind is a message type with a chain of lazy submessage fields that the generated
// getters follow.
type kind struct {
	name  string
	build func(r *rand.Rand) proto.Message                          // random value with a lazy chain
	multi func(r *rand.Rand) []byte                                 // wire with the lazy field in several non-contiguous occurrences
	zero  func() proto.Message                                      // empty message to decode into
	chain func(m proto.Message) (ptrs []proto.Message, vals string) // generated getters along the chain
	has   func(m proto.Message) string                              // generated Has* along the chain
	path  []protoreflect.FieldNumber                                // field numbers to follow by reflection (cyclic)
}

func randString(r *rand.Rand) string {
	n := r.Intn(12)
	b := make([]byte, n)
	for i := range b {
		b[i] = byte('a' + r.Intn(26))
	}
	return string(b)
}

func buildNode(r *rand.Rand, depth int) *lazyopaque.Node {
	n := &lazyopaque.Node{}
	n.SetInt32(int32(r.Uint32()))
	if r.Intn(2) == 0 {
		n.SetInt64(int64(r.Uint64()))
	}
	if r.Intn(2) == 0 {
		n.SetString(randString(r))
	}
	if r.Intn(3) == 0 {
		n.SetBytes([]byte(randString(r)))
	}
	if r.Intn(3) == 0 {
		n.SetDouble(r.NormFloat64())
	}
	if r.Intn(3) == 0 {
		n.SetFixed64(r.Uint64())
	}
	if depth > 0 {
		n.SetNested(buildNode(r, depth-1))
	}
	return n
}

func buildAll(r *rand.Rand, depth int) *edopaque.TestAllTypes {
	m := &edopaque.TestAllTypes{}
	m.SetOptionalInt32(int32(r.Uint32()))
	if r.Intn(2) == 0 {
		m.SetOptionalString(randString(r))
	}
	if r.Intn(2) == 0 {
		m.SetRepeatedInt32([]int32{int32(r.Intn(100)), int32(r.Intn(1000)), -1})
	}
	if r.Intn(2) == 0 {
		m.SetMapInt32Int32(map[int32]int32{int32(r.Intn(9)): int32(r.Intn(9))})
	}
	if r.Intn(3) == 0 {
		nm := &edopaque.TestAllTypes_NestedMessage{}
		nm.SetA(int32(r.Intn(50)))
		m.SetOptionalNestedMessage(nm)
	}
	if depth > 0 {
		nm := &edopaque.TestAllTypes_NestedMessage{}
		nm.SetA(int32(r.Uint32()))
		if depth > 1 {
			nm.SetCorecursive(buildAll(r, depth-2))
		}
		m.SetOptionalLazyNestedMessage(nm)
	}
	return m
}

// ---------------------------------------------------------------------------- multi-occurrence wires

func mustMarshal(m proto.Message) []byte {
	b, err := proto.MarshalOptions{Deterministic: true, AllowPartial: true}.Marshal(m)
	if err != nil {
		panic(err)
	}
	return b
}

func bigString(r *rand.Rand, n int) string {
	b := make([]byte, n)
	for i := range b {
		b[i] = byte('a' + (i+n)%26)
	}
	return string(b)
}

func occurrences(r *rand.Rand) int {
	return []int{2, 2, 2, 3, 3, 4, 6, 12, 30}[r.Intn(9)]
}

func bigCount(r *rand.Rand) int {
	return []int{50, 1000, 2000, 4000, 4000, 8000}[r.Intn(6)]
}

// multiNode: the lazy field `nested` (99) of a Node occurs several times on the wire, separated by
// other fields of the parent (so the lazy index gets one entry per occurrence); the first
// occurrence is small, later ones are large, so that merging them takes a while.
func multiNode(r *rand.Rand) []byte {
	var wire []byte
	n := occurrences(r)
	chainAt := r.Intn(n)
	for j := 0; j < n; j++ {
		piece := &lazyopaque.Node{}
		switch {
		case j == 0:
			piece.SetInt32(int32(1 + r.Intn(1000)))
		case j%3 == 1:
			piece.SetString(bigString(r, bigCount(r)*4))
			piece.SetSint64(int64(j))
		case j%3 == 2:
			piece.SetBytes([]byte(bigString(r, bigCount(r)*2)))
			piece.SetUint32(uint32(j))
		default:
			piece.SetDouble(float64(j))
			piece.SetFixed64(r.Uint64())
		}
		if j == chainAt && r.Intn(2) == 0 {
			piece.SetNested(buildNode(r, r.Intn(3)))
		}
		parent := &lazyopaque.Node{}
		parent.SetNested(piece)
		wire = append(wire, mustMarshal(parent)...)
		sep := &lazyopaque.Node{}
		if r.Intn(2) == 0 {
			sep.SetInt64(int64(r.Intn(100)))
		} else {
			sep.SetString(randString(r))
		}
		wire = append(wire, mustMarshal(sep)...)
	}
	return wire
}

// multiAll: optional_lazy_nested_message (24) of TestAllTypes in several non-contiguous pieces:
// {a}, then {corecursive{repeated_int32 × thousands}}, {corecursive{repeated_string …}}, …
func multiAll(r *rand.Rand) []byte {
	var wire []byte
	n := occurrences(r)
	chainAt := 1 + r.Intn(n)
	for j := 0; j < n; j++ {
		nm := &edopaque.TestAllTypes_NestedMessage{}
		co := &edopaque.TestAllTypes{}
		switch {
		case j == 0:
			nm.SetA(int32(1 + r.Intn(1000)))
		case j%3 == 1:
			rep := make([]int32, bigCount(r))
			for i := range rep {
				rep[i] = int32(i + j)
			}
			co.SetRepeatedInt32(rep)
			co.SetOptionalInt32(int32(7 + j))
			nm.SetCorecursive(co)
		case j%3 == 2:
			strs := make([]string, 1+bigCount(r)/20)
			for i := range strs {
				strs[i] = fmt.Sprint("s", i, j)
			}
			co.SetRepeatedString(strs)
			nm.SetCorecursive(co)
		default:
			co.SetOptionalBytes([]byte(bigString(r, bigCount(r))))
			nm.SetCorecursive(co)
			nm.SetA(int32(j))
		}
		if j == chainAt && r.Intn(2) == 0 {
			co.SetOptionalLazyNestedMessage(buildAll(r, 1).GetOptionalLazyNestedMessage())
			nm.SetCorecursive(co)
		}
		parent := &edopaque.TestAllTypes{}
		parent.SetOptionalLazyNestedMessage(nm)
		wire = append(wire, mustMarshal(parent)...)
		sep := &edopaque.TestAllTypes{}
		if r.Intn(2) == 0 {
			sep.SetOptionalInt64(int64(5 + r.Intn(100)))
		} else {
			sep.SetOptionalString(randString(r))
		}
		wire = append(wire, mustMarshal(sep)...)
	}
	return wire
}

// multiReq: TestRequiredLazy has no other field; the occurrences of optional_lazy_message (1) are
// separated by an unknown field (number 1000).
func multiReq(r *rand.Rand) []byte {
	var wire []byte
	n := occurrences(r)
	for j := 0; j < n; j++ {
		req := &edopaque.TestRequired{}
		req.SetRequiredField(int32(r.Uint32()))
		parent := &edopaque.TestRequiredLazy{}
		parent.SetOptionalLazyMessage(req)
		wire = append(wire, mustMarshal(parent)...)
		wire = protowire.AppendVarint(protowire.AppendTag(wire, 1000, protowire.VarintType), uint64(j))
	}
	return wire
}

// short abbreviates long content to length + checksum (readers compare content, not only identity).
func short(b []byte) string {
	if len(b) <= 24 {
		return fmt.Sprintf("%x", b)
	}
	h := fnv.New64a()
	h.Write(b)
	return fmt.Sprintf("#%d:%x", len(b), h.Sum64())
}

func sumInts(xs []int32) string {
	var s int64
	for i, x := range xs {
		s += int64(x) * int64(i+1)
	}
	return fmt.Sprintf("[%d:%d]", len(xs), s)
}

var kinds = []kind{
	{
		name:  "lazy_opaque.Node",
		build: func(r *rand.Rand) proto.Message { return buildNode(r, 1+r.Intn(6)) },
		multi: multiNode,
		zero:  func() proto.Message { return &lazyopaque.Node{} },
		chain: func(m proto.Message) (ptrs []proto.Message, vals string) {
			var sb strings.Builder
			for n := m.(*lazyopaque.Node); ; {
				fmt.Fprintf(&sb, "%d/%d/%s/%s/%v/%d/%d/%d;", n.GetInt32(), n.GetInt64(), short([]byte(n.GetString())), short(n.GetBytes()), n.GetDouble(), n.GetFixed64(), n.GetSint64(), n.GetUint32())
				next := n.GetNested()
				if next == nil {
					break
				}
				ptrs = append(ptrs, next)
				n = next
			}
			return ptrs, sb.String()
		},
		has: func(m proto.Message) string {
			var sb strings.Builder
			for n := m.(*lazyopaque.Node); n != nil; n = n.GetNested() {
				fmt.Fprintf(&sb, "%v%v%v;", n.HasNested(), n.HasInt32(), n.HasString())
			}
			return sb.String()
		},
		path: []protoreflect.FieldNumber{99},
	},
	{
		name:  "testeditions_opaque.TestAllTypes",
		build: func(r *rand.Rand) proto.Message { return buildAll(r, 1+r.Intn(6)) },
		multi: multiAll,
		zero:  func() proto.Message { return &edopaque.TestAllTypes{} },
		chain: func(m proto.Message) (ptrs []proto.Message, vals string) {
			var sb strings.Builder
			for t := m.(*edopaque.TestAllTypes); t != nil; {
				fmt.Fprintf(&sb, "%d/%q/%s/%v/%d/%s/%d;", t.GetOptionalInt32(), t.GetOptionalString(), sumInts(t.GetRepeatedInt32()), t.GetMapInt32Int32(),
					len(t.GetRepeatedString()), short(t.GetOptionalBytes()), t.GetOptionalInt64())
				nm := t.GetOptionalLazyNestedMessage()
				if nm == nil {
					break
				}
				ptrs = append(ptrs, nm)
				fmt.Fprintf(&sb, "a=%d;", nm.GetA())
				t = nm.GetCorecursive()
				if t != nil {
					ptrs = append(ptrs, t)
				}
			}
			return ptrs, sb.String()
		},
		has: func(m proto.Message) string {
			var sb strings.Builder
			for t := m.(*edopaque.TestAllTypes); t != nil; {
				fmt.Fprintf(&sb, "%v%v;", t.HasOptionalLazyNestedMessage(), t.HasOptionalNestedMessage())
				nm := t.GetOptionalLazyNestedMessage()
				if nm == nil {
					break
				}
				fmt.Fprintf(&sb, "%v%v;", nm.HasA(), nm.HasCorecursive())
				t = nm.GetCorecursive()
			}
			return sb.String()
		},
		path: []protoreflect.FieldNumber{24, 2},
	},
	{
		name: "testeditions_opaque.TestRequiredLazy",
		build: func(r *rand.Rand) proto.Message {
			m := &edopaque.TestRequiredLazy{}
			req := &edopaque.TestRequired{}
			req.SetRequiredField(int32(r.Uint32()))
			m.SetOptionalLazyMessage(req)
			return m
		},
		multi: multiReq,
		zero:  func() proto.Message { return &edopaque.TestRequiredLazy{} },
		chain: func(m proto.Message) (ptrs []proto.Message, vals string) {
			req := m.(*edopaque.TestRequiredLazy).GetOptionalLazyMessage()
			if req == nil {
				return nil, "nil"
			}
			return []proto.Message{req}, fmt.Sprint(req.GetRequiredField())
		},
		has: func(m proto.Message) string {
			t := m.(*edopaque.TestRequiredLazy)
			return fmt.Sprint(t.HasOptionalLazyMessage(), t.GetOptionalLazyMessage().HasRequiredField())
		},
		path: []protoreflect.FieldNumber{1},
	},
}

// ---------------------------------------------------------------------------- read-only operations

const (
	opGetters = iota
	opHas
	opReflectGet
	opReflectRange
	opSize
	opMarshal
	opMarshalDet
	opEqual
	opClone
	opJSON
	opText
	opCheckInit
	numOps
)

var opNames = []string{"getters", "has", "reflect.Get", "reflect.Range", "proto.Size", "proto.Marshal", "proto.Marshal(det)",
	"proto.Equal", "proto.Clone", "protojson.Marshal", "prototext.Marshal", "proto.CheckInitialized"}

// reflectChain follows the lazy fields by protoreflect Has/Get.
func reflectChain(k *kind, m proto.Message) (ptrs []proto.Message, vals string) {
	var sb strings.Builder
	cur := m.ProtoReflect()
	for i := 0; ; i++ {
		fd := cur.Descriptor().Fields().ByNumber(k.path[i%len(k.path)])
		if fd == nil {
			sb.WriteString("?")
			break
		}
		if fd.Message() == nil {
			sb.WriteString(".")
			break
		}
		if !cur.Has(fd) {
			sb.WriteString("-")
			break
		}
		next := cur.Get(fd).Message()
		ptrs = append(ptrs, next.Interface())
		sb.WriteString("+")
		cur = next
	}
	return ptrs, sb.String()
}

func dumpRange(m protoreflect.Message, depth int) string {
	var parts []string
	m.Range(func(fd protoreflect.FieldDescriptor, v protoreflect.Value) bool {
		s := fmt.Sprintf("%d=", fd.Number())
		switch {
		case fd.IsMap():
			var es []string
			v.Map().Range(func(k protoreflect.MapKey, mv protoreflect.Value) bool {
				es = append(es, fmt.Sprintf("%v:%v", k.Interface(), mv.Interface()))
				return true
			})
			sort.Strings(es)
			s += "{" + strings.Join(es, ",") + "}"
		case fd.IsList():
			s += fmt.Sprintf("[%d]", v.List().Len())
		case fd.Message() != nil:
			if depth < 12 {
				s += "(" + dumpRange(v.Message(), depth+1) + ")"
			}
		case fd.Kind() == protoreflect.BytesKind:
			s += hex.EncodeToString(v.Bytes())
		default:
			s += fmt.Sprint(v.Interface())
		}
		parts = append(parts, s)
		return true
	})
	sort.Strings(parts)
	return strings.Join(parts, " ")
}

// doOp performs one read-only operation on m; eager is an eagerly decoded copy of the same bytes.
func doOp(k *kind, op int, m, eager proto.Message) (res string, ptrs []proto.Message) {
	switch op {
	case opGetters:
		p, v := k.chain(m)
		return v, p
	case opHas:
		return k.has(m), nil
	case opReflectGet:
		p, v := reflectChain(k, m)
		return v, p
	case opReflectRange:
		return dumpRange(m.ProtoReflect(), 0), nil
	case opSize:
		return fmt.Sprint(proto.Size(m)), nil
	case opMarshal:
		b, err := proto.MarshalOptions{AllowPartial: true}.Marshal(m)
		return fmt.Sprintf("%x %v", b, err), nil
	case opMarshalDet:
		b, err := proto.MarshalOptions{Deterministic: true, AllowPartial: true}.Marshal(m)
		return fmt.Sprintf("%x %v", b, err), nil
	case opEqual:
		return fmt.Sprint(proto.Equal(m, eager), proto.Equal(eager, m)), nil
	case opClone:
		cl := proto.Clone(m)
		b, err := proto.MarshalOptions{Deterministic: true, AllowPartial: true}.Marshal(cl)
		return fmt.Sprintf("%x %v %v", b, err, proto.Equal(cl, eager)), nil
	case opJSON:
		b, err := protojson.MarshalOptions{AllowPartial: true}.Marshal(m)
		return fmt.Sprintf("%s %v", b, err), nil
	case opText:
		b, err := prototext.MarshalOptions{AllowPartial: true}.Marshal(m)
		return fmt.Sprintf("%s %v", b, err), nil
	case opCheckInit:
		return fmt.Sprint(proto.CheckInitialized(m)), nil
	}
	panic("bad op")
}

// ---------------------------------------------------------------------------- one round

type roundInput struct {
	Kind  string  `json:"kind"`
	Wire  string  `json:"wire"`
	N     int     `json:"goroutines"`
	Ops   [][]int `json:"ops"`
	Procs int     `json:"gomaxprocs"`
	Shape string  `json:"shape,omitempty"`
	What  string  `json:"what,omitempty"`
	Tries int     `json:"tries,omitempty"`
}

type sink interface {
	fail(kind, what string, in any, sig string)
	evalCase(key string, nontrivial bool)
	hist(k string)
}

type ctxSink struct{ c *C }

func (s ctxSink) fail(kind, what string, in any, sig string) {
	s.c.Fail(vh.Failure{Kind: kind, What: what, Input: in, Sig: sig})
}
func (s ctxSink) evalCase(key string, nt bool) { s.c.Case(key, nt) }
func (s ctxSink) hist(k string)                { s.c.Hist(k) }

type childSink struct{ r *childResult }

func (s childSink) fail(kind, what string, in any, sig string) {
	if len(s.r.Fails) < 10 {
		data, _ := json.Marshal(in)
		s.r.Fails = append(s.r.Fails, kind+": "+what+" input="+string(data))
	}
}
func (s childSink) evalCase(key string, nt bool) { s.r.Evals++ }
func (s childSink) hist(k string)                { s.r.Hist[k]++ }

func kindByName(n string) *kind {
	for i := range kinds {
		if kinds[i].name == n {
			return &kinds[i]
		}
	}
	return nil
}

// genWire: half of the wires are one canonical encoding of a random message (every lazy field occurs
// once), the other half have the top-level lazy field in several non-contiguous occurrences.
func genWire(r *rand.Rand, k *kind) (wire []byte, shape string) {
	if r.Intn(2) == 0 {
		return mustMarshal(k.build(r)), "single"
	}
	return k.multi(r), "multi"
}

func genRound(r *rand.Rand) roundInput {
	k := &kinds[r.Intn(len(kinds))]
	wire, shape := genWire(r, k)
	ns := []int{2, 2, 3, 4, 4, 8, 8, 16, 16, 32, 64}
	n := ns[r.Intn(len(ns))]
	in := roundInput{Kind: k.name, Wire: hex.EncodeToString(wire), N: n, Shape: shape}
	mode := r.Intn(4)
	for g := 0; g < n; g++ {
		var ops []int
		switch mode {
		case 0: // everybody starts with the getters: maximal contention on the first decode
			ops = append(ops, opGetters)
		case 1: // everybody starts with a different operation
			ops = append(ops, (g+r.Intn(2))%numOps)
		case 2: // two populations: generated getters vs. reflection
			ops = append(ops, []int{opGetters, opReflectGet}[g%2])
		}
		for len(ops) < 2+r.Intn(5) {
			ops = append(ops, r.Intn(numOps))
		}
		in.Ops = append(in.Ops, ops)
	}
	return in
}

// runRound decodes the wire bytes lazily into a fresh shared message, lets N goroutines perform
// their read-only operations after a barrier and checks: no panic, same submessage instances for
// everybody, every result equal to the sequential result computed beforehand on a separate copy.
func runRound(in roundInput, s sink) bool {
	k := kindByName(in.Kind)
	if k == nil {
		s.fail("property", "replay: unknown kind "+in.Kind, in, "")
		return false
	}
	wire, _ := hex.DecodeString(in.Wire)
	// sequential results on a separate copy
	ref := k.zero()
	if err := (proto.UnmarshalOptions{AllowPartial: true}).Unmarshal(wire, ref); err != nil {
		s.fail("property", "sequential decode failed: "+err.Error(), in, "")
		return false
	}
	eager := k.zero()
	if err := (proto.UnmarshalOptions{AllowPartial: true, NoLazyDecoding: true}).Unmarshal(wire, eager); err != nil {
		s.fail("property", "eager decode failed: "+err.Error(), in, "")
		return false
	}
	seq := make([]string, numOps)
	seqFresh := make([]string, numOps) // each op on its own fresh lazy copy (order independence of the reference itself)
	for op := 0; op < numOps; op++ {
		fresh := k.zero()
		(proto.UnmarshalOptions{AllowPartial: true}).Unmarshal(wire, fresh)
		seqFresh[op], _ = doOp(k, op, fresh, eager)
	}
	for op := 0; op < numOps; op++ {
		seq[op], _ = doOp(k, op, ref, eager)
		if seq[op] != seqFresh[op] {
			// sequential order dependence is not a concurrency matter (C17's business); do not use this op as oracle
			seq[op] = ""
			s.hist("seq-order-dependent:" + opNames[op])
		}
	}
	refPtrs, _ := k.chain(ref)

	shared := k.zero()
	if err := (proto.UnmarshalOptions{AllowPartial: true}).Unmarshal(wire, shared); err != nil {
		s.fail("property", "decode failed: "+err.Error(), in, "")
		return false
	}
	type gres struct {
		res   []string
		ptrs  [][]proto.Message
		panic string
	}
	out := make([]gres, in.N)
	var ready, wg sync.WaitGroup
	var start int32
	ready.Add(in.N)
	wg.Add(in.N)
	yield := in.N >= runtime.GOMAXPROCS(0)
	for g := 0; g < in.N; g++ {
		go func(g int) {
			defer wg.Done()
			defer func() {
				if e := recover(); e != nil {
					buf := make([]byte, 2048)
					buf = buf[:runtime.Stack(buf, false)]
					out[g].panic = fmt.Sprintf("%v\n%s", e, buf)
				}
			}()
			ops := in.Ops[g%len(in.Ops)]
			ready.Done()
			for atomic.LoadInt32(&start) == 0 { // spin: release everybody at the same instant
				if yield {
					runtime.Gosched()
				}
			}
			for _, op := range ops {
				r, p := doOp(k, op, shared, eager)
				out[g].res = append(out[g].res, r)
				out[g].ptrs = append(out[g].ptrs, p)
			}
		}(g)
	}
	ready.Wait()
	atomic.StoreInt32(&start, 1)
	done := make(chan struct{})
	go func() { wg.Wait(); close(done) }()
	select {
	case <-done:
	case <-time.After(300 * time.Second):
		in.What = "goroutines did not finish within 300 s"
		s.fail("property", "C18 readers are stuck (deadlock/livelock)", in, "")
		return false
	}
	ok := true
	bad := func(what string) {
		if ok {
			in.What = what
			s.fail("property", "C18 "+what, in, "")
		}
		ok = false
	}
	// same instances for everybody (generated getters and reflection alike)
	finalPtrs, _ := k.chain(shared)
	if len(finalPtrs) != len(refPtrs) {
		bad(fmt.Sprintf("lazy chain has %d submessages after the concurrent phase, sequential copy has %d", len(finalPtrs), len(refPtrs)))
	}
	for g := range out {
		if out[g].panic != "" {
			bad(fmt.Sprintf("goroutine %d panicked: %s", g, out[g].panic))
			continue
		}
		ops := in.Ops[g%len(in.Ops)]
		for i, op := range ops {
			if i >= len(out[g].res) {
				break
			}
			if seq[op] != "" && out[g].res[i] != seq[op] {
				bad(fmt.Sprintf("goroutine %d: %s returned %.200q, sequential result is %.200q", g, opNames[op], out[g].res[i], seq[op]))
			}
			for d, p := range out[g].ptrs[i] {
				if d >= len(finalPtrs) || p != finalPtrs[d] {
					bad(fmt.Sprintf("goroutine %d: %s obtained a different instance of the lazy submessage at depth %d than the one stored in the message", g, opNames[op], d+1))
					break
				}
			}
			if (op == opGetters || op == opReflectGet) && len(out[g].ptrs[i]) != len(refPtrs) {
				bad(fmt.Sprintf("goroutine %d: %s followed %d lazy submessages, sequential copy has %d", g, opNames[op], len(out[g].ptrs[i]), len(refPtrs)))
			}
		}
	}
	// the message is unchanged as a value
	if !proto.Equal(shared, eager) {
		bad("shared message differs from the eagerly decoded copy after the concurrent phase")
	}
	first := in.Ops[0][0]
	s.evalCase(fmt.Sprintf("%s|%s|%d|%v", in.Kind, in.Wire, in.N, in.Ops), len(refPtrs) > 0)
	s.hist("kind:" + in.Kind)
	s.hist("wire:" + in.Shape + fmt.Sprintf(":%dKB", len(wire)/4096*4))
	s.hist(fmt.Sprintf("goroutines:%d", in.N))
	s.hist(fmt.Sprintf("depth:%d", len(refPtrs)))
	s.hist("first-op:" + opNames[first])
	return ok
}

// ---------------------------------------------------------------------------- parent and children

func runC18(c *C) {
	c.R.Rule = "one case = one round: a fresh message decoded lazily from random bytes of one of 3 lazy-capable generated types (lazy_opaque.Node, testeditions_opaque.TestAllTypes, testeditions_opaque.TestRequiredLazy), 2–64 goroutines performing 2–6 read-only operations each after a spin barrier; non-trivial = the message contains at least one lazily decoded submessage; distinct = distinct (type, bytes, goroutine count, operation lists)"
	runtime.GOMAXPROCS(runtime.NumCPU())
	s := ctxSink{c}
	// replay first: re-run the recorded inputs many times (the schedule itself cannot be replayed)
	for _, raw := range c.ReplayInputs() {
		var in roundInput
		if json.Unmarshal(raw, &in) != nil || in.Kind == "" {
			continue
		}
		for i := 0; i < 300 && runRound(in, s); i++ {
		}
	}
	// recorded executions first (their verdicts are deterministic for a given tree), then the schedule-dependent rounds
	v := buildVariants(c)
	traceStageC18(c, v)
	rounds := c.N(800, 40000)
	for i := 0; i < rounds && !c.Failed(); i++ {
		in := genRound(c.Rand)
		if i%7 == 0 {
			runtime.GOMAXPROCS(1 + c.Rand.Intn(runtime.NumCPU()))
		}
		in.Procs = runtime.GOMAXPROCS(0)
		runRound(in, s)
		if i < 3 {
			c.Sample(map[string]any{"kind": in.Kind, "goroutines": in.N, "ops_of_goroutine_0": in.Ops[0], "wire_bytes": len(in.Wire) / 2})
		}
	}
	runtime.GOMAXPROCS(runtime.NumCPU())

	// the model's view of what was observed: N readers all returning the one published instance
	if c.HasModel() {
		facts := c.Ask("facts")
		c.R.Notes = append(c.R.Notes, "protocol variants selected from the extracted shape facts: "+facts)
		c.Compare("model variant for the lazy protocol", "facts", "lazy=cas/reload/afterAll", strings.Fields(facts + " ")[0])
		for _, n := range []int{1, 2, 3, 8, 64} {
			obs := strings.TrimSpace(strings.Repeat("0 ", n))
			c.Compare("observations of n readers (all the same instance) are a run of the model", "lazyobs 1 "+obs, "consistent", c.Ask("lazyobs 1 %s", obs))
		}
		c.Compare("absent field: every reader returns nil", "lazyobs 0 nil nil nil", "consistent", c.Ask("lazyobs 0 nil nil nil"))
	}

	raceStageC18(c, v)
}

func raceStageC18(c *C, v variants) {
	// the same rounds under the race detector
	if v.Race == "" {
		c.R.Notes = append(c.R.Notes, "race detector run skipped: "+v.RaceError)
		c.Hist("race:skipped")
	} else {
		rr := c.N(150, 5000)
		spec := fmt.Sprintf("c18:%d:%d", c.Seed, rr)
		res, stderr, err := runChild(v.Race, spec, time.Duration(c.N(900, 3000))*time.Second)
		if rep := raceReport(stderr); rep != "" {
			c.Fail(vh.Failure{Kind: "property", What: "C18 DATA RACE reported by the race detector during read-only operations on a shared lazily decoded message",
				Input: map[string]any{"child": spec, "binary": v.Race, "report": rep}})
		} else if err != nil && res == nil {
			c.Fail(vh.Failure{Kind: "panic", What: "C18 race-detector child failed: " + err.Error() + " " + tail(stderr, 1500), Input: map[string]any{"child": spec}})
		}
		if res != nil {
			for _, f := range res.Fails {
				c.Fail(vh.Failure{Kind: "property", What: "C18 (race build) " + f, Input: map[string]any{"child": spec}})
			}
			c.R.Notes = append(c.R.Notes, fmt.Sprintf("race detector: %d rounds (%d cases) in a -race build, no report", res.Rounds, res.Evals))
			c.R.Histogram["race:rounds"] += res.Rounds
		}
	}
}

func traceStageC18(c *C, v variants) {
	// recorded event traces through the model's acceptsTrace (needs the hook package in the tree)
	if v.Hooks == "" {
		why := "the event hooks (fixes/hook-conc.diff: internal/verifhook + calls in lazyUnmarshal) are not in this tree"
		if v.HookPkg {
			why = "hooked build failed: " + v.HooksErr
			c.Fail(vh.Failure{Kind: "correspondence", What: "C18 hooked harness build failed: " + v.HooksErr})
		}
		c.R.Notes = append(c.R.Notes, "trace validation (recorded lazyUnmarshal events → model acceptsTrace) skipped: "+why)
		c.Hist("trace:skipped")
	} else if c.HasModel() {
		spec := fmt.Sprintf("c18trace:%d:%d", c.Seed, c.N(300, 5000))
		res, stderr, err := runChild(v.Hooks, spec, 600*time.Second)
		if res == nil {
			c.Fail(vh.Failure{Kind: "panic", What: fmt.Sprintf("C18 trace child failed: %v %s", err, tail(stderr, 800)), Input: map[string]any{"child": spec}})
		} else {
			for _, f := range res.Fails {
				c.Fail(vh.Failure{Kind: "property", What: "C18 (hooked build) " + f, Input: map[string]any{"child": spec}})
			}
			acc := 0
			for _, tr := range res.Traces {
				line := strings.Join(tr, " ")
				ans := c.Ask("%s", line)
				if strings.HasPrefix(ans, "accept") {
					acc++
					c.Hist("trace:accepted")
				} else {
					c.Fail(vh.Failure{Kind: "property", What: "C18 recorded execution is not a run of the protocol model: " + ans, Input: map[string]any{"trace": line}, Model: ans})
				}
			}
			c.R.Notes = append(c.R.Notes, fmt.Sprintf("trace validation: %d recorded cell histories (lazyUnmarshal events of real runs) accepted by the model", acc))
			if res.Entry {
				c.R.Notes = append(c.R.Notes, "the tree has verifhook.LazyEntry: every merged index entry is recorded and the model requires entries 0..n-1 before the LazyDecoded record and the CAS")
				c.Hist("trace:with-LazyEntry")
			} else {
				c.R.Notes = append(c.R.Notes, "verifhook.LazyEntry (fixes/hook-conc-entry.diff) is not in this tree: index entries are not recorded; a LazyDecoded record is taken as 'all entries merged'")
				c.Hist("trace:without-LazyEntry")
			}
			for k, n := range res.Hist {
				c.R.Histogram[k] += n
			}
		}
	}
}

func childC18(res *childResult, seed int64, rounds int) {
	runtime.GOMAXPROCS(runtime.NumCPU())
	r := rand.New(rand.NewSource(seed))
	s := childSink{res}
	for i := 0; i < rounds && len(res.Fails) == 0; i++ {
		in := genRound(r)
		if in.N > 16 {
			in.N = 16 // the race detector's goroutine bookkeeping is slow
		}
		runRound(in, s)
		res.Rounds++
	}
}
