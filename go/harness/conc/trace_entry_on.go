//go:build verifhooks && verifhookentry

package main

import "google.golang.org/protobuf/internal/verifhook"

// The tree has verifhook.LazyEntry (one record per merged index entry, /verif/fixes/hook-conc-entry.diff).
const hookHasEntry = true

func entryKN(e verifhook.Event) (k, n int32) { return e.K, e.N }
