//go:build verifhooks && !verifhookentry

package main

import "google.golang.org/protobuf/internal/verifhook"

// The tree's verifhook package has no LazyEntry hook: index entries are not recorded.
const hookHasEntry = false

func entryKN(e verifhook.Event) (k, n int32) { return 0, 0 }
