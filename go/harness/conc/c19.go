package main

import (
	"crypto/sha256"
	"encoding/hex"
	"encoding/json"
	"fmt"
	"math/rand"
	"os"
	"reflect"
	"runtime"
	"sort"
	"strings"
	"sync"
	"sync/atomic"
	"time"

	"google.golang.org/protobuf/encoding/prototext"
	_ "google.golang.org/protobuf/internal/testprotos/enums"
	_ "google.golang.org/protobuf/internal/testprotos/lazy"
	"google.golang.org/protobuf/internal/testprotos/legacy"
	_ "google.golang.org/protobuf/internal/testprotos/messageset/messagesetpb"
	_ "google.golang.org/protobuf/internal/testprotos/messageset/msetextpb"
	_ "google.golang.org/protobuf/internal/testprotos/required"
	_ "google.golang.org/protobuf/internal/testprotos/test"
	_ "google.golang.org/protobuf/internal/testprotos/test3"
	_ "google.golang.org/protobuf/internal/testprotos/testeditions"
	_ "google.golang.org/protobuf/internal/testprotos/textpb2"
	_ "google.golang.org/protobuf/internal/testprotos/textpb3"
	vh "google.golang.org/protobuf/internal/zz_verif_vh"
	"google.golang.org/protobuf/proto"
	"google.golang.org/protobuf/reflect/protodesc"
	"google.golang.org/protobuf/reflect/protoreflect"
	"google.golang.org/protobuf/reflect/protoregistry"
	"google.golang.org/protobuf/runtime/protoimpl"
	"google.golang.org/protobuf/types/descriptorpb"
	"google.golang.org/protobuf/types/dynamicpb"
	_ "google.golang.org/protobuf/types/known/anypb"
	_ "google.golang.org/protobuf/types/known/structpb"
	_ "google.golang.org/protobuf/types/known/timestamppb"
)

var scenarios = []string{"desc", "types", "legacy", "registry", "cycle", "extinfo"}

// ---------------------------------------------------------------------------- observations

func safe(f func() string) (s string) {
	defer func() {
		if e := recover(); e != nil {
			s = fmt.Sprintf("panic:%v", e)
		}
	}()
	return f()
}

func dumpField(fd protoreflect.FieldDescriptor) string {
	var sb strings.Builder
	fmt.Fprintf(&sb, "%s#%d %v %v json=%s/%v text=%s pres=%v packed=%v list=%v map=%v", fd.Name(), fd.Number(), fd.Kind(), fd.Cardinality(),
		fd.JSONName(), fd.HasJSONName(), fd.TextName(), fd.HasPresence(), fd.IsPacked(), fd.IsList(), fd.IsMap())
	if fd.HasDefault() {
		fmt.Fprintf(&sb, " def=%v", fd.Default().Interface())
		if ev := fd.DefaultEnumValue(); ev != nil {
			fmt.Fprintf(&sb, "/%s", ev.Name())
		}
	}
	if od := fd.ContainingOneof(); od != nil {
		fmt.Fprintf(&sb, " oneof=%s/%v", od.Name(), od.IsSynthetic())
	}
	if md := fd.Message(); md != nil {
		fmt.Fprintf(&sb, " msg=%s", md.FullName())
	}
	if ed := fd.Enum(); ed != nil {
		fmt.Fprintf(&sb, " enum=%s", ed.FullName())
	}
	if fd.IsMap() {
		fmt.Fprintf(&sb, " k=%v v=%v", fd.MapKey().Kind(), fd.MapValue().Kind())
	}
	if fd.IsExtension() {
		fmt.Fprintf(&sb, " ext-of=%s", fd.ContainingMessage().FullName())
	}
	return sb.String()
}

func dumpEnum(ed protoreflect.EnumDescriptor) string {
	var sb strings.Builder
	fmt.Fprintf(&sb, "enum %s closed=%v", ed.FullName(), ed.IsClosed())
	vs := ed.Values()
	for i := 0; i < vs.Len(); i++ {
		v := vs.Get(i)
		byName := vs.ByName(v.Name())
		byNum := vs.ByNumber(v.Number())
		fmt.Fprintf(&sb, " %s=%d/%v/%v", v.Name(), v.Number(), byName != nil && byName.Number() == v.Number(), byNum != nil)
	}
	fmt.Fprintf(&sb, " rn=%d/%v rr=%d/%v", ed.ReservedNames().Len(), ed.ReservedNames().Has("x"), ed.ReservedRanges().Len(), ed.ReservedRanges().Has(7))
	return sb.String()
}

func dumpMessage(md protoreflect.MessageDescriptor, out map[string]string, prefix string) {
	out[prefix+string(md.FullName())] = safe(func() string {
		var sb strings.Builder
		fmt.Fprintf(&sb, "message %s map=%v ph=%v", md.FullName(), md.IsMapEntry(), md.IsPlaceholder())
		fs := md.Fields()
		for i := 0; i < fs.Len(); i++ {
			fd := fs.Get(i)
			sb.WriteString(" [" + dumpField(fd) + "]")
			ok := fs.ByName(fd.Name()) == fd && fs.ByNumber(fd.Number()) == fd && fs.ByJSONName(fd.JSONName()) == fd && fs.ByTextName(fd.TextName()) == fd
			fmt.Fprintf(&sb, "%v", ok)
		}
		ons := md.Oneofs()
		for i := 0; i < ons.Len(); i++ {
			od := ons.Get(i)
			fmt.Fprintf(&sb, " oneof %s/%d/%v", od.Name(), od.Fields().Len(), ons.ByName(od.Name()) == od)
			for j := 0; j < od.Fields().Len(); j++ {
				f := od.Fields().Get(j)
				fmt.Fprintf(&sb, "/%v", od.Fields().ByNumber(f.Number()) == f && od.Fields().ByName(f.Name()) == f)
			}
		}
		fmt.Fprintf(&sb, " rn=%d/%v rr=%d/%v req=%d/%v xr=%d/%v", md.ReservedNames().Len(), md.ReservedNames().Has("foo"),
			md.ReservedRanges().Len(), md.ReservedRanges().Has(1000), md.RequiredNumbers().Len(), md.RequiredNumbers().Has(1),
			md.ExtensionRanges().Len(), md.ExtensionRanges().Has(100))
		es := md.Enums()
		for i := 0; i < es.Len(); i++ {
			sb.WriteString(" {" + dumpEnum(es.Get(i)) + "}")
			fmt.Fprintf(&sb, "%v", es.ByName(es.Get(i).Name()) == es.Get(i))
		}
		xs := md.Extensions()
		for i := 0; i < xs.Len(); i++ {
			sb.WriteString(" x[" + dumpField(xs.Get(i)) + "]")
		}
		return sb.String()
	})
	ms := md.Messages()
	for i := 0; i < ms.Len(); i++ {
		if ms.ByName(ms.Get(i).Name()) != ms.Get(i) {
			out[prefix+string(ms.Get(i).FullName())+"!byname"] = "mismatch"
		}
		dumpMessage(ms.Get(i), out, prefix)
	}
}

func dumpFile(fd protoreflect.FileDescriptor, out map[string]string) {
	p := "file:" + fd.Path() + ":"
	out[p] = safe(func() string {
		var sb strings.Builder
		fmt.Fprintf(&sb, "%s pkg=%s syn=%v", fd.Path(), fd.Package(), fd.Syntax())
		for i := 0; i < fd.Imports().Len(); i++ {
			im := fd.Imports().Get(i)
			fmt.Fprintf(&sb, " imp=%s/%v", im.Path(), im.IsPublic)
		}
		opts := fd.Options()
		fmt.Fprintf(&sb, " opts=%d", proto.Size(opts))
		for i := 0; i < fd.Enums().Len(); i++ {
			sb.WriteString(" {" + dumpEnum(fd.Enums().Get(i)) + "}")
		}
		for i := 0; i < fd.Extensions().Len(); i++ {
			sb.WriteString(" x[" + dumpField(fd.Extensions().Get(i)) + "]")
		}
		for i := 0; i < fd.Services().Len(); i++ {
			sd := fd.Services().Get(i)
			fmt.Fprintf(&sb, " svc %s", sd.FullName())
			for j := 0; j < sd.Methods().Len(); j++ {
				m := sd.Methods().Get(j)
				fmt.Fprintf(&sb, " %s(%s)%s/%v/%v", m.Name(), m.Input().FullName(), m.Output().FullName(), m.IsStreamingClient(), sd.Methods().ByName(m.Name()) == m)
			}
		}
		sl := fd.SourceLocations()
		fmt.Fprintf(&sb, " loc=%d", sl.Len())
		if fd.Messages().Len() > 0 {
			l := sl.ByDescriptor(fd.Messages().Get(0))
			fmt.Fprintf(&sb, "/%d:%d", l.StartLine, l.StartColumn)
		}
		return sb.String()
	})
	for i := 0; i < fd.Messages().Len(); i++ {
		dumpMessage(fd.Messages().Get(i), out, p)
	}
}

// fillAndRoundTrip sets every field of a new message of type mt to a fixed value by reflection,
// marshals, unmarshals and formats it: first use of MessageInfo.init, the coder tables, converters.
func fillAndRoundTrip(mt protoreflect.MessageType) string {
	m := mt.New()
	md := m.Descriptor()
	fs := md.Fields()
	scalar := func(fd protoreflect.FieldDescriptor) protoreflect.Value {
		switch fd.Kind() {
		case protoreflect.BoolKind:
			return protoreflect.ValueOfBool(true)
		case protoreflect.EnumKind:
			return protoreflect.ValueOfEnum(fd.Enum().Values().Get(fd.Enum().Values().Len() - 1).Number())
		case protoreflect.Int32Kind, protoreflect.Sint32Kind, protoreflect.Sfixed32Kind:
			return protoreflect.ValueOfInt32(-7)
		case protoreflect.Int64Kind, protoreflect.Sint64Kind, protoreflect.Sfixed64Kind:
			return protoreflect.ValueOfInt64(-77)
		case protoreflect.Uint32Kind, protoreflect.Fixed32Kind:
			return protoreflect.ValueOfUint32(7)
		case protoreflect.Uint64Kind, protoreflect.Fixed64Kind:
			return protoreflect.ValueOfUint64(77)
		case protoreflect.FloatKind:
			return protoreflect.ValueOfFloat32(1.5)
		case protoreflect.DoubleKind:
			return protoreflect.ValueOfFloat64(2.5)
		case protoreflect.StringKind:
			return protoreflect.ValueOfString("s")
		case protoreflect.BytesKind:
			return protoreflect.ValueOfBytes([]byte("b"))
		}
		return protoreflect.Value{}
	}
	for i := 0; i < fs.Len(); i++ {
		fd := fs.Get(i)
		if fd.IsWeak() {
			continue
		}
		switch {
		case fd.IsMap():
			mp := m.Mutable(fd).Map()
			k := scalar(fd.MapKey()).MapKey()
			if fd.MapValue().Message() != nil {
				mp.Set(k, mp.NewValue())
			} else {
				mp.Set(k, scalar(fd.MapValue()))
			}
		case fd.IsList():
			l := m.Mutable(fd).List()
			if fd.Message() != nil {
				l.Append(l.NewElement())
			} else {
				l.Append(scalar(fd))
			}
		case fd.Message() != nil:
			if fd.ContainingOneof() == nil || fd.ContainingOneof().Fields().Get(0) == fd {
				m.Mutable(fd)
			}
		default:
			if fd.ContainingOneof() == nil || fd.ContainingOneof().Fields().Get(0) == fd {
				m.Set(fd, scalar(fd))
			}
		}
	}
	b, err := proto.MarshalOptions{Deterministic: true, AllowPartial: true}.Marshal(m.Interface())
	m2 := mt.New()
	err2 := proto.UnmarshalOptions{AllowPartial: true}.Unmarshal(b, m2.Interface())
	txt, _ := prototext.MarshalOptions{AllowPartial: true}.Marshal(m2.Interface())
	h := sha256.Sum256(txt)
	return fmt.Sprintf("%s n=%d size=%d %x err=%v/%v eq=%v text=%x init=%v", md.FullName(), fs.Len(), proto.Size(m.Interface()), sha256.Sum256(b), err, err2,
		proto.Equal(m.Interface(), m2.Interface()), h[:6], proto.CheckInitialized(m.Interface()) == nil)
}

// ---------------------------------------------------------------------------- aberrant (hand-written legacy) types

type abEnum int32

func (e abEnum) String() string { return fmt.Sprint(int32(e)) }

type abLeaf struct {
	A *int32   `protobuf:"varint,1,opt,name=a" json:"a,omitempty"`
	B []string `protobuf:"bytes,2,rep,name=b" json:"b,omitempty"`
}

func (*abLeaf) Reset()         {}
func (*abLeaf) String() string { return "abLeaf" }
func (*abLeaf) ProtoMessage()  {}

type abMid struct {
	Leaf  *abLeaf          `protobuf:"bytes,1,opt,name=leaf" json:"leaf,omitempty"`
	Leafs []*abLeaf        `protobuf:"bytes,2,rep,name=leafs" json:"leafs,omitempty"`
	E     *abEnum          `protobuf:"varint,3,opt,name=e,enum=verif.AbEnum" json:"e,omitempty"`
	M     map[string]int64 `protobuf:"bytes,4,rep,name=m" json:"m,omitempty" protobuf_key:"bytes,1,opt,name=key" protobuf_val:"varint,2,opt,name=value"`
}

func (*abMid) Reset()         {}
func (*abMid) String() string { return "abMid" }
func (*abMid) ProtoMessage()  {}

type abTop struct {
	Mid  *abMid  `protobuf:"bytes,1,opt,name=mid" json:"mid,omitempty"`
	Self *abTop  `protobuf:"bytes,2,opt,name=self" json:"self,omitempty"`
	X    *uint64 `protobuf:"fixed64,3,opt,name=x" json:"x,omitempty"`
	Y    []byte  `protobuf:"bytes,4,opt,name=y" json:"y,omitempty"`
}

func (*abTop) Reset()         {}
func (*abTop) String() string { return "abTop" }
func (*abTop) ProtoMessage()  {}

type abOther struct {
	Top *abTop   `protobuf:"bytes,1,opt,name=top" json:"top,omitempty"`
	F   *float64 `protobuf:"fixed64,2,opt,name=f" json:"f,omitempty"`
}

func (*abOther) Reset()         {}
func (*abOther) String() string { return "abOther" }
func (*abOther) ProtoMessage()  {}

func legacyItems() []any {
	var items []any
	t := reflect.TypeOf(legacy.Legacy{})
	for i := 0; i < t.NumField(); i++ {
		ft := t.Field(i).Type
		if ft.Kind() == reflect.Ptr && ft.Elem().Kind() == reflect.Struct && strings.HasPrefix(t.Field(i).Name, "F") {
			items = append(items, reflect.New(ft.Elem()).Interface())
		}
	}
	items = append(items, &abOther{}, &abTop{}, &abMid{}, &abLeaf{})
	return items
}

// ---------------------------------------------------------------------------- the child

type item struct {
	key string
	run func(out map[string]string)
}

func scenarioItems(sc string, g int, res *childResult, mu *sync.Mutex) []item {
	var items []item
	fail := func(s string) {
		mu.Lock()
		if len(res.Fails) < 10 {
			res.Fails = append(res.Fails, s)
		}
		mu.Unlock()
	}
	switch sc {
	case "desc":
		var files []protoreflect.FileDescriptor
		protoregistry.GlobalFiles.RangeFiles(func(fd protoreflect.FileDescriptor) bool { files = append(files, fd); return true })
		for _, fd := range files {
			fd := fd
			items = append(items, item{fd.Path(), func(out map[string]string) { dumpFile(fd, out) }})
		}
	case "types":
		protoregistry.GlobalTypes.RangeMessages(func(mt protoreflect.MessageType) bool {
			items = append(items, item{"msg:" + string(mt.Descriptor().FullName()), func(out map[string]string) {
				out["msg:"+string(mt.Descriptor().FullName())] = safe(func() string { return fillAndRoundTrip(mt) })
			}})
			return true
		})
		protoregistry.GlobalTypes.RangeEnums(func(et protoreflect.EnumType) bool {
			items = append(items, item{"enum:" + string(et.Descriptor().FullName()), func(out map[string]string) {
				out["enum:"+string(et.Descriptor().FullName())] = safe(func() string {
					v0 := et.Descriptor().Values().Get(0)
					e := et.New(v0.Number())
					return dumpEnum(et.Descriptor()) + fmt.Sprintf(" new=%d/%s/%v", e.Number(), e.Descriptor().FullName(), e.Type() == et)
				})
			}})
			return true
		})
		protoregistry.GlobalTypes.RangeExtensions(func(xt protoreflect.ExtensionType) bool {
			name := string(xt.TypeDescriptor().FullName()) // FullName of a legacy ExtensionDesc is derived lazily, too
			items = append(items, item{"ext:" + name, func(out map[string]string) {
				out["ext:"+name] = safe(func() string {
					xd := xt.TypeDescriptor()
					z := xt.Zero()
					return dumpField(xd) + fmt.Sprintf(" valid=%v iface=%T new=%v type=%v", xt.IsValidValue(z), xt.InterfaceOf(z), xt.New().IsValid(), xd.Type() == xt)
				})
			}})
			return true
		})
	case "legacy":
		for _, v := range legacyItems() {
			v := v
			key := fmt.Sprintf("legacy:%T", v)
			items = append(items, item{key, func(out map[string]string) {
				out[key] = safe(func() string {
					mv := protoimpl.X.ProtoMessageV2Of(v)
					m := mv.ProtoReflect()
					tmp := map[string]string{}
					dumpMessage(m.Descriptor(), tmp, "")
					var ks []string
					for k := range tmp {
						ks = append(ks, k)
					}
					sort.Strings(ks)
					var sb strings.Builder
					for _, k := range ks {
						sb.WriteString(tmp[k] + "\n")
					}
					sb.WriteString(fillAndRoundTrip(m.Type()))
					// the wrapper type is cached: asking again yields the same MessageType and descriptor
					m2 := protoimpl.X.ProtoMessageV2Of(reflect.New(reflect.TypeOf(v).Elem()).Interface()).ProtoReflect()
					fmt.Fprintf(&sb, " same-type=%v same-desc=%v", m2.Type() == m.Type(), m2.Descriptor() == m.Descriptor())
					return sb.String()
				})
			}})
		}
		items = append(items, item{"legacy-enum", func(out map[string]string) {
			out["legacy-enum"] = safe(func() string {
				ed := protoimpl.X.EnumDescriptorOf(abEnum(0))
				et := protoimpl.X.EnumTypeOf(abEnum(0))
				return fmt.Sprintf("%s %d %v %v", ed.FullName(), ed.Values().Len(), et.Descriptor() == ed, protoimpl.X.EnumDescriptorOf(abEnum(1)) == ed)
			})
		}})
	case "registry":
		// lookups of generated names (deterministic) …
		var names []protoreflect.FullName
		protoregistry.GlobalTypes.RangeMessages(func(mt protoreflect.MessageType) bool {
			if !strings.HasPrefix(string(mt.Descriptor().FullName()), "verif.conc.") {
				names = append(names, mt.Descriptor().FullName())
			}
			return true
		})
		sort.Slice(names, func(i, j int) bool { return names[i] < names[j] })
		if len(names) > 120 {
			names = names[:120]
		}
		for _, n := range names {
			n := n
			items = append(items, item{"find:" + string(n), func(out map[string]string) {
				out["find:"+string(n)] = safe(func() string {
					d, err := protoregistry.GlobalFiles.FindDescriptorByName(n)
					mt, err2 := protoregistry.GlobalTypes.FindMessageByName(n)
					mt2, err3 := protoregistry.GlobalTypes.FindMessageByURL("type.googleapis.com/" + string(n))
					f, err4 := protoregistry.GlobalFiles.FindFileByPath(d.ParentFile().Path())
					return fmt.Sprintf("%v %v %v %v %v %v %v", d.FullName(), err, mt.Descriptor() == d, err2, mt2 == mt, err3, f == d.ParentFile() && err4 == nil)
				})
			}})
		}
		// … interleaved with registrations of this goroutine's own files and types
		for k := 0; k < 6; k++ {
			k := k
			items = append(items, item{fmt.Sprintf("register:%d", k), func(out map[string]string) {
				out[fmt.Sprintf("register:%d", k)] = safe(func() string { return registerOwn(g, k, fail) })
			}})
		}
		// … and lookups of the other goroutines' names: found or not, but never half registered
		for k := 0; k < 12; k++ {
			k := k
			items = append(items, item{fmt.Sprintf("peek:%d", k), func(out map[string]string) {
				peekOthers(g, k, fail)
			}})
		}
	}
	return items
}

func ownFile(g, k int) *descriptorpb.FileDescriptorProto {
	pkg := fmt.Sprintf("verif.conc.g%d.k%d", g, k)
	fdp := &descriptorpb.FileDescriptorProto{
		Name:    proto.String(fmt.Sprintf("verif/conc/g%d_k%d.proto", g, k)),
		Package: proto.String(pkg),
		Syntax:  proto.String("proto3"),
	}
	for i := 0; i < 4; i++ {
		fdp.MessageType = append(fdp.MessageType, &descriptorpb.DescriptorProto{
			Name: proto.String(fmt.Sprintf("M%d", i)),
			Field: []*descriptorpb.FieldDescriptorProto{
				{Name: proto.String("a"), Number: proto.Int32(1), Type: descriptorpb.FieldDescriptorProto_TYPE_INT32.Enum(), Label: descriptorpb.FieldDescriptorProto_LABEL_OPTIONAL.Enum()},
				{Name: proto.String("b"), Number: proto.Int32(2), Type: descriptorpb.FieldDescriptorProto_TYPE_STRING.Enum(), Label: descriptorpb.FieldDescriptorProto_LABEL_REPEATED.Enum()},
			},
		})
	}
	fdp.EnumType = []*descriptorpb.EnumDescriptorProto{{Name: proto.String("E"), Value: []*descriptorpb.EnumValueDescriptorProto{
		{Name: proto.String(fmt.Sprintf("E_G%d_K%d_ZERO", g, k)), Number: proto.Int32(0)}}}}
	return fdp
}

func registerOwn(g, k int, fail func(string)) string {
	fd, err := protodesc.NewFile(ownFile(g, k), protoregistry.GlobalFiles)
	if err != nil {
		return "newfile:" + err.Error()
	}
	if err := protoregistry.GlobalFiles.RegisterFile(fd); err != nil {
		return "register:" + strings.ReplaceAll(err.Error(), fmt.Sprintf("g%d", g), "gN")
	}
	var sb strings.Builder
	for i := 0; i < fd.Messages().Len(); i++ {
		md := fd.Messages().Get(i)
		err := protoregistry.GlobalTypes.RegisterMessage(dynamicpb.NewMessageType(md))
		d, err2 := protoregistry.GlobalFiles.FindDescriptorByName(md.FullName())
		mt, err3 := protoregistry.GlobalTypes.FindMessageByName(md.FullName())
		fmt.Fprintf(&sb, "%v/%v/%v/%v/%v;", err, d == protoreflect.Descriptor(md), err2, mt != nil && mt.Descriptor() == md, err3)
	}
	// a second registration of the same path must be refused and must change nothing
	// (the global registry reports the conflict by panicking, with the lock released by its defer)
	fd2, _ := protodesc.NewFile(ownFile(g, k), nil)
	refused := func() (refused bool) {
		defer func() {
			if recover() != nil {
				refused = true
			}
		}()
		return protoregistry.GlobalFiles.RegisterFile(fd2) != nil
	}()
	got, _ := protoregistry.GlobalFiles.FindFileByPath(fd.Path())
	fmt.Fprintf(&sb, "dup-refused=%v same=%v", refused, got == fd)
	return sb.String()
}

// peekOthers looks up a declaration of another goroutine's file; if it is visible, the whole
// file must be visible (registrations are monotone, so later lookups see at least as much).
func peekOthers(g, k int, fail func(string)) {
	other, ok := (g+1+k)%64, k%6
	pkg := fmt.Sprintf("verif.conc.g%d.k%d", other, ok)
	path := fmt.Sprintf("verif/conc/g%d_k%d.proto", other, ok)
	probe := protoreflect.FullName(fmt.Sprintf("%s.M%d", pkg, 3-(k%4)))
	d, err := protoregistry.GlobalFiles.FindDescriptorByName(probe)
	if err != nil {
		return
	}
	f, err := protoregistry.GlobalFiles.FindFileByPath(path)
	if err != nil || f != d.ParentFile() {
		fail(fmt.Sprintf("half-registered file observed: %s is visible but FindFileByPath(%s) = %v", probe, path, err))
		return
	}
	for i := 0; i < 4; i++ {
		n := protoreflect.FullName(fmt.Sprintf("%s.M%d", pkg, i))
		if _, err := protoregistry.GlobalFiles.FindDescriptorByName(n); err != nil {
			fail(fmt.Sprintf("half-registered file observed: %s is visible but %s is not: %v", probe, n, err))
		}
	}
	if _, err := protoregistry.GlobalFiles.FindDescriptorByName(protoreflect.FullName(pkg + ".E")); err != nil {
		fail(fmt.Sprintf("half-registered file observed: %s is visible but the enum %s.E is not", probe, pkg))
	}
	n := 0
	protoregistry.GlobalFiles.RangeFilesByPackage(protoreflect.FullName(pkg), func(protoreflect.FileDescriptor) bool { n++; return true })
	if n != 1 {
		fail(fmt.Sprintf("half-registered file observed: package %s has %d files", pkg, n))
	}
}

func digestOf(obs map[string]string) (string, map[string]string) {
	ks := make([]string, 0, len(obs))
	for k := range obs {
		ks = append(ks, k)
	}
	sort.Strings(ks)
	h := sha256.New()
	items := make(map[string]string, len(ks))
	for _, k := range ks {
		fmt.Fprintf(h, "%s=%s\n", k, obs[k])
		ih := sha256.Sum256([]byte(obs[k]))
		items[k] = hex.EncodeToString(ih[:4])
	}
	return hex.EncodeToString(h.Sum(nil))[:24], items
}

var itemMaps = map[string]map[string]string{} // digest → per-item hashes (diagnostics), filled by the child

func childC19(res *childResult, sc string, n int, seed int64, trace bool) {
	if sc == "cycle" {
		childCycle(res, max(n, 1), seed)
		return
	}
	if sc == "extinfo" {
		childExtInfo(res, max(n, 1), seed)
		return
	}
	runtime.GOMAXPROCS(runtime.NumCPU())
	if n < 1 {
		n = 1
	}
	var mu sync.Mutex
	if trace {
		hookStart()
	}
	digests := make([]string, n)
	panics := make([]string, n)
	var ready, wg sync.WaitGroup
	var start int32
	ready.Add(n)
	wg.Add(n)
	for g := 0; g < n; g++ {
		go func(g int) {
			defer wg.Done()
			defer func() {
				if e := recover(); e != nil {
					buf := make([]byte, 1500)
					buf = buf[:runtime.Stack(buf, false)]
					panics[g] = fmt.Sprintf("%v\n%s", e, buf)
				}
			}()
			// The item list is gathered through registry Range calls only (they do not initialise anything lazily).
			items := scenarioItems(sc, g, res, &mu)
			r := rand.New(rand.NewSource(seed*1000 + int64(g)))
			if n > 1 {
				r.Shuffle(len(items), func(i, j int) { items[i], items[j] = items[j], items[i] })
				if g%3 == 0 { // some goroutines start on the same item: maximal contention on one initialiser
					sort.Slice(items, func(i, j int) bool { return items[i].key < items[j].key })
				}
			}
			obs := map[string]string{}
			ready.Done()
			for atomic.LoadInt32(&start) == 0 {
				if n >= runtime.GOMAXPROCS(0) {
					runtime.Gosched()
				}
			}
			for _, it := range items {
				it.run(obs)
			}
			d, im := digestOf(obs)
			digests[g] = d
			if os.Getenv("VERIF_CONC_DEBUG") == fmt.Sprint(g) {
				ks := make([]string, 0, len(obs))
				for k := range obs {
					ks = append(ks, k)
				}
				sort.Strings(ks)
				for _, k := range ks {
					fmt.Fprintf(os.Stderr, "%s = %s\n", k, obs[k])
				}
			}
			mu.Lock()
			if _, ok := itemMaps[d]; !ok && len(itemMaps) < 3 {
				itemMaps[d] = im
			}
			mu.Unlock()
		}(g)
	}
	ready.Wait()
	atomic.StoreInt32(&start, 1)
	done := make(chan struct{})
	go func() { wg.Wait(); close(done) }()
	select {
	case <-done:
	case <-time.After(600 * time.Second):
		res.Fails = append(res.Fails, "goroutines did not finish within 600 s (deadlock?)")
	}
	if trace {
		res.Traces = initTraces(hookStop(), res)
	}
	for g, p := range panics {
		if p != "" {
			res.Fails = append(res.Fails, fmt.Sprintf("goroutine %d panicked: %s", g, p))
		}
	}
	res.Digests = digests
	// diagnostics: "key=itemhash" of the first (≤3) distinct observation sets
	var ds []string
	for d := range itemMaps {
		ds = append(ds, d)
	}
	sort.Strings(ds)
	for _, d := range ds {
		var ks []string
		for k := range itemMaps[d] {
			ks = append(ks, k)
		}
		sort.Strings(ks)
		var sb strings.Builder
		sb.WriteString(d)
		for _, k := range ks {
			sb.WriteString("\x00" + k + "=" + itemMaps[d][k])
		}
		res.Detail = append(res.Detail, sb.String())
	}
}

// ---------------------------------------------------------------------------- the parent

func detailMap(res *childResult, digest string) map[string]string {
	for _, d := range res.Detail {
		parts := strings.Split(d, "\x00")
		if parts[0] != digest {
			continue
		}
		m := map[string]string{}
		for _, kv := range parts[1:] {
			if i := strings.LastIndexByte(kv, '='); i >= 0 {
				m[kv[:i]] = kv[i+1:]
			}
		}
		return m
	}
	return nil
}

func diffItems(a, b map[string]string) []string {
	var out []string
	for k, v := range a {
		if w, ok := b[k]; !ok {
			out = append(out, k+" (missing)")
		} else if w != v {
			out = append(out, k)
		}
	}
	for k := range b {
		if _, ok := a[k]; !ok {
			out = append(out, k+" (extra)")
		}
	}
	sort.Strings(out)
	if len(out) > 8 {
		out = append(out[:8], fmt.Sprintf("… %d more", len(out)-8))
	}
	return out
}

func runC19(c *C) {
	c.R.Rule = "one case = one goroutine of one fresh child process making first use of every item of a scenario (desc: all registered file descriptors incl. lazily built tables; types: all registered message/enum/extension types; legacy: legacy and hand-written aberrant messages through ProtoMessageV2Of; registry: lookups + registrations on the global registries) after a barrier; its digest is compared with the digest of a sequential child; non-trivial = child with ≥ 2 goroutines; distinct = distinct (scenario, goroutine count, seed, goroutine)"
	me := self()
	seqDigest := map[string]string{} // (binary label, scenario) → digest of the sequential child of that binary
	seqRes := map[string]*childResult{}
	check := func(bin, label, sc string, n int, seed int64, race bool) {
		spec := fmt.Sprintf("c19:%s:%d:%d", sc, n, seed)
		in := map[string]any{"child": spec, "binary": label, "replay": "VERIF_CONC_CHILD=" + spec + " " + bin}
		res, stderr, err := runChild(bin, spec, 900*time.Second)
		if race {
			if rep := raceReport(stderr); rep != "" {
				in["report"] = rep
				if at := roundBefore(stderr); at != "" {
					in["round"] = at // the child announces every round on stderr; this is the last one before the report
				}
				c.Fail(vh.Failure{Kind: "property", What: "C19 DATA RACE reported by the race detector during concurrent first use (" + sc + ")", Input: in})
				return
			}
		}
		if res == nil {
			what := fmt.Sprintf("C19 child %s crashed: %v: %s", spec, err, tail(stderr, 1500))
			c.Fail(vh.Failure{Kind: "panic", What: what, Input: in})
			return
		}
		for _, f := range res.Fails {
			c.Fail(vh.Failure{Kind: "property", What: "C19 " + sc + ": " + f, Input: in})
		}
		if n == 1 {
			seqDigest[label+sc] = res.Digests[0]
			seqRes[label+sc] = res
			c.Hist("sequential:" + label + ":" + sc)
			return
		}
		want := seqDigest[label+sc]
		for g, d := range res.Digests {
			c.Case(fmt.Sprintf("%s|%s|%d|%d|%d", label, sc, n, seed, g), n > 1)
			if d != want {
				in["goroutine"] = g
				in["differing_items"] = diffItems(detailMap(seqRes[label+sc], want), detailMap(res, d))
				c.Fail(vh.Failure{Kind: "property", What: fmt.Sprintf("C19 %s: goroutine %d of %d observed something else than the sequential program (digest %s, sequential %s)", sc, g, n, d, want), Input: in})
				break
			}
		}
		c.Hist(fmt.Sprintf("%s:%s:n=%d", label, sc, n))
	}
	for _, raw := range c.ReplayInputs() {
		// a schedule cannot be replayed; the recorded child (scenario, goroutine count, seed) is re-run ten times
		// with neighbouring seeds, with the binary (plain / -race) that reported it
		var in struct{ Child, Binary string }
		if json.Unmarshal(raw, &in) == nil && strings.HasPrefix(in.Child, "c19:") {
			p := strings.Split(in.Child, ":")
			bin, label, race := me, "plain", false
			if in.Binary == "race" {
				if v := buildVariants(c); v.Race != "" {
					bin, label, race = v.Race, "race", true
				}
			}
			if len(p) == 4 {
				check(bin, label, p[1], 1, 0, race)
				for i := 0; i < 10 && !c.Failed(); i++ {
					check(bin, label, p[1], atoiDefault(p[2], 8), int64(atoiDefault(p[3], 1))+int64(i), race)
				}
			}
		}
	}
	for _, sc := range scenarios {
		check(me, "plain", sc, 1, 0, false)
		if seqDigest["plain"+sc] == "" {
			c.Fail(vh.Failure{Kind: "panic", What: "C19 sequential child produced no digest for " + sc})
			continue
		}
		// the sequential digest itself must be reproducible
		first, firstRes := seqDigest["plain"+sc], seqRes["plain"+sc]
		check(me, "plain", sc, 1, 1, false)
		if seqDigest["plain"+sc] != first {
			c.Fail(vh.Failure{Kind: "correspondence", What: "C19 sequential digest of " + sc + " is not reproducible across processes (the harness does not canonicalise enough)",
				Input: map[string]any{"differing_items": diffItems(detailMap(firstRes, first), detailMap(seqRes["plain"+sc], seqDigest["plain"+sc]))}})
		}
		ns := []int{3, 16, 64}
		if c.Thorough() {
			ns = []int{2, 3, 4, 8, 16, 32, 64}
		}
		reps := c.N(1, 6)
		for rep := 0; rep < reps && !c.Failed(); rep++ {
			for _, n := range ns {
				check(me, "plain", sc, n, c.Seed*100+int64(rep), false)
			}
		}
	}
	if s := seqRes["plaindesc"]; s != nil {
		c.Sample(map[string]any{"scenario": "desc", "items": len(detailMap(s, s.Digests[0])), "digest": s.Digests[0]})
	}
	if s := seqRes["plaintypes"]; s != nil {
		c.Sample(map[string]any{"scenario": "types", "items": len(detailMap(s, s.Digests[0])), "digest": s.Digests[0]})
	}
	if c.HasModel() {
		facts := c.Ask("facts")
		c.R.Notes = append(c.R.Notes, "protocol variants selected from the extracted shape facts: "+facts)
		want := "msginfo=flag/bodyThenStore/locks=true/storeOnHit=false file=started/bodyThenStore/locks=true/storeOnHit=true once=flag/bodyThenStore/locks=true/storeOnHit=false reg=locks:true aberrant=never extinfo=flag/bodyThenStore/locks=true/storeOnHit=false"
		got := facts
		if i := strings.Index(facts, "msginfo="); i >= 0 {
			got = facts[i:]
		}
		c.Compare("model variants for the initialisers and the registry", "facts", want, got)
	}

	v := buildVariants(c)
	if v.Race == "" {
		c.R.Notes = append(c.R.Notes, "race detector run skipped: "+v.RaceError)
		c.Hist("race:skipped")
	} else {
		nRace := 0
		for _, sc := range scenarios {
			check(v.Race, "race", sc, 1, 0, true)
			if seqDigest["race"+sc] == "" {
				continue
			}
			for rep := 0; rep < c.N(1, 4) && !c.Failed(); rep++ {
				for _, n := range []int{4, 16}[c.N(1, 0):] {
					check(v.Race, "race", sc, n, c.Seed*100+int64(rep), true)
					nRace++
				}
			}
		}
		c.R.Notes = append(c.R.Notes, fmt.Sprintf("race detector: %d fresh -race processes with concurrent first use, no report", nRace))
	}
	if v.Hooks == "" {
		why := "the event hooks (fixes/hook-conc.diff: internal/verifhook + calls in MessageInfo.initOnce, File.lazyInitOnce) are not in this tree"
		if v.HookPkg {
			why = "hooked build failed: " + v.HooksErr
			c.Fail(vh.Failure{Kind: "correspondence", What: "C19 hooked harness build failed: " + v.HooksErr})
		}
		c.R.Notes = append(c.R.Notes, "trace validation (recorded initOnce/lazyInitOnce events → model acceptsTrace) skipped: "+why)
		c.Hist("trace:skipped")
	} else if c.HasModel() {
		acc := 0
		for _, sc := range []string{"desc", "types", "legacy"} {
			for _, n := range []int{4, 16, 64} {
				spec := fmt.Sprintf("c19trace:%s:%d:%d", sc, n, c.Seed)
				res, stderr, err := runChild(v.Hooks, spec, 900*time.Second)
				if res == nil {
					c.Fail(vh.Failure{Kind: "panic", What: fmt.Sprintf("C19 trace child failed: %v %s", err, tail(stderr, 800)), Input: map[string]any{"child": spec}})
					continue
				}
				for _, f := range res.Fails {
					c.Fail(vh.Failure{Kind: "property", What: "C19 (hooked build) " + f, Input: map[string]any{"child": spec}})
				}
				for _, tr := range res.Traces {
					line := strings.Join(tr, " ")
					ans := c.Ask("%s", line)
					if strings.HasPrefix(ans, "accept runs=1 flag=1") {
						acc++
						c.Hist("trace:accepted")
					} else {
						c.Fail(vh.Failure{Kind: "property", What: "C19 recorded initialisation is not a run of the protocol model: " + ans, Input: map[string]any{"trace": line, "child": spec}, Model: ans})
					}
				}
				for k, n := range res.Hist {
					c.R.Histogram[k] += n
				}
			}
		}
		c.R.Notes = append(c.R.Notes, fmt.Sprintf("trace validation: %d recorded initialisations (MessageInfo.initOnce / File.lazyInitOnce events of real concurrent first use) accepted by the model with the body run exactly once", acc))
	}
}

func atoiDefault(s string, d int) int {
	n := 0
	if _, err := fmt.Sscanf(s, "%d", &n); err != nil {
		return d
	}
	return n
}

// roundBefore returns the last "#conc-round …" announcement that precedes the first race report.
func roundBefore(stderr string) string {
	i := strings.Index(stderr, "WARNING: DATA RACE")
	if i < 0 {
		return ""
	}
	j := strings.LastIndex(stderr[:i], "#conc-round ")
	if j < 0 {
		return ""
	}
	line := stderr[j+len("#conc-round "):]
	if k := strings.IndexByte(line, '\n'); k >= 0 {
		line = line[:k]
	}
	return line
}
